(* C15 qdqueue: theorems about the micro-step machine of DqMicro.v (src/ds/qdqueue.c with the advertisement heap,
   last_consumed and last_ad_* heuristics), for EVERY schedule, every number of shepherds, every allsheps / neighbors
   configuration, every program and ARBITRARY initial values of the hint fields.                                *)
From Coq Require Import List NArith Bool Arith Lia ZifyBool ZifyNat ZifyN Permutation Sorted.
From QV Require Import CQueues.Dq CQueues.DqProofs CQueues.DqMicro.
Import ListNotations.
Local Open Scope N_scope.

Ltac inv H := inversion H; subst; clear H.
Ltac invs H := first [discriminate H | injection H as <- <-].

(* ------------------------------------------------------------------------------------------------------ *)
(* runs                                                                                                    *)

Lemma dm_run_app : forall a b s, dm_run s (a ++ b) = dm_run (dm_run s a) b.
Proof. intros a b s. unfold dm_run. apply fold_left_app. Qed.

Lemma dm_run_snoc : forall a t s, dm_run s (a ++ [t]) = dm_step' (dm_run s a) t.
Proof. intros a t s. rewrite dm_run_app. reflexivity. Qed.

Lemma dm_run_invariant : forall (P : dstate -> Prop),
  (forall s t s' r, P s -> dm_step s t = Some (s', r) -> P s') ->
  forall sched s, P s -> P (dm_run s sched).
Proof.
  intros P Hstep sched. induction sched as [|t sched IH]; intros s Hs; cbn [dm_run fold_left].
  - exact Hs.
  - apply IH. unfold dm_step'. destruct (dm_step s t) as [[s' r]|] eqn:E; [eapply Hstep; eassumption|exact Hs].
Qed.

(* ------------------------------------------------------------------------------------------------------ *)
(* the step function as a relation: six kinds of steps                                                     *)

(* the value an enqueue call in flight still has to put, with its destination *)
Definition pend_pc (p : pc) : list (nat * N) :=
  match p with PEnqEmpty qi v => [(qi, v)] | PEnqPut qi v _ => [(qi, v)] | _ => [] end.
Definition opval (me : nat) (o : dmop) : list (nat * N) :=
  match o with DEnq v => [(me, v)] | DEnqThere th v => [(th, v)] | DDeq => [] end.
Definition is_stret (p : pc) : bool := match p with PDeqStRet _ _ => true | _ => false end.

(* the qlfqueue_dequeue sites of qdqueue_dequeue and the sub-queue each one is aimed at *)
Definition deq_site (s : dstate) (k : dtask) : option nat :=
  match k_pc k with
  | PDeqOwn => Some (k_me k)
  | PDeqSteal ash => Some ash
  | PDeqRDeq idx _ => Some (remote s (k_me k) idx)
  | PDeqLcDeq _ l => Some l
  | _ => None
  end.

Definition ret_ok (p : pc) (r : dres) : Prop :=
  match p, r with
  | PEnqRet, DInt _ => True
  | PDeqStRet _ x, DPtr (Some y) => x = y
  | PDeqRetNull, DPtr None => True
  | _, _ => False
  end.

Inductive dstepR (s : dstate) (t : nat) (k : dtask) : dstate -> option dres -> Prop :=
| R_start : forall o rest, k_pc k = PIdle -> k_ops k = o :: rest ->
    dstepR s t k (upd s (dm_subs s) t (mkDT (k_me k) (start (k_me k) o) rest [] (k_out k))) None
| R_enq : forall qi v stat p', k_pc k = PEnqPut qi v stat -> pend_pc p' = [] -> is_stret p' = false ->
    dstepR s t k (mkDM (dm_S s) (dm_alls s) (dm_nbrs s) (qpush (dm_qs s) qi v) (dm_subs s)
                       (set_nth (dm_tasks s) t (tk_goto k p')) (d_enq s ++ [v]) (d_deq s)) None
| R_take : forall i x qs', deq_site s k = Some i -> qpop (dm_qs s) i = Some (x, qs') ->
    dstepR s t k (mkDM (dm_S s) (dm_alls s) (dm_nbrs s) qs' (dm_subs s)
                       (set_nth (dm_tasks s) t (tk_goto k (PDeqStRet i x))) (d_enq s) (d_deq s ++ [x])) None
| R_miss : forall i p', deq_site s k = Some i -> qpop (dm_qs s) i = None -> pend_pc p' = [] -> is_stret p' = false ->
    dstepR s t k (upd s (dm_subs s) t (tk_see k i p')) None
| R_ret : forall subs' r, ret_ok (k_pc k) r ->
    dstepR s t k (upd s subs' t (tk_fin k r)) (Some r)
| R_local : forall subs' p', pend_pc p' = pend_pc (k_pc k) -> is_stret p' = false -> k_pc k <> PIdle ->
    deq_site s k = None -> is_stret (k_pc k) = false ->
    dstepR s t k (upd s subs' t (tk_goto k p')) None.

Lemma plain_enter_push : forall s h shep gen c,
  pend_pc (enter_push s h shep gen c) = [] /\ is_stret (enter_push s h shep gen c) = false.
Proof. intros. unfold enter_push. destruct (find_shep _ _ _); split; reflexivity. Qed.

Lemma plain_enq_nbr : forall s qi gen idx,
  pend_pc (enq_nbr s qi gen idx) = [] /\ is_stret (enq_nbr s qi gen idx) = false.
Proof. intros. unfold enq_nbr. destruct (nth_error _ _); [apply plain_enter_push|split; reflexivity]. Qed.

Lemma plain_after_push : forall s c, pend_pc (after_push s c) = [] /\ is_stret (after_push s c) = false.
Proof. intros s [qi gen idx|ash lc]; cbn [after_push]; [apply plain_enq_nbr|split; reflexivity]. Qed.

Lemma plain_loop_at : forall s idx, pend_pc (loop_at s idx) = [] /\ is_stret (loop_at s idx) = false.
Proof. intros. unfold loop_at. destruct (_ <? _)%nat; split; reflexivity. Qed.

Ltac plain_tac :=
  first [ reflexivity | apply plain_enter_push | apply plain_enq_nbr | apply plain_after_push | apply plain_loop_at
        | match goal with |- context [if ?c then _ else _] => destruct c; plain_tac end
        | match goal with |- context [match ?c with Some _ => _ | None => _ end] => destruct c; plain_tac end ].

Ltac local_tac Epc :=
  apply R_local; rewrite ?Epc;
  [ plain_tac | plain_tac | discriminate | unfold deq_site; rewrite Epc; reflexivity | reflexivity ].

Lemma dm_step_R : forall s t s' r, dm_step s t = Some (s', r) ->
  exists k, nth_error (dm_tasks s) t = Some k /\ dstepR s t k s' r.
Proof.
  intros s t s' r H. unfold dm_step in H.
  destruct (nth_error (dm_tasks s) t) as [k|] eqn:Ek; [|discriminate H].
  exists k. split; [reflexivity|].
  destruct (k_pc k) eqn:Epc.
  - (* PIdle *) destruct (k_ops k) as [|o rest] eqn:Eo; [discriminate H|]. inv H. eapply R_start; eassumption.
  - discriminate H.
  - inv H. local_tac Epc.
  - inv H. eapply R_enq; [exact Epc| |]; destruct stat; reflexivity.
  - inv H. local_tac Epc.
  - destruct (_ <=? _); inv H; local_tac Epc.
  - inv H. local_tac Epc.
  - inv H. apply R_ret. rewrite Epc. exact I.
  - destruct (q_lock _); inv H. local_tac Epc.
  - destruct (push_crit _ _ _); inv H; local_tac Epc.
  - inv H. local_tac Epc.
  - (* PDeqOwn *) unfold try_deq in H. destruct (qpop _ _) as [[x qs']|] eqn:Eq; inv H.
    + eapply R_take; [unfold deq_site; rewrite Epc; reflexivity|exact Eq].
    + eapply R_miss; [unfold deq_site; rewrite Epc; reflexivity|exact Eq|reflexivity|reflexivity].
  - inv H. apply R_ret. rewrite Epc. reflexivity.
  - inv H. local_tac Epc.
  - destruct (q_first _); inv H; local_tac Epc.
  - destruct (q_lock _); inv H. local_tac Epc.
  - destruct (pop_crit _) as [q' [[ash gen]|]]; inv H; local_tac Epc.
  - inv H. local_tac Epc.
  - inv H. local_tac Epc.
  - destruct (q_lc _) as [l|]; [destruct (l =? ash)%nat|]; inv H; local_tac Epc.
  - destruct (_ <? _); inv H; local_tac Epc.
  - inv H. local_tac Epc.
  - (* PDeqSteal *) unfold try_deq in H. destruct (qpop _ _) as [[x qs']|] eqn:Eq; inv H.
    + eapply R_take; [unfold deq_site; rewrite Epc; reflexivity|exact Eq].
    + eapply R_miss; [unfold deq_site; rewrite Epc; reflexivity|exact Eq|reflexivity|reflexivity].
  - inv H. local_tac Epc.
  - inv H. local_tac Epc.
  - (* PDeqRDeq *) unfold try_deq in H. destruct (qpop _ _) as [[x qs']|] eqn:Eq; inv H.
    + eapply R_take; [unfold deq_site; rewrite Epc; reflexivity|exact Eq].
    + eapply R_miss; [unfold deq_site; rewrite Epc; reflexivity|exact Eq| |]; plain_tac.
  - (* PDeqLcDeq *) unfold try_deq in H. destruct (qpop _ _) as [[x qs']|] eqn:Eq; inv H.
    + eapply R_take; [unfold deq_site; rewrite Epc; reflexivity|exact Eq].
    + eapply R_miss; [unfold deq_site; rewrite Epc; reflexivity|exact Eq|reflexivity|reflexivity].
  - destruct (q_first _); inv H; local_tac Epc.
  - inv H. apply R_ret. rewrite Epc. exact I.
Qed.

(* ------------------------------------------------------------------------------------------------------ *)
(* list helpers                                                                                            *)

Lemma flat_map_set_nth_perm : forall (A B : Type) (f : A -> list B) (l : list A) (t : nat) (k k' : A) (extra : list B),
  nth_error l t = Some k -> Permutation (f k) (extra ++ f k') ->
  Permutation (flat_map f l) (extra ++ flat_map f (set_nth l t k')).
Proof.
  intros A B f l t k k' extra Hn Hp.
  destruct (set_nth_split _ _ _ _ Hn) as [l1 [l2 [E [_ Hs]]]].
  rewrite Hs, E. rewrite !flat_map_app. cbn [flat_map].
  eapply perm_trans; [apply Permutation_app_head, Permutation_app_tail, Hp|].
  rewrite <- !app_assoc. rewrite (app_assoc (flat_map f l1) extra).
  rewrite (app_assoc extra (flat_map f l1)).
  apply Permutation_app_tail. apply Permutation_app_comm.
Qed.

Lemma in_set_nth_cases : forall (A : Type) (l : list A) (t : nat) (k k' x : A),
  nth_error l t = Some k -> In x (set_nth l t k') -> x = k' \/ In x l.
Proof. intros A l t k k' x _ H. eapply set_nth_In, H. Qed.

(* ------------------------------------------------------------------------------------------------------ *)
(* 1  conservation                                                                                         *)

Definition pend (k : dtask) : list (nat * N) := pend_pc (k_pc k) ++ flat_map (opval (k_me k)) (k_ops k).

Lemma pend_start : forall me o, pend_pc (start me o) = opval me o.
Proof. intros me [v|th v|]; reflexivity. Qed.

Lemma deq_site_pend : forall s k i, deq_site s k = Some i -> pend_pc (k_pc k) = [].
Proof. intros s k i H. unfold deq_site in H. destruct (k_pc k); try discriminate H; reflexivity. Qed.

Lemma ret_ok_pend : forall p r, ret_ok p r -> pend_pc p = [].
Proof. intros p r H. destruct p; try destruct H; reflexivity. Qed.

(* what a step does to the queues, the ghost histories and the pending values of the stepping task *)
Lemma stepR_effect : forall s t k s' r, dstepR s t k s' r ->
  dm_S s' = dm_S s /\ dm_alls s' = dm_alls s /\ dm_nbrs s' = dm_nbrs s /\
  exists k', dm_tasks s' = set_nth (dm_tasks s) t k' /\ k_me k' = k_me k /\
    ( (pend k' = pend k /\ dm_qs s' = dm_qs s /\ d_enq s' = d_enq s /\ d_deq s' = d_deq s) \/
      (exists qi v, pend k = (qi, v) :: pend k' /\ dm_qs s' = qpush (dm_qs s) qi v /\
                    d_enq s' = d_enq s ++ [v] /\ d_deq s' = d_deq s) \/
      (exists i x qs', pend k' = pend k /\ qpop (dm_qs s) i = Some (x, qs') /\ dm_qs s' = qs' /\
                       d_enq s' = d_enq s /\ d_deq s' = d_deq s ++ [x] /\ deq_site s k = Some i /\
                       k_pc k' = PDeqStRet i x /\ k_out k' = k_out k /\ k_ops k' = k_ops k /\ k_seen k' = k_seen k) ).
Proof.
  intros s t k s' r R.
  destruct R as [o rest Hpc Ho|qi v stat p' Hpc Hp Hs|i x qs' Hd Hq|i p' Hd Hq Hp Hs|subs' r Hr|subs' p' Hp Hs Hni Hd Hs0];
    cbn [upd dm_S dm_alls dm_nbrs dm_tasks dm_qs d_enq d_deq]; (split; [reflexivity|]); (split; [reflexivity|]);
    (split; [reflexivity|]); eexists; (split; [reflexivity|]); (split; [reflexivity|]).
  - left. unfold pend. cbn [k_pc k_ops k_me]. rewrite Hpc, Ho, pend_start. cbn [pend_pc flat_map app]. auto.
  - right; left. exists qi, v. unfold pend. cbn [tk_goto k_pc k_ops k_me]. rewrite Hpc, Hp. cbn [pend_pc app]. auto.
  - right; right. exists i, x, qs'. unfold pend. cbn [tk_goto k_pc k_ops k_me k_out k_seen pend_pc].
    rewrite (deq_site_pend _ _ _ Hd). auto 12.
  - left. unfold pend. cbn [tk_see k_pc k_ops k_me]. rewrite Hp, (deq_site_pend _ _ _ Hd). auto.
  - left. unfold pend. cbn [tk_fin k_pc k_ops k_me pend_pc]. rewrite (ret_ok_pend _ _ Hr). auto.
  - left. unfold pend. cbn [tk_goto k_pc k_ops k_me]. rewrite Hp. auto.
Qed.

Definition consv (ns : nat) (s : dstate) : Prop :=
  length (dm_qs s) = ns /\
  (forall k, In k (dm_tasks s) -> Forall (fun p => (fst p < ns)%nat) (pend k)) /\
  Permutation (d_deq s ++ concat (dm_qs s)) (d_enq s).

Lemma consv_step : forall ns s t s' r, consv ns s -> dm_step s t = Some (s', r) -> consv ns s'.
Proof.
  intros ns s t s' r [HL [HB HP]] H. destruct (dm_step_R _ _ _ _ H) as [k [Ek R]].
  assert (Hk : In k (dm_tasks s)) by (eapply nth_error_In, Ek).
  assert (HBk := HB k Hk).
  destruct (stepR_effect _ _ _ _ _ R) as [_ [_ [_ [k' [Et [_ Hcase]]]]]].
  assert (Hother : Forall (fun p => (fst p < ns)%nat) (pend k') ->
            forall k0, In k0 (dm_tasks s') -> Forall (fun p => (fst p < ns)%nat) (pend k0)).
  { intros H0 k0 Hin. rewrite Et in Hin. destruct (set_nth_In _ _ _ _ _ Hin) as [->|Hin']; [exact H0|apply HB, Hin']. }
  destruct Hcase as [[Hp [Hq [He Hd]]]|[[qi [v [Hp [Hq [He Hd]]]]]|[i [x [qs' [Hp [Hq [Hq' [He [Hd _]]]]]]]]]].
  - unfold consv. rewrite Hq, He, Hd. split; [exact HL|]. split; [|exact HP]. apply Hother. rewrite Hp. exact HBk.
  - rewrite Hp in HBk. inversion HBk as [|p0 l0 Hb1 Hb2]. cbn [fst] in Hb1.
    unfold consv. rewrite Hq, He, Hd. split; [rewrite qpush_length; exact HL|]. split; [apply Hother; exact Hb2|].
    eapply perm_trans; [|apply Permutation_app_tail, HP]. rewrite <- app_assoc.
    apply Permutation_app_head. eapply perm_trans; [apply qpush_perm; lia|]. apply Permutation_cons_append.
  - destruct (qpop_spec _ _ _ _ Hq) as [HPq HLq].
    unfold consv. rewrite Hq', He, Hd. split; [congruence|]. split; [apply Hother; rewrite Hp; exact HBk|].
    eapply perm_trans; [|exact HP]. rewrite <- app_assoc. apply Permutation_app_head. cbn [app].
    apply Permutation_sym, HPq.
Qed.

(* every index in the programs is a shepherd *)
Definition progs_ok (ns : nat) (progs : list (nat * list dmop)) : Prop :=
  forall me p, In (me, p) progs -> (me < ns)%nat /\ forall th v, In (DEnqThere th v) p -> (th < ns)%nat.

Lemma concat_repeat_nil' : forall n, concat (repeat (@nil N) n) = [].
Proof. induction n as [|n IH]; [reflexivity|exact IH]. Qed.

Lemma consv_init : forall ns alls nbrs hn progs, progs_ok ns progs -> consv ns (dm_init ns alls nbrs hn progs).
Proof.
  intros ns alls nbrs hn progs H. unfold consv, dm_init; cbn [dm_qs dm_tasks d_enq d_deq].
  split; [apply repeat_length|]. split.
  - intros k Hk. apply in_map_iff in Hk. destruct Hk as [[me p] [<- Hp]]. unfold pend. cbn [k_pc k_ops k_me pend_pc app fst snd].
    destruct (H me p Hp) as [Hme Hth]. apply Forall_forall. intros [q v] Hin. apply in_flat_map in Hin.
    destruct Hin as [o [Ho Hin]]. destruct o as [v0|th v0|]; cbn [opval] in Hin.
    + destruct Hin as [E|[]]. inv E. exact Hme.
    + destruct Hin as [E|[]]. inv E. cbn [fst]. eapply Hth, Ho.
    + destruct Hin.
  - cbn [app]. rewrite concat_repeat_nil'. apply perm_nil.
Qed.

(* the values still to be enqueued plus the values enqueued are the values of the programs *)
Definition prog_vals (progs : list (nat * list dmop)) : list N :=
  map snd (flat_map (fun p => flat_map (opval (fst p)) (snd p)) progs).

Definition pendinv (vals : list N) (s : dstate) : Prop :=
  Permutation (d_enq s ++ map snd (flat_map pend (dm_tasks s))) vals.

Lemma pendinv_step : forall vals s t s' r, pendinv vals s -> dm_step s t = Some (s', r) -> pendinv vals s'.
Proof.
  intros vals s t s' r HP H. destruct (dm_step_R _ _ _ _ H) as [k [Ek R]].
  destruct (stepR_effect _ _ _ _ _ R) as [_ [_ [_ [k' [Et [_ Hcase]]]]]]. unfold pendinv in *. rewrite Et.
  destruct Hcase as [[Hp [Hq [He Hd]]]|[[qi [v [Hp [Hq [He Hd]]]]]|[i [x [qs' [Hp [Hq [Hq' [He [Hd _]]]]]]]]]].
  - rewrite He. eapply perm_trans; [|exact HP]. apply Permutation_app_head, Permutation_map.
    apply Permutation_sym. apply (flat_map_set_nth_perm _ _ pend _ _ k k' [] Ek). rewrite Hp. apply Permutation_refl.
  - rewrite He. eapply perm_trans; [|exact HP]. rewrite <- app_assoc. apply Permutation_app_head.
    change ([v] ++ map snd (flat_map pend (set_nth (dm_tasks s) t k')))
      with (map snd ([(qi, v)] ++ flat_map pend (set_nth (dm_tasks s) t k'))).
    apply Permutation_map, Permutation_sym. apply (flat_map_set_nth_perm _ _ pend _ _ k k' [(qi, v)] Ek).
    rewrite Hp. apply Permutation_refl.
  - rewrite He. eapply perm_trans; [|exact HP]. apply Permutation_app_head, Permutation_map.
    apply Permutation_sym. apply (flat_map_set_nth_perm _ _ pend _ _ k k' [] Ek). rewrite Hp. apply Permutation_refl.
Qed.

Lemma pendinv_init : forall ns alls nbrs hn progs, pendinv (prog_vals progs) (dm_init ns alls nbrs hn progs).
Proof.
  intros. unfold pendinv, dm_init, prog_vals; cbn [d_enq dm_tasks app]. rewrite flat_map_concat_map, map_map.
  rewrite <- flat_map_concat_map. apply Permutation_refl.
Qed.

(* results: a task that holds or has returned a value took it out of a sub-queue *)
Definition outs_ok (s : dstate) : Prop :=
  forall k, In k (dm_tasks s) ->
    (forall x, In (Some x) (k_out k) -> In x (d_deq s)) /\ (forall i x, k_pc k = PDeqStRet i x -> In x (d_deq s)).

Lemma outs_ok_step : forall s t s' r, outs_ok s -> dm_step s t = Some (s', r) -> outs_ok s'.
Proof.
  intros s t s' r HO H. destruct (dm_step_R _ _ _ _ H) as [k [Ek R]].
  assert (Hk : In k (dm_tasks s)) by (eapply nth_error_In, Ek). destruct (HO k Hk) as [HOo HOp].
  assert (Hmono : forall k' d', (forall x, In x (d_deq s) -> In x d') ->
            ((forall x, In (Some x) (k_out k') -> In x d') /\ (forall i x, k_pc k' = PDeqStRet i x -> In x d')) ->
            forall k0, In k0 (set_nth (dm_tasks s) t k') ->
            (forall x, In (Some x) (k_out k0) -> In x d') /\ (forall i x, k_pc k0 = PDeqStRet i x -> In x d')).
  { intros k' d' Hsub H0 k0 Hin. destruct (set_nth_In _ _ _ _ _ Hin) as [->|Hin']; [exact H0|].
    destruct (HO k0 Hin') as [A B]. split; [intros x Hx; apply Hsub, A, Hx|intros i x Hx; eapply Hsub, B, Hx]. }
  destruct R as [o rest Hpc Ho|qi v stat p' Hpc Hp Hs|i x qs' Hd Hq|i p' Hd Hq Hp Hs|subs' r Hr|subs' p' Hp Hs Hni Hd Hs0];
    unfold outs_ok; cbn [upd dm_tasks d_deq]; apply Hmono; try (intros y Hy; exact Hy);
    cbn [tk_goto tk_see tk_fin k_out k_pc].
  - split; [exact HOo|]. intros i x E. destruct o; discriminate E.
  - split; [exact HOo|]. intros i x E. rewrite E in Hs. discriminate Hs.
  - intros y Hy. apply in_or_app. left; exact Hy.
  - split; [intros y Hy; apply in_or_app; left; apply HOo, Hy|]. intros i0 x0 E. inv E. apply in_or_app. right; left; reflexivity.
  - split; [exact HOo|]. intros i0 x E. rewrite E in Hs. discriminate Hs.
  - split; [|intros i x E; discriminate E]. intros x Hx.
    destruct (k_pc k) eqn:Epc; destruct r as [n|[y|]]; try destruct Hr; try (apply HOo, Hx).
    apply in_app_or in Hx. destruct Hx as [Hx|[E|[]]]; [apply HOo, Hx|]. inv E. eapply HOp. reflexivity.
    apply in_app_or in Hx. destruct Hx as [Hx|[E|[]]]; [apply HOo, Hx|discriminate E].
  - split; [exact HOo|]. intros i x E. rewrite E in Hs. discriminate Hs.
Qed.

Theorem dqm_conservation : forall ns alls nbrs hn progs sched,
  progs_ok ns progs ->
  let s := dm_run (dm_init ns alls nbrs hn progs) sched in
  Permutation (d_deq s ++ concat (dm_qs s)) (d_enq s) /\
  (NoDup (prog_vals progs) -> NoDup (d_deq s)) /\
  (forall k x, In k (dm_tasks s) -> In (Some x) (k_out k) -> In x (d_deq s) /\ In x (d_enq s)).
Proof.
  intros ns alls nbrs hn progs sched Hok s.
  assert (Hc : consv ns s).
  { apply (dm_run_invariant (consv ns)); [apply consv_step|apply consv_init, Hok]. }
  assert (Hp : pendinv (prog_vals progs) s).
  { apply (dm_run_invariant (pendinv (prog_vals progs))); [apply pendinv_step|apply pendinv_init]. }
  assert (Ho : outs_ok s).
  { apply (dm_run_invariant outs_ok); [apply outs_ok_step|]. intros k Hk. unfold dm_init in Hk; cbn [dm_tasks] in Hk.
    apply in_map_iff in Hk. destruct Hk as [p [<- _]]. cbn [k_out k_pc]. split; [intros x []|intros i x E; discriminate E]. }
  destruct Hc as [_ [_ HP]]. split; [exact HP|]. split.
  - intros Hnd. eapply nodup_app_l. eapply Permutation_NoDup; [apply Permutation_sym, HP|].
    eapply nodup_app_l. eapply Permutation_NoDup; [apply Permutation_sym, Hp|exact Hnd].
  - intros k x Hk Hx. destruct (Ho k Hk) as [A _]. split; [apply A, Hx|].
    eapply Permutation_in; [exact HP|]. apply in_or_app. left. apply A, Hx.
Qed.

(* ------------------------------------------------------------------------------------------------------ *)
(* 2  a dequeue returns NULL only after it has observed every sub-queue empty (each at SOME point during the
      call, not all at the same time)                                                                       *)

Definition task_of (s : dstate) (t : nat) : dtask :=
  match nth_error (dm_tasks s) t with Some k => k | None => mkDT O PIdle [] [] [] end.

(* an index enters k_seen only by a step in which that sub-queue is empty in the pre-state (the step is a failed
   qlfqueue_dequeue on it); k_seen is reset when the next call starts and is otherwise unchanged *)
Theorem dqm_seen_was_empty : forall s t s' r,
  dm_step s t = Some (s', r) ->
  let k := task_of s t in let k' := task_of s' t in
  k_seen k' = k_seen k \/
  (k_pc k = PIdle /\ k_seen k' = []) \/
  (exists i, k_seen k' = i :: k_seen k /\ nth i (dm_qs s) [] = [] /\ dm_qs s' = dm_qs s /\ deq_site s k = Some i).
Proof.
  intros s t s' r H k k'. destruct (dm_step_R _ _ _ _ H) as [k0 [Ek R]].
  assert (E0 : k = k0) by (unfold k, task_of; rewrite Ek; reflexivity).
  assert (Ek' : forall kk, dm_tasks s' = set_nth (dm_tasks s) t kk -> k' = kk).
  { intros kk E. unfold k', task_of. rewrite E, (nth_error_set_nth_same _ _ _ _ _ Ek). reflexivity. }
  rewrite E0. clearbody k k'. subst k0.
  destruct R as [o rest Hpc Ho|qi v stat p' Hpc Hp Hs|i x qs' Hd Hq|i p' Hd Hq Hp Hs|subs' r Hr|subs' p' Hp Hs Hni Hd Hs0];
    cbn [upd dm_tasks dm_qs] in *; rewrite (Ek' _ eq_refl); cbn [tk_goto tk_see tk_fin k_seen].
  - right; left. split; [exact Hpc|reflexivity].
  - left; reflexivity.
  - left; reflexivity.
  - right; right. exists i. split; [reflexivity|]. split; [|split; [reflexivity|exact Hd]].
    apply qpop_None_nth in Hq. destruct (nth i (dm_qs s) []); [reflexivity|discriminate Hq].
  - left; reflexivity.
  - left; reflexivity.
Qed.

(* the sub-queues a dequeue standing at this pc must already have found empty *)
Definition seen_req (ns : nat) (alls : list (list nat)) (me : nat) (p : pc) : list nat :=
  match p with
  | PDeqStNull | PPopPre | PPopLock | PPopCrit | PPopUnlockEmpty | PPopUnlock _ _ | PDeqLdLc _ _
  | PDeqLdConsumed _ _ | PDeqCas _ _ _ | PDeqSteal _ | PDeqCasP _ _ => [me]
  | PPushLock _ _ _ (KDeqRepush _ _) | PPushCrit _ _ _ (KDeqRepush _ _) | PPushUnlock _ (KDeqRepush _ _) => [me]
  | PDeqRLdLc idx | PDeqRDeq idx _ => me :: firstn idx (nth me alls [])
  | PDeqLcDeq idx _ | PDeqEmptyChk idx => me :: firstn (S idx) (nth me alls [])
  | PDeqRetNull => me :: firstn (ns - 1) (nth me alls [])
  | _ => []
  end.

Definition cover (ns : nat) (alls : list (list nat)) (s : dstate) : Prop :=
  dm_S s = ns /\ dm_alls s = alls /\
  forall k, In k (dm_tasks s) -> incl (seen_req ns alls (k_me k) (k_pc k)) (k_seen k).

Lemma firstn_S_in : forall (l : list nat) n x d, In x (firstn (S n) l) -> x = nth n l d \/ In x (firstn n l).
Proof.
  induction l as [|a l IH]; intros n x d H; [destruct H|].
  destruct n as [|n]; cbn [firstn nth] in *.
  - destruct H as [E|[]]. left; symmetry; exact E.
  - destruct H as [E|H]; [right; left; exact E|]. destruct (IH n x d H) as [E|H']; [left; exact E|right; right; exact H'].
Qed.

Lemma firstn_le_incl : forall (l : list nat) n m, (n <= m)%nat -> incl (firstn n l) (firstn m l).
Proof.
  induction l as [|a l IH]; intros n m H x Hx; [destruct n; destruct Hx|].
  destruct n as [|n]; [destruct Hx|]. destruct m as [|m]; [lia|]. cbn [firstn] in *.
  destruct Hx as [E|Hx]; [left; exact E|right; eapply IH; [|exact Hx]; lia].
Qed.

Lemma req_enter_push_deq : forall ns alls me s h shep gen a b,
  incl (seen_req ns alls me (enter_push s h shep gen (KDeqRepush a b))) [me].
Proof. intros. unfold enter_push. destruct (find_shep _ _ _); cbn [seen_req]; [apply incl_refl|intros x []]. Qed.

Lemma req_enter_push_enq : forall ns alls me s h shep gen a b c,
  seen_req ns alls me (enter_push s h shep gen (KEnqNbr a b c)) = [].
Proof. intros. unfold enter_push. destruct (find_shep _ _ _); reflexivity. Qed.

Lemma req_enq_nbr : forall ns alls me s qi gen idx, seen_req ns alls me (enq_nbr s qi gen idx) = [].
Proof. intros. unfold enq_nbr. destruct (nth_error _ _); [apply req_enter_push_enq|reflexivity]. Qed.

Lemma req_loop_at : forall ns alls me s idx, dm_S s = ns ->
  incl (seen_req ns alls me (loop_at s idx)) (me :: firstn idx (nth me alls [])).
Proof.
  intros ns alls me s idx HS. unfold loop_at. rewrite HS. destruct (idx <? ns - 1)%nat eqn:E; cbn [seen_req].
  - apply incl_refl.
  - intros x [Hx|Hx]; [left; exact Hx|right]. eapply firstn_le_incl; [|exact Hx]. apply Nat.ltb_ge in E. exact E.
Qed.

Lemma cover_step : forall ns alls s t s' r, cover ns alls s -> dm_step s t = Some (s', r) -> cover ns alls s'.
Proof.
  intros ns alls s t s' r [HS [HA HC]] H. unfold dm_step in H.
  destruct (nth_error (dm_tasks s) t) as [k|] eqn:Ek; [|discriminate H].
  assert (Hk : In k (dm_tasks s)) by (eapply nth_error_In, Ek). assert (HCk := HC k Hk).
  assert (Hupd : forall k' subs', k_me k' = k_me k -> incl (seen_req ns alls (k_me k) (k_pc k')) (k_seen k') ->
            cover ns alls (upd s subs' t k')).
  { intros k' subs' Hme Hi. split; [exact HS|]. split; [exact HA|]. cbn [upd dm_tasks]. intros k0 Hin.
    destruct (set_nth_In _ _ _ _ _ Hin) as [->|Hin']; [rewrite Hme; exact Hi|apply HC, Hin']. }
  assert (Hl0 : incl (seen_req ns alls (k_me k) (loop_at s O)) [k_me k]).
  { eapply incl_tran; [apply req_loop_at, HS|]. cbn [firstn]. apply incl_refl. }
  assert (Htry : forall i on_some on_null,
            try_deq s t k i on_some on_null = Some (s', r) ->
            (forall x, seen_req ns alls (k_me k) (on_some x) = []) ->
            incl (seen_req ns alls (k_me k) on_null) (i :: k_seen k) -> cover ns alls s').
  { intros i on_some on_null Ht Hsome Hnull. unfold try_deq in Ht. destruct (qpop _ _) as [[x qs']|] eqn:Eq; invs Ht.
    - split; [exact HS|]. split; [exact HA|]. cbn [dm_tasks]. intros k0 Hin.
      destruct (set_nth_In _ _ _ _ _ Hin) as [->|Hin']; [|apply HC, Hin'].
      cbn [tk_goto k_me k_pc]. rewrite Hsome. intros y [].
    - apply Hupd; [reflexivity|]. cbn [tk_see k_pc k_seen]. exact Hnull. }
  destruct (k_pc k) eqn:Epc; cbn [seen_req] in HCk.
  - destruct (k_ops k) as [|o rest]; invs H. apply Hupd; [reflexivity|]. cbn [k_pc k_seen]. destruct o; intros x [].
  - discriminate H.
  - invs H. apply Hupd; [reflexivity|]. intros x [].
  - invs H. split; [exact HS|]. split; [exact HA|]. cbn [dm_tasks]. intros k0 Hin.
    destruct (set_nth_In _ _ _ _ _ Hin) as [->|Hin']; [|apply HC, Hin']. cbn [tk_goto k_me k_pc]. destruct stat; intros x [].
  - invs H. apply Hupd; [reflexivity|]. intros x [].
  - destruct (_ <=? _); invs H; apply Hupd; try reflexivity; intros x [].
  - invs H. apply Hupd; [reflexivity|]. cbn [tk_goto k_pc]. rewrite req_enq_nbr. intros x [].
  - invs H. apply Hupd; [reflexivity|]. intros x [].
  - destruct (q_lock _); invs H. apply Hupd; [reflexivity|]. exact HCk.
  - destruct (push_crit _ _ _); invs H; apply Hupd; try reflexivity; [exact HCk|intros x []].
  - invs H. apply Hupd; [reflexivity|]. cbn [tk_goto k_pc k_seen]. destruct c as [qi g idx|a b]; cbn [after_push seen_req].
    + rewrite req_enq_nbr. intros x [].
    + exact HCk.
  - eapply Htry; [exact H|reflexivity|]. cbn [seen_req]. intros x [<-|[]]. left; reflexivity.
  - invs H. apply Hupd; [reflexivity|]. intros y [].
  - invs H. apply Hupd; [reflexivity|]. exact HCk.
  - destruct (q_first _); invs H; apply Hupd; try reflexivity; cbn [tk_goto k_pc k_seen seen_req]; [exact HCk|].
    eapply incl_tran; [exact Hl0|exact HCk].
  - destruct (q_lock _); invs H. apply Hupd; [reflexivity|]. exact HCk.
  - destruct (pop_crit _) as [q' [[ash gen]|]]; invs H; apply Hupd; try reflexivity; exact HCk.
  - invs H. apply Hupd; [reflexivity|]. cbn [tk_goto k_pc k_seen]. eapply incl_tran; [exact Hl0|exact HCk].
  - invs H. apply Hupd; [reflexivity|]. exact HCk.
  - destruct (q_lc _) as [l|]; [destruct (l =? ash)%nat|]; invs H; apply Hupd; try reflexivity; try exact HCk.
    cbn [tk_goto k_pc k_seen]. eapply incl_tran; [apply req_enter_push_deq|exact HCk].
  - destruct (_ <? _); invs H; apply Hupd; try reflexivity; exact HCk.
  - invs H. apply Hupd; [reflexivity|]. cbn [tk_goto k_pc k_seen]. destruct (_ <? _); exact HCk.
  - eapply Htry; [exact H|reflexivity|]. cbn [seen_req]. intros x Hx. right. apply HCk, Hx.
  - invs H. apply Hupd; [reflexivity|]. exact HCk.
  - invs H. apply Hupd; [reflexivity|]. exact HCk.
  - (* PDeqRDeq *) eapply Htry; [exact H|reflexivity|].
    assert (Hgoal : incl (k_me k :: firstn (S idx) (nth (k_me k) alls [])) (remote s (k_me k) idx :: k_seen k)).
    { intros x [<-|Hx]; [right; apply HCk; left; reflexivity|].
      destruct (firstn_S_in _ _ _ O Hx) as [->|Hx']; [left; unfold remote; rewrite HA; reflexivity|].
      right. apply HCk. right; exact Hx'. }
    destruct lc as [l|]; [destruct (l =? _)%nat|]; cbn [seen_req]; exact Hgoal.
  - (* PDeqLcDeq *) eapply Htry; [exact H|reflexivity|]. cbn [seen_req]. intros x Hx. right. apply HCk, Hx.
  - destruct (q_first _); invs H; apply Hupd; try reflexivity; cbn [tk_goto k_pc k_seen seen_req].
    + intros x [<-|[]]. apply HCk. left; reflexivity.
    + eapply incl_tran; [apply req_loop_at, HS|exact HCk].
  - invs H. apply Hupd; [reflexivity|]. intros x [].
Qed.

(* configuration: allsheps[me] names, among its first ns-1 entries, every other shepherd *)
Definition alls_cover (ns : nat) (alls : list (list nat)) : Prop :=
  forall me i, (me < ns)%nat -> (i < ns)%nat -> i <> me -> In i (firstn (ns - 1) (nth me alls [])).

Lemma dm_cfg_ok_alls_cover : forall ns alls nbrs, dm_cfg_ok ns alls nbrs = true -> alls_cover ns alls.
Proof.
  intros ns alls nbrs H me i Hme Hi Hne. unfold dm_cfg_ok in H. rewrite forallb_forall in H.
  specialize (H me ltac:(apply in_seq; lia)). rewrite !andb_true_iff in H. destruct H as [[[HL _] HC] _].
  rewrite forallb_forall in HC. specialize (HC i ltac:(apply in_seq; lia)).
  apply orb_true_iff in HC. destruct HC as [E|E]; [apply Nat.eqb_eq in E; contradiction|].
  apply existsb_exists in E. destruct E as [y [Hy E]]. apply Nat.eqb_eq in E. subst y.
  apply Nat.eqb_eq in HL. rewrite <- HL, firstn_all. exact Hy.
Qed.

Lemma cover_init : forall ns alls nbrs hn progs, cover ns alls (dm_init ns alls nbrs hn progs).
Proof.
  intros. split; [reflexivity|]. split; [reflexivity|]. unfold dm_init; cbn [dm_tasks]. intros k Hk.
  apply in_map_iff in Hk. destruct Hk as [p [<- _]]. intros x [].
Qed.

(* task-local facts that never change *)
Definition me_ok (ns : nat) (s : dstate) : Prop := forall k, In k (dm_tasks s) -> (k_me k < ns)%nat.

Lemma me_ok_step : forall ns s t s' r, me_ok ns s -> dm_step s t = Some (s', r) -> me_ok ns s'.
Proof.
  intros ns s t s' r HM H. destruct (dm_step_R _ _ _ _ H) as [k [Ek R]].
  destruct (stepR_effect _ _ _ _ _ R) as [_ [_ [_ [k' [Et [Hme _]]]]]]. intros k0 Hin. rewrite Et in Hin.
  destruct (set_nth_In _ _ _ _ _ Hin) as [->|Hin']; [rewrite Hme; eapply HM, nth_error_In, Ek|apply HM, Hin'].
Qed.

Lemma me_ok_init : forall ns alls nbrs hn progs, progs_ok ns progs -> me_ok ns (dm_init ns alls nbrs hn progs).
Proof.
  intros ns alls nbrs hn progs H k Hk. unfold dm_init in Hk; cbn [dm_tasks] in Hk.
  apply in_map_iff in Hk. destruct Hk as [[me p] [<- Hp]]. cbn [k_me fst]. apply (H me p Hp).
Qed.

Theorem dqm_null_means_all_empty_at_some_point : forall ns alls nbrs hn progs sched t s' i,
  progs_ok ns progs -> alls_cover ns alls ->
  let s := dm_run (dm_init ns alls nbrs hn progs) sched in
  dm_step s t = Some (s', Some (DPtr None)) ->          (* task t's dequeue returns NULL in this step *)
  (i < ns)%nat ->
  In i (k_seen (task_of s t)) /\ k_seen (task_of s' t) = k_seen (task_of s t) /\
  k_out (task_of s' t) = k_out (task_of s t) ++ [None].
Proof.
  intros ns alls nbrs hn progs sched t s' i Hok Hcov s H Hi.
  assert (Hc : cover ns alls s).
  { apply (dm_run_invariant (cover ns alls)); [apply cover_step|apply cover_init]. }
  assert (Hm : me_ok ns s).
  { apply (dm_run_invariant (me_ok ns)); [apply me_ok_step|apply me_ok_init, Hok]. }
  destruct (dm_step_R _ _ _ _ H) as [k [Ek R]].
  assert (E0 : task_of s t = k) by (unfold task_of; rewrite Ek; reflexivity). rewrite E0.
  assert (Hk : In k (dm_tasks s)) by (eapply nth_error_In, Ek).
  inversion R as [| | | |subs' r0 Hr Es Er|]; subst r0.
  assert (Epc : k_pc k = PDeqRetNull).
  { destruct (k_pc k); try destruct Hr; reflexivity. }
  assert (E1 : task_of (upd s subs' t (tk_fin k (DPtr None))) t = tk_fin k (DPtr None)).
  { unfold task_of. cbn [upd dm_tasks]. rewrite (nth_error_set_nth_same _ _ _ _ _ Ek). reflexivity. }
  rewrite E1. cbn [tk_fin k_seen k_out]. split; [|split; reflexivity].
  destruct Hc as [_ [_ HC]]. specialize (HC k Hk). rewrite Epc in HC. cbn [seen_req] in HC. apply HC.
  destruct (Nat.eq_dec i (k_me k)) as [->|Hne]; [left; reflexivity|right].
  apply Hcov; [apply Hm, Hk|exact Hi|exact Hne].
Qed.

(* ------------------------------------------------------------------------------------------------------ *)
(* trace-level versions: the observation / the take is an earlier step of the same call                    *)

Lemma nth_error_set_nth_other : forall (A : Type) (l : list A) (t u : nat) (x : A),
  t <> u -> nth_error (set_nth l u x) t = nth_error l t.
Proof.
  intros A l. induction l as [|a l IH]; intros t u x Hne; [destruct u; reflexivity|].
  destruct u as [|u]; destruct t as [|t]; cbn [set_nth nth_error]; try reflexivity; [contradiction|].
  apply IH. intros E. apply Hne. f_equal. exact E.
Qed.

Lemma task_of_other : forall s t u s' r, dm_step s u = Some (s', r) -> t <> u -> task_of s' t = task_of s t.
Proof.
  intros s t u s' r H Hne. destruct (dm_step_R _ _ _ _ H) as [k [Ek R]].
  destruct (stepR_effect _ _ _ _ _ R) as [_ [_ [_ [k' [Et _]]]]].
  unfold task_of. rewrite Et, nth_error_set_nth_other by exact Hne. reflexivity.
Qed.

Lemma firstn_snoc_cases : forall (A : Type) (l : list A) (u : A) n,
  firstn n (l ++ [u]) = firstn n l \/ firstn n (l ++ [u]) = l ++ [u].
Proof.
  intros A l u n. destruct (Nat.le_gt_cases n (length l)) as [L|L].
  - left. rewrite firstn_app. replace (n - length l)%nat with O by lia. cbn [firstn]. apply app_nil_r.
  - right. apply firstn_all2. rewrite app_length. cbn [length]. lia.
Qed.

(* a property of task t's record that holds at the end of sched was established by a step of t and held ever since *)
Lemma since_trace : forall (Q : dtask -> Prop) (W : dstate -> Prop) init t,
  ~ Q (task_of init t) ->
  (forall s s' r, dm_step s t = Some (s', r) -> Q (task_of s' t) -> Q (task_of s t) \/ W s) ->
  forall sched, Q (task_of (dm_run init sched) t) ->
  exists sched1 sched2, sched = sched1 ++ t :: sched2 /\ W (dm_run init sched1) /\
    forall n, Q (task_of (dm_run init (sched1 ++ t :: firstn n sched2)) t).
Proof.
  intros Q W init t H0 Hstep sched. induction sched as [|u sched IH] using rev_ind; intros HQ.
  - exfalso. apply H0. exact HQ.
  - assert (Hext : Q (task_of (dm_run init sched) t) ->
              exists sched1 sched2, sched ++ [u] = sched1 ++ t :: sched2 /\ W (dm_run init sched1) /\
                forall n, Q (task_of (dm_run init (sched1 ++ t :: firstn n sched2)) t)).
    { intros HQ0. destruct (IH HQ0) as [s1 [s2 [E [HW Hall]]]]. exists s1, (s2 ++ [u]).
      split; [rewrite E, <- app_assoc; reflexivity|]. split; [exact HW|]. intros n.
      destruct (firstn_snoc_cases _ s2 u n) as [-> | ->]; [apply Hall|].
      replace (s1 ++ t :: s2 ++ [u]) with (sched ++ [u]) by (rewrite E, <- app_assoc; reflexivity). exact HQ. }
    rewrite dm_run_snoc in HQ. unfold dm_step' in HQ.
    destruct (dm_step (dm_run init sched) u) as [[s' r]|] eqn:Es; [|apply Hext, HQ].
    destruct (Nat.eq_dec t u) as [<-|Hne].
    + destruct (Hstep _ _ _ Es HQ) as [HQ0|HW]; [apply Hext, HQ0|].
      exists sched, []. split; [reflexivity|]. split; [exact HW|]. intros n. destruct n; cbn [firstn];
        rewrite dm_run_snoc; unfold dm_step'; rewrite Es; exact HQ.
    + rewrite (task_of_other _ _ _ _ _ Es Hne) in HQ. apply Hext, HQ.
Qed.

Lemma task_of_init : forall ns alls nbrs hn progs t,
  k_pc (task_of (dm_init ns alls nbrs hn progs) t) = PIdle /\ k_seen (task_of (dm_init ns alls nbrs hn progs) t) = [].
Proof.
  intros. unfold task_of, dm_init; cbn [dm_tasks]. destruct (nth_error _ t) as [k|] eqn:E; [|split; reflexivity].
  apply nth_error_In, in_map_iff in E. destruct E as [p [<- _]]. split; reflexivity.
Qed.

(* task t's step at s is a failed qlfqueue_dequeue on sub-queue i, which is empty at s *)
Definition observes_empty (t i : nat) (s : dstate) : Prop :=
  nth i (dm_qs s) [] = [] /\ deq_site s (task_of s t) = Some i /\ dm_qs (dm_step' s t) = dm_qs s.

(* whenever a dequeue returns NULL: for every sub-queue i there is an earlier step of the SAME call (i stays in
   k_seen from then on, and k_seen is reset when a call starts) at which sub-queue i was empty.  The points are
   in general different for different i: the sub-queues need not have been empty simultaneously. *)
Theorem dqm_null_trace : forall ns alls nbrs hn progs sched t s' i,
  progs_ok ns progs -> alls_cover ns alls ->
  let init := dm_init ns alls nbrs hn progs in
  dm_step (dm_run init sched) t = Some (s', Some (DPtr None)) -> (i < ns)%nat ->
  exists sched1 sched2, sched = sched1 ++ t :: sched2 /\ observes_empty t i (dm_run init sched1) /\
    forall n, In i (k_seen (task_of (dm_run init (sched1 ++ t :: firstn n sched2)) t)).
Proof.
  intros ns alls nbrs hn progs sched t s' i Hok Hcov init H Hi.
  destruct (dqm_null_means_all_empty_at_some_point ns alls nbrs hn progs sched t s' i Hok Hcov H Hi) as [Hin _].
  apply (since_trace (fun k => In i (k_seen k)) (observes_empty t i) init t).
  - unfold init. rewrite (proj2 (task_of_init _ _ _ _ _ _)). intros [].
  - intros s s1 r Hs HQ. destruct (dqm_seen_was_empty _ _ _ _ Hs) as [E|[[_ E]|[i0 [E [Hnil [Hqs Hd]]]]]].
    + left. rewrite <- E. exact HQ.
    + rewrite E in HQ. destruct HQ.
    + rewrite E in HQ. destruct HQ as [<-|HQ]; [right|left; exact HQ].
      split; [exact Hnil|]. split; [exact Hd|]. unfold dm_step'. rewrite Hs. exact Hqs.
  - exact Hin.
Qed.

(* ------------------------------------------------------------------------------------------------------ *)
(* 3  the hints are advisory                                                                               *)

Lemma qpop_set_nth : forall qs i x qs',
  qpop qs i = Some (x, qs') -> exists rest, nth i qs [] = x :: rest /\ qs' = set_nth qs i rest.
Proof.
  intros qs. induction qs as [|q qs IH]; intros i x qs' H; [destruct i; discriminate H|].
  destruct i as [|i]; cbn [qpop nth set_nth] in *.
  - destruct q as [|y q']; [discriminate H|]. inv H. exists q'. split; reflexivity.
  - destruct (qpop qs i) as [[y qs'']|] eqn:E; [|discriminate H]. inv H.
    destruct (IH i x qs'' E) as [rest [Hn ->]]. exists rest. split; [exact Hn|reflexivity].
Qed.

(* task t's step at s takes x, the HEAD of sub-queue i, by a qlfqueue_dequeue aimed at i *)
Definition takes_head (t i : nat) (x : N) (s : dstate) : Prop :=
  exists rest, nth i (dm_qs s) [] = x :: rest /\ deq_site s (task_of s t) = Some i /\
    dm_qs (dm_step' s t) = set_nth (dm_qs s) i rest /\ d_deq (dm_step' s t) = d_deq s ++ [x].

(* step level: sub-queues and d_deq change only by taking a head; a value is held (pc PDeqStRet) only after taking it *)
Theorem dqm_step_takes_head : forall s t s' r,
  dm_step s t = Some (s', r) ->
  (d_deq s' = d_deq s /\ (dm_qs s' = dm_qs s \/ exists qi v, dm_qs s' = qpush (dm_qs s) qi v) /\
   (is_stret (k_pc (task_of s' t)) = true -> False)) \/
  (exists i x, takes_head t i x s /\ k_pc (task_of s' t) = PDeqStRet i x).
Proof.
  intros s t s' r H. destruct (dm_step_R _ _ _ _ H) as [k [Ek R]].
  assert (E0 : task_of s t = k) by (unfold task_of; rewrite Ek; reflexivity).
  assert (Ek' : forall kk, dm_tasks s' = set_nth (dm_tasks s) t kk -> task_of s' t = kk).
  { intros kk E. unfold task_of. rewrite E, (nth_error_set_nth_same _ _ _ _ _ Ek). reflexivity. }
  destruct R as [o rest Hpc Ho|qi v stat p' Hpc Hp Hs|i x qs' Hd Hq|i p' Hd Hq Hp Hs|subs' r Hr|subs' p' Hp Hs Hni Hd Hs0];
    cbn [upd dm_tasks dm_qs d_deq] in *; rewrite (Ek' _ eq_refl); cbn [tk_goto tk_see tk_fin k_pc].
  - left. split; [reflexivity|]. split; [left; reflexivity|]. destruct o; intros E; discriminate E.
  - left. split; [reflexivity|]. split; [right; exists qi, v; reflexivity|]. rewrite Hs. intros E; discriminate E.
  - right. exists i, x. split; [|reflexivity]. destruct (qpop_set_nth _ _ _ _ Hq) as [rest [Hn ->]].
    exists rest. rewrite E0. unfold dm_step'. rewrite H. cbn [dm_qs d_deq]. auto.
  - left. split; [reflexivity|]. split; [left; reflexivity|]. rewrite Hs. intros E; discriminate E.
  - left. split; [reflexivity|]. split; [left; reflexivity|]. intros E; discriminate E.
  - left. split; [reflexivity|]. split; [left; reflexivity|]. rewrite Hs. intros E; discriminate E.
Qed.

(* every non-NULL result was, at the earlier step of the same call that took it, the head of the sub-queue it was
   taken from; between that step and the return the task only holds it (pc PDeqStRet) *)
Theorem dqm_result_was_head : forall ns alls nbrs hn progs sched t s' x,
  let init := dm_init ns alls nbrs hn progs in
  dm_step (dm_run init sched) t = Some (s', Some (DPtr (Some x))) ->
  exists i sched1 sched2, sched = sched1 ++ t :: sched2 /\ takes_head t i x (dm_run init sched1) /\
    forall n, k_pc (task_of (dm_run init (sched1 ++ t :: firstn n sched2)) t) = PDeqStRet i x.
Proof.
  intros ns alls nbrs hn progs sched t s' x init H.
  destruct (dm_step_R _ _ _ _ H) as [k [Ek R]].
  assert (E0 : task_of (dm_run init sched) t = k) by (unfold task_of; rewrite Ek; reflexivity).
  inversion R as [| | | |subs' r0 Hr Es Er|]; subst r0.
  destruct (k_pc k) as [| | | | | | | | | | | |i x0| | | | | | | | | | | | | | | |] eqn:Epc; try (exfalso; exact Hr).
  cbn [ret_ok] in Hr. subst x0. exists i.
  apply (since_trace (fun k => k_pc k = PDeqStRet i x) (takes_head t i x) init t).
  - unfold init. rewrite (proj1 (task_of_init _ _ _ _ _ _)). discriminate.
  - intros s s1 r Hs HQ. destruct (dqm_step_takes_head _ _ _ _ Hs) as [[_ [_ Hn]]|[i0 [x0 [Ht Hpc]]]].
    + exfalso. apply Hn. rewrite HQ. reflexivity.
    + right. rewrite Hpc in HQ. inv HQ. exact Ht.
  - rewrite E0. exact Epc.
Qed.

(* the three safety statements for one initial hint state *)
Definition dqm_safe (ns : nat) (alls nbrs : list (list nat)) (progs : list (nat * list dmop)) (hn : hints)
  (sched : list nat) : Prop :=
  let init := dm_init ns alls nbrs hn progs in
  let s := dm_run init sched in
  (* 1 *) (Permutation (d_deq s ++ concat (dm_qs s)) (d_enq s) /\
           (NoDup (prog_vals progs) -> NoDup (d_deq s)) /\
           (forall k x, In k (dm_tasks s) -> In (Some x) (k_out k) -> In x (d_deq s) /\ In x (d_enq s))) /\
  (* 2 *) (forall t s' i, dm_step s t = Some (s', Some (DPtr None)) -> (i < ns)%nat ->
           exists sched1 sched2, sched = sched1 ++ t :: sched2 /\ observes_empty t i (dm_run init sched1) /\
             forall n, In i (k_seen (task_of (dm_run init (sched1 ++ t :: firstn n sched2)) t))) /\
  (* 3 *) (forall t s' x, dm_step s t = Some (s', Some (DPtr (Some x))) ->
           exists i sched1 sched2, sched = sched1 ++ t :: sched2 /\ takes_head t i x (dm_run init sched1) /\
             forall n, k_pc (task_of (dm_run init (sched1 ++ t :: firstn n sched2)) t) = PDeqStRet i x).

(* nothing is assumed about the hint fields: last_consumed, last_ad_issued, last_ad_consumed, first and every heap
   element's inheap / generation / prev / next may start with ANY value (indices may even be out of range) *)
Theorem dqm_safe_any_hints : forall ns alls nbrs progs hn sched,
  progs_ok ns progs -> alls_cover ns alls -> dqm_safe ns alls nbrs progs hn sched.
Proof.
  intros ns alls nbrs progs hn sched Hok Hcov. split; [|split].
  - apply dqm_conservation, Hok.
  - intros t s' i H Hi. eapply dqm_null_trace; eassumption.
  - intros t s' x H. eapply dqm_result_was_head; eassumption.
Qed.

(* for any two hint states the same safety statements hold: the hints only influence WHICH sub-queue is tried and
   in which order, never what can be returned *)
Theorem dqm_hints_advisory : forall ns alls nbrs progs (hn1 hn2 : hints) sched,
  progs_ok ns progs -> alls_cover ns alls ->
  dqm_safe ns alls nbrs progs hn1 sched /\ dqm_safe ns alls nbrs progs hn2 sched.
Proof. intros. split; apply dqm_safe_any_hints; assumption. Qed.

(* ------------------------------------------------------------------------------------------------------ *)
(* 4  the advertisement heap is a well-formed sorted linked list                                           *)

Lemma nth_set_nth : forall (A : Type) (l : list A) (i j : nat) (x d : A),
  nth j (set_nth l i x) d = if ((i =? j) && (i <? length l))%nat then x else nth j l d.
Proof.
  intros A l. induction l as [|a l IH]; intros i j x d.
  - destruct i; cbn [set_nth length]; rewrite andb_false_r; reflexivity.
  - destruct i as [|i]; destruct j as [|j]; cbn [set_nth nth length]; try reflexivity.
    rewrite IH. reflexivity.
Qed.

Lemma set_nth_length : forall (A : Type) (l : list A) (i : nat) (x : A), length (set_nth l i x) = length l.
Proof.
  intros A l. induction l as [|a l IH]; intros i x; destruct i; cbn [set_nth length]; try reflexivity.
  f_equal. apply IH.
Qed.

Lemma hget_upd : forall hp i f j,
  hget (hp_upd hp i f) j = if ((i =? j) && (i <? length hp))%nat then f (hget hp i) else hget hp j.
Proof. intros. unfold hget, hp_upd. apply nth_set_nth. Qed.

Lemma upd_len : forall hp i f, length (hp_upd hp i f) = length hp.
Proof. intros. unfold hp_upd. apply set_nth_length. Qed.

Definition nx (hp : list elem) (m : nat) : option nat := e_next (hget hp m).
Definition ih (hp : list elem) (m : nat) : bool := e_inheap (hget hp m).

Lemma nx_keep : forall hp i f m, (forall e, e_next (f e) = e_next e) -> nx (hp_upd hp i f) m = nx hp m.
Proof.
  intros hp i f m H. unfold nx. rewrite hget_upd. destruct ((i =? m) && _)%nat eqn:E; [|reflexivity].
  rewrite H. apply andb_true_iff in E. destruct E as [E _]. apply Nat.eqb_eq in E. subst. reflexivity.
Qed.
Lemma ih_keep : forall hp i f m, (forall e, e_inheap (f e) = e_inheap e) -> ih (hp_upd hp i f) m = ih hp m.
Proof.
  intros hp i f m H. unfold ih. rewrite hget_upd. destruct ((i =? m) && _)%nat eqn:E; [|reflexivity].
  rewrite H. apply andb_true_iff in E. destruct E as [E _]. apply Nat.eqb_eq in E. subst. reflexivity.
Qed.
Lemma nx_set_prev : forall hp i v m, nx (hp_upd hp i (set_prev v)) m = nx hp m.
Proof. intros. apply nx_keep. reflexivity. Qed.
Lemma nx_set_inheap : forall hp i v m, nx (hp_upd hp i (set_inheap v)) m = nx hp m.
Proof. intros. apply nx_keep. reflexivity. Qed.
Lemma nx_set_gen : forall hp i v m, nx (hp_upd hp i (set_gen v)) m = nx hp m.
Proof. intros. apply nx_keep. reflexivity. Qed.
Lemma nx_set_next : forall hp i v m,
  nx (hp_upd hp i (set_next v)) m = if ((i =? m) && (i <? length hp))%nat then v else nx hp m.
Proof. intros. unfold nx. rewrite hget_upd. destruct (_ && _)%nat; reflexivity. Qed.
Lemma ih_set_prev : forall hp i v m, ih (hp_upd hp i (set_prev v)) m = ih hp m.
Proof. intros. apply ih_keep. reflexivity. Qed.
Lemma ih_set_next : forall hp i v m, ih (hp_upd hp i (set_next v)) m = ih hp m.
Proof. intros. apply ih_keep. reflexivity. Qed.
Lemma ih_set_gen : forall hp i v m, ih (hp_upd hp i (set_gen v)) m = ih hp m.
Proof. intros. apply ih_keep. reflexivity. Qed.
Lemma ih_set_inheap : forall hp i v m,
  ih (hp_upd hp i (set_inheap v)) m = if ((i =? m) && (i <? length hp))%nat then v else ih hp m.
Proof. intros. unfold ih. rewrite hget_upd. destruct (_ && _)%nat; reflexivity. Qed.

Lemma ih_in_range : forall hp m, ih hp m = true -> (m < length hp)%nat.
Proof.
  intros hp m H. destruct (Nat.lt_ge_cases m (length hp)) as [L|L]; [exact L|].
  unfold ih, hget in H. rewrite nth_overflow in H by exact L. discriminate H.
Qed.

Inductive is_chain (hp : list elem) : option nat -> list nat -> Prop :=
| ch_nil : is_chain hp None []
| ch_cons : forall a l, is_chain hp (nx hp a) l -> is_chain hp (Some a) (a :: l).

Lemma chain_frame : forall hp hp' x l,
  (forall a, In a l -> nx hp' a = nx hp a) -> is_chain hp x l -> is_chain hp' x l.
Proof.
  intros hp hp' x l Hf Hc. induction Hc as [|a l Hc IH]; [constructor|].
  constructor. rewrite Hf by (left; reflexivity). apply IH. intros b Hb. apply Hf. right; exact Hb.
Qed.

(* replace the suffix of a chain *)
Lemma chain_split : forall hp l1 x a l2,
  is_chain hp x (l1 ++ a :: l2) ->
  is_chain hp (Some a) (a :: l2) /\
  forall hp' l2', (forall m, In m l1 -> nx hp' m = nx hp m) -> is_chain hp' (Some a) l2' -> is_chain hp' x (l1 ++ l2').
Proof.
  intros hp l1. induction l1 as [|b l1 IH]; intros x a l2 H; cbn [app] in *.
  - inversion H as [|a0 l0 Hc]; subst. split; [exact H|]. intros hp' l2' _ H'. exact H'.
  - inversion H as [|a0 l0 Hc]; subst. destruct (IH _ _ _ Hc) as [H1 H2]. split; [exact H1|].
    intros hp' l2' Hf H'. constructor. rewrite Hf by (left; reflexivity). apply H2; [|exact H'].
    intros m Hm. apply Hf. right; exact Hm.
Qed.

Lemma ss_app : forall (l1 l2 : list nat),
  StronglySorted lt (l1 ++ l2) <->
  StronglySorted lt l1 /\ StronglySorted lt l2 /\ forall a b, In a l1 -> In b l2 -> (a < b)%nat.
Proof.
  induction l1 as [|x l1 IH]; intros l2; cbn [app].
  - split; [intros H; split; [constructor|split; [exact H|intros a b []]]|intros [_ [H _]]; exact H].
  - split.
    + intros H. inversion H as [|x0 l0 Hs Hf]; subst. apply IH in Hs. destruct Hs as [H1 [H2 H3]].
      rewrite Forall_forall in Hf. split; [|split; [exact H2|]].
      * constructor; [exact H1|]. apply Forall_forall. intros y Hy. apply Hf, in_or_app. left; exact Hy.
      * intros a b [<-|Ha] Hb; [apply Hf, in_or_app; right; exact Hb|apply H3; assumption].
    + intros [H1 [H2 H3]]. inversion H1 as [|x0 l0 Hs Hf]; subst. constructor.
      * apply IH. split; [exact Hs|split; [exact H2|]]. intros a b Ha Hb. apply H3; [right; exact Ha|exact Hb].
      * rewrite Forall_forall in *. intros y Hy. apply in_app_or in Hy. destruct Hy as [Hy|Hy]; [apply Hf, Hy|].
        apply H3; [left; reflexivity|exact Hy].
Qed.

Lemma ss_cons : forall x (l : list nat),
  StronglySorted lt (x :: l) <-> StronglySorted lt l /\ forall b, In b l -> (x < b)%nat.
Proof.
  intros x l. split.
  - intros H. inversion H as [|x0 l0 Hs Hf]; subst. rewrite Forall_forall in Hf. split; assumption.
  - intros [H1 H2]. constructor; [exact H1|]. apply Forall_forall. exact H2.
Qed.

Definition heap_wf (q : subq) : Prop :=
  exists l, is_chain (q_heap q) (q_first q) l /\ StronglySorted lt l /\
            forall m, In m l <-> ih (q_heap q) m = true.

Lemma heap_wf_pop : forall q, heap_wf q -> heap_wf (fst (pop_crit q)).
Proof.
  intros q [l [Hc [Hs Hm]]]. unfold pop_crit. destruct (q_first q) as [f|] eqn:Ef; [|cbn [fst]; exists l; rewrite Ef; auto].
  unfold heap_wf. cbn [fst set_ads q_first q_heap]. inversion Hc as [|a l' Hc']; subst.
  apply ss_cons in Hs. destruct Hs as [Hs Hlt].
  exists l'. fold (nx (q_heap q) f). split; [|split; [exact Hs|]].
  - eapply chain_frame; [|exact Hc']. intros a _. rewrite nx_set_inheap. destruct (nx (q_heap q) f); [apply nx_set_prev|reflexivity].
  - intros m. rewrite ih_set_inheap.
    assert (E : ih (match nx (q_heap q) f with Some n => hp_upd (q_heap q) n (set_prev None) | None => q_heap q end) m
                = ih (q_heap q) m) by (destruct (nx (q_heap q) f); [apply ih_set_prev|reflexivity]).
    destruct (Nat.eqb_spec f m) as [->|Hne]; cbn [andb].
    + assert (L : (m < length (q_heap q))%nat) by (apply ih_in_range, Hm; left; reflexivity).
      replace (length _) with (length (q_heap q)) by (destruct (nx (q_heap q) m); [rewrite upd_len|]; reflexivity).
      apply Nat.ltb_lt in L. rewrite L. split; [|intros E'; discriminate E'].
      intros Hin. specialize (Hlt m Hin). lia.
    + rewrite E, <- Hm. cbn [In]. split; [intros H; right; exact H|intros [H|H]; [contradiction|exact H]].
Qed.

Lemma scan_down_spec : forall hp j r, scan_down hp j = Some r ->
  (r <= j)%nat /\ ih hp r = true /\ forall m, (r < m <= j)%nat -> ih hp m = false.
Proof.
  intros hp j. induction j as [|j IH]; intros r H; cbn [scan_down] in H.
  - fold (ih hp 0) in H. destruct (ih hp 0) eqn:E; [|discriminate H]. inv H. split; [lia|]. split; [exact E|]. intros m Hm; lia.
  - fold (ih hp (S j)) in H. destruct (ih hp (S j)) eqn:E.
    + inv H. split; [lia|]. split; [exact E|]. intros m Hm; lia.
    + destruct (IH r H) as [A [B C]]. split; [lia|]. split; [exact B|]. intros m Hm.
      destruct (Nat.eq_dec m (S j)) as [->|Hne]; [exact E|apply C; lia].
Qed.

Lemma scan_down_none : forall hp j, scan_down hp j = None -> forall m, (m <= j)%nat -> ih hp m = false.
Proof.
  intros hp j. induction j as [|j IH]; intros H m Hm; cbn [scan_down] in H.
  - fold (ih hp 0) in H. destruct (ih hp 0) eqn:E; [discriminate H|]. replace m with O by lia. exact E.
  - fold (ih hp (S j)) in H. destruct (ih hp (S j)) eqn:E; [discriminate H|]. destruct (Nat.eq_dec m (S j)) as [->|Hne]; [exact E|apply IH; [exact H|lia]].
Qed.

Lemma heap_wf_push : forall q i gen, heap_wf q -> (i < length (q_heap q))%nat ->
  exists q', push_crit q i gen = Some q' /\ heap_wf q' /\ length (q_heap q') = length (q_heap q).
Proof.
  intros q i gen [l [Hc [Hs Hm]]] Hi. unfold push_crit. cbv zeta. fold (ih (q_heap q) i).
  destruct ((e_gen (hget (q_heap q) i) <? gen) || (gen =? 0));
    [|exists q; split; [reflexivity|split; [exists l; auto|reflexivity]]].
  set (hp1 := if gen =? 0 then q_heap q else hp_upd (q_heap q) i (set_gen gen)).
  assert (N1 : forall m, nx hp1 m = nx (q_heap q) m).
  { intros m. unfold hp1. destruct (gen =? 0); [reflexivity|apply nx_set_gen]. }
  assert (I1 : forall m, ih hp1 m = ih (q_heap q) m).
  { intros m. unfold hp1. destruct (gen =? 0); [reflexivity|apply ih_set_gen]. }
  assert (L1 : length hp1 = length (q_heap q)).
  { unfold hp1. destruct (gen =? 0); [reflexivity|apply upd_len]. }
  clearbody hp1.
  destruct (ih (q_heap q) i) eqn:Ei.
  { eexists. split; [reflexivity|]. split; [|exact L1]. exists l. cbn [set_ads q_first q_heap].
    split; [eapply chain_frame; [|exact Hc]; intros; apply N1|]. split; [exact Hs|]. intros m. rewrite I1. apply Hm. }
  set (hp2 := hp_upd hp1 i (set_inheap true)).
  assert (Hi1 : (i <? length hp1)%nat = true) by (apply Nat.ltb_lt; lia).
  assert (N2 : forall m, nx hp2 m = nx (q_heap q) m).
  { intros m. unfold hp2. rewrite nx_set_inheap. apply N1. }
  assert (I2 : forall m, ih hp2 m = ((i =? m)%nat || ih (q_heap q) m)).
  { intros m. unfold hp2. rewrite ih_set_inheap, Hi1, I1, andb_true_r. destruct (i =? m)%nat; reflexivity. }
  assert (L2 : length hp2 = length (q_heap q)) by (unfold hp2; rewrite upd_len; exact L1).
  assert (Hi2 : (i <? length hp2)%nat = true) by (apply Nat.ltb_lt; lia).
  clearbody hp2.
  assert (Hnotin : ~ In i l) by (intros Hin; apply Hm in Hin; congruence).
  destruct (q_first q) as [f|] eqn:Ef.
  - inversion Hc as [|a l' Hc']; subst a l. apply ss_cons in Hs. destruct Hs as [Hs Hlt].
    destruct (i <? f)%nat eqn:Eif; [|destruct (f <? i)%nat eqn:Efi].
    + (* before the first *) apply Nat.ltb_lt in Eif.
      eexists. split; [reflexivity|]. cbn [set_ads q_first q_heap]. split; [|rewrite !upd_len; exact L2].
      exists (i :: f :: l'). cbn [set_ads q_first q_heap]. split; [|split].
      * constructor. rewrite !nx_set_prev, nx_set_next, Hi2, Nat.eqb_refl. cbn [andb].
        eapply chain_frame; [|exact Hc]. intros a Ha. rewrite !nx_set_prev, nx_set_next.
        destruct (Nat.eqb_spec i a) as [->|Hne]; [contradiction|]. cbn [andb]. apply N2.
      * apply ss_cons. split; [apply ss_cons; split; assumption|]. intros b [<-|Hb]; [exact Eif|].
        specialize (Hlt b Hb). lia.
      * intros m. rewrite !ih_set_prev, ih_set_next, I2. specialize (Hm m). cbn [In] in *.
        destruct (Nat.eqb_spec i m) as [->|Hne]; cbn [orb]; [tauto|]. rewrite <- Hm. tauto.
    + (* after the first: scan backwards *) apply Nat.ltb_lt in Efi.
      assert (Hf : ih (q_heap q) f = true) by (apply Hm; left; reflexivity).
      destruct (scan_down hp2 (i - 1)) as [j|] eqn:Esc.
      2:{ exfalso. assert (E := scan_down_none _ _ Esc f ltac:(lia)). rewrite I2, Hf, orb_true_r in E. discriminate E. }
      destruct (scan_down_spec _ _ _ Esc) as [Hji [Hjin Hgap]].
      assert (Hne_ji : j <> i) by lia.
      assert (Hj : ih (q_heap q) j = true).
      { rewrite I2 in Hjin. destruct (Nat.eqb_spec i j); [lia|exact Hjin]. }
      assert (Hjl : In j (f :: l')) by (apply Hm, Hj).
      destruct (in_split _ _ Hjl) as [l1 [l2 El]]. rewrite El in Hc, Hm, Hnotin.
      assert (Hs0 : StronglySorted lt (l1 ++ j :: l2)) by (rewrite <- El; apply ss_cons; split; assumption).
      apply ss_app in Hs0. destruct Hs0 as [Hs1 [Hs2 Hcross]]. apply ss_cons in Hs2. destruct Hs2 as [Hs2 Hj2].
      assert (Hl2 : forall b, In b l2 -> (i < b)%nat).
      { intros b Hb. assert (Hbi : ih (q_heap q) b = true) by (apply Hm, in_or_app; right; right; exact Hb).
        assert (b <> i) by (intros ->; apply Hnotin, in_or_app; right; right; exact Hb).
        specialize (Hj2 b Hb). destruct (Nat.le_gt_cases b (i - 1)) as [L|L]; [|lia].
        specialize (Hgap b ltac:(lia)). rewrite I2, Hbi, orb_true_r in Hgap. discriminate Hgap. }
      assert (Hl1 : forall a, In a l1 -> (a < j)%nat) by (intros a Ha; apply Hcross; [exact Ha|left; reflexivity]).
      assert (Hjlen : (j <? length hp2)%nat = true) by (apply Nat.ltb_lt; rewrite L2; apply ih_in_range, Hj).
      set (hp5 := hp_upd (hp_upd (hp_upd hp2 i (set_next (e_next (hget hp2 j)))) i (set_prev (Some j))) j (set_next (Some i))).
      set (hp6 := match e_next (hget hp5 i) with Some n => hp_upd hp5 n (set_prev (Some i)) | None => hp5 end).
      assert (N6 : forall m, nx hp6 m = if (j =? m)%nat then Some i else if (i =? m)%nat then nx (q_heap q) j else nx (q_heap q) m).
      { intros m. assert (E : nx hp6 m = nx hp5 m) by (unfold hp6; destruct (e_next (hget hp5 i)); [apply nx_set_prev|reflexivity]).
        rewrite E. unfold hp5. rewrite nx_set_next, !upd_len, Hjlen, andb_true_r. destruct (j =? m)%nat; [reflexivity|].
        rewrite nx_set_prev, nx_set_next, Hi2, andb_true_r. fold (nx hp2 j). rewrite !N2. reflexivity. }
      assert (I6 : forall m, ih hp6 m = ((i =? m)%nat || ih (q_heap q) m)).
      { intros m. assert (E : ih hp6 m = ih hp5 m) by (unfold hp6; destruct (e_next (hget hp5 i)); [apply ih_set_prev|reflexivity]).
        rewrite E. unfold hp5. rewrite ih_set_next, ih_set_prev, ih_set_next. apply I2. }
      assert (L6 : length hp6 = length (q_heap q)).
      { unfold hp6. destruct (e_next (hget hp5 i)); unfold hp5; rewrite !upd_len; exact L2. }
      clearbody hp6. clear hp5.
      eexists. split; [reflexivity|]. cbn [set_ads q_first q_heap]. split; [|exact L6].
      exists (l1 ++ j :: i :: l2). cbn [set_ads q_first q_heap]. split; [|split].
      * destruct (chain_split _ _ _ _ _ Hc) as [H1 H2]. apply H2.
        -- intros m Hm1. rewrite N6. specialize (Hl1 m Hm1).
           destruct (Nat.eqb_spec j m); [lia|]. destruct (Nat.eqb_spec i m); [lia|reflexivity].
        -- inversion H1 as [|a0 l0 H1']; subst a0 l0.
           constructor. rewrite N6, Nat.eqb_refl. constructor. rewrite N6, Nat.eqb_refl.
           destruct (Nat.eqb_spec j i); [lia|]. eapply chain_frame; [|exact H1']. intros b Hb. rewrite N6.
           specialize (Hl2 b Hb). destruct (Nat.eqb_spec j b); [lia|]. destruct (Nat.eqb_spec i b); [lia|reflexivity].
      * apply ss_app. split; [exact Hs1|]. split.
        -- apply ss_cons. split; [apply ss_cons; split; [exact Hs2|exact Hl2]|].
           intros b [<-|Hb]; [lia|]. specialize (Hl2 b Hb). lia.
        -- intros a b Ha [<-|[<-|Hb]]; [apply Hl1, Ha|specialize (Hl1 a Ha); lia|].
           apply Hcross; [exact Ha|right; exact Hb].
      * intros m. rewrite I6. specialize (Hm m). rewrite in_app_iff in *. cbn [In] in *.
        destruct (Nat.eqb_spec i m) as [->|Hne]; cbn [orb]; [tauto|]. rewrite <- Hm. tauto.
    + (* it would be the first itself: excluded, the first is in the heap *)
      exfalso. apply Nat.ltb_ge in Eif. apply Nat.ltb_ge in Efi. assert (f = i) by lia. subst f. apply Hnotin. left; reflexivity.
  - (* empty heap *) inversion Hc; subst l.
    eexists. split; [reflexivity|]. cbn [set_ads q_first q_heap]. split; [|rewrite !upd_len; exact L2].
    exists [i]. cbn [set_ads q_first q_heap]. split; [|split].
    + constructor. rewrite nx_set_next, upd_len, Hi2, Nat.eqb_refl. constructor.
    + apply ss_cons. split; [constructor|intros b []].
    + intros m. rewrite ih_set_next, ih_set_prev, I2. specialize (Hm m). cbn [In] in *.
      destruct (Nat.eqb_spec i m) as [->|Hne]; cbn [orb]; [tauto|]. rewrite <- Hm. tauto.
Qed.

Lemma heap_wf_same : forall q q', q_heap q' = q_heap q -> q_first q' = q_first q -> heap_wf q -> heap_wf q'.
Proof. intros q q' Eh Ef [l H]. exists l. rewrite Eh, Ef. exact H. Qed.

Lemma pop_crit_len : forall q, length (q_heap (fst (pop_crit q))) = length (q_heap q).
Proof.
  intros q. unfold pop_crit. destruct (q_first q) as [f|]; [|reflexivity]. cbn [fst set_ads q_heap].
  rewrite upd_len. destruct (e_next _); [apply upd_len|reflexivity].
Qed.

Lemma find_shep_bound : forall hp shep n i, find_shep hp shep n = Some i -> (n <= i < n + length hp)%nat.
Proof.
  induction hp as [|e hp IH]; intros shep n i H; cbn [find_shep length] in *; [discriminate H|].
  destruct (e_shep e =? shep)%nat; [inv H; lia|]. specialize (IH _ _ _ H). lia.
Qed.

Definition hlen (s : dstate) (h : nat) : nat := length (q_heap (getq s h)).

(* no task has run the backwards scan of qdqueue_adheap_push below index 0, and the element index a push works on
   is inside the heap array *)
Definition pc_ok (hl : nat -> nat) (p : pc) : Prop :=
  match p with
  | PCrash (S _) => False
  | PPushLock h i _ _ | PPushCrit h i _ _ => (i < hl h)%nat
  | _ => True
  end.

Definition wf_state (s : dstate) : Prop :=
  (forall q, In q (dm_subs s) -> heap_wf q) /\ (forall k, In k (dm_tasks s) -> pc_ok (hlen s) (k_pc k)).

Lemma heap_wf_dflt : heap_wf dflt_sub.
Proof.
  exists []. split; [constructor|]. split; [constructor|]. intros m. split; [intros []|].
  unfold ih, hget. cbn [q_heap dflt_sub]. destruct m; intros E; discriminate E.
Qed.

Lemma getq_wf : forall s h, (forall q, In q (dm_subs s) -> heap_wf q) -> heap_wf (getq s h).
Proof.
  intros s h H. unfold getq. destruct (Nat.lt_ge_cases h (length (dm_subs s))) as [L|L].
  - apply H, nth_In, L.
  - rewrite nth_overflow by exact L. apply heap_wf_dflt.
Qed.

Lemma pc_ok_ext : forall hl hl' p, (forall h, hl' h = hl h) -> pc_ok hl p -> pc_ok hl' p.
Proof. intros hl hl' p H Hp. destruct p; cbn [pc_ok] in *; try exact Hp; rewrite H; exact Hp. Qed.

Lemma pc_ok_enter_push : forall s h shep gen c, pc_ok (hlen s) (enter_push s h shep gen c).
Proof.
  intros. unfold enter_push. destruct (find_shep _ _ _) as [i|] eqn:E; cbn [pc_ok]; [|exact I].
  apply find_shep_bound in E. unfold hlen. lia.
Qed.

Lemma pc_ok_enq_nbr : forall s qi gen idx, pc_ok (hlen s) (enq_nbr s qi gen idx).
Proof. intros. unfold enq_nbr. destruct (nth_error _ _); [apply pc_ok_enter_push|exact I]. Qed.

Lemma pc_ok_after_push : forall s c, pc_ok (hlen s) (after_push s c).
Proof. intros s [qi gen idx|a b]; cbn [after_push]; [apply pc_ok_enq_nbr|exact I]. Qed.

Lemma pc_ok_loop_at : forall s idx, pc_ok (hlen s) (loop_at s idx).
Proof. intros. unfold loop_at. destruct (_ <? _)%nat; exact I. Qed.

Lemma wf_state_step : forall s t s' r, wf_state s -> dm_step s t = Some (s', r) -> wf_state s'.
Proof.
  intros s t s' r [HH HP] H. unfold dm_step in H.
  destruct (nth_error (dm_tasks s) t) as [k|] eqn:Ek; [|discriminate H].
  assert (Hk : In k (dm_tasks s)) by (eapply nth_error_In, Ek). assert (HPk := HP k Hk).
  (* generic re-assembly *)
  assert (Hmk : forall qs' subs' k' e d,
            (forall q, In q subs' -> heap_wf q) ->
            (forall h, length (q_heap (nth h subs' dflt_sub)) = hlen s h) ->
            pc_ok (hlen s) (k_pc k') ->
            wf_state (mkDM (dm_S s) (dm_alls s) (dm_nbrs s) qs' subs' (set_nth (dm_tasks s) t k') e d)).
  { intros qs' subs' k' e d H1 H2 H3. split; [exact H1|]. cbn [dm_tasks]. intros k0 Hin.
    apply pc_ok_ext with (hl := hlen s); [intros h; unfold hlen at 1, getq; cbn [dm_subs]; apply H2|].
    destruct (set_nth_In _ _ _ _ _ Hin) as [->|Hin']; [exact H3|apply HP, Hin']. }
  assert (Hsame : forall qs' k' e d, pc_ok (hlen s) (k_pc k') ->
            wf_state (mkDM (dm_S s) (dm_alls s) (dm_nbrs s) qs' (dm_subs s) (set_nth (dm_tasks s) t k') e d)).
  { intros. apply Hmk; [exact HH|reflexivity|assumption]. }
  assert (Hset : forall i q' k', (heap_wf (getq s i) -> heap_wf q') -> length (q_heap q') = hlen s i ->
            pc_ok (hlen s) (k_pc k') -> wf_state (upd s (set_nth (dm_subs s) i q') t k')).
  { intros i q' k' H1 H2 H3. apply Hmk; [| |exact H3].
    - intros q0 Hin. destruct (set_nth_In _ _ _ _ _ Hin) as [->|Hin']; [apply H1, getq_wf, HH|apply HH, Hin'].
    - intros h. rewrite nth_set_nth. destruct ((i =? h) && _)%nat eqn:E; [|reflexivity].
      apply andb_true_iff in E. destruct E as [E _]. apply Nat.eqb_eq in E. subst h. exact H2. }
  assert (Htry : forall i on_some on_null, try_deq s t k i on_some on_null = Some (s', r) ->
            (forall x, pc_ok (hlen s) (on_some x)) -> pc_ok (hlen s) on_null -> wf_state s').
  { intros i on_some on_null Ht H1 H2. unfold try_deq in Ht. destruct (qpop _ _) as [[x qs']|]; invs Ht; apply Hsame.
    - apply H1.
    - exact H2. }
  assert (Hsetter : forall i q' k', q_heap q' = q_heap (getq s i) -> q_first q' = q_first (getq s i) ->
            pc_ok (hlen s) (k_pc k') -> wf_state (upd s (set_nth (dm_subs s) i q') t k')).
  { intros i q' k' E1 E2 H3. apply Hset; [apply heap_wf_same; assumption|unfold hlen; rewrite E1; reflexivity|exact H3]. }
  destruct (k_pc k) eqn:Epc; cbn [pc_ok] in HPk.
  - destruct (k_ops k) as [|o rest]; invs H. apply Hsame. cbn [k_pc]. destruct o; exact I.
  - discriminate H.
  - invs H. apply Hsame. exact I.
  - invs H. apply Hsame. cbn [tk_goto k_pc]. destruct stat; exact I.
  - invs H. apply Hsame. exact I.
  - destruct (_ <=? _); invs H; apply Hsame; exact I.
  - invs H. apply Hsetter; [reflexivity|reflexivity|apply pc_ok_enq_nbr].
  - invs H. apply Hsame. exact I.
  - destruct (q_lock _); invs H. apply Hsetter; [reflexivity|reflexivity|exact HPk].
  - (* PPushCrit *)
    destruct (heap_wf_push (getq s h) i gen (getq_wf s h HH) HPk) as [q' [Eq [Hw Hl]]]. rewrite Eq in H. invs H.
    apply Hset; [intros _; exact Hw|exact Hl|exact I].
  - invs H. apply Hsetter; [reflexivity|reflexivity|apply pc_ok_after_push].
  - eapply Htry; [exact H|intros; exact I|exact I].
  - invs H. apply Hsetter; [reflexivity|reflexivity|exact I].
  - invs H. apply Hsetter; [reflexivity|reflexivity|exact I].
  - destruct (q_first _); invs H; apply Hsame; [exact I|apply pc_ok_loop_at].
  - destruct (q_lock _); invs H. apply Hsetter; [reflexivity|reflexivity|exact I].
  - (* PPopCrit *)
    assert (Hw := heap_wf_pop _ (getq_wf s (k_me k) HH)). assert (Hl := pop_crit_len (getq s (k_me k))).
    destruct (pop_crit (getq s (k_me k))) as [q' [[ash gen]|]]; cbn [fst] in Hw, Hl; invs H;
      (apply Hset; [intros _; exact Hw|exact Hl|exact I]).
  - invs H. apply Hsetter; [reflexivity|reflexivity|apply pc_ok_loop_at].
  - invs H. apply Hsetter; [reflexivity|reflexivity|exact I].
  - destruct (q_lc _) as [l|]; [destruct (l =? ash)%nat|]; invs H; apply Hsame; try exact I. apply pc_ok_enter_push.
  - destruct (_ <? _); invs H; apply Hsame; exact I.
  - invs H. apply Hsetter; [destruct (_ =? _); reflexivity|destruct (_ =? _); reflexivity|destruct (_ <? _); exact I].
  - eapply Htry; [exact H|intros; exact I|exact I].
  - invs H. apply Hsetter; [| |exact I]; (destruct (q_lc _) as [l|]; [destruct (l =? lc)%nat|]; reflexivity).
  - invs H. apply Hsame. exact I.
  - eapply Htry; [exact H|intros; exact I|]. destruct lc as [l|]; [destruct (l =? _)%nat|]; exact I.
  - eapply Htry; [exact H|intros; exact I|exact I].
  - destruct (q_first _); invs H; apply Hsame; [exact I|apply pc_ok_loop_at].
  - invs H. apply Hsame. exact I.
Qed.

(* initial hint states whose advertisement heaps are well-formed lists; qdqueue_create's is one *)
Lemma hget_map_seq : forall (f : nat -> elem) n m, (m < n)%nat -> hget (map f (seq 0 n)) m = f m.
Proof.
  intros f n m H. unfold hget. rewrite nth_indep with (d' := f O) by (rewrite map_length, seq_length; exact H).
  rewrite map_nth, seq_nth by exact H. reflexivity.
Qed.

Lemma nth_repeat' : forall (A : Type) (a : A) n m, nth m (repeat a n) a = a.
Proof. intros A a n. induction n as [|n IH]; intros m; destruct m; cbn [repeat nth]; try reflexivity. apply IH. Qed.

Lemma wf_state_create : forall ns alls nbrs progs, wf_state (dm_init ns alls nbrs (hints_create ns) progs).
Proof.
  intros ns alls nbrs progs. split.
  - unfold dm_init; cbn [dm_subs]. intros q Hq. apply in_map_iff in Hq. destruct Hq as [i [<- _]].
    unfold init_sub, hints_create. rewrite nth_repeat'. cbn [shint_create h_lc h_issued h_consumed h_first h_elems].
    exists []. cbn [q_first q_heap]. split; [constructor|]. split; [constructor|]. intros m. split; [intros []|].
    intros E. exfalso. assert (L := ih_in_range _ _ E). rewrite map_length, seq_length in L.
    unfold ih in E. rewrite hget_map_seq in E by exact L. unfold init_elem in E. rewrite nth_repeat' in E. discriminate E.
  - unfold dm_init; cbn [dm_tasks]. intros k Hk. apply in_map_iff in Hk. destruct Hk as [p [<- _]]. exact I.
Qed.

(* the list the heap is, read off the state: follow next from first *)
Lemma chain_heap_chain : forall hp x l fuel, is_chain hp x l -> (length l < fuel)%nat -> heap_chain fuel hp x = l.
Proof.
  intros hp x l fuel H. revert fuel. induction H as [|a l Hc IH]; intros fuel Hf.
  - destruct fuel; reflexivity.
  - destruct fuel as [|fuel]; [cbn [length] in Hf; lia|]. cbn [heap_chain]. f_equal. apply IH. cbn [length] in Hf. lia.
Qed.

Theorem dqm_adheap_wellformed : forall ns alls nbrs progs sched h,
  let s := dm_run (dm_init ns alls nbrs (hints_create ns) progs) sched in
  exists l, is_chain (q_heap (getq s h)) (q_first (getq s h)) l /\     (* l = the elements reached from first via next *)
            StronglySorted lt l /\                                       (* strictly increasing index order *)
            (forall m, In m l <-> e_inheap (hget (q_heap (getq s h)) m) = true) /\    (* exactly the inheap elements *)
            heap_chain (S (length (q_heap (getq s h)))) (q_heap (getq s h)) (q_first (getq s h)) = l.
Proof.
  intros ns alls nbrs progs sched h s.
  assert (Hw : wf_state s) by (apply (dm_run_invariant wf_state); [apply wf_state_step|apply wf_state_create]).
  destruct (getq_wf s h (proj1 Hw)) as [l [Hc [Hs Hm]]]. exists l. split; [exact Hc|]. split; [exact Hs|]. split; [exact Hm|].
  apply chain_heap_chain; [exact Hc|].
  assert (Hnd : NoDup l).
  { clear -Hs. induction Hs as [|a l Hs IH Hf]; constructor; [|exact IH]. intros Hin. rewrite Forall_forall in Hf.
    specialize (Hf a Hin). lia. }
  assert (Hincl : incl l (seq 0 (length (q_heap (getq s h))))).
  { intros m Hin. apply in_seq. apply Hm, ih_in_range in Hin. lia. }
  apply NoDup_incl_length in Hincl; [|exact Hnd]. rewrite seq_length in Hincl. lia.
Qed.

(* the `for (j = i - 1;; j--)` loop of qdqueue_adheap_push never runs below index 0: [PCrash 1] is unreachable *)
Theorem dqm_push_scan_in_bounds : forall ns alls nbrs progs sched k,
  let s := dm_run (dm_init ns alls nbrs (hints_create ns) progs) sched in
  In k (dm_tasks s) -> forall n, k_pc k <> PCrash (S n).
Proof.
  intros ns alls nbrs progs sched k s Hk n E.
  assert (Hw : wf_state s) by (apply (dm_run_invariant wf_state); [apply wf_state_step|apply wf_state_create]).
  apply (proj2 Hw) in Hk. rewrite E in Hk. exact Hk.
Qed.

(* the same for every initial hint state whose heaps are well-formed lists (not only qdqueue_create's) *)
Theorem dqm_push_scan_in_bounds_gen : forall init sched k,
  wf_state init -> In k (dm_tasks (dm_run init sched)) -> forall n, k_pc k <> PCrash (S n).
Proof.
  intros init sched k Hw0 Hk n E.
  assert (Hw : wf_state (dm_run init sched)) by (apply (dm_run_invariant wf_state); [apply wf_state_step|exact Hw0]).
  apply (proj2 Hw) in Hk. rewrite E in Hk. exact Hk.
Qed.

(* ------------------------------------------------------------------------------------------------------ *)
(* 5  examples (non-vacuity)                                                                               *)

Definition ex_a2 : list (list nat) := [[1];[0]]%nat.
Definition ex_a3 : list (list nat) := [[1;2];[2;0];[0;1]]%nat.

Example ex_cfg_ok : dm_cfg_ok 2 ex_a2 ex_a2 = true /\ dm_cfg_ok 3 ex_a3 ex_a3 = true.
Proof. vm_compute. split; reflexivity. Qed.

Example ex_alls_cover : alls_cover 2 ex_a2 /\ alls_cover 3 ex_a3.
Proof. split; eapply dm_cfg_ok_alls_cover; apply ex_cfg_ok. Qed.

(* (a) an advertisement is issued and consumed.  Shepherd 0: task 0 enqueues 5 (queue empty: no ad), then tasks 0
   and 1 enqueue 6 and 7 on the non-empty queue, both pass `last_ad_issued <= last_ad_consumed` before either
   increments: generations 1 and 2 are pushed into neighbour 1's heap (element 1 names shepherd 0).  Task 0
   dequeues 5 from its own queue (last_consumed[0] = &Qs[0]).  Task 2 on shepherd 1 dequeues: own queue empty,
   pops the ad (shep 0, generation 2), takes the `lc == ad.shep` branch, runs the CAS loop (last_ad_consumed[0]
   1 -> 2; the loop of the C code always does one more, failing, CAS) and steals 6. *)
Definition ex_st1 : dstate :=
  dm_init 2 ex_a2 ex_a2 (hints_create 2) [(0, [DEnq 5; DEnq 6; DDeq]); (0, [DEnq 7]); (1, [DDeq])]%nat.
Definition ex_sch1 : list nat :=
  (repeat 0 4 ++ repeat 0 5 ++ repeat 1 5 ++ repeat 0 5 ++ repeat 1 5 ++ repeat 0 3 ++ repeat 2 13)%nat.

Example ex_ad_issued :
  let s := dm_run ex_st1 (firstn 24 ex_sch1) in
  dm_heap_chain s 1 = [1%nat] /\ dm_heap_elems s 1 = [(false, 0); (true, 2)] /\
  dm_last_ad_issued s 0 = 3 /\ dm_last_ad_consumed s 0 = 1.
Proof. vm_compute. repeat split. Qed.

Example ex_ad_consumed_pcs :
  map (fun n => dm_pc_of (dm_run ex_st1 (firstn n ex_sch1)) 2) (seq 27 14) =
  [PIdle; PDeqOwn; PDeqStNull; PPopPre; PPopLock; PPopCrit; PPopUnlock 0 2; PDeqLdLc 0 2; PDeqLdConsumed 0 2;
   PDeqCas 0 2 1; PDeqCas 0 2 1; PDeqSteal 0; PDeqStRet 0 6; PIdle].
Proof. vm_compute. reflexivity. Qed.

Example ex_ad_consumed :
  let s := dm_run ex_st1 ex_sch1 in
  dm_outs s = [[Some 5]; []; [Some 6]] /\ dm_qs s = [[7]; []] /\ d_enq s = [5; 6; 7] /\ d_deq s = [5; 6] /\
  dm_last_ad_issued s 0 = 3 /\ dm_last_ad_consumed s 0 = 2 /\ dm_last_consumed s 1 = Some 0%nat /\
  dm_heap_chain s 1 = [] /\ dm_heap_elems s 1 = [(false, 0); (false, 2)] /\ dm_crashed s = false.
Proof. vm_compute. repeat split. Qed.

(* (b) `goto checkads` from the final loop: task 1 (shepherd 1) has scanned shepherd 0 (empty) and stands at
   qdqueue_adheap_empty; meanwhile task 0 enqueues twice on shepherd 0 and advertises to shepherd 1; task 1 sees
   the non-empty heap, jumps back to checkads, pops the ad (last_consumed[0] is NULL: nothing to do), re-enters the
   final loop and finds 5. *)
Definition ex_st2 : dstate := dm_init 2 ex_a2 ex_a2 (hints_create 2) [(0, [DEnq 5; DEnq 6]); (1, [DDeq])]%nat.
Definition ex_sch2 : list nat := (repeat 1 6 ++ repeat 0 4 ++ repeat 0 10 ++ repeat 1 12)%nat.

Example ex_goto_checkads :
  map (fun n => dm_pc_of (dm_run ex_st2 (firstn n ex_sch2)) 1) (seq 20 11) =
  [PDeqEmptyChk 0; PPopPre; PPopLock; PPopCrit; PPopUnlock 0 1; PDeqLdLc 0 1; PPopPre; PDeqRLdLc 0;
   PDeqRDeq 0 None; PDeqStRet 0 5; PIdle] /\
  let s := dm_run ex_st2 ex_sch2 in
  dm_outs s = [[]; [Some 5]] /\ dm_qs s = [[6]; []] /\ map k_seen (dm_tasks s) = [[]; [0; 1]]%nat.
Proof. vm_compute. repeat split. Qed.

(* (c) a dequeue on three empty sub-queues returns NULL after having seen all of them *)
Definition ex_st3 : dstate := dm_init 3 ex_a3 ex_a3 (hints_create 3) [(1, [DDeq])]%nat.

Example ex_null_all_seen :
  let s := dm_run ex_st3 (repeat 0%nat 10) in
  dm_pc_of s 0 = PDeqRetNull /\ map k_seen (dm_tasks s) = [[0; 2; 1]]%nat /\
  exists s', dm_step s 0 = Some (s', Some (DPtr None)) /\ dm_outs s' = [[None]].
Proof. vm_compute. repeat split. eexists. split; reflexivity. Qed.

(* the hypotheses of the theorems are satisfiable by these runs *)
Example ex_progs_ok : progs_ok 2 [(0, [DEnq 5; DEnq 6; DDeq]); (0, [DEnq 7]); (1, [DDeq])]%nat.
Proof.
  intros me p [E|[E|[E|[]]]]; inv E; (split; [lia|]); intros th v Hin; cbn [In] in Hin;
    repeat (destruct Hin as [Hin|Hin]; [discriminate Hin|]); destruct Hin.
Qed.

Example ex_safe : dqm_safe 2 ex_a2 ex_a2 [(0, [DEnq 5; DEnq 6; DDeq]); (0, [DEnq 7]); (1, [DDeq])]%nat (hints_create 2) ex_sch1.
Proof. apply dqm_safe_any_hints; [apply ex_progs_ok|apply ex_alls_cover]. Qed.

(* (d) the schedule-point interface: from the initial state task 2 runs to its first interposable operation *)
Example ex_run_to_sp :
  let '(s, k) := dm_run_to_sp 100 ex_st1 2 in k = Some KLfDeq /\ dm_pc_of s 2 = PDeqOwn /\ dm_sp_target s 2 = Some 1%nat.
Proof. vm_compute. repeat split. Qed.

Example ex_run_to_sp_end :
  let s0 := dm_run ex_st1 (firstn 38 ex_sch1) in
  dm_sp_kind (dm_pc_of s0 2) = Some KLfDeq /\ snd (dm_run_to_sp 100 s0 2) = Some (DKEnd (DPtr (Some 6))).
Proof. vm_compute. repeat split. Qed.

(* (e) [PCrash 1] is not vacuous: with an ILL-FORMED initial hint state (first points at an element whose inheap is 0)
   the backwards scan of qdqueue_adheap_push does run below index 0.  (Not a defect of the code: qdqueue_create
   never produces such a state; it shows why dqm_push_scan_in_bounds needs the heap invariant while 1-3 do not.) *)
Definition ex_bad_hints : hints := [shint_create 2; mkSH None 1 1 (Some 0%nat) (repeat ehint_create 2)].

Example ex_scan_below_zero_with_bad_hints :
  let s := dm_run (dm_init 2 ex_a2 ex_a2 ex_bad_hints [(0, [DEnq 5; DEnq 6])]%nat) (repeat 0%nat 12) in
  dm_pc_of s 0 = PCrash 1 /\ dm_crashed s = true /\ d_enq s = [5; 6] /\ dm_qs s = [[5; 6]; []].
Proof. vm_compute. repeat split. Qed.

(* (f) observation (heuristic only, no safety impact): qthread_incr returns the OLD value, so the first generation
   a sub-queue advertises is 1 = its initial last_ad_consumed; the consumer's `while (last_ad < ad.generation)` is
   then false, last_ad_consumed stays 1 while last_ad_issued is 2, and `last_ad_issued <= last_ad_consumed` never
   holds again: without two overlapping enqueues a sub-queue advertises only once in its life.  Here: after the
   first ad was consumed, the enqueue of 4 on the non-empty sub-queue 0 does not advertise. *)
Definition ex_st6 : dstate :=
  dm_init 2 ex_a2 ex_a2 (hints_create 2) [(0, [DEnq 1; DEnq 2; DDeq; DEnq 3; DEnq 4]); (1, [DDeq; DDeq])]%nat.
Definition ex_sch6 : list nat :=
  (repeat 0 4 ++ repeat 0 10 ++ repeat 0 3 ++ repeat 1 11 ++ repeat 0 4 ++ repeat 0 7 ++ repeat 1 9)%nat.

Example ex_ads_only_once_sequentially :
  map (fun n => dm_pc_of (dm_run ex_st6 (firstn n ex_sch6)) 0) (seq 33 6) =
  [PEnqEmpty 0 4; PEnqPut 0 4 false; PEnqLdIssued 0; PEnqLdConsumed 0 2; PEnqRet; PIdle] /\
  let s := dm_run ex_st6 ex_sch6 in
  dm_outs s = [[Some 1]; [Some 2; Some 3]] /\ dm_qs s = [[4]; []] /\
  dm_last_ad_issued s 0 = 2 /\ dm_last_ad_consumed s 0 = 1 /\ dm_heap_chain s 1 = [].
Proof. vm_compute. repeat split. Qed.

(* ------------------------------------------------------------------------------------------------------ *)
(* 6  every index is a shepherd; the assert of qdqueue_adheap_push holds ([PCrash 0] unreachable)           *)

Lemma map_set_nth_same : forall (A B : Type) (g : A -> B) (l : list A) (i : nat) (x : A),
  (forall y, nth_error l i = Some y -> g x = g y) -> map g (set_nth l i x) = map g l.
Proof.
  intros A B g l. induction l as [|a l IH]; intros i x H; [destruct i; reflexivity|].
  destruct i as [|i]; cbn [set_nth map].
  - f_equal. apply H. reflexivity.
  - f_equal. apply IH. intros y Hy. apply H. exact Hy.
Qed.

Lemma shep_upd : forall hp i f, (forall e, e_shep (f e) = e_shep e) -> map e_shep (hp_upd hp i f) = map e_shep hp.
Proof.
  intros hp i f H. unfold hp_upd. apply map_set_nth_same. intros y Hy. rewrite H. unfold hget.
  rewrite (nth_error_nth _ _ _ Hy). reflexivity.
Qed.
Lemma shep_set_prev : forall hp i v, map e_shep (hp_upd hp i (set_prev v)) = map e_shep hp.
Proof. intros. apply shep_upd. reflexivity. Qed.
Lemma shep_set_next : forall hp i v, map e_shep (hp_upd hp i (set_next v)) = map e_shep hp.
Proof. intros. apply shep_upd. reflexivity. Qed.
Lemma shep_set_gen : forall hp i v, map e_shep (hp_upd hp i (set_gen v)) = map e_shep hp.
Proof. intros. apply shep_upd. reflexivity. Qed.
Lemma shep_set_inheap : forall hp i v, map e_shep (hp_upd hp i (set_inheap v)) = map e_shep hp.
Proof. intros. apply shep_upd. reflexivity. Qed.

(* the critical sections touch neither the lock word, nor last_consumed, nor the (immutable) ad.shep fields *)
Lemma pop_crit_fields : forall q,
  q_lock (fst (pop_crit q)) = q_lock q /\ q_lc (fst (pop_crit q)) = q_lc q /\
  map e_shep (q_heap (fst (pop_crit q))) = map e_shep (q_heap q).
Proof.
  intros q. unfold pop_crit. destruct (q_first q) as [f|]; [|auto]. cbn [fst set_ads q_lock q_lc q_heap].
  split; [reflexivity|]. split; [reflexivity|]. rewrite shep_set_inheap. destruct (e_next _); [apply shep_set_prev|reflexivity].
Qed.

Lemma push_crit_fields : forall q i gen q', push_crit q i gen = Some q' ->
  q_lock q' = q_lock q /\ q_lc q' = q_lc q /\ map e_shep (q_heap q') = map e_shep (q_heap q).
Proof.
  intros q i gen q' H. unfold push_crit in H. cbv zeta in H.
  assert (E1 : map e_shep (if gen =? 0 then q_heap q else hp_upd (q_heap q) i (set_gen gen)) = map e_shep (q_heap q))
    by (destruct (gen =? 0); [reflexivity|apply shep_set_gen]).
  destruct (_ || _); [|inv H; auto].
  destruct (e_inheap _); [inv H; cbn [set_ads q_lock q_lc q_heap]; auto|].
  destruct (q_first q) as [f|].
  - destruct (i <? f)%nat; [inv H; cbn [set_ads q_lock q_lc q_heap]; rewrite !shep_set_prev, shep_set_next, shep_set_inheap; auto|].
    destruct (f <? i)%nat; [|inv H; cbn [set_ads q_lock q_lc q_heap]; rewrite shep_set_inheap; auto].
    destruct (scan_down _ _) as [j|]; [|discriminate H]. inv H. cbn [set_ads q_lock q_lc q_heap].
    split; [reflexivity|]. split; [reflexivity|].
    match goal with |- map e_shep (match ?c with Some _ => _ | None => _ end) = _ => destruct c end;
      rewrite ?shep_set_prev, ?shep_set_next, ?shep_set_prev, ?shep_set_next, ?shep_set_inheap; exact E1.
  - inv H. cbn [set_ads q_lock q_lc q_heap]. rewrite shep_set_next, shep_set_prev, shep_set_inheap. auto.
Qed.

Definition nbrs_ok (ns : nat) (nbrs : list (list nat)) : Prop :=
  forall i nb, In nb (nth i nbrs []) -> (nb < ns)%nat.
Definition hints_lc_ok (ns : nat) (hn : hints) : Prop :=
  forall sh j, In sh hn -> h_lc sh = Some j -> (j < ns)%nat.

Definition cont_rng (ns : nat) (c : pcont) : Prop :=
  match c with KEnqNbr qi _ _ => (qi < ns)%nat | KDeqRepush _ _ => True end.
(* st = true: strict (last_consumed values are shepherds, the assert of push holds); st = false: what holds for
   arbitrary hints *)
Definition pc_rng (st : bool) (ns : nat) (p : pc) : Prop :=
  match p with
  | PCrash O => st = false
  | PEnqEmpty qi _ | PEnqPut qi _ _ | PEnqLdIssued qi | PEnqLdConsumed qi _ | PEnqIncr qi => (qi < ns)%nat
  | PPushLock h _ _ c | PPushCrit h _ _ c | PPushUnlock h c => (h < ns)%nat /\ cont_rng ns c
  | PDeqStRet tgt _ => (tgt < ns)%nat
  | _ => True
  end.
Definition tk_rng (st : bool) (ns : nat) (k : dtask) : Prop :=
  (k_me k < ns)%nat /\ pc_rng st ns (k_pc k) /\ forall th v, In (DEnqThere th v) (k_ops k) -> (th < ns)%nat.

Definition names_ok (ns : nat) (alls : list (list nat)) (subs : list subq) : Prop :=
  forall h, (h < ns)%nat -> map e_shep (q_heap (nth h subs dflt_sub)) = map (elem_shep alls h) (seq 0 ns).
Definition lc_ok (ns : nat) (subs : list subq) : Prop :=
  forall h j, q_lc (nth h subs dflt_sub) = Some j -> (j < ns)%nat.

Definition rng (st : bool) (ns : nat) (alls nbrs : list (list nat)) (s : dstate) : Prop :=
  dm_S s = ns /\ dm_alls s = alls /\ dm_nbrs s = nbrs /\ length (dm_qs s) = ns /\ length (dm_subs s) = ns /\
  names_ok ns alls (dm_subs s) /\ (st = true -> lc_ok ns (dm_subs s)) /\ forall k, In k (dm_tasks s) -> tk_rng st ns k.

Lemma find_shep_none : forall hp shep n, find_shep hp shep n = None -> ~ In shep (map e_shep hp).
Proof.
  induction hp as [|e hp IH]; intros shep n H Hin; [destruct Hin|]. cbn [find_shep map] in *.
  destruct (Nat.eqb_spec (e_shep e) shep) as [E|Hne]; [discriminate H|].
  destruct Hin as [E|Hin]; [contradiction|]. eapply IH; eassumption.
Qed.

Lemma in_firstn_nth : forall (l : list nat) n x d, In x (firstn n l) -> exists k, (k < n)%nat /\ nth k l d = x.
Proof.
  induction l as [|a l IH]; intros n x d H; [destruct n; destruct H|].
  destruct n as [|n]; [destruct H|]. cbn [firstn] in H. destruct H as [<-|H].
  - exists O. split; [lia|reflexivity].
  - destruct (IH n x d H) as [k [Hk E]]. exists (S k). split; [lia|exact E].
Qed.

Lemma rng_enter_push : forall st ns alls nbrs s h shep gen c,
  (st = true -> alls_cover ns alls) -> rng st ns alls nbrs s -> (h < ns)%nat -> (st = true -> (shep < ns)%nat) -> cont_rng ns c ->
  pc_rng st ns (enter_push s h shep gen c).
Proof.
  intros st ns alls nbrs s h shep gen c Hcov [_ [_ [_ [_ [_ [Hn _]]]]]] Hh Hs Hc. unfold enter_push.
  destruct (find_shep _ _ _) as [i|] eqn:E; cbn [pc_rng]; [split; assumption|].
  destruct st; [|reflexivity]. specialize (Hs eq_refl). specialize (Hcov eq_refl). exfalso.
  apply find_shep_none in E. apply E. unfold getq. rewrite (Hn h Hh).
  destruct (Nat.eq_dec shep h) as [->|Hne].
  - change h with (elem_shep alls h O) at 1. apply in_map, in_seq. lia.
  - destruct (in_firstn_nth _ _ _ O (Hcov h shep Hh Hs Hne)) as [k [Hk Ek]].
    rewrite <- Ek. change (nth k (nth h alls []) O) with (elem_shep alls h (S k)). apply in_map, in_seq. lia.
Qed.

Lemma rng_enq_nbr : forall st ns alls nbrs s qi gen idx,
  (st = true -> alls_cover ns alls) -> nbrs_ok ns nbrs -> rng st ns alls nbrs s -> (qi < ns)%nat -> pc_rng st ns (enq_nbr s qi gen idx).
Proof.
  intros st ns alls nbrs s qi gen idx Hcov Hnb Hr Hq. unfold enq_nbr.
  destruct (nth_error _ _) as [nb|] eqn:E; [|exact I].
  eapply rng_enter_push; try eassumption; [|intros _; exact Hq]. apply nth_error_In in E.
  destruct Hr as [_ [_ [En _]]]. rewrite En in E. eapply Hnb, E.
Qed.

Lemma rng_step : forall st ns alls nbrs s t s' r,
  (st = true -> alls_cover ns alls) -> nbrs_ok ns nbrs -> rng st ns alls nbrs s -> dm_step s t = Some (s', r) -> rng st ns alls nbrs s'.
Proof.
  intros st ns alls nbrs s t s' r Hcov Hnb Hr H. assert (Hr0 := Hr).
  destruct Hr as [HS [HA [HN [HQ [HL [Hnm [Hlc HT]]]]]]]. unfold dm_step in H.
  destruct (nth_error (dm_tasks s) t) as [k|] eqn:Ek; [|discriminate H].
  assert (Hk : In k (dm_tasks s)) by (eapply nth_error_In, Ek). destruct (HT k Hk) as [Hme [Hpc Hops]].
  assert (Hmk : forall qs' subs' k' e d, length qs' = ns -> length subs' = ns -> names_ok ns alls subs' -> (st = true -> lc_ok ns subs') ->
            tk_rng st ns k' ->
            rng st ns alls nbrs (mkDM (dm_S s) (dm_alls s) (dm_nbrs s) qs' subs' (set_nth (dm_tasks s) t k') e d)).
  { intros qs' subs' k' e d H1 H2 H3 H4 H5. repeat (split; [assumption|]). cbn [dm_tasks]. intros k0 Hin.
    destruct (set_nth_In _ _ _ _ _ Hin) as [->|Hin']; [exact H5|apply HT, Hin']. }
  assert (Hsame : forall k' e d, tk_rng st ns k' ->
            rng st ns alls nbrs (mkDM (dm_S s) (dm_alls s) (dm_nbrs s) (dm_qs s) (dm_subs s) (set_nth (dm_tasks s) t k') e d)).
  { intros. apply Hmk; assumption. }
  assert (Hset : forall i q' k', map e_shep (q_heap q') = map e_shep (q_heap (getq s i)) ->
            (st = true -> forall j, q_lc q' = Some j -> (j < ns)%nat) -> tk_rng st ns k' ->
            rng st ns alls nbrs (upd s (set_nth (dm_subs s) i q') t k')).
  { intros i q' k' H1 H2 H3. apply Hmk; [exact HQ|rewrite set_nth_length; exact HL| | |exact H3].
    - intros h Hh. rewrite nth_set_nth. destruct ((i =? h) && _)%nat eqn:E; [|apply Hnm, Hh].
      apply andb_true_iff in E. destruct E as [E _]. apply Nat.eqb_eq in E. subst h. rewrite H1. apply Hnm, Hh.
    - intros Hst h j. rewrite nth_set_nth. destruct ((i =? h) && _)%nat; [apply H2, Hst|apply Hlc, Hst]. }
  assert (Hlcq : forall i, st = true -> forall j, q_lc (getq s i) = Some j -> (j < ns)%nat) by (intros i Hst j; apply Hlc, Hst).
  assert (Hgo : forall p, pc_rng st ns p -> tk_rng st ns (tk_goto k p)) by (intros p Hp; split; [exact Hme|split; [exact Hp|exact Hops]]).
  assert (Hfin : forall r0, tk_rng st ns (tk_fin k r0)) by (intros r0; split; [exact Hme|split; [exact I|exact Hops]]).
  assert (Htry : forall i on_null, try_deq s t k i (fun x => PDeqStRet i x) on_null = Some (s', r) ->
            pc_rng st ns on_null -> rng st ns alls nbrs s').
  { intros i on_null Ht H2. unfold try_deq in Ht. destruct (qpop _ _) as [[x qs']|] eqn:Eq; invs Ht.
    - destruct (qpop_spec _ _ _ _ Eq) as [_ HLq]. destruct (qpop_Some_nth _ _ _ _ Eq) as [Hi _].
      apply Hmk; try assumption; [lia|]. apply Hgo. cbn [pc_rng]. lia.
    - apply Hsame. split; [exact Hme|split; [exact H2|exact Hops]]. }
  assert (Hpush : forall h shep gen c, (h < ns)%nat -> (st = true -> (shep < ns)%nat) -> cont_rng ns c -> pc_rng st ns (enter_push s h shep gen c))
    by (intros; eapply rng_enter_push; eassumption).
  destruct (k_pc k) eqn:Epc; cbn [pc_rng] in Hpc.
  - destruct (k_ops k) as [|o rest] eqn:Eo; invs H. apply Hsame. split; [exact Hme|]. cbn [k_pc k_ops]. split.
    + destruct o as [v|th v|]; cbn [start pc_rng]; [exact Hme| |exact I]. apply (Hops th v). left; reflexivity.
    + intros th v Hin. apply (Hops th v). right; exact Hin.
  - discriminate H.
  - invs H. apply Hsame, Hgo. exact Hpc.
  - invs H. apply Hmk; try assumption; [rewrite qpush_length; exact HQ|]. apply Hgo. destruct stat; [exact I|exact Hpc].
  - invs H. apply Hsame, Hgo. exact Hpc.
  - destruct (_ <=? _); invs H; apply Hsame, Hgo; [exact Hpc|exact I].
  - invs H. apply Hset; [reflexivity|apply Hlcq|]. apply Hgo. eapply rng_enq_nbr; eassumption.
  - invs H. apply Hsame, Hfin.
  - destruct (q_lock _); invs H. apply Hset; [reflexivity|apply Hlcq|apply Hgo; exact Hpc].
  - destruct (push_crit _ _ _) as [q'|] eqn:Ep; invs H.
    + destruct (push_crit_fields _ _ _ _ Ep) as [_ [E2 E3]]. apply Hset; [exact E3|rewrite E2; apply Hlcq|apply Hgo; exact Hpc].
    + apply Hsame, Hgo. exact I.
  - invs H. apply Hset; [reflexivity|apply Hlcq|]. apply Hgo. destruct Hpc as [Hh Hc].
    destruct c as [qi g idx|a b]; cbn [after_push]; [|exact I]. eapply rng_enq_nbr; eassumption.
  - eapply Htry; [exact H|exact I].
  - invs H. apply Hset; [reflexivity| |apply Hfin]. cbn [set_lc q_lc]. intros _ j E. inv E. exact Hpc.
  - invs H. apply Hset; [reflexivity| |apply Hgo; exact I]. intros _ j E. discriminate E.
  - destruct (q_first _); invs H; apply Hsame, Hgo; [exact I|]. unfold loop_at. destruct (_ <? _)%nat; exact I.
  - destruct (q_lock _); invs H. apply Hset; [reflexivity|apply Hlcq|apply Hgo; exact I].
  - destruct (pop_crit_fields (getq s (k_me k))) as [_ [E2 E3]].
    destruct (pop_crit (getq s (k_me k))) as [q' [[ash gen]|]]; cbn [fst] in E2, E3; invs H;
      (apply Hset; [exact E3|rewrite E2; apply Hlcq|apply Hgo; exact I]).
  - invs H. apply Hset; [reflexivity|apply Hlcq|apply Hgo]. unfold loop_at. destruct (_ <? _)%nat; exact I.
  - invs H. apply Hset; [reflexivity|apply Hlcq|apply Hgo; exact I].
  - destruct (q_lc _) as [l|] eqn:El; [destruct (l =? ash)%nat|]; invs H; apply Hsame, Hgo; try exact I.
    apply Hpush; [exact Hme|intros Hst; eapply Hlcq; [exact Hst|exact El]|exact I].
  - destruct (_ <? _); invs H; apply Hsame, Hgo; exact I.
  - invs H. apply Hset; [destruct (_ =? _); reflexivity|destruct (_ =? _); apply Hlcq|apply Hgo; destruct (_ <? _); exact I].
  - eapply Htry; [exact H|exact I].
  - invs H. apply Hset; [| |apply Hgo; exact I].
    + destruct (q_lc _) as [l|]; [destruct (l =? lc)%nat|]; reflexivity.
    + intros Hst. destruct (q_lc (getq s ash)) as [l|] eqn:El; [destruct (l =? lc)%nat|]; cbn [set_lc q_lc]; intros j E;
        try discriminate E; try (eapply (Hlcq ash Hst); rewrite El; exact E); eapply (Hlcq _ Hst); exact E.
  - invs H. apply Hsame, Hgo. exact I.
  - eapply Htry; [exact H|]. destruct lc as [l|]; [destruct (l =? _)%nat|]; exact I.
  - eapply Htry; [exact H|exact I].
  - destruct (q_first _); invs H; apply Hsame, Hgo; [exact I|]. unfold loop_at. destruct (_ <? _)%nat; exact I.
  - invs H. apply Hsame, Hfin.
Qed.

Lemma nth_map_seq : forall (A : Type) (f : nat -> A) n m d, (m < n)%nat -> nth m (map f (seq 0 n)) d = f m.
Proof.
  intros A f n m d H. rewrite nth_indep with (d' := f O) by (rewrite map_length, seq_length; exact H).
  rewrite map_nth, seq_nth by exact H. reflexivity.
Qed.

Lemma rng_init : forall st ns alls nbrs hn progs,
  progs_ok ns progs -> (st = true -> hints_lc_ok ns hn) -> rng st ns alls nbrs (dm_init ns alls nbrs hn progs).
Proof.
  intros st ns alls nbrs hn progs Hok Hlc. unfold rng, dm_init; cbn [dm_S dm_alls dm_nbrs dm_qs dm_subs dm_tasks].
  split; [reflexivity|]. split; [reflexivity|]. split; [reflexivity|]. split; [apply repeat_length|].
  split; [rewrite map_length, seq_length; reflexivity|]. split; [|split].
  - intros h Hh. rewrite nth_map_seq by exact Hh. unfold init_sub. cbn [q_heap]. rewrite map_map. apply map_ext.
    intros k. reflexivity.
  - intros Hst h j E. specialize (Hlc Hst). destruct (Nat.lt_ge_cases h ns) as [L|L].
    + rewrite nth_map_seq in E by exact L. unfold init_sub in E. cbn [q_lc] in E.
      destruct (Nat.lt_ge_cases h (length hn)) as [L2|L2].
      * eapply Hlc; [apply nth_In, L2|exact E].
      * rewrite nth_overflow in E by exact L2. discriminate E.
    + rewrite nth_overflow in E by (rewrite map_length, seq_length; exact L). discriminate E.
  - intros k Hk. apply in_map_iff in Hk. destruct Hk as [[me p] [<- Hp]]. destruct (Hok me p Hp) as [Hme Hth].
    split; [exact Hme|]. split; [exact I|]. exact Hth.
Qed.

Lemma hints_create_lc_ok : forall ns, hints_lc_ok ns (hints_create ns).
Proof. intros ns sh j Hin E. apply repeat_spec in Hin. subst sh. discriminate E. Qed.

(* the assert(heap->heap[i].ad.shep == shep) of qdqueue_adheap_push never fails: every shepherd a push is asked to
   advertise is named by an element of the target heap.  Needs: the initial last_consumed values are shepherds
   (qdqueue_create: all NULL), every neighbors[] entry is a shepherd, allsheps[h] names every other shepherd. *)
Theorem dqm_push_assert_holds : forall ns alls nbrs hn progs sched k,
  progs_ok ns progs -> alls_cover ns alls -> nbrs_ok ns nbrs -> hints_lc_ok ns hn ->
  In k (dm_tasks (dm_run (dm_init ns alls nbrs hn progs) sched)) -> k_pc k <> PCrash 0.
Proof.
  intros ns alls nbrs hn progs sched k Hok Hcov Hnb Hlc Hk E.
  assert (Hr : rng true ns alls nbrs (dm_run (dm_init ns alls nbrs hn progs) sched)).
  { apply (dm_run_invariant (rng true ns alls nbrs)); [intros s0 t0 s1 r0 Hr0 Hs0; eapply rng_step; [intros _; exact Hcov|exact Hnb|exact Hr0|exact Hs0]|apply rng_init; auto]. }
  destruct Hr as [_ [_ [_ [_ [_ [_ [_ HT]]]]]]]. destruct (HT k Hk) as [_ [Hp _]]. rewrite E in Hp. discriminate Hp.
Qed.

(* from qdqueue_create's state no task ever crashes: neither the assert nor the backwards scan of push goes wrong *)
Theorem dqm_no_crash : forall ns alls nbrs progs sched k w,
  progs_ok ns progs -> alls_cover ns alls -> nbrs_ok ns nbrs ->
  In k (dm_tasks (dm_run (dm_init ns alls nbrs (hints_create ns) progs) sched)) -> k_pc k <> PCrash w.
Proof.
  intros ns alls nbrs progs sched k w Hok Hcov Hnb Hk. destruct w as [|w].
  - eapply dqm_push_assert_holds; try eassumption. apply hints_create_lc_ok.
  - eapply dqm_push_scan_in_bounds. exact Hk.
Qed.

Lemma dm_cfg_ok_nbrs_ok : forall ns alls nbrs, dm_cfg_ok ns alls nbrs = true -> length nbrs = ns -> nbrs_ok ns nbrs.
Proof.
  intros ns alls nbrs H HL i nb Hin. destruct (Nat.lt_ge_cases i ns) as [L|L].
  - unfold dm_cfg_ok in H. rewrite forallb_forall in H. specialize (H i ltac:(apply in_seq; lia)).
    rewrite !andb_true_iff in H. destruct H as [_ Hn]. rewrite forallb_forall in Hn. specialize (Hn nb Hin).
    apply Nat.ltb_lt in Hn. exact Hn.
  - rewrite nth_overflow in Hin by lia. destruct Hin.
Qed.

(* ------------------------------------------------------------------------------------------------------ *)
(* 7  mutual exclusion of the gateway locks                                                                *)

(* the heap whose gateway lock a task standing at this pc holds (between qthread_lock and qthread_unlock) *)
Definition hold_pc (me : nat) (p : pc) : option nat :=
  match p with
  | PPushCrit h _ _ _ | PPushUnlock h _ => Some h
  | PPopCrit | PPopUnlockEmpty | PPopUnlock _ _ => Some me
  | _ => None
  end.
Definition holds (k : dtask) : option nat := hold_pc (k_me k) (k_pc k).
Definition in_crit (s : dstate) (t h : nat) : Prop := holds (task_of s t) = Some h.
Definition lk (s : dstate) (h : nat) : option nat := q_lock (getq s h).

Definition linv (s : dstate) : Prop :=
  (forall h t, in_crit s t h -> lk s h = Some t) /\
  (forall h t, lk s h = Some t -> in_crit s t h \/ k_pc (task_of s t) = PCrash 1).

Lemma task_of_upd : forall s s' u k k' t,
  nth_error (dm_tasks s) u = Some k -> dm_tasks s' = set_nth (dm_tasks s) u k' ->
  task_of s' t = if (t =? u)%nat then k' else task_of s t.
Proof.
  intros s s' u k k' t Ek Et. unfold task_of. rewrite Et. destruct (Nat.eqb_spec t u) as [->|Hne].
  - rewrite (nth_error_set_nth_same _ _ _ _ _ Ek). reflexivity.
  - rewrite nth_error_set_nth_other by exact Hne. reflexivity.
Qed.

Lemma linv_upd : forall s s' u k k',
  linv s -> nth_error (dm_tasks s) u = Some k -> dm_tasks s' = set_nth (dm_tasks s) u k' -> k_pc k <> PCrash 1 ->
  ( ((forall h, lk s' h = lk s h) /\ (holds k' = holds k \/ (holds k' = None /\ k_pc k' = PCrash 1))) \/
    (exists h0, holds k = None /\ holds k' = Some h0 /\ lk s h0 = None /\
                forall h, lk s' h = if (h =? h0)%nat then Some u else lk s h) \/
    (exists h0, holds k = Some h0 /\ holds k' = None /\
                forall h, lk s' h = if (h =? h0)%nat then None else lk s h) ) ->
  linv s'.
Proof.
  intros s s' u k k' [L1 L2] Ek Et Hnc Hcase. unfold linv, in_crit in *.
  assert (Htk := fun t => task_of_upd s s' u k k' t Ek Et).
  assert (Hku : task_of s u = k) by (unfold task_of; rewrite Ek; reflexivity).
  destruct Hcase as [[Hlk Hh]|[[h0 [Hk [Hk' [Hfree Hlk]]]]|[h0 [Hk [Hk' Hlk]]]]]; split; intros h t.
  - intros Hin. rewrite Hlk. rewrite Htk in Hin. destruct (Nat.eqb_spec t u) as [E|Hne]; [subst t|apply L1, Hin].
    destruct Hh as [Hh|[Hh _]]; rewrite Hh in Hin; [|discriminate Hin]. apply L1. rewrite Hku. exact Hin.
  - intros Hl. rewrite Hlk in Hl. rewrite Htk. destruct (Nat.eqb_spec t u) as [E|Hne]; [subst t|apply L2, Hl].
    destruct (L2 _ _ Hl) as [H1|H1]; rewrite Hku in H1; [|contradiction].
    destruct Hh as [Hh|[_ Hh]]; [left; rewrite Hh; exact H1|right; exact Hh].
  - intros Hin. rewrite Hlk. rewrite Htk in Hin. destruct (Nat.eqb_spec t u) as [E|Hne]; [subst t|].
    + rewrite Hk' in Hin. inv Hin. rewrite Nat.eqb_refl. reflexivity.
    + destruct (Nat.eqb_spec h h0) as [E2|Hne2]; [subst h|apply L1, Hin]. apply L1 in Hin. rewrite Hfree in Hin. discriminate Hin.
  - intros Hl. rewrite Hlk in Hl. rewrite Htk. destruct (Nat.eqb_spec h h0) as [E2|Hne2]; [subst h|].
    + inv Hl. rewrite Nat.eqb_refl. left. exact Hk'.
    + destruct (Nat.eqb_spec t u) as [E|Hne]; [subst t|apply L2, Hl].
      destruct (L2 _ _ Hl) as [H1|H1]; rewrite Hku in H1; [|contradiction]. rewrite Hk in H1. discriminate H1.
  - intros Hin. rewrite Hlk. rewrite Htk in Hin. destruct (Nat.eqb_spec t u) as [E|Hne]; [subst t; rewrite Hk' in Hin; discriminate Hin|].
    destruct (Nat.eqb_spec h h0) as [E2|Hne2]; [subst h|apply L1, Hin]. exfalso.
    assert (A1 := L1 _ _ Hin). assert (A2 := L1 h0 u). rewrite Hku in A2. specialize (A2 Hk). rewrite A1 in A2. inv A2.
    apply Hne. reflexivity.
  - intros Hl. rewrite Hlk in Hl. destruct (Nat.eqb_spec h h0) as [E2|Hne2]; [subst h; discriminate Hl|]. rewrite Htk.
    destruct (Nat.eqb_spec t u) as [E|Hne]; [subst t|apply L2, Hl].
    destruct (L2 _ _ Hl) as [H1|H1]; rewrite Hku in H1; [|contradiction]. rewrite Hk in H1. inv H1. contradiction.
Qed.

Lemma lk_set_same : forall subs i q', q_lock q' = q_lock (nth i subs dflt_sub) ->
  forall h, q_lock (nth h (set_nth subs i q') dflt_sub) = q_lock (nth h subs dflt_sub).
Proof.
  intros subs i q' E h. rewrite nth_set_nth. destruct ((i =? h) && _)%nat eqn:C; [|reflexivity].
  apply andb_true_iff in C. destruct C as [C _]. apply Nat.eqb_eq in C. subst h. exact E.
Qed.

Lemma lk_set_new : forall subs i q', (i < length subs)%nat ->
  forall h, q_lock (nth h (set_nth subs i q') dflt_sub) = if (h =? i)%nat then q_lock q' else q_lock (nth h subs dflt_sub).
Proof.
  intros subs i q' L h. rewrite nth_set_nth. apply Nat.ltb_lt in L. rewrite L, andb_true_r, (Nat.eqb_sym i h).
  destruct (h =? i)%nat; reflexivity.
Qed.

Lemma hold_enter_push : forall me s h shep gen c, hold_pc me (enter_push s h shep gen c) = None.
Proof. intros. unfold enter_push. destruct (find_shep _ _ _); reflexivity. Qed.
Lemma hold_enq_nbr : forall me s qi gen idx, hold_pc me (enq_nbr s qi gen idx) = None.
Proof. intros. unfold enq_nbr. destruct (nth_error _ _); [apply hold_enter_push|reflexivity]. Qed.
Lemma hold_after_push : forall me s c, hold_pc me (after_push s c) = None.
Proof. intros me s [qi g idx|a b]; cbn [after_push]; [apply hold_enq_nbr|reflexivity]. Qed.
Lemma hold_loop_at : forall me s idx, hold_pc me (loop_at s idx) = None.
Proof. intros. unfold loop_at. destruct (_ <? _)%nat; reflexivity. Qed.

Lemma linv_step : forall st ns alls nbrs s t s' r,
  rng st ns alls nbrs s -> linv s -> dm_step s t = Some (s', r) -> linv s'.
Proof.
  intros st ns alls nbrs s t s' r Hr HL H. destruct Hr as [_ [_ [_ [_ [HLen [_ [_ HT]]]]]]]. unfold dm_step in H.
  destruct (nth_error (dm_tasks s) t) as [k|] eqn:Ek; [|discriminate H].
  assert (Hk : In k (dm_tasks s)) by (eapply nth_error_In, Ek). destruct (HT k Hk) as [Hme [Hpc _]].
  (* A: no lock word changes, the task holds what it held *)
  assert (HA : forall qs' subs' k' e d, (forall h, q_lock (nth h subs' dflt_sub) = lk s h) -> k_pc k <> PCrash 1 ->
            (holds k' = holds k \/ (holds k' = None /\ k_pc k' = PCrash 1)) ->
            linv (mkDM (dm_S s) (dm_alls s) (dm_nbrs s) qs' subs' (set_nth (dm_tasks s) t k') e d)).
  { intros qs' subs' k' e d H1 Hnc H2. eapply (linv_upd s _ t k k' HL Ek); [reflexivity|exact Hnc|]. left. split; [exact H1|exact H2]. }
  assert (HAgo : forall qs' e d p, k_pc k <> PCrash 1 -> hold_pc (k_me k) p = hold_pc (k_me k) (k_pc k) ->
            linv (mkDM (dm_S s) (dm_alls s) (dm_nbrs s) qs' (dm_subs s) (set_nth (dm_tasks s) t (tk_goto k p)) e d)).
  { intros. apply HA; [reflexivity|assumption|left; assumption]. }
  assert (HAset : forall i q' k', q_lock q' = q_lock (getq s i) -> k_pc k <> PCrash 1 ->
            (holds k' = holds k \/ (holds k' = None /\ k_pc k' = PCrash 1)) ->
            linv (upd s (set_nth (dm_subs s) i q') t k')).
  { intros i q' k' H1 Hnc H2. apply HA; [apply lk_set_same, H1|exact Hnc|exact H2]. }
  assert (Htry : forall i on_some on_null, try_deq s t k i on_some on_null = Some (s', r) -> k_pc k <> PCrash 1 ->
            hold_pc (k_me k) (k_pc k) = None -> (forall x, hold_pc (k_me k) (on_some x) = None) ->
            hold_pc (k_me k) on_null = None -> linv s').
  { intros i on_some on_null Ht Hnc H0 H1 H2. unfold try_deq in Ht. destruct (qpop _ _) as [[x qs']|]; invs Ht.
    - apply HAgo; [exact Hnc|rewrite H0; apply H1].
    - apply HA; [reflexivity|exact Hnc|left]. unfold holds. cbn [tk_see k_me k_pc]. rewrite H0. exact H2. }
  (* B: acquire *)
  assert (HB : forall h0 p, (h0 < ns)%nat -> lk s h0 = None -> k_pc k <> PCrash 1 -> hold_pc (k_me k) (k_pc k) = None ->
            hold_pc (k_me k) p = Some h0 ->
            linv (upd s (set_nth (dm_subs s) h0 (set_lock (getq s h0) (Some t))) t (tk_goto k p))).
  { intros h0 p Hh Hfree Hnc H0 H1. eapply (linv_upd s _ t k _ HL Ek); [reflexivity|exact Hnc|]. right; left. exists h0.
    split; [exact H0|]. split; [exact H1|]. split; [exact Hfree|]. intros h. unfold lk at 1, getq. cbn [upd dm_subs].
    rewrite lk_set_new by lia. reflexivity. }
  (* C: release *)
  assert (HC : forall h0 p, (h0 < ns)%nat -> k_pc k <> PCrash 1 -> hold_pc (k_me k) (k_pc k) = Some h0 ->
            hold_pc (k_me k) p = None ->
            linv (upd s (set_nth (dm_subs s) h0 (set_lock (getq s h0) None)) t (tk_goto k p))).
  { intros h0 p Hh Hnc H0 H1. eapply (linv_upd s _ t k _ HL Ek); [reflexivity|exact Hnc|]. right; right. exists h0.
    split; [exact H0|]. split; [exact H1|]. intros h. unfold lk at 1, getq. cbn [upd dm_subs].
    rewrite lk_set_new by lia. reflexivity. }
  destruct (k_pc k) eqn:Epc; cbn [pc_rng] in Hpc.
  - destruct (k_ops k) as [|o rest]; invs H. apply HA; [reflexivity|discriminate|left]. unfold holds. cbn [k_me k_pc].
    rewrite ?Epc. destruct o; reflexivity.
  - discriminate H.
  - invs H. apply HAgo; [discriminate|rewrite ?Epc; reflexivity].
  - invs H. apply HAgo; [discriminate|rewrite ?Epc; destruct stat; reflexivity].
  - invs H. apply HAgo; [discriminate|rewrite ?Epc; reflexivity].
  - destruct (_ <=? _); invs H; apply HAgo; try discriminate; rewrite ?Epc; reflexivity.
  - invs H. apply HAset; [reflexivity|discriminate|left]. unfold holds. cbn [tk_goto k_me k_pc]. rewrite ?Epc. apply hold_enq_nbr.
  - invs H. apply HA; [reflexivity|discriminate|left]. unfold holds. cbn [tk_fin k_me k_pc]. rewrite ?Epc. reflexivity.
  - (* PPushLock *) destruct (q_lock (getq s h)) eqn:El; invs H. apply HB; [apply Hpc|exact El|discriminate|rewrite ?Epc; reflexivity|reflexivity].
  - (* PPushCrit *) destruct (push_crit _ _ _) as [q'|] eqn:Ep; invs H.
    + destruct (push_crit_fields _ _ _ _ Ep) as [E1 _]. apply HAset; [exact E1|discriminate|left]. unfold holds. cbn [tk_goto k_me k_pc].
      rewrite ?Epc. reflexivity.
    + apply HA; [reflexivity|discriminate|right]. split; reflexivity.
  - (* PPushUnlock *) invs H. apply HC; [apply Hpc|discriminate|rewrite ?Epc; reflexivity|apply hold_after_push].
  - eapply Htry; [exact H|discriminate|rewrite ?Epc; reflexivity|reflexivity|reflexivity].
  - invs H. apply HAset; [reflexivity|discriminate|left]. unfold holds. cbn [tk_fin k_me k_pc]. rewrite ?Epc. reflexivity.
  - invs H. apply HAset; [reflexivity|discriminate|left]. unfold holds. cbn [tk_goto k_me k_pc]. rewrite ?Epc. reflexivity.
  - destruct (q_first _); invs H; apply HAgo; try discriminate; rewrite ?Epc; [reflexivity|apply hold_loop_at].
  - (* PPopLock *) destruct (q_lock (getq s (k_me k))) eqn:El; invs H.
    apply HB; [exact Hme|exact El|discriminate|rewrite ?Epc; reflexivity|reflexivity].
  - (* PPopCrit *) destruct (pop_crit_fields (getq s (k_me k))) as [E1 _].
    destruct (pop_crit (getq s (k_me k))) as [q' [[ash gen]|]]; cbn [fst] in E1; invs H;
      (apply HAset; [exact E1|discriminate|left]; unfold holds; cbn [tk_goto k_me k_pc]; rewrite ?Epc; reflexivity).
  - invs H. apply HC; [exact Hme|discriminate|rewrite ?Epc; reflexivity|apply hold_loop_at].
  - invs H. apply HC; [exact Hme|discriminate|rewrite ?Epc; reflexivity|reflexivity].
  - destruct (q_lc _) as [l|]; [destruct (l =? ash)%nat|]; invs H; apply HAgo; try discriminate; rewrite ?Epc; try reflexivity.
    apply hold_enter_push.
  - destruct (_ <? _); invs H; apply HAgo; try discriminate; rewrite ?Epc; reflexivity.
  - invs H. apply HAset; [destruct (_ =? _); reflexivity|discriminate|left]. unfold holds. cbn [tk_goto k_me k_pc]. rewrite ?Epc.
    destruct (_ <? _); reflexivity.
  - eapply Htry; [exact H|discriminate|rewrite ?Epc; reflexivity|reflexivity|reflexivity].
  - invs H. apply HAset; [|discriminate|left; unfold holds; cbn [tk_goto k_me k_pc]; rewrite ?Epc; reflexivity].
    destruct (q_lc _) as [l|]; [destruct (l =? lc)%nat|]; reflexivity.
  - invs H. apply HAgo; [discriminate|rewrite ?Epc; reflexivity].
  - eapply Htry; [exact H|discriminate|rewrite ?Epc; reflexivity|reflexivity|].
    destruct lc as [l|]; [destruct (l =? _)%nat|]; reflexivity.
  - eapply Htry; [exact H|discriminate|rewrite ?Epc; reflexivity|reflexivity|reflexivity].
  - destruct (q_first _); invs H; apply HAgo; try discriminate; rewrite ?Epc; [reflexivity|apply hold_loop_at].
  - invs H. apply HA; [reflexivity|discriminate|left]. unfold holds. cbn [tk_fin k_me k_pc]. rewrite ?Epc. reflexivity.
Qed.

Lemma linv_init : forall ns alls nbrs hn progs, linv (dm_init ns alls nbrs hn progs).
Proof.
  intros ns alls nbrs hn progs. split; intros h t.
  - unfold in_crit, holds. rewrite (proj1 (task_of_init ns alls nbrs hn progs t)). intros E; discriminate E.
  - unfold lk, getq, dm_init; cbn [dm_subs]. destruct (Nat.lt_ge_cases h ns) as [L|L].
    + rewrite nth_map_seq by exact L. intros E; discriminate E.
    + rewrite nth_overflow by (rewrite map_length, seq_length; exact L). intros E; discriminate E.
Qed.

Lemma reach_rng_linv : forall ns alls nbrs hn progs sched,
  progs_ok ns progs -> nbrs_ok ns nbrs ->
  let s := dm_run (dm_init ns alls nbrs hn progs) sched in rng false ns alls nbrs s /\ linv s.
Proof.
  intros ns alls nbrs hn progs sched Hok Hnb s.
  apply (dm_run_invariant (fun s => rng false ns alls nbrs s /\ linv s)).
  - intros s0 t0 s1 r0 [Hr0 Hl0] Hs0. split.
    + eapply rng_step; [intros E; discriminate E|exact Hnb|exact Hr0|exact Hs0].
    + eapply linv_step; eassumption.
  - split; [apply rng_init; [exact Hok|intros E; discriminate E]|apply linv_init].
Qed.

(* Mutual exclusion of every advertisement heap's gateway lock, for ARBITRARY initial hints (locks start free).
   in_crit s t h: task t stands between qthread_lock and qthread_unlock on heap h (PPushCrit h / PPushUnlock h, or
   PPopCrit / PPopUnlockEmpty / PPopUnlock with h = its own shepherd). *)
Theorem dqm_gateway_mutex : forall ns alls nbrs hn progs sched,
  progs_ok ns progs -> nbrs_ok ns nbrs ->
  let s := dm_run (dm_init ns alls nbrs hn progs) sched in
  (forall h t, in_crit s t h -> q_lock (getq s h) = Some t) /\
  (forall h t, q_lock (getq s h) = Some t -> in_crit s t h \/ k_pc (task_of s t) = PCrash 1) /\
  (forall h t1 t2, in_crit s t1 h -> in_crit s t2 h -> t1 = t2) /\      (* at most ONE task inside heap h's critical section *)
  (forall t h1 h2, in_crit s t h1 -> in_crit s t h2 -> h1 = h2) /\       (* a task never holds two locks *)
  (forall t h, in_crit s t h -> (h < ns)%nat).
Proof.
  intros ns alls nbrs hn progs sched Hok Hnb s.
  destruct (reach_rng_linv ns alls nbrs hn progs sched Hok Hnb) as [Hr [L1 L2]]. fold s in Hr, L1, L2.
  split; [exact L1|]. split; [exact L2|]. split; [|split].
  - intros h t1 t2 H1 H2. apply L1 in H1. apply L1 in H2. unfold lk in *. rewrite H1 in H2. inv H2. reflexivity.
  - intros t h1 h2 H1 H2. unfold in_crit in *. rewrite H1 in H2. inv H2. reflexivity.
  - intros t h Hin. unfold in_crit, holds, task_of in Hin. destruct Hr as [_ [_ [_ [_ [_ [_ [_ HT]]]]]]].
    destruct (nth_error (dm_tasks s) t) as [k|] eqn:Ek; [|discriminate Hin].
    destruct (HT k (nth_error_In _ _ Ek)) as [Hme [Hpc _]].
    destruct (k_pc k); try discriminate Hin; cbn [hold_pc pc_rng] in *; inv Hin; try exact Hme; apply Hpc.
Qed.

(* the critical-section steps are only ever executed by the holder of the lock *)
Theorem dqm_crit_step_by_holder : forall ns alls nbrs hn progs sched t,
  progs_ok ns progs -> nbrs_ok ns nbrs ->
  let s := dm_run (dm_init ns alls nbrs hn progs) sched in
  (forall h i g c, k_pc (task_of s t) = PPushCrit h i g c -> q_lock (getq s h) = Some t) /\
  (k_pc (task_of s t) = PPopCrit -> q_lock (getq s (k_me (task_of s t))) = Some t).
Proof.
  intros ns alls nbrs hn progs sched t Hok Hnb s.
  destruct (dqm_gateway_mutex ns alls nbrs hn progs sched Hok Hnb) as [L1 _]. fold s in L1. split.
  - intros h i g c E. apply L1. unfold in_crit, holds. rewrite E. reflexivity.
  - intros E. apply L1. unfold in_crit, holds. rewrite E. reflexivity.
Qed.

(* from qdqueue_create's state (no task can be stuck in a critical section) the lock word says exactly who is inside *)
Theorem dqm_gateway_mutex_create : forall ns alls nbrs progs sched h t,
  progs_ok ns progs -> nbrs_ok ns nbrs ->
  let s := dm_run (dm_init ns alls nbrs (hints_create ns) progs) sched in
  q_lock (getq s h) = Some t <-> in_crit s t h.
Proof.
  intros ns alls nbrs progs sched h t Hok Hnb s.
  destruct (dqm_gateway_mutex ns alls nbrs (hints_create ns) progs sched Hok Hnb) as [L1 [L2 _]]. fold s in L1, L2.
  split; [|apply L1]. intros Hl. destruct (L2 _ _ Hl) as [Hin|Hc]; [exact Hin|]. exfalso.
  unfold task_of in Hc. destruct (nth_error (dm_tasks s) t) as [k|] eqn:Ek; [|discriminate Hc].
  exact (dqm_push_scan_in_bounds ns alls nbrs progs sched k (nth_error_In _ _ Ek) O Hc).
Qed.

(* non-vacuity: task 0 is inside the critical section of heap 1, task 1 wants the same lock and cannot move *)
Example ex_mutex_blocks :
  let s := dm_run ex_st1 (firstn 14 ex_sch1 ++ [0; 0; 1])%nat in
  dm_pc_of s 0 = PPushCrit 1 1 1 (KEnqNbr 0 1 0) /\ dm_pc_of s 1 = PPushLock 1 1 2 (KEnqNbr 0 2 0) /\
  in_crit s 0 1 /\ dm_lock_holder s 1 = Some 0%nat /\ dm_step s 1 = None /\
  dm_lock_holder (dm_run s [0; 0; 1])%nat 1 = Some 1%nat.
Proof. vm_compute. repeat split. Qed.

Example ex_nbrs_ok : nbrs_ok 2 ex_a2 /\ nbrs_ok 3 ex_a3.
Proof. split; (eapply dm_cfg_ok_nbrs_ok; [apply ex_cfg_ok|reflexivity]). Qed.

(* non-vacuity of [PCrash 0]: with an initial last_consumed that is NOT a shepherd (&Qs[5] with 2 shepherds) the
   dequeue on shepherd 1 pops the ad for shepherd 0, reads lc = &Qs[5] and asks qdqueue_adheap_push for an element
   that does not exist.  qdqueue_create never produces such a state (hints_lc_ok excludes exactly this). *)
Definition ex_bad_lc : hints := [mkSH (Some 5%nat) 1 1 None (repeat ehint_create 2); shint_create 2].

Example ex_assert_fails_with_bad_lc_hint :
  let s := dm_run (dm_init 2 ex_a2 ex_a2 ex_bad_lc [(0, [DEnq 5; DEnq 6]); (1, [DDeq])]%nat) (repeat 0 14 ++ repeat 1 8)%nat in
  dm_pc_of s 1 = PCrash 0 /\ dm_crashed s = true /\ dm_qs s = [[5; 6]; []] /\ d_deq s = [].
Proof. vm_compute. repeat split. Qed.

Example ex_no_crash : forall sched k w,
  In k (dm_tasks (dm_run ex_st1 sched)) -> k_pc k <> PCrash w.
Proof. intros sched k w. apply dqm_no_crash; [apply ex_progs_ok|apply ex_alls_cover|apply ex_nbrs_ok]. Qed.
