(* C15 hazard pointers: theorems about the model in Hazard.v (src/hazardptrs.c, after the comparator and
   binary-search fixes).  Everything below holds for all inputs, without guards:

   - void_cmp agrees with the unsigned pointer order (void_cmp_spec, void_cmp_le).
   - binary_search terminates for every len (bsearch_total), finds every element of a sorted list at ANY index,
     index 0 included (bsearch_finds), and only reports elements that are present (bsearch_sound).
   - the qsort model returns the sorted permutation (isort_perm, isort_sorted, isort_sorted_at).
   - the scan always completes (scan_total), never frees a pointer named by another worker's hazard slot
     (scan_keeps_protected), keeps only pointers named by some slot (scan_frees_unprotected) and splits exactly
     the walked prefix of the free list into kept and freed (scan_partition).                                  *)
From Coq Require Import List NArith ZArith Bool Arith Lia ZifyBool ZifyNat ZifyN Permutation Sorted.
From QV Require Import CQueues.Hazard.
Import ListNotations.
Local Open Scope N_scope.
Ltac Zify.zify_post_hook ::= Z.div_mod_to_equations.

(* ------------------------------------------------------------------------------------------------------ *)
(* 1 : the comparator                                                                                      *)

Theorem void_cmp_spec : forall a b, (void_cmp a b ?= 0)%Z = (a ?= b).
Proof.
  intros a b. unfold void_cmp.
  destruct (N.ltb_spec b a) as [H1|H1]; destruct (N.ltb_spec a b) as [H2|H2];
    destruct (N.compare_spec a b) as [F|F|F]; try reflexivity; exfalso; lia.
Qed.

Theorem void_cmp_le : forall a b, (void_cmp a b <=? 0)%Z = (a <=? b).
Proof.
  intros a b. unfold Z.leb, N.leb. rewrite void_cmp_spec. reflexivity.
Qed.

(* ------------------------------------------------------------------------------------------------------ *)
(* 2, 3, 4 : loop invariants of binary_search                                                              *)

Lemma bs_loop_S f l x mn mx :
  bs_loop (S f) l x mn mx =
  if mn <? mx then
    let curs := mn + (mx - mn) / 2 in
    if at_ l curs =? x then Some true
    else if at_ l curs <? x then bs_loop f l x (curs + 1) mx
    else bs_loop f l x mn curs
  else Some false.
Proof. reflexivity. Qed.

Lemma bs_loop_O l x mn mx :
  bs_loop O l x mn mx = if mn <? mx then None else Some false.
Proof. reflexivity. Qed.

(* the window mx - mn strictly shrinks *)
Lemma bs_loop_total : forall f l x mn mx,
  (N.to_nat (mx - mn) <= f)%nat -> bs_loop f l x mn mx <> None.
Proof.
  induction f as [|f IH]; intros l x mn mx Hf.
  - rewrite bs_loop_O. destruct (N.ltb_spec mn mx) as [L|L]; [exfalso; lia|discriminate].
  - rewrite bs_loop_S. destruct (N.ltb_spec mn mx) as [L|L]; [|discriminate].
    cbv zeta. destruct (at_ l (mn + (mx - mn) / 2) =? x); [discriminate|].
    destruct (at_ l (mn + (mx - mn) / 2) <? x); apply IH; lia.
Qed.

Theorem bsearch_total : forall l x len, binary_search l x len <> None.
Proof.
  intros l x len. unfold binary_search. apply bs_loop_total. lia.
Qed.

Lemma bs_loop_finds : forall f l x len mn mx,
  (forall j k, j <= k -> k < len -> at_ l j <= at_ l k) ->
  mx <= len -> (N.to_nat (mx - mn) <= f)%nat ->
  (exists j, at_ l j = x /\ mn <= j < mx) -> bs_loop f l x mn mx = Some true.
Proof.
  induction f as [|f IH]; intros l x len mn mx Hs Hmx Hf [j [Hj Hjr]].
  - exfalso; lia.
  - rewrite bs_loop_S. destruct (N.ltb_spec mn mx) as [L|L]; [|exfalso; lia].
    cbv zeta. remember (mn + (mx - mn) / 2) as curs eqn:Ec.
    assert (Hcr : mn <= curs < mx) by lia.
    destruct (N.eqb_spec (at_ l curs) x) as [E|E]; [reflexivity|].
    destruct (N.ltb_spec (at_ l curs) x) as [H2|H2].
    + assert (Hjc : curs < j).
      { destruct (N.lt_ge_cases curs j) as [G|G]; [exact G|].
        assert (Hle := Hs j curs G ltac:(lia)). exfalso; lia. }
      apply (IH l x len); [exact Hs|lia|lia|]. exists j. split; [exact Hj|lia].
    + assert (Hjc : j < curs).
      { destruct (N.lt_ge_cases j curs) as [G|G]; [exact G|].
        assert (Hle := Hs curs j G ltac:(lia)). exfalso; lia. }
      apply (IH l x len); [exact Hs|lia|lia|]. exists j. split; [exact Hj|lia].
Qed.

Theorem bsearch_finds : forall l x len i,
  (forall j k, j <= k -> k < len -> at_ l j <= at_ l k) ->
  i < len -> at_ l i = x -> binary_search l x len = Some true.
Proof.
  intros l x len i Hs Hi Hx. unfold binary_search.
  apply (bs_loop_finds _ l x len); [exact Hs|lia|lia|].
  exists i. split; [exact Hx|lia].
Qed.

Lemma bs_loop_sound : forall f l x mn mx,
  bs_loop f l x mn mx = Some true -> exists i, mn <= i < mx /\ at_ l i = x.
Proof.
  induction f as [|f IH]; intros l x mn mx H.
  - rewrite bs_loop_O in H. destruct (mn <? mx); discriminate H.
  - rewrite bs_loop_S in H. destruct (N.ltb_spec mn mx) as [L|L]; [|discriminate H].
    cbv zeta in H. remember (mn + (mx - mn) / 2) as curs eqn:Ec.
    assert (Hcr : mn <= curs < mx) by lia.
    destruct (N.eqb_spec (at_ l curs) x) as [E|E].
    + exists curs. split; [exact Hcr|exact E].
    + destruct (at_ l curs <? x); destruct (IH _ _ _ _ H) as [i [Hi Hx]]; exists i; (split; [lia|exact Hx]).
Qed.

Theorem bsearch_sound : forall l x len,
  binary_search l x len = Some true -> exists i, i < len /\ at_ l i = x.
Proof.
  intros l x len H. unfold binary_search in H.
  destruct (bs_loop_sound _ _ _ _ _ H) as [i [Hi Hx]]. exists i. split; [lia|exact Hx].
Qed.

(* ------------------------------------------------------------------------------------------------------ *)
(* 5 : qsort-as-insertion-sort                                                                             *)

Lemma insert_perm : forall x l, Permutation (insert x l) (x :: l).
Proof.
  intros x l. induction l as [|y l IH]; cbn [insert].
  - apply Permutation_refl.
  - destruct (void_cmp x y <=? 0)%Z.
    + apply Permutation_refl.
    + eapply perm_trans; [apply perm_skip, IH|apply perm_swap].
Qed.

Theorem isort_perm : forall l, Permutation (isort l) l.
Proof.
  induction l as [|x l IH]; cbn [isort].
  - apply perm_nil.
  - eapply perm_trans; [apply insert_perm|apply perm_skip, IH].
Qed.

Theorem isort_length : forall l, length (isort l) = length l.
Proof. intros l. apply Permutation_length, isort_perm. Qed.

Lemma insert_sorted : forall x l, StronglySorted N.le l -> StronglySorted N.le (insert x l).
Proof.
  intros x l. induction l as [|y l IH]; intros Hs; cbn [insert].
  - constructor; constructor.
  - inversion Hs as [|y' l' Hs' Hall]; subst.
    rewrite void_cmp_le.
    destruct (N.leb_spec x y) as [L|L].
    + constructor; [exact Hs|]. constructor; [exact L|].
      eapply Forall_impl; [|exact Hall]. intros z Hz; cbv beta in Hz. lia.
    + constructor.
      * apply IH. exact Hs'.
      * eapply Permutation_Forall; [apply Permutation_sym, insert_perm|].
        constructor; [lia|exact Hall].
Qed.

Theorem isort_sorted : forall l, StronglySorted N.le (isort l).
Proof.
  induction l as [|x l IH]; cbn [isort]; [constructor|apply insert_sorted, IH].
Qed.

Lemma ssorted_nth : forall l, StronglySorted N.le l ->
  forall j k : nat, (j <= k)%nat -> (k < length l)%nat -> nth j l 0 <= nth k l 0.
Proof.
  intros l Hs. induction Hs as [|a l Hs IH Hall]; intros j k Hjk Hk; cbn [length] in Hk.
  - exfalso; lia.
  - destruct j as [|j]; destruct k as [|k]; cbn [nth].
    + lia.
    + rewrite Forall_forall in Hall. apply Hall, nth_In. lia.
    + exfalso; lia.
    + apply IH; lia.
Qed.

(* conversion to the at_-based hypothesis of bsearch_finds *)
Lemma ssorted_at : forall l, StronglySorted N.le l ->
  forall j k, j <= k -> k < N.of_nat (length l) -> at_ l j <= at_ l k.
Proof.
  intros l Hs j k Hjk Hk. unfold at_. apply ssorted_nth; [exact Hs|lia|lia].
Qed.

Theorem isort_sorted_at : forall l j k,
  j <= k -> k < N.of_nat (length l) -> at_ (isort l) j <= at_ (isort l) k.
Proof.
  intros l j k Hjk Hk. apply ssorted_at; [apply isort_sorted|exact Hjk|].
  rewrite isort_length. exact Hk.
Qed.

(* ------------------------------------------------------------------------------------------------------ *)
(* 6 - 9 : the scan                                                                                        *)

Lemma combine_seq_nth : forall (A : Type) (d : A) (l : list A) (s w : nat),
  (w < length l)%nat -> In ((s + w)%nat, nth w l d) (combine (seq s (length l)) l).
Proof.
  intros A d l. induction l as [|a l IH]; intros s w Hw; cbn [length] in Hw.
  - exfalso; lia.
  - cbn [length seq combine]. destruct w as [|w]; cbn [nth].
    + left. f_equal. lia.
    + right. replace (s + S w)%nat with (S s + w)%nat by lia. apply IH. lia.
Qed.

Lemma collect_other : forall slots me w p,
  w <> me -> (w < length slots)%nat -> In p (nth w slots []) -> In p (collect slots me).
Proof.
  intros slots me w p Hw Hlt Hp. unfold collect. apply in_concat.
  exists (nth w slots []). split; [|exact Hp].
  apply in_map_iff. exists (w, nth w slots []). split.
  - cbn [fst snd]. destruct (Nat.eqb_spec w me) as [E|E]; [contradiction|reflexivity].
  - apply (combine_seq_nth _ [] slots 0 w Hlt).
Qed.

Theorem collected_found : forall slots me p,
  In p (collect slots me) ->
  binary_search (isort (collect slots me)) p (N.of_nat (length (collect slots me))) = Some true.
Proof.
  intros slots me p Hin.
  assert (Hin' : In p (isort (collect slots me))).
  { eapply Permutation_in; [apply Permutation_sym, isort_perm|exact Hin]. }
  destruct (In_nth _ _ 0 Hin') as [n [Hn Hnth]].
  rewrite isort_length in Hn.
  apply (bsearch_finds _ p _ (N.of_nat n)).
  - intros j k. apply isort_sorted_at.
  - lia.
  - unfold at_. rewrite Nat2N.id. exact Hnth.
Qed.

Lemma stage2_total : forall sl nhp fl, stage2 sl nhp fl <> None.
Proof.
  intros sl nhp fl. induction fl as [|q fl IH]; cbn [stage2]; [discriminate|].
  destruct (q =? 0); [discriminate|].
  assert (Hb := bsearch_total sl q nhp).
  destruct (binary_search sl q nhp) as [[|]|]; [| |contradiction];
    destruct (stage2 sl nhp fl) as [[k f]|]; try contradiction; discriminate.
Qed.

Theorem scan_total : forall slots me fl, scan slots me fl <> None.
Proof. intros slots me fl. unfold scan. apply stage2_total. Qed.

(* the walked prefix of the free list: everything before the first 0 entry *)
Fixpoint upto0 (fl : list N) : list N :=
  match fl with
  | [] => []
  | p :: fl' => if p =? 0 then [] else p :: upto0 fl'
  end.

(* complete description of stage 2 *)
Lemma stage2_spec : forall sl nhp fl kept freed,
  stage2 sl nhp fl = Some (kept, freed) ->
  Permutation (kept ++ freed) (upto0 fl) /\
  (forall p, In p kept -> binary_search sl p nhp = Some true) /\
  (forall p, In p freed -> binary_search sl p nhp = Some false /\ p <> 0).
Proof.
  intros sl nhp fl. induction fl as [|q fl IH]; intros kept freed H; cbn [stage2 upto0] in *.
  - injection H as <- <-. split; [apply perm_nil|]. split; intros p [].
  - destruct (N.eqb_spec q 0) as [Z|Z].
    + injection H as <- <-. split; [apply perm_nil|]. split; intros p [].
    + destruct (binary_search sl q nhp) as [[|]|] eqn:Eb; [| |discriminate H];
        (destruct (stage2 sl nhp fl) as [[k f]|]; [|discriminate H]);
        injection H as <- <-; destruct (IH k f eq_refl) as [HP [HK HF]].
      * split; [cbn [app]; apply perm_skip, HP|]. split; [|exact HF].
        intros p [E|Hin]; [subst p; exact Eb|apply HK, Hin].
      * split; [eapply perm_trans; [apply Permutation_sym, Permutation_middle|apply perm_skip, HP]|].
        split; [exact HK|].
        intros p [E|Hin]; [subst p; split; [exact Eb|exact Z]|apply HF, Hin].
Qed.

Theorem scan_keeps_protected : forall slots me fl p w kept freed,
  w <> me -> (w < length slots)%nat -> In p (nth w slots []) ->
  scan slots me fl = Some (kept, freed) -> ~ In p freed.
Proof.
  intros slots me fl p w kept freed Hw Hwlt Hp Hscan Hfreed. unfold scan in Hscan.
  destruct (stage2_spec _ _ _ _ _ Hscan) as [_ [_ HF]]. destruct (HF p Hfreed) as [Hb _].
  rewrite (collected_found slots me p (collect_other slots me w p Hw Hwlt Hp)) in Hb.
  discriminate Hb.
Qed.

(* more generally: nothing that any slot (as collected) names is freed, and NULL is never freed *)
Theorem scan_freed_not_collected : forall slots me fl kept freed p,
  scan slots me fl = Some (kept, freed) -> In p freed -> ~ In p (collect slots me) /\ p <> 0.
Proof.
  intros slots me fl kept freed p Hscan Hfreed. unfold scan in Hscan.
  destruct (stage2_spec _ _ _ _ _ Hscan) as [_ [_ HF]]. destruct (HF p Hfreed) as [Hb Hz].
  split; [|exact Hz]. intros Hin. rewrite (collected_found slots me p Hin) in Hb. discriminate Hb.
Qed.

Theorem scan_frees_unprotected : forall slots me fl kept freed p,
  scan slots me fl = Some (kept, freed) -> In p kept -> In p (collect slots me).
Proof.
  intros slots me fl kept freed p Hscan Hkept. unfold scan in Hscan.
  destruct (stage2_spec _ _ _ _ _ Hscan) as [_ [HK _]].
  destruct (bsearch_sound _ _ _ (HK p Hkept)) as [i [Hi Hx]].
  eapply Permutation_in; [apply isort_perm|].
  rewrite <- Hx. unfold at_. apply nth_In. rewrite isort_length. lia.
Qed.

Theorem scan_partition : forall slots me fl kept freed,
  scan slots me fl = Some (kept, freed) ->
  exists pre, pre = upto0 fl /\ Permutation (kept ++ freed) pre.
Proof.
  intros slots me fl kept freed Hscan. unfold scan in Hscan.
  exists (upto0 fl). split; [reflexivity|]. apply (stage2_spec _ _ _ _ _ Hscan).
Qed.

(* ------------------------------------------------------------------------------------------------------ *)
(* 10 : examples; the inputs on which the code before the fixes failed are handled correctly               *)

(* a realistic pointer with bit 31 set, protected by worker 1, retired by worker 0: kept *)
Example regress_bit31_kept :
  scan [[0;0];[0x7f0080000040;0];[0;0];[0;0]] 0 [0x7f0080000040] = Some ([0x7f0080000040], []).
Proof. vm_compute. reflexivity. Qed.

Example regress_bit31_sorted :
  isort (collect [[0;0];[0x7f0080000040;0];[0;0];[0;0]] 0) = [0;0;0;0;0;0;0;0x7f0080000040].
Proof. vm_compute. reflexivity. Qed.

Example regress_cmp_far : (void_cmp 0 0x7f0080000010 < 0)%Z.
Proof. vm_compute. reflexivity. Qed.

(* index 0 is examined *)
Example regress_index0 : binary_search [1;2;3;4] 1 4 = Some true.
Proof. vm_compute. reflexivity. Qed.

Example regress_len1 : binary_search [5] 3 1 = Some false /\ binary_search [5] 5 1 = Some true
                       /\ binary_search [] 5 0 = Some false.
Proof. vm_compute. repeat split. Qed.

(* a non-trivial scan: four workers with two slots each, worker 1 scans *)
Definition ex_slots : list (list N) :=
  [[0x1000;0x7f0080000040];[0x2080;0];[0;0x10c0];[0x1100;0xffff800000001140]].

Example ex_sorted :
  isort (collect ex_slots 1) = [0;0;0;0x1000;0x10c0;0x1100;0x7f0080000040;0xffff800000001140].
Proof. vm_compute. reflexivity. Qed.

Example ex_scan :
  scan ex_slots 1 [0x7f0080000040; 0x3000; 0xffff800000001140; 0x2080; 0x1000; 0; 0x10c0]
  = Some ([0x7f0080000040; 0xffff800000001140; 0x1000], [0x3000; 0x2080]).
Proof. vm_compute. reflexivity. Qed.

Example ex_kept : forall kept freed,
  scan ex_slots 1 [0x7f0080000040; 0x3000; 0xffff800000001140; 0x2080; 0x1000; 0; 0x10c0] = Some (kept, freed) ->
  ~ In 0x7f0080000040 freed.
Proof.
  intros kept freed H.
  apply (scan_keeps_protected ex_slots 1
           [0x7f0080000040; 0x3000; 0xffff800000001140; 0x2080; 0x1000; 0; 0x10c0] 0x7f0080000040 0 kept freed);
    try exact H.
  - discriminate.
  - cbn; lia.
  - right; left; reflexivity.
Qed.

Example ex_bsearch_finds : binary_search [0;0;0x1000;0x1040;0x10c0] 0 5 = Some true.
Proof.
  apply (bsearch_finds _ _ _ 0); [|lia|reflexivity].
  apply (ssorted_at [0;0;0x1000;0x1040;0x10c0]).
  repeat (constructor; [|repeat (constructor; try (vm_compute; discriminate))]). constructor.
Qed.
