(* C15 hazard pointers: theorems about the model in Hazard.v (src/hazardptrs.c).

   - void_cmp truncates an intptr_t difference to int: refuted as an order (A), characterised exactly for the
     NULL slot (B), correct for near pointers (C).
   - binary_search never examines index 0 when len >= 2 (D, witness E); it finds every element at an index >= 1
     of a list sorted for the unsigned order (F) and always terminates for len >= 2 (G).
   - under the explicit guard cmp_consistent the qsort result is the sorted permutation (H), the scanning
     worker's zeroed slots occupy index 0 (I) and a pointer named by another worker's slot is never freed (J).
   - outside the guard a protected pointer IS freed (K).                                                       *)
From Coq Require Import List NArith ZArith Bool Arith Lia ZifyBool ZifyNat ZifyN Permutation Sorted.
From QV Require Import CQueues.Hazard.
Import ListNotations.
Local Open Scope N_scope.
Ltac Zify.zify_post_hook ::= Z.div_mod_to_equations.

(* ------------------------------------------------------------------------------------------------------ *)
(* A, B, C : the truncating comparator                                                                     *)

Theorem void_cmp_trunc_refuted : exists a b, a < b /\ (void_cmp a b > 0)%Z.
Proof. exists 0, 0x7f0080000010. split; vm_compute; reflexivity. Qed.

Lemma void_cmp_unfold a b :
  void_cmp a b = ((Z.of_N a - Z.of_N b + 2147483648) mod 4294967296 - 2147483648)%Z.
Proof. reflexivity. Qed.

Theorem void_cmp_zero_sign : forall p, p < 2^64 ->
  (2^31 < p mod 2^32 -> (void_cmp 0 p > 0)%Z) /\ (0 < p mod 2^32 < 2^31 -> (void_cmp 0 p < 0)%Z).
Proof.
  intros p Hp.
  change (2^64) with 18446744073709551616 in Hp.
  change (2^31) with 2147483648. change (2^32) with 4294967296.
  rewrite void_cmp_unfold. split; intros H; lia.
Qed.

Theorem void_cmp_near_exact : forall a b, (Z.abs (Z.of_N a - Z.of_N b) < 2^31)%Z ->
  void_cmp a b = (Z.of_N a - Z.of_N b)%Z.
Proof.
  intros a b H. change (2^31)%Z with 2147483648%Z in H. rewrite void_cmp_unfold. lia.
Qed.

Theorem void_cmp_near_ok : forall a b, (Z.abs (Z.of_N a - Z.of_N b) < 2^31)%Z -> cmp_ok a b = true.
Proof.
  intros a b H. unfold cmp_ok. rewrite (void_cmp_near_exact a b H).
  destruct (Z.compare_spec (Z.of_N a - Z.of_N b) 0) as [E|E|E];
    destruct (N.compare_spec a b) as [F|F|F]; try reflexivity; exfalso; lia.
Qed.

(* ------------------------------------------------------------------------------------------------------ *)
(* D, F, G : loop invariants of binary_search                                                              *)

Lemma bs_loop_S f l x mn mx curs :
  bs_loop (S f) l x mn mx curs =
  if at_ l curs =? x then Some true else
    let mx' := if x <? at_ l curs then curs else mx in
    let mn' := if at_ l curs <? x then curs else mn in
    if mx' =? mn' + 1 then Some (at_ l curs =? x)
    else bs_loop f l x mn' mx' ((mx' + mn') / 2).
Proof. reflexivity. Qed.

Lemma bs_loop_O l x mn mx curs :
  bs_loop O l x mn mx curs = if at_ l curs =? x then Some true else None.
Proof. reflexivity. Qed.

(* G: the window mx - mn strictly shrinks while mn < curs < mx *)
Lemma bs_loop_total : forall f l x mn mx curs,
  mn < curs < mx -> (N.to_nat (mx - mn) <= f)%nat -> bs_loop f l x mn mx curs <> None.
Proof.
  induction f as [|f IH]; intros l x mn mx curs Hc Hf.
  - exfalso; lia.
  - rewrite bs_loop_S. destruct (N.eqb_spec (at_ l curs) x) as [E|E]; [discriminate|].
    cbv zeta.
    destruct (N.ltb_spec x (at_ l curs)) as [H1|H1];
      destruct (N.ltb_spec (at_ l curs) x) as [H2|H2]; try (exfalso; lia).
    + destruct (N.eqb_spec curs (mn + 1)) as [B|B]; [discriminate|]. apply IH; lia.
    + destruct (N.eqb_spec mx (curs + 1)) as [B|B]; [discriminate|]. apply IH; lia.
Qed.

Theorem bsearch_total : forall l x len, 2 <= len -> binary_search l x len <> None.
Proof.
  intros l x len Hlen. unfold binary_search. apply bs_loop_total; lia.
Qed.

(* D: every cursor the loop visits lies strictly inside (mn, mx) *)
Lemma bs_loop_notfound : forall f l x mn mx curs,
  mn < curs < mx -> (forall i, mn < i < mx -> at_ l i <> x) -> bs_loop f l x mn mx curs <> Some true.
Proof.
  induction f as [|f IH]; intros l x mn mx curs Hc Hno.
  - rewrite bs_loop_O. destruct (N.eqb_spec (at_ l curs) x) as [E|E]; [|discriminate].
    exfalso. apply (Hno curs Hc E).
  - rewrite bs_loop_S. destruct (N.eqb_spec (at_ l curs) x) as [E|E].
    { exfalso. apply (Hno curs Hc E). }
    cbv zeta.
    destruct (N.ltb_spec x (at_ l curs)) as [H1|H1];
      destruct (N.ltb_spec (at_ l curs) x) as [H2|H2]; try (exfalso; lia).
    + destruct (N.eqb_spec curs (mn + 1)) as [B|B]; [discriminate|].
      apply IH; [lia|]. intros i Hi. apply Hno. lia.
    + destruct (N.eqb_spec mx (curs + 1)) as [B|B]; [discriminate|].
      apply IH; [lia|]. intros i Hi. apply Hno. lia.
Qed.

Theorem bsearch_never_index0 : forall l x len, 2 <= len ->
  (forall i, 1 <= i < len -> at_ l i <> x) -> binary_search l x len <> Some true.
Proof.
  intros l x len Hlen Hno. unfold binary_search. apply bs_loop_notfound; [lia|].
  intros i Hi. apply Hno. lia.
Qed.

(* E *)
Theorem bsearch_index0_refuted : exists l len,
  2 <= len /\ N.of_nat (length l) = len /\
  (forall j k, j <= k -> k < len -> at_ l j <= at_ l k) /\
  binary_search l (at_ l 0) len = Some false.
Proof.
  exists [1;2;3;4], 4. split; [lia|]. split; [reflexivity|]. split; [|vm_compute; reflexivity].
  intros j k Hjk Hk.
  assert (Hc : (j = 0 \/ j = 1 \/ j = 2 \/ j = 3) /\ (k = 0 \/ k = 1 \/ k = 2 \/ k = 3)) by lia.
  destruct Hc as [[-> | [-> | [-> | ->]]] [-> | [-> | [-> | ->]]]]; vm_compute; try discriminate; exfalso; lia.
Qed.

(* F *)
Lemma bs_loop_finds : forall f l x len mn mx curs,
  (forall j k, j <= k -> k < len -> at_ l j <= at_ l k) ->
  mx <= len -> mn < curs < mx -> (N.to_nat (mx - mn) <= f)%nat ->
  (exists j, at_ l j = x /\ mn < j < mx) -> bs_loop f l x mn mx curs = Some true.
Proof.
  induction f as [|f IH]; intros l x len mn mx curs Hs Hmx Hc Hf [j [Hj Hjr]].
  - exfalso; lia.
  - rewrite bs_loop_S. destruct (N.eqb_spec (at_ l curs) x) as [E|E]; [reflexivity|].
    cbv zeta.
    destruct (N.ltb_spec x (at_ l curs)) as [H1|H1];
      destruct (N.ltb_spec (at_ l curs) x) as [H2|H2]; try (exfalso; lia).
    + assert (Hjc : j < curs).
      { destruct (N.lt_ge_cases j curs) as [L|L]; [exact L|].
        assert (Hle := Hs curs j L ltac:(lia)). exfalso; lia. }
      destruct (N.eqb_spec curs (mn + 1)) as [B|B]; [exfalso; lia|].
      apply (IH l x len); [exact Hs|lia|lia|lia|]. exists j. split; [exact Hj|lia].
    + assert (Hjc : curs < j).
      { destruct (N.lt_ge_cases curs j) as [L|L]; [exact L|].
        assert (Hle := Hs j curs L ltac:(lia)). exfalso; lia. }
      destruct (N.eqb_spec mx (curs + 1)) as [B|B]; [exfalso; lia|].
      apply (IH l x len); [exact Hs|lia|lia|lia|]. exists j. split; [exact Hj|lia].
Qed.

Theorem bsearch_finds : forall l x len i,
  N.of_nat (length l) = len ->
  (forall j k, j <= k -> k < len -> at_ l j <= at_ l k) ->
  1 <= i < len -> at_ l i = x -> binary_search l x len = Some true.
Proof.
  intros l x len i _ Hs Hi Hx. unfold binary_search.
  apply (bs_loop_finds _ l x len); [exact Hs|lia|lia|lia|].
  exists i. split; [exact Hx|lia].
Qed.

(* ------------------------------------------------------------------------------------------------------ *)
(* H : qsort-as-insertion-sort under the guard                                                             *)

Lemma insert_perm : forall x l, Permutation (insert x l) (x :: l).
Proof.
  intros x l. induction l as [|y l IH]; cbn [insert].
  - apply Permutation_refl.
  - destruct (void_cmp x y <=? 0)%Z.
    + apply Permutation_refl.
    + eapply perm_trans; [apply perm_skip, IH|apply perm_swap].
Qed.

Theorem isort_perm : forall l, Permutation (isort l) l.
Proof.
  induction l as [|x l IH]; cbn [isort].
  - apply perm_nil.
  - eapply perm_trans; [apply insert_perm|apply perm_skip, IH].
Qed.

Lemma isort_length : forall l, length (isort l) = length l.
Proof. intros l. apply Permutation_length, isort_perm. Qed.

Lemma cmp_ok_le : forall a b, cmp_ok a b = true -> (void_cmp a b <=? 0)%Z = (a <=? b).
Proof.
  intros a b. unfold cmp_ok.
  destruct (Z.compare_spec (void_cmp a b) 0) as [E|E|E];
    destruct (N.compare_spec a b) as [F|F|F]; intros H; try discriminate H; lia.
Qed.

Lemma cmp_consistent_le : forall l, cmp_consistent l = true ->
  forall a b, In a l -> In b l -> (void_cmp a b <=? 0)%Z = (a <=? b).
Proof.
  intros l H a b Ha Hb. unfold cmp_consistent in H.
  rewrite forallb_forall in H. specialize (H a Ha). rewrite forallb_forall in H.
  apply cmp_ok_le, H, Hb.
Qed.

Lemma insert_sorted : forall x l,
  (forall y, In y l -> (void_cmp x y <=? 0)%Z = (x <=? y)) ->
  StronglySorted N.le l -> StronglySorted N.le (insert x l).
Proof.
  intros x l. induction l as [|y l IH]; intros Hc Hs; cbn [insert].
  - constructor; constructor.
  - inversion Hs as [|y' l' Hs' Hall]; subst.
    rewrite (Hc y (or_introl eq_refl)).
    destruct (N.leb_spec x y) as [L|L].
    + constructor; [exact Hs|]. constructor; [exact L|].
      eapply Forall_impl; [|exact Hall]. intros z Hz; cbv beta in Hz. lia.
    + constructor.
      * apply IH; [|exact Hs']. intros z Hz. apply Hc. right; exact Hz.
      * eapply Permutation_Forall; [apply Permutation_sym, insert_perm|].
        constructor; [lia|exact Hall].
Qed.

Lemma isort_sorted_gen : forall l,
  (forall a b, In a l -> In b l -> (void_cmp a b <=? 0)%Z = (a <=? b)) ->
  StronglySorted N.le (isort l).
Proof.
  induction l as [|x l IH]; intros Hc; cbn [isort].
  - constructor.
  - apply insert_sorted.
    + intros y Hy. apply Hc; [left; reflexivity|right].
      eapply Permutation_in; [apply isort_perm|exact Hy].
    + apply IH. intros a b Ha Hb. apply Hc; right; assumption.
Qed.

Theorem isort_sorted : forall l, cmp_consistent l = true -> StronglySorted N.le (isort l).
Proof. intros l H. apply isort_sorted_gen, cmp_consistent_le, H. Qed.

Lemma ssorted_nth : forall l, StronglySorted N.le l ->
  forall j k : nat, (j <= k)%nat -> (k < length l)%nat -> nth j l 0 <= nth k l 0.
Proof.
  intros l Hs. induction Hs as [|a l Hs IH Hall]; intros j k Hjk Hk; cbn [length] in Hk.
  - exfalso; lia.
  - destruct j as [|j]; destruct k as [|k]; cbn [nth].
    + lia.
    + rewrite Forall_forall in Hall. apply Hall, nth_In. lia.
    + exfalso; lia.
    + apply IH; lia.
Qed.

(* conversion to the at_-based hypothesis of bsearch_finds *)
Lemma ssorted_at : forall l, StronglySorted N.le l ->
  forall j k, j <= k -> k < N.of_nat (length l) -> at_ l j <= at_ l k.
Proof.
  intros l Hs j k Hjk Hk. unfold at_. apply ssorted_nth; [exact Hs|lia|lia].
Qed.

Theorem isort_sorted_at : forall l, cmp_consistent l = true ->
  forall j k, j <= k -> k < N.of_nat (length l) -> at_ (isort l) j <= at_ (isort l) k.
Proof.
  intros l H j k Hjk Hk. apply ssorted_at; [apply isort_sorted, H|exact Hjk|].
  rewrite isort_length. exact Hk.
Qed.

(* ------------------------------------------------------------------------------------------------------ *)
(* I, J : the scan under the guard                                                                         *)

Lemma combine_seq_nth : forall (A : Type) (d : A) (l : list A) (s w : nat),
  (w < length l)%nat -> In ((s + w)%nat, nth w l d) (combine (seq s (length l)) l).
Proof.
  intros A d l. induction l as [|a l IH]; intros s w Hw; cbn [length] in Hw.
  - exfalso; lia.
  - cbn [length seq combine]. destruct w as [|w]; cbn [nth].
    + left. f_equal. lia.
    + right. replace (s + S w)%nat with (S s + w)%nat by lia. apply IH. lia.
Qed.

Lemma collect_other : forall slots me w p,
  w <> me -> (w < length slots)%nat -> In p (nth w slots []) -> In p (collect slots me).
Proof.
  intros slots me w p Hw Hlt Hp. unfold collect. apply in_concat.
  exists (nth w slots []). split; [|exact Hp].
  apply in_map_iff. exists (w, nth w slots []). split.
  - cbn [fst snd]. destruct (Nat.eqb_spec w me) as [E|E]; [contradiction|reflexivity].
  - apply (combine_seq_nth _ [] slots 0 w Hlt).
Qed.

Lemma collect_own_zero : forall slots me,
  (me < length slots)%nat -> nth me slots [] <> [] -> In 0 (collect slots me).
Proof.
  intros slots me Hlt Hne. unfold collect. apply in_concat.
  exists (map (fun _ => 0) (nth me slots [])). split.
  - apply in_map_iff. exists (me, nth me slots []). split.
    + cbn [fst snd]. rewrite Nat.eqb_refl. reflexivity.
    + apply (combine_seq_nth _ [] slots 0 me Hlt).
  - destruct (nth me slots []) as [|a r]; [contradiction|]. left; reflexivity.
Qed.

Theorem own_slots_zero_mask : forall slots me,
  cmp_consistent (collect slots me) = true -> (me < length slots)%nat -> nth me slots [] <> [] ->
  at_ (isort (collect slots me)) 0 = 0.
Proof.
  intros slots me Hc Hlt Hne.
  assert (Hin : In 0 (isort (collect slots me))).
  { eapply Permutation_in; [apply Permutation_sym, isort_perm|]. apply collect_own_zero; assumption. }
  assert (Hs := isort_sorted _ Hc).
  unfold at_. change (N.to_nat 0) with O.
  destruct (isort (collect slots me)) as [|h t]; [destruct Hin|].
  cbn [nth]. inversion Hs as [|h' t' Hs' Hall]; subst.
  destruct Hin as [E|Hin]; [exact E|].
  rewrite Forall_forall in Hall. specialize (Hall 0 Hin). lia.
Qed.

Lemma stage2_freed : forall sl nhp fl kept freed p,
  stage2 sl nhp fl = Some (kept, freed) -> In p freed -> binary_search sl p nhp = Some false.
Proof.
  intros sl nhp fl. induction fl as [|q fl IH]; intros kept freed p H Hin; cbn [stage2] in H.
  - injection H as <- <-. destruct Hin.
  - destruct (q =? 0).
    + injection H as <- <-. destruct Hin.
    + destruct (binary_search sl q nhp) as [[|]|] eqn:Eb; [| |discriminate H].
      * destruct (stage2 sl nhp fl) as [[k f]|]; [|discriminate H].
        injection H as <- <-. eapply IH; [reflexivity|exact Hin].
      * destruct (stage2 sl nhp fl) as [[k f]|]; [|discriminate H].
        injection H as <- <-. destruct Hin as [E|Hin].
        -- subst q. exact Eb.
        -- eapply IH; [reflexivity|exact Hin].
Qed.

Lemma stage2_total : forall sl nhp fl, 2 <= nhp -> stage2 sl nhp fl <> None.
Proof.
  intros sl nhp fl Hn. induction fl as [|q fl IH]; cbn [stage2]; [discriminate|].
  destruct (q =? 0); [discriminate|].
  assert (Hb := bsearch_total sl q nhp Hn).
  destruct (binary_search sl q nhp) as [[|]|]; [| |contradiction];
    destruct (stage2 sl nhp fl) as [[k f]|]; try contradiction; discriminate.
Qed.

Theorem scan_total : forall slots me fl,
  (2 <= length (collect slots me))%nat -> scan slots me fl <> None.
Proof. intros slots me fl H. unfold scan. apply stage2_total. lia. Qed.

(* under the guard every non-NULL collected pointer is found by the binary search *)
Theorem collected_found : forall slots me p,
  cmp_consistent (collect slots me) = true -> (me < length slots)%nat -> nth me slots [] <> [] ->
  In p (collect slots me) -> p <> 0 ->
  binary_search (isort (collect slots me)) p (N.of_nat (length (collect slots me))) = Some true.
Proof.
  intros slots me p Hc Hlt Hne Hin Hp0.
  assert (Hz := own_slots_zero_mask slots me Hc Hlt Hne).
  assert (Hin' : In p (isort (collect slots me))).
  { eapply Permutation_in; [apply Permutation_sym, isort_perm|exact Hin]. }
  destruct (In_nth _ _ 0 Hin') as [n [Hn Hnth]].
  rewrite isort_length in Hn.
  apply (bsearch_finds _ p _ (N.of_nat n)).
  - rewrite isort_length. reflexivity.
  - apply isort_sorted_at, Hc.
  - assert (n <> O).
    { intros ->. unfold at_ in Hz. change (N.to_nat 0) with O in Hz. congruence. }
    lia.
  - unfold at_. rewrite Nat2N.id. exact Hnth.
Qed.

Theorem scan_keeps_protected : forall slots me fl p w kept freed,
  cmp_consistent (collect slots me) = true -> (me < length slots)%nat -> nth me slots [] <> [] ->
  w <> me -> In p (nth w slots []) -> (w < length slots)%nat -> p <> 0 ->
  scan slots me fl = Some (kept, freed) -> ~ In p freed.
Proof.
  intros slots me fl p w kept freed Hc Hlt Hne Hw Hp Hwlt Hp0 Hscan Hfreed.
  unfold scan in Hscan.
  assert (Hb := stage2_freed _ _ _ _ _ p Hscan Hfreed).
  rewrite (collected_found slots me p Hc Hlt Hne (collect_other slots me w p Hw Hwlt Hp) Hp0) in Hb.
  discriminate Hb.
Qed.

(* ------------------------------------------------------------------------------------------------------ *)
(* K : outside the guard a protected pointer is freed                                                      *)

Theorem scan_protected_freed_refuted : exists slots me fl p w,
  w <> me /\ In p (nth w slots []) /\ p <> 0 /\
  exists kept freed, scan slots me fl = Some (kept, freed) /\ In p freed.
Proof.
  exists [[0;0];[0x7f0080000040;0];[0;0];[0;0]], O, [0x7f0080000040], 0x7f0080000040, 1%nat.
  split; [discriminate|]. split; [left; reflexivity|]. split; [discriminate|].
  exists [], [0x7f0080000040]. split; [vm_compute; reflexivity|left; reflexivity].
Qed.

(* the collected list of that witness violates the guard, and the sorted list has the pointer at index 0 *)
Example witness_not_consistent :
  cmp_consistent (collect [[0;0];[0x7f0080000040;0];[0;0];[0;0]] 0) = false.
Proof. vm_compute. reflexivity. Qed.

Example witness_sorted_front :
  isort (collect [[0;0];[0x7f0080000040;0];[0;0];[0;0]] 0) = [0x7f0080000040;0;0;0;0;0;0;0].
Proof. vm_compute. reflexivity. Qed.

(* ------------------------------------------------------------------------------------------------------ *)
(* L : the hypotheses of F and J are satisfiable with non-trivial data                                     *)

Definition ex_slots : list (list N) := [[0x1000;0x1040];[0x2080;0];[0;0x10c0];[0x1100;0x1140]].

Example ex_guard : cmp_consistent (collect ex_slots 1) = true.
Proof. vm_compute. reflexivity. Qed.

Example ex_sorted : isort (collect ex_slots 1) = [0;0;0;0x1000;0x1040;0x10c0;0x1100;0x1140].
Proof. vm_compute. reflexivity. Qed.

Example ex_scan :
  scan ex_slots 1 [0x1040; 0x3000; 0x1140; 0x2080; 0; 0x1000] = Some ([0x1040; 0x1140], [0x3000; 0x2080]).
Proof. vm_compute. reflexivity. Qed.

Example ex_kept : forall kept freed,
  scan ex_slots 1 [0x1040; 0x3000; 0x1140; 0x2080; 0; 0x1000] = Some (kept, freed) -> ~ In 0x1040 freed.
Proof.
  intros kept freed H.
  apply (scan_keeps_protected ex_slots 1 [0x1040; 0x3000; 0x1140; 0x2080; 0; 0x1000] 0x1040 0 kept freed); try exact H.
  - exact ex_guard.
  - cbn; lia.
  - discriminate.
  - discriminate.
  - right; left; reflexivity.
  - cbn; lia.
  - discriminate.
Qed.

Example ex_bsearch_finds : binary_search [0;0;0x1000;0x1040;0x10c0] 0x1040 5 = Some true.
Proof.
  apply (bsearch_finds _ _ _ 3); [reflexivity| |lia|reflexivity].
  apply (ssorted_at [0;0;0x1000;0x1040;0x10c0]).
  repeat (constructor; [|repeat (constructor; try (vm_compute; discriminate))]). constructor.
Qed.
