From Coq Require Import List ZArith.
From QV Require Import Loops.Model.
Require Extraction.
Require Import ExtrOcamlBasic.
Extraction Language OCaml.
Extraction "../ocaml/gen/c12_model.ml" maxworkers split tree balance_tasks qt_loop_tasks spawner_slot waited_slots
  init step run grant pending run_alone all_done Z.add Z.mul Z.div_eucl Z.of_nat Z.to_nat Z.compare.
