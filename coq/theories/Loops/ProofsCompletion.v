(** C12, third clause: the caller's wait completes only after every wrapper task has run its user function
    and delivered its completion signal — for every schedule (Loops/Completion.v). *)
From Coq Require Import List ZArith Bool Lia Permutation.
From Coq Require Import ZifyBool.
From QV Require Import Loops.Model Loops.Proofs Loops.Completion.
Import ListNotations.
Local Open Scope Z_scope.

Definition is_idx (sl : slot) : bool := match sl with SlotIdx _ => true | _ => false end.

Record wf (y : csys) : Prop := {
  wf_nodup : NoDup (map d_id (y_tasks y));
  wf_wait : match y_wait y with
            | WaitSlots l =>
                (forall d, In d (y_tasks y) -> exists i, d_slot d = SlotIdx i /\ In i l) /\
                (forall d1 d2, In d1 (y_tasks y) -> In d2 (y_tasks y) -> d_slot d1 = d_slot d2 -> d_id d1 = d_id d2)
            | WaitCount n =>
                n = Z.of_nat (length (y_tasks y)) /\ (forall d, In d (y_tasks y) -> is_idx (d_slot d) = false)
            end
}.

Lemma updf_same : forall (A : Type) (f : Z -> A) k v, updf f k v k = v.
Proof. intros. unfold updf. rewrite Z.eqb_refl. reflexivity. Qed.
Lemma updf_other : forall (A : Type) (f : Z -> A) k v x, x <> k -> updf f k v x = f x.
Proof. intros. unfold updf. destruct (x =? k) eqn:E; auto. lia. Qed.

Lemma firstn_snoc : forall (A : Type) (l : list A) k x, nth_error l k = Some x -> firstn (S k) l = firstn k l ++ [x].
Proof.
  intros A l. induction l; intros k x H; destruct k; cbn in *; try discriminate.
  - inversion H. reflexivity.
  - f_equal. apply IHl. exact H.
Qed.

Section Generic.
  Variable y : csys.

  Lemma find_task_some : forall id d, find_task y id = Some d -> In d (y_tasks y) /\ d_id d = id.
  Proof. intros id d H. unfold find_task in H. apply find_some in H. destruct H. split; auto. lia. Qed.

  Record Core (s : cstate) : Prop := {
    k_ran : forall id, In id (c_ran s) <-> (c_stat s id = Signalling \/ c_stat s id = Finished);
    k_ran_nodup : NoDup (c_ran s);
    k_fin : forall id, In id (c_fin s) <-> c_stat s id = Finished;
    k_fin_nodup : NoDup (c_fin s);
    k_fin_incl : incl (c_fin s) (map d_id (y_tasks y));
    k_cell : forall d i, In d (y_tasks y) -> d_slot d = SlotIdx i -> c_cell s i = true -> c_stat s (d_id d) = Finished;
    k_count : forall n, y_wait y = WaitCount n -> c_count s = Z.of_nat (length (c_fin s))
  }.

  Definition CallerInv (s : cstate) : Prop :=
    match c_pc s with
    | CSpawn _ => True
    | CWait k =>
        match y_wait y with
        | WaitSlots l => forall i d, In i (firstn k l) -> In d (y_tasks y) -> d_slot d = SlotIdx i -> c_stat s (d_id d) = Finished
        | WaitCount _ => True
        end
    | CReturned => forall d, In d (y_tasks y) -> c_stat s (d_id d) = Finished
    end.

  (* steps that neither run a function nor deliver a signal *)
  Definition neutral (s s' : cstate) : Prop :=
    c_ran s' = c_ran s /\ c_fin s' = c_fin s /\ c_count s' = c_count s /\
    (forall id, c_stat s' id = Signalling <-> c_stat s id = Signalling) /\
    (forall id, c_stat s' id = Finished <-> c_stat s id = Finished) /\
    (forall i, c_cell s' i = true -> c_cell s i = true).

  Lemma neutral_core : forall s s', neutral s s' -> Core s -> Core s'.
  Proof.
    intros s s' (Hr & Hf & Hc & Hs & Hfi & Hcell) [A A' B B' B'' C D].
    constructor.
    - intro id. rewrite Hr, Hs, Hfi. apply A.
    - rewrite Hr. exact A'.
    - intro id. rewrite Hf, Hfi. apply B.
    - rewrite Hf. exact B'.
    - rewrite Hf. exact B''.
    - intros d i Hd Hsl Hfull. apply Hfi. eapply C; eauto.
    - intros n Hn. rewrite Hc, Hf. eauto.
  Qed.

  Lemma neutral_trans : forall a b c, neutral a b -> neutral b c -> neutral a c.
  Proof.
    intros a b c (H1 & H2 & H3 & H4 & H5 & H6) (G1 & G2 & G3 & G4 & G5 & G6).
    repeat split; try congruence; intros.
    - apply H4. apply G4. auto.
    - apply G4. apply H4. auto.
    - apply H5. apply G5. auto.
    - apply G5. apply H5. auto.
    - apply H6. apply G6. auto.
  Qed.

  Lemma do_spawn_neutral : forall s c, neutral s (do_spawn y s c) /\ c_pc (do_spawn y s c) = c_pc s.
  Proof.
    intros s c. unfold do_spawn. destruct (find_task y c) as [d|].
    - split; [|reflexivity]. unfold neutral; cbn [c_ran c_fin c_count c_stat c_cell].
      assert (Hst : forall id X, X <> Spawning 0 -> X <> NotSpawned ->
                (match c_stat s c with NotSpawned => updf (c_stat s) c (Spawning 0) | _ => c_stat s end) id = X <-> c_stat s id = X).
      { intros id X H1 H2. destruct (c_stat s c) eqn:E; try reflexivity.
        unfold updf. destruct (id =? c) eqn:E2; [|reflexivity].
        assert (id = c) by lia. subst. split; intro; congruence. }
      split; [reflexivity|]. split; [reflexivity|]. split; [reflexivity|].
      split; [intro id; apply Hst; discriminate|]. split; [intro id; apply Hst; discriminate|].
      intros i. destruct (d_slot d); auto. unfold updf. destruct (i =? i0); auto. discriminate.
    - split; [|reflexivity]. unfold neutral. repeat split; auto.
  Qed.

  Lemma set_pc_neutral : forall s c, neutral s (set_pc s c).
  Proof. intros. unfold neutral, set_pc; cbn. repeat split; auto. Qed.

  Lemma set_stat_neutral : forall s id t, c_stat s id <> Signalling -> c_stat s id <> Finished ->
    t <> Signalling -> t <> Finished -> neutral s (set_stat s id t).
  Proof.
    intros s id t H1 H2 H3 H4. unfold neutral, set_stat; cbn [c_ran c_fin c_count c_stat c_cell].
    repeat split; auto; unfold updf; destruct (id0 =? id) eqn:E; auto; intro; try congruence;
      assert (id0 = id) by lia; subst; congruence.
  Qed.

  Lemma callerinv_mono : forall s s', c_pc s' = c_pc s ->
    (forall id, c_stat s id = Finished -> c_stat s' id = Finished) -> CallerInv s -> CallerInv s'.
  Proof.
    intros s s' Hpc Hm H. unfold CallerInv in *. rewrite Hpc.
    destruct (c_pc s) as [k|k|].
    - exact I.
    - destruct (y_wait y); [|exact I]. intros. apply Hm. eapply H; eauto.
    - intros. apply Hm. auto.
  Qed.

  Hypothesis Hwf : wf y.

  Lemma cstep_inv : forall s a s', cstep y s a = Some s' -> Core s /\ CallerInv s -> Core s' /\ CallerInv s'.
  Proof.
    intros s a s' H [HC HI]. destruct a as [|id]; cbn [cstep] in H.
    - (* caller *)
      destruct (c_pc s) as [k|k|] eqn:Epc; [| |discriminate].
      + destruct (nth_error (y_root y) k) as [c|]; inversion H; subst s'; clear H.
        * destruct (do_spawn_neutral s c) as [Hn _]. split.
          -- eapply neutral_core; [|exact HC]. eapply neutral_trans; [exact Hn | apply set_pc_neutral].
          -- unfold CallerInv, set_pc; cbn. exact I.
        * split; [eapply neutral_core; [apply set_pc_neutral | exact HC]|].
          unfold CallerInv, set_pc; cbn [c_pc]. destruct (y_wait y); auto. intros i d Hin. destruct Hin.
      + unfold CallerInv in HI. rewrite Epc in HI.
        destruct (y_wait y) as [l|n] eqn:Ew.
        * destruct (nth_error l k) as [i|] eqn:En.
          -- destruct (c_cell s i) eqn:Ec; inversion H; subst s'; clear H.
             split; [eapply neutral_core; [apply set_pc_neutral | exact HC]|].
             unfold CallerInv, set_pc; cbn [c_pc c_stat]. rewrite Ew.
             intros i' d Hin Hd Hsl. rewrite (firstn_snoc _ _ _ _ En) in Hin. apply in_app_or in Hin.
             destruct Hin as [Hin | [<- | []]]; [eapply HI; eauto|].
             eapply (k_cell _ HC); eauto.
          -- inversion H; subst s'; clear H.
             split; [eapply neutral_core; [apply set_pc_neutral | exact HC]|].
             unfold CallerInv, set_pc; cbn [c_pc c_stat].
             intros d Hd. pose proof (wf_wait _ Hwf) as W. rewrite Ew in W. destruct W as [W1 _].
             destruct (W1 d Hd) as (i & Hsl & Hil).
             apply nth_error_None in En. rewrite firstn_all2 in HI by exact En. eapply HI; eauto.
        * destruct (c_count s =? n) eqn:Ecn; inversion H; subst s'; clear H.
          split; [eapply neutral_core; [apply set_pc_neutral | exact HC]|].
          unfold CallerInv, set_pc; cbn [c_pc c_stat].
          intros d Hd. pose proof (wf_wait _ Hwf) as W. rewrite Ew in W. destruct W as [W1 _].
          apply (k_fin _ HC).
          assert (Hincl : incl (map d_id (y_tasks y)) (c_fin s)).
          { apply NoDup_length_incl; [exact (k_fin_nodup _ HC) | | exact (k_fin_incl _ HC)].
            rewrite map_length. pose proof (k_count _ HC n Ew). lia. }
          apply Hincl. apply in_map. exact Hd.
    - (* task *)
      destruct (find_task y id) as [d|] eqn:Ef; [|discriminate].
      destruct (find_task_some _ _ Ef) as [Hd Hid].
      destruct (c_stat s id) as [|k| | |] eqn:Est; try discriminate.
      + (* spawning phase *)
        destruct (nth_error (d_kids d) k) as [c|]; inversion H; subst s'; clear H.
        * destruct (do_spawn_neutral s c) as [Hn Hpc].
          assert (Hn2 : neutral (do_spawn y s c) (set_stat (do_spawn y s c) id (Spawning (S k)))).
          { destruct Hn as (_ & _ & _ & N4 & N5 & _).
            apply set_stat_neutral; try discriminate; intro Hx; [apply N4 in Hx | apply N5 in Hx]; congruence. }
          pose proof (neutral_trans _ _ _ Hn Hn2) as Hn3.
          split; [eapply neutral_core; eauto|].
          eapply callerinv_mono; [| |exact HI]; [exact Hpc|].
          intros id0 Hf. destruct Hn3 as (_ & _ & _ & _ & N5 & _). apply N5. exact Hf.
        * assert (Hn : neutral s (set_stat s id Running)) by (apply set_stat_neutral; congruence).
          split; [eapply neutral_core; eauto|].
          eapply callerinv_mono; [| |exact HI]; [reflexivity|].
          intros id0 Hf. destruct Hn as (_ & _ & _ & _ & N5 & _). apply N5. exact Hf.
      + (* the user function runs *)
        inversion H; subst s'; clear H. destruct HC as [A A' B B' B'' C D]. split.
        * constructor; cbn [c_ran c_fin c_count c_stat c_cell]; auto.
          -- intro id0. cbn [In]. destruct (Z.eq_dec id0 id) as [->|Ne].
             ++ rewrite updf_same. split; auto.
             ++ rewrite updf_other by exact Ne. rewrite <- A. split; [intros [E|E]; [congruence|auto] | auto].
          -- constructor; [|exact A']. intro Hin. apply A in Hin. destruct Hin; congruence.
          -- intro id0. destruct (Z.eq_dec id0 id) as [->|Ne].
             ++ rewrite updf_same. rewrite B. split; intro; congruence.
             ++ rewrite updf_other by exact Ne. apply B.
          -- intros d0 i Hd0 Hsl Hfull. pose proof (C d0 i Hd0 Hsl Hfull) as Hfin.
             destruct (Z.eq_dec (d_id d0) id) as [E|Ne]; [congruence|]. rewrite updf_other by exact Ne. exact Hfin.
        * eapply callerinv_mono; [| |exact HI]; [reflexivity|]. cbn [c_stat].
          intros id0 Hf. destruct (Z.eq_dec id0 id) as [->|Ne]; [congruence|]. rewrite updf_other by exact Ne. exact Hf.
      + (* the completion signal *)
        assert (Hmono : forall st' id0, c_stat s id0 = Finished -> updf (c_stat s) id st' id0 = Finished -> True) by auto.
        destruct HC as [A A' B B' B'' C D].
        destruct (d_slot d) as [i| |] eqn:Esl.
        * destruct (c_cell s i) eqn:Ecell; inversion H; subst s'; clear H. split.
          -- constructor; cbn [c_ran c_fin c_count c_stat c_cell]; auto.
             ++ intro id0. destruct (Z.eq_dec id0 id) as [->|Ne].
                ** rewrite updf_same. rewrite A. split; auto.
                ** rewrite updf_other by exact Ne. apply A.
             ++ intro id0. cbn [In]. destruct (Z.eq_dec id0 id) as [->|Ne].
                ** rewrite updf_same. split; auto.
                ** rewrite updf_other by exact Ne. rewrite <- B. split; [intros [E|E]; [congruence|auto] | auto].
             ++ constructor; [|exact B']. intro Hin. apply B in Hin. congruence.
             ++ intros x [<-|Hx]; [rewrite <- Hid; apply in_map; exact Hd | apply B''; exact Hx].
             ++ intros d0 i0 Hd0 Hsl0 Hfull.
                destruct (Z.eq_dec (d_id d0) id) as [E|Ne]; [rewrite E; apply updf_same|].
                rewrite updf_other by exact Ne.
                destruct (Z.eq_dec i0 i) as [->|Ni].
                ** exfalso. apply Ne. pose proof (wf_wait _ Hwf) as W.
                   destruct (y_wait y) as [l|n].
                   --- destruct W as [_ W2]. rewrite <- Hid. apply W2; auto. congruence.
                   --- destruct W as [_ W2]. specialize (W2 d Hd). rewrite Esl in W2. discriminate.
                ** rewrite updf_other in Hfull by exact Ni. eapply C; eauto.
             ++ intros n Hn. pose proof (wf_wait _ Hwf) as W. rewrite Hn in W. destruct W as [_ W2].
                specialize (W2 d Hd). rewrite Esl in W2. discriminate.
          -- eapply callerinv_mono; [| |exact HI]; [reflexivity|]. cbn [c_stat].
             intros id0 Hf. destruct (Z.eq_dec id0 id) as [->|Ne]; [apply updf_same|]. rewrite updf_other by exact Ne. exact Hf.
        * inversion H; subst s'; clear H. split.
          -- constructor; cbn [c_ran c_fin c_count c_stat c_cell]; auto.
             ++ intro id0. destruct (Z.eq_dec id0 id) as [->|Ne].
                ** rewrite updf_same. rewrite A. split; auto.
                ** rewrite updf_other by exact Ne. apply A.
             ++ intro id0. cbn [In]. destruct (Z.eq_dec id0 id) as [->|Ne].
                ** rewrite updf_same. split; auto.
                ** rewrite updf_other by exact Ne. rewrite <- B. split; [intros [E|E]; [congruence|auto] | auto].
             ++ constructor; [|exact B']. intro Hin. apply B in Hin. congruence.
             ++ intros x [<-|Hx]; [rewrite <- Hid; apply in_map; exact Hd | apply B''; exact Hx].
             ++ intros d0 i0 Hd0 Hsl0 Hfull. pose proof (C d0 i0 Hd0 Hsl0 Hfull) as Hfin.
                destruct (Z.eq_dec (d_id d0) id) as [E|Ne]; [rewrite E; apply updf_same|]. rewrite updf_other by exact Ne. exact Hfin.
             ++ intros n Hn. cbn [length]. rewrite (D n Hn). lia.
          -- eapply callerinv_mono; [| |exact HI]; [reflexivity|]. cbn [c_stat].
             intros id0 Hf. destruct (Z.eq_dec id0 id) as [->|Ne]; [apply updf_same|]. rewrite updf_other by exact Ne. exact Hf.
        * inversion H; subst s'; clear H. split.
          -- constructor; cbn [c_ran c_fin c_count c_stat c_cell]; auto.
             ++ intro id0. destruct (Z.eq_dec id0 id) as [->|Ne].
                ** rewrite updf_same. rewrite A. split; auto.
                ** rewrite updf_other by exact Ne. apply A.
             ++ intro id0. cbn [In]. destruct (Z.eq_dec id0 id) as [->|Ne].
                ** rewrite updf_same. split; auto.
                ** rewrite updf_other by exact Ne. rewrite <- B. split; [intros [E|E]; [congruence|auto] | auto].
             ++ constructor; [|exact B']. intro Hin. apply B in Hin. congruence.
             ++ intros x [<-|Hx]; [rewrite <- Hid; apply in_map; exact Hd | apply B''; exact Hx].
             ++ intros d0 i0 Hd0 Hsl0 Hfull. pose proof (C d0 i0 Hd0 Hsl0 Hfull) as Hfin.
                destruct (Z.eq_dec (d_id d0) id) as [E|Ne]; [rewrite E; apply updf_same|]. rewrite updf_other by exact Ne. exact Hfin.
             ++ intros n Hn. cbn [length]. rewrite (D n Hn). lia.
          -- eapply callerinv_mono; [| |exact HI]; [reflexivity|]. cbn [c_stat].
             intros id0 Hf. destruct (Z.eq_dec id0 id) as [->|Ne]; [apply updf_same|]. rewrite updf_other by exact Ne. exact Hf.
  Qed.

  Lemma crun_inv : forall sched s, Core s /\ CallerInv s -> Core (crun y s sched) /\ CallerInv (crun y s sched).
  Proof.
    induction sched as [|a r IH]; intros s H; cbn [crun]; auto.
    destruct (cstep y s a) eqn:E; auto. apply IH. eapply cstep_inv; eauto.
  Qed.

  Lemma cinit_inv : Core cinit /\ CallerInv cinit.
  Proof.
    split; [|exact I]. constructor; unfold cinit; cbn [c_ran c_fin c_stat c_cell c_count length].
    - intro x. split; [intros [] | intros [H|H]; discriminate].
    - constructor.
    - intro x. split; [intros [] | discriminate].
    - constructor.
    - intros x [].
    - intros; discriminate.
    - intros; reflexivity.
  Qed.

  (** loop_returns_after_all, generic form: in every reachable state in which the caller's wait has completed, every
      task has delivered its signal and its user function was executed, exactly once *)
  Theorem returns_after_all_generic : forall sched,
    let s := crun y cinit sched in
    c_pc s = CReturned ->
    (forall d, In d (y_tasks y) -> c_stat s (d_id d) = Finished /\ In (d_id d) (c_ran s)) /\ NoDup (c_ran s).
  Proof.
    intros sched s Hret. destruct (crun_inv sched cinit cinit_inv) as [HC HI]. fold s in HC, HI.
    unfold CallerInv in HI. rewrite Hret in HI. split; [|exact (k_ran_nodup _ HC)].
    intros d Hd. split; [auto|]. apply (k_ran _ HC). right. auto.
  Qed.
End Generic.

(* ------------------------------------------------------------------ *)
(** * a waited cell that is nobody's return location: the wait never completes *)
Section Unowned.
  Variable y : csys.
  Variable l : list Z.
  Variable i : Z.
  Hypothesis Hw : y_wait y = WaitSlots l.
  Hypothesis Hi : In i l.
  Hypothesis Hun : forall d, In d (y_tasks y) -> d_slot d <> SlotIdx i.

  Definition Stuck (s : cstate) : Prop :=
    c_cell s i = false /\ c_pc s <> CReturned /\ forall k, c_pc s = CWait k -> ~ In i (firstn k l).

  Lemma do_spawn_cell : forall s c, c_cell s i = false -> c_cell (do_spawn y s c) i = false.
  Proof.
    intros s c H. unfold do_spawn. destruct (find_task y c); auto. cbn [c_cell].
    destruct (d_slot t); auto. unfold updf. destruct (i =? i0); auto.
  Qed.

  Lemma cstep_stuck : forall s a s', cstep y s a = Some s' -> Stuck s -> Stuck s'.
  Proof.
    intros s a s' H (Hc & Hr & Hk). destruct a as [|id]; cbn [cstep] in H.
    - destruct (c_pc s) as [k|k|] eqn:Epc; [| |discriminate].
      + destruct (nth_error (y_root y) k); inversion H; subst s'; clear H; unfold Stuck, set_pc; cbn [c_pc c_cell].
        * split; [apply do_spawn_cell; auto|]. split; [discriminate|]. intros k0 E. discriminate.
        * split; auto. split; [discriminate|]. intros k0 E. inversion E; subst. cbn. auto.
      + rewrite Hw in H. destruct (nth_error l k) as [i0|] eqn:En.
        * destruct (c_cell s i0) eqn:Ec; inversion H; subst s'; clear H. unfold Stuck, set_pc; cbn [c_pc c_cell].
          split; auto. split; [discriminate|]. intros k0 E. inversion E; subst.
          rewrite (firstn_snoc _ _ _ _ En). intro Hin. apply in_app_or in Hin.
          destruct Hin as [Hin | [<- | []]]; [eapply Hk; eauto | congruence].
        * exfalso. apply nth_error_None in En. apply (Hk k eq_refl). rewrite firstn_all2 by exact En. exact Hi.
    - destruct (find_task y id) as [d|] eqn:Ef; [|discriminate].
      apply find_task_some in Ef. destruct Ef as [Hd Hid].
      destruct (c_stat s id) as [|k| | |]; try discriminate.
      + destruct (nth_error (d_kids d) k); inversion H; subst s'; clear H; unfold Stuck, set_stat; cbn [c_pc c_cell].
        * split; [apply do_spawn_cell; auto|].
          assert (c_pc (do_spawn y s z) = c_pc s) by (unfold do_spawn; destruct (find_task y z); reflexivity).
          rewrite H. auto.
        * auto.
      + inversion H; subst s'; clear H. unfold Stuck; cbn [c_pc c_cell]. auto.
      + destruct (d_slot d) as [i0| |] eqn:Esl.
        * destruct (c_cell s i0); inversion H; subst s'; clear H. unfold Stuck; cbn [c_pc c_cell].
          split; auto. rewrite updf_other; auto. intro E. subst i0. apply (Hun d Hd). exact Esl.
        * inversion H; subst s'; clear H. unfold Stuck; cbn [c_pc c_cell]. auto.
        * inversion H; subst s'; clear H. unfold Stuck; cbn [c_pc c_cell]. auto.
  Qed.

  Theorem unowned_never_returns : forall sched, c_pc (crun y cinit sched) <> CReturned.
  Proof.
    assert (G : forall sched s, Stuck s -> Stuck (crun y s sched)).
    { induction sched as [|a r IH]; intros s H; cbn [crun]; auto.
      destruct (cstep y s a) eqn:E; auto. apply IH. eapply cstep_stuck; eauto. }
    intro sched. apply (G sched cinit). unfold Stuck, cinit; cbn. repeat split; auto; discriminate.
  Qed.
End Unowned.

(* ------------------------------------------------------------------ *)
(** * instances: qt_loop_balance_* and qt_loop_spawner *)

Definition is_fin (t : tstat) : bool := match t with Finished => true | _ => false end.

Lemma seqmap_nodup : forall n, NoDup (map Z.of_nat (seq 0 n)).
Proof.
  intro n. apply FinFun.Injective_map_NoDup; [|apply seq_NoDup].
  intros a b H. lia.
Qed.

Lemma filter_all : forall (A : Type) (f : A -> bool) l, (forall x, In x l -> f x = true) -> filter f l = l.
Proof.
  intros A f l. induction l; intro H; cbn [filter]; auto.
  rewrite (H a (or_introl eq_refl)). f_equal. apply IHl. intros x Hx. apply H. right. exact Hx.
Qed.

Lemma balance_sys_ids : forall st start stop nw,
  map d_id (y_tasks (balance_sys st start stop nw)) = map fst (tree (maxworkers start stop nw)).
Proof.
  intros. unfold balance_sys, balance_tasks; cbn [y_tasks]. rewrite !map_map. apply map_ext. intros [a b]. reflexivity.
Qed.

Lemma balance_sys_ranges : forall st start stop nw,
  map d_range (y_tasks (balance_sys st start stop nw)) = map snd (balance_tasks st start stop nw).
Proof.
  intros. unfold balance_sys; cbn [y_tasks]. rewrite map_map. apply map_ext. intros [[[a b] c] d]. reflexivity.
Qed.

Lemma balance_sys_task : forall st start stop nw d, In d (y_tasks (balance_sys st start stop nw)) ->
  d_slot d = ret_slot st (d_id d) /\ In (d_id d) (waited_slots (maxworkers start stop nw)) \/ maxworkers start stop nw < 1.
Proof.
  intros st start stop nw d H.
  destruct (Z_lt_le_dec (maxworkers start stop nw) 1) as [Hlt|Hge]; [right; exact Hlt|left].
  unfold balance_sys, balance_tasks in H; cbn [y_tasks] in H. rewrite map_map in H.
  apply in_map_iff in H. destruct H as ([a b] & <- & Hin). cbn [d_slot d_id fst snd]. split; [reflexivity|].
  unfold waited_slots. eapply Permutation_in; [apply tree_ids_perm; lia|]. apply (in_map fst) in Hin. exact Hin.
Qed.

Lemma balance_sys_wf : forall st start stop nw, start < stop -> 1 <= nw < 65536 -> wf (balance_sys st start stop nw).
Proof.
  intros st start stop nw Hlt Hnw.
  assert (Hmw : 1 <= maxworkers start stop nw) by (rewrite maxworkers_min; lia).
  constructor.
  - rewrite balance_sys_ids. eapply Permutation_NoDup; [apply Permutation_sym; apply tree_ids_perm; exact Hmw | apply seqmap_nodup].
  - assert (Hlen : Z.of_nat (length (y_tasks (balance_sys st start stop nw))) = maxworkers start stop nw).
    { rewrite <- (map_length d_id), balance_sys_ids.
      rewrite (Permutation_length (tree_ids_perm _ Hmw)), map_length, seq_length. lia. }
    assert (Hsl : forall d, In d (y_tasks (balance_sys st start stop nw)) ->
                 d_slot d = ret_slot st (d_id d) /\ In (d_id d) (waited_slots (maxworkers start stop nw))).
    { intros d Hd. destruct (balance_sys_task _ _ _ _ _ Hd); [auto|lia]. }
    unfold balance_sys at 1; cbn [y_wait]. destruct st; cbn [wait_of].
    + split.
      * intros d Hd. destruct (Hsl d Hd) as [E Hin]. exists (d_id d). auto.
      * intros d1 d2 H1 H2 E. destruct (Hsl d1 H1) as [E1 _], (Hsl d2 H2) as [E2 _]. rewrite E1, E2 in E. cbn in E. congruence.
    + split.
      * intros d Hd. destruct (Hsl d Hd) as [E Hin]. exists (d_id d). auto.
      * intros d1 d2 H1 H2 E. destruct (Hsl d1 H1) as [E1 _], (Hsl d2 H2) as [E2 _]. rewrite E1, E2 in E. cbn in E. congruence.
    + split; [lia|]. intros d Hd. destruct (Hsl d Hd) as [E _]. rewrite E. reflexivity.
    + split; [lia|]. intros d Hd. destruct (Hsl d Hd) as [E _]. rewrite E. reflexivity.
Qed.

Lemma loop_returns_after_all_balance_proof : forall st start stop nw, start < stop -> 1 <= nw < 65536 ->
  forall sched,
  let y := balance_sys st start stop nw in
  let s := crun y cinit sched in
  c_pc s = CReturned ->
  (forall d, In d (y_tasks y) -> c_stat s (d_id d) = Finished /\ In (d_id d) (c_ran s)) /\
  NoDup (c_ran s) /\
  forall x, cover_count x (map d_range (filter (fun d => is_fin (c_stat s (d_id d))) (y_tasks y))) =
            if (start <=? x) && (x <? stop) then 1%nat else 0%nat.
Proof.
  intros st start stop nw Hlt Hnw sched y s Hret.
  destruct (returns_after_all_generic y (balance_sys_wf st start stop nw Hlt Hnw) sched Hret) as [Hall Hnd].
  split; [exact Hall|]. split; [exact Hnd|].
  intro x. rewrite filter_all.
  - unfold y. rewrite balance_sys_ranges. apply balance_exactly_once_proof; assumption.
  - intros d Hd. destruct (Hall d Hd) as [E _]. cbv beta. unfold s. rewrite E. reflexivity.
Qed.

Lemma spawner_sys_ids : forall st lo hi, map d_id (y_tasks (spawner_sys st lo hi)) = map snd (spawner lo hi).
Proof. intros. unfold spawner_sys; cbn [y_tasks]. rewrite map_map. apply map_ext. intros [[a b] c]. reflexivity. Qed.

Lemma spawner_sys_ranges : forall st lo hi, map d_range (y_tasks (spawner_sys st lo hi)) = map task_range (spawner lo hi).
Proof. intros. unfold spawner_sys; cbn [y_tasks]. rewrite map_map. apply map_ext. intros [[a b] c]. reflexivity. Qed.

Lemma spawner_sys_wf : forall st lo hi, lo <= hi -> wf (spawner_sys st lo hi).
Proof.
  intros st lo hi Hle. destruct (spawner_spec lo hi Hle) as (_ & _ & Hids).
  assert (Hsl : forall d, In d (y_tasks (spawner_sys st lo hi)) ->
               d_slot d = spawner_slot st (d_id d) /\ In (d_id d) (waited_slots (hi - lo))).
  { intros d Hd. split.
    - unfold spawner_sys in Hd; cbn [y_tasks] in Hd. apply in_map_iff in Hd. destruct Hd as ([[a b] c] & <- & _). reflexivity.
    - unfold waited_slots. rewrite <- Hids, <- (spawner_sys_ids st). apply in_map. exact Hd. }
  constructor.
  - rewrite spawner_sys_ids, Hids. apply seqmap_nodup.
  - assert (Hlen : Z.of_nat (length (y_tasks (spawner_sys st lo hi))) = hi - lo).
    { rewrite <- (map_length d_id), spawner_sys_ids, Hids, map_length, seq_length. lia. }
    unfold spawner_sys at 1; cbn [y_wait]. destruct st; cbn [wait_of].
    + split.
      * intros d Hd. destruct (Hsl d Hd) as [E Hin]. exists (d_id d). auto.
      * intros d1 d2 H1 H2 E. destruct (Hsl d1 H1) as [E1 _], (Hsl d2 H2) as [E2 _]. rewrite E1, E2 in E. cbn in E. congruence.
    + split.
      * intros d Hd. destruct (Hsl d Hd) as [E Hin]. exists (d_id d). auto.
      * intros d1 d2 H1 H2 E. destruct (Hsl d1 H1) as [E1 _], (Hsl d2 H2) as [E2 _]. rewrite E1, E2 in E. cbn in E. congruence.
    + split; [lia|]. intros d Hd. destruct (Hsl d Hd) as [E _]. rewrite E. reflexivity.
    + split; [lia|]. intros d Hd. destruct (Hsl d Hd) as [E _]. rewrite E. reflexivity.
Qed.

Lemma loop_returns_after_all_spawner_proof : forall st lo hi, lo <= hi ->
  forall sched,
  let y := spawner_sys st lo hi in
  let s := crun y cinit sched in
  c_pc s = CReturned ->
  (forall d, In d (y_tasks y) -> c_stat s (d_id d) = Finished /\ In (d_id d) (c_ran s)) /\
  NoDup (c_ran s) /\
  forall x, cover_count x (map d_range (filter (fun d => is_fin (c_stat s (d_id d))) (y_tasks y))) =
            if (lo <=? x) && (x <? hi) then 1%nat else 0%nat.
Proof.
  intros st lo hi Hle sched y s Hret.
  destruct (returns_after_all_generic y (spawner_sys_wf st lo hi Hle) sched Hret) as [Hall Hnd].
  split; [exact Hall|]. split; [exact Hnd|].
  intro x. rewrite filter_all.
  - unfold y. rewrite spawner_sys_ranges. apply tiling_count. apply spawner_spec. exact Hle.
  - intros d Hd. destruct (Hall d Hd) as [E _]. cbv beta. unfold s. rewrite E. reflexivity.
Qed.

(* ------------------------------------------------------------------ *)
(** * the two repaired defects, as regression variants with the old slot rules: the wait never completes *)

Lemma waited_has_1 : forall mw, 2 <= mw -> In 1 (waited_slots mw).
Proof.
  intros mw H. unfold waited_slots. change 1 with (Z.of_nat 1). apply in_map. apply in_seq. lia.
Qed.

Lemma aligned_slots_refuted_proof : forall start stop nw, start + 2 <= stop -> 2 <= nw < 65536 ->
  forall sched, c_pc (crun (balance_sys_old_aligned start stop nw) cinit sched) <> CReturned.
Proof.
  intros start stop nw Hlen Hnw.
  assert (Hmw : 2 <= maxworkers start stop nw) by (rewrite maxworkers_min; lia).
  apply (unowned_never_returns _ (waited_slots (maxworkers start stop nw)) 1).
  - reflexivity.
  - apply waited_has_1. exact Hmw.
  - intros d Hd. unfold balance_sys_old_aligned in Hd; cbn [y_tasks] in Hd.
    apply in_map_iff in Hd. destruct Hd as (d0 & <- & Hd0). cbn [d_slot].
    destruct (d_id d0 =? 0) eqn:E; [discriminate|].
    destruct (balance_sys_task _ _ _ _ _ Hd0) as [[_ Hin]|]; [|lia].
    unfold waited_slots in Hin. apply in_map_iff in Hin. destruct Hin as (n & Hn & _).
    intro Hx. assert (Hy : -1 - d_id d0 = 1) by congruence. lia.
Qed.

Lemma spawner_slots_refuted_proof : forall st lo hi, st = ALIGNED \/ st = SYNCVAR_T -> lo + 2 <= hi ->
  forall sched, c_pc (crun (spawner_sys_old st lo hi) cinit sched) <> CReturned.
Proof.
  intros st lo hi Hst Hlen.
  apply (unowned_never_returns _ (waited_slots (hi - lo)) 1).
  - unfold spawner_sys_old, spawner_sys; cbn [y_wait]. destruct Hst as [-> | ->]; reflexivity.
  - apply waited_has_1. lia.
  - intros d Hd. unfold spawner_sys_old in Hd; cbn [y_tasks] in Hd.
    apply in_map_iff in Hd. destruct Hd as (d0 & <- & _). cbn [d_slot]. discriminate.
Qed.

(* non-vacuity: with the repaired slot rules the wait does complete (round-robin schedule), with the old rules the same
   schedule leaves the caller blocked on cell 1 *)
Definition rr (n : nat) (ids : list Z) : list actor := flat_map (fun _ => Caller :: map Task ids) (seq 0 n).

Example balance_aligned_returns :
  let s := crun (balance_sys ALIGNED 0 11 4) cinit (rr 12 [0; 1; 2; 3]) in
  c_pc s = CReturned /\ length (c_ran s) = 4%nat.
Proof. vm_compute. split; reflexivity. Qed.

Example balance_aligned_old_blocked :
  c_pc (crun (balance_sys_old_aligned 0 11 4) cinit (rr 12 [0; 1; 2; 3])) = CWait 1.
Proof. vm_compute. reflexivity. Qed.

Example spawner_sv_returns :
  c_pc (crun (spawner_sys SYNCVAR_T 3 8) cinit (rr 12 [0; 1; 2; 3; 4])) = CReturned.
Proof. vm_compute. reflexivity. Qed.

Example spawner_sv_old_blocked :
  c_pc (crun (spawner_sys_old SYNCVAR_T 3 8) cinit (rr 12 [0; 1; 2; 3; 4])) = CWait 1.
Proof. vm_compute. reflexivity. Qed.
