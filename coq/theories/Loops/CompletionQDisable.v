(** C12 extension O — queue loops while shepherds are disabled / re-enabled (definitions only).

    The completion protocol of src/qloop.c's queue loops with the shepherd-disabled branch, statement by statement:

      qqloop_wrapper:   safeexit = 1;
                        if (get_iters) do { func(range);
                                            if (!qthread_shep_ok()) { safeexit = 0; qthread_incr(&activesheps, -1); break; }
                                       } while (get_iters);
                        if (safeexit) qthread_incr(donecount, 1);
      qt_loop_queue_run / _run_there:  activesheps = number of wrappers forked;  while ( *dc < *as ) qthread_yield();
                        (two plain reads; C leaves their order open: gcc -O0 reads dc first, gcc -O1 reads as first —
                         [dc_asfirst] selects the order)
      qt_loop_queue_addworker:  qthread_incr(&activesheps, 1); if (donecount == 0) fork a new wrapper
                                else qthread_incr(&activesheps, -1);
      qthread_disable_shepherd(s): refused for s = 0, else active[s] := 0;   qthread_enable_shepherd(s): active[s] := 1.

    One event = one shared access (or one call boundary of the user function).  The shepherd a wrapper runs on when
    it evaluates qthread_shep_ok() is part of the event (the runtime migrates tasks of a disabled shepherd), so the
    theorems hold for every placement / migration.  get_iters is the atomic claim of a non-empty prefix of what is
    left of the range (that the four real cursor functions behave so under every interleaving is claims_tile in
    Properties_C12.v); the size asked for is part of the event.  Counters are Z without 64-bit wrap-around.

    [dc_brk = false] is the machine of the seeded change C12-3 (the `break` of the disabled branch removed). *)
From Coq Require Import List ZArith Bool.
From QV Require Import Loops.Model.
Import ListNotations.
Local Open Scope Z_scope.

Inductive dpc :=
| DGet                  (* about to call get_iters (first or a later call) *)
| DFunc (lo hi : Z)     (* holds the claim [lo,hi), func not entered yet *)
| DIn (lo hi : Z)       (* inside func(lo, hi, arg) *)
| DCheck                (* func returned; about to evaluate qthread_shep_ok() *)
| DDec                  (* shepherd found disabled: safeexit = 0 done, about to qthread_incr(&activesheps, -1) *)
| DExit                 (* left the loop; about to test safeexit / increment donecount *)
| DGone.                (* wrapper returned *)

Record dworker := mkW { w_pc : dpc; w_safe : bool }.

Inductive apc := ARead | AUndo | AFin.              (* qt_loop_queue_addworker after its activesheps++ *)
Inductive dcpc := DRead1 | DRead2 (v : Z) | DReturned.   (* the caller's while ( *dc < *as ) *)

Record dconf := mkDC { dc_stop : Z; dc_brk : bool; dc_asfirst : bool }.

Record dstate := mkDS {
  ds_cur : Z;                        (* iq->start *)
  ds_as : Z;                         (* stat.activesheps *)
  ds_dc : Z;                         (* stat.donecount *)
  ds_active : list bool;             (* qlib->shepherds[s].active *)
  ds_w : list dworker;               (* the qqloop_wrapper tasks, in fork order *)
  ds_adds : list apc;                (* calls of qt_loop_queue_addworker *)
  ds_cpc : dcpc;
  ds_claims : list (Z * Z);          (* ranges claimed, in claim order *)
  ds_exec : list (nat * (Z * Z));    (* invocations of func that have returned *)
  ds_entered : Z;
  ds_returned : Z;
  ds_signoffs : Z
}.

Inductive dev :=
| EGet (w : nat) (n : Z)      (* get_iters of worker w; n = size asked for (clamped to >= 1 and to what is left) *)
| EEnter (w : nat)
| EReturn (w : nat)
| ECheck (w : nat) (s : nat)  (* qthread_shep_ok() evaluated while running on shepherd s *)
| EDec (w : nat)
| EExit (w : nat)
| EDisable (s : nat)
| EEnable (s : nat)
| EAdd                        (* qt_loop_queue_addworker: activesheps++ *)
| EAddStep (k : nat)          (* k-th addworker call: read donecount and fork / undo *)
| ECaller.                    (* one read of the caller's wait loop *)

Definition set_w (st : dstate) (w : nat) (wk : dworker) : dstate :=
  mkDS (ds_cur st) (ds_as st) (ds_dc st) (ds_active st) (set_nth w wk (ds_w st)) (ds_adds st) (ds_cpc st)
       (ds_claims st) (ds_exec st) (ds_entered st) (ds_returned st) (ds_signoffs st).

Definition dstep (cf : dconf) (st : dstate) (e : dev) : option dstate :=
  match e with
  | EGet w n =>
      match nth_error (ds_w st) w with
      | Some (mkW DGet sf) =>
          if ds_cur st <? dc_stop cf
          then let hi := Z.min (ds_cur st + Z.max n 1) (dc_stop cf) in
               Some (mkDS hi (ds_as st) (ds_dc st) (ds_active st) (set_nth w (mkW (DFunc (ds_cur st) hi) sf) (ds_w st))
                          (ds_adds st) (ds_cpc st) (ds_claims st ++ [(ds_cur st, hi)]) (ds_exec st)
                          (ds_entered st) (ds_returned st) (ds_signoffs st))
          else Some (set_w st w (mkW DExit sf))
      | _ => None
      end
  | EEnter w =>
      match nth_error (ds_w st) w with
      | Some (mkW (DFunc lo hi) sf) =>
          Some (mkDS (ds_cur st) (ds_as st) (ds_dc st) (ds_active st) (set_nth w (mkW (DIn lo hi) sf) (ds_w st))
                     (ds_adds st) (ds_cpc st) (ds_claims st) (ds_exec st)
                     (ds_entered st + 1) (ds_returned st) (ds_signoffs st))
      | _ => None
      end
  | EReturn w =>
      match nth_error (ds_w st) w with
      | Some (mkW (DIn lo hi) sf) =>
          Some (mkDS (ds_cur st) (ds_as st) (ds_dc st) (ds_active st) (set_nth w (mkW DCheck sf) (ds_w st))
                     (ds_adds st) (ds_cpc st) (ds_claims st) (ds_exec st ++ [(w, (lo, hi))])
                     (ds_entered st) (ds_returned st + 1) (ds_signoffs st))
      | _ => None
      end
  | ECheck w s =>
      match nth_error (ds_w st) w with
      | Some (mkW DCheck sf) =>
          match nth_error (ds_active st) s with
          | Some true => Some (set_w st w (mkW DGet sf))
          | Some false => Some (set_w st w (mkW DDec false))        (* safeexit = 0 *)
          | None => None
          end
      | _ => None
      end
  | EDec w =>
      match nth_error (ds_w st) w with
      | Some (mkW DDec sf) =>
          Some (mkDS (ds_cur st) (ds_as st - 1) (ds_dc st) (ds_active st)
                     (set_nth w (mkW (if dc_brk cf then DGone else DGet) sf) (ds_w st))
                     (ds_adds st) (ds_cpc st) (ds_claims st) (ds_exec st)
                     (ds_entered st) (ds_returned st) (ds_signoffs st + 1))
      | _ => None
      end
  | EExit w =>
      match nth_error (ds_w st) w with
      | Some (mkW DExit sf) =>
          Some (mkDS (ds_cur st) (ds_as st) (if sf then ds_dc st + 1 else ds_dc st) (ds_active st)
                     (set_nth w (mkW DGone sf) (ds_w st))
                     (ds_adds st) (ds_cpc st) (ds_claims st) (ds_exec st)
                     (ds_entered st) (ds_returned st) (ds_signoffs st))
      | _ => None
      end
  | EDisable s =>
      match s with
      | O => None                                                 (* QTHREAD_NOT_ALLOWED *)
      | _ => if (s <? length (ds_active st))%nat
             then Some (mkDS (ds_cur st) (ds_as st) (ds_dc st) (set_nth s false (ds_active st)) (ds_w st)
                             (ds_adds st) (ds_cpc st) (ds_claims st) (ds_exec st)
                             (ds_entered st) (ds_returned st) (ds_signoffs st))
             else None
      end
  | EEnable s =>
      if (s <? length (ds_active st))%nat
      then Some (mkDS (ds_cur st) (ds_as st) (ds_dc st) (set_nth s true (ds_active st)) (ds_w st)
                      (ds_adds st) (ds_cpc st) (ds_claims st) (ds_exec st)
                      (ds_entered st) (ds_returned st) (ds_signoffs st))
      else None
  | EAdd =>
      match ds_cpc st with
      | DReturned => None                                         (* the handle has been freed *)
      | _ => Some (mkDS (ds_cur st) (ds_as st + 1) (ds_dc st) (ds_active st) (ds_w st)
                        (ds_adds st ++ [ARead]) (ds_cpc st) (ds_claims st) (ds_exec st)
                        (ds_entered st) (ds_returned st) (ds_signoffs st))
      end
  | EAddStep k =>
      match nth_error (ds_adds st) k with
      | Some ARead =>
          if ds_dc st =? 0
          then Some (mkDS (ds_cur st) (ds_as st) (ds_dc st) (ds_active st) (ds_w st ++ [mkW DGet true])
                          (set_nth k AFin (ds_adds st)) (ds_cpc st) (ds_claims st) (ds_exec st)
                          (ds_entered st) (ds_returned st) (ds_signoffs st))
          else Some (mkDS (ds_cur st) (ds_as st) (ds_dc st) (ds_active st) (ds_w st)
                          (set_nth k AUndo (ds_adds st)) (ds_cpc st) (ds_claims st) (ds_exec st)
                          (ds_entered st) (ds_returned st) (ds_signoffs st))
      | Some AUndo =>
          Some (mkDS (ds_cur st) (ds_as st - 1) (ds_dc st) (ds_active st) (ds_w st)
                     (set_nth k AFin (ds_adds st)) (ds_cpc st) (ds_claims st) (ds_exec st)
                     (ds_entered st) (ds_returned st) (ds_signoffs st))
      | _ => None
      end
  | ECaller =>
      let setc := fun c => Some (mkDS (ds_cur st) (ds_as st) (ds_dc st) (ds_active st) (ds_w st) (ds_adds st) c
                                      (ds_claims st) (ds_exec st) (ds_entered st) (ds_returned st) (ds_signoffs st)) in
      match ds_cpc st with
      | DRead1 => setc (DRead2 (if dc_asfirst cf then ds_as st else ds_dc st))
      | DRead2 v =>
          let d := if dc_asfirst cf then ds_dc st else v in
          let a := if dc_asfirst cf then v else ds_as st in
          if d <? a then setc DRead1 (* qthread_yield(); test again *) else setc DReturned
      | DReturned => None
      end
  end.

(* a schedule is a list of events; an event that is not enabled is skipped *)
Fixpoint drun (cf : dconf) (st : dstate) (sched : list dev) : dstate :=
  match sched with
  | [] => st
  | e :: r => match dstep cf st e with Some st' => drun cf st' r | None => drun cf st r end
  end.

(* acceptor: every event must be enabled; returns the state and the index of the first refused event *)
Fixpoint daccept (cf : dconf) (st : dstate) (sched : list dev) (k : nat) : dstate * option nat :=
  match sched with
  | [] => (st, None)
  | e :: r => match dstep cf st e with Some st' => daccept cf st' r (S k) | None => (st, Some k) end
  end.

(* qt_loop_queue_run with nw wrappers on nsheps shepherds (run_there = one wrapper): activesheps = nw, all enabled *)
Definition dinit (start : Z) (nw nsheps : nat) : dstate :=
  mkDS start (Z.of_nat nw) 0 (repeat true nsheps) (repeat (mkW DGet true) nw) [] DRead1 [] [] 0 0 0.

Definition is_ret (st : dstate) : bool := match ds_cpc st with DReturned => true | _ => false end.
Definition w_live (wk : dworker) : bool := match w_pc wk with DGone => false | _ => true end.
Definition w_in (wk : dworker) : bool := match w_pc wk with DIn _ _ => true | _ => false end.
Definition w_done_safe (wk : dworker) : bool := match w_pc wk with DGone => w_safe wk | _ => false end.
Definition w_signed_off (wk : dworker) : bool := match w_pc wk with DGone => negb (w_safe wk) | _ => false end.
Definition a_pend (a : apc) : bool := match a with AFin => false | _ => true end.
Definition cnt {A : Type} (f : A -> bool) (l : list A) : Z := Z.of_nat (length (filter f l)).
