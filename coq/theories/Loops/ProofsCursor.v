(** C12 — the queue-loop cursors: for every schedule of single shared accesses the ranges handed to the user
    function tile [start, min(cursor, stop)); when every worker has received "no more" they tile [start, stop). *)
From Coq Require Import List ZArith Bool Lia.
From Coq Require Import ZifyBool.
From QV Require Import Loops.Model Loops.Proofs.
Import ListNotations.
Local Open Scope Z_scope.

Lemma quot_bounds : forall a b, 0 < b -> (0 <= a -> 0 <= Z.quot a b <= a) /\ (a <= 0 -> a <= Z.quot a b <= 0).
Proof.
  intros a b Hb. split; intro Ha.
  - rewrite Z.quot_div_nonneg by lia. split.
    + apply Z.div_pos; lia.
    + apply Z.div_le_upper_bound; [lia|]. nia.
  - replace a with (- (- a)) by lia. rewrite Z.quot_opp_l by lia.
    rewrite Z.quot_div_nonneg by lia.
    assert (0 <= (- a) / b) by (apply Z.div_pos; lia).
    assert ((- a) / b <= - a) by (apply Z.div_le_upper_bound; [lia|]; nia).
    lia.
Qed.

Lemma quot2_mid : forall s r, r < s -> r <= Z.quot (s + r) 2 <= s.
Proof.
  intros s r H.
  destruct (Z_le_gt_dec 0 (s + r)).
  - rewrite Z.quot_div_nonneg by lia. pose proof (Z.div_mod (s + r) 2 ltac:(lia)).
    pose proof (Z.mod_pos_bound (s + r) 2 ltac:(lia)). lia.
  - replace (s + r) with (- (- (s + r))) by lia. rewrite Z.quot_opp_l by lia.
    rewrite Z.quot_div_nonneg by lia.
    pose proof (Z.div_mod (- (s + r)) 2 ltac:(lia)).
    pose proof (Z.mod_pos_bound (- (s + r)) 2 ltac:(lia)). lia.
Qed.

Section Cursor.
  Variable p : params.
  Variable start0 : Z.
  Hypothesis Hsheps : 1 <= p_sheps p.
  Hypothesis Hchunk : 1 <= p_chunk p.
  Hypothesis Hstep : p_fl p = TIMED -> 1 <= p_step p.
  Hypothesis Hstart : start0 <= p_stop p.

  Let stop := p_stop p.

  (** what is known about a thread's locals at each program point *)
  Definition pcinv (cur : Z) (first : bool) (c : pc) : Prop :=
    match c with
    | Done => stop <= cur
    | G_cas ret it => (ret < stop -> 1 <= it /\ ret + it <= stop) /\ (stop <= ret -> stop <= ret + it /\ stop <= cur)
    | NW_read => p_nw p = 1 /\ cur < stop
    | NW_write lo => p_nw p = 1 /\ lo = cur /\ lo < stop
    | F_phase ret => (stop <= ret -> stop <= cur) /\ (p_nw p = 1 -> ret = cur)
    | F_read1 ph => ph <= stop
    | F_casph ret ph => ph <= stop /\ ret < stop
    | F_cas ret ph it => ph <= stop /\ 1 <= it /\ (ret < stop -> ret + it <= stop) /\ (stop <= ret -> stop <= cur)
    | T_lb => first = false /\ p_fl p = TIMED
    | T_start db _ => 1 <= db /\ p_fl p = TIMED
    | T_cas ls db _ => ls < stop /\ 1 <= db /\ ls + db <= stop /\ p_fl p = TIMED
    | _ => True
    end.

  Definition tinv (cur : Z) (lb : Z -> Z) (t : thread) : Prop :=
    (t_first t = false -> 1 <= lb (t_shep t)) /\ pcinv cur (t_first t) (t_pc t).

  Record Inv (s : state) : Prop := {
    inv_tiling : tiling (map snd (s_out s)) start0 (Z.min (s_cur s) stop);
    inv_phase : s_phase s <= stop;
    inv_thr : Forall (tinv (s_cur s) (s_lb s)) (s_thr s);
    inv_single : p_nw p = 1 -> (length (s_thr s) <= 1)%nat
  }.

  (* ---------------- arithmetic of the block sizes ---------------- *)
  Lemma guided_it_lt : forall ret, ret < stop -> 1 <= guided_it p ret /\ ret + guided_it p ret <= stop.
  Proof.
    intros ret H. unfold guided_it, it_of. fold stop.
    destruct (quot_bounds (stop - ret) (p_sheps p) ltac:(lia)) as [Hq _]. specialize (Hq ltac:(lia)).
    destruct (Z.quot (stop - ret) (p_sheps p) =? 0) eqn:E; lia.
  Qed.

  Lemma guided_it_ge : forall ret, stop <= ret -> stop <= ret + guided_it p ret.
  Proof.
    intros ret H. unfold guided_it, it_of. fold stop.
    destruct (quot_bounds (stop - ret) (p_sheps p) ltac:(lia)) as [_ Hq]. specialize (Hq ltac:(lia)).
    destruct (Z.quot (stop - ret) (p_sheps p) =? 0) eqn:E; lia.
  Qed.

  Lemma fact_it_ok : forall ph, ph <= stop -> 1 <= fact_it p ph /\ (forall ret, ret < ph -> ret + fact_it p ph <= stop).
  Proof.
    intros ph H. unfold fact_it, it_of. fold stop.
    destruct (quot_bounds (stop - ph) (p_sheps p) ltac:(lia)) as [Hq _]. specialize (Hq ltac:(lia)).
    destruct (Z.quot (stop - ph) (p_sheps p) =? 0) eqn:E; split; intros; lia.
  Qed.

  Lemma fact_target_le : forall ret ph, ret < stop -> fact_target p ret ph <= stop.
  Proof.
    intros ret ph H. unfold fact_target. fold stop.
    pose proof (quot2_mid stop ret H) as Hm.
    set (np := Z.quot (stop + ret) 2) in *.
    destruct (quot_bounds (stop - np) (p_sheps p) ltac:(lia)) as [Hq _]. specialize (Hq ltac:(lia)).
    set (cs := Z.quot (stop - np) (p_sheps p)) in *.
    assert (cs * p_sheps p <= stop - np).
    { unfold cs. rewrite Z.quot_div_nonneg by lia. rewrite Z.mul_comm. apply Z.mul_div_le. lia. }
    destruct (ret + cs * p_sheps p =? ph); lia.
  Qed.

  Lemma timed_block_ok : forall ls db sl, p_fl p = TIMED -> ls < stop -> 1 <= db ->
    1 <= timed_block p ls db sl /\ ls + timed_block p ls db sl <= stop.
  Proof.
    intros ls db sl Hfl H Hdb. unfold timed_block. fold stop.
    specialize (Hstep Hfl).
    assert (Hd : 0 < p_sheps p * 2 * p_step p) by nia.
    destruct (quot_bounds (stop - ls) (p_sheps p * 2 * p_step p) Hd) as [Hq _]. specialize (Hq ltac:(lia)).
    destruct sl.
    - destruct (stop <? ls + (Z.quot (stop - ls) (p_sheps p * 2 * p_step p) + 1)) eqn:E; lia.
    - destruct (stop <? ls + db) eqn:E; lia.
  Qed.

  Lemma fact_inner_inv : forall cur first ret ph, ph <= stop -> (stop <= ret -> stop <= cur) ->
    pcinv cur first (fact_inner p ret ph).
  Proof.
    intros cur first ret ph Hph Hret. unfold fact_inner. fold stop.
    destruct (fact_it_ok ph Hph) as [H1 H2].
    destruct ((ph <=? ret) && (ret <? stop)) eqn:E; cbn [pcinv].
    - lia.
    - repeat split; try lia. intro. apply H2. lia.
  Qed.

  Lemma entry_pcinv : forall cur f, pcinv cur f (entry p f).
  Proof.
    intros cur f. unfold entry. destruct (p_fl p) eqn:Efl; cbn [pcinv]; auto. destruct f; cbn [pcinv]; auto. split; [lia|auto].
  Qed.

  Lemma entry_inv : forall cur lb f sh, (f = false -> 1 <= lb sh) -> tinv cur lb (mkT (entry p f) f sh).
  Proof.
    intros cur lb f sh H. split; cbn [t_first t_shep t_pc]; [exact H|].
    unfold entry. destruct (p_fl p) eqn:Efl; cbn [pcinv]; auto. destruct f; cbn [pcinv]; auto. split; [lia|auto].
  Qed.

  (* ---------------- one step of one thread ---------------- *)
  Definition post (cur : Z) (lb : Z -> Z) (t : thread) (e : eff) : Prop :=
    e_phase e <= stop /\
    (forall k, 1 <= lb k -> 1 <= e_lb e k) /\
    tinv (e_cur e) (e_lb e) (mkT (e_pc e) (e_first e) (t_shep t)) /\
    match e_claim e with
    | None => Z.min (e_cur e) stop = Z.min cur stop
    | Some (lo, hi) => lo = cur /\ cur < stop /\ lo < hi /\ hi = Z.min (e_cur e) stop
    end.

  Ltac fin := cbn [e_phase e_lb e_cur e_pc e_first e_claim t_first t_shep t_pc pcinv] in *; repeat split; intros; auto; try lia.

  Lemma upd_ge : forall lb k v x, 1 <= v -> 1 <= lb x -> 1 <= upd lb k v x.
  Proof. intros. unfold upd. destruct (x =? k); lia. Qed.

  Lemma tstep_post : forall slow cur ph lb t e,
    tstep p slow cur ph lb t = Some e -> ph <= stop -> tinv cur lb t -> post cur lb t e.
  Proof.
    intros slow cur ph lb [c first sh] e Hs Hph [Hlb Hpc].
    cbn [t_first t_shep t_pc] in *.
    unfold tstep in Hs. cbn [t_first t_shep t_pc] in Hs. fold stop in Hs.
    unfold post, tinv.
    destruct c; cbn [pcinv] in Hpc.
    - discriminate.
    - (* C_read *) inversion Hs; subst e; clear Hs. destruct (cur <? stop) eqn:E; fin.
    - (* C_faa *)
      destruct (cur <? stop) eqn:E; inversion Hs; subst e; clear Hs.
      + cbn [e_phase e_lb e_cur e_pc e_first e_claim t_first t_shep t_pc].
        repeat split; auto; try apply entry_pcinv; auto; try lia.
        destruct (stop <? cur + p_chunk p) eqn:E2; lia.
        destruct (stop <? cur + p_chunk p) eqn:E2; lia.
      + fin.
    - (* G_read0 *)
      destruct (p_nw p =? 1) eqn:En; inversion Hs; subst e; clear Hs; destruct (cur <? stop) eqn:E; fin.
    - (* G_read1 *)
      inversion Hs; subst e; clear Hs. fin.
      + apply guided_it_lt; auto.
      + apply guided_it_lt; auto.
      + apply guided_it_ge; auto.
    - (* G_cas *)
      destruct Hpc as [H1 H2].
      destruct (cur =? ret) eqn:Ec.
      + assert (cur = ret) by lia. subst cur.
        destruct (ret <? stop) eqn:E; inversion Hs; subst e; clear Hs.
        * specialize (H1 ltac:(lia)).
          cbn [e_phase e_lb e_cur e_pc e_first e_claim t_first t_shep t_pc].
          repeat split; auto; try apply entry_pcinv; auto; try lia.
        * specialize (H2 ltac:(lia)). fin.
      + inversion Hs; subst e; clear Hs. destruct (ret <? stop) eqn:E; fin.
    - (* NW_read *) inversion Hs; subst e; clear Hs. fin.
    - (* NW_write *)
      inversion Hs; subst e; clear Hs. destruct Hpc as (Hn & -> & Hlt).
      cbn [e_phase e_lb e_cur e_pc e_first e_claim t_first t_shep t_pc].
      repeat split; auto; try apply entry_pcinv; auto; try lia.
    - (* F_read0 *) inversion Hs; subst e; clear Hs. fin.
    - (* F_phase *)
      destruct Hpc as [H1 H2].
      destruct (p_nw p =? 1) eqn:En; inversion Hs; subst e; clear Hs; destruct (ret <? stop) eqn:E; fin.
    - (* F_read1 *)
      inversion Hs; subst e; clear Hs.
      cbn [e_phase e_lb e_cur e_pc e_first e_claim t_first t_shep t_pc].
      repeat split; auto. apply fact_inner_inv; auto.
    - (* F_casph *)
      inversion Hs; subst e; clear Hs. destruct Hpc as [H1 H2].
      cbn [e_phase e_lb e_cur e_pc e_first e_claim t_first t_shep t_pc].
      repeat split; auto.
      + destruct (ph =? ph0); auto. apply fact_target_le; auto.
      + apply fact_inner_inv; auto. lia.
    - (* F_cas *)
      destruct Hpc as (H0 & H1 & H2 & H3).
      destruct (cur =? ret) eqn:Ec.
      + assert (cur = ret) by lia. subst cur.
        destruct (ret <? stop) eqn:E; inversion Hs; subst e; clear Hs.
        * specialize (H2 ltac:(lia)).
          cbn [e_phase e_lb e_cur e_pc e_first e_claim t_first t_shep t_pc].
          repeat split; auto; try apply entry_pcinv; auto; try lia.
        * fin.
      + inversion Hs; subst e; clear Hs. destruct (ret <? stop) eqn:E; fin.
    - (* T_lb *) inversion Hs; subst e; clear Hs. destruct Hpc as [Hf Hfl]. fin.
    - (* T_start *)
      inversion Hs; subst e; clear Hs. destruct Hpc as [Hdb Hfl].
      destruct (cur <? stop) eqn:E; fin; apply timed_block_ok; auto; lia.
    - (* T_cas *)
      destruct Hpc as (H1 & H2 & H3 & Hfl).
      destruct (cur =? ls) eqn:Ec.
      + assert (cur = ls) by lia. subst cur.
        replace ((ls <? stop) && (0 <? db)) with true in Hs by lia.
        inversion Hs; subst e; clear Hs.
        assert (Hst : (p_step p =? 0) = false) by (specialize (Hstep Hfl); lia).
        cbn [e_phase e_lb e_cur e_pc e_first e_claim t_first t_shep t_pc].
        repeat split; auto; try lia.
        * intros k Hk. apply upd_ge; auto.
        * intros _. unfold upd. rewrite Z.eqb_refl. lia.
        * rewrite Hst. apply entry_pcinv.
      + inversion Hs; subst e; clear Hs.
        destruct (cur <? stop) eqn:E; fin; apply timed_block_ok; auto; lia.
  Qed.

  (* ---------------- the global invariant ---------------- *)
  Lemma tinv_stable : forall cur lb cur' lb' t, p_nw p <> 1 -> tinv cur lb t ->
    (stop <= cur -> stop <= cur') -> (forall k, 1 <= lb k -> 1 <= lb' k) -> tinv cur' lb' t.
  Proof.
    intros cur lb cur' lb' [c f sh] Hn [Hl Hp] Hc Hb. split; cbn [t_first t_shep t_pc] in *.
    - intro Hf. apply Hb. auto.
    - destruct c; cbn [pcinv] in *; intuition lia.
  Qed.

  Lemma Forall_set_nth : forall (A : Type) (P : A -> Prop) n x l, Forall P l -> P x -> Forall P (set_nth n x l).
  Proof.
    intros A P n x l H Hx. revert n. induction H; intro n; destruct n; cbn [set_nth]; constructor; auto.
  Qed.

  Lemma set_nth_length : forall (A : Type) n (x : A) l, length (set_nth n x l) = length l.
  Proof. intros A n x l. revert n. induction l; intro n; destruct n; cbn [set_nth length]; auto. Qed.

  Lemma step_length : forall s tid slow s', step p s tid slow = Some s' -> length (s_thr s') = length (s_thr s).
  Proof.
    intros s tid slow s' H. unfold step in H.
    destruct (nth_error (s_thr s) tid); [|discriminate].
    destruct (tstep p slow (s_cur s) (s_phase s) (s_lb s) t); [|discriminate].
    inversion H; subst s'; cbn [s_thr]. apply set_nth_length.
  Qed.

  Lemma step_inv : forall s tid slow s', step p s tid slow = Some s' -> Inv s -> Inv s'.
  Proof.
    intros s tid slow s' H [Ht Hph Hthr Hsingle]. unfold step in H.
    destruct (nth_error (s_thr s) tid) as [t|] eqn:Hn; [|discriminate].
    destruct (tstep p slow (s_cur s) (s_phase s) (s_lb s) t) as [e|] eqn:Hts; [|discriminate].
    assert (Hti : tinv (s_cur s) (s_lb s) t).
    { rewrite Forall_forall in Hthr. apply Hthr. eapply nth_error_In; eauto. }
    destruct (tstep_post _ _ _ _ _ _ Hts Hph Hti) as (P1 & P2 & P3 & P4).
    assert (Hmono : stop <= s_cur s -> stop <= e_cur e).
    { destruct (e_claim e) as [[lo hi]|]; lia. }
    inversion H; subst s'; clear H. constructor; cbn [s_cur s_phase s_lb s_out s_thr].
    - destruct (e_claim e) as [[lo hi]|].
      + destruct P4 as (-> & Hlt & Hlh & ->).
        rewrite map_app. cbn [map snd]. apply tiling_snoc; [|lia].
        assert (Hmin : Z.min (s_cur s) stop = s_cur s) by lia. rewrite Hmin in Ht. exact Ht.
      + rewrite P4. exact Ht.
    - exact P1.
    - destruct (Z.eq_dec (p_nw p) 1) as [E1|E1].
      + specialize (Hsingle E1).
        destruct (s_thr s) as [|t0 [|t1 r]]; cbn [length] in Hsingle; try lia.
        * destruct tid; discriminate.
        * destruct tid as [|tid]; cbn [nth_error] in Hn.
          -- cbn [set_nth]. constructor; [exact P3 | constructor].
          -- destruct tid; discriminate.
      + apply Forall_set_nth; [|exact P3].
        eapply Forall_impl; [|exact Hthr]. intros a Ha. eapply tinv_stable; eauto.
    - intro E1. rewrite set_nth_length. auto.
  Qed.

  Lemma run_inv : forall sched s, Inv s -> Inv (run p s sched).
  Proof.
    induction sched as [|[tid o] r IH]; intros s H; cbn [run]; auto.
    destruct (step p s tid o) eqn:E; auto. apply IH. eapply step_inv; eauto.
  Qed.

  Lemma run_length : forall sched s, length (s_thr (run p s sched)) = length (s_thr s).
  Proof.
    induction sched as [|[tid o] r IH]; intros s; cbn [run]; auto.
    destruct (step p s tid o) eqn:E; auto. rewrite IH. eapply step_length; eauto.
  Qed.

  Lemma init_inv : forall sheps lb0, (p_nw p = 1 -> (length sheps <= 1)%nat) -> Inv (init p start0 sheps lb0).
  Proof.
    intros sheps lb0 Hs. unfold init. constructor; cbn [s_cur s_phase s_lb s_out s_thr map].
    - replace (Z.min start0 stop) with start0 by lia. constructor.
    - fold stop. apply Z.div_le_upper_bound; lia.
    - rewrite Forall_forall. intros t Hin. rewrite in_map_iff in Hin. destruct Hin as (sh & <- & _).
      apply entry_inv. discriminate.
    - rewrite map_length. exact Hs.
  Qed.

  (** claims_tile for every flavour: after any schedule, the ranges handed out so far are non-empty and every index of
      [start, min(cursor, stop)) is in exactly one of them, no other index in any; once every worker has been told
      "no more" this is [start, stop). *)
  Theorem claims_tile_all : forall sheps lb0 sched, (p_nw p = 1 -> (length sheps <= 1)%nat) ->
    let s := run p (init p start0 sheps lb0) sched in
    Forall (fun r => fst r < snd r) (map snd (s_out s)) /\
    (forall x, cover_count x (map snd (s_out s)) =
               if (start0 <=? x) && (x <? Z.min (s_cur s) (p_stop p)) then 1%nat else 0%nat) /\
    (sheps <> [] -> all_done s = true ->
     forall x, cover_count x (map snd (s_out s)) = if (start0 <=? x) && (x <? p_stop p) then 1%nat else 0%nat).
  Proof.
    intros sheps lb0 sched Hs s.
    assert (HI : Inv s) by (apply run_inv; apply init_inv; exact Hs).
    destruct HI as [Ht Hph Hthr Hsingle].
    split; [|split].
    - eapply tiling_nonempty; eauto.
    - intro x. apply (tiling_count _ _ _ Ht).
    - intros Hne Hdone x.
      assert (Hlen : length (s_thr s) = length sheps).
      { unfold s. rewrite run_length. unfold init; cbn [s_thr]. apply map_length. }
      assert (Hcur : stop <= s_cur s).
      { destruct (s_thr s) as [|t r] eqn:Ethr.
        - destruct sheps; [congruence | discriminate].
        - unfold all_done in Hdone. rewrite Ethr in Hdone. cbn [forallb] in Hdone.
          apply andb_prop in Hdone. destruct Hdone as [Hd _].
          inversion Hthr as [|t' r' [_ Hpc] _]; subst.
          destruct (t_pc t); try discriminate. exact Hpc. }
      rewrite (tiling_count _ _ _ Ht x). replace (Z.min (s_cur s) stop) with stop by lia. reflexivity.
  Qed.
End Cursor.

(* ------------------------------------------------------------------ *)
(** the replay granularity of the correspondence (one interposed access per grant) is a schedule of micro-steps,
    so the theorems above cover every granted schedule *)
Lemma run_plain_is_run : forall p fuel s tid slow, exists sched, run_plain p fuel s tid slow = run p s sched.
Proof.
  induction fuel; intros s tid slow; cbn [run_plain].
  - exists []. reflexivity.
  - destruct (pc_of s tid); cbn [is_atomic]; try (exists []; reflexivity);
      (destruct (step p s tid slow) as [s'|] eqn:E; [|exists []; reflexivity]);
      destruct (IHfuel s' tid slow) as [sc Hsc]; exists ((tid, slow) :: sc); cbn [run]; rewrite E; exact Hsc.
Qed.

Lemma grant_is_run_proof : forall p s tid slow, exists sched, grant p s tid slow = run p s sched.
Proof.
  intros p s tid slow. unfold grant.
  destruct (is_atomic (pc_of s tid)).
  - destruct (step p s tid slow) as [s'|] eqn:E.
    + destruct (run_plain_is_run p 32 s' tid slow) as [sc Hsc].
      exists ((tid, slow) :: sc). cbn [run]. rewrite E. exact Hsc.
    + apply run_plain_is_run.
  - apply run_plain_is_run.
Qed.

(* ------------------------------------------------------------------ *)
(** non-vacuity: the hypotheses are satisfiable by non-trivial reachable states *)
Example split_example : split 3 13 4 = [(3, 6); (6, 9); (9, 11); (11, 13)].
Proof. vm_compute. reflexivity. Qed.

Example tree_example : map fst (tree 6) = [0; 1; 3; 5; 2; 4].
Proof. vm_compute. reflexivity. Qed.

(* FACTORED, 3 workers, a contended schedule (every CAS of thread 1 and 2 fails at least once): all done, 3 threads claimed *)
Example factored_example :
  let p := mkP FACTORED 37 3 3 1 1 in
  let sched := flat_map (fun _ => [(0%nat, false); (1%nat, false); (2%nat, false)]) (seq 0 200) in
  let s := run p (init p 0 [0; 1; 0] (-7)) sched in
  all_done s = true /\ length (s_out s) = 14%nat /\ length (filter (fun c => Nat.eqb (fst c) 2) (s_out s)) = 4%nat.
Proof. vm_compute. repeat split. Qed.

Example timed_example :
  let p := mkP TIMED 50 2 2 1 2 in
  let sched := flat_map (fun k => [(0%nat, Nat.even k); (1%nat, Nat.odd k)]) (seq 0 100) in
  let s := run p (init p 5 [0; 1] (-7)) sched in
  all_done s = true /\ length (s_out s) = 16%nat.
Proof. vm_compute. repeat split. Qed.
