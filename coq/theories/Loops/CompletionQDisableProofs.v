(** C12 extension O — proofs about the queue-loop completion protocol with shepherd disable / enable / addworker
    (Loops/CompletionQDisable.v): invariants by induction over the schedule, for every schedule. *)
From Coq Require Import List ZArith Bool Lia Permutation.
From Coq Require Import ZifyBool.
From QV Require Import Loops.Model Loops.Proofs Loops.ProofsCompletionQ Loops.CompletionQDisable.
Import ListNotations.
Local Open Scope Z_scope.

Definition b2z (b : bool) : Z := if b then 1 else 0.

Lemma cnt_nonneg : forall (A : Type) (f : A -> bool) l, 0 <= cnt f l.
Proof. intros. unfold cnt. lia. Qed.

Lemma cnt_cons : forall (A : Type) (f : A -> bool) x l, cnt f (x :: l) = b2z (f x) + cnt f l.
Proof. intros. unfold cnt, b2z. cbn [filter]. destruct (f x); cbn [length]; lia. Qed.

Lemma cnt_nil : forall (A : Type) (f : A -> bool), cnt f [] = 0.
Proof. reflexivity. Qed.

Lemma cnt_app1 : forall (A : Type) (f : A -> bool) l x, cnt f (l ++ [x]) = cnt f l + b2z (f x).
Proof.
  intros A f l x. induction l as [|a l IH]; cbn [app].
  - rewrite cnt_cons, !cnt_nil. lia.
  - rewrite !cnt_cons, IH. lia.
Qed.

Lemma cnt_set_nth : forall (A : Type) (f : A -> bool) l i (o n : A), nth_error l i = Some o ->
  cnt f (set_nth i n l) = cnt f l - b2z (f o) + b2z (f n).
Proof.
  intros A f l. induction l as [|a l IH]; intros i o n H; destruct i; cbn [nth_error] in H; try discriminate.
  - inversion H; subst a. cbn [set_nth]. rewrite !cnt_cons. lia.
  - cbn [set_nth]. rewrite !cnt_cons, (IH _ _ n H). lia.
Qed.

Lemma cnt_ge1 : forall (A : Type) (f : A -> bool) l i (o : A), nth_error l i = Some o -> f o = true -> 1 <= cnt f l.
Proof.
  intros A f l. induction l as [|a l IH]; intros i o H Hf; destruct i; cbn [nth_error] in H; try discriminate.
  - inversion H; subst a. rewrite cnt_cons, Hf. pose proof (cnt_nonneg _ f l). cbn [b2z]. lia.
  - rewrite cnt_cons. specialize (IH _ _ H Hf). unfold b2z. destruct (f a); lia.
Qed.

Lemma cnt_zero : forall (A : Type) (f : A -> bool) l, cnt f l = 0 -> forall x, In x l -> f x = false.
Proof.
  intros A f l. induction l as [|a l IH]; intros H x Hin; [destruct Hin|].
  rewrite cnt_cons in H. pose proof (cnt_nonneg _ f l). unfold b2z in H.
  destruct Hin as [<-|Hin].
  - destruct (f a); [lia|reflexivity].
  - apply IH; auto. destruct (f a); lia.
Qed.

Lemma cnt_repeat : forall (A : Type) (f : A -> bool) x n, cnt f (repeat x n) = Z.of_nat n * b2z (f x).
Proof.
  intros. induction n as [|n IH]; [reflexivity|]. cbn [repeat]. rewrite cnt_cons, IH. lia.
Qed.

Lemma cnt_le_impl : forall (A : Type) (f g : A -> bool) l, (forall x, f x = true -> g x = true) -> cnt f l <= cnt g l.
Proof.
  intros A f g l H. induction l as [|a l IH]; [reflexivity|]. rewrite !cnt_cons. unfold b2z.
  specialize (H a). destruct (f a), (g a); try lia; specialize (H eq_refl); discriminate.
Qed.

Lemma Forall_set_nth : forall (A : Type) (P : A -> Prop) l i n, Forall P l -> P n -> Forall P (set_nth i n l).
Proof.
  intros A P l. induction l as [|a l IH]; intros i n H Hn; destruct i; cbn [set_nth]; auto.
  - inversion H; subst. constructor; auto.
  - inversion H; subst. constructor; auto.
Qed.

Lemma Forall_nth_error : forall (A : Type) (P : A -> Prop) l i x, Forall P l -> nth_error l i = Some x -> P x.
Proof. intros A P l i x H Hn. rewrite Forall_forall in H. apply H. eapply nth_error_In; eauto. Qed.

Definition wpend (wk : dworker) : list (Z * Z) :=
  match w_pc wk with DFunc lo hi => [(lo, hi)] | DIn lo hi => [(lo, hi)] | _ => [] end.
Definition pendw (l : list dworker) : list (Z * Z) := flat_map wpend l.

Lemma pendw_set_nth : forall l i o n, nth_error l i = Some o ->
  Permutation (pendw (set_nth i n l) ++ wpend o) (pendw l ++ wpend n).
Proof.
  induction l as [|a l IH]; intros i o n H; destruct i; cbn [nth_error] in H; try discriminate.
  - inversion H; subst a. cbn [set_nth pendw flat_map]. fold (pendw l).
    eapply Permutation_trans; [apply Permutation_app_comm|]. rewrite <- app_assoc.
    apply Permutation_app_head. apply Permutation_app_comm.
  - cbn [set_nth pendw flat_map]. fold (pendw l). fold (pendw (set_nth i n l)).
    rewrite <- !app_assoc. apply Permutation_app_head. apply IH. exact H.
Qed.

Lemma pendw_app1 : forall l x, pendw (l ++ [x]) = pendw l ++ wpend x.
Proof. intros. unfold pendw. rewrite flat_map_app. cbn [flat_map]. rewrite app_nil_r. reflexivity. Qed.

Lemma pendw_gone : forall l, cnt w_live l = 0 -> pendw l = [].
Proof.
  induction l as [|a l IH]; intro H; [reflexivity|].
  rewrite cnt_cons in H. pose proof (cnt_nonneg _ w_live l). cbn [pendw flat_map]. fold (pendw l).
  unfold b2z in H. destruct (w_live a) eqn:E; [lia|]. rewrite IH by lia.
  unfold w_live in E. unfold wpend. destruct (w_pc a); try discriminate. reflexivity.
Qed.

Definition w_bad (wk : dworker) : bool :=
  match w_pc wk with DDec => w_safe wk | DGone => false | _ => negb (w_safe wk) end.

Section Disable.
  Variable cf : dconf.
  Variable start : Z.
  Hypothesis Hbrk : dc_brk cf = true.
  Hypothesis Hstart : start <= dc_stop cf.

  (** counters *)
  Record Inv1 (st : dstate) : Prop := {
    i1_as : ds_as st = ds_dc st + cnt w_live (ds_w st) + cnt a_pend (ds_adds st);
    i1_dc : ds_dc st = cnt w_done_safe (ds_w st);
    i1_so : ds_signoffs st = cnt w_signed_off (ds_w st);
    i1_bad : cnt w_bad (ds_w st) = 0;
    i1_io : ds_entered st = ds_returned st + cnt w_in (ds_w st);
    i1_caller : match ds_cpc st with
                | DRead1 => True
                | DRead2 v => if dc_asfirst cf then ds_as st <= v else v <= ds_dc st
                | DReturned => cnt w_live (ds_w st) = 0 /\ cnt a_pend (ds_adds st) = 0
                end
  }.

  Ltac wcase H Ew :=
    match type of H with
    | context [nth_error (ds_w ?st) ?w] =>
        destruct (nth_error (ds_w st) w) as [[pc sf]|] eqn:Ew; [|discriminate]; destruct pc; try discriminate
    end.

  Ltac facts Ew :=
    match type of Ew with
    | nth_error ?l ?w = Some ?o =>
        pose proof (cnt_ge1 _ w_live _ _ _ Ew eq_refl) as Hge;
        pose proof (fun n => cnt_set_nth _ w_live _ _ _ n Ew) as Hlive;
        pose proof (fun n => cnt_set_nth _ w_done_safe _ _ _ n Ew) as Hds;
        pose proof (fun n => cnt_set_nth _ w_signed_off _ _ _ n Ew) as Hso;
        pose proof (fun n => cnt_set_nth _ w_bad _ _ _ n Ew) as Hbad;
        pose proof (fun n => cnt_set_nth _ w_in _ _ _ n Ew) as Hin
    end.

  Lemma bad_zero_safe : forall l i pc sf, cnt w_bad l = 0 -> nth_error l i = Some (mkW pc sf) ->
    match pc with DDec => sf = false | DGone => True | _ => sf = true end.
  Proof.
    intros l i pc sf H Hn. pose proof (cnt_zero _ _ _ H _ (nth_error_In _ _ Hn)) as Hb.
    unfold w_bad in Hb. cbn [w_safe w_pc] in Hb. destruct pc, sf; cbn in Hb; auto; discriminate.
  Qed.

  Ltac fin st :=
    constructor; unfold set_w; cbn [ds_as ds_dc ds_w ds_adds ds_cpc ds_signoffs ds_entered ds_returned];
    repeat match goal with Hx : forall n, cnt _ (set_nth _ n _) = _ |- _ => rewrite Hx end; cbn; try lia;
    destruct (ds_cpc st); try destruct (dc_asfirst cf); cbn in *; lia.

  Lemma dstep_inv1 : forall st e st', dstep cf st e = Some st' ->
    (dc_asfirst cf = true -> e <> EAdd) -> Inv1 st -> Inv1 st'.
  Proof.
    intros st e st' H Hadd [A D So B IO C]. destruct e; cbn [dstep] in H.
    - (* EGet *) wcase H Ew. facts Ew. pose proof (bad_zero_safe _ _ _ _ B Ew) as Hsf. cbn beta iota in Hsf. subst sf.
      destruct (ds_cur st <? dc_stop cf); inversion H; subst st'; clear H; fin st.
    - (* EEnter *) wcase H Ew. facts Ew. pose proof (bad_zero_safe _ _ _ _ B Ew) as Hsf. cbn beta iota in Hsf. subst sf.
      inversion H; subst st'; clear H; fin st.
    - (* EReturn *) wcase H Ew. facts Ew. pose proof (bad_zero_safe _ _ _ _ B Ew) as Hsf. cbn beta iota in Hsf. subst sf.
      inversion H; subst st'; clear H; fin st.
    - (* ECheck *) wcase H Ew. facts Ew. pose proof (bad_zero_safe _ _ _ _ B Ew) as Hsf. cbn beta iota in Hsf. subst sf.
      destruct (nth_error (ds_active st) s) as [[|]|]; inversion H; subst st'; clear H; fin st.
    - (* EDec *) wcase H Ew. facts Ew. pose proof (bad_zero_safe _ _ _ _ B Ew) as Hsf. cbn beta iota in Hsf. subst sf.
      rewrite Hbrk in H. inversion H; subst st'; clear H; fin st.
    - (* EExit *) wcase H Ew. facts Ew. pose proof (bad_zero_safe _ _ _ _ B Ew) as Hsf. cbn beta iota in Hsf. subst sf.
      inversion H; subst st'; clear H; fin st.
    - (* EDisable *) destruct s; [discriminate|]. destruct (S s <? length (ds_active st))%nat; inversion H; subst st'; clear H.
      constructor; cbn [ds_as ds_dc ds_w ds_adds ds_cpc ds_signoffs ds_entered ds_returned]; auto.
    - (* EEnable *) destruct (s <? length (ds_active st))%nat; inversion H; subst st'; clear H.
      constructor; cbn [ds_as ds_dc ds_w ds_adds ds_cpc ds_signoffs ds_entered ds_returned]; auto.
    - (* EAdd *)
      destruct (ds_cpc st) eqn:Ec; inversion H; subst st'; clear H;
        constructor; cbn [ds_as ds_dc ds_w ds_adds ds_cpc ds_signoffs ds_entered ds_returned]; auto;
        rewrite ?cnt_app1; cbn; try lia; rewrite ?Ec; auto.
      destruct (dc_asfirst cf) eqn:Ea; [exfalso; apply Hadd; auto | exact C].
    - (* EAddStep *)
      destruct (nth_error (ds_adds st) k) as [[| |]|] eqn:Ek; try discriminate.
      + pose proof (cnt_ge1 _ a_pend _ _ _ Ek eq_refl) as Hge.
        pose proof (fun n => cnt_set_nth _ a_pend _ _ _ n Ek) as Hp.
        destruct (ds_dc st =? 0) eqn:Ez; inversion H; subst st'; clear H;
          constructor; cbn [ds_as ds_dc ds_w ds_adds ds_cpc ds_signoffs ds_entered ds_returned];
          rewrite ?Hp, ?cnt_app1; cbn; try lia;
          destruct (ds_cpc st); try destruct (dc_asfirst cf); cbn in *; lia.
      + pose proof (cnt_ge1 _ a_pend _ _ _ Ek eq_refl) as Hge.
        pose proof (fun n => cnt_set_nth _ a_pend _ _ _ n Ek) as Hp.
        inversion H; subst st'; clear H;
          constructor; cbn [ds_as ds_dc ds_w ds_adds ds_cpc ds_signoffs ds_entered ds_returned];
          rewrite ?Hp, ?cnt_app1; cbn; try lia;
          destruct (ds_cpc st); try destruct (dc_asfirst cf); cbn in *; lia.
    - (* ECaller *)
      pose proof (cnt_nonneg _ w_live (ds_w st)) as N1. pose proof (cnt_nonneg _ a_pend (ds_adds st)) as N2.
      destruct (ds_cpc st) as [|v|] eqn:Ec; try discriminate.
      + inversion H; subst st'; clear H.
        constructor; cbn [ds_as ds_dc ds_w ds_adds ds_cpc ds_signoffs ds_entered ds_returned]; auto.
        destruct (dc_asfirst cf); lia.
      + destruct (dc_asfirst cf) eqn:Ea.
        * destruct (ds_dc st <? v) eqn:El; inversion H; subst st'; clear H;
            constructor; cbn [ds_as ds_dc ds_w ds_adds ds_cpc ds_signoffs ds_entered ds_returned]; auto. lia.
        * destruct (v <? ds_as st) eqn:El; inversion H; subst st'; clear H;
            constructor; cbn [ds_as ds_dc ds_w ds_adds ds_cpc ds_signoffs ds_entered ds_returned]; auto. lia.
  Qed.

  (** coverage *)
  Definition wk_ok (cur : Z) (wk : dworker) : Prop :=
    match w_pc wk with
    | DExit => dc_stop cf <= cur
    | DGone => w_safe wk = true -> dc_stop cf <= cur
    | _ => True
    end.

  Record Inv2 (st : dstate) : Prop := {
    i2_tile : tiling (ds_claims st) start (ds_cur st);
    i2_le : ds_cur st <= dc_stop cf;
    i2_perm : Permutation (ds_claims st) (map snd (ds_exec st) ++ pendw (ds_w st));
    i2_exit : Forall (wk_ok (ds_cur st)) (ds_w st);
    i2_ret : ds_returned st = Z.of_nat (length (ds_exec st))
  }.

  Lemma pendw_same : forall l i o n, nth_error l i = Some o -> wpend o = wpend n ->
    Permutation (pendw (set_nth i n l)) (pendw l).
  Proof.
    intros l i o n H E. pose proof (pendw_set_nth l i o n H) as P. rewrite E in P.
    eapply Permutation_app_inv_r. exact P.
  Qed.

  Lemma wk_ok_mono : forall c c' l, c <= c' -> Forall (wk_ok c) l -> Forall (wk_ok c') l.
  Proof.
    intros c c' l Hc H. eapply Forall_impl; [|exact H]. intros wk Hk. unfold wk_ok in *.
    destruct (w_pc wk); auto; try lia; intro Hs; specialize (Hk Hs); lia.
  Qed.

  Lemma dstep_inv2 : forall st e st', dstep cf st e = Some st' -> Inv1 st -> Inv2 st -> Inv2 st'.
  Proof.
    intros st e st' H [_ _ _ B _ _] [T L P X R]. destruct e; cbn [dstep] in H.
    - (* EGet *) wcase H Ew.
      destruct (ds_cur st <? dc_stop cf) eqn:El; inversion H; subst st'; clear H;
        constructor; unfold set_w; cbn [ds_cur ds_w ds_claims ds_exec ds_returned]; auto; try lia.
      + apply tiling_snoc; [exact T | lia].
      + pose proof (pendw_set_nth _ _ _ (mkW (DFunc (ds_cur st) (Z.min (ds_cur st + Z.max n 1) (dc_stop cf))) sf) Ew) as Pp.
        cbn [wpend w_pc] in Pp. rewrite app_nil_r in Pp.
        eapply Permutation_trans; [apply Permutation_app_tail; exact P|].
        rewrite <- app_assoc. apply Permutation_app_head. apply Permutation_sym. exact Pp.
      + apply Forall_set_nth; [|exact I]. eapply wk_ok_mono; [|exact X]. lia.
      + eapply Permutation_trans; [exact P|]. apply Permutation_app_head. apply Permutation_sym.
        eapply pendw_same; [exact Ew | reflexivity].
      + apply Forall_set_nth; [exact X|]. unfold wk_ok; cbn [w_pc]. lia.
    - (* EEnter *) wcase H Ew. inversion H; subst st'; clear H.
      constructor; cbn [ds_cur ds_w ds_claims ds_exec ds_returned]; auto.
      + eapply Permutation_trans; [exact P|]. apply Permutation_app_head. apply Permutation_sym.
        eapply pendw_same; [exact Ew | reflexivity].
      + apply Forall_set_nth; [exact X | exact I].
    - (* EReturn *) wcase H Ew. inversion H; subst st'; clear H.
      constructor; cbn [ds_cur ds_w ds_claims ds_exec ds_returned]; auto.
      + pose proof (pendw_set_nth _ _ _ (mkW DCheck sf) Ew) as Pp.
        cbn [wpend w_pc] in Pp. rewrite app_nil_r in Pp.
        rewrite map_app. cbn [map snd]. eapply Permutation_trans; [exact P|].
        rewrite <- app_assoc. apply Permutation_app_head.
        eapply Permutation_trans; [apply Permutation_sym; exact Pp|]. apply Permutation_app_comm.
      + apply Forall_set_nth; [exact X | exact I].
      + rewrite app_length. cbn [length]. lia.
    - (* ECheck *) wcase H Ew.
      destruct (nth_error (ds_active st) s) as [[|]|]; inversion H; subst st'; clear H;
        constructor; unfold set_w; cbn [ds_cur ds_w ds_claims ds_exec ds_returned]; auto;
        try (apply Forall_set_nth; [exact X | exact I]);
        (eapply Permutation_trans; [exact P|]; apply Permutation_app_head; apply Permutation_sym;
         eapply pendw_same; [exact Ew | reflexivity]).
    - (* EDec *) wcase H Ew. pose proof (bad_zero_safe _ _ _ _ B Ew) as Hsf. cbn beta iota in Hsf. subst sf.
      rewrite Hbrk in H. inversion H; subst st'; clear H.
      constructor; cbn [ds_cur ds_w ds_claims ds_exec ds_returned]; auto.
      + eapply Permutation_trans; [exact P|]. apply Permutation_app_head. apply Permutation_sym.
        eapply pendw_same; [exact Ew | reflexivity].
      + apply Forall_set_nth; [exact X|]. unfold wk_ok; cbn [w_pc w_safe]. discriminate.
    - (* EExit *) wcase H Ew. inversion H; subst st'; clear H.
      pose proof (Forall_nth_error _ _ _ _ _ X Ew) as Hx. unfold wk_ok in Hx; cbn [w_pc] in Hx.
      constructor; cbn [ds_cur ds_w ds_claims ds_exec ds_returned]; auto.
      + eapply Permutation_trans; [exact P|]. apply Permutation_app_head. apply Permutation_sym.
        eapply pendw_same; [exact Ew | reflexivity].
      + apply Forall_set_nth; [exact X|]. unfold wk_ok; cbn [w_pc w_safe]. intros _. exact Hx.
    - (* EDisable *) destruct s; [discriminate|]. destruct (S s <? length (ds_active st))%nat; inversion H; subst st'; clear H.
      constructor; cbn [ds_cur ds_w ds_claims ds_exec ds_returned]; auto.
    - (* EEnable *) destruct (s <? length (ds_active st))%nat; inversion H; subst st'; clear H.
      constructor; cbn [ds_cur ds_w ds_claims ds_exec ds_returned]; auto.
    - (* EAdd *) destruct (ds_cpc st); inversion H; subst st'; clear H;
        constructor; cbn [ds_cur ds_w ds_claims ds_exec ds_returned]; auto.
    - (* EAddStep *)
      destruct (nth_error (ds_adds st) k) as [[| |]|] eqn:Ek; try discriminate.
      + destruct (ds_dc st =? 0); inversion H; subst st'; clear H;
          constructor; cbn [ds_cur ds_w ds_claims ds_exec ds_returned]; auto.
        * rewrite pendw_app1. cbn [wpend w_pc]. rewrite app_nil_r. exact P.
        * apply Forall_app. split; [exact X|]. constructor; [exact I | constructor].
      + inversion H; subst st'; clear H; constructor; cbn [ds_cur ds_w ds_claims ds_exec ds_returned]; auto.
    - (* ECaller *)
      destruct (ds_cpc st) as [|v|]; try discriminate.
      + inversion H; subst st'; clear H; constructor; cbn [ds_cur ds_w ds_claims ds_exec ds_returned]; auto.
      + destruct (if dc_asfirst cf then ds_dc st else v) , (if dc_asfirst cf then v else ds_as st); cbn in H;
          repeat match type of H with context [if ?c then _ else _] => destruct c end;
          inversion H; subst st'; clear H; constructor; cbn [ds_cur ds_w ds_claims ds_exec ds_returned]; auto.
  Qed.

  (** the two invariants along a schedule *)
  Definition no_add (sched : list dev) : Prop := Forall (fun e => e <> EAdd) sched.

  Lemma drun_inv : forall sched st, (dc_asfirst cf = true -> no_add sched) ->
    Inv1 st -> Inv2 st -> Inv1 (drun cf st sched) /\ Inv2 (drun cf st sched).
  Proof.
    induction sched as [|e r IH]; intros st Hn H1 H2; cbn [drun]; auto.
    assert (Hr : dc_asfirst cf = true -> no_add r).
    { intro Ha. specialize (Hn Ha). inversion Hn; auto. }
    destruct (dstep cf st e) as [st'|] eqn:E; [|apply IH; auto].
    apply IH; auto.
    - eapply dstep_inv1; eauto. intro Ha. specialize (Hn Ha). inversion Hn; auto.
    - eapply dstep_inv2; eauto.
  Qed.

  Lemma dinit_inv1 : forall nw ns, Inv1 (dinit start nw ns).
  Proof.
    intros nw ns. unfold dinit. constructor; cbn [ds_as ds_dc ds_w ds_adds ds_cpc ds_signoffs ds_entered ds_returned];
      rewrite ?cnt_repeat; cbn; auto; try lia.
  Qed.

  Lemma dinit_inv2 : forall nw ns, Inv2 (dinit start nw ns).
  Proof.
    intros nw ns. unfold dinit. constructor; cbn [ds_cur ds_w ds_claims ds_exec ds_returned length]; auto; try lia.
    - constructor.
    - cbn [map app]. induction nw; cbn; auto.
    - induction nw; cbn [repeat]; constructor; auto. exact I.
  Qed.

  Definition sched_ok (sched : list dev) : Prop := dc_asfirst cf = true -> no_add sched.

  (** qdis_counts_consistent *)
  Theorem counts_consistent : forall nw ns sched, sched_ok sched ->
    let st := drun cf (dinit start nw ns) sched in
    ds_as st = ds_dc st + cnt w_live (ds_w st) + cnt a_pend (ds_adds st) /\
    ds_dc st = cnt w_done_safe (ds_w st) /\
    ds_signoffs st = cnt w_signed_off (ds_w st) /\
    ds_entered st = ds_returned st + cnt w_in (ds_w st) /\
    (forall w wk, nth_error (ds_w st) w = Some wk -> w_pc wk = DGet -> 1 <= ds_as st).
  Proof.
    intros nw ns sched Hs st.
    destruct (drun_inv sched _ Hs (dinit_inv1 nw ns) (dinit_inv2 nw ns)) as [[A D So B IO C] _]. fold st in A, D, So, B, IO, C.
    repeat split; auto.
    intros w wk Hn Hpc.
    assert (Hl : w_live wk = true) by (unfold w_live; rewrite Hpc; reflexivity).
    pose proof (cnt_ge1 _ w_live _ _ _ Hn Hl). pose proof (cnt_nonneg _ a_pend (ds_adds st)).
    pose proof (cnt_nonneg _ w_done_safe (ds_w st)). lia.
  Qed.

  Lemma all_gone : forall st, cnt w_live (ds_w st) = 0 -> forall w wk, nth_error (ds_w st) w = Some wk -> w_pc wk = DGone.
  Proof.
    intros st H w wk Hn. pose proof (cnt_zero _ _ _ H _ (nth_error_In _ _ Hn)) as Hl.
    unfold w_live in Hl. destruct (w_pc wk); try discriminate. reflexivity.
  Qed.

  (** qdis_returns_after_all *)
  Theorem returns_after_all : forall nw ns sched, sched_ok sched ->
    let st := drun cf (dinit start nw ns) sched in
    is_ret st = true ->
    (forall w wk, nth_error (ds_w st) w = Some wk -> w_pc wk = DGone) /\
    (forall k a, nth_error (ds_adds st) k = Some a -> a = AFin) /\
    ds_entered st = ds_returned st /\ ds_returned st = Z.of_nat (length (ds_exec st)).
  Proof.
    intros nw ns sched Hs st Hret.
    destruct (drun_inv sched _ Hs (dinit_inv1 nw ns) (dinit_inv2 nw ns)) as [[A D So B IO C] [_ _ _ _ R]].
    fold st in A, D, So, B, IO, C, R.
    unfold is_ret in Hret. destruct (ds_cpc st); try discriminate. destruct C as [C1 C2].
    split; [apply all_gone; exact C1|]. split; [|split; [|exact R]].
    - intros k a Hk. pose proof (cnt_zero _ _ _ C2 _ (nth_error_In _ _ Hk)) as Hp. destruct a; try discriminate. reflexivity.
    - pose proof (cnt_le_impl _ w_in w_live (ds_w st)) as Hle.
      pose proof (cnt_nonneg _ w_in (ds_w st)).
      assert (cnt w_in (ds_w st) <= cnt w_live (ds_w st)).
      { apply Hle. intros x Hx. unfold w_in, w_live in *. destruct (w_pc x); try discriminate; reflexivity. }
      lia.
  Qed.

  (** no index is ever run twice, in every reachable state *)
  Theorem at_most_once : forall nw ns sched, sched_ok sched ->
    let st := drun cf (dinit start nw ns) sched in
    Forall (fun r => fst r < snd r) (map snd (ds_exec st)) /\
    forall x, (cover_count x (map snd (ds_exec st)) <= (if ((start <=? x) && (x <? dc_stop cf))%Z then 1 else 0))%nat.
  Proof.
    intros nw ns sched Hs st.
    destruct (drun_inv sched _ Hs (dinit_inv1 nw ns) (dinit_inv2 nw ns)) as [_ [T L P X R]].
    fold st in T, L, P, X, R. split.
    - pose proof (tiling_nonempty _ _ _ T) as Hne. rewrite Forall_forall in *. intros r Hr. apply Hne.
      eapply Permutation_in; [apply Permutation_sym; exact P|]. apply in_or_app. left. exact Hr.
    - intro x. pose proof (tiling_count _ _ _ T x) as Hc. rewrite (cover_count_perm x _ _ P), cover_count_app in Hc.
      destruct (start <=? x) eqn:E1, (x <? ds_cur st) eqn:E2, (x <? dc_stop cf) eqn:E3; cbn [andb] in *; lia.
  Qed.

  (** qdis_covered_exactly_once *)
  Theorem covered_exactly_once : forall nw ns sched, sched_ok sched ->
    let st := drun cf (dinit start nw ns) sched in
    is_ret st = true ->
    (exists w wk, nth_error (ds_w st) w = Some wk /\ w_safe wk = true) ->
    Forall (fun r => fst r < snd r) (map snd (ds_exec st)) /\
    forall x, cover_count x (map snd (ds_exec st)) = if (start <=? x) && (x <? dc_stop cf) then 1%nat else 0%nat.
  Proof.
    intros nw ns sched Hs st Hret (w & wk & Hw & Hsafe).
    destruct (drun_inv sched _ Hs (dinit_inv1 nw ns) (dinit_inv2 nw ns)) as [[A D So B IO C] [T L P X R]].
    fold st in A, D, So, B, IO, C, T, L, P, X, R.
    unfold is_ret in Hret. destruct (ds_cpc st); try discriminate. destruct C as [C1 C2].
    pose proof (all_gone _ C1 _ _ Hw) as Hg.
    pose proof (Forall_nth_error _ _ _ _ _ X Hw) as Hok. unfold wk_ok in Hok. rewrite Hg in Hok. specialize (Hok Hsafe).
    assert (Hcur : ds_cur st = dc_stop cf) by lia.
    rewrite (pendw_gone _ C1), app_nil_r in P. rewrite Hcur in T. split.
    - pose proof (tiling_nonempty _ _ _ T) as Hne. rewrite Forall_forall in *. intros r Hr. apply Hne.
      eapply Permutation_in; [apply Permutation_sym; exact P | exact Hr].
    - intro x. rewrite <- (cover_count_perm x _ _ P). apply tiling_count. exact T.
  Qed.

  (** "at least one worker stays enabled": shepherd 0 cannot be disabled, and the wrapper forked to shepherd 0 (worker 0;
      the runtime sends a task whose target shepherd is active back home) only ever evaluates qthread_shep_ok() there *)
  Definition home0 (e : dev) : Prop := match e with ECheck O s => s = O | _ => True end.
  Definition w0_home (sched : list dev) : Prop := Forall home0 sched.
  Definition Inv0 (st : dstate) : Prop :=
    nth_error (ds_active st) 0 = Some true /\ exists pc, nth_error (ds_w st) 0 = Some (mkW pc true).

  Lemma set_w0 : forall l w n pc, nth_error l 0 = Some (mkW pc true) -> (w = 0%nat -> w_safe n = true) ->
    exists pc', nth_error (set_nth w n l) 0 = Some (mkW pc' true).
  Proof.
    intros l w n pc H Hn. destruct l as [|a r]; [discriminate|]. destruct w; cbn [set_nth nth_error] in *.
    - exists (w_pc n). destruct n as [p sf]. cbn [w_safe] in Hn. rewrite (Hn eq_refl). reflexivity.
    - exists pc. exact H.
  Qed.

  Ltac w0fin Hw :=
    split; [assumption|]; apply (set_w0 _ _ _ _ Hw); cbn [w_safe]; intro E0; try discriminate; subst; congruence.

  Lemma dstep_inv0 : forall st e st', dstep cf st e = Some st' -> home0 e -> Inv0 st -> Inv0 st'.
  Proof.
    intros st e st' H He [Ha (pc0 & Hw)]. destruct e; cbn [dstep] in H.
    - wcase H Ew. destruct (ds_cur st <? dc_stop cf); inversion H; subst st'; clear H;
        unfold Inv0, set_w; cbn [ds_active ds_w]; w0fin Hw.
    - wcase H Ew. inversion H; subst st'; clear H; unfold Inv0; cbn [ds_active ds_w]; w0fin Hw.
    - wcase H Ew. inversion H; subst st'; clear H; unfold Inv0; cbn [ds_active ds_w]; w0fin Hw.
    - wcase H Ew. destruct w; cbn [home0] in He.
      + subst s. rewrite Ha in H. inversion H; subst st'; clear H; unfold Inv0, set_w; cbn [ds_active ds_w]; w0fin Hw.
      + destruct (nth_error (ds_active st) s) as [[|]|]; inversion H; subst st'; clear H;
          unfold Inv0, set_w; cbn [ds_active ds_w]; w0fin Hw.
    - wcase H Ew. inversion H; subst st'; clear H; unfold Inv0; cbn [ds_active ds_w]; w0fin Hw.
    - wcase H Ew. inversion H; subst st'; clear H; unfold Inv0; cbn [ds_active ds_w]; w0fin Hw.
    - destruct s; [discriminate|]. destruct (S s <? length (ds_active st))%nat; inversion H; subst st'; clear H.
      unfold Inv0; cbn [ds_active ds_w]. split; [|eauto].
      destruct (ds_active st); [discriminate|]. exact Ha.
    - destruct (s <? length (ds_active st))%nat; inversion H; subst st'; clear H.
      unfold Inv0; cbn [ds_active ds_w]. split; [|eauto].
      destruct (ds_active st); [discriminate|]. destruct s; cbn [set_nth nth_error] in *; auto.
    - destruct (ds_cpc st); inversion H; subst st'; clear H; unfold Inv0; cbn [ds_active ds_w]; eauto.
    - destruct (nth_error (ds_adds st) k) as [[| |]|]; try discriminate.
      + destruct (ds_dc st =? 0); inversion H; subst st'; clear H; unfold Inv0; cbn [ds_active ds_w]; eauto.
        split; [exact Ha|]. exists pc0. destruct (ds_w st); [discriminate|]. exact Hw.
      + inversion H; subst st'; clear H; unfold Inv0; cbn [ds_active ds_w]; eauto.
    - destruct (ds_cpc st) as [|v|]; try discriminate.
      + inversion H; subst st'; clear H; unfold Inv0; cbn [ds_active ds_w]; eauto.
      + destruct ((if dc_asfirst cf then ds_dc st else v) <? (if dc_asfirst cf then v else ds_as st));
          inversion H; subst st'; clear H; unfold Inv0; cbn [ds_active ds_w]; eauto.
  Qed.

  Lemma drun_inv0 : forall sched st, w0_home sched -> Inv0 st -> Inv0 (drun cf st sched).
  Proof.
    induction sched as [|e r IH]; intros st Hh H0; cbn [drun]; auto.
    inversion Hh; subst. destruct (dstep cf st e) eqn:E; auto. apply IH; auto. eapply dstep_inv0; eauto.
  Qed.

  (** qt_loop_queue_run (worker 0 lives on shepherd 0): the range is covered exactly once whatever is disabled *)
  Theorem run_covers : forall nw ns sched, (1 <= nw)%nat -> (1 <= ns)%nat -> sched_ok sched -> w0_home sched ->
    let st := drun cf (dinit start nw ns) sched in
    is_ret st = true ->
    forall x, cover_count x (map snd (ds_exec st)) = if (start <=? x) && (x <? dc_stop cf) then 1%nat else 0%nat.
  Proof.
    intros nw ns sched Hnw Hns Hs Hh st Hret.
    assert (H0 : Inv0 (dinit start nw ns)).
    { unfold Inv0, dinit; cbn [ds_active ds_w]. destruct nw; [lia|]. destruct ns; [lia|]. cbn [repeat nth_error]. eauto. }
    destruct (drun_inv0 sched _ Hh H0) as [_ (pc & Hw)]. fold st in Hw.
    apply (covered_exactly_once nw ns sched Hs Hret). eauto.
  Qed.
End Disable.

(** the acceptor used by the correspondence: an accepted event sequence is a run, so the theorems apply to it *)
Lemma daccept_drun : forall cf sched st k, snd (daccept cf st sched k) = None -> fst (daccept cf st sched k) = drun cf st sched.
Proof.
  induction sched as [|e r IH]; intros st k H; cbn [daccept drun] in *; auto.
  destruct (dstep cf st e) eqn:E; [apply IH; exact H | discriminate].
Qed.

(* ------------------------------------------------------------------ *)
(** * witnesses *)

(* the seeded change C12-3 (no `break` in the disabled branch): worker 1 signs off (activesheps 2 -> 1), goes on claiming
   and is inside func when worker 0 has finished (donecount = 1): the caller's test 1 < 1 fails and the call returns *)
Definition nb_sched : list dev :=
  [EGet 1 1; EEnter 1; EDisable 1; EReturn 1; ECheck 1 1; EDec 1; EGet 1 1; EEnter 1;
   EGet 0 100; EEnter 0; EReturn 0; ECheck 0 0; EGet 0 1; EExit 0; ECaller; ECaller].

Lemma no_break_refuted : forall asfirst, exists sched,
  let st := drun (mkDC 10 false asfirst) (dinit 0 2 2) sched in
  snd (daccept (mkDC 10 false asfirst) (dinit 0 2 2) sched 0) = None /\ no_add sched /\ w0_home sched /\
  is_ret st = true /\ ds_entered st = 3 /\ ds_returned st = 2 /\
  exists lo hi sf, nth_error (ds_w st) 1 = Some (mkW (DIn lo hi) sf).
Proof.
  intro asfirst. exists nb_sched.
  assert (Hn : no_add nb_sched) by (unfold no_add, nb_sched; repeat constructor; discriminate).
  assert (Hh : w0_home nb_sched) by (unfold w0_home, nb_sched; repeat constructor).
  destruct asfirst; vm_compute; repeat split; auto; do 3 eexists; reflexivity.
Qed.

(* the unchanged code when the compiler reads activesheps before donecount (gcc -O1 does) and qt_loop_queue_addworker
   runs between the two reads: the caller keeps the old activesheps = 2, the added worker 2 is inside func when the two
   original workers have finished (donecount = 2): 2 < 2 fails and the call returns *)
Definition af_sched : list dev :=
  [ECaller; EAdd; EAddStep 0; EGet 2 1; EEnter 2; EGet 0 100; EEnter 0; EReturn 0; ECheck 0 0; EGet 0 1; EExit 0;
   EGet 1 1; EExit 1; ECaller].

Lemma asfirst_addworker_refuted : exists sched,
  let st := drun (mkDC 10 true true) (dinit 0 2 2) sched in
  snd (daccept (mkDC 10 true true) (dinit 0 2 2) sched 0) = None /\
  is_ret st = true /\ ds_entered st = 2 /\ ds_returned st = 1 /\
  exists lo hi sf, nth_error (ds_w st) 2 = Some (mkW (DIn lo hi) sf).
Proof. exists af_sched. vm_compute. repeat split; auto. do 3 eexists; reflexivity. Qed.

(* the same events when donecount is read first: the caller does not return *)
Example dcfirst_addworker_waits : is_ret (drun (mkDC 10 true false) (dinit 0 2 2) af_sched) = false.
Proof. vm_compute. reflexivity. Qed.

(* the unchanged code, qt_loop_queue_run_there(h, 1) and shepherd 1 disabled during the loop: the only worker signs off,
   0 < 0 fails, the call returns with [1,10) never passed to the user function (no worker stayed enabled) *)
Definition rt_sched : list dev := [EGet 0 1; EEnter 0; EDisable 1; EReturn 0; ECheck 0 1; EDec 0; ECaller; ECaller].

Lemma all_signed_off_uncovered : forall asfirst, exists sched,
  let st := drun (mkDC 10 true asfirst) (dinit 0 1 2) sched in
  no_add sched /\ is_ret st = true /\ ds_as st = 0 /\ ds_dc st = 0 /\ ds_signoffs st = 1 /\
  cover_count 5 (map snd (ds_exec st)) = 0%nat.
Proof.
  intro asfirst. exists rt_sched.
  assert (Hn : no_add rt_sched) by (unfold no_add, rt_sched; repeat constructor; discriminate).
  destruct asfirst; vm_compute; repeat split; auto.
Qed.

(* non-vacuity of the positive theorems: a run with a disable, a sign-off, a re-enable, an added worker, and a return *)
Definition ok_sched : list dev :=
  [EGet 1 1; EEnter 1; EDisable 1; EReturn 1; ECheck 1 1; EDec 1; EEnable 1; EAdd; EAddStep 0;
   EGet 2 2; EEnter 2; ECaller; ECaller; EReturn 2; ECheck 2 1; EGet 0 100; EEnter 0; EReturn 0; ECheck 0 0;
   EGet 0 1; EExit 0; EGet 2 1; ECaller; ECaller; EExit 2; ECaller; ECaller].

Example disable_run_example :
  let cf := mkDC 10 true false in
  let st := drun cf (dinit 0 2 2) ok_sched in
  snd (daccept cf (dinit 0 2 2) ok_sched 0) = None /\ w0_home ok_sched /\
  is_ret st = true /\ ds_signoffs st = 1 /\ ds_dc st = 2 /\ ds_as st = 2 /\ length (ds_w st) = 3%nat /\
  ds_entered st = 3 /\ ds_returned st = 3 /\ map snd (ds_exec st) = [(0, 1); (1, 3); (3, 10)].
Proof.
  assert (Hh : w0_home ok_sched) by (unfold w0_home, ok_sched; repeat constructor).
  vm_compute. repeat split; auto.
Qed.
