(** C12 — executable model of the parallel loops of src/qloop.c (definitions only).

    (a) [split]        : the maxworkers / each / extra / iterend loop of qt_loop_balance_inner
    (b) [tree]         : the tree spawn of qloop_wrapper (new_id = my_id + 2^level)
    (c) [qt_loop_tasks]: qt_loop = balance over qt_loop_spawner, one task per index
    (d) [step]         : micro-step model (one shared access per step) of the four queue-loop
                         cursors qqloop_get_iterations_{chunked,guided,factored,timed} driven by
                         the worker loop of qqloop_wrapper.
    Values are Z without wrap-around (aligned_t/saligned_t below 2^62), except the
    unsigned-short truncation of maxworkers. *)
From Coq Require Import List ZArith Bool.
Import ListNotations.
Local Open Scope Z_scope.

(* ------------------------------------------------------------------ *)
(** * (a) qt_loop_balance_inner: the split *)

Definition wrap16 (z : Z) : Z := z mod 65536.

(* const qthread_shepherd_id_t maxworkers = ((stop - start) > nw) ? nw : (stop - start); *)
Definition maxworkers (start stop nw : Z) : Z :=
  wrap16 (if nw <? stop - start then nw else stop - start).

(* for (i = 0; i < maxworkers; i++) { startat = iterend; stopat = iterend + each;
     if (extra > 0) { stopat++; extra--; }  iterend = stopat; } *)
Fixpoint split_loop (n : nat) (iterend each extra : Z) : list (Z * Z) :=
  match n with
  | O => []
  | S n' =>
      let stopat := if 0 <? extra then iterend + each + 1 else iterend + each in
      let extra' := if 0 <? extra then extra - 1 else extra in
      (iterend, stopat) :: split_loop n' stopat each extra'
  end.

Definition split (start stop nw : Z) : list (Z * Z) :=
  let mw := maxworkers start stop nw in
  let each := (stop - start) / mw in
  let extra := (stop - start) - each * mw in
  split_loop (Z.to_nat mw) start each extra.

(* ------------------------------------------------------------------ *)
(** * (b) qloop_wrapper: tree spawn.  An entry is (id, level the wrapper starts with). *)

(* new_id = my_id + (1 << level);
   while (new_id <= tot_workers) { (arg+offset)->level = ++level; spawn(new_id); new_id = (1 << level) + my_id; } *)
Fixpoint children (fuel : nat) (tot my_id level : Z) : list (Z * Z) :=
  match fuel with
  | O => []
  | S f =>
      let new_id := my_id + 2 ^ level in
      if new_id <=? tot
      then (new_id, level + 1) :: children f tot new_id (level + 1) ++ children f tot my_id (level + 1)
      else []
  end.

(* the root (id 0, level 0) is spawned by qt_loop_balance_inner; tot_workers = spawnthreads - 1 *)
Definition tree (mw : Z) : list (Z * Z) :=
  (0, 0) :: children (S (Z.to_nat mw)) (mw - 1) 0 0.

Inductive synct := ALIGNED | SYNCVAR_T | SINC_T | DONECOUNT.
Inductive slot := SlotIdx (i : Z) | SlotSinc | SlotNone.

(* return location handed to qthread_spawn for wrapper [id]:
   SYNCVAR_T: element new_id of the syncvar array, ALIGNED: element new_id of the aligned_t array, SINC_T: the sinc, DONECOUNT: NULL
   (root: sync.ptr = element 0 / the sinc / dc's initial value 0 = NULL) *)
Definition ret_slot (st : synct) (id : Z) : slot :=
  match st with
  | ALIGNED | SYNCVAR_T => SlotIdx id
  | SINC_T => SlotSinc
  | DONECOUNT => SlotNone
  end.

(* locations the caller waits on: readFF of element i for i < maxworkers (sv/aligned) *)
Definition waited_slots (mw : Z) : list Z := map Z.of_nat (seq 0 (Z.to_nat mw)).

(* the wrappers of one qt_loop_balance call: (id, level, slot, startat, stopat) *)
Definition balance_tasks (st : synct) (start stop nw : Z) : list (Z * Z * slot * (Z * Z)) :=
  let sp := split start stop nw in
  map (fun il => (fst il, snd il, ret_slot st (fst il), nth (Z.to_nat (fst il)) sp (0, 0)))
      (tree (maxworkers start stop nw)).

(* ------------------------------------------------------------------ *)
(** * (c) qt_loop_spawner / qt_loop_inner *)

(* for (i = start, threadct = 0; i < stop; ++i, ++threadct) spawn [i,i+1) with return slot threadct *)
Fixpoint spawner_loop (n : nat) (i threadct : Z) : list (Z * Z * Z) :=
  match n with
  | O => []
  | S n' => (i, i + 1, threadct) :: spawner_loop n' (i + 1) (threadct + 1)
  end.

(* return location of the task for index start+threadct: element threadct of the syncvar / aligned_t array;
   SINC_T and DONECOUNT pass NULL (qt_loop_wrapper submits to the sinc / increments the counter itself) *)
Definition spawner_slot (st : synct) (threadct : Z) : slot :=
  match st with
  | ALIGNED | SYNCVAR_T => SlotIdx threadct
  | SINC_T | DONECOUNT => SlotNone
  end.

Definition spawner (lo hi : Z) : list (Z * Z * Z) := spawner_loop (Z.to_nat (hi - lo)) lo 0.

Definition qt_loop_tasks (start stop nw : Z) : list (Z * Z * Z) :=
  flat_map (fun r => spawner (fst r) (snd r)) (split start stop nw).

(* ------------------------------------------------------------------ *)
(** * (d) queue-loop cursors, micro-step model *)

Inductive flavour := CHUNK | GUIDED | FACTORED | TIMED.

Record params := mkP {
  p_fl : flavour;
  p_stop : Z;      (* iq->stop (never written after creation) *)
  p_nw : Z;        (* qthread_num_workers() *)
  p_sheps : Z;     (* sa->activesheps *)
  p_chunk : Z;     (* sa->chunksize *)
  p_step : Z       (* iq->step *)
}.

(* a thread is "about to perform" one shared access; locals are constructor arguments *)
Inductive pc :=
| Done                                   (* get_iterations returned 0: the worker left its loop *)
| C_read | C_faa                         (* chunked: plain read of start; fetch-add *)
| G_read0 | G_read1 | G_cas (ret it : Z) (* guided: first read; re-read in the loop; CAS on start *)
| NW_read | NW_write (lo : Z)            (* num_workers()==1 path of guided/factored: re-read start; start = stop *)
| F_read0 | F_phase (ret : Z) | F_read1 (ph : Z)
| F_casph (ret ph : Z) | F_cas (ret ph it : Z)  (* factored: CAS on phase; CAS on start *)
| T_lb | T_start (db : Z) (slow : bool) | T_cas (ls db : Z) (slow : bool). (* timed *)

Record thread := mkT { t_pc : pc; t_first : bool (* range.step == 0 *); t_shep : Z }.

Record state := mkS {
  s_cur : Z;                          (* iq->start *)
  s_phase : Z;                        (* iq->type_specific_data.phase *)
  s_lb : Z -> Z;                      (* timed.lastblocks[shep] *)
  s_out : list (nat * (Z * Z));       (* ranges handed to the user function, in linearisation order *)
  s_thr : list thread
}.

Definition entry (p : params) (first : bool) : pc :=
  match p_fl p with
  | CHUNK => C_read
  | GUIDED => G_read0
  | FACTORED => F_read0
  | TIMED => if first then T_start 1 true else T_lb
  end.

Definition it_of (q : Z) : Z := if q =? 0 then 1 else q.
(* iterations = (stop - ret) / sheps; if (iterations == 0) iterations = 1;   (signed C division) *)
Definition guided_it (p : params) (ret : Z) : Z := it_of (Z.quot (p_stop p - ret) (p_sheps p)).
Definition fact_it (p : params) (ph : Z) : Z := it_of (Z.quot (p_stop p - ph) (p_sheps p)).

(* newphase = (stop+ret)/2; chunksize = (stop-newphase)/sheps; newphase = ret + chunksize*sheps;
   CAS(phase, phase, newphase != phase ? newphase : stop) *)
Definition fact_target (p : params) (ret ph : Z) : Z :=
  let np := Z.quot (p_stop p + ret) 2 in
  let cs := Z.quot (p_stop p - np) (p_sheps p) in
  let np' := ret + cs * p_sheps p in
  if np' =? ph then p_stop p else np'.

(* while (ret >= phase && ret < iq->stop) {CAS phase}  iterations = ...; CAS start *)
Definition fact_inner (p : params) (ret ph : Z) : pc :=
  if (ph <=? ret) && (ret <? p_stop p) then F_casph ret ph else F_cas ret ph (fact_it p ph).

(* if (loop_time >= 7.5e-7) dynamicBlock = (localstop-localstart)/((workerCount<<1)*localstep) + 1;
   if (localstart + dynamicBlock > localstop) dynamicBlock = localstop - localstart; *)
Definition timed_block (p : params) (ls db : Z) (slow : bool) : Z :=
  let db1 := if slow then Z.quot (p_stop p - ls) ((p_sheps p * 2) * p_step p) + 1 else db in
  if p_stop p <? ls + db1 then p_stop p - ls else db1.

Definition upd (f : Z -> Z) (k v : Z) : Z -> Z := fun x => if x =? k then v else f x.

Record eff := mkE { e_cur : Z; e_phase : Z; e_lb : Z -> Z; e_claim : option (Z * Z); e_pc : pc; e_first : bool }.

(* one shared access of thread [t] plus the local computation up to the next one.
   [slow] is the oracle for qtimer_secs(...) >= 7.5e-7 (consumed by T_lb only). *)
Definition tstep (p : params) (slow : bool) (cur ph : Z) (lb : Z -> Z) (t : thread) : option eff :=
  let stop := p_stop p in
  let fst_ := t_first t in
  let keep := fun c : pc => Some (mkE cur ph lb None c fst_) in
  let won := fun (cur' lo hi : Z) => Some (mkE cur' ph lb (Some (lo, hi)) (entry p fst_) fst_) in
  let lost := fun cur' : Z => Some (mkE cur' ph lb None Done fst_) in
  match t_pc t with
  | Done => None
  (* chunked *)
  | C_read => keep (if cur <? stop then C_faa else Done)
  | C_faa =>
      let cur' := cur + p_chunk p in
      if cur <? stop then won cur' cur (if stop <? cur' then stop else cur') else lost cur'
  (* guided *)
  | G_read0 =>
      if p_nw p =? 1 then keep (if cur <? stop then NW_read else Done)
      else keep (if cur <? stop then G_read1 else Done)
  | G_read1 => keep (G_cas cur (guided_it p cur))
  | G_cas ret it =>
      if cur =? ret
      then (if ret <? stop then won (ret + it) ret (ret + it) else lost (ret + it))
      else keep (if ret <? stop then G_read1 else Done)
  (* single-worker shortcut of guided and factored *)
  | NW_read => keep (NW_write cur)
  | NW_write lo => won stop lo stop
  (* factored *)
  | F_read0 => keep (F_phase cur)
  | F_phase ret =>
      if p_nw p =? 1 then keep (if ret <? stop then NW_read else Done)
      else keep (if ret <? stop then F_read1 ph else Done)
  | F_read1 lph => keep (fact_inner p cur lph)
  | F_casph ret lph =>
      let ph' := if ph =? lph then fact_target p ret lph else ph in
      Some (mkE cur ph' lb None (fact_inner p ret ph) fst_)       (* local phase := value returned by the CAS *)
  | F_cas ret lph it =>
      if cur =? ret
      then (if ret <? stop then won (ret + it) ret (ret + it) else lost (ret + it))
      else keep (if ret <? stop then F_read1 lph else Done)
  (* timed *)
  | T_lb => keep (T_start (lb (t_shep t)) slow)
  | T_start db sl =>
      keep (if cur <? stop then T_cas cur (timed_block p cur db sl) sl else Done)
  | T_cas ls db sl =>
      if cur =? ls
      then (let lb' := upd lb (t_shep t) db in
            if (ls <? stop) && (0 <? db)
            then let f' := p_step p =? 0 in
                 Some (mkE (ls + db) ph lb' (Some (ls, ls + db)) (entry p f') f')
            else Some (mkE (ls + db) ph lb' None Done fst_))
      else keep (if cur <? stop then T_cas cur (timed_block p cur db sl) sl else Done)
  end.

Fixpoint set_nth {A} (n : nat) (x : A) (l : list A) : list A :=
  match l, n with
  | [], _ => []
  | _ :: r, O => x :: r
  | y :: r, S n' => y :: set_nth n' x r
  end.

Definition step (p : params) (s : state) (tid : nat) (slow : bool) : option state :=
  match nth_error (s_thr s) tid with
  | None => None
  | Some t =>
      match tstep p slow (s_cur s) (s_phase s) (s_lb s) t with
      | None => None
      | Some e =>
          Some (mkS (e_cur e) (e_phase e) (e_lb e)
                    (match e_claim e with Some c => s_out s ++ [(tid, c)] | None => s_out s end)
                    (set_nth tid (mkT (e_pc e) (e_first e) (t_shep t)) (s_thr s)))
      end
  end.

(* a schedule is a list of (thread, oracle); a thread that is not enabled is skipped *)
Fixpoint run (p : params) (s : state) (sched : list (nat * bool)) : state :=
  match sched with
  | [] => s
  | (tid, o) :: r => match step p s tid o with Some s' => run p s' r | None => run p s r end
  end.

(* qqloop_create_iq + one qqloop_wrapper per entry of [sheps] (the shepherd it runs on) *)
Definition init (p : params) (start : Z) (sheps : list Z) (lb0 : Z) : state :=
  mkS start ((start + p_stop p) / 2) (fun _ => lb0) []
      (map (fun sh => mkT (entry p true) true sh) sheps).

Definition all_done (s : state) : bool :=
  forallb (fun t => match t_pc t with Done => true | _ => false end) (s_thr s).

(* ---- replay granularity (DESIGN section 4, M3): a grant performs the pending interposed access
        (CAS / fetch-add) and runs the plain accesses up to the next interposed one *)
Definition is_atomic (c : pc) : bool :=
  match c with
  | C_faa | G_cas _ _ | F_casph _ _ | F_cas _ _ _ | T_cas _ _ _ => true
  | _ => false
  end.

Definition pc_of (s : state) (tid : nat) : pc :=
  match nth_error (s_thr s) tid with Some t => t_pc t | None => Done end.

Fixpoint run_plain (p : params) (fuel : nat) (s : state) (tid : nat) (slow : bool) : state :=
  match fuel with
  | O => s
  | S f =>
      match pc_of s tid with
      | Done => s
      | c => if is_atomic c then s
             else match step p s tid slow with Some s' => run_plain p f s' tid slow | None => s end
      end
  end.

Definition grant (p : params) (s : state) (tid : nat) (slow : bool) : state :=
  let s1 := if is_atomic (pc_of s tid)
            then match step p s tid slow with Some s' => s' | None => s end
            else s in
  run_plain p 32 s1 tid slow.

(* the interposed access a thread is blocked at: (kind, a, b); kind 0 = finished, 1 = fetch-add a,
   2 = CAS(start, a, b), 3 = CAS(phase, a, b), 4 = not at an interposed access *)
Definition pending (p : params) (s : state) (tid : nat) : Z * Z * Z :=
  match pc_of s tid with
  | Done => (0, 0, 0)
  | C_faa => (1, p_chunk p, 0)
  | G_cas ret it => (2, ret, ret + it)
  | F_cas ret _ it => (2, ret, ret + it)
  | T_cas ls db _ => (2, ls, ls + db)
  | F_casph ret ph => (3, ph, fact_target p ret ph)
  | _ => (4, 0, 0)
  end.

(* sequential reference: one worker alone until it is done (used for the schedule-independent
   claim chains of CHUNK and GUIDED in the free-running comparison) *)
Fixpoint run_alone (p : params) (fuel : nat) (s : state) : state :=
  match fuel with
  | O => s
  | S f => match step p s 0%nat true with Some s' => run_alone p f s' | None => s end
  end.
