(** C12, third clause — "the loop call returns only after every invocation has returned":
    op-level model of the completion protocols of src/qloop.c (definitions only).

    A wrapper task = [spawn its children (tree) ; run the user function on its range ; signal], where signal is
      - aligned / syncvar flavours: the runtime fills the task's own return location after the function returned
        (qthread_wrapper: writeEF_const on t->ret, i.e. waits for the cell to be empty, then fills it); the cell is
        emptied by qthread_spawn before the task is enqueued (qthread.c "Step 4");
      - sinc: qt_sinc_submit;  donecount: fetch-add on the counter.
    The caller = [spawn the root task(s) ; wait], where wait is readFF on every waited cell in order / qt_sinc_wait
    for the expected number of submits / spinning until the counter equals the number of tasks.
    Cells are abstract full/empty bits, sinc and donecount an abstract counter. *)
From Coq Require Import List ZArith Bool.
From QV Require Import Loops.Model.
Import ListNotations.
Local Open Scope Z_scope.

Inductive tstat := NotSpawned | Spawning (k : nat) | Running | Signalling | Finished.

Record tdesc := mkD { d_id : Z; d_kids : list Z; d_slot : slot; d_range : Z * Z }.

Inductive waitk :=
| WaitSlots (l : list Z)      (* readFF on each of these cells, in order *)
| WaitCount (n : Z).          (* sinc created with n expected submits / while (dc != n) yield *)

Record csys := mkY { y_tasks : list tdesc; y_root : list Z (* spawned by the caller, in order *); y_wait : waitk }.

Inductive cpc := CSpawn (k : nat) | CWait (k : nat) | CReturned.

Record cstate := mkC {
  c_pc : cpc;
  c_stat : Z -> tstat;
  c_cell : Z -> bool;          (* full? *)
  c_count : Z;                 (* donecount / number of sinc submits *)
  c_ran : list Z;              (* tasks whose user function has been executed *)
  c_fin : list Z               (* tasks whose completion signal has been delivered *)
}.

Inductive actor := Caller | Task (id : Z).

Definition find_task (y : csys) (id : Z) : option tdesc := find (fun d => d_id d =? id) (y_tasks y).
Definition updf {A : Type} (f : Z -> A) (k : Z) (v : A) : Z -> A := fun x => if x =? k then v else f x.

(* qthread_spawn of task c: empty its return cell, make the task runnable *)
Definition do_spawn (y : csys) (s : cstate) (c : Z) : cstate :=
  match find_task y c with
  | None => s
  | Some d =>
      let cell' := match d_slot d with SlotIdx i => updf (c_cell s) i false | _ => c_cell s end in
      let stat' := match c_stat s c with NotSpawned => updf (c_stat s) c (Spawning 0) | _ => c_stat s end in
      mkC (c_pc s) stat' cell' (c_count s) (c_ran s) (c_fin s)
  end.

Definition set_pc (s : cstate) (c : cpc) : cstate := mkC c (c_stat s) (c_cell s) (c_count s) (c_ran s) (c_fin s).
Definition set_stat (s : cstate) (id : Z) (t : tstat) : cstate :=
  mkC (c_pc s) (updf (c_stat s) id t) (c_cell s) (c_count s) (c_ran s) (c_fin s).

Definition cstep (y : csys) (s : cstate) (a : actor) : option cstate :=
  match a with
  | Caller =>
      match c_pc s with
      | CSpawn k =>
          match nth_error (y_root y) k with
          | Some c => Some (set_pc (do_spawn y s c) (CSpawn (S k)))
          | None => Some (set_pc s (CWait 0))
          end
      | CWait k =>
          match y_wait y with
          | WaitSlots l =>
              match nth_error l k with
              | Some i => if c_cell s i then Some (set_pc s (CWait (S k))) else None   (* readFF blocks on an empty cell *)
              | None => Some (set_pc s CReturned)
              end
          | WaitCount n => if c_count s =? n then Some (set_pc s CReturned) else None
          end
      | CReturned => None
      end
  | Task id =>
      match find_task y id with
      | None => None
      | Some d =>
          match c_stat s id with
          | Spawning k =>
              match nth_error (d_kids d) k with
              | Some c => Some (set_stat (do_spawn y s c) id (Spawning (S k)))
              | None => Some (set_stat s id Running)
              end
          | Running =>       (* arg->func(arg->startat, arg->stopat, arg->arg) *)
              Some (mkC (c_pc s) (updf (c_stat s) id Signalling) (c_cell s) (c_count s) (id :: c_ran s) (c_fin s))
          | Signalling =>
              match d_slot d with
              | SlotIdx i =>  (* writeEF: blocks while the cell is full *)
                  if c_cell s i then None
                  else Some (mkC (c_pc s) (updf (c_stat s) id Finished) (updf (c_cell s) i true) (c_count s) (c_ran s) (id :: c_fin s))
              | _ => Some (mkC (c_pc s) (updf (c_stat s) id Finished) (c_cell s) (c_count s + 1) (c_ran s) (id :: c_fin s))
              end
          | _ => None
          end
      end
  end.

Fixpoint crun (y : csys) (s : cstate) (sched : list actor) : cstate :=
  match sched with
  | [] => s
  | a :: r => match cstep y s a with Some s' => crun y s' r | None => crun y s r end
  end.

(* state after the caller's set-up loop: waited cells emptied, counter 0, nothing spawned *)
Definition cinit : cstate := mkC (CSpawn 0) (fun _ => NotSpawned) (fun _ => false) 0 [] [].

(* ---------------- instances ---------------- *)

(* direct children of wrapper (my_id, level): the while loop of qloop_wrapper *)
Fixpoint kids (fuel : nat) (tot my_id level : Z) : list Z :=
  match fuel with
  | O => []
  | S f => let new_id := my_id + 2 ^ level in
           if new_id <=? tot then new_id :: kids f tot my_id (level + 1) else []
  end.

Definition wait_of (st : synct) (mw : Z) : waitk :=
  match st with
  | ALIGNED | SYNCVAR_T => WaitSlots (waited_slots mw)
  | SINC_T | DONECOUNT => WaitCount mw
  end.

(* qt_loop_balance_inner with sync type st *)
Definition balance_sys (st : synct) (start stop nw : Z) : csys :=
  let mw := maxworkers start stop nw in
  mkY (map (fun t => match t with (id, level, sl, r) => mkD id (kids (S (Z.to_nat mw)) (mw - 1) id level) sl r end)
           (balance_tasks st start stop nw))
      [0] (wait_of st mw).

(* qt_loop_spawner on [lo,hi): the spawner is the caller of one task per index *)
Definition spawner_sys (st : synct) (lo hi : Z) : csys :=
  mkY (map (fun t => match t with (a, b, tc) => mkD tc [] (spawner_slot st tc) (a, b) end) (spawner lo hi))
      (map snd (spawner lo hi)) (wait_of st (hi - lo)).

(* regression variants with the slot rules before the two "fix:" commits *)
(* 3745911: ALIGNED fell through to DONECOUNT: qwa[i].sync = &sync.dc, so child new_id returned into (&sync.dc)+new_id
   (the caller's stack, modelled as cells -1-id outside the waited array); the root got sync.ptr = element 0 *)
Definition balance_sys_old_aligned (start stop nw : Z) : csys :=
  let y := balance_sys ALIGNED start stop nw in
  mkY (map (fun d => mkD (d_id d) (d_kids d) (if d_id d =? 0 then SlotIdx 0 else SlotIdx (- 1 - d_id d)) (d_range d)) (y_tasks y))
      (y_root y) (y_wait y).

(* 1c7a534: qt_loop_spawner passed retptr = element 0 to every spawn and waited on all elements *)
Definition spawner_sys_old (st : synct) (lo hi : Z) : csys :=
  let y := spawner_sys st lo hi in
  mkY (map (fun d => mkD (d_id d) (d_kids d) (SlotIdx 0) (d_range d)) (y_tasks y)) (y_root y) (y_wait y).

(* ------------------------------------------------------------------ *)
(** * queue loops: qt_loop_queue_run on top of the cursor model.
    A worker = do { claim := get_iterations ; func(claim) } until "no more" ; fetch-add donecount.
    The caller spins until donecount >= activesheps (= number of worker tasks). *)

Record qstate := mkQ {
  q_s : state;                          (* cursor model *)
  q_pend : list (option (Z * Z));       (* per worker: a claimed range whose func call has not been made yet *)
  q_exec : list (nat * (Z * Z));        (* func calls made *)
  q_sig : list bool;                    (* per worker: donecount incremented *)
  q_dc : Z;
  q_ret : bool                          (* qt_loop_queue_run has returned *)
}.

Inductive qactor := QCaller | QWorker (tid : nat) (slow : bool).

Definition qstep (p : params) (q : qstate) (a : qactor) : option qstate :=
  match a with
  | QCaller =>
      if q_ret q then None
      else if Z.of_nat (length (s_thr (q_s q))) <=? q_dc q      (* leaves "while ( *dc < *as)" *)
           then Some (mkQ (q_s q) (q_pend q) (q_exec q) (q_sig q) (q_dc q) true) else None
  | QWorker tid slow =>
      match nth_error (q_pend q) tid with
      | None => None
      | Some (Some c) =>      (* func(range.startat, range.stopat, a) *)
          Some (mkQ (q_s q) (set_nth tid None (q_pend q)) (q_exec q ++ [(tid, c)]) (q_sig q) (q_dc q) (q_ret q))
      | Some None =>
          match nth_error (s_thr (q_s q)) tid with
          | None => None
          | Some t =>
              match tstep p slow (s_cur (q_s q)) (s_phase (q_s q)) (s_lb (q_s q)) t with
              | Some e =>
                  match step p (q_s q) tid slow with
                  | Some s' => Some (mkQ s' (set_nth tid (e_claim e) (q_pend q)) (q_exec q) (q_sig q) (q_dc q) (q_ret q))
                  | None => None
                  end
              | None =>       (* get_iterations returned 0 earlier: qthread_incr(dc, 1), once *)
                  if nth tid (q_sig q) true then None
                  else Some (mkQ (q_s q) (q_pend q) (q_exec q) (set_nth tid true (q_sig q)) (q_dc q + 1) (q_ret q))
              end
          end
      end
  end.

Fixpoint qrun (p : params) (q : qstate) (sched : list qactor) : qstate :=
  match sched with
  | [] => q
  | a :: r => match qstep p q a with Some q' => qrun p q' r | None => qrun p q r end
  end.

Definition qinit (p : params) (start : Z) (sheps : list Z) (lb0 : Z) : qstate :=
  mkQ (init p start sheps lb0) (map (fun _ => None) sheps) [] (map (fun _ => false) sheps) 0 false.
