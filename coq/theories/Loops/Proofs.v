(** C12 — proofs about the split, the tree spawn and the spawner (Loops/Model.v parts a–c). *)
From Coq Require Import List ZArith Bool Lia Permutation.
From Coq Require Import ZifyBool.
From QV Require Import Loops.Model.
Import ListNotations.
Local Open Scope Z_scope.

(* ------------------------------------------------------------------ *)
(** * Tilings: consecutive non-empty ranges from [a] to [b] *)

Inductive tiling : list (Z * Z) -> Z -> Z -> Prop :=
| tiling_nil : forall a, tiling [] a a
| tiling_cons : forall a m b l, a < m -> tiling l m b -> tiling ((a, m) :: l) a b.

Definition covers (x : Z) (r : Z * Z) : bool := (fst r <=? x) && (x <? snd r).
Definition cover_count (x : Z) (l : list (Z * Z)) : nat := length (filter (covers x) l).

Lemma tiling_le : forall l a b, tiling l a b -> a <= b.
Proof. induction 1; lia. Qed.

Lemma tiling_app : forall l1 l2 a b c, tiling l1 a b -> tiling l2 b c -> tiling (l1 ++ l2) a c.
Proof.
  intros l1 l2 a b c H. revert l2 c. induction H; intros l2 c H2; cbn [app]; auto.
  constructor; auto.
Qed.

Lemma tiling_snoc : forall l a b c, tiling l a b -> b < c -> tiling (l ++ [(b, c)]) a c.
Proof.
  intros. eapply tiling_app; eauto. constructor; auto. constructor.
Qed.

Lemma tiling_nonempty : forall l a b, tiling l a b -> Forall (fun r => fst r < snd r) l.
Proof. induction 1; constructor; auto. Qed.

Lemma tiling_within : forall l a b, tiling l a b -> Forall (fun r => a <= fst r /\ snd r <= b) l.
Proof.
  induction 1; constructor; cbn [fst snd].
  - apply tiling_le in H0. lia.
  - eapply Forall_impl; [|exact IHtiling]. cbn beta. intros r Hr. lia.
Qed.

(** every index of [a,b) lies in exactly one range, every other index in none: this is
    "pairwise disjoint, union exactly [a,b)" in one statement *)
Lemma tiling_count : forall l a b, tiling l a b ->
  forall x, cover_count x l = if (a <=? x) && (x <? b) then 1%nat else 0%nat.
Proof.
  induction 1; intro x; unfold cover_count in *; cbn [filter].
  - destruct (a <=? x) eqn:E1, (x <? a) eqn:E2; cbn; auto; lia.
  - specialize (IHtiling x). pose proof (tiling_le _ _ _ H0) as Hle.
    unfold covers at 1; cbn [fst snd].
    destruct (a <=? x) eqn:E1, (x <? m) eqn:E2, (m <=? x) eqn:E3, (x <? b) eqn:E4;
      cbn [andb length] in *; try rewrite IHtiling; auto; try lia.
Qed.

Lemma cover_count_perm : forall x l1 l2, Permutation l1 l2 -> cover_count x l1 = cover_count x l2.
Proof.
  unfold cover_count. induction 1; cbn [filter]; auto.
  - destruct (covers x x0); cbn [length]; congruence.
  - destruct (covers x x0), (covers x y); cbn [length]; congruence.
  - congruence.
Qed.

Lemma cover_count_app : forall x l1 l2, cover_count x (l1 ++ l2) = (cover_count x l1 + cover_count x l2)%nat.
Proof. intros. unfold cover_count. rewrite filter_app, app_length. reflexivity. Qed.

(* ------------------------------------------------------------------ *)
(** * (a) the split *)

Definition size_ok (each : Z) (r : Z * Z) : Prop := snd r - fst r = each \/ snd r - fst r = each + 1.

Lemma split_loop_spec : forall n iterend each extra,
  0 < each -> 0 <= extra ->
  tiling (split_loop n iterend each extra) iterend (iterend + Z.of_nat n * each + Z.min extra (Z.of_nat n))
  /\ length (split_loop n iterend each extra) = n
  /\ Forall (size_ok each) (split_loop n iterend each extra).
Proof.
  induction n; intros iterend each extra He Hx.
  - cbn [split_loop]. replace (iterend + Z.of_nat 0 * each + Z.min extra (Z.of_nat 0)) with iterend by lia.
    repeat split; constructor.
  - cbn [split_loop].
    destruct (0 <? extra) eqn:E.
    + destruct (IHn (iterend + each + 1) each (extra - 1) He ltac:(lia)) as (T & L & Sz).
      repeat split.
      * constructor; [lia|].
        replace (iterend + Z.of_nat (S n) * each + Z.min extra (Z.of_nat (S n)))
          with (iterend + each + 1 + Z.of_nat n * each + Z.min (extra - 1) (Z.of_nat n)) by lia.
        exact T.
      * cbn [length]. congruence.
      * constructor; [right; cbn [fst snd]; lia | exact Sz].
    + destruct (IHn (iterend + each) each extra He Hx) as (T & L & Sz).
      repeat split.
      * constructor; [lia|].
        replace (iterend + Z.of_nat (S n) * each + Z.min extra (Z.of_nat (S n)))
          with (iterend + each + Z.of_nat n * each + Z.min extra (Z.of_nat n)) by lia.
        exact T.
      * cbn [length]. congruence.
      * constructor; [left; cbn [fst snd]; lia | exact Sz].
Qed.

Lemma maxworkers_min : forall start stop nw, start < stop -> 1 <= nw < 65536 ->
  maxworkers start stop nw = Z.min (stop - start) nw.
Proof.
  intros. unfold maxworkers, wrap16.
  destruct (nw <? stop - start) eqn:E; rewrite Z.mod_small; lia.
Qed.

(** split_partition: for every start < stop and every worker count the ranges are non-empty, consecutive,
    disjoint, their concatenation is [start,stop), there are min(len, workers) of them and sizes differ by <= 1 *)
Lemma split_partition_proof : forall start stop nw, start < stop -> 1 <= nw < 65536 ->
  tiling (split start stop nw) start stop
  /\ length (split start stop nw) = Z.to_nat (Z.min (stop - start) nw)
  /\ exists each, 0 < each /\ Forall (size_ok each) (split start stop nw).
Proof.
  intros start stop nw Hlt Hnw. unfold split. rewrite maxworkers_min by assumption.
  set (mw := Z.min (stop - start) nw). assert (Hmw : 1 <= mw <= stop - start) by (unfold mw; lia).
  set (each := (stop - start) / mw).
  assert (Heach : 0 < each) by (unfold each; apply Z.div_str_pos; lia).
  assert (Hdm : stop - start = mw * each + (stop - start) mod mw) by (unfold each; apply Z.div_mod; lia).
  assert (Hmod : 0 <= (stop - start) mod mw < mw) by (apply Z.mod_pos_bound; lia).
  set (extra := stop - start - each * mw).
  assert (Hx : 0 <= extra < mw) by (unfold extra; lia).
  destruct (split_loop_spec (Z.to_nat mw) start each extra Heach ltac:(lia)) as (T & L & Sz).
  repeat split.
  - replace stop with (start + Z.of_nat (Z.to_nat mw) * each + Z.min extra (Z.of_nat (Z.to_nat mw))); [exact T|].
    rewrite Z2Nat.id by lia. unfold extra. lia.
  - exact L.
  - exists each. split; assumption.
Qed.

(* ------------------------------------------------------------------ *)
(** * (b) the tree spawn *)

Definition idcount (x : Z) (l : list (Z * Z)) : nat := count_occ Z.eq_dec (map fst l) x.

Lemma idcount_app : forall x l1 l2, idcount x (l1 ++ l2) = (idcount x l1 + idcount x l2)%nat.
Proof. intros. unfold idcount. rewrite map_app, count_occ_app. reflexivity. Qed.

Lemma mod_double : forall x P, 0 < P ->
  exists r b, 0 <= r < P /\ (b = 0 \/ b = 1) /\ x mod P = r /\ x mod (2 * P) = r + P * b /\
              exists q, x = P * (2 * q + b) + r.
Proof.
  intros x P HP.
  exists (x mod P), ((x / P) mod 2).
  pose proof (Z.mod_pos_bound x P HP). pose proof (Z.mod_pos_bound (x / P) 2 ltac:(lia)).
  repeat split; try lia.
  - replace (2 * P) with (P * 2) by lia. rewrite Z.rem_mul_r by lia. reflexivity.
  - exists ((x / P) / 2).
    pose proof (Z.div_mod (x / P) 2 ltac:(lia)). pose proof (Z.div_mod x P ltac:(lia)).
    rewrite <- H1. lia.
Qed.

Lemma small_multiple : forall P k d, 0 < P -> P * k = d -> - P < d < P -> k = 0.
Proof.
  intros P k d HP Hk Hd.
  destruct (Z.lt_trichotomy k 0) as [Hn | [Hz | Hp]]; auto; exfalso.
  - assert (P * k <= P * (-1)) by (apply Z.mul_le_mono_nonneg_l; lia). lia.
  - assert (P * 1 <= P * k) by (apply Z.mul_le_mono_nonneg_l; lia). lia.
Qed.

Lemma children_count : forall f tot id level x,
  0 <= level -> 0 <= id < 2 ^ level -> Z.of_nat f + level > tot ->
  idcount x (children f tot id level) =
  if (id <? x) && (x <=? tot) && (x mod 2 ^ level =? id) then 1%nat else 0%nat.
Proof.
  induction f; intros tot id level x Hl Hid Hf.
  - cbn [children]. unfold idcount; cbn [map count_occ].
    assert (level < 2 ^ level) by (apply Z.pow_gt_lin_r; lia).
    destruct ((id <? x) && (x <=? tot) && (x mod 2 ^ level =? id)) eqn:E; auto.
    exfalso. assert (x mod 2 ^ level = x) by (apply Z.mod_small; lia). lia.
  - cbn [children].
    assert (HP : 0 < 2 ^ level) by (apply Z.pow_pos_nonneg; lia).
    assert (HP2 : 2 ^ (level + 1) = 2 * 2 ^ level) by (rewrite Z.pow_add_r by lia; lia).
    set (P := 2 ^ level) in *.
    destruct (mod_double x P HP) as (r & b & Hr & Hb & Hm1 & Hm2 & q & Hq).
    destruct (id + P <=? tot) eqn:Hle.
    + unfold idcount at 1. cbn [map fst count_occ]. fold (idcount x (children f tot (id + P) (level + 1) ++ children f tot id (level + 1))).
      rewrite idcount_app.
      rewrite (IHf tot (id + P) (level + 1) x) by lia.
      rewrite (IHf tot id (level + 1) x) by lia.
      rewrite HP2, Hm1, Hm2. clear Hm1 Hm2.
      destruct (Z.eq_dec (id + P) x) as [Ex|Ex].
      * (* x = id + P *)
        assert (r = id /\ b = 1) as [-> ->].
        { assert (2 * q + b - 1 = 0) by (apply (small_multiple P _ (id - r)); lia). lia. }
        replace ((id + P <? x) && (x <=? tot) && (id + P * 1 =? id + P)) with false by lia.
        replace ((id <? x) && (x <=? tot) && (id + P * 1 =? id)) with false by lia.
        replace ((id <? x) && (x <=? tot) && (id =? id)) with true by lia.
        reflexivity.
      * destruct ((id <? x) && (x <=? tot) && (r =? id)) eqn:E.
        -- assert (r = id) by lia. subst r.
           destruct Hb as [-> | ->].
           ++ replace ((id + P <? x) && (x <=? tot) && (id + P * 0 =? id + P)) with false by lia.
              replace ((id <? x) && (x <=? tot) && (id + P * 0 =? id)) with true by lia.
              reflexivity.
           ++ assert (id + P < x).
              { assert (0 < 2 * q + 1) by nia.
                assert (P * 1 <= P * (2 * q + 1)) by (apply Z.mul_le_mono_nonneg_l; lia). lia. }
              replace ((id + P <? x) && (x <=? tot) && (id + P * 1 =? id + P)) with true by lia.
              replace ((id <? x) && (x <=? tot) && (id + P * 1 =? id)) with false by lia.
              reflexivity.
        -- assert (Hn : ~ (id < x /\ x <= tot /\ r = id)) by lia.
           replace ((id + P <? x) && (x <=? tot) && (r + P * b =? id + P)) with false.
           2:{ symmetry. apply not_true_is_false. intro Ht.
               apply Hn. destruct Hb as [-> | ->]; lia. }
           replace ((id <? x) && (x <=? tot) && (r + P * b =? id)) with false.
           2:{ symmetry. apply not_true_is_false. intro Ht.
               apply Hn. destruct Hb as [-> | ->]; lia. }
           reflexivity.
    + unfold idcount; cbn [map count_occ].
      rewrite Hm1. clear Hm1 Hm2.
      destruct ((id <? x) && (x <=? tot) && (r =? id)) eqn:E; auto.
      exfalso. assert (r = id) by lia. subst r.
      assert (id + P > tot) by lia.
      assert (0 < 2 * q + b) by nia.
      nia.
Qed.

(** tree_spawns_all: the tree rooted at id 0 spawns every id in 0..maxworkers-1 exactly once and no other id *)
Lemma tree_spawns_all_proof : forall mw x, 1 <= mw ->
  idcount x (tree mw) = if (0 <=? x) && (x <? mw) then 1%nat else 0%nat.
Proof.
  intros mw x Hmw. unfold tree.
  unfold idcount. cbn [map fst count_occ]. fold (idcount x (children (S (Z.to_nat mw)) (mw - 1) 0 0)).
  rewrite children_count by (cbn; lia).
  rewrite Z.pow_0_r, Z.mod_1_r.
  destruct (Z.eq_dec 0 x) as [<-|Ne].
  - cbn. destruct (0 <? mw) eqn:E; auto; lia.
  - destruct ((0 <? x) && (x <=? mw - 1) && (0 =? 0)) eqn:E1, ((0 <=? x) && (x <? mw)) eqn:E2; auto; lia.
Qed.

Lemma count_occ_seq : forall n x,
  count_occ Z.eq_dec (map Z.of_nat (seq 0 n)) x = if (0 <=? x) && (x <? Z.of_nat n) then 1%nat else 0%nat.
Proof.
  induction n; intro x.
  - cbn. destruct (0 <=? x) eqn:E, (x <? 0) eqn:E2; auto; lia.
  - rewrite seq_S, map_app, count_occ_app, IHn. cbn [map count_occ plus].
    destruct (Z.eq_dec (Z.of_nat n) x);
      destruct ((0 <=? x) && (x <? Z.of_nat n)) eqn:E1, ((0 <=? x) && (x <? Z.of_nat (S n))) eqn:E2; auto; lia.
Qed.

Lemma tree_ids_perm : forall mw, 1 <= mw ->
  Permutation (map fst (tree mw)) (map Z.of_nat (seq 0 (Z.to_nat mw))).
Proof.
  intros mw H. apply (Permutation_count_occ Z.eq_dec). intro x.
  rewrite count_occ_seq, Z2Nat.id by lia.
  apply (tree_spawns_all_proof mw x H).
Qed.

(** every wrapper returns into its own location and the caller waits on exactly these locations *)
Lemma completion_slots_proof : forall st start stop nw, st = ALIGNED \/ st = SYNCVAR_T ->
  start < stop -> 1 <= nw < 65536 ->
  Permutation (map (fun t => snd (fst t)) (balance_tasks st start stop nw))
              (map SlotIdx (waited_slots (maxworkers start stop nw))).
Proof.
  intros st start stop nw Hst Hlt Hnw. unfold balance_tasks, waited_slots.
  rewrite map_map. cbn [fst snd].
  assert (Hmw : 1 <= maxworkers start stop nw) by (rewrite maxworkers_min; lia).
  replace (map (fun x : Z * Z => ret_slot st (fst x)) (tree (maxworkers start stop nw)))
    with (map SlotIdx (map fst (tree (maxworkers start stop nw)))).
  - apply Permutation_map. apply tree_ids_perm. exact Hmw.
  - rewrite map_map. apply map_ext. intro a. destruct Hst as [-> | ->]; reflexivity.
Qed.

Lemma map_nth_seq : forall (A : Type) (l : list A) d, map (fun k => nth k l d) (seq 0 (length l)) = l.
Proof.
  intros A l d. apply (nth_ext _ _ d d).
  - rewrite map_length, seq_length. reflexivity.
  - intros n Hn. rewrite map_length, seq_length in Hn.
    rewrite (nth_indep _ d (nth 0 l d)) by (rewrite map_length, seq_length; exact Hn).
    rewrite (map_nth (fun k => nth k l d) (seq 0 (length l)) 0%nat n).
    rewrite seq_nth by exact Hn. reflexivity.
Qed.

(** the ranges run by the wrappers of one qt_loop_balance call are the split, each exactly once *)
Lemma balance_ranges_perm : forall st start stop nw, start < stop -> 1 <= nw < 65536 ->
  Permutation (map snd (balance_tasks st start stop nw)) (split start stop nw).
Proof.
  intros st start stop nw Hlt Hnw. unfold balance_tasks. rewrite map_map. cbn [snd].
  destruct (split_partition_proof start stop nw Hlt Hnw) as (_ & L & _).
  assert (Hmw : 1 <= maxworkers start stop nw) by (rewrite maxworkers_min; lia).
  set (sp := split start stop nw) in *.
  replace (map (fun x : Z * Z => nth (Z.to_nat (fst x)) sp (0, 0)) (tree (maxworkers start stop nw)))
    with (map (fun k => nth (Z.to_nat k) sp (0, 0)) (map fst (tree (maxworkers start stop nw)))) by (rewrite map_map; reflexivity).
  eapply Permutation_trans; [apply Permutation_map; apply tree_ids_perm; exact Hmw|].
  rewrite map_map. rewrite maxworkers_min by assumption. rewrite <- L.
  replace (map (fun x : nat => nth (Z.to_nat (Z.of_nat x)) sp (0, 0)) (seq 0 (length sp)))
    with (map (fun k => nth k sp (0, 0)) (seq 0 (length sp))).
  - rewrite map_nth_seq. apply Permutation_refl.
  - apply map_ext. intro k. rewrite Nat2Z.id. reflexivity.
Qed.

(** balance_exactly_once: every index of [start,stop) is passed to the user function exactly once, no other index is *)
Lemma balance_exactly_once_proof : forall st start stop nw, start < stop -> 1 <= nw < 65536 ->
  forall x, cover_count x (map snd (balance_tasks st start stop nw)) =
            if (start <=? x) && (x <? stop) then 1%nat else 0%nat.
Proof.
  intros. rewrite (cover_count_perm x _ _ (balance_ranges_perm st start stop nw H H0)).
  apply tiling_count. apply split_partition_proof; assumption.
Qed.

(* ------------------------------------------------------------------ *)
(** * (c) qt_loop_spawner: one task per index *)

Definition task_range (t : Z * Z * Z) : Z * Z := (fst (fst t), snd (fst t)).

Lemma spawner_loop_spec : forall n i tc,
  tiling (map task_range (spawner_loop n i tc)) i (i + Z.of_nat n)
  /\ Forall (fun t => snd (fst t) = fst (fst t) + 1) (spawner_loop n i tc)
  /\ map snd (spawner_loop n i tc) = map (fun k => tc + Z.of_nat k) (seq 0 n).
Proof.
  induction n; intros i tc; cbn [spawner_loop map].
  - replace (i + Z.of_nat 0) with i by lia. repeat split; constructor.
  - destruct (IHn (i + 1) (tc + 1)) as (T & F & Sz). repeat split.
    + unfold task_range at 1; cbn [fst snd]. constructor; [lia|].
      replace (i + Z.of_nat (S n)) with (i + 1 + Z.of_nat n) by lia. exact T.
    + constructor; [reflexivity | exact F].
    + cbn [seq map snd]. f_equal; [lia|]. rewrite Sz. rewrite <- seq_shift, map_map.
      apply map_ext. intro k. lia.
Qed.

(** spawner_one_task_per_index: a spawner given [lo,hi) creates exactly one task per index, in order, task k
    (threadct k) running [lo+k, lo+k+1) with return slot k *)
Lemma spawner_spec : forall lo hi, lo <= hi ->
  tiling (map task_range (spawner lo hi)) lo hi
  /\ Forall (fun t => snd (fst t) = fst (fst t) + 1) (spawner lo hi)
  /\ map snd (spawner lo hi) = map Z.of_nat (seq 0 (Z.to_nat (hi - lo))).
Proof.
  intros lo hi H. unfold spawner.
  destruct (spawner_loop_spec (Z.to_nat (hi - lo)) lo 0) as (T & F & Sz).
  split; [|split].
  - replace hi with (lo + Z.of_nat (Z.to_nat (hi - lo))) at 2 by lia. exact T.
  - exact F.
  - rewrite Sz. apply map_ext. intro; lia.
Qed.

Lemma flat_spawner_tiling : forall l a b, tiling l a b ->
  tiling (map task_range (flat_map (fun r => spawner (fst r) (snd r)) l)) a b
  /\ Forall (fun t => snd (fst t) = fst (fst t) + 1) (flat_map (fun r => spawner (fst r) (snd r)) l).
Proof.
  induction 1; cbn [flat_map map].
  - split; constructor.
  - destruct IHtiling as (T & F). cbn [fst snd].
    destruct (spawner_spec a m ltac:(lia)) as (T1 & F1 & _).
    split.
    + rewrite map_app. eapply tiling_app; eauto.
    + apply Forall_app. split; assumption.
Qed.

(** qt_loop_indices: qt_loop = balance over spawners; the tasks are single indices tiling [start,stop) *)
Lemma qt_loop_indices_proof : forall start stop nw, start < stop -> 1 <= nw < 65536 ->
  tiling (map task_range (qt_loop_tasks start stop nw)) start stop
  /\ Forall (fun t => snd (fst t) = fst (fst t) + 1) (qt_loop_tasks start stop nw).
Proof.
  intros. unfold qt_loop_tasks. apply flat_spawner_tiling. apply split_partition_proof; assumption.
Qed.
