From Coq Require Import List ZArith.
From QV Require Import Loops.Model Loops.CompletionQDisable.
Require Extraction.
Require Import ExtrOcamlBasic.
Extraction Language OCaml.
Extraction "../ocaml/gen/c12qdis_model.ml" dinit dstep drun daccept is_ret w_live w_in w_done_safe w_signed_off a_pend cnt
  Z.add Z.mul Z.div_eucl Z.of_nat Z.to_nat Z.compare.
