(** C12, third clause for the queue loops: qt_loop_queue_run returns only after every worker has been told "no more" and
    has made the func call for every range it claimed; with claims_tile the executed calls cover [start,stop) exactly once. *)
From Coq Require Import List ZArith Bool Lia Permutation.
From Coq Require Import ZifyBool.
From QV Require Import Loops.Model Loops.Proofs Loops.ProofsCursor Loops.Completion.
Import ListNotations.
Local Open Scope Z_scope.

Definition optl (o : option (Z * Z)) : list (Z * Z) := match o with Some c => [c] | None => [] end.
Definition pendl (l : list (option (Z * Z))) : list (Z * Z) := flat_map optl l.
Definition ntrue (l : list bool) : nat := length (filter (fun b : bool => b) l).

Lemma pendl_set_nth : forall l i o o', nth_error l i = Some o ->
  Permutation (pendl (set_nth i o' l) ++ optl o) (pendl l ++ optl o').
Proof.
  induction l as [|a l IH]; intros i o o' H; destruct i; cbn [nth_error] in H; try discriminate.
  - inversion H; subst a. cbn [set_nth pendl flat_map].
    fold (pendl l).
    eapply Permutation_trans; [apply Permutation_app_comm|]. rewrite <- app_assoc.
    apply Permutation_app_head. apply Permutation_app_comm.
  - cbn [set_nth pendl flat_map]. fold (pendl l). fold (pendl (set_nth i o' l)).
    rewrite <- !app_assoc. apply Permutation_app_head. apply IH. exact H.
Qed.

Lemma set_nth_other : forall (A : Type) (l : list A) i j x, i <> j -> nth_error (set_nth i x l) j = nth_error l j.
Proof.
  induction l as [|a l IH]; intros i j x H; destruct i; cbn [set_nth]; auto.
  - destruct j; [congruence | reflexivity].
  - destruct j; cbn [nth_error]; auto.
Qed.

Lemma set_nth_same : forall (A : Type) (l : list A) i x, (i < length l)%nat -> nth_error (set_nth i x l) i = Some x.
Proof.
  induction l as [|a l IH]; intros i x H; cbn [length] in H; [lia|].
  destruct i; cbn [set_nth nth_error]; auto. apply IH. lia.
Qed.

Lemma set_nth_len : forall (A : Type) n (x : A) l, length (set_nth n x l) = length l.
Proof. intros A n x l. revert n. induction l; intro n; destruct n; cbn [set_nth length]; auto. Qed.

Lemma ntrue_set : forall l i, nth_error l i = Some false -> ntrue (set_nth i true l) = S (ntrue l).
Proof.
  unfold ntrue. induction l as [|a l IH]; intros i H; destruct i; cbn [nth_error] in H; try discriminate.
  - inversion H; subst a. reflexivity.
  - cbn [set_nth filter]. destruct a; cbn [length]; rewrite IH; auto.
Qed.

Lemma filter_len_le : forall (A : Type) (f : A -> bool) l, (length (filter f l) <= length l)%nat.
Proof. intros A f l. induction l; cbn [filter length]; auto. destruct (f a); cbn [length]; lia. Qed.

Lemma ntrue_all : forall l, (length l <= ntrue l)%nat -> forall i b, nth_error l i = Some b -> b = true.
Proof.
  unfold ntrue. induction l as [|a l IH]; intros H i b Hn; [destruct i; discriminate|].
  pose proof (filter_len_le _ (fun b : bool => b) l) as Hle.
  cbn [filter length] in H. destruct a.
  - cbn [length] in H. destruct i; cbn [nth_error] in Hn; [congruence|]. eapply IH; eauto. lia.
  - lia.
Qed.

Lemma nth_false_inrange : forall l i, nth i l true = false -> nth_error l i = Some false.
Proof.
  induction l as [|a l IH]; intros i H; destruct i; cbn [nth] in H; try discriminate.
  - subst. reflexivity.
  - cbn [nth_error]. auto.
Qed.

Lemma run_app : forall p a b s, run p s (a ++ b) = run p (run p s a) b.
Proof.
  induction a as [|[tid o] a IH]; intros b s; cbn [app run]; auto.
  destruct (step p s tid o); apply IH.
Qed.

Lemma tstep_done : forall p slow cur ph lb t, tstep p slow cur ph lb t = None <-> t_pc t = Done.
Proof.
  intros. unfold tstep. destruct (t_pc t); split; intro H; try discriminate; auto;
    repeat match goal with
           | H : context [if ?c then _ else _] |- _ => destruct c
           | H : context [match ?c with _ => _ end] |- _ => destruct c
           end; try discriminate.
Qed.

Section Queue.
  Variable p : params.
  Variable start0 : Z.
  Variable sheps : list Z.
  Variable lb0 : Z.

  Record QInv (q : qstate) : Prop := {
    qi_reach : exists sched, q_s q = run p (init p start0 sheps lb0) sched;
    qi_len1 : length (q_pend q) = length (s_thr (q_s q));
    qi_len2 : length (q_sig q) = length (s_thr (q_s q));
    qi_perm : Permutation (map snd (s_out (q_s q))) (map snd (q_exec q) ++ pendl (q_pend q));
    qi_sig : forall tid, nth_error (q_sig q) tid = Some true ->
                         pc_of (q_s q) tid = Done /\ nth_error (q_pend q) tid = Some None;
    qi_dc : q_dc q = Z.of_nat (ntrue (q_sig q));
    qi_ret : q_ret q = true -> Z.of_nat (length (s_thr (q_s q))) <= q_dc q
  }.

  Lemma qstep_inv : forall q a q', qstep p q a = Some q' -> QInv q -> QInv q'.
  Proof.
    intros q a q' H [R L1 L2 P S D Rt]. destruct a as [|tid slow]; cbn [qstep] in H.
    - destruct (q_ret q); [discriminate|].
      destruct (Z.of_nat (length (s_thr (q_s q))) <=? q_dc q) eqn:E; inversion H; subst q'; clear H.
      constructor; cbn [q_s q_pend q_exec q_sig q_dc q_ret]; auto. intros _. lia.
    - destruct (nth_error (q_pend q) tid) as [[c|]|] eqn:Ep; [| |discriminate].
      + (* the func call for the pending claim *)
        inversion H; subst q'; clear H.
        constructor; cbn [q_s q_pend q_exec q_sig q_dc q_ret]; auto.
        * rewrite set_nth_len. exact L1.
        * rewrite map_app. cbn [map snd]. eapply Permutation_trans; [exact P|].
          rewrite <- app_assoc. apply Permutation_app_head.
          pose proof (pendl_set_nth _ _ _ None Ep) as Hp. cbn [optl] in Hp. rewrite app_nil_r in Hp.
          eapply Permutation_trans; [apply Permutation_sym; exact Hp|]. apply Permutation_app_comm.
        * intros tid' Hs. destruct (S tid' Hs) as [S1 S2]. split; [exact S1|].
          destruct (Nat.eq_dec tid tid') as [<-|Ne]; [congruence|]. rewrite set_nth_other by exact Ne. exact S2.
      + destruct (nth_error (s_thr (q_s q)) tid) as [t|] eqn:Et; [|discriminate].
        destruct (tstep p slow (s_cur (q_s q)) (s_phase (q_s q)) (s_lb (q_s q)) t) as [e|] eqn:Ets.
        * (* a step of get_iterations *)
          destruct (step p (q_s q) tid slow) as [s'|] eqn:Est; inversion H; subst q'; clear H.
          assert (Hs' : s' = mkS (e_cur e) (e_phase e) (e_lb e)
                             (match e_claim e with Some c => s_out (q_s q) ++ [(tid, c)] | None => s_out (q_s q) end)
                             (set_nth tid (mkT (e_pc e) (e_first e) (t_shep t)) (s_thr (q_s q)))).
          { unfold step in Est. rewrite Et, Ets in Est. inversion Est. reflexivity. }
          assert (Hlen : length (s_thr s') = length (s_thr (q_s q))) by (eapply step_length; eauto).
          constructor; cbn [q_s q_pend q_exec q_sig q_dc q_ret]; auto.
          -- destruct R as [sc Hsc]. exists (sc ++ [(tid, slow)]). rewrite run_app, <- Hsc. cbn [run]. rewrite Est. reflexivity.
          -- rewrite set_nth_len. congruence.
          -- congruence.
          -- pose proof (pendl_set_nth _ _ _ (e_claim e) Ep) as Hp. cbn [optl] in Hp. rewrite app_nil_r in Hp.
             rewrite Hs'; cbn [s_out].
             destruct (e_claim e) as [c|]; cbn [optl] in Hp.
             ++ rewrite map_app. cbn [map snd].
                eapply Permutation_trans; [apply Permutation_app_tail; exact P|].
                rewrite <- app_assoc. apply Permutation_app_head. apply Permutation_sym. exact Hp.
             ++ rewrite app_nil_r in Hp. eapply Permutation_trans; [exact P|]. apply Permutation_app_head.
                apply Permutation_sym. exact Hp.
          -- intros tid' Hs. destruct (S tid' Hs) as [S1 S2].
             destruct (Nat.eq_dec tid tid') as [<-|Ne].
             ++ exfalso. unfold pc_of in S1. rewrite Et in S1. apply (tstep_done p slow (s_cur (q_s q)) (s_phase (q_s q)) (s_lb (q_s q))) in S1. congruence.
             ++ split; [|rewrite set_nth_other by exact Ne; exact S2].
                unfold pc_of in *. rewrite Hs'; cbn [s_thr]. rewrite set_nth_other by exact Ne. exact S1.
          -- rewrite Hlen. exact Rt.
        * (* "no more": donecount += 1, once *)
          destruct (nth tid (q_sig q) true) eqn:Esig; inversion H; subst q'; clear H.
          apply nth_false_inrange in Esig.
          constructor; cbn [q_s q_pend q_exec q_sig q_dc q_ret]; auto.
          -- rewrite set_nth_len. exact L2.
          -- intros tid' Hs. destruct (Nat.eq_dec tid tid') as [<-|Ne].
             ++ split; [|exact Ep]. unfold pc_of. rewrite Et. apply (tstep_done p slow (s_cur (q_s q)) (s_phase (q_s q)) (s_lb (q_s q))). exact Ets.
             ++ rewrite set_nth_other in Hs by exact Ne. apply S. exact Hs.
          -- rewrite (ntrue_set _ _ Esig). lia.
          -- intro Hr. specialize (Rt Hr). lia.
  Qed.

  Lemma qrun_inv : forall sched q, QInv q -> QInv (qrun p q sched).
  Proof.
    induction sched as [|a r IH]; intros q H; cbn [qrun]; auto.
    destruct (qstep p q a) eqn:E; auto. apply IH. eapply qstep_inv; eauto.
  Qed.

  Lemma qinit_inv : QInv (qinit p start0 sheps lb0).
  Proof.
    unfold qinit. constructor; cbn [q_s q_pend q_exec q_sig q_dc q_ret].
    - exists []. reflexivity.
    - unfold init; cbn [s_thr]. rewrite !map_length. reflexivity.
    - unfold init; cbn [s_thr]. rewrite !map_length. reflexivity.
    - unfold init; cbn [s_out map app]. induction sheps; cbn; auto.
    - intros tid H. exfalso. revert tid H. induction sheps as [|a l IH]; intros tid H; destruct tid; cbn in H; try discriminate. eauto.
    - induction sheps; cbn; auto.
    - discriminate.
  Qed.

  Hypothesis Hsheps : 1 <= p_sheps p.
  Hypothesis Hchunk : 1 <= p_chunk p.
  Hypothesis Hstep : p_fl p = TIMED -> 1 <= p_step p.
  Hypothesis Hstart : start0 <= p_stop p.
  Hypothesis Hnw : p_nw p = 1 -> (length sheps <= 1)%nat.
  Hypothesis Hne : sheps <> [].

  (** loop_returns_after_all for qt_loop_queue_run *)
  Theorem queue_returns_after_all : forall sched,
    let q := qrun p (qinit p start0 sheps lb0) sched in
    q_ret q = true ->
    all_done (q_s q) = true /\ pendl (q_pend q) = [] /\
    Forall (fun r => fst r < snd r) (map snd (q_exec q)) /\
    forall x, cover_count x (map snd (q_exec q)) = if (start0 <=? x) && (x <? p_stop p) then 1%nat else 0%nat.
  Proof.
    intros sched q Hret.
    destruct (qrun_inv sched _ qinit_inv) as [R L1 L2 P S D Rt]. fold q in R, L1, L2, P, S, D, Rt.
    specialize (Rt Hret).
    assert (Hall : forall i b, nth_error (q_sig q) i = Some b -> b = true).
    { apply ntrue_all. lia. }
    assert (Hthr : forall i t, nth_error (s_thr (q_s q)) i = Some t -> t_pc t = Done /\ nth_error (q_pend q) i = Some None).
    { intros i t Hi.
      assert (Hlt : (i < length (q_sig q))%nat) by (rewrite L2; apply nth_error_Some; congruence).
      destruct (nth_error (q_sig q) i) as [b|] eqn:Eb; [|apply nth_error_None in Eb; lia].
      rewrite (Hall i b Eb) in Eb. destruct (S i Eb) as [S1 S2]. unfold pc_of in S1. rewrite Hi in S1. auto. }
    assert (Hdone : all_done (q_s q) = true).
    { unfold all_done. apply forallb_forall. intros t Ht. apply In_nth_error in Ht. destruct Ht as [i Hi].
      destruct (Hthr i t Hi) as [E _]. rewrite E. reflexivity. }
    assert (Hpend : pendl (q_pend q) = []).
    { assert (G : forall l : list (option (Z * Z)), (forall i o, nth_error l i = Some o -> o = None) -> pendl l = []).
      { induction l as [|a l IH]; intro Hl; auto. cbn [pendl flat_map].
        rewrite (Hl 0%nat a eq_refl). cbn [optl app]. apply IH. intros i o Hi. apply (Hl (Datatypes.S i) o Hi). }
      apply G. intros i o Hi.
      assert (Hlt : (i < length (s_thr (q_s q)))%nat) by (rewrite <- L1; apply nth_error_Some; congruence).
      destruct (nth_error (s_thr (q_s q)) i) as [t|] eqn:Et; [|apply nth_error_None in Et; lia].
      destruct (Hthr i t Et) as [_ E]. congruence. }
    destruct R as [sc Hsc].
    destruct (claims_tile_all p start0 Hsheps Hchunk Hstep Hstart sheps lb0 sc Hnw) as (C1 & _ & C3).
    rewrite <- Hsc in C1, C3.
    rewrite Hpend, app_nil_r in P.
    split; [exact Hdone|]. split; [exact Hpend|]. split.
    - rewrite Forall_forall in *. intros r Hr. apply C1. eapply Permutation_in; [apply Permutation_sym; exact P | exact Hr].
    - intro x. rewrite <- (cover_count_perm x _ _ P). apply C3; auto.
  Qed.
End Queue.

(* non-vacuity: a contended FACTORED run of 3 workers in which the caller does return, after 14 executed calls *)
Example queue_returns_example :
  let p := mkP FACTORED 37 3 3 1 1 in
  let sched := flat_map (fun _ => [QCaller; QWorker 0 false; QWorker 1 false; QWorker 2 false]) (seq 0 300) in
  let q := qrun p (qinit p 0 [0; 1; 0] (-7)) sched in
  q_ret q = true /\ length (q_exec q) = 14%nat /\ q_dc q = 3.
Proof. vm_compute. repeat split. Qed.
