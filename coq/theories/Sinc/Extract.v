From Coq Require Import List ZArith.
From QV Require Import Sinc.Model.
Require Extraction.
Require Import ExtrOcamlBasic.
Extraction Language OCaml.
Extraction "../ocaml/gen/c10_model.ml" start reset step pick enabled_list quiescent reduce.
