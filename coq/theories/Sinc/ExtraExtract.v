From Coq Require Import List ZArith.
From QV Require Import Sinc.Model Sinc.Extra.
Require Extraction.
Require Import ExtrOcamlBasic.
Extraction Language OCaml.
Extraction "../ocaml/gen/c10extra_model.ml" xinit xstep xpick xenabled_list xquiescent nparts slot_of byte_off part_size decode_off tmpdata submit_slot.
