(* C10 -- executable micro-step model of the donecount sinc (src/sincs/donecount.c).

   Shared state  : counter (aligned_t, wraps mod 2^64), ready (FEB word: full when complete),
                   slots (values[shepherd][worker], flattened shepherd-major as collate walks them),
                   result, initial value; void sincs (rdata == NULL) have no value part.
   One step      = one shared access / one call of the user's operator:

     qt_sinc_submit(value):           PSlot   rdata->op(slot(me), value)            (only when value != NULL)
                                      PDec    c = qthread_incr(&counter,-1) ; if (c == 1) collate
       qt_sinc_internal_collate:      PC0     memcpy(result, initial_value)          (only when rdata)
                                      PCol k  rdata->op(result, slot k)   k = 0 .. nslots-1
                                      PFill   qthread_fill(&ready)                   releases every waiter
     qt_sinc_expect(n), n != 0:       PAdd    c = qthread_incr(&counter, n) ; if (c == 0)
                                      PEmpty    qthread_empty(&ready)
     qt_sinc_wait(target):            PRead   qthread_readFF(&ready)                 empty: waiter (PBlk)
                                      PCopy   memcpy(target, result)                 (only when target && rdata)

   The slot update is ONE step: a worker runs one task at a time and the operator does not yield, so two
   submitters that share a slot never overlap inside rdata->op; submitters on different workers use different
   slots.  That is the only placement fact used; the slot of every submit is otherwise arbitrary.

   History variables (never read by the program): decs (# of -1 fetch-adds), exps (sum of the expect
   increments done), started (# of submits begun), submitted (values folded into slots so far),
   exp0 (some expect found the count at zero), over (some submit began although `started` had already
   reached initial + exps: more submissions than expected). *)
From Coq Require Import List ZArith Bool Arith.
Import ListNotations.
Local Open Scope Z_scope.

Definition wrap64 (z : Z) : Z := z mod 18446744073709551616.

Fixpoint updn {A} (i : nat) (x : A) (l : list A) : list A :=
  match l, i with
  | [], _ => []
  | _ :: r, O => x :: r
  | y :: r, S k => y :: updn k x r
  end.

Section Sinc.
  Variable V : Type.
  Variable vop : V -> V -> V.      (* dest := vop dest src *)

  Inductive op := Submit (v : option V) (slot : nat) | Expect (n : nat) | Wait (tgt : bool).

  Inductive pc :=
  | PIdle | PSlot (v : V) (slot : nat) | PDec (fresh : bool) | PC0 | PCol (k : nat) | PFill
  | PAdd (n : nat) | PEmpty | PRead (tgt : bool) | PBlk (tgt : bool) | PCopy.

  Record thr := mkthr { t_pc : pc; t_prog : list op; t_got : list (option V) }.

  Record state := mkst {
    hasdata : bool; initv : V; nslots : nat;
    counter : Z; ready : bool; slots : list V; result : V;
    thrs : list thr;
    c0 : Z; decs : nat; exps : Z; started : nat; submitted : list V; exp0 : bool; over : bool }.

  (* first access of the next operation (qt_sinc_expect(0) performs no access at all) *)
  Fixpoint load (hd : bool) (p : list op) : pc * list op :=
    match p with
    | [] => (PIdle, [])
    | Submit (Some v) k :: r => if hd then (PSlot v k, r) else (PDec true, r)
    | Submit None _ :: r => (PDec true, r)
    | Expect n :: r => match n with O => load hd r | _ => (PAdd n, r) end
    | Wait t :: r => (PRead t, r)
    end.

  Definition next (hd : bool) (t : thr) : thr :=
    let (p, r) := load hd (t_prog t) in mkthr p r (t_got t).

  Definition setpc (t : thr) (p : pc) : thr := mkthr p (t_prog t) (t_got t).

  (* a waiter gets past the readFF: copy the result next, or return at once *)
  Definition passed (hd : bool) (tgt : bool) (t : thr) : thr :=
    if (tgt && hd)%bool then setpc t PCopy else next hd (mkthr (t_pc t) (t_prog t) (t_got t ++ [None])).

  Definition release (hd : bool) (t : thr) : thr :=
    match t_pc t with PBlk tgt => passed hd tgt t | _ => t end.

  Definition upd_thr (s : state) (l : list thr) : state :=
    mkst (hasdata s) (initv s) (nslots s) (counter s) (ready s) (slots s) (result s) l
         (c0 s) (decs s) (exps s) (started s) (submitted s) (exp0 s) (over s).

  Definition begin_submit (s : state) : state :=
    mkst (hasdata s) (initv s) (nslots s) (counter s) (ready s) (slots s) (result s) (thrs s)
         (c0 s) (decs s) (exps s) (S (started s)) (submitted s) (exp0 s)
         (over s || (c0 s + exps s <=? Z.of_nat (started s)))%bool.

  Definition step (s : state) (i : nat) : option state :=
    match nth_error (thrs s) i with
    | None => None
    | Some t =>
      let hd := hasdata s in
      let put s' t' := upd_thr s' (updn i t' (thrs s')) in
      match t_pc t with
      | PIdle => None
      | PBlk _ => None
      | PSlot v k =>
        let s1 := begin_submit s in
        let x := nth k (slots s) (initv s) in
        let s2 := mkst hd (initv s) (nslots s) (counter s) (ready s) (updn k (vop x v) (slots s)) (result s) (thrs s)
                       (c0 s) (decs s) (exps s) (started s1) (submitted s ++ [v]) (exp0 s) (over s1) in
        Some (put s2 (setpc t (PDec false)))
      | PDec fresh =>
        let s1 := if fresh then begin_submit s else s in
        let c := counter s in
        let s2 := mkst hd (initv s) (nslots s) (wrap64 (c - 1)) (ready s) (slots s) (result s) (thrs s)
                       (c0 s) (S (decs s)) (exps s) (started s1) (submitted s) (exp0 s) (over s1) in
        Some (put s2 (if c =? 1 then setpc t (if hd then PC0 else PFill) else next hd t))
      | PC0 =>
        let s2 := mkst hd (initv s) (nslots s) (counter s) (ready s) (slots s) (initv s) (thrs s)
                       (c0 s) (decs s) (exps s) (started s) (submitted s) (exp0 s) (over s) in
        Some (put s2 (setpc t (match nslots s with O => PFill | _ => PCol 0 end)))
      | PCol k =>
        let s2 := mkst hd (initv s) (nslots s) (counter s) (ready s) (slots s)
                       (vop (result s) (nth k (slots s) (initv s))) (thrs s)
                       (c0 s) (decs s) (exps s) (started s) (submitted s) (exp0 s) (over s) in
        Some (put s2 (setpc t (if (S k <? nslots s)%nat then PCol (S k) else PFill)))
      | PFill =>
        let s2 := mkst hd (initv s) (nslots s) (counter s) true (slots s) (result s) (map (release hd) (thrs s))
                       (c0 s) (decs s) (exps s) (started s) (submitted s) (exp0 s) (over s) in
        Some (put s2 (next hd t))
      | PAdd n =>
        let c := counter s in
        let s2 := mkst hd (initv s) (nslots s) (wrap64 (c + Z.of_nat n)) (ready s) (slots s) (result s) (thrs s)
                       (c0 s) (decs s) (exps s + Z.of_nat n) (started s) (submitted s) (exp0 s || (c =? 0))%bool (over s) in
        Some (put s2 (if c =? 0 then setpc t PEmpty else next hd t))
      | PEmpty =>
        let s2 := mkst hd (initv s) (nslots s) (counter s) false (slots s) (result s) (thrs s)
                       (c0 s) (decs s) (exps s) (started s) (submitted s) (exp0 s) (over s) in
        Some (put s2 (next hd t))
      | PRead tgt =>
        Some (put s (if ready s then passed hd tgt t else setpc t (PBlk tgt)))
      | PCopy =>
        Some (put s (next hd (mkthr (t_pc t) (t_prog t) (t_got t ++ [Some (result s)]))))
      end
    end.

  Definition step_or_stay (s : state) (i : nat) : state :=
    match step s i with Some s' => s' | None => s end.
  Definition exec (s : state) (sched : list nat) : state := fold_left step_or_stay sched s.

  Definition enabled (s : state) (i : nat) : bool :=
    match step s i with Some _ => true | None => false end.
  Definition enabled_list (s : state) : list nat := filter (enabled s) (seq 0 (length (thrs s))).
  Definition pick (s : state) (r : nat) : option nat :=
    match enabled_list s with
    | [] => None
    | l => let p := (r / 1024)%nat in
           if ((0 <? p)%nat && enabled s (p - 1))%bool then Some (p - 1)%nat
           else nth_error l ((r mod 1024) mod length l)
    end.

  (* qt_sinc_init: slots <- initial value, result <- initial value (the reduction of no submissions; /repo commit
     15fe3d8), counter <- expect, ready emptied iff expect != 0. *)
  Definition start (hd : bool) (iv : V) (ns : nat) (expect : Z) (progs : list (list op)) : state :=
    mkst hd iv ns expect (expect =? 0) (repeat iv ns) iv
         (map (fun p => next hd (mkthr PIdle p [])) progs)
         expect 0 0 0 [] false false.

  (* qt_sinc_reset on a quiescent sinc: result and slots <- initial value, counter <- n, ready emptied iff n != 0
     (NOT filled when n = 0); then the next generation of programs runs *)
  Definition reset (s : state) (n : Z) (progs : list (list op)) : state :=
    mkst (hasdata s) (initv s) (nslots s) n (if n =? 0 then ready s else false)
         (repeat (initv s) (nslots s)) (initv s)
         (map (fun p => next (hasdata s) (mkthr PIdle p [])) progs)
         n 0 0 0 [] false false.

  Definition quiescent (s : state) : bool :=
    forallb (fun t => match t_pc t with PIdle => true | _ => false end) (thrs s).

  Definition reduce (l : list V) (e : V) : V := fold_left vop l e.
End Sinc.
