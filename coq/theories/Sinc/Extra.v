(* C10 extension S -- the remaining entry points of src/sincs/donecount.c around the micro-step machine of Sinc/Model.v:
   qt_sinc_resize, qt_sinc_reset at ANY moment (also mid-generation), qt_sinc_fini / qt_sinc_destroy (with the frees as
   steps), qt_sinc_init on caller-provided storage versus qt_sinc_create, and the slot arithmetic of qt_sinc_tmpdata.

   The participants 0..n-1 are the threads of `base`, stepped by Sinc.Model.step UNCHANGED.  One extra lifecycle thread
   (id n = length (thrs base)) executes a script of lifecycle calls, one shared access per step:

     qt_sinc_resize(d):   CRAdd d   count = qthread_incr(&counter, d)       ; if (count + d <= 0)  [unsigned: == 0 mod 2^64]
                          CRFill      qthread_fill(&ready)                   (ready is NEVER emptied by resize)
     qt_sinc_reset(n):    CReset n  ONE step (plain stores and memcpys, qthread_empty iff n != 0): result, slots <- initial
                                    value, counter <- n, ready emptied iff n != 0; participants keep their positions
     qt_sinc_fini:        CFreeI    FREE(rdata->initial_value)   (the result lives in the same allocation)    } only when
                          CFreeV    qt_internal_aligned_free(rdata->values)                                   } rdata != NULL
                          CFreeR    FREE(rdata); sinc->rdata = NULL  (hasdata of base becomes false)          }
                          CFFill    qthread_fill(&ready)          releases every waiter; a released waiter evaluates
                                                                  `target && sinc->rdata` and, rdata being NULL, copies nothing
     qt_sinc_destroy:     the steps of fini (dst = true), then
                          CFreeS    FREE(sinc)

   Use after free is COUNTED, not prevented: `uaf` is incremented by every step that touches a buffer already freed
   (slot update / collation after the slots were freed, collation / copy after the result was freed, any access after the
   sinc structure was freed).  `stor` records whether the structure came from qt_sinc_create (heap) or from the caller
   (qt_sinc_init); no step reads it. *)
From Coq Require Import List ZArith Bool Arith.
From QV Require Import Sinc.Model.
Import ListNotations.
Local Open Scope Z_scope.

(* same implicit-argument declarations as Sinc/Proofs.v *)
Arguments hasdata {V}.
Arguments initv {V}.
Arguments nslots {V}.
Arguments counter {V}.
Arguments ready {V}.
Arguments slots {V}.
Arguments result {V}.
Arguments thrs {V}.
Arguments c0 {V}.
Arguments decs {V}.
Arguments exps {V}.
Arguments started {V}.
Arguments submitted {V}.
Arguments exp0 {V}.
Arguments over {V}.
Arguments t_pc {V}.
Arguments t_prog {V}.
Arguments t_got {V}.
Arguments PIdle {V}.
Arguments PSlot {V}.
Arguments PDec {V}.
Arguments PC0 {V}.
Arguments PCol {V}.
Arguments PFill {V}.
Arguments PAdd {V}.
Arguments PEmpty {V}.
Arguments PRead {V}.
Arguments PBlk {V}.
Arguments PCopy {V}.
Arguments Submit {V}.
Arguments Expect {V}.
Arguments Wait {V}.

Inductive storage := Heap | Caller.

(* qt_sinc_tmpdata / qt_sinc_submit: the slot of (shepherd, worker), flattened shepherd-major as collate walks the slots *)
Definition slot_of (wps shep worker : nat) : nat := (shep * wps + worker)%nat.
(* byte offset of that slot: shep * sizeof_shep_value_part + worker * sizeof_value, the part being the values of one
   shepherd rounded up to whole cache lines *)
Definition part_size (wps size cl : nat) : nat := (((wps * size + cl - 1) / cl) * cl)%nat.
Definition byte_off (wps size cl shep worker : nat) : nat := (shep * part_size wps size cl + worker * size)%nat.
Definition tmpdata (hd : bool) (wps shep worker : nat) : option nat :=
  if hd then Some (slot_of wps shep worker) else None.
Definition submit_slot (wps shep worker : nat) : nat := slot_of wps shep worker.
(* what the harness decodes from a pointer into the values array *)
Definition decode_off (wps size cl off : nat) : nat * nat :=
  ((off / part_size wps size cl)%nat, ((off mod part_size wps size cl) / size)%nat).

Section Extra.
  Variable V : Type.
  Variable vop : V -> V -> V.

  Inductive cop := XResize (d : Z) | XReset (n : Z) | XFini | XDestroy.

  Inductive cpc :=
  | CIdle | CRAdd (d : Z) | CRFill | CReset (n : Z)
  | CFreeI (dst : bool) | CFreeV (dst : bool) | CFreeR (dst : bool) | CFFill (dst : bool) | CFreeS.

  Record xstate := mkx {
    base : state V; ctl_pc : cpc; ctl_script : list cop;
    result_freed : bool; vals_freed : bool; rdata_freed : bool; struct_freed : bool;
    uaf : nat; stor : storage }.

  (* first access of the next lifecycle call; `if (sinc->rdata)` of fini is evaluated when the call starts *)
  Definition cload (hd : bool) (p : list cop) : cpc * list cop :=
    match p with
    | [] => (CIdle, [])
    | XResize d :: r => (CRAdd d, r)
    | XReset n :: r => (CReset n, r)
    | XFini :: r => (if hd then CFreeI false else CFFill false, r)
    | XDestroy :: r => (if hd then CFreeI true else CFFill true, r)
    end.

  Definition set_base (x : xstate) (b : state V) : xstate :=
    mkx b (ctl_pc x) (ctl_script x) (result_freed x) (vals_freed x) (rdata_freed x) (struct_freed x) (uaf x) (stor x).

  Definition set_ctl (x : xstate) (b : state V) (p : cpc) (scr : list cop) (rf vf df sf : bool) : xstate :=
    mkx b p scr rf vf df sf (if struct_freed x then S (uaf x) else uaf x) (stor x).

  Definition cnext (x : xstate) (b : state V) (rf vf df sf : bool) : xstate :=
    let (p, r) := cload (hasdata b) (ctl_script x) in set_ctl x b p r rf vf df sf.

  (* the reset of Model.reset applied in place: the participants keep their positions; without a value part
     (rdata == NULL, e.g. after qt_sinc_fini) result and slots are not touched *)
  Definition reset_in_place (s : state V) (n : Z) : state V :=
    mkst V (hasdata s) (initv s) (nslots s) n (if n =? 0 then ready s else false)
         (if hasdata s then repeat (initv s) (nslots s) else slots s) (if hasdata s then initv s else result s)
         (thrs s) n 0 0 0 [] false false.

  Definition fill_ready (s : state V) : state V :=
    mkst V (hasdata s) (initv s) (nslots s) (counter s) true (slots s) (result s) (map (release V (hasdata s)) (thrs s))
         (c0 s) (decs s) (exps s) (started s) (submitted s) (exp0 s) (over s).

  Definition set_counter (s : state V) (c : Z) (d : Z) : state V :=
    mkst V (hasdata s) (initv s) (nslots s) c (ready s) (slots s) (result s) (thrs s)
         (c0 s) (decs s) (exps s + d) (started s) (submitted s) (exp0 s) (over s).

  Definition drop_data (s : state V) : state V :=
    mkst V false (initv s) (nslots s) (counter s) (ready s) (slots s) (result s) (thrs s)
         (c0 s) (decs s) (exps s) (started s) (submitted s) (exp0 s) (over s).

  Definition cstep (x : xstate) : option xstate :=
    let b := base x in
    let rf := result_freed x in let vf := vals_freed x in let df := rdata_freed x in let sf := struct_freed x in
    match ctl_pc x with
    | CIdle => None
    | CRAdd d =>
      let c := wrap64 (counter b + d) in
      let b' := set_counter b c d in
      Some (if c =? 0 then set_ctl x b' CRFill (ctl_script x) rf vf df sf else cnext x b' rf vf df sf)
    | CRFill => Some (cnext x (fill_ready b) rf vf df sf)
    | CReset n => Some (cnext x (reset_in_place b n) rf vf df sf)
    | CFreeI dst => Some (set_ctl x b (CFreeV dst) (ctl_script x) true vf df sf)
    | CFreeV dst => Some (set_ctl x b (CFreeR dst) (ctl_script x) rf true df sf)
    | CFreeR dst => Some (set_ctl x (drop_data b) (CFFill dst) (ctl_script x) rf vf true sf)
    | CFFill dst =>
      let b' := fill_ready b in
      Some (if dst then set_ctl x b' CFreeS (ctl_script x) rf vf df sf else cnext x b' rf vf df sf)
    | CFreeS => Some (cnext x b rf vf df true)
    end.

  (* does the next access of a participant touch freed memory? *)
  Definition touch (x : xstate) (p : pc V) : bool :=
    match p with
    | PSlot _ _ => vals_freed x || struct_freed x
    | PC0 => result_freed x || struct_freed x
    | PCol _ => result_freed x || vals_freed x || struct_freed x
    | PCopy => result_freed x || struct_freed x
    | _ => struct_freed x
    end.

  Definition nparts (x : xstate) : nat := length (thrs (base x)).

  Definition xstep (x : xstate) (i : nat) : option xstate :=
    if (i =? nparts x)%nat then cstep x
    else match nth_error (thrs (base x)) i with
         | None => None
         | Some t =>
           match step V vop (base x) i with
           | None => None
           | Some b' =>
             Some (mkx b' (ctl_pc x) (ctl_script x) (result_freed x) (vals_freed x) (rdata_freed x) (struct_freed x)
                       (if touch x (t_pc t) then S (uaf x) else uaf x) (stor x))
           end
         end.

  Definition xstep_or_stay (x : xstate) (i : nat) : xstate :=
    match xstep x i with Some x' => x' | None => x end.
  Definition xexec (x : xstate) (sched : list nat) : xstate := fold_left xstep_or_stay sched x.

  Definition xenabled (x : xstate) (i : nat) : bool :=
    match xstep x i with Some _ => true | None => false end.
  Definition xenabled_list (x : xstate) : list nat := filter (xenabled x) (seq 0 (S (nparts x))).
  Definition xpick (x : xstate) (r : nat) : option nat :=
    match xenabled_list x with
    | [] => None
    | l => let p := (r / 1024)%nat in
           if ((0 <? p)%nat && xenabled x (p - 1))%bool then Some (p - 1)%nat
           else nth_error l ((r mod 1024) mod length l)
    end.

  (* qt_sinc_create (st = Heap) / qt_sinc_init on caller storage (st = Caller), then the participants' programs and the
     lifecycle script *)
  Definition xinit (st : storage) (hd : bool) (iv : V) (ns : nat) (expect : Z)
             (progs : list (list (@op V))) (script : list cop) : xstate :=
    let (p, r) := cload hd script in
    mkx (start V hd iv ns expect progs) p r false false false false 0 st.

  Definition with_stor (st : storage) (x : xstate) : xstate :=
    mkx (base x) (ctl_pc x) (ctl_script x) (result_freed x) (vals_freed x) (rdata_freed x) (struct_freed x) (uaf x) st.

  Definition xquiescent (x : xstate) : bool :=
    (quiescent V (base x) && match ctl_pc x with CIdle => true | _ => false end)%bool.
End Extra.
