(* C10 -- invariant proof for the sinc micro-step model, for every operator that is associative and commutative
   with the initial value as identity, every set of programs, every placement, every schedule. *)
From Coq Require Import List ZArith Bool Arith Lia.
From QV Require Barrier.Model Barrier.Proofs.
From QV Require Import Sinc.Model.
Import ListNotations.
Local Open Scope Z_scope.

Module L := Barrier.Proofs.
Arguments hasdata {V}.
Arguments initv {V}.
Arguments nslots {V}.
Arguments counter {V}.
Arguments ready {V}.
Arguments slots {V}.
Arguments result {V}.
Arguments thrs {V}.
Arguments c0 {V}.
Arguments decs {V}.
Arguments exps {V}.
Arguments started {V}.
Arguments submitted {V}.
Arguments exp0 {V}.
Arguments over {V}.
Arguments t_pc {V}.
Arguments t_prog {V}.
Arguments t_got {V}.
Arguments PIdle {V}.
Arguments PSlot {V}.
Arguments PDec {V}.
Arguments PC0 {V}.
Arguments PCol {V}.
Arguments PFill {V}.
Arguments PAdd {V}.
Arguments PEmpty {V}.
Arguments PRead {V}.
Arguments PBlk {V}.
Arguments PCopy {V}.
Arguments Submit {V}.
Arguments Expect {V}.
Arguments Wait {V}.

Lemma updn_upd : forall A i (x : A) l, updn i x l = Barrier.Model.upd i x l.
Proof. induction i; destruct l; simpl; auto; try (rewrite IHi; reflexivity). Qed.

Lemma wrap64_small : forall z, 0 <= z < 18446744073709551616 -> wrap64 z = z.
Proof. intros. unfold wrap64. apply Z.mod_small. auto. Qed.

Section Proofs.
  Variable V : Type.
  Variable vop : V -> V -> V.
  Hypothesis vop_assoc : forall a b c, vop (vop a b) c = vop a (vop b c).
  Hypothesis vop_comm : forall a b, vop a b = vop b a.

  Notation state := (state V).
  Notation thr := (thr V).
  Notation reduce := (reduce V vop).

  (* ---------------------------------------------------------------- algebra of the reduction *)
  Lemma reduce_acc : forall l a v, reduce l (vop a v) = vop (reduce l a) v.
  Proof.
    unfold Model.reduce. induction l as [|x r IH]; intros a v; simpl; auto.
    rewrite <- IH. f_equal. rewrite !vop_assoc. f_equal. apply vop_comm.
  Qed.

  Lemma reduce_app : forall l1 l2 a, reduce (l1 ++ l2) a = reduce l2 (reduce l1 a).
  Proof. intros. unfold Model.reduce. apply fold_left_app. Qed.

  (* folding a value into one slot = folding it into the total *)
  Lemma reduce_updn : forall l k a v d, (k < length l)%nat ->
      reduce (updn k (vop (nth k l d) v) l) a = vop (reduce l a) v.
  Proof.
    induction l as [|x r IH]; intros [|k] a v d Hk; simpl in *; try lia.
    - unfold Model.reduce; simpl. fold (reduce r (vop a (vop x v))). fold (reduce r (vop a x)).
      rewrite <- vop_assoc. apply reduce_acc.
    - unfold Model.reduce; simpl. fold (reduce (updn k (vop (nth k r d) v) r) (vop a x)). fold (reduce r (vop a x)).
      apply IH. lia.
  Qed.

  Lemma reduce_repeat_neutral : forall e n, (forall x, vop e x = x) -> reduce (repeat e n) e = e.
  Proof. intros e n He. unfold Model.reduce. induction n; simpl; auto. rewrite He. auto. Qed.

  Lemma firstn_S_nth : forall (l : list V) k d, (k < length l)%nat -> firstn (S k) l = firstn k l ++ [nth k l d].
  Proof. induction l as [|x r IH]; intros [|k] d H; simpl in *; try lia; auto. f_equal. apply IH. lia. Qed.

  (* ---------------------------------------------------------------- the invariant *)
  Definition clean (s : state) : Prop :=
    exp0 s = false /\ over s = false /\ 0 <= c0 s /\ c0 s + exps s < 18446744073709551616.

  Definition allT (P : thr -> Prop) (l : list thr) : Prop := forall j t, nth_error l j = Some t -> P t.

  Lemma allT_updn : forall (P : thr -> Prop) l i x, allT P l -> P x -> allT P (updn i x l).
  Proof.
    intros P l i x Hl Hx j u Hj. rewrite updn_upd in Hj. apply L.nth_upd_inv in Hj.
    destruct Hj as [[-> ->]|[Hne Hj]]; eauto.
  Qed.

  Lemma allT_updn_map : forall (P : thr -> Prop) (g : thr -> thr) l i x,
      (forall u, In u l -> P (g u)) -> P x -> allT P (updn i x (map g l)).
  Proof.
    intros P g l i x Hl Hx j u Hj. rewrite updn_upd in Hj. apply L.nth_upd_inv in Hj.
    destruct Hj as [[-> ->]|[Hne Hj]]; auto.
    rewrite nth_error_map in Hj. destruct (nth_error l j) eqn:Hn; simpl in Hj; try discriminate.
    inversion Hj; subst. apply Hl. eapply nth_error_In; eauto.
  Qed.

  Lemma allT_In : forall (P : thr -> Prop) l u, allT P l -> In u l -> P u.
  Proof. intros P l u H Hin. apply In_nth_error in Hin. destruct Hin as (j & Hj). eauto. Qed.

  Definition isMid (t : thr) : bool := match t_pc t with PDec false => true | _ => false end.
  Definition isCol (t : thr) : bool := match t_pc t with PC0 | PCol _ | PFill => true | _ => false end.
  (* a thread that is collating, or has got past the readFF of some wait *)
  Definition special (t : thr) : Prop := isCol t = true \/ t_pc t = PCopy \/ t_got t <> [].

  Lemma load_plain : forall hd p,
      match fst (load V hd p) with PIdle | PSlot _ _ | PDec true | PAdd _ | PRead _ => True | _ => False end.
  Proof.
    induction p as [|o r IH]; simpl; auto.
    destruct o as [[v|] k|n|t]; simpl; auto.
    - destruct hd; simpl; auto.
    - destruct n; simpl; auto.
  Qed.

  Lemma next_facts : forall hd t,
      isMid (next V hd t) = false /\ isCol (next V hd t) = false /\ t_pc (next V hd t) <> PCopy /\
      t_pc (next V hd t) <> PEmpty /\ t_got (next V hd t) = t_got t.
  Proof.
    intros hd t. unfold next. pose proof (load_plain hd (t_prog t)) as H.
    destruct (load V hd (t_prog t)) as [p r]; simpl in *. unfold isMid, isCol; simpl.
    destruct p as [| | [|] | | | | | | | |]; try contradiction; repeat split; auto; congruence.
  Qed.

  Lemma next_slot_hd : forall hd t v k, t_pc (next V hd t) = PSlot v k -> hd = true.
  Proof.
    intros hd t v k. unfold next. destruct (load V hd (t_prog t)) as [p r] eqn:Hl; simpl. intros ->.
    revert Hl. generalize (t_prog t). induction l as [|o q IH]; simpl; try discriminate.
    destruct o as [[w|] j|n|b]; simpl; try discriminate.
    - destruct hd; auto. discriminate.
    - destruct n; auto. discriminate.
  Qed.

  Record K (s : state) : Prop := mkK {
    K1 : counter s = c0 s + exps s - Z.of_nat (decs s);
    K2 : (decs s + L.cnt isMid (thrs s) = started s)%nat;
    K3 : Z.of_nat (started s) <= c0 s + exps s;
    K6 : allT (fun t => special t -> counter s = 0) (thrs s);
    K7 : ready s = true -> counter s = 0;
    K9 : allT (fun t => t_pc t = PEmpty -> exp0 s = true) (thrs s)
  }.

  Lemma zero_facts : forall s, K s -> counter s = 0 ->
      L.cnt isMid (thrs s) = 0%nat /\ Z.of_nat (started s) = c0 s + exps s /\ decs s = started s.
  Proof. intros s [k1 k2 k3 _ _ _] H0. lia. Qed.

  Lemma mid_pos : forall (l : list thr) i t, nth_error l i = Some t -> isMid t = true -> (0 < L.cnt isMid l)%nat.
  Proof. intros. eapply L.cnt_pos_of; eauto. Qed.

  Lemma cnt_map_same : forall (f : thr -> bool) (g : thr -> thr) l, (forall t, f (g t) = f t) -> L.cnt f (map g l) = L.cnt f l.
  Proof. induction l as [|x r IH]; simpl; intros H; auto. rewrite H, IH; auto. Qed.

  Lemma release_mid : forall hd t, isMid (release V hd t) = isMid t.
  Proof.
    intros hd t. unfold release. destruct (t_pc t) eqn:Hp; auto. unfold passed.
    destruct (tgt && hd)%bool.
    - unfold isMid, setpc; simpl. rewrite Hp. reflexivity.
    - destruct (next_facts hd (mkthr V (t_pc t) (t_prog t) (t_got t ++ [None]))) as (-> & _). unfold isMid. rewrite Hp. reflexivity.
  Qed.

  Lemma passed_facts : forall hd tgt t, t_pc t <> PDec false ->
      isMid (passed V hd tgt t) = false /\ t_pc (passed V hd tgt t) <> PEmpty.
  Proof.
    intros hd tgt t Hp. unfold passed. destruct (tgt && hd)%bool.
    - unfold isMid, setpc; simpl. split; auto; congruence.
    - destruct (next_facts hd (mkthr V (t_pc t) (t_prog t) (t_got t ++ [None]))) as (-> & _ & _ & H & _). auto.
  Qed.

  Lemma clean_mono : forall s i s', step V vop s i = Some s' -> clean s' -> clean s.
  Proof.
    intros s i s' Hstep (He & Ho & Hc & Hb). unfold step in Hstep.
    destruct (nth_error (thrs s) i) as [t|]; [|discriminate].
    destruct (t_pc t) as [|v k|fresh| |k| |n| |tgt|tgt|]; try discriminate; inversion Hstep; subst s'; clear Hstep; simpl in *;
      unfold clean; try (repeat split; auto; fail).
    - apply orb_false_elim in Ho. destruct Ho. repeat split; auto.
    - destruct fresh; simpl in *; [apply orb_false_elim in Ho; destruct Ho|]; repeat split; auto.
    - apply orb_false_elim in He. destruct He. repeat split; auto. lia.
  Qed.

  Ltac cntmid l i t x Hi :=
    let Hc := fresh "Hcm" in
    pose proof (L.cnt_upd isMid l i t x Hi) as Hc; unfold L.b2n in Hc.

  Lemma K_step : forall s i s', K s -> step V vop s i = Some s' -> clean s' -> K s'.
  Proof.
    intros s i s' HK Hstep Hc.
    pose proof (clean_mono _ _ _ Hstep Hc) as Hcs.
    destruct HK as [k1 k2 k3 k6 k7 k9].
    unfold step in Hstep. destruct (nth_error (thrs s) i) as [t|] eqn:Hi; [|discriminate].
    pose proof (k6 _ _ Hi) as k6t. pose proof (k9 _ _ Hi) as k9t. cbv beta in k6t, k9t.
    destruct Hc as (He & Ho & Hc0' & Hb). destruct Hcs as (He0 & Ho0 & _ & Hb0).
    destruct s as [hd iv ns cnt rdy sl res l c dcs eps stt sub e0 ov]; simpl in *.
    destruct t as [p pr g]; simpl in *. unfold special in k6t; simpl in k6t.
    destruct p as [|v k|fresh| |k| |n| |tgt|tgt|]; try discriminate; inversion Hstep; subst s'; clear Hstep; simpl in *;
      rewrite ?updn_upd in *.
    - (* PSlot *)
      apply orb_false_elim in Ho. destruct Ho as (_ & Hlt). apply Z.leb_gt in Hlt.
      cntmid l i (mkthr V (PSlot v k) pr g) (setpc V (mkthr V (PSlot v k) pr g) (PDec false)) Hi. simpl in Hcm.
      constructor; simpl; rewrite ?updn_upd; try lia; auto.
      + rewrite <- updn_upd. apply allT_updn; auto. unfold special; simpl. intros [H|[H|H]]; try discriminate. apply k6t; auto.
      + rewrite <- updn_upd. apply allT_updn; auto; try solve [ simpl; discriminate ].
    - (* PDec *)
      assert (Hpos : 1 <= cnt /\ (if fresh then Z.of_nat stt < c + eps else True)).
      { destruct fresh; simpl in *.
        - apply orb_false_elim in Ho. destruct Ho as (_ & Hlt). apply Z.leb_gt in Hlt. split; auto. lia.
        - pose proof (mid_pos l i _ Hi eq_refl). split; auto. lia. }
      destruct Hpos as (Hpos & Hfr).
      rewrite wrap64_small by lia.
      remember (if cnt =? 1 then setpc V (mkthr V (PDec fresh) pr g) (if hd then PC0 else PFill) else next V hd (mkthr V (PDec fresh) pr g)) as t' eqn:Ht'.
      assert (Hm' : isMid t' = false).
      { subst t'. destruct (cnt =? 1); [destruct hd; reflexivity|]. apply next_facts. }
      cntmid l i (mkthr V (PDec fresh) pr g) t' Hi. rewrite Hm' in Hcm. cbn [isMid t_pc] in Hcm.
      assert (Hothers : forall j u, nth_error l j = Some u -> special u -> False).
      { intros j u Hj Hs. pose proof (k6 _ _ Hj Hs). simpl in *. lia. }
      constructor; simpl; rewrite ?updn_upd.
      + lia.
      + destruct fresh; simpl in *; lia.
      + destruct fresh; simpl in *; lia.
      + rewrite <- updn_upd. intros j u Hj. rewrite updn_upd in Hj. apply L.nth_upd_inv in Hj.
        destruct Hj as [[-> ->]|[Hne Hj]].
        * subst t'. destruct (cnt =? 1) eqn:H1; [apply Z.eqb_eq in H1; intros; lia|].
          intros Hs. exfalso. destruct (next_facts hd (mkthr V (PDec fresh) pr g)) as (_ & Hcn & Hpn & _ & Hgn).
          unfold special in Hs. rewrite Hcn, Hgn in Hs. simpl in Hs.
          destruct Hs as [Hs|[Hs|Hs]]; try discriminate; try contradiction.
          assert (cnt = 0) by (apply k6t; auto). lia.
        * intros Hs. exfalso. eapply Hothers; eauto.
      + intros Hr. specialize (k7 Hr). lia.
      + rewrite <- updn_upd. apply allT_updn; auto. subst t'.
        destruct (cnt =? 1); [destruct hd; simpl; discriminate|]. intros H. exfalso. revert H. apply next_facts.
    - (* PC0 *)
      cntmid l i (mkthr V PC0 pr g) (setpc V (mkthr V PC0 pr g) (match ns with O => PFill | S _ => PCol 0 end)) Hi.
      assert (Hm : isMid (setpc V (mkthr V PC0 pr g) (match ns with O => PFill | S _ => PCol 0 end)) = false) by (destruct ns; reflexivity).
      rewrite Hm in Hcm. simpl in Hcm.
      constructor; simpl; rewrite ?updn_upd; try lia; auto.
      + rewrite <- updn_upd. apply allT_updn; auto; try solve [ intros _; apply k6t; left; reflexivity ].
      + rewrite <- updn_upd. apply allT_updn; auto; try solve [ destruct ns; simpl; discriminate ].
    - (* PCol *)
      cntmid l i (mkthr V (PCol k) pr g) (setpc V (mkthr V (PCol k) pr g) (if (S k <? ns)%nat then PCol (S k) else PFill)) Hi.
      assert (Hm : isMid (setpc V (mkthr V (PCol k) pr g) (if (S k <? ns)%nat then PCol (S k) else PFill)) = false) by (destruct (S k <? ns)%nat; reflexivity).
      rewrite Hm in Hcm. simpl in Hcm.
      constructor; simpl; rewrite ?updn_upd; try lia; auto.
      + rewrite <- updn_upd. apply allT_updn; auto; try solve [ intros _; apply k6t; left; reflexivity ].
      + rewrite <- updn_upd. apply allT_updn; auto; try solve [ destruct (S k <? ns)%nat; simpl; discriminate ].
    - (* PFill *)
      assert (H0 : cnt = 0) by (apply k6t; left; reflexivity).
      assert (Hm : nth_error (map (release V hd) l) i = Some (mkthr V PFill pr g)).
      { rewrite nth_error_map, Hi. reflexivity. }
      cntmid (map (release V hd) l) i (mkthr V PFill pr g) (next V hd (mkthr V PFill pr g)) Hm.
      destruct (next_facts hd (mkthr V PFill pr g)) as (Hn1 & Hn2 & Hn3 & Hn4 & Hn5).
      rewrite Hn1 in Hcm. simpl in Hcm. rewrite (cnt_map_same isMid (release V hd) l (release_mid hd)) in Hcm.
      constructor; simpl; rewrite ?updn_upd; try lia; auto.
      + intros j u Hj Hs. auto.
      + rewrite <- updn_upd. apply allT_updn_map; auto.
        intros u Hu. unfold release. destruct (t_pc u) eqn:Hp; try (apply (allT_In _ _ _ k9 Hu)).
        intros H. exfalso. revert H. apply passed_facts. rewrite Hp. discriminate.
    - (* PAdd *)
      apply orb_false_elim in He. destruct He as (_ & Hnz). apply Z.eqb_neq in Hnz.
      rewrite (proj2 (Z.eqb_neq _ _) Hnz) in *.
      assert (Hpos : 0 <= cnt) by lia.
      rewrite wrap64_small by lia.
      destruct (next_facts hd (mkthr V (PAdd n) pr g)) as (Hn1 & Hn2 & Hn3 & Hn4 & Hn5).
      cntmid l i (mkthr V (PAdd n) pr g) (next V hd (mkthr V (PAdd n) pr g)) Hi. rewrite Hn1 in Hcm. simpl in Hcm.
      assert (Hothers : forall j u, nth_error l j = Some u -> special u -> False).
      { intros j u Hj Hs. pose proof (k6 _ _ Hj Hs). simpl in *. lia. }
      constructor; simpl; rewrite ?updn_upd; try lia.
      + rewrite <- updn_upd. intros j u Hj. rewrite updn_upd in Hj. apply L.nth_upd_inv in Hj.
        destruct Hj as [[-> ->]|[Hne Hj]]; intros Hs; exfalso.
        * unfold special in Hs. rewrite Hn2, Hn5 in Hs. simpl in Hs. destruct Hs as [Hs|[Hs|Hs]]; try discriminate; try contradiction.
          assert (cnt = 0) by (apply k6t; auto). lia.
        * eapply Hothers; eauto.
      + intros Hr. specialize (k7 Hr). lia.
      + rewrite <- updn_upd. apply allT_updn.
        * intros j u Hj Hp. rewrite (k9 _ _ Hj Hp). reflexivity.
        * intros H. contradiction.
    - (* PEmpty *)
      rewrite k9t in He0 by reflexivity. discriminate.
    - (* PRead *)
      remember (if rdy then passed V hd tgt (mkthr V (PRead tgt) pr g) else setpc V (mkthr V (PRead tgt) pr g) (PBlk tgt)) as t' eqn:Ht'.
      assert (Hf : isMid t' = false /\ t_pc t' <> PEmpty).
      { subst t'. destruct rdy; [apply passed_facts; simpl; discriminate|]. split; [reflexivity|simpl; discriminate]. }
      destruct Hf as (Hf1 & Hf2).
      cntmid l i (mkthr V (PRead tgt) pr g) t' Hi. rewrite Hf1 in Hcm. simpl in Hcm.
      constructor; simpl; rewrite ?updn_upd; try lia; auto.
      + rewrite <- updn_upd. apply allT_updn; auto. subst t'. destruct rdy; [intros _; auto|].
        unfold special; simpl. intros [H|[H|H]]; try discriminate. apply k6t; auto.
      + rewrite <- updn_upd. apply allT_updn; auto; try solve [ intros H; contradiction ].
    - (* PCopy *)
      destruct (next_facts hd (mkthr V PCopy pr (g ++ [Some res]))) as (Hn1 & Hn2 & Hn3 & Hn4 & Hn5).
      cntmid l i (mkthr V PCopy pr g) (next V hd (mkthr V PCopy pr (g ++ [Some res]))) Hi. rewrite Hn1 in Hcm. simpl in Hcm.
      constructor; simpl; rewrite ?updn_upd; try lia; auto.
      + rewrite <- updn_upd. apply allT_updn; auto; try solve [ intros _; apply k6t; right; left; reflexivity ].
      + rewrite <- updn_upd. apply allT_updn; auto; try solve [ intros H; contradiction ].
  Qed.
End Proofs.
