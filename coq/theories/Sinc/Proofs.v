(* C10 -- invariant proof for the sinc micro-step model, for every operator that is associative and commutative
   with the initial value as identity, every set of programs, every placement, every schedule. *)
From Coq Require Import List ZArith Bool Arith Lia.
From QV Require Barrier.Model Barrier.Proofs.
From QV Require Import Sinc.Model.
Import ListNotations.
Local Open Scope Z_scope.

Module L := Barrier.Proofs.
Arguments hasdata {V}.
Arguments initv {V}.
Arguments nslots {V}.
Arguments counter {V}.
Arguments ready {V}.
Arguments slots {V}.
Arguments result {V}.
Arguments thrs {V}.
Arguments c0 {V}.
Arguments decs {V}.
Arguments exps {V}.
Arguments started {V}.
Arguments submitted {V}.
Arguments exp0 {V}.
Arguments over {V}.
Arguments t_pc {V}.
Arguments t_prog {V}.
Arguments t_got {V}.
Arguments PIdle {V}.
Arguments PSlot {V}.
Arguments PDec {V}.
Arguments PC0 {V}.
Arguments PCol {V}.
Arguments PFill {V}.
Arguments PAdd {V}.
Arguments PEmpty {V}.
Arguments PRead {V}.
Arguments PBlk {V}.
Arguments PCopy {V}.
Arguments Submit {V}.
Arguments Expect {V}.
Arguments Wait {V}.

Lemma updn_upd : forall A i (x : A) l, updn i x l = Barrier.Model.upd i x l.
Proof. induction i; destruct l; simpl; auto; try (rewrite IHi; reflexivity). Qed.

Lemma wrap64_small : forall z, 0 <= z < 18446744073709551616 -> wrap64 z = z.
Proof. intros. unfold wrap64. apply Z.mod_small. auto. Qed.

Section Proofs.
  Variable V : Type.
  Variable vop : V -> V -> V.
  Hypothesis vop_assoc : forall a b c, vop (vop a b) c = vop a (vop b c).
  Hypothesis vop_comm : forall a b, vop a b = vop b a.

  Notation state := (state V).
  Notation thr := (thr V).
  Notation reduce := (reduce V vop).

  (* ---------------------------------------------------------------- algebra of the reduction *)
  Lemma reduce_acc : forall l a v, reduce l (vop a v) = vop (reduce l a) v.
  Proof.
    unfold Model.reduce. induction l as [|x r IH]; intros a v; simpl; auto.
    rewrite <- IH. f_equal. rewrite !vop_assoc. f_equal. apply vop_comm.
  Qed.

  Lemma reduce_app : forall l1 l2 a, reduce (l1 ++ l2) a = reduce l2 (reduce l1 a).
  Proof. intros. unfold Model.reduce. apply fold_left_app. Qed.

  (* folding a value into one slot = folding it into the total *)
  Lemma reduce_updn : forall l k a v d, (k < length l)%nat ->
      reduce (updn k (vop (nth k l d) v) l) a = vop (reduce l a) v.
  Proof.
    induction l as [|x r IH]; intros [|k] a v d Hk; simpl in *; try lia.
    - unfold Model.reduce; simpl. fold (reduce r (vop a (vop x v))). fold (reduce r (vop a x)).
      rewrite <- vop_assoc. apply reduce_acc.
    - unfold Model.reduce; simpl. fold (reduce (updn k (vop (nth k r d) v) r) (vop a x)). fold (reduce r (vop a x)).
      apply IH. lia.
  Qed.

  Lemma reduce_repeat_neutral : forall e n, (forall x, vop e x = x) -> reduce (repeat e n) e = e.
  Proof. intros e n He. unfold Model.reduce. induction n; simpl; auto. rewrite He. auto. Qed.

  Lemma firstn_S_nth : forall (l : list V) k d, (k < length l)%nat -> firstn (S k) l = firstn k l ++ [nth k l d].
  Proof. induction l as [|x r IH]; intros [|k] d H; simpl in *; try lia; auto. f_equal. apply IH. lia. Qed.

  (* ---------------------------------------------------------------- the invariant *)
  Definition clean (s : state) : Prop :=
    exp0 s = false /\ over s = false /\ 0 <= c0 s /\ c0 s + exps s < 18446744073709551616.

  Definition allT (P : thr -> Prop) (l : list thr) : Prop := forall j t, nth_error l j = Some t -> P t.

  Lemma allT_updn : forall (P : thr -> Prop) l i x, allT P l -> P x -> allT P (updn i x l).
  Proof.
    intros P l i x Hl Hx j u Hj. rewrite updn_upd in Hj. apply L.nth_upd_inv in Hj.
    destruct Hj as [[-> ->]|[Hne Hj]]; eauto.
  Qed.

  Lemma allT_updn_map : forall (P : thr -> Prop) (g : thr -> thr) l i x,
      (forall u, In u l -> P (g u)) -> P x -> allT P (updn i x (map g l)).
  Proof.
    intros P g l i x Hl Hx j u Hj. rewrite updn_upd in Hj. apply L.nth_upd_inv in Hj.
    destruct Hj as [[-> ->]|[Hne Hj]]; auto.
    rewrite nth_error_map in Hj. destruct (nth_error l j) eqn:Hn; simpl in Hj; try discriminate.
    inversion Hj; subst. apply Hl. eapply nth_error_In; eauto.
  Qed.

  Lemma allT_In : forall (P : thr -> Prop) l u, allT P l -> In u l -> P u.
  Proof. intros P l u H Hin. apply In_nth_error in Hin. destruct Hin as (j & Hj). eauto. Qed.

  Definition isMid (t : thr) : bool := match t_pc t with PDec false => true | _ => false end.
  Definition isCol (t : thr) : bool := match t_pc t with PC0 | PCol _ | PFill => true | _ => false end.
  (* a thread that is collating, or has got past the readFF of some wait *)
  Definition special (t : thr) : Prop := isCol t = true \/ t_pc t = PCopy \/ t_got t <> [].

  Lemma load_plain : forall hd p,
      match fst (load V hd p) with PIdle | PSlot _ _ | PDec true | PAdd _ | PRead _ => True | _ => False end.
  Proof.
    induction p as [|o r IH]; simpl; auto.
    destruct o as [[v|] k|n|t]; simpl; auto.
    - destruct hd; simpl; auto.
    - destruct n; simpl; auto.
  Qed.

  Lemma next_facts : forall hd t,
      isMid (next V hd t) = false /\ isCol (next V hd t) = false /\ t_pc (next V hd t) <> PCopy /\
      t_pc (next V hd t) <> PEmpty /\ t_got (next V hd t) = t_got t.
  Proof.
    intros hd t. unfold next. pose proof (load_plain hd (t_prog t)) as H.
    destruct (load V hd (t_prog t)) as [p r]; simpl in *. unfold isMid, isCol; simpl.
    destruct p as [| | [|] | | | | | | | |]; try contradiction; repeat split; auto; congruence.
  Qed.

  Lemma next_slot_hd : forall hd t v k, t_pc (next V hd t) = PSlot v k -> hd = true.
  Proof.
    intros hd t v k. unfold next. destruct (load V hd (t_prog t)) as [p r] eqn:Hl; simpl. intros ->.
    revert Hl. generalize (t_prog t). induction l as [|o q IH]; simpl; try discriminate.
    destruct o as [[w|] j|n|b]; simpl; try discriminate.
    - destruct hd; auto. discriminate.
    - destruct n; auto. discriminate.
  Qed.

  Record K (s : state) : Prop := mkK {
    K1 : counter s = c0 s + exps s - Z.of_nat (decs s);
    K2 : (decs s + L.cnt isMid (thrs s) = started s)%nat;
    K3 : Z.of_nat (started s) <= c0 s + exps s;
    K6 : allT (fun t => special t -> counter s = 0) (thrs s);
    K7 : ready s = true -> counter s = 0;
    K9 : allT (fun t => t_pc t = PEmpty -> exp0 s = true) (thrs s)
  }.

  Lemma zero_facts : forall s, K s -> counter s = 0 ->
      L.cnt isMid (thrs s) = 0%nat /\ Z.of_nat (started s) = c0 s + exps s /\ decs s = started s.
  Proof. intros s [k1 k2 k3 _ _ _] H0. lia. Qed.

  Lemma mid_pos : forall (l : list thr) i t, nth_error l i = Some t -> isMid t = true -> (0 < L.cnt isMid l)%nat.
  Proof. intros. eapply L.cnt_pos_of; eauto. Qed.

  Lemma cnt_map_same : forall (f : thr -> bool) (g : thr -> thr) l, (forall t, f (g t) = f t) -> L.cnt f (map g l) = L.cnt f l.
  Proof. induction l as [|x r IH]; simpl; intros H; auto. rewrite H, IH; auto. Qed.

  Lemma release_mid : forall hd t, isMid (release V hd t) = isMid t.
  Proof.
    intros hd t. unfold release. destruct (t_pc t) eqn:Hp; auto. unfold passed.
    destruct (tgt && hd)%bool.
    - unfold isMid, setpc; simpl. rewrite Hp. reflexivity.
    - destruct (next_facts hd (mkthr V (t_pc t) (t_prog t) (t_got t ++ [None]))) as (-> & _). unfold isMid. rewrite Hp. reflexivity.
  Qed.

  Lemma passed_facts : forall hd tgt t, t_pc t <> PDec false ->
      isMid (passed V hd tgt t) = false /\ t_pc (passed V hd tgt t) <> PEmpty.
  Proof.
    intros hd tgt t Hp. unfold passed. destruct (tgt && hd)%bool.
    - unfold isMid, setpc; simpl. split; auto; congruence.
    - destruct (next_facts hd (mkthr V (t_pc t) (t_prog t) (t_got t ++ [None]))) as (-> & _ & _ & H & _). auto.
  Qed.

  Lemma clean_mono : forall s i s', step V vop s i = Some s' -> clean s' -> clean s.
  Proof.
    intros s i s' Hstep (He & Ho & Hc & Hb). unfold step in Hstep.
    destruct (nth_error (thrs s) i) as [t|]; [|discriminate].
    destruct (t_pc t) as [|v k|fresh| |k| |n| |tgt|tgt|]; try discriminate; inversion Hstep; subst s'; clear Hstep; simpl in *;
      unfold clean; try (repeat split; auto; fail).
    - apply orb_false_elim in Ho. destruct Ho. repeat split; auto.
    - destruct fresh; simpl in *; [apply orb_false_elim in Ho; destruct Ho|]; repeat split; auto.
    - apply orb_false_elim in He. destruct He. repeat split; auto. lia.
  Qed.

  Ltac cntmid l i t x Hi :=
    let Hc := fresh "Hcm" in
    pose proof (L.cnt_upd isMid l i t x Hi) as Hc; unfold L.b2n in Hc.

  Lemma K_step : forall s i s', K s -> step V vop s i = Some s' -> clean s' -> K s'.
  Proof.
    intros s i s' HK Hstep Hc.
    pose proof (clean_mono _ _ _ Hstep Hc) as Hcs.
    destruct HK as [k1 k2 k3 k6 k7 k9].
    unfold step in Hstep. destruct (nth_error (thrs s) i) as [t|] eqn:Hi; [|discriminate].
    pose proof (k6 _ _ Hi) as k6t. pose proof (k9 _ _ Hi) as k9t. cbv beta in k6t, k9t.
    destruct Hc as (He & Ho & Hc0' & Hb). destruct Hcs as (He0 & Ho0 & _ & Hb0).
    destruct s as [hd iv ns cnt rdy sl res l c dcs eps stt sub e0 ov]; simpl in *.
    destruct t as [p pr g]; simpl in *. unfold special in k6t; simpl in k6t.
    destruct p as [|v k|fresh| |k| |n| |tgt|tgt|]; try discriminate; inversion Hstep; subst s'; clear Hstep; simpl in *;
      rewrite ?updn_upd in *.
    - (* PSlot *)
      apply orb_false_elim in Ho. destruct Ho as (_ & Hlt). apply Z.leb_gt in Hlt.
      cntmid l i (mkthr V (PSlot v k) pr g) (setpc V (mkthr V (PSlot v k) pr g) (PDec false)) Hi. simpl in Hcm.
      constructor; simpl; rewrite ?updn_upd; try lia; auto.
      + rewrite <- updn_upd. apply allT_updn; auto. unfold special; simpl. intros [H|[H|H]]; try discriminate. apply k6t; auto.
      + rewrite <- updn_upd. apply allT_updn; auto; try solve [ simpl; discriminate ].
    - (* PDec *)
      assert (Hpos : 1 <= cnt /\ (if fresh then Z.of_nat stt < c + eps else True)).
      { destruct fresh; simpl in *.
        - apply orb_false_elim in Ho. destruct Ho as (_ & Hlt). apply Z.leb_gt in Hlt. split; auto. lia.
        - pose proof (mid_pos l i _ Hi eq_refl). split; auto. lia. }
      destruct Hpos as (Hpos & Hfr).
      rewrite wrap64_small by lia.
      remember (if cnt =? 1 then setpc V (mkthr V (PDec fresh) pr g) (if hd then PC0 else PFill) else next V hd (mkthr V (PDec fresh) pr g)) as t' eqn:Ht'.
      assert (Hm' : isMid t' = false).
      { subst t'. destruct (cnt =? 1); [destruct hd; reflexivity|]. apply next_facts. }
      cntmid l i (mkthr V (PDec fresh) pr g) t' Hi. rewrite Hm' in Hcm. cbn [isMid t_pc] in Hcm.
      assert (Hothers : forall j u, nth_error l j = Some u -> special u -> False).
      { intros j u Hj Hs. pose proof (k6 _ _ Hj Hs). simpl in *. lia. }
      constructor; simpl; rewrite ?updn_upd.
      + lia.
      + destruct fresh; simpl in *; lia.
      + destruct fresh; simpl in *; lia.
      + rewrite <- updn_upd. intros j u Hj. rewrite updn_upd in Hj. apply L.nth_upd_inv in Hj.
        destruct Hj as [[-> ->]|[Hne Hj]].
        * subst t'. destruct (cnt =? 1) eqn:H1; [apply Z.eqb_eq in H1; intros; lia|].
          intros Hs. exfalso. destruct (next_facts hd (mkthr V (PDec fresh) pr g)) as (_ & Hcn & Hpn & _ & Hgn).
          unfold special in Hs. rewrite Hcn, Hgn in Hs. simpl in Hs.
          destruct Hs as [Hs|[Hs|Hs]]; try discriminate; try contradiction.
          assert (cnt = 0) by (apply k6t; auto). lia.
        * intros Hs. exfalso. eapply Hothers; eauto.
      + intros Hr. specialize (k7 Hr). lia.
      + rewrite <- updn_upd. apply allT_updn; auto. subst t'.
        destruct (cnt =? 1); [destruct hd; simpl; discriminate|]. intros H. exfalso. revert H. apply next_facts.
    - (* PC0 *)
      cntmid l i (mkthr V PC0 pr g) (setpc V (mkthr V PC0 pr g) (match ns with O => PFill | S _ => PCol 0 end)) Hi.
      assert (Hm : isMid (setpc V (mkthr V PC0 pr g) (match ns with O => PFill | S _ => PCol 0 end)) = false) by (destruct ns; reflexivity).
      rewrite Hm in Hcm. simpl in Hcm.
      constructor; simpl; rewrite ?updn_upd; try lia; auto.
      + rewrite <- updn_upd. apply allT_updn; auto; try solve [ intros _; apply k6t; left; reflexivity ].
      + rewrite <- updn_upd. apply allT_updn; auto; try solve [ destruct ns; simpl; discriminate ].
    - (* PCol *)
      cntmid l i (mkthr V (PCol k) pr g) (setpc V (mkthr V (PCol k) pr g) (if (S k <? ns)%nat then PCol (S k) else PFill)) Hi.
      assert (Hm : isMid (setpc V (mkthr V (PCol k) pr g) (if (S k <? ns)%nat then PCol (S k) else PFill)) = false) by (destruct (S k <? ns)%nat; reflexivity).
      rewrite Hm in Hcm. simpl in Hcm.
      constructor; simpl; rewrite ?updn_upd; try lia; auto.
      + rewrite <- updn_upd. apply allT_updn; auto; try solve [ intros _; apply k6t; left; reflexivity ].
      + rewrite <- updn_upd. apply allT_updn; auto; try solve [ destruct (S k <? ns)%nat; simpl; discriminate ].
    - (* PFill *)
      assert (H0 : cnt = 0) by (apply k6t; left; reflexivity).
      assert (Hm : nth_error (map (release V hd) l) i = Some (mkthr V PFill pr g)).
      { rewrite nth_error_map, Hi. reflexivity. }
      cntmid (map (release V hd) l) i (mkthr V PFill pr g) (next V hd (mkthr V PFill pr g)) Hm.
      destruct (next_facts hd (mkthr V PFill pr g)) as (Hn1 & Hn2 & Hn3 & Hn4 & Hn5).
      rewrite Hn1 in Hcm. simpl in Hcm. rewrite (cnt_map_same isMid (release V hd) l (release_mid hd)) in Hcm.
      constructor; simpl; rewrite ?updn_upd; try lia; auto.
      + intros j u Hj Hs. auto.
      + rewrite <- updn_upd. apply allT_updn_map; auto.
        intros u Hu. unfold release. destruct (t_pc u) eqn:Hp; try (apply (allT_In _ _ _ k9 Hu)).
        intros H. exfalso. revert H. apply passed_facts. rewrite Hp. discriminate.
    - (* PAdd *)
      apply orb_false_elim in He. destruct He as (_ & Hnz). apply Z.eqb_neq in Hnz.
      rewrite (proj2 (Z.eqb_neq _ _) Hnz) in *.
      assert (Hpos : 0 <= cnt) by lia.
      rewrite wrap64_small by lia.
      destruct (next_facts hd (mkthr V (PAdd n) pr g)) as (Hn1 & Hn2 & Hn3 & Hn4 & Hn5).
      cntmid l i (mkthr V (PAdd n) pr g) (next V hd (mkthr V (PAdd n) pr g)) Hi. rewrite Hn1 in Hcm. simpl in Hcm.
      assert (Hothers : forall j u, nth_error l j = Some u -> special u -> False).
      { intros j u Hj Hs. pose proof (k6 _ _ Hj Hs). simpl in *. lia. }
      constructor; simpl; rewrite ?updn_upd; try lia.
      + rewrite <- updn_upd. intros j u Hj. rewrite updn_upd in Hj. apply L.nth_upd_inv in Hj.
        destruct Hj as [[-> ->]|[Hne Hj]]; intros Hs; exfalso.
        * unfold special in Hs. rewrite Hn2, Hn5 in Hs. simpl in Hs. destruct Hs as [Hs|[Hs|Hs]]; try discriminate; try contradiction.
          assert (cnt = 0) by (apply k6t; auto). lia.
        * eapply Hothers; eauto.
      + intros Hr. specialize (k7 Hr). lia.
      + rewrite <- updn_upd. apply allT_updn.
        * intros j u Hj Hp. rewrite (k9 _ _ Hj Hp). reflexivity.
        * intros H. contradiction.
    - (* PEmpty *)
      rewrite k9t in He0 by reflexivity. discriminate.
    - (* PRead *)
      remember (if rdy then passed V hd tgt (mkthr V (PRead tgt) pr g) else setpc V (mkthr V (PRead tgt) pr g) (PBlk tgt)) as t' eqn:Ht'.
      assert (Hf : isMid t' = false /\ t_pc t' <> PEmpty).
      { subst t'. destruct rdy; [apply passed_facts; simpl; discriminate|]. split; [reflexivity|simpl; discriminate]. }
      destruct Hf as (Hf1 & Hf2).
      cntmid l i (mkthr V (PRead tgt) pr g) t' Hi. rewrite Hf1 in Hcm. simpl in Hcm.
      constructor; simpl; rewrite ?updn_upd; try lia; auto.
      + rewrite <- updn_upd. apply allT_updn; auto. subst t'. destruct rdy; [intros _; auto|].
        unfold special; simpl. intros [H|[H|H]]; try discriminate. apply k6t; auto.
      + rewrite <- updn_upd. apply allT_updn; auto; try solve [ intros H; contradiction ].
    - (* PCopy *)
      destruct (next_facts hd (mkthr V PCopy pr (g ++ [Some res]))) as (Hn1 & Hn2 & Hn3 & Hn4 & Hn5).
      cntmid l i (mkthr V PCopy pr g) (next V hd (mkthr V PCopy pr (g ++ [Some res]))) Hi. rewrite Hn1 in Hcm. simpl in Hcm.
      constructor; simpl; rewrite ?updn_upd; try lia; auto.
      + rewrite <- updn_upd. apply allT_updn; auto; try solve [ intros _; apply k6t; right; left; reflexivity ].
      + rewrite <- updn_upd. apply allT_updn; auto; try solve [ intros H; contradiction ].
  Qed.

  Lemma clean_exec_mono : forall sched s, clean (exec V vop s sched) -> clean s.
  Proof.
    induction sched as [|i r IH]; simpl; intros s H; auto.
    apply IH in H. unfold step_or_stay in H. destruct (step V vop s i) eqn:Hs; auto. eapply clean_mono; eauto.
  Qed.

  Lemma K_exec : forall sched s, K s -> clean (exec V vop s sched) -> K (exec V vop s sched).
  Proof.
    induction sched as [|i r IH]; simpl; intros s HK Hc; auto.
    apply IH; auto. pose proof (clean_exec_mono _ _ Hc) as Hc1.
    unfold step_or_stay in *. destruct (step V vop s i) eqn:Hs; auto. eapply K_step; eauto.
  Qed.

  Lemma fresh_threads : forall hd (progs : list (list (op V))) j t,
      nth_error (map (fun p => next V hd (mkthr V PIdle p [])) progs) j = Some t ->
      isMid t = false /\ ~ special t /\ t_pc t <> PEmpty.
  Proof.
    intros hd progs j t H. rewrite nth_error_map in H. destruct (nth_error progs j) as [p|]; simpl in H; [|discriminate].
    inversion H; subst t. destruct (next_facts hd (mkthr V PIdle p [])) as (H1 & H2 & H3 & H4 & H5).
    repeat split; auto. unfold special. rewrite H2, H5. simpl. intros [X|[X|X]]; try discriminate; contradiction.
  Qed.

  Lemma K_start : forall hd iv ns c progs, 0 <= c -> K (start V hd iv ns c progs).
  Proof.
    intros. unfold start. apply mkK; simpl.
    - lia.
    - rewrite L.cnt_none; auto. intros j t Hj. destruct (fresh_threads _ _ _ _ Hj) as (A & B & C); auto.
    - lia.
    - intros j t Hj Hs. exfalso. destruct (fresh_threads _ _ _ _ Hj) as (A & B & C); auto.
    - intros Hr. apply Z.eqb_eq in Hr. auto.
    - intros j t Hj Hp. exfalso. destruct (fresh_threads _ _ _ _ Hj) as (A & B & C); auto.
  Qed.

  Lemma K_reset : forall s n progs, 0 <= n -> K (reset V s n progs).
  Proof.
    intros. unfold reset. apply mkK; simpl.
    - lia.
    - rewrite L.cnt_none; auto. intros j t Hj. destruct (fresh_threads _ _ _ _ Hj) as (A & B & C); auto.
    - lia.
    - intros j t Hj Hs. exfalso. destruct (fresh_threads _ _ _ _ Hj) as (A & B & C); auto.
    - destruct (n =? 0) eqn:Hn; [apply Z.eqb_eq in Hn; auto|discriminate].
    - intros j t Hj Hp. exfalso. destruct (fresh_threads _ _ _ _ Hj) as (A & B & C); auto.
  Qed.

  (* the conclusion of the counting theorems: every expected submission has been made and has decremented *)
  Definition all_arrived (s : state) : Prop :=
    counter s = 0 /\ Z.of_nat (decs s) = c0 s + exps s /\ started s = decs s /\ L.cnt isMid (thrs s) = 0%nat.

  Lemma K_special : forall s i t, K s -> nth_error (thrs s) i = Some t -> special t -> all_arrived s.
  Proof.
    intros s i t HK Hi Hs. pose proof (K6 _ HK _ _ Hi Hs) as H0. destruct (zero_facts _ HK H0) as (A & B & C).
    destruct HK as [k1 k2 k3 _ _ _]. unfold all_arrived. repeat split; auto; lia.
  Qed.

  (* generation = the run that follows qt_sinc_init (start) or qt_sinc_reset (reset) *)
  Lemma wait_after_all_submits_start : forall hd iv ns c progs sched i t,
      let s := exec V vop (start V hd iv ns c progs) sched in
      clean s -> nth_error (thrs s) i = Some t -> (t_got t <> [] \/ t_pc t = PCopy) -> all_arrived s.
  Proof.
    intros hd iv ns c progs sched i t s Hc Hi Hp.
    assert (HK : K s).
    { apply K_exec; auto. apply K_start. apply clean_exec_mono in Hc. destruct Hc as (_ & _ & H & _). exact H. }
    apply (K_special s i t HK Hi). unfold special. destruct Hp; auto.
  Qed.

  Lemma wait_after_all_submits_reset : forall s0 n progs sched i t,
      let s := exec V vop (reset V s0 n progs) sched in
      clean s -> nth_error (thrs s) i = Some t -> (t_got t <> [] \/ t_pc t = PCopy) -> all_arrived s.
  Proof.
    intros s0 n progs sched i t s Hc Hi Hp.
    assert (HK : K s).
    { apply K_exec; auto. apply K_reset. apply clean_exec_mono in Hc. destruct Hc as (_ & _ & H & _). exact H. }
    apply (K_special s i t HK Hi). unfold special. destruct Hp; auto.
  Qed.

  (* at every step of the collation (and when ready is full) no submission is outstanding or half-done *)
  Lemma collate_sees_all_start : forall hd iv ns c progs sched,
      let s := exec V vop (start V hd iv ns c progs) sched in
      clean s ->
      (forall i t, nth_error (thrs s) i = Some t -> isCol t = true -> all_arrived s) /\
      (ready s = true -> all_arrived s).
  Proof.
    intros hd iv ns c progs sched s Hc.
    assert (HK : K s).
    { apply K_exec; auto. apply K_start. apply clean_exec_mono in Hc. destruct Hc as (_ & _ & H & _). exact H. }
    split.
    - intros i t Hi Hcol. apply (K_special s i t HK Hi). left. auto.
    - intros Hr. pose proof (K7 _ HK Hr) as H0. destruct (zero_facts _ HK H0) as (A & B & C).
      destruct HK as [k1 k2 k3 _ _ _]. unfold all_arrived. repeat split; auto; lia.
  Qed.

  (* once everything has arrived, any further submit / expect breaks the proviso: the state is frozen for them *)
  Lemma frozen_after_arrival : forall s i s' t,
      K s -> counter s = 0 -> nth_error (thrs s) i = Some t -> step V vop s i = Some s' -> clean s' ->
      match t_pc t with PSlot _ _ | PDec _ | PAdd _ | PEmpty => False | _ => True end.
  Proof.
    intros s i s' t HK H0 Hi Hstep Hc.
    pose proof (clean_mono _ _ _ Hstep Hc) as (He0 & Ho0 & _ & _).
    destruct (zero_facts _ HK H0) as (A & B & C).
    pose proof (K9 _ HK _ _ Hi) as k9t. cbv beta in k9t.
    destruct Hc as (He & Ho & _ & _). unfold step in Hstep. rewrite Hi in Hstep.
    destruct s as [hd iv ns cnt rdy sl res l c dcs eps stt sub e0 ov]; simpl in *. subst cnt.
    destruct t as [p pr g]; simpl in *.
    destruct p as [|v k|fresh| |k| |n| |tgt|tgt|]; auto; inversion Hstep; subst s'; simpl in *.
    - apply orb_false_elim in Ho. destruct Ho as (_ & Hlt). apply Z.leb_gt in Hlt. lia.
    - destruct fresh; simpl in *.
      + apply orb_false_elim in Ho. destruct Ho as (_ & Hlt). apply Z.leb_gt in Hlt. lia.
      + pose proof (mid_pos l i _ Hi eq_refl). lia.
    - apply orb_false_elim in He. destruct He as (_ & Hnz). discriminate.
    - rewrite k9t in He0 by reflexivity. discriminate.
  Qed.

  Lemma frozen_after_arrival_start : forall hd iv ns c progs sched i s' t,
      let s := exec V vop (start V hd iv ns c progs) sched in
      counter s = 0 -> nth_error (thrs s) i = Some t -> step V vop s i = Some s' -> clean s' ->
      match t_pc t with PSlot _ _ | PDec _ | PAdd _ | PEmpty => False | _ => True end.
  Proof.
    intros hd iv ns c progs sched i s' t s H0 Hi Hstep Hc.
    pose proof (clean_mono _ _ _ Hstep Hc) as Hcs.
    assert (HK : K s).
    { apply K_exec; auto. apply K_start. apply clean_exec_mono in Hcs. destruct Hcs as (_ & _ & H & _). exact H. }
    eapply frozen_after_arrival; eauto.
  Qed.

  (* ---------------------------------------------------------------- value: the algebra of slots and collation *)
  (* a slot update folds the value into the total of the slots exactly as it folds it into the multiset of
     submitted values, whatever slot (placement) is used *)
  Lemma slot_step_reduce : forall s i t v k s',
      nth_error (thrs s) i = Some t -> t_pc t = PSlot v k -> (k < length (slots s))%nat ->
      step V vop s i = Some s' ->
      submitted s' = submitted s ++ [v] /\
      forall a, reduce (slots s') a = vop (reduce (slots s) a) v /\ reduce (submitted s') a = vop (reduce (submitted s) a) v.
  Proof.
    intros s i t v k s' Hi Hp Hk Hstep. unfold step in Hstep. rewrite Hi, Hp in Hstep.
    inversion Hstep; subst s'; simpl. split; auto. intros a. split.
    - apply reduce_updn. auto.
    - rewrite reduce_app. reflexivity.
  Qed.

  (* no other step touches the slots or the submitted multiset *)
  Lemma other_step_keeps_slots : forall s i t s',
      nth_error (thrs s) i = Some t -> (forall v k, t_pc t <> PSlot v k) -> step V vop s i = Some s' ->
      slots s' = slots s /\ submitted s' = submitted s.
  Proof.
    intros s i t s' Hi Hp Hstep. unfold step in Hstep. rewrite Hi in Hstep.
    destruct (t_pc t) as [|v k|fresh| |k| |n| |tgt|tgt|] eqn:E; try discriminate; inversion Hstep; subst s'; simpl; auto.
    exfalso. eapply Hp; eauto.
  Qed.

  (* the collation (PC0 then PCol 0 .. n-1) computes the reduction of the slots *)
  Lemma collate_fold : forall (sl : list V) d k a, (k <= length sl)%nat ->
      fold_left (fun r j => vop r (nth j sl d)) (seq 0 k) a = reduce (firstn k sl) a.
  Proof.
    intros sl d. induction k as [|k IH]; intros a Hk; [reflexivity|].
    rewrite seq_S, fold_left_app. rewrite IH by lia.
    rewrite (firstn_S_nth sl k d) by lia. rewrite reduce_app. reflexivity.
  Qed.

  Lemma collate_steps : forall s i t s',
      nth_error (thrs s) i = Some t -> step V vop s i = Some s' ->
      match t_pc t with
      | PC0 => result s' = initv s
      | PCol k => result s' = vop (result s) (nth k (slots s) (initv s))
      | PCopy => exists t', nth_error (thrs s') i = Some t' /\ t_got t' = t_got t ++ [Some (result s)]
      | _ => result s' = result s
      end.
  Proof.
    intros s i t s' Hi Hstep. unfold step in Hstep. rewrite Hi in Hstep.
    destruct (t_pc t) as [|v k|fresh| |k| |n| |tgt|tgt|] eqn:E; try discriminate; inversion Hstep; subst s'; simpl; auto.
    rewrite updn_upd. erewrite L.nth_upd_eq by eauto. eexists. split; [reflexivity|].
    destruct (next_facts (hasdata s) (mkthr V PCopy (t_prog t) (t_got t ++ [Some (result s)]))) as (_ & _ & _ & _ & ->). reflexivity.
  Qed.

  (* hence: slots all equal to a neutral initial value, then any sequence of slot updates with values vs,
     then a collation, gives the reduction of vs *)
  Lemma collate_of_slots : forall (sl vs : list V) e,
      (forall x, vop e x = x) -> reduce sl e = reduce vs e ->
      fold_left (fun r j => vop r (nth j sl e)) (seq 0 (length sl)) e = reduce vs e.
  Proof. intros sl vs e He H. rewrite collate_fold by lia. rewrite firstn_all. auto. Qed.

  (* ---------------------------------------------------------------- value: the end-to-end invariant *)
  Definition progok (ns : nat) (o : op V) : Prop := match o with Submit _ k => (k < ns)%nat | _ => True end.

  (* what the position of a thread says about result / slots / ready *)
  Definition tokj (s : state) (t : thr) : Prop :=
    match t_pc t with
    | PSlot _ k => (k < nslots s)%nat
    | PC0 => hasdata s = true
    | PCol k => (k < nslots s)%nat /\ result s = reduce (firstn k (slots s)) (initv s)
    | PFill => hasdata s = true -> result s = reduce (slots s) (initv s)
    | PCopy => hasdata s = true /\ ready s = true
    | _ => True
    end /\
    Forall (progok (nslots s)) (t_prog t) /\
    (t_got t <> [] -> ready s = true) /\
    (forall r, In (Some r) (t_got t) -> hasdata s = true /\ r = result s).

  Record J (s : state) : Prop := mkJ {
    J4 : length (slots s) = nslots s;
    J5 : (L.cnt isCol (thrs s) <= 1)%nat;
    J6 : allT (tokj s) (thrs s);
    J7 : ready s = true -> L.cnt isCol (thrs s) = 0%nat /\ (hasdata s = true -> result s = reduce (slots s) (initv s));
    J10 : reduce (slots s) (initv s) = reduce (submitted s) (initv s)
  }.

  (* a thread that is not special constrains nothing but nslots *)
  Lemma tokj_quiet : forall s s' t, ~ special t -> tokj s t -> nslots s' = nslots s -> tokj s' t.
  Proof.
    intros s s' t Hns (H1 & H2 & H3 & H4) Hn. unfold special, isCol in Hns. unfold tokj. rewrite Hn.
    assert (Hg : t_got t = []) by (destruct (t_got t); auto; exfalso; apply Hns; right; right; discriminate).
    repeat split.
    - destruct (t_pc t); auto; exfalso; apply Hns; auto.
    - auto.
    - rewrite Hg. intros X; contradiction.
    - rewrite Hg in H. contradiction.
    - rewrite Hg in H. contradiction.
  Qed.

  Lemma load_ok : forall hd ns p, Forall (progok ns) p ->
      Forall (progok ns) (snd (load V hd p)) /\
      match fst (load V hd p) with PSlot _ k => (k < ns)%nat | _ => True end.
  Proof.
    induction p as [|o r IH]; simpl; intros H; auto.
    inversion H as [|? ? Ho Hr]; subst. specialize (IH Hr).
    destruct o as [[v|] k|n|b]; simpl; auto.
    - destruct hd; simpl; auto.
    - destruct n; simpl; auto.
  Qed.

  Lemma tokj_next : forall s t,
      Forall (progok (nslots s)) (t_prog t) ->
      (t_got t <> [] -> ready s = true) -> (forall r, In (Some r) (t_got t) -> hasdata s = true /\ r = result s) ->
      tokj s (next V (hasdata s) t).
  Proof.
    intros s t Hp Hg Hr. unfold tokj, next.
    pose proof (load_ok (hasdata s) (nslots s) (t_prog t) Hp) as (Ha & Hb).
    pose proof (load_plain (hasdata s) (t_prog t)) as Hc.
    destruct (load V (hasdata s) (t_prog t)) as [p r]; simpl in *.
    split; [|split; [auto|split; [auto|auto]]].
    destruct p as [| | [|] | | | | | | | |]; auto; contradiction.
  Qed.

  Lemma release_col : forall hd t, isCol (release V hd t) = isCol t.
  Proof.
    intros hd t. unfold release. destruct (t_pc t) eqn:Hp; auto. unfold passed.
    destruct (tgt && hd)%bool.
    - unfold isCol, setpc; simpl. rewrite Hp. reflexivity.
    - destruct (next_facts hd (mkthr V (t_pc t) (t_prog t) (t_got t ++ [None]))) as (_ & -> & _). unfold isCol. rewrite Hp. reflexivity.
  Qed.

  Lemma in_app_none : forall (g : list (option V)) r, In (Some r) (g ++ [None]) -> In (Some r) g.
  Proof. intros g r H. apply in_app_or in H. destruct H as [H|[H|[]]]; auto. discriminate. Qed.

  (* effect of getting past the readFF when ready is full *)
  Lemma tokj_passed : forall s tgt t,
      ready s = true -> tokj s t -> tokj s (passed V (hasdata s) tgt t).
  Proof.
    intros s tgt t Hr (H1 & H2 & H3 & H4). unfold passed.
    destruct (tgt && hasdata s)%bool eqn:Hb.
    - apply andb_prop in Hb. destruct Hb as (_ & Hh). unfold tokj, setpc; simpl. repeat split; auto; apply H4; auto.
    - apply tokj_next; simpl; auto. intros r Hin. apply H4. apply in_app_none. auto.
  Qed.

  Lemma quiet_of_pos : forall s, K s -> counter s <> 0 -> ready s = false /\ (forall j u, nth_error (thrs s) j = Some u -> ~ special u).
  Proof.
    intros s HK Hnz. split.
    - destruct (ready s) eqn:Hr; auto. exfalso. apply Hnz. apply (K7 _ HK). auto.
    - intros j u Hj Hs. apply Hnz. apply (K6 _ HK _ _ Hj Hs).
  Qed.

  Ltac cntcol l i t x Hi :=
    let Hc := fresh "Hcc" in
    pose proof (L.cnt_upd isCol l i t x Hi) as Hc; unfold L.b2n in Hc.

  Lemma J_step : forall s i s', K s -> J s -> step V vop s i = Some s' -> clean s' -> J s'.
  Proof.
    intros s i s' HK HJ Hstep Hc.
    pose proof (clean_mono _ _ _ Hstep Hc) as Hcs.
    pose proof (K_step _ _ _ HK Hstep Hc) as HK'.
    destruct HJ as [j4 j5 j6 j7 j10].
    unfold step in Hstep. destruct (nth_error (thrs s) i) as [t|] eqn:Hi; [|discriminate].
    pose proof (j6 _ _ Hi) as j6t. pose proof (K6 _ HK _ _ Hi) as k6t. pose proof (K9 _ HK _ _ Hi) as k9t. cbv beta in k6t, k9t.
    pose proof (K1 _ HK) as k1. pose proof (K2 _ HK) as k2. pose proof (K3 _ HK) as k3. pose proof (K7 _ HK) as k7.
    pose proof (quiet_of_pos _ HK) as Hquiet.
    destruct Hc as (He & Ho & Hc0' & Hb). destruct Hcs as (He0 & Ho0 & _ & Hb0).
    destruct s as [hd iv ns cnt rdy sl res l c dcs eps stt sub e0 ov]; simpl in *.
    destruct t as [p pr g]; simpl in *. unfold special in k6t; simpl in k6t.
    destruct j6t as (jp & jprog & jg1 & jg2); simpl in *.
    destruct p as [|v k|fresh| |k| |n| |tgt|tgt|]; try discriminate; inversion Hstep; subst s'; clear Hstep; simpl in *;
      rewrite ?updn_upd in *.
    - (* PSlot: counter > 0, everybody is quiet *)
      apply orb_false_elim in Ho. destruct Ho as (_ & Hlt). apply Z.leb_gt in Hlt.
      assert (Hnz : cnt <> 0) by lia. destruct (Hquiet Hnz) as (Hrdy & Hq). subst rdy.
      cntcol l i (mkthr V (PSlot v k) pr g) (setpc V (mkthr V (PSlot v k) pr g) (PDec false)) Hi. simpl in Hcc.
      apply mkJ; simpl; rewrite ?updn_upd.
      + rewrite L.length_upd. auto.
      + lia.
      + rewrite <- updn_upd. apply allT_updn.
        * intros j u Hj. apply (tokj_quiet _ _ u (Hq _ _ Hj) (j6 _ _ Hj)). reflexivity.
        * assert (Hg : g = []).
          { destruct g; auto. exfalso. apply (Hq _ _ Hi). right. right. simpl. discriminate. }
          subst g. unfold tokj; simpl. repeat split; auto; try contradiction; try (intros X; contradiction).
      + intros X; discriminate.
      + rewrite <- updn_upd. rewrite reduce_updn by lia. rewrite reduce_app. simpl. rewrite j10. reflexivity.
    - (* PDec *)
      assert (Hpos : 1 <= cnt).
      { destruct fresh; simpl in *.
        - apply orb_false_elim in Ho. destruct Ho as (_ & Hlt). apply Z.leb_gt in Hlt. lia.
        - pose proof (mid_pos l i _ Hi eq_refl). lia. }
      assert (Hnz : cnt <> 0) by lia. destruct (Hquiet Hnz) as (Hrdy & Hq). subst rdy.
      assert (Hg : g = []).
      { destruct g; auto. exfalso. apply (Hq _ _ Hi). right. right. simpl. discriminate. }
      subst g.
      assert (Hnocol : L.cnt isCol l = 0%nat).
      { apply L.cnt_none. intros j u Hj. destruct (isCol u) eqn:E; auto. exfalso. apply (Hq _ _ Hj). left. auto. }
      remember (if cnt =? 1 then setpc V (mkthr V (PDec fresh) pr []) (if hd then PC0 else PFill) else next V hd (mkthr V (PDec fresh) pr [])) as t' eqn:Ht'.
      cntcol l i (mkthr V (PDec fresh) pr []) t' Hi. cbn [isCol t_pc] in Hcc.
      assert (Hle : (L.b2n (isCol t') <= 1)%nat) by (destruct (isCol t'); simpl; lia). unfold L.b2n in Hle.
      apply mkJ; simpl; rewrite ?updn_upd.
      + auto.
      + lia.
      + rewrite <- updn_upd. apply allT_updn.
        * intros j u Hj. apply (tokj_quiet _ _ u (Hq _ _ Hj) (j6 _ _ Hj)). reflexivity.
        * subst t'. destruct (cnt =? 1).
          -- unfold tokj, setpc; simpl. destruct hd; simpl; repeat split; auto; try contradiction; try discriminate; intros X; contradiction.
          -- apply (tokj_next (mkst V hd iv ns (wrap64 (cnt - 1)) false sl res _ c (S dcs) eps _ sub e0 _) (mkthr V (PDec fresh) pr [])); simpl; auto;
               try (intros X; contradiction); try (intros r X; contradiction).
      + intros X; discriminate.
      + auto.
    - (* PC0 *)
      assert (H0 : cnt = 0) by (apply k6t; left; reflexivity).
      assert (Hone : L.cnt isCol l = 1%nat) by (pose proof (L.cnt_pos_of isCol l i _ Hi eq_refl); lia).
      assert (Hrdy : rdy = false) by (destruct rdy; auto; destruct (j7 eq_refl); lia). subst rdy.
      remember (setpc V (mkthr V PC0 pr g) (match ns with O => PFill | S _ => PCol 0 end)) as t' eqn:Ht'.
      assert (Hct : isCol t' = true) by (subst t'; destruct ns; reflexivity).
      cntcol l i (mkthr V PC0 pr g) t' Hi. rewrite Hct in Hcc. cbn [isCol t_pc] in Hcc.
      assert (Hg : g = []) by (destruct g; auto; discriminate (jg1 ltac:(discriminate))). subst g.
      apply mkJ; simpl; rewrite ?updn_upd.
      + auto.
      + lia.
      + rewrite <- updn_upd. intros j u Hj. rewrite updn_upd in Hj. apply L.nth_upd_inv in Hj. destruct Hj as [[-> ->]|[Hne Hj]].
        * subst t'. unfold tokj, setpc; simpl. destruct ns; simpl; repeat split; auto; try contradiction; try lia; try (intros X; contradiction).
          intros _. destruct sl; simpl in *; [reflexivity|discriminate].
        * pose proof (L.cnt_one_others isCol l i _ Hone Hi eq_refl j u Hne Hj) as Hnc.
          pose proof (j6 _ _ Hj) as (u1 & u2 & u3 & u4).
          apply (tokj_quiet (mkst V hd iv ns cnt false sl res l c dcs eps stt sub e0 ov)); auto; [|split; auto].
          unfold special. rewrite Hnc. intros [X|[X|X]]; try discriminate.
          -- rewrite X in u1. destruct u1 as (_ & Y). discriminate.
          -- discriminate (u3 X).
      + intros X; discriminate.
      + auto.
    - (* PCol *)
      assert (H0 : cnt = 0) by (apply k6t; left; reflexivity).
      assert (Hone : L.cnt isCol l = 1%nat) by (pose proof (L.cnt_pos_of isCol l i _ Hi eq_refl); lia).
      assert (Hrdy : rdy = false) by (destruct rdy; auto; destruct (j7 eq_refl); lia). subst rdy.
      remember (setpc V (mkthr V (PCol k) pr g) (if (S k <? ns)%nat then PCol (S k) else PFill)) as t' eqn:Ht'.
      assert (Hct : isCol t' = true) by (subst t'; destruct (S k <? ns)%nat; reflexivity).
      cntcol l i (mkthr V (PCol k) pr g) t' Hi. rewrite Hct in Hcc. cbn [isCol t_pc] in Hcc.
      assert (Hg : g = []) by (destruct g; auto; discriminate (jg1 ltac:(discriminate))). subst g.
      destruct jp as (Hk & Hres).
      assert (Hnew : vop res (nth k sl iv) = reduce (firstn (S k) sl) iv).
      { rewrite (firstn_S_nth sl k iv) by lia. rewrite reduce_app. simpl. rewrite Hres. reflexivity. }
      apply mkJ; simpl; rewrite ?updn_upd.
      + auto.
      + lia.
      + rewrite <- updn_upd. intros j u Hj. rewrite updn_upd in Hj. apply L.nth_upd_inv in Hj. destruct Hj as [[-> ->]|[Hne Hj]].
        * subst t'. unfold tokj, setpc; simpl. destruct (S k <? ns)%nat eqn:Hlt; simpl; repeat split; auto; try contradiction; try (intros X; contradiction).
          -- apply Nat.ltb_lt in Hlt. auto.
          -- intros _. apply Nat.ltb_ge in Hlt. rewrite Hnew. rewrite firstn_all2 by lia. reflexivity.
        * pose proof (L.cnt_one_others isCol l i _ Hone Hi eq_refl j u Hne Hj) as Hnc.
          pose proof (j6 _ _ Hj) as (u1 & u2 & u3 & u4).
          apply (tokj_quiet (mkst V hd iv ns cnt false sl res l c dcs eps stt sub e0 ov)); auto; [|split; auto].
          unfold special. rewrite Hnc. intros [X|[X|X]]; try discriminate.
          -- rewrite X in u1. destruct u1 as (_ & Y). discriminate.
          -- discriminate (u3 X).
      + intros X; discriminate.
      + auto.
    - (* PFill *)
      assert (Hone : L.cnt isCol l = 1%nat) by (pose proof (L.cnt_pos_of isCol l i _ Hi eq_refl); lia).
      assert (Hm : nth_error (map (release V hd) l) i = Some (mkthr V PFill pr g)).
      { rewrite nth_error_map, Hi. reflexivity. }
      destruct (next_facts hd (mkthr V PFill pr g)) as (Hn1 & Hn2 & Hn3 & Hn4 & Hn5).
      cntcol (map (release V hd) l) i (mkthr V PFill pr g) (next V hd (mkthr V PFill pr g)) Hm.
      rewrite Hn2 in Hcc. cbn [isCol t_pc] in Hcc. rewrite (cnt_map_same isCol (release V hd) l (release_col hd)) in Hcc.
      set (s1 := mkst V hd iv ns cnt true sl res l c dcs eps stt sub e0 ov).
      assert (Hmono : forall u, tokj (mkst V hd iv ns cnt rdy sl res l c dcs eps stt sub e0 ov) u -> tokj s1 u).
      { intros u (u1 & u2 & u3 & u4). unfold tokj; simpl in *. split; [|split; [auto|split; [auto|auto]]].
        destruct (t_pc u); auto. destruct u1; auto. }
      apply mkJ; simpl; rewrite ?updn_upd.
      + auto.
      + lia.
      + rewrite <- updn_upd. apply allT_updn_map.
        * intros u Hu. pose proof (Hmono u (allT_In _ _ _ j6 Hu)) as Hu1.
          unfold release. destruct (t_pc u) eqn:Hp; auto;
            try (destruct Hu1 as (u1 & u2 & u3 & u4); unfold tokj in *; simpl in *; rewrite Hp in *; repeat split; auto; fail).
          apply (tokj_passed s1 tgt u eq_refl Hu1).
        * apply (tokj_next s1 (mkthr V PFill pr g)); simpl; auto.
      + intros _. split; [lia|]. auto.
      + auto.
    - (* PAdd *)
      apply orb_false_elim in He. destruct He as (_ & Hnz). apply Z.eqb_neq in Hnz.
      rewrite (proj2 (Z.eqb_neq _ _) Hnz) in *.
      destruct (Hquiet Hnz) as (Hrdy & Hq). subst rdy.
      assert (Hg : g = []).
      { destruct g; auto. exfalso. apply (Hq _ _ Hi). right. right. simpl. discriminate. }
      subst g.
      destruct (next_facts hd (mkthr V (PAdd n) pr [])) as (Hn1 & Hn2 & Hn3 & Hn4 & Hn5).
      cntcol l i (mkthr V (PAdd n) pr []) (next V hd (mkthr V (PAdd n) pr [])) Hi. rewrite Hn2 in Hcc. cbn [isCol t_pc] in Hcc.
      apply mkJ; simpl; rewrite ?updn_upd.
      + auto.
      + lia.
      + rewrite <- updn_upd. apply allT_updn.
        * intros j u Hj. apply (tokj_quiet _ _ u (Hq _ _ Hj) (j6 _ _ Hj)). reflexivity.
        * apply (tokj_next (mkst V hd iv ns (wrap64 (cnt + Z.of_nat n)) false sl res l c dcs (eps + Z.of_nat n) stt sub e0 ov) (mkthr V (PAdd n) pr [])); simpl; auto;
            try (intros X; contradiction); try (intros r X; contradiction).
      + intros X; discriminate.
      + auto.
    - (* PEmpty *)
      rewrite k9t in He0 by reflexivity. discriminate.
    - (* PRead *)
      set (s0 := mkst V hd iv ns cnt rdy sl res l c dcs eps stt sub e0 ov).
      remember (if rdy then passed V hd tgt (mkthr V (PRead tgt) pr g) else setpc V (mkthr V (PRead tgt) pr g) (PBlk tgt)) as t' eqn:Ht'.
      assert (Hct : isCol t' = false).
      { subst t'. destruct rdy; [|reflexivity]. unfold passed. destruct (tgt && hd)%bool; [reflexivity|]. apply next_facts. }
      cntcol l i (mkthr V (PRead tgt) pr g) t' Hi. rewrite Hct in Hcc. cbn [isCol t_pc] in Hcc.
      apply mkJ; simpl; rewrite ?updn_upd.
      + auto.
      + lia.
      + rewrite <- updn_upd. apply allT_updn; auto. subst t'. destruct rdy eqn:Hr.
        * apply (tokj_passed s0 tgt (mkthr V (PRead tgt) pr g) eq_refl). unfold tokj; simpl. auto.
        * unfold tokj, setpc; simpl. auto.
      + intros Hr. destruct (j7 Hr) as (A & B). split; auto. lia.
      + auto.
    - (* PCopy *)
      set (s0 := mkst V hd iv ns cnt rdy sl res l c dcs eps stt sub e0 ov).
      destruct jp as (Hhd & Hrdy).
      destruct (next_facts hd (mkthr V PCopy pr (g ++ [Some res]))) as (Hn1 & Hn2 & Hn3 & Hn4 & Hn5).
      cntcol l i (mkthr V PCopy pr g) (next V hd (mkthr V PCopy pr (g ++ [Some res]))) Hi. rewrite Hn2 in Hcc. cbn [isCol t_pc] in Hcc.
      apply mkJ; simpl; rewrite ?updn_upd.
      + auto.
      + lia.
      + rewrite <- updn_upd. apply allT_updn; auto.
        apply (tokj_next s0 (mkthr V PCopy pr (g ++ [Some res]))); simpl; auto.
        intros r Hin. apply in_app_or in Hin. destruct Hin as [Hin|[Hin|[]]]; auto. inversion Hin; subst. auto.
      + intros Hr. destruct (j7 Hr) as (A & B). split; auto. lia.
      + auto.
  Qed.

  Lemma KJ_exec : forall sched s, K s -> J s -> clean (exec V vop s sched) -> K (exec V vop s sched) /\ J (exec V vop s sched).
  Proof.
    induction sched as [|i r IH]; simpl; intros s HK HJ Hc; auto.
    pose proof (clean_exec_mono _ _ Hc) as Hc1.
    unfold step_or_stay in *. destruct (step V vop s i) eqn:Hs; auto.
    apply IH; auto; [eapply K_step; eauto | eapply J_step; eauto].
  Qed.

  Lemma step_initv : forall s i s', step V vop s i = Some s' -> initv s' = initv s.
  Proof.
    intros s i s' Hstep. unfold step in Hstep. destruct (nth_error (thrs s) i) as [t|]; [|discriminate].
    destruct (t_pc t); try discriminate; inversion Hstep; reflexivity.
  Qed.

  Lemma exec_initv : forall sched s, initv (exec V vop s sched) = initv s.
  Proof.
    induction sched as [|i r IH]; simpl; intros s; auto. rewrite IH. unfold step_or_stay.
    destruct (step V vop s i) eqn:Hs; auto. eapply step_initv; eauto.
  Qed.

  Lemma fresh_J : forall (s : state) (progs : list (list (op V))),
      thrs s = map (fun p => next V (hasdata s) (mkthr V PIdle p [])) progs ->
      Forall (Forall (progok (nslots s))) progs ->
      L.cnt isCol (thrs s) = 0%nat /\ allT (tokj s) (thrs s).
  Proof.
    intros s progs Ht Hp. rewrite Ht. split.
    - apply L.cnt_none. intros j t Hj. destruct (fresh_threads _ _ _ _ Hj) as (_ & B & _).
      destruct (isCol t) eqn:E; auto. exfalso. apply B. left. auto.
    - intros j t Hj. rewrite nth_error_map in Hj. destruct (nth_error progs j) as [p|] eqn:Hn; simpl in Hj; [|discriminate].
      inversion Hj; subst t. apply tokj_next; simpl.
      + rewrite Forall_forall in Hp. apply Hp. eapply nth_error_In; eauto.
      + intros X; contradiction.
      + intros r X; contradiction.
  Qed.

  Lemma J_start : forall hd iv ns c progs, (forall x, vop iv x = x) -> Forall (Forall (progok ns)) progs ->
      J (start V hd iv ns c progs).
  Proof.
    intros hd iv ns c progs Hne Hp.
    destruct (fresh_J (start V hd iv ns c progs) progs eq_refl Hp) as (A & B).
    apply mkJ; auto.
    - simpl. apply repeat_length.
    - rewrite A. lia.
    - intros _. split; auto. intros _. simpl. symmetry. apply reduce_repeat_neutral. auto.
    - simpl. apply reduce_repeat_neutral. auto.
  Qed.

  Lemma J_reset : forall s n progs, (forall x, vop (initv s) x = x) -> Forall (Forall (progok (nslots s))) progs ->
      J (reset V s n progs).
  Proof.
    intros s n progs Hne Hp.
    destruct (fresh_J (reset V s n progs) progs eq_refl Hp) as (A & B).
    apply mkJ; auto.
    - simpl. apply repeat_length.
    - rewrite A. lia.
    - intros _. split; auto. intros _. simpl. symmetry. apply reduce_repeat_neutral. auto.
    - simpl. apply reduce_repeat_neutral. auto.
  Qed.

  Lemma KJ_value : forall s i t r, K s -> J s -> nth_error (thrs s) i = Some t -> In (Some r) (t_got t) ->
      r = reduce (submitted s) (initv s) /\ all_arrived s.
  Proof.
    intros s i t r HK HJ Hi Hin.
    destruct (J6 _ HJ _ _ Hi) as (_ & _ & G1 & G2).
    destruct (G2 r Hin) as (Hhd & Hr).
    assert (Hne : t_got t <> []) by (intros E; rewrite E in Hin; contradiction).
    destruct (J7 _ HJ (G1 Hne)) as (_ & Hres).
    split.
    - rewrite Hr, (Hres Hhd). apply (J10 _ HJ).
    - apply (K_special s i t HK Hi). right. right. auto.
  Qed.

  (* THE VALUE THEOREM: whatever a wait delivers is the reduction of exactly the submitted values, and at that time
     every expected submission has been made and folded in *)
  Lemma sinc_value_start : forall hd iv ns c progs sched i t r,
      (forall x, vop iv x = x) -> Forall (Forall (progok ns)) progs ->
      let s := exec V vop (start V hd iv ns c progs) sched in
      clean s -> nth_error (thrs s) i = Some t -> In (Some r) (t_got t) ->
      r = reduce (submitted s) iv /\ all_arrived s.
  Proof.
    intros hd iv ns c progs sched i t r Hne Hp s Hc Hi Hin.
    assert (H0 : 0 <= c).
    { pose proof (clean_exec_mono _ _ Hc) as (_ & _ & H & _). exact H. }
    destruct (KJ_exec sched _ (K_start hd iv ns c progs H0) (J_start hd iv ns c progs Hne Hp) Hc) as (HK & HJ).
    pose proof (KJ_value _ _ _ _ HK HJ Hi Hin) as (A & B). split; auto.
    rewrite A. unfold s. rewrite exec_initv. reflexivity.
  Qed.

  Lemma sinc_value_reset : forall s0 n progs sched i t r,
      (forall x, vop (initv s0) x = x) -> Forall (Forall (progok (nslots s0))) progs ->
      let s := exec V vop (reset V s0 n progs) sched in
      clean s -> nth_error (thrs s) i = Some t -> In (Some r) (t_got t) ->
      r = reduce (submitted s) (initv s0) /\ all_arrived s.
  Proof.
    intros s0 n progs sched i t r Hne Hp s Hc Hi Hin.
    assert (H0 : 0 <= n).
    { pose proof (clean_exec_mono _ _ Hc) as (_ & _ & H & _). exact H. }
    destruct (KJ_exec sched _ (K_reset s0 n progs H0) (J_reset s0 n progs Hne Hp) Hc) as (HK & HJ).
    pose proof (KJ_value _ _ _ _ HK HJ Hi Hin) as (A & B). split; auto.
    rewrite A. unfold s. rewrite exec_initv. reflexivity.
  Qed.

  (* ---------------------------------------------------------------- reset *)
  Lemma reset_fresh_pos : forall s n progs, n <> 0 ->
      reset V s n progs = start V (hasdata s) (initv s) (nslots s) n progs.
  Proof. intros s n progs Hn. unfold reset, start. apply Z.eqb_neq in Hn. rewrite Hn. reflexivity. Qed.

  Lemma reset_fresh_zero_complete : forall s progs, ready s = true ->
      reset V s 0 progs = start V (hasdata s) (initv s) (nslots s) 0 progs.
  Proof. intros s progs Hr. unfold reset, start. simpl. rewrite Hr. reflexivity. Qed.

  Lemma reset_zero_incomplete_differs_lemma : forall s progs, ready s = false ->
      ready (reset V s 0 progs) = false /\ ready (start V (hasdata s) (initv s) (nslots s) 0 progs) = true.
  Proof. intros s progs Hr. unfold reset, start. simpl. auto. Qed.
End Proofs.

(* ------------------------------------------------------------------ refuted variants (witnesses) *)
Definition w_progs : list (list (op nat)) :=
  [[Submit (Some 1%nat) 0]; [Expect 1; Submit (Some 2%nat) 0]; [Wait true]].
Definition w_sched : list nat := [0;0;1;1;0;0;0;2;2]%nat.

(* without the proviso (an expect finds the count at zero while the collator is on its way to fill ready):
   a wait completes although one expected submission is still outstanding *)
Lemma wait_without_proviso_refuted_lemma :
  let s := exec nat Nat.add (start nat true 0%nat 1 1 w_progs) w_sched in
  exp0 s = true /\ over s = false /\
  (exists t, nth_error (thrs s) 2 = Some t /\ t_got t <> []) /\ Z.of_nat (decs s) < c0 s + exps s /\ counter s = 1.
Proof. vm_compute. repeat split; try reflexivity. eexists. split; [reflexivity|discriminate]. Qed.

(* regression of the defect fixed by /repo 15fe3d8 (result buffer never written when nothing is expected): a sinc
   created for zero submissions, and one reset to zero after a completed generation, deliver the initial value *)
Example zero_count_delivers_initial_value :
  let s := exec nat Nat.add (start nat true 0%nat 1 0 [[Wait true]]) [0;0]%nat in
  exp0 s = false /\ over s = false /\ (exists t, nth_error (thrs s) 0 = Some t /\ t_got t = [Some 0%nat]).
Proof. vm_compute. repeat split; try reflexivity. eexists. split; reflexivity. Qed.

Example reset_zero_delivers_initial_value :
  let s1 := exec nat Nat.add (start nat true 0%nat 1 1 [[Submit (Some 5%nat) 0]]) [0;0;0;0;0]%nat in
  let s := exec nat Nat.add (reset nat s1 0 [[Wait true]]) [0;0]%nat in
  result s1 = 5%nat /\ (exists t, nth_error (thrs s) 0 = Some t /\ t_got t = [Some 0%nat]).
Proof. vm_compute. split; [reflexivity|]. eexists. split; reflexivity. Qed.

(* non-vacuity: a clean run in which a wait completes *)
Example clean_run_completes :
  let s := exec nat Nat.add (start nat true 0%nat 2 2
             [[Expect 1; Submit (Some 5%nat) 0; Submit (Some 6%nat) 1]; [Submit (Some 7%nat) 1]; [Wait true]])
             [2;0;0;0;1;1;0;0;0;0;0;0;2]%nat in
  exp0 s = false /\ over s = false /\ (exists t, nth_error (thrs s) 2 = Some t /\ t_got t = [Some 18%nat]) /\ decs s = 3%nat.
Proof. vm_compute. repeat split; try reflexivity. eexists. split; reflexivity. Qed.
