(* C10 extension S -- proofs about the lifecycle machine of Sinc/Extra.v *)
From Coq Require Import List ZArith Bool Arith Lia.
From QV Require Import Sinc.Model Sinc.Proofs Sinc.Extra.
Import ListNotations.
Local Open Scope Z_scope.

Arguments base {V}.
Arguments ctl_pc {V}.
Arguments ctl_script {V}.
Arguments result_freed {V}.
Arguments vals_freed {V}.
Arguments rdata_freed {V}.
Arguments struct_freed {V}.
Arguments uaf {V}.
Arguments stor {V}.

(* ------------------------------------------------------------------ qt_sinc_tmpdata *)
Lemma slot_in_range : forall ns wps shep worker,
  (shep < ns)%nat -> (worker < wps)%nat -> (slot_of wps shep worker < ns * wps)%nat.
Proof. unfold slot_of; intros; nia. Qed.

Lemma slot_injective : forall wps s1 w1 s2 w2,
  (w1 < wps)%nat -> (w2 < wps)%nat -> slot_of wps s1 w1 = slot_of wps s2 w2 -> s1 = s2 /\ w1 = w2.
Proof.
  unfold slot_of; intros wps s1 w1 s2 w2 H1 H2 E.
  assert (s1 = s2) as ->.
  { destruct (Nat.lt_trichotomy s1 s2) as [H|[H|H]]; [exfalso|exact H|exfalso].
    - assert ((S s1) * wps <= s2 * wps)%nat by (apply Nat.mul_le_mono_r; lia). lia.
    - assert ((S s2) * wps <= s1 * wps)%nat by (apply Nat.mul_le_mono_r; lia). lia. }
  split; [reflexivity|lia].
Qed.

Lemma tmpdata_is_submit_slot : forall hd wps shep worker,
  tmpdata hd wps shep worker = if hd then Some (submit_slot wps shep worker) else None.
Proof. reflexivity. Qed.

(* ------------------------------------------------------------------ init on caller storage = create *)
Section P.
  Variable V : Type.
  Variable vop : V -> V -> V.

  Lemma cstep_stor : forall st (x : xstate V),
    cstep V (with_stor V st x) = option_map (with_stor V st) (cstep V x).
  Proof.
    intros st x. unfold cstep, with_stor, cnext, set_ctl; cbn.
    destruct (ctl_pc x); cbn; try reflexivity.
    - destruct (wrap64 _ =? 0); [reflexivity|]. destruct (cload _ _); reflexivity.
    - destruct (cload _ _); reflexivity.
    - destruct (cload _ _); reflexivity.
    - destruct dst; [reflexivity|]. destruct (cload _ _); reflexivity.
    - destruct (cload _ _); reflexivity.
  Qed.

  Lemma xstep_stor : forall st (x : xstate V) i,
    xstep V vop (with_stor V st x) i = option_map (with_stor V st) (xstep V vop x i).
  Proof.
    intros st x i. unfold xstep. change (nparts V (with_stor V st x)) with (nparts V x).
    destruct (i =? nparts V x)%nat; [apply cstep_stor|].
    change (base (with_stor V st x)) with (base x).
    destruct (nth_error _ i); [|reflexivity]. destruct (step V vop (base x) i); reflexivity.
  Qed.

  Lemma xexec_stor : forall st sched (x : xstate V),
    xexec V vop (with_stor V st x) sched = with_stor V st (xexec V vop x sched).
  Proof.
    intros st sched; induction sched as [|i r IH]; intros x; [reflexivity|].
    cbn [xexec fold_left]. unfold xstep_or_stay at 2 4. rewrite xstep_stor.
    destruct (xstep V vop x i); cbn [option_map]; apply IH.
  Qed.

  Lemma init_equals_create : forall hd iv ns c progs script sched,
    xexec V vop (xinit V Caller hd iv ns c progs script) sched =
    with_stor V Caller (xexec V vop (xinit V Heap hd iv ns c progs script) sched).
  Proof.
    intros. rewrite <- xexec_stor. f_equal. unfold xinit, with_stor. destruct (cload hd script); reflexivity.
  Qed.

  (* ---------------------------------------------------------------- resize *)
  Lemma resize_add_step : forall (x x' : xstate V) d,
    ctl_pc x = CRAdd d -> cstep V x = Some x' ->
    counter (base x') = wrap64 (counter (base x) + d) /\ ready (base x') = ready (base x) /\
    thrs (base x') = thrs (base x) /\ hasdata (base x') = hasdata (base x) /\
    (wrap64 (counter (base x) + d) = 0 -> ctl_pc x' = CRFill) /\
    (wrap64 (counter (base x) + d) <> 0 -> ctl_pc x' = fst (cload (hasdata (base x)) (ctl_script x))).
  Proof.
    intros x x' d Hp H. unfold cstep in H. rewrite Hp in H. inversion H; clear H.
    destruct (wrap64 (counter (base x) + d) =? 0) eqn:E.
    - apply Z.eqb_eq in E. cbn. repeat split; auto. intros; congruence.
    - apply Z.eqb_neq in E. unfold cnext. cbn [set_counter hasdata].
      destruct (cload (hasdata (base x)) (ctl_script x)) as [p r]; cbn. repeat split; auto. intros; congruence.
  Qed.

  Lemma resize_never_empties_ready : forall (x x' : xstate V),
    (ctl_pc x = CRFill \/ exists d, ctl_pc x = CRAdd d) -> cstep V x = Some x' ->
    ready (base x) = true -> ready (base x') = true.
  Proof.
    intros x x' [Hp|(d & Hp)] H R.
    - unfold cstep in H. rewrite Hp in H. inversion H. unfold cnext. cbn [fill_ready hasdata].
      destruct (cload _ _); reflexivity.
    - destruct (resize_add_step x x' d Hp H) as (_ & -> & _). exact R.
  Qed.

  Lemma nth_error_updn_same : forall (l : list (thr V)) i t u, nth_error l i = Some t -> nth_error (updn i u l) i = Some u.
  Proof.
    induction l as [|a l IH]; intros [|i] t u H; simpl in *; try discriminate; auto. eapply IH; eauto.
  Qed.

  Lemma step_read : forall s i t b s', nth_error (thrs s) i = Some t -> t_pc t = PRead b -> step V vop s i = Some s' ->
    s' = upd_thr V s (updn i (if ready s then passed V (hasdata s) b t else setpc V t (PBlk b)) (thrs s)).
  Proof.
    intros s i t b s' Hn Hp H. unfold step in H. rewrite Hn in H. cbv beta iota zeta in H. rewrite Hp in H.
    inversion H. reflexivity.
  Qed.

  Lemma step_idle_blk : forall s i t, nth_error (thrs s) i = Some t -> (t_pc t = PIdle \/ exists b, t_pc t = PBlk b) ->
    step V vop s i = None.
  Proof.
    intros s i t Hn [Hp|(b & Hp)]; unfold step; rewrite Hn; cbv beta iota zeta; rewrite Hp; reflexivity.
  Qed.

  (* after qt_sinc_resize(d), 0 < d < 2^64, on a complete sinc: the count is d, ready is still full, and a wait that
     arrives now does not block *)
  Lemma resize_complete_wait_passes : forall (x x' : xstate V) d i t b s'',
    ctl_pc x = CRAdd d -> 0 < d < 18446744073709551616 -> counter (base x) = 0 -> ready (base x) = true ->
    cstep V x = Some x' -> nth_error (thrs (base x')) i = Some t -> t_pc t = PRead b ->
    step V vop (base x') i = Some s'' ->
    counter (base x') = d /\ ready (base x') = true /\ ctl_pc x' <> CRFill /\
    nth_error (thrs s'') i = Some (passed V (hasdata (base x')) b t) /\ counter s'' = d.
  Proof.
    intros x x' d i t b s'' Hp Hd Hc Hr H Hn Ht Hs.
    destruct (resize_add_step x x' d Hp H) as (C & R & _ & _ & _ & NF).
    rewrite Hc, Z.add_0_l, wrap64_small in C by lia. rewrite Hr in R.
    assert (ctl_pc x' <> CRFill) as NFill.
    { rewrite NF by (rewrite Hc, Z.add_0_l, wrap64_small by lia; lia).
      destruct (ctl_script x) as [|[]]; cbn; try discriminate; destruct (hasdata (base x)); discriminate. }
    rewrite (step_read _ _ _ _ _ Hn Ht Hs), R. cbn. repeat split; auto.
    eapply nth_error_updn_same; eauto.
  Qed.

  (* ---------------------------------------------------------------- reset *)
  (* a sinc without value part keeps slots/result at the initial value as long as it never had one (start, hd = false) *)
  Definition valpart_fresh (s : state V) : Prop :=
    hasdata s = true \/ (slots s = repeat (initv s) (nslots s) /\ result s = initv s).

  Lemma reset_in_place_fresh : forall (s : state V) n, (n <> 0 \/ ready s = true) -> valpart_fresh s ->
    reset_in_place V s n = upd_thr V (start V (hasdata s) (initv s) (nslots s) n []) (thrs s).
  Proof.
    intros s n H F. unfold reset_in_place, start, upd_thr; cbn.
    assert ((if hasdata s then repeat (initv s) (nslots s) else slots s) = repeat (initv s) (nslots s)) as ->
      by (destruct F as [->|(-> & _)]; [reflexivity|destruct (hasdata s); reflexivity]).
    assert ((if hasdata s then initv s else result s) = initv s) as ->
      by (destruct F as [->|(_ & ->)]; [reflexivity|destruct (hasdata s); reflexivity]).
    f_equal.
    destruct (n =? 0) eqn:E; [|reflexivity]. apply Z.eqb_eq in E. destruct H as [H|H]; [contradiction|exact H].
  Qed.

  Lemma reset_step_fresh : forall (x x' : xstate V) n, ctl_pc x = CReset n -> cstep V x = Some x' ->
    (n <> 0 \/ ready (base x) = true) -> valpart_fresh (base x) ->
    base x' = upd_thr V (start V (hasdata (base x)) (initv (base x)) (nslots (base x)) n []) (thrs (base x)).
  Proof.
    intros x x' n Hp H Hn HF. unfold cstep in H. rewrite Hp in H. inversion H. unfold cnext.
    destruct (cload _ _). cbn [set_ctl base]. apply reset_in_place_fresh; assumption.
  Qed.

  Lemma reset_equals_fresh : forall (s : state V) n progs script sched rf vf df sf u st,
    (n <> 0 \/ ready s = true) ->
    xexec V vop (mkx V (reset V s n progs) (fst (cload (hasdata s) script)) (snd (cload (hasdata s) script)) rf vf df sf u st) sched =
    xexec V vop (mkx V (start V (hasdata s) (initv s) (nslots s) n progs) (fst (cload (hasdata s) script)) (snd (cload (hasdata s) script)) rf vf df sf u st) sched.
  Proof.
    intros s n progs script sched rf vf df sf u st [H|H].
    - rewrite (reset_fresh_pos V s n progs H). reflexivity.
    - destruct (Z.eq_dec n 0) as [->|Hn].
      + rewrite (reset_fresh_zero_complete V s progs H). reflexivity.
      + rewrite (reset_fresh_pos V s n progs Hn). reflexivity.
  Qed.

  (* ---------------------------------------------------------------- fini / destroy *)
  Definition wonly (p : list (op V)) : Prop := Forall (fun o => match o with Wait _ => True | _ => False end) p.
  Definition notgt (p : list (op V)) : Prop := Forall (fun o => match o with Wait false => True | _ => False end) p.
  Definition nosome (g : list (option V)) : Prop := Forall (fun o => o = None) g.
  Definition okpc (hr : bool) (p : pc V) : Prop :=
    match p with PIdle => True | PBlk _ => True | PRead b => hr = true -> b = false | _ => False end.
  (* a participant that is harmless for a fini in progress (hr = the sinc has values and ready is full) *)
  Definition G (hr : bool) (t : thr V) : Prop :=
    wonly (t_prog t) /\ nosome (t_got t) /\ okpc hr (t_pc t) /\ (hr = true -> notgt (t_prog t)).
  Definition notblk (t : thr V) : Prop := forall b, t_pc t <> PBlk b.
  Definition Dq (t : thr V) : Prop := (t_pc t = PIdle \/ exists b, t_pc t = PBlk b) /\ t_prog t = [].
  Definition Didle (t : thr V) : Prop := t_pc t = PIdle.

  Lemma allT_impl : forall (P Q : thr V -> Prop) l, allT V P l -> (forall t, P t -> Q t) -> allT V Q l.
  Proof. intros P Q l H I j t Hj. apply I. eapply H; eauto. Qed.

  Lemma allT_map : forall (P Q : thr V -> Prop) g l, allT V P l -> (forall t, P t -> Q (g t)) -> allT V Q (map g l).
  Proof.
    intros P Q g l H I j t Hj. rewrite nth_error_map in Hj. destruct (nth_error l j) eqn:E; simpl in Hj; try discriminate.
    inversion Hj; subst. apply I. eapply H; eauto.
  Qed.

  Lemma G_weaken : forall hr t, G hr t -> G false t.
  Proof.
    intros hr t (A & B & C & D). repeat split; auto; try discriminate.
    destruct (t_pc t); simpl in *; auto. intros; discriminate.
  Qed.

  Lemma G_next : forall hr hd t, wonly (t_prog t) -> nosome (t_got t) -> (hr = true -> notgt (t_prog t)) -> G hr (next V hd t).
  Proof.
    intros hr hd t W N T. unfold next. destruct (t_prog t) as [|o r] eqn:E; simpl.
    - repeat split; simpl; auto; try constructor.
    - inversion W as [|? ? Wo Wr]; subst. destruct o as [v k|n|b]; try contradiction. simpl.
      repeat split; simpl; auto.
      + intros H. specialize (T H). inversion T as [|? ? To Tr]; subst. destruct b; [contradiction|reflexivity].
      + intros H. specialize (T H). inversion T; auto.
  Qed.

  Lemma G_passed : forall hr hd b t, G hr t -> (b && hd)%bool = false -> G hr (passed V hd b t).
  Proof.
    intros hr hd b t (W & N & _ & T) E. unfold passed. rewrite E. apply G_next; simpl; auto.
    apply Forall_app; split; auto.
  Qed.

  Lemma G_release : forall hr t, G hr t -> G hr (release V false t).
  Proof. intros hr t H. unfold release. destruct (t_pc t) eqn:E; auto. apply G_passed; auto. apply andb_false_r. Qed.

  Lemma next_notblk : forall hd t, notblk (next V hd t).
  Proof.
    intros hd t b. unfold next. pose proof (load_plain V hd (t_prog t)) as H.
    destruct (load V hd (t_prog t)) as [p r]; simpl in *. intros ->. exact H.
  Qed.

  Lemma passed_notblk : forall hd b t, notblk (passed V hd b t).
  Proof. intros hd b t. unfold passed. destruct (b && hd)%bool; [intros b'; simpl; discriminate|apply next_notblk]. Qed.

  Lemma release_notblk : forall hd t, notblk (release V hd t).
  Proof.
    intros hd t. unfold release. destruct (t_pc t) eqn:E; try (intros b'; rewrite E; discriminate). apply passed_notblk.
  Qed.

  Lemma release_Dq : forall t, Dq t -> Didle (release V false t).
  Proof.
    intros t ([Hp|(b & Hp)] & Hr); unfold Didle, release; rewrite Hp; [exact Hp|].
    unfold passed. rewrite andb_false_r. unfold next; simpl. rewrite Hr. reflexivity.
  Qed.

  Ltac sp := repeat match goal with |- _ /\ _ => split end.

  Definition phase (x : xstate V) : Prop :=
    let b := base x in
    match ctl_pc x with
    | CFreeI d | CFreeV d | CFreeR d => struct_freed x = false /\ (d = true -> allT V Dq (thrs b))
    | CFFill d => struct_freed x = false /\ hasdata b = false /\ (d = true -> allT V Dq (thrs b))
    | CFreeS => struct_freed x = false /\ hasdata b = false /\ ready b = true /\ allT V Didle (thrs b)
    | CIdle => hasdata b = false /\ ready b = true /\ allT V notblk (thrs b) /\ (struct_freed x = true -> allT V Didle (thrs b))
    | _ => False
    end.

  Definition FI (x : xstate V) : Prop :=
    allT V (G (hasdata (base x) && ready (base x))) (thrs (base x)) /\ ctl_script x = [] /\ uaf x = 0%nat /\ phase x.

  Lemma FI_cstep : forall x x', FI x -> cstep V x = Some x' -> FI x'.
  Proof.
    intros x x' (HG & HS & HU & HP) H. unfold cstep in H. unfold phase in HP.
    destruct (ctl_pc x) eqn:Hpc; try contradiction; try discriminate; inversion H; clear H; subst x'.
    - (* FreeI *) destruct HP as (SF & HD). unfold FI, phase, set_ctl; cbn. rewrite SF. sp; auto.
    - (* FreeV *) destruct HP as (SF & HD). unfold FI, phase, set_ctl; cbn. rewrite SF. sp; auto.
    - (* FreeR *) destruct HP as (SF & HD). unfold FI, phase, set_ctl; cbn. rewrite SF. sp; auto.
      eapply allT_impl; [exact HG|]. intros t; apply G_weaken.
    - (* FFill *) destruct HP as (SF & HH & HD).
      assert (allT V (G false) (map (release V false) (thrs (base x)))) as HG'.
      { eapply allT_map; [exact HG|]. intros t Ht. apply G_release. eapply G_weaken; eauto. }
      destruct dst.
      + unfold FI, phase, set_ctl, fill_ready; cbn. rewrite SF, HH. cbn. sp; auto.
        eapply allT_map; [exact (HD eq_refl)|]. apply release_Dq.
      + unfold cnext. cbn [fill_ready hasdata]. rewrite HS. cbn [cload]. unfold FI, phase, set_ctl; cbn. rewrite SF, HH. cbn.
        sp; auto.
        * eapply allT_map; [exact HG|]. intros t _. apply release_notblk.
        * intros; discriminate.
    - (* FreeS *) destruct HP as (SF & HH & HR & HI).
      unfold cnext. rewrite HS. cbn [cload]. unfold FI, phase, set_ctl; cbn. rewrite SF. sp; auto.
      eapply allT_impl; [exact HI|]. intros t Ht b. unfold Didle in Ht. rewrite Ht. discriminate.
  Qed.

  Lemma FI_pstep : forall x i t b', FI x -> nth_error (thrs (base x)) i = Some t -> step V vop (base x) i = Some b' ->
    FI (mkx V b' (ctl_pc x) (ctl_script x) (result_freed x) (vals_freed x) (rdata_freed x) (struct_freed x)
            (if touch V x (t_pc t) then S (uaf x) else uaf x) (stor x)).
  Proof.
    intros x i t b' (HG & HS & HU & HP) Hn Hs.
    pose proof (HG i t Hn) as (W & N & OK & T).
    destruct (t_pc t) eqn:Hp; simpl in OK; try contradiction.
    - rewrite (step_idle_blk _ _ _ Hn (or_introl Hp)) in Hs. discriminate.
    - (* PRead *)
      assert (~ Dq t) as NDq by (intros ([E|(b0 & E)] & _); congruence).
      assert (~ Didle t) as NDi by (unfold Didle; congruence).
      assert (struct_freed x = false) as SF.
      { unfold phase in HP. destruct (ctl_pc x); try contradiction; try (destruct HP as (SF & _); exact SF).
        destruct HP as (_ & _ & _ & HI). destruct (struct_freed x); [|reflexivity]. exfalso. apply NDi. eapply (HI eq_refl); eauto. }
      pose proof (step_read _ _ _ _ _ Hn Hp Hs) as E. subst b'.
      set (t' := if ready (base x) then passed V (hasdata (base x)) tgt t else setpc V t (PBlk tgt)).
      assert (G (hasdata (base x) && ready (base x)) t') as Gt'.
      { unfold t'. destruct (ready (base x)) eqn:R.
        - apply G_passed; [unfold G; sp; auto; rewrite Hp; exact OK|].
          destruct (hasdata (base x)) eqn:HD; [|apply andb_false_r]. rewrite (OK eq_refl). reflexivity.
        - unfold G; sp; simpl; auto. }
      unfold FI, phase. cbn [base ctl_pc ctl_script uaf struct_freed touch upd_thr hasdata ready thrs]. rewrite SF.
      split; [apply allT_updn; assumption|]. split; [assumption|]. split; [assumption|].
      unfold phase in HP. destruct (ctl_pc x); try contradiction.
      + destruct HP as (A & B & C & D). sp; auto.
        * apply allT_updn; [exact C|]. unfold t'. rewrite B. apply passed_notblk.
        * intros; discriminate.
      + destruct HP as (A & D). split; auto. intros Hd. exfalso. apply NDq. eapply (D Hd); eauto.
      + destruct HP as (A & D). split; auto. intros Hd. exfalso. apply NDq. eapply (D Hd); eauto.
      + destruct HP as (A & D). split; auto. intros Hd. exfalso. apply NDq. eapply (D Hd); eauto.
      + destruct HP as (A & B & D). split; auto. split; auto. intros Hd. exfalso. apply NDq. eapply (D Hd); eauto.
      + destruct HP as (A & B & C & D). exfalso. apply NDi. eapply D; eauto.
    - rewrite (step_idle_blk _ _ _ Hn (or_intror (ex_intro _ tgt Hp))) in Hs. discriminate.
  Qed.

  Lemma FI_xstep : forall x i x', FI x -> xstep V vop x i = Some x' -> FI x'.
  Proof.
    intros x i x' HF H. unfold xstep in H. destruct (i =? nparts V x)%nat; [eapply FI_cstep; eauto|].
    destruct (nth_error (thrs (base x)) i) as [t|] eqn:Hn; try discriminate.
    destruct (step V vop (base x) i) as [b'|] eqn:Hs; try discriminate. inversion H. eapply FI_pstep; eauto.
  Qed.

  Lemma FI_xexec : forall sched x, FI x -> FI (xexec V vop x sched).
  Proof.
    induction sched as [|i r IH]; intros x HF; [exact HF|]. cbn [xexec fold_left]. apply IH. unfold xstep_or_stay.
    destruct (xstep V vop x i) eqn:E; [eapply FI_xstep; eauto|exact HF].
  Qed.

  (* the state in which qt_sinc_fini (dst = false) / qt_sinc_destroy (dst = true) begins *)
  Definition fini_guard (dst : bool) (x : xstate V) : Prop :=
    (ctl_pc x = CFreeI dst /\ hasdata (base x) = true \/ ctl_pc x = CFFill dst /\ hasdata (base x) = false) /\
    ctl_script x = [] /\ uaf x = 0%nat /\ struct_freed x = false /\
    allT V (G (hasdata (base x) && ready (base x))) (thrs (base x)) /\
    (dst = true -> allT V Dq (thrs (base x))).

  Lemma fini_guard_FI : forall dst x, fini_guard dst x -> FI x.
  Proof.
    intros dst x ([(Hp & HD)|(Hp & HD)] & HS & HU & SF & HG & HQ); unfold FI, phase; rewrite Hp; sp; auto.
  Qed.

  Lemma fini_releases : forall dst x sched, fini_guard dst x ->
    let x' := xexec V vop x sched in
    uaf x' = 0%nat /\
    (forall i t, nth_error (thrs (base x')) i = Some t -> t_pc t <> PCopy /\ Forall (fun g => g = None) (t_got t)) /\
    (ctl_pc x' = CIdle -> hasdata (base x') = false /\ ready (base x') = true /\
                          forall i t b, nth_error (thrs (base x')) i = Some t -> t_pc t <> PBlk b) /\
    (struct_freed x' = true -> forall i t, nth_error (thrs (base x')) i = Some t -> t_pc t = PIdle).
  Proof.
    intros dst x sched Hg x'. pose proof (FI_xexec sched x (fini_guard_FI dst x Hg)) as (HG & HS & HU & HP). fold x' in HG, HS, HU, HP.
    split; [exact HU|]. split.
    - intros i t Hn. destruct (HG i t Hn) as (_ & N & OK & _). split; [|exact N]. intros E. rewrite E in OK. exact OK.
    - unfold phase in HP. split.
      + intros E. rewrite E in HP. destruct HP as (A & B & C & _). sp; auto. intros i t b Hn. eapply C; eauto.
      + intros E. destruct (ctl_pc x'); try contradiction; try (destruct HP as (SF & _); congruence).
        destruct HP as (_ & _ & _ & D). intros i t Hn. eapply (D E); eauto.
  Qed.
End P.

(* ------------------------------------------------------------------ witnesses (V = nat, operator = addition) *)
Lemma allT_Forall : forall V (P : thr V -> Prop) l, Forall P l -> allT V P l.
Proof.
  intros V P l H. induction H as [|a l Ha Hl IH]; intros [|j] t Hj; simpl in Hj; try discriminate.
  - inversion Hj; subst; exact Ha.
  - eapply IH; eauto.
Qed.

(* resize(2) on a complete void sinc, then a wait: it returns although two submissions are outstanding *)
Lemma resize_leaves_ready_full_refuted_lemma :
  let x := xexec nat Nat.add (xinit nat Heap false 0%nat 1 0 [[Wait false]] [XResize 2]) [1; 0]%nat in
  counter (base x) = 2 /\ ready (base x) = true /\ decs (base x) = 0%nat /\ c0 (base x) + exps (base x) = 2 /\
  (exists t, nth_error (thrs (base x)) 0 = Some t /\ t_got t = [None] /\ t_pc t = PIdle) /\ ctl_pc x = CIdle.
Proof. vm_compute. repeat split. eexists; repeat split. Qed.

(* reset(0) while the sinc is incomplete and a waiter is blocked: nothing can run any more, a fresh sinc with count 0 is full *)
Lemma reset_zero_incomplete_refuted_lemma :
  let x := xexec nat Nat.add (xinit nat Heap false 0%nat 1 1 [[Wait false]] [XReset 0]) [0; 1]%nat in
  counter (base x) = 0 /\ ready (base x) = false /\ xenabled_list nat Nat.add x = [] /\
  (exists t, nth_error (thrs (base x)) 0 = Some t /\ t_pc t = PBlk false) /\
  ready (start nat false 0%nat 1 0 [[Wait false]]) = true.
Proof. vm_compute. repeat split. eexists; repeat split. Qed.

(* a waiter already past its readFF when fini frees the result: the copy reads freed memory (the race named by the XXX comment
   in qt_sinc_wait) *)
Lemma fini_copy_in_flight_refuted_lemma :
  let x := xexec nat Nat.add (xinit nat Heap true 7%nat 1 0 [[Wait true]] [XFini]) [0; 1; 0]%nat in
  uaf x = 1%nat /\ result_freed x = true /\ exists t, nth_error (thrs (base x)) 0 = Some t /\ t_got t = [Some 7%nat].
Proof. vm_compute. repeat split. eexists; repeat split. Qed.

(* non-vacuity: a reachable state with two blocked waiters satisfies the guard of fini_releases, and the fini releases them *)
Definition fg_x := xexec nat Nat.add (xinit nat Caller true 0%nat 2 2 [[Wait true]; [Wait false]] [XFini]) [0; 1]%nat.
Example fini_guard_example :
  fini_guard nat false fg_x /\ (exists t, nth_error (thrs (base fg_x)) 0 = Some t /\ t_pc t = PBlk true) /\
  let x' := xexec nat Nat.add fg_x [2; 2; 2; 2]%nat in
  ctl_pc x' = CIdle /\ map (fun t => (t_pc t, t_got t)) (thrs (base x')) = [(PIdle, [None]); (PIdle, [None])].
Proof.
  split; [|split; [eexists; split; reflexivity|vm_compute; split; reflexivity]].
  unfold fini_guard. vm_compute base. vm_compute ctl_pc. vm_compute ctl_script. vm_compute uaf. vm_compute struct_freed.
  repeat match goal with |- _ /\ _ => split end; auto; try discriminate.
  apply allT_Forall. repeat constructor; simpl; discriminate.
Qed.

Example destroy_guard_example :
  fini_guard nat true (xexec nat Nat.add (xinit nat Heap false 0%nat 1 1 [[Wait false]] [XDestroy]) [0]%nat).
Proof.
  unfold fini_guard. vm_compute base. vm_compute ctl_pc. vm_compute ctl_script. vm_compute uaf. vm_compute struct_freed.
  repeat match goal with |- _ /\ _ => split end; auto; try discriminate.
  - apply allT_Forall. repeat constructor; simpl; discriminate.
  - intros _. apply allT_Forall. constructor; [|constructor]. split; [right; eexists; reflexivity|reflexivity].
Qed.
