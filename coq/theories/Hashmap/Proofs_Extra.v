(* qt_hash model: consequences of the invariant, the executable guard, the stale shrink threshold, the two classes
   of inputs on which hashmap.c is NOT a finite map (witnesses), and non-vacuity examples. *)
From Coq Require Import NArith PeanoNat List Bool Lia.
From QV Require Import Hashmap.Model Hashmap.Proofs_Scan Hashmap.Proofs_Inv Hashmap.Proofs_Arith Hashmap.Proofs_Main.
Import ListNotations.
Local Open Scope N_scope.

Lemma get_spec : forall lb h K, 2 <= K ->
  get (2 ^ lb) h K = match lookup lb h K with Some v => v | None => 0 end.
Proof.
  intros lb h K HK. unfold get, lookup.
  assert (E0 : (K =? 0) = false) by (apply N.eqb_neq; lia).
  assert (E1 : (K =? 1) = false) by (apply N.eqb_neq; lia).
  rewrite E0, E1. destruct (find_slot (2 ^ lb) h K); reflexivity.
Qed.

(* what the invariant says, spelled out *)
Lemma wf_facts : forall lb lm h, lb <= lm -> 3 <= lm -> wf lb lm h ->
  (exists a, lm <= a /\ nent h = 2 ^ a) /\
  mask h = N.ldiff (nent h - 1) (2 ^ lb - 1) /\
  length (ents h) = N.to_nat (nent h) /\
  pop h = nlive (ents h) /\ dels h = ndel (ents h) /\
  pop h + dels h < nent h /\
  (forall i, i < nent h -> 1 < key_at (ents h) i -> find_slot (2 ^ lb) h (key_at (ents h) i) = Some i) /\
  (forall i j, i < nent h -> j < nent h -> 1 < key_at (ents h) i -> key_at (ents h) i = key_at (ents h) j -> i = j).
Proof.
  intros lb lm h Hlb Hlm Hwf. destruct Hwf as [Hs Hh Hp Hd Hl Hr].
  destruct Hs as ((a & Ha & Hn) & Hm & Hlen & Hg & Ht).
  split; [exists a; split; assumption|]. split; [exact Hm|]. split; [exact Hlen|].
  split; [exact Hp|]. split; [exact Hd|]. split.
  - assert (H : tidy_of (2 ^ a) + 1 < 2 ^ a)
      by (apply thr_tidy_lt; change 8 with (2 ^ 3); apply N.pow_le_mono_r; lia).
    rewrite Ht, Hn in Hl. rewrite Hn. lia.
  - split; [exact Hr|].
    intros i j Hi Hj Hlive He.
    pose proof (Hr i Hi Hlive) as H1. rewrite He in Hlive, H1. pose proof (Hr j Hj Hlive) as H2. congruence.
Qed.

(* executable guard *)
Fixpoint guardedb (m : smap) (os : list op) : bool :=
  match os with
  | [] => true
  | o :: os' =>
    (match o with
     | OPut k _ => (2 <=? k) && (match m k with None => true | Some _ => false end)
     | OGet k => 2 <=? k
     | ORemove k => 2 <=? k
     | OCount => true
     end) && guardedb (fst (snd (spec_step m 0 o))) os'
  end.

Lemma guardedb_sound : forall os m, guardedb m os = true -> guarded m os.
Proof.
  induction os as [|o os IH]; intros m H; cbn [guardedb guarded] in *; [exact I|].
  apply andb_true_iff in H. destruct H as [H1 H2]. split; [|apply IH; exact H2].
  destruct o as [k v|k|k|]; cbn [op_guard].
  - apply andb_true_iff in H1. destruct H1 as [Hk Hm]. apply N.leb_le in Hk. split; [exact Hk|].
    destruct (m k); [discriminate|reflexivity].
  - apply N.leb_le; exact H1.
  - apply N.leb_le; exact H1.
  - exact I.
Qed.

(* ------------------------------------------------------------------ shrink_size is never refreshed (brehash does not
   copy it): it keeps the value computed by qt_hash_create, for EVERY operation sequence and every key *)
Lemma put_f_shrink : forall bs me fuel h k v, shrink (snd (put_f bs me fuel h k v)) = shrink h.
Proof.
  intros bs me. induction fuel as [|fu IH]; intros h k v; cbn [put_f];
    (destruct (k =? 0); [destruct (has0 h); reflexivity|]);
    (destruct (k =? 1); [destruct (has1 h); reflexivity|]);
    destruct (put_probe bs h k); try reflexivity;
    (destruct (key_at (ents h) f =? 0); [|reflexivity]);
    (destruct (grow h <=? pop h); [try reflexivity; rewrite IH; reflexivity|]);
    (destruct (tidy h <? pop h + dels h); [try reflexivity; rewrite IH; reflexivity|reflexivity]).
Qed.

Lemma step_shrink : forall bs me h o, shrink (snd (step bs me h o)) = shrink h.
Proof.
  intros bs me h [k v|k|k|]; cbn [step snd]; try reflexivity.
  - apply put_f_shrink.
  - unfold remove.
    destruct (k =? 0); [destruct (has0 h); reflexivity|].
    destruct (k =? 1); [destruct (has1 h); reflexivity|].
    destruct (find_slot bs h k); [|reflexivity].
    match goal with |- context [if ?c then _ else _] => destruct c end; [reflexivity|].
    match goal with |- context [if ?c then _ else _] => destruct c end; reflexivity.
Qed.

Lemma run_shrink : forall bs me os h, shrink (snd (run bs me h os)) = shrink h.
Proof.
  intros bs me. induction os as [|o os IH]; intros h; cbn [run]; [reflexivity|].
  pose proof (step_shrink bs me h o) as Hs. destruct (step bs me h o) as [r h']. cbn [snd] in Hs.
  pose proof (IH h') as Hr. destruct (run bs me h' os) as [rs h'']. cbn [snd] in *. congruence.
Qed.

(* with 64-byte lines and 4 KiB pages (bs = 4, me = 512) the value is 0: the shrink branch of qt_hash_remove_locked
   (population < shrink_size) can never be taken, whatever the callers do *)
Lemma shrink_dead_4k : forall os, shrink (snd (run 4 512 (create 4 512) os)) = 0.
Proof. intros os. rewrite run_shrink. vm_compute. reflexivity. Qed.

(* ------------------------------------------------------------------ witnesses (bs = 4, me = 8: table of 128) *)
Definition w_reserved : list op := OPut 0 7 :: map (fun k => OPut k (k + 100)) (map N.of_nat (seq 2 84)).

(* 85 distinct keys are put (one of them the reserved key 0), nothing is removed; the growth 128 -> 256 loses key 73 *)
Lemma reserved_key_witness :
  forallb (fun o => match o with OPut _ _ => true | _ => false end) w_reserved = true /\
  nth 72 w_reserved OCount = OPut 73 173 /\
  fst (run 4 8 (create 4 8) w_reserved) = repeat 1 85 /\
  get 4 (snd (run 4 8 (create 4 8) w_reserved)) 73 = 0 /\
  count (snd (run 4 8 (create 4 8) w_reserved)) = 84.
Proof. vm_compute. repeat split; reflexivity. Qed.

Definition w_existing : list op :=
  [OPut 2 102; OPut 47 147; OPut 174 274; OPut 194 294; OPut 206 306; ORemove 2; OPut 206 999; OGet 206;
   ORemove 206; OGet 206; OCount].

(* keys 2, 47, 174, 194 fill one bucket, 206 overflows; after remove 2 the put of the PRESENT key 206 stores a second
   copy in the freed slot; remove 206 then deletes one copy and get 206 answers the old value *)
Lemma existing_key_witness :
  fst (run 4 8 (create 4 8) w_existing) = [1; 1; 1; 1; 1; 1; 1; 999; 1; 306; 4].
Proof. vm_compute. reflexivity. Qed.

(* ------------------------------------------------------------------ non-vacuity: a guarded sequence that crosses one
   growth (128 -> 256 at the 83rd key) and, the creation-time shrink_size being 3 here, shrinks 256 -> 128 -> 64 at the last two removes *)
Definition ex_keys : list N := map (fun i => 8 * N.of_nat i + 4096) (seq 0 90).
Definition ex_ops : list op :=
  map (fun k => OPut k (k + 1)) ex_keys ++ [OCount; OGet 4096] ++ map ORemove (firstn 89 ex_keys) ++ [OCount; OGet 4808; OGet 4096].

Lemma ex_ops_facts :
  guardedb (fun _ => None) ex_ops = true /\
  nent (create 4 8) = 128 /\
  nent (snd (run 4 8 (create 4 8) (firstn 90 ex_ops))) = 256 /\
  nent (snd (run 4 8 (create 4 8) ex_ops)) = 64 /\
  skipn 181 (fst (run 4 8 (create 4 8) ex_ops)) = [1; 4809; 0].
Proof. vm_compute. repeat split; reflexivity. Qed.
