(* Arithmetic behind src/hashmap.c: the bucket mask, the odd probing step (the walk visits every bucket before it
   returns to its start), the float thresholds, the table sizes produced by qt_hash_internal_create. *)
From Coq Require Import ZArith NArith PeanoNat List Bool Lia.
From QV Require Import Hashmap.Model Hashmap.Proofs_Scan.
Import ListNotations.
Local Open Scope N_scope.

(* ------------------------------------------------------------------ mask *)
Lemma pow2_nz : forall k, 2 ^ k <> 0.
Proof. intros k. apply N.pow_nonzero. lia. Qed.

Lemma land_mask : forall a lb x,
  N.land x (N.ldiff (2 ^ a - 1) (2 ^ lb - 1)) = (x mod 2 ^ a) / 2 ^ lb * 2 ^ lb.
Proof.
  intros a lb x.
  rewrite !N.sub_1_r, <- !N.ones_equiv.
  assert (H : N.land x (N.ldiff (N.ones a) (N.ones lb)) = N.ldiff (N.land x (N.ones a)) (N.ones lb)).
  { apply N.bits_inj. intros i. rewrite N.land_spec, !N.ldiff_spec, N.land_spec.
    destruct (N.testbit x i), (N.testbit (N.ones a) i), (N.testbit (N.ones lb) i); reflexivity. }
  rewrite H, N.land_ones, N.ldiff_ones_r, N.shiftl_mul_pow2, N.shiftr_div_pow2. reflexivity.
Qed.

Section AR.
Variables lb a : N.
Hypothesis Hlba : lb <= a.
Local Notation B := (2 ^ lb).
Local Notation m := (2 ^ (a - lb)).
Local Notation msk := (N.ldiff (2 ^ a - 1) (B - 1)).

Lemma n_split : 2 ^ a = B * m.
Proof. rewrite <- N.pow_add_r. f_equal. lia. Qed.

Lemma land_mask_mul : forall y, N.land (B * y) msk = B * (y mod m).
Proof.
  intros y. rewrite land_mask, n_split.
  rewrite N.mul_mod_distr_l by apply pow2_nz.
  replace (B * (y mod m) / B) with (y mod m); [apply N.mul_comm|].
  rewrite (N.mul_comm B (y mod m)). symmetry. apply N.div_mul, pow2_nz.
Qed.

Lemma land_mask_any : forall x, exists c, c < m /\ N.land x msk = B * c.
Proof.
  intros x. exists ((x mod 2 ^ a) / B). split.
  - apply N.div_lt_upper_bound; [apply pow2_nz|]. rewrite <- n_split. apply N.mod_upper_bound, pow2_nz.
  - rewrite land_mask. apply N.mul_comm.
Qed.

Lemma step_form : forall X, exists s, N.odd s = true /\ N.lor (N.land X msk) B = B * s.
Proof.
  intros X. destruct (land_mask_any X) as (c & _ & Hc). exists (N.lor c 1). split.
  - rewrite <- N.bit0_odd, N.lor_spec. cbn. apply orb_true_r.
  - rewrite Hc. transitivity (N.shiftl (N.lor c 1) lb).
    + rewrite N.shiftl_lor, N.shiftl_1_l, N.shiftl_mul_pow2, (N.mul_comm c B). reflexivity.
    + rewrite N.shiftl_mul_pow2. apply N.mul_comm.
Qed.

(* every bucket of a walk is B * c with c < m *)
Lemma bucket_list_form : forall fuel step quit b0 b, In b (bucket_list fuel msk step quit b0) -> exists c, c < m /\ b = B * c.
Proof.
  induction fuel as [|f IH]; intros step quit b0 b H; cbn [bucket_list] in H; [destruct H|].
  destruct H as [H|H].
  - destruct (land_mask_any (b0 + step)) as (c & Hc & Hl). exists c. split; [exact Hc|]. rewrite <- H. exact Hl.
  - destruct (N.land (b0 + step) msk =? quit); [destruct H|]. eapply IH; exact H.
Qed.

(* the j-th bucket of the walk that starts after B*cs, as long as it has not come back to B*cq *)
Lemma walk_reaches : forall s cq fuel cs j, (1 <= j)%nat -> (j <= fuel)%nat ->
  (forall i, (1 <= i)%nat -> (i < j)%nat -> (cs + N.of_nat i * s) mod m <> cq) -> cq < m ->
  In (B * ((cs + N.of_nat j * s) mod m)) (bucket_list fuel msk (B * s) (B * cq) (B * cs)).
Proof.
  intros s cq. induction fuel as [|f IH]; intros cs j Hj1 Hjf Hnq Hcq; [lia|].
  cbn [bucket_list].
  assert (Hb : N.land (B * cs + B * s) msk = B * ((cs + s) mod m)).
  { rewrite <- N.mul_add_distr_l. apply land_mask_mul. }
  rewrite Hb.
  destruct (Nat.eq_dec j 1) as [->|Hne].
  - left. f_equal. f_equal. lia.
  - right.
    assert (Hq : (B * ((cs + s) mod m) =? B * cq) = false).
    { apply N.eqb_neq. intros He. apply N.mul_cancel_l in He; [|apply pow2_nz].
      apply (Hnq 1%nat); [lia|lia|]. rewrite <- He. f_equal. lia. }
    rewrite Hq.
    assert (Hm : forall i, ((cs + s) mod m + N.of_nat i * s) mod m = (cs + N.of_nat (S i) * s) mod m).
    { intros i. rewrite N.add_mod_idemp_l by apply pow2_nz. f_equal. lia. }
    replace ((cs + N.of_nat j * s) mod m) with (((cs + s) mod m + N.of_nat (j - 1) * s) mod m)
      by (rewrite Hm; f_equal; f_equal; f_equal; lia).
    apply IH; try lia; try assumption.
    intros i Hi1 Hij. rewrite Hm. apply Hnq; lia.
Qed.

(* an odd multiplier is injective modulo a power of two *)
Lemma odd_cancel : forall k d s q, N.odd s = true -> d * s = 2 ^ k * q -> exists q', d = 2 ^ k * q'.
Proof.
  induction k as [|k IH] using N.peano_ind; intros d s q Hs H.
  - exists d. rewrite N.pow_0_r. lia.
  - rewrite N.pow_succ_r' in H.
    assert (He : N.even (d * s) = true) by (rewrite H, <- N.mul_assoc, N.even_mul; reflexivity).
    rewrite N.even_mul in He.
    assert (Hes : N.even s = false) by (rewrite <- N.negb_odd, Hs; reflexivity).
    rewrite Hes, orb_false_r in He. apply N.even_spec in He. destruct He as [d' Hd'].
    assert (H' : d' * s = 2 ^ k * q) by (subst d; nia).
    destruct (IH d' s q Hs H') as [q' Hq']. exists q'. rewrite N.pow_succ_r'. subst d. nia.
Qed.

Lemma residues_inj : forall s c0 j1 j2, N.odd s = true -> j1 <= j2 -> j2 < m ->
  (c0 + j1 * s) mod m = (c0 + j2 * s) mod m -> j1 = j2.
Proof.
  intros s c0 j1 j2 Hs Hle Hlt He.
  pose proof (N.div_mod' (c0 + j1 * s) m) as H1. pose proof (N.div_mod' (c0 + j2 * s) m) as H2.
  rewrite He in H1.
  set (q1 := (c0 + j1 * s) / m) in *. set (q2 := (c0 + j2 * s) / m) in *. set (r := (c0 + j2 * s) mod m) in *.
  assert (Hq : q1 <= q2).
  { unfold q1, q2. apply N.div_le_mono; [apply pow2_nz|]. nia. }
  assert (Hd : (j2 - j1) * s = m * (q2 - q1)) by nia.
  destruct (odd_cancel (a - lb) (j2 - j1) s (q2 - q1) Hs Hd) as [q' Hq'].
  assert (q' = 0) by nia. subst q'. lia.
Qed.

Lemma NoDup_map_inj_on : forall (A C : Type) (f : A -> C) l,
  (forall x y, In x l -> In y l -> f x = f y -> x = y) -> NoDup l -> NoDup (map f l).
Proof.
  induction l as [|x l IH]; intros Hinj Hnd; cbn [map]; [constructor|].
  inversion Hnd; subst. constructor.
  - intros Hin. apply in_map_iff in Hin. destruct Hin as (y & Hy & Hyin).
    assert (y = x) by (apply Hinj; [right; exact Hyin|left; reflexivity|exact Hy]). subst y. contradiction.
  - apply IH; [|assumption]. intros y z Hy Hz. apply Hinj; right; assumption.
Qed.

Lemma residues_surj : forall s c0 c, N.odd s = true -> c < m ->
  exists j, (j < N.to_nat m)%nat /\ (c0 + N.of_nat j * s) mod m = c.
Proof.
  intros s c0 c Hs Hc.
  set (M := N.to_nat m).
  set (L := map (fun j => (c0 + N.of_nat j * s) mod m) (seq 0 M)).
  set (L' := map N.of_nat (seq 0 M)).
  assert (Hnd : NoDup L).
  { apply NoDup_map_inj_on; [|apply seq_NoDup].
    intros x y Hx Hy He. apply in_seq in Hx, Hy.
    destruct (Nat.le_ge_cases x y) as [Hxy|Hxy].
    - apply Nat2N.inj. apply (residues_inj s c0); try assumption; unfold M in *; lia.
    - symmetry. apply Nat2N.inj. apply (residues_inj s c0); try (symmetry; assumption); try assumption; unfold M in *; lia. }
  assert (Hlen : (length L' <= length L)%nat) by (unfold L, L'; rewrite !map_length; lia).
  assert (Hincl : incl L L').
  { intros r Hr. apply in_map_iff in Hr. destruct Hr as (j & Hj & _).
    assert (Hrm : r < m) by (rewrite <- Hj; apply N.mod_upper_bound, pow2_nz).
    apply in_map_iff. exists (N.to_nat r). split; [apply N2Nat.id|]. apply in_seq. unfold M. lia. }
  pose proof (NoDup_length_incl Hnd Hlen Hincl) as Hall.
  assert (Hin : In c L').
  { apply in_map_iff. exists (N.to_nat c). split; [apply N2Nat.id|]. apply in_seq. unfold M. lia. }
  apply Hall in Hin. apply in_map_iff in Hin. destruct Hin as (j & Hj & Hjin). apply in_seq in Hjin.
  exists j. split; [lia|exact Hj].
Qed.

Lemma bucket_list_cover : forall s c0 fuel c, N.odd s = true -> c0 < m -> c < m -> (N.to_nat m <= fuel)%nat ->
  In (B * c) ((B * c0) :: bucket_list fuel msk (B * s) (B * c0) (B * c0)).
Proof.
  intros s c0 fuel c Hs Hc0 Hc Hfuel.
  destruct (residues_surj s c0 c Hs Hc) as (j & Hj & Hjc).
  destruct j as [|j].
  - left. cbn in Hjc. rewrite N.add_0_r, N.mod_small in Hjc by exact Hc0. subst c. reflexivity.
  - right. rewrite <- Hjc. apply walk_reaches; try lia; try assumption.
    intros i Hi1 Hij He.
    assert (H0 : (c0 + 0 * s) mod m = c0) by (cbn; rewrite N.add_0_r; apply N.mod_small; exact Hc0).
    assert (N.of_nat i = 0).
    { symmetry. apply (residues_inj s c0 0 (N.of_nat i)); try assumption; lia. }
    lia.
Qed.

(* slots of one bucket *)
Lemma bslots_in : forall b cnt i s, In s (bslots b cnt i) <-> exists j, i <= j /\ j < i + N.of_nat cnt /\ s = b + j.
Proof.
  induction cnt as [|c IH]; intros i s; cbn [bslots]; split.
  - intros [].
  - intros (j & H1 & H2 & _). lia.
  - intros [H|H].
    + exists i. subst s. split; [lia|split; [lia|reflexivity]].
    + apply IH in H. destruct H as (j & H1 & H2 & H3). exists j. split; [lia|split; [lia|exact H3]].
  - intros (j & H1 & H2 & H3). destruct (N.eq_dec j i) as [->|Hne].
    + left. symmetry. exact H3.
    + right. apply IH. exists j. split; [lia|split; [lia|exact H3]].
Qed.

(* the two facts the invariant proofs need, for a table of 2^a entries *)
Lemma slots_bound : forall h K, nent h = 2 ^ a -> mask h = msk ->
  forall s, In s (slots B h K) -> s < nent h.
Proof.
  intros h K Hn Hm s Hs. unfold slots, slots_of in Hs. apply in_flat_map in Hs. destruct Hs as (b & Hb & Hsb).
  assert (Hform : exists c, c < m /\ b = B * c).
  { unfold blist in Hb. rewrite Hm in Hb. destruct Hb as [Hb|Hb].
    - destruct (land_mask_any (qt_hash64 K)) as (c & Hc & Hl). exists c. split; [exact Hc|]. rewrite <- Hb. exact Hl.
    - eapply bucket_list_form; exact Hb. }
  destruct Hform as (c & Hc & Hbc). apply bslots_in in Hsb. destruct Hsb as (j & _ & Hj & Hsj).
  unfold nbs in Hj. rewrite N2Nat.id in Hj. rewrite Hn, n_split. subst s b. nia.
Qed.

Lemma slots_cover : forall h K, nent h = 2 ^ a -> mask h = msk ->
  forall z, z < nent h -> In z (slots B h K).
Proof.
  intros h K Hn Hm z Hz. unfold slots, slots_of. apply in_flat_map.
  exists (B * (z / B)). split.
  - unfold blist. rewrite Hm.
    destruct (land_mask_any (qt_hash64 K)) as (c0 & Hc0 & Hl0). rewrite Hl0.
    destruct (step_form (rot16 (qt_hash64 K))) as (s & Hs & Hstep).
    unfold step_of. rewrite Hstep.
    apply bucket_list_cover; try assumption.
    + apply N.div_lt_upper_bound; [apply pow2_nz|]. rewrite <- n_split, <- Hn. exact Hz.
    + unfold walk_fuel. rewrite Hn, n_split.
      assert (1 * m <= B * m) by (apply N.mul_le_mono_r; pose proof (pow2_nz lb); lia). lia.
  - apply bslots_in. exists (z mod B). split; [apply N.le_0_l|]. split.
    + unfold nbs. rewrite N2Nat.id. apply N.mod_upper_bound, pow2_nz.
    + apply N.div_mod, pow2_nz.
Qed.

End AR.

(* ------------------------------------------------------------------ thresholds *)
Ltac thr := unfold grow_of, tidy_of, f65, f80; Zify.zify; Z.div_mod_to_equations; lia.

Lemma thr_tidy_lt : forall n, 8 <= n -> tidy_of n + 1 < n.
Proof. intros n H. thr. Qed.
Lemma thr_grow_le_tidy : forall n, 8 <= n -> grow_of n <= tidy_of n.
Proof. intros n H. thr. Qed.
Lemma thr_tidy_grow2 : forall n n', 8 <= n -> 2 * n <= n' -> tidy_of n + 1 < grow_of n'.
Proof. intros n n' H H'. thr. Qed.
Lemma thr_mono : forall n n', n <= n' -> grow_of n <= grow_of n' /\ tidy_of n <= tidy_of n'.
Proof. intros n n' H. split; thr. Qed.

(* ------------------------------------------------------------------ sizes *)
Lemma pow2_ge_spec : forall fuel i k, k <= 2 ^ (i + N.of_nat fuel) ->
  exists a, i <= a /\ pow2_ge fuel (2 ^ i) k = 2 ^ a /\ k <= 2 ^ a.
Proof.
  induction fuel as [|f IH]; intros i k Hk; cbn [pow2_ge].
  - exists i. rewrite N.add_0_r in Hk. split; [lia|split; [reflexivity|exact Hk]].
  - destruct (2 ^ i <? k) eqn:E.
    + replace (2 * 2 ^ i) with (2 ^ (i + 1)) by (rewrite N.add_1_r, N.pow_succ_r'; reflexivity).
      destruct (IH (i + 1) k) as (a & Ha & Hp & Hka).
      * replace (i + 1 + N.of_nat f) with (i + N.of_nat (S f)) by lia. exact Hk.
      * exists a. split; [lia|split; assumption].
    + apply N.ltb_ge in E. exists i. split; [lia|split; [reflexivity|exact E]].
Qed.

Lemma create_size : forall lm len, 0 < len ->
  exists a, lm <= a /\ len <= 2 ^ a /\
    encompassing_power_of_two (if len mod 2 ^ lm =? 0 then len else len + (2 ^ lm - len mod 2 ^ lm)) = 2 ^ a.
Proof.
  intros lm len Hlen.
  set (e1 := if len mod 2 ^ lm =? 0 then len else len + (2 ^ lm - len mod 2 ^ lm)).
  assert (He1 : 2 ^ lm <= e1 /\ len <= e1).
  { unfold e1. pose proof (pow2_nz lm) as Hnz.
    pose proof (N.mod_upper_bound len (2 ^ lm) Hnz) as Hub. pose proof (N.mod_le len (2 ^ lm) Hnz) as Hle.
    destruct (len mod 2 ^ lm =? 0) eqn:E.
    - apply N.eqb_eq in E. split; [|lia].
      destruct (N.lt_ge_cases len (2 ^ lm)) as [Hlt|Hge]; [|exact Hge].
      rewrite N.mod_small in E by exact Hlt. lia.
    - lia. }
  unfold encompassing_power_of_two.
  destruct (pow2_ge_spec (S (N.to_nat (N.size e1))) 0 e1) as (a & _ & Hp & Hk).
  - pose proof (N.size_gt e1) as Hs.
    replace (0 + N.of_nat (S (N.to_nat (N.size e1)))) with (N.succ (N.size e1)) by lia.
    rewrite N.pow_succ_r'. lia.
  - exists a. change (2 ^ 0) with 1 in Hp. split; [|split; [lia|exact Hp]].
    apply (N.pow_le_mono_r_iff 2); lia.
Qed.
