(* Closed theorems about the qt_hash model: Proofs_Inv.v instantiated with the arithmetic of Proofs_Arith.v.
   bs = 2^lb (bucket size), me = 2^lm (minimum table size), lb <= lm, 3 <= lm. *)
From Coq Require Import NArith PeanoNat List Bool Lia.
From QV Require Import Hashmap.Model Hashmap.Proofs_Scan Hashmap.Proofs_Inv Hashmap.Proofs_Arith.
Import ListNotations.
Local Open Scope N_scope.

Section MAIN.
Variables lb lm : N.
Hypothesis Hlb : lb <= lm.
Hypothesis Hlm : 3 <= lm.
Local Notation bs := (2 ^ lb).
Local Notation me := (2 ^ lm).

Lemma me8 : 8 <= me.
Proof. change 8 with (2 ^ 3). apply N.pow_le_mono_r; lia. Qed.

Lemma pow8 : forall a, lm <= a -> 8 <= 2 ^ a.
Proof. intros a Ha. change 8 with (2 ^ 3). apply N.pow_le_mono_r; lia. Qed.

Lemma ar_bound : forall h K, shape lb lm h -> forall s, In s (slots bs h K) -> s < nent h.
Proof.
  intros h K ((a & Ha & Hn) & Hm & _) s Hs. rewrite Hn in Hm.
  apply (slots_bound lb a ltac:(lia) h K Hn Hm s Hs).
Qed.

Lemma ar_cover : forall h K, shape lb lm h -> forall z, z < nent h -> In z (slots bs h K).
Proof.
  intros h K ((a & Ha & Hn) & Hm & _) z Hz. rewrite Hn in Hm.
  apply (slots_cover lb a ltac:(lia) h K Hn Hm z Hz).
Qed.

Lemma th_tidy_lt : forall a, lm <= a -> tidy_of (2 ^ a) + 1 < 2 ^ a.
Proof. intros a Ha. apply thr_tidy_lt, pow8, Ha. Qed.
Lemma th_grow_le_tidy : forall a, lm <= a -> grow_of (2 ^ a) <= tidy_of (2 ^ a).
Proof. intros a Ha. apply thr_grow_le_tidy, pow8, Ha. Qed.
Lemma th_tidy_grow2 : forall a a', lm <= a -> a + 1 <= a' -> tidy_of (2 ^ a) + 1 < grow_of (2 ^ a').
Proof.
  intros a a' Ha Haa. apply thr_tidy_grow2; [apply pow8, Ha|].
  replace (2 * 2 ^ a) with (2 ^ (a + 1)) by (rewrite N.add_1_r, N.pow_succ_r'; reflexivity).
  apply N.pow_le_mono_r; lia.
Qed.
Lemma th_mono : forall a a', lm <= a -> a <= a' ->
  grow_of (2 ^ a) <= grow_of (2 ^ a') /\ tidy_of (2 ^ a) <= tidy_of (2 ^ a').
Proof. intros a a' _ Haa. apply thr_mono. apply N.pow_le_mono_r; lia. Qed.

Lemma cs : forall len, 0 < len -> exists a, lm <= a /\ len <= 2 ^ a /\ create_raw bs me len = empty_tbl lb lm a.
Proof.
  intros len Hlen. destruct (create_size lm len Hlen) as (a & Ha & Hla & He).
  exists a. split; [exact Ha|split; [exact Hla|]]. unfold create_raw, empty_tbl. rewrite He. reflexivity.
Qed.

Ltac hyps := first [exact ar_bound | exact ar_cover | exact me8 | exact th_tidy_lt | exact th_grow_le_tidy
                    | exact th_tidy_grow2 | exact th_mono | exact cs].

(* the initial table satisfies the invariant and is the empty map *)
Lemma m_create_rel : Rel lb lm (create bs me) (fun _ => None) 0.
Proof. apply create_rel; hyps. Qed.

Lemma m_run_refines : forall os h m c, Rel lb lm h m c -> guarded m os ->
  fst (run bs me h os) = spec_run m c os /\ wf lb lm (snd (run bs me h os)).
Proof. apply run_refines; hyps. Qed.

Lemma m_put_ok : forall h K v, wf lb lm h -> 2 <= K -> find_slot bs h K = None -> put_ok lb lm h K v (put bs me h K v).
Proof. apply put_ok_top; hyps. Qed.

Lemma m_remove_ok : forall h K, wf lb lm h -> 2 <= K -> remove_post lb lm h K (remove bs me h K).
Proof. apply remove_ok; hyps. Qed.

Lemma m_brehash_abs : forall h len, wf lb lm h -> 0 < len ->
  wf lb lm (brehash bs me h len) /\ dels (brehash bs me h len) = 0 /\ pop (brehash bs me h len) = pop h /\
  len <= nent (brehash bs me h len) /\ (forall K, 2 <= K -> lookup lb h K = lookup lb (brehash bs me h len) K).
Proof.
  intros h len Hwf Hlen.
  assert (H : wf lb lm (brehash bs me h len) /\ dels (brehash bs me h len) = 0 /\ pop (brehash bs me h len) = pop h /\
              len <= nent (brehash bs me h len) /\
              (forall K, 2 <= K -> lookup lb (brehash bs me h len) K = lookup lb h K))
    by (apply brehash_abs; try hyps; assumption).
  destruct H as (H1 & H2 & H3 & H4 & H5).
  refine (conj H1 (conj H2 (conj H3 (conj H4 _)))). intros K HK. symmetry. apply H5. exact HK.
Qed.

End MAIN.
