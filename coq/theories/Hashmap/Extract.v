From Coq Require Import List NArith.
From QV Require Import Hashmap.Model.
Require Extraction.
Require Import ExtrOcamlBasic.
Extraction Language OCaml.
Extraction "../ocaml/gen/hashmap_model.ml" create put remove get count callback destroy_deallocate brehash find_slot put_probe qt_hash64 key_at val_at.
