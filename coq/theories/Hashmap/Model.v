(* Executable model of src/hashmap.c (qt_hash): the record table behind the FEB and syncvar words.
   Mirrors the code branch by branch.  Definitions only (proofs: Proofs*.v).

   Keys and values are N (addresses as numbers).  KEY_NULL = 0 and KEY_DELETED = 1 are the two reserved
   key values, kept in the side cells value[2] / has_key[2].

   The two machine parameters are Section variables (arguments of every extracted function):
     bs = bucketsize   = cacheline / sizeof(hash_entry)         (4 on a 64-byte line)
     me = min_entries  = 2 * pagesize / sizeof(hash_entry)      (512 with 4 KiB pages)
   The thresholds are computed in single-precision float in the code:  entries*0.65f - 1, entries*0.8f - 1,
   entries*0.030f.  For entries a power of two <= 2^24 those products are exact (0.65f = 10905190/2^24,
   0.8f = 13421773/2^24, 0.030f = 16106127/2^29), so the truncation to size_t is the floor below.       *)
From Coq Require Import NArith List Bool.
Import ListNotations.
Local Open Scope N_scope.

(* ------------------------------------------------------------------ qt_hash64 (src/ds/dictionary/hash.c, 64-bit branch) *)
Definition M64 : N := 18446744073709551615.
Definition w64 (x : N) : N := N.land x M64.
Definition sub64 (a b : N) : N := w64 (a + (M64 + 1) - b).
Definition shl64 (a k : N) : N := w64 (N.shiftl a k).
Definition shr64 (a k : N) : N := N.shiftr a k.
(* x = x - y - z; x ^= (z >> k) or (z << k) *)
Definition mixr (x y z k : N) : N := N.lxor (sub64 (sub64 x y) z) (shr64 z k).
Definition mixl (x y z k : N) : N := N.lxor (sub64 (sub64 x y) z) (shl64 z k).

Definition qt_hash64 (key : N) : N :=
  let g := 11400714819323198483 (* 0x9e3779b97f4a7c13 *) in
  (* a += b[7]<<56 ... b[4]<<32 as uint64_t, but b[3]<<24 is computed in (signed) int and sign-extended *)
  let adj := if N.testbit key 31 then 18446744069414584320 (* 0xFFFFFFFF00000000 *) else 0 in
  let a := w64 (g + w64 key + adj) in
  let b := g in
  let c := w64 (16045690984503098046 (* 0xdeadbeefcafebabe *) + 8) in
  let a := mixr a b c 43 in let b := mixl b c a 9 in let c := mixr c a b 8 in
  let a := mixr a b c 38 in let b := mixl b c a 23 in let c := mixr c a b 5 in
  let a := mixr a b c 35 in let b := mixl b c a 49 in let c := mixr c a b 11 in
  let a := mixr a b c 12 in let b := mixl b c a 18 in let c := mixr c a b 22 in
  c.

(* (hashed >> 16) | (hashed << 16)   (uint64_t) *)
Definition rot16 (h : N) : N := N.lor (shr64 h 16) (shl64 h 16).

(* ------------------------------------------------------------------ the table *)
Record tbl := mkT {
  ents : list (N * N);      (* entries[i] = (key, value); key 0 = never used, 1 = deleted *)
  mask : N;
  nent : N;                 (* num_entries *)
  pop : N;                  (* population: live regular keys (the reserved keys are not counted) *)
  dels : N;                 (* deletes *)
  grow : N; shrink : N; tidy : N;
  val0 : N; val1 : N;       (* value[0], value[1] *)
  has0 : bool; has1 : bool  (* has_key[0], has_key[1] *)
}.

Definition key_at (e : list (N * N)) (i : N) : N := fst (nth (N.to_nat i) e (0, 0)).
Definition val_at (e : list (N * N)) (i : N) : N := snd (nth (N.to_nat i) e (0, 0)).
Fixpoint upd (l : list (N * N)) (i : nat) (x : N * N) : list (N * N) :=
  match l, i with
  | [], _ => []
  | _ :: t, O => x :: t
  | h :: t, S j => h :: upd t j x
  end.
Definition b2n (b : bool) : N := if b then 1 else 0.

Definition f65 : N := 10905190.
Definition f80 : N := 13421773.
Definition f03 : N := 16106127.
Definition grow_of (e : N) : N := (f65 * e) / 16777216 - 1.
Definition tidy_of (e : N) : N := (f80 * e) / 16777216 - 1.
Definition shrink_of (e : N) : N := (f03 * e) / 536870912.

Fixpoint pow2_ge (fuel : nat) (z k : N) : N :=
  match fuel with
  | O => z
  | S f => if z <? k then pow2_ge f (2 * z) k else z
  end.
(* size_t z = 1; while (z < k) z <<= 1;   (fuel: the number of bits of k always suffices) *)
Definition encompassing_power_of_two (k : N) : N := pow2_ge (S (N.to_nat (N.size k))) 1 k.

Inductive fres := FFound (i : N) | FNull | FCont.
Inductive bres := BMatch (i : N) | BDone (f : option N).

Section HM.
Variable bs me : N.

(* qt_hash_internal_create on a calloc'ed struct *)
Definition create_raw (entries : N) : tbl :=
  let e1 := if entries mod me =? 0 then entries else entries + (me - entries mod me) in
  let e := encompassing_power_of_two e1 in
  mkT (repeat (0, 0) (N.to_nat e)) (N.ldiff (e - 1) (bs - 1)) e 0 0
      (grow_of e) (if e =? me then 0 else shrink_of e) (tidy_of e) 0 0 false false.

(* qt_hash_create *)
Definition create : tbl := create_raw 100.

(* one cacheline bucket, as scanned by qt_hash_internal_find *)
Fixpoint scan_find (e : list (N * N)) (key b : N) (cnt : nat) (i : N) : fres :=
  match cnt with
  | O => FCont
  | S c =>
    let zk := key_at e (b + i) in
    if zk =? key then FFound (b + i)
    else if zk =? 0 then FNull          (* not KEY_DELETED, on purpose *)
    else scan_find e key b c (i + 1)
  end.

(* do { bucket = (bucket + step) & mask; <visit bucket>; } while (bucket != quit);   visit = Some r: leave with r *)
Fixpoint walk {A : Type} (fuel : nat) (visit : N -> option A) (msk step quit bucket : N) : option A :=
  match fuel with
  | O => None
  | S f =>
    let b := N.land (bucket + step) msk in
    match visit b with
    | Some r => Some r
    | None => if b =? quit then None else walk f visit msk step quit b
    end
  end.

Definition nbs : nat := N.to_nat bs.
Definition walk_fuel (h : tbl) : nat := S (N.to_nat (nent h)).
Definition step_of (hashed msk : N) : N := N.lor (N.land (rot16 hashed) msk) bs.

(* qt_hash_internal_find for a regular key: index of the entry *)
Definition find_slot (h : tbl) (key : N) : option N :=
  let z := ents h in
  let hashed := qt_hash64 key in
  let b0 := N.land hashed (mask h) in
  match scan_find z key b0 nbs 0 with
  | FFound i => Some i
  | FNull => None
  | FCont =>
    match walk (walk_fuel h)
               (fun b => match scan_find z key b nbs 0 with
                         | FFound i => Some (Some i) | FNull => Some None | FCont => None end)
               (mask h) (step_of hashed (mask h)) b0 b0 with
    | Some r => r
    | None => None
    end
  end.

(* one bucket as scanned by qt_hash_put_locked (f = first DELETED or NULL slot seen so far) *)
Fixpoint scan_put (e : list (N * N)) (key b : N) (cnt : nat) (i : N) (f : option N) : bres :=
  match cnt with
  | O => BDone f
  | S c =>
    let zk := key_at e (b + i) in
    if zk =? key then BMatch (b + i)
    else if zk =? 1 then scan_put e key b c (i + 1) (match f with None => Some (b + i) | _ => f end)
    else if zk =? 0 then BDone (match f with None => Some (b + i) | _ => f end)
    else scan_put e key b c (i + 1) f
  end.

Inductive pres := PColl | PRepl (i : N) | PFree (f : N) | PNoFree.

Definition put_probe (h : tbl) (key : N) : pres :=
  let z := ents h in
  let hw := qt_hash64 key in
  let b0 := N.land hw (mask h) in
  match scan_put z key b0 nbs 0 None with
  | BMatch _ => PColl
  | BDone (Some f) => PFree f
  | BDone None =>
    match walk (walk_fuel h)
               (fun b => match scan_put z key b nbs 0 None with
                         | BMatch i => Some (PRepl i) | BDone (Some f) => Some (PFree f) | BDone None => None end)
               (mask h) (step_of hw (mask h)) b0 b0 with
    | Some r => r
    | None => PNoFree
    end
  end.

Definition set_ents (h : tbl) (e : list (N * N)) (p d : N) : tbl :=
  mkT e (mask h) (nent h) p d (grow h) (shrink h) (tidy h) (val0 h) (val1 h) (has0 h) (has1 h).

(* brehash(h, len), parameterised by the put used for re-insertion (qt_hash_put_locked on the new table).
   NB (as in the code): `copied` starts at has_key[0] + has_key[1] although `population` does not count the
   reserved keys, and shrink_size is not taken over from the new table. *)
Fixpoint rehash_loop (putf : tbl -> N -> N -> N * tbl) (l : list (N * N)) (copied hpop : N) (d : tbl) : tbl :=
  match l with
  | [] => d
  | (k, v) :: l' =>
    if 1 <? k then
      let d' := snd (putf d k v) in
      let c := copied + 1 in
      if c =? hpop then d' else rehash_loop putf l' c hpop d'
    else rehash_loop putf l' copied hpop d
  end.

Definition brehash_with (putf : tbl -> N -> N -> N * tbl) (h : tbl) (len : N) : tbl :=
  let d0 := create_raw len in
  let d1 := mkT (ents d0) (mask d0) (nent d0) (pop d0) (dels d0) (grow d0) (shrink d0) (tidy d0)
                (val0 h) (val1 h) (has0 h) (has1 h) in
  let copied := b2n (has0 h) + b2n (has1 h) in
  let d := if copied <? pop h then rehash_loop putf (ents h) copied (pop h) d1 else d1 in
  mkT (ents d) (mask d) (nent d) (pop d) (dels d) (grow d) (shrink h) (tidy d)
      (val0 d) (val1 d) (has0 d) (has1 d).

(* qt_hash_put_locked.  Return codes: 0 = PUT_COLLISION, 1 = stored; 2 = no free slot (the code would write
   entries[-1]: undefined), 3 = model out of fuel (never under the table invariant: Proofs). *)
Fixpoint put_f (fuel : nat) (h : tbl) (key value : N) : N * tbl :=
  if key =? 0 then
    if has0 h then (0, h)
    else (1, mkT (ents h) (mask h) (nent h) (pop h) (dels h) (grow h) (shrink h) (tidy h) value (val1 h) true (has1 h))
  else if key =? 1 then
    if has1 h then (0, h)
    else (1, mkT (ents h) (mask h) (nent h) (pop h) (dels h) (grow h) (shrink h) (tidy h) (val0 h) value (has0 h) true)
  else
  match put_probe h key with
  | PColl => (0, h)                                   (* found in the home bucket: PUT_COLLISION, value kept *)
  | PRepl i => (1, set_ents h (upd (ents h) (N.to_nat i) (key, value)) (pop h) (dels h))  (* found later: value replaced *)
  | PNoFree => (2, h)
  | PFree f =>
    if key_at (ents h) f =? 0 then
      if grow h <=? pop h then
        match fuel with
        | O => (3, h)
        | S fu => put_f fu (brehash_with (put_f fu) h (2 * nent h)) key value
        end
      else if tidy h <? pop h + dels h then
        match fuel with
        | O => (3, h)
        | S fu => put_f fu (brehash_with (put_f fu) h (nent h)) key value
        end
      else (1, set_ents h (upd (ents h) (N.to_nat f) (key, value)) (pop h + 1) (dels h))
    else (* KEY_DELETED *)
      (1, set_ents h (upd (ents h) (N.to_nat f) (key, value)) (pop h + 1) (dels h - 1))
  end.

Definition put_fuel : nat := 3%nat.
Definition put (h : tbl) (key value : N) : N * tbl := put_f put_fuel h key value.
Definition brehash (h : tbl) (len : N) : tbl := brehash_with put h len.

(* qt_hash_remove_locked *)
Definition remove (h : tbl) (key : N) : N * tbl :=
  if key =? 0 then
    if has0 h
    then (1, mkT (ents h) (mask h) (nent h) (pop h) (dels h) (grow h) (shrink h) (tidy h) 0 (val1 h) false (has1 h))
    else (0, h)
  else if key =? 1 then
    if has1 h
    then (1, mkT (ents h) (mask h) (nent h) (pop h) (dels h) (grow h) (shrink h) (tidy h) (val0 h) 0 (has0 h) false)
    else (0, h)
  else
  match find_slot h key with
  | None => (0, h)
  | Some i =>
    let h1 := set_ents h (upd (ents h) (N.to_nat i) (1, val_at (ents h) i)) (pop h - 1) (dels h + 1) in
    if tidy h1 <=? pop h1 + dels h1 then (1, brehash h1 (nent h1))
    else if pop h1 <? shrink h1 then (1, brehash h1 (nent h1 / 2))
    else (1, h1)
  end.

(* qt_hash_get_locked (NULL = 0 when absent) *)
Definition get (h : tbl) (key : N) : N :=
  if key =? 0 then (if has0 h then val0 h else 0)
  else if key =? 1 then (if has1 h then val1 h else 0)
  else match find_slot h key with
       | Some i => val_at (ents h) i
       | None => 0
       end.

(* qt_hash_count *)
Definition count (h : tbl) : N := pop h + b2n (has0 h) + b2n (has1 h).

(* qt_hash_callback: the (key, value) pairs handed to f, in call order.  qt_hash_destroy_deallocate hands the
   values of the same sequence to its deallocator. *)
Fixpoint visit_loop (l : list (N * N)) (visited hpop : N) : list (N * N) :=
  match l with
  | [] => []
  | (k, v) :: l' =>
    if 1 <? k then (k, v) :: (if visited + 1 =? hpop then [] else visit_loop l' (visited + 1) hpop)
    else visit_loop l' visited hpop
  end.

Definition callback (h : tbl) : list (N * N) :=
  let s0 := if has0 h then [(0, val0 h)] else [] in
  let s1 := if has1 h then [(1, val1 h)] else [] in
  let visited := b2n (has0 h) + b2n (has1 h) in
  s0 ++ s1 ++ (if visited <? pop h then visit_loop (ents h) visited (pop h) else []).

Definition destroy_deallocate (h : tbl) : list N := map snd (callback h).

(* ------------------------------------------------------------------ operation scripts *)
Inductive op := OPut (k v : N) | OGet (k : N) | ORemove (k : N) | OCount.

Definition step (h : tbl) (o : op) : N * tbl :=
  match o with
  | OPut k v => put h k v
  | OGet k => (get h k, h)
  | ORemove k => remove h k
  | OCount => (count h, h)
  end.

Fixpoint run (h : tbl) (os : list op) : list N * tbl :=
  match os with
  | [] => ([], h)
  | o :: os' => let (r, h') := step h o in let (rs, h'') := run h' os' in (r :: rs, h'')
  end.

End HM.
