(* The table invariant of src/hashmap.c and its preservation by every operation; refinement of a finite map.
   Sizes: bucket size bs = 2^lb, minimum table size me = 2^lm.  The arithmetic facts about masks, the odd
   probing step and the float thresholds are Section hypotheses here; they are proved in Proofs_Arith.v and the
   closed theorems are assembled in Proofs_Main.v. *)
From Coq Require Import NArith PeanoNat List Bool Lia.
From QV Require Import Hashmap.Model Hashmap.Proofs_Scan.
Import ListNotations.
Local Open Scope N_scope.

Section INV.
Variables lb lm : N.
Local Notation bs := (2 ^ lb).
Local Notation me := (2 ^ lm).

Definition shape (h : tbl) : Prop :=
  (exists a, lm <= a /\ nent h = 2 ^ a) /\ mask h = N.ldiff (nent h - 1) (bs - 1) /\
  length (ents h) = N.to_nat (nent h) /\ grow h = grow_of (nent h) /\ tidy h = tidy_of (nent h).

Definition empty_tbl (a : N) : tbl :=
  mkT (repeat (0, 0) (N.to_nat (2 ^ a))) (N.ldiff (2 ^ a - 1) (bs - 1)) (2 ^ a) 0 0
      (grow_of (2 ^ a)) (if 2 ^ a =? me then 0 else shrink_of (2 ^ a)) (tidy_of (2 ^ a)) 0 0 false false.

Hypothesis AR_bound : forall h K, shape h -> forall s, In s (slots bs h K) -> s < nent h.
Hypothesis AR_cover : forall h K, shape h -> forall z, z < nent h -> In z (slots bs h K).
Hypothesis TH_me : 8 <= me.
Hypothesis TH_tidy_lt : forall a, lm <= a -> tidy_of (2 ^ a) + 1 < 2 ^ a.
Hypothesis TH_grow_le_tidy : forall a, lm <= a -> grow_of (2 ^ a) <= tidy_of (2 ^ a).
Hypothesis TH_tidy_grow2 : forall a a', lm <= a -> a + 1 <= a' -> tidy_of (2 ^ a) + 1 < grow_of (2 ^ a').
Hypothesis TH_mono : forall a a', lm <= a -> a <= a' ->
  grow_of (2 ^ a) <= grow_of (2 ^ a') /\ tidy_of (2 ^ a) <= tidy_of (2 ^ a').
Hypothesis CS : forall len, 0 < len -> exists a, lm <= a /\ len <= 2 ^ a /\ create_raw bs me len = empty_tbl a.

(* ------------------------------------------------------------------ the invariant *)
Record wf (h : tbl) : Prop := {
  wf_shape : shape h;
  wf_has : has0 h = false /\ has1 h = false;
  wf_pop : pop h = nlive (ents h);
  wf_dels : dels h = ndel (ents h);
  wf_load : pop h + dels h <= tidy h + 1;
  wf_reach : forall i, i < nent h -> 1 < key_at (ents h) i -> find_slot bs h (key_at (ents h) i) = Some i
}.

(* what a lookup of a regular key observes *)
Definition lookup (h : tbl) (K : N) : option N :=
  match find_slot bs h K with Some i => Some (val_at (ents h) i) | None => None end.

Lemma find_slot_ext : forall h h', ents h = ents h' -> mask h = mask h' -> nent h = nent h' ->
  forall K, find_slot bs h K = find_slot bs h' K.
Proof. intros h h' H1 H2 H3 K. unfold find_slot, walk_fuel. rewrite H1, H2, H3. reflexivity. Qed.

Lemma slots_ext : forall h h' K, mask h = mask h' -> nent h = nent h' -> slots bs h K = slots bs h' K.
Proof. intros h h' K H2 H3. unfold slots, blist, walk_fuel. rewrite H2, H3. reflexivity. Qed.

Lemma find_sound : forall h K i, find_slot bs h K = Some i -> In i (slots bs h K) /\ key_at (ents h) i = K.
Proof.
  intros h K i H. rewrite find_slot_flat in H.
  destruct (sfind (ents h) K (slots bs h K)) eqn:E; try discriminate.
  inversion H; subst. apply sfind_found in E. exact E.
Qed.

Lemma len_N : forall h, shape h -> N.of_nat (length (ents h)) = nent h.
Proof. intros h (_ & _ & Hl & _). rewrite Hl. apply N2Nat.id. Qed.

Lemma key_at_out : forall h s, shape h -> nent h <= s -> key_at (ents h) s = 0.
Proof.
  intros h s Hs Hle. unfold key_at. rewrite nth_overflow; [reflexivity|].
  destruct Hs as (_ & _ & Hl & _). rewrite Hl. lia.
Qed.

Lemma absent_all : forall h K, wf h -> 2 <= K -> find_slot bs h K = None -> forall s, key_at (ents h) s <> K.
Proof.
  intros h K Hwf HK Hnone s Hs.
  destruct (N.lt_ge_cases s (nent h)) as [Hlt|Hge].
  - pose proof (wf_reach h Hwf s Hlt) as Hr. rewrite Hs in Hr. rewrite Hr in Hnone by lia. discriminate.
  - rewrite (key_at_out h s (wf_shape h Hwf) Hge) in Hs. lia.
Qed.

Lemma all_live_count : forall e, (forall i, (i < length e)%nat -> 1 < fst (nth i e (0, 0))) -> nlive e = N.of_nat (length e).
Proof.
  induction e as [|x e IH]; intros H; [reflexivity|].
  rewrite nlive_cons. pose proof (H O ltac:(cbn; lia)) as H0. cbn [nth] in H0.
  assert (Hx : (1 <? fst x) = true) by (apply N.ltb_lt; exact H0). rewrite Hx.
  rewrite IH; [cbn [length]; lia|]. intros i Hi. apply (H (S i)). cbn; lia.
Qed.

Lemma free_exists : forall h K, wf h -> sfree (ents h) (slots bs h K) <> None.
Proof.
  intros h K Hwf Hnone.
  pose proof (wf_shape h Hwf) as Hs.
  assert (Hall : nlive (ents h) = N.of_nat (length (ents h))).
  { apply all_live_count. intros i Hi.
    assert (Hin : In (N.of_nat i) (slots bs h K)).
    { apply AR_cover; [exact Hs|]. rewrite <- (len_N h Hs). lia. }
    pose proof (sfree_none _ _ Hnone _ Hin) as Hl. unfold key_at in Hl. rewrite Nat2N.id in Hl. exact Hl. }
  rewrite (len_N h Hs) in Hall.
  pose proof (wf_pop h Hwf) as Hp. pose proof (wf_load h Hwf) as Hld.
  destruct Hs as ((a & Ha & Hn) & _ & _ & _ & Ht).
  pose proof (TH_tidy_lt a Ha) as Hlt. rewrite Ht, Hn in Hld. rewrite Hn in Hall. lia.
Qed.

(* ------------------------------------------------------------------ insertion without resize *)
Definition ins (h : tbl) (f K v : N) : tbl :=
  set_ents h (upd (ents h) (N.to_nat f) (K, v)) (pop h + 1)
           (if key_at (ents h) f =? 0 then dels h else dels h - 1).

Definition put_ok (h : tbl) (K v : N) (r : N * tbl) : Prop :=
  fst r = 1 /\ wf (snd r) /\ lookup (snd r) K = Some v /\
  (forall K', 2 <= K' -> K' <> K -> lookup (snd r) K' = lookup h K') /\
  pop (snd r) = pop h + 1 /\ nent h <= nent (snd r) /\ (dels h = 0 -> dels (snd r) = 0).

Lemma ins_ok : forall h K v f, wf h -> 2 <= K -> find_slot bs h K = None ->
  sfree (ents h) (slots bs h K) = Some f ->
  (key_at (ents h) f = 0 -> pop h + dels h <= tidy h) ->
  put_ok h K v (1, ins h f K v).
Proof.
  intros h K v f Hwf HK Habs Hfree Hload.
  pose proof (wf_shape h Hwf) as Hs.
  pose proof (absent_all h K Hwf HK Habs) as Hno.
  destruct (sfree_some _ _ _ Hfree) as [Hin Hle].
  pose proof (AR_bound h K Hs f Hin) as Hfn.
  assert (Hfl : f < N.of_nat (length (ents h))) by (rewrite (len_N h Hs); exact Hfn).
  assert (Hsl : forall K', slots bs (ins h f K v) K' = slots bs h K') by (intros; apply slots_ext; reflexivity).
  assert (Hfind_new : find_slot bs (ins h f K v) K = Some f).
  { rewrite find_slot_flat, Hsl. cbn [ins set_ents ents].
    rewrite (sfind_inserted (ents h) K v (slots bs h K) f HK Hfree (fun s _ => Hno s) Hfl). reflexivity. }
  assert (Hfind_other : forall K' j, 2 <= K' -> K' <> K -> find_slot bs h K' = Some j ->
                                     find_slot bs (ins h f K v) K' = Some j /\ j <> f).
  { intros K' j HK' Hne Hj. split.
    - rewrite find_slot_flat in Hj. rewrite find_slot_flat, Hsl. cbn [ins set_ents ents].
      destruct (sfind (ents h) K' (slots bs h K')) eqn:E; try discriminate. inversion Hj; subst i.
      rewrite (sfind_fill_other (ents h) K v K' (slots bs h K') f j HK HK' (not_eq_sym Hne) Hle E). reflexivity.
    - intros ->. apply find_sound in Hj. destruct Hj as [_ Hj]. lia. }
  assert (Hstay : forall K' j, 2 <= K' -> K' <> K -> find_slot bs (ins h f K v) K' = Some j -> find_slot bs h K' = Some j).
  { intros K' j HK' Hne Hj. destruct (find_sound _ _ _ Hj) as [Hjin Hjk].
    rewrite Hsl in Hjin. pose proof (AR_bound h K' Hs j Hjin) as Hjn.
    cbn [ins set_ents ents] in Hjk.
    destruct (N.eq_dec j f) as [->|Hjf].
    - rewrite key_at_upd_same in Hjk by exact Hfl. cbn [fst] in Hjk. congruence.
    - rewrite key_at_upd_other in Hjk by exact Hjf.
      pose proof (wf_reach h Hwf j Hjn) as Hr. rewrite Hjk in Hr. apply Hr. lia. }
  destruct (counts_upd (ents h) f (K, v) Hfl) as [Hcl Hcd]. cbn [fst] in Hcl, Hcd.
  assert (HKl : (1 <? K) = true) by (apply N.ltb_lt; lia). rewrite HKl in Hcl.
  assert (HK1 : (K =? 1) = false) by (apply N.eqb_neq; lia). rewrite HK1 in Hcd.
  assert (Hfl2 : (1 <? key_at (ents h) f) = false) by (apply N.ltb_ge; exact Hle). rewrite Hfl2 in Hcl.
  pose proof (wf_pop h Hwf) as Hp. pose proof (wf_dels h Hwf) as Hd. pose proof (wf_load h Hwf) as Hld.
  unfold put_ok. cbn [fst snd]. split; [reflexivity|]. split; [|split; [|split; [|split; [|split]]]].
  - (* wf *)
    constructor.
    + destruct Hs as (Ha & Hm & Hl & Hg & Ht). unfold shape. cbn [ins set_ents ents mask nent grow tidy].
      rewrite upd_length. repeat split; assumption.
    + exact (wf_has h Hwf).
    + cbn [ins set_ents pop ents]. lia.
    + cbn [ins set_ents dels ents].
      destruct (key_at (ents h) f =? 0) eqn:E0.
      * apply N.eqb_eq in E0. rewrite E0 in Hcd. cbn in Hcd. lia.
      * apply N.eqb_neq in E0. assert (E1 : key_at (ents h) f = 1) by lia. rewrite E1 in Hcd. cbn in Hcd. lia.
    + cbn [ins set_ents pop dels tidy].
      destruct (key_at (ents h) f =? 0) eqn:E0.
      * apply N.eqb_eq in E0. specialize (Hload E0). lia.
      * apply N.eqb_neq in E0. assert (E1 : key_at (ents h) f = 1) by lia. rewrite E1 in Hcd. cbn in Hcd. lia.
    + intros i Hi Hlive. cbn [ins set_ents ents nent] in Hi, Hlive |- *.
      destruct (N.eq_dec i f) as [->|Hif].
      * rewrite key_at_upd_same by exact Hfl. cbn [fst]. exact Hfind_new.
      * rewrite key_at_upd_other in Hlive |- * by exact Hif.
        pose proof (wf_reach h Hwf i Hi Hlive) as Hr.
        assert (Hne : key_at (ents h) i <> K) by (apply Hno).
        apply (Hfind_other (key_at (ents h) i) i); [lia|exact Hne|exact Hr].
  - unfold lookup. rewrite Hfind_new. cbn [ins set_ents ents]. rewrite val_at_upd_same by exact Hfl. reflexivity.
  - intros K' HK' Hne. unfold lookup.
    destruct (find_slot bs h K') as [j|] eqn:Ej.
    + destruct (Hfind_other K' j HK' Hne Ej) as [Hn Hjf]. rewrite Hn. cbn [ins set_ents ents].
      rewrite val_at_upd_other by exact Hjf. reflexivity.
    + destruct (find_slot bs (ins h f K v) K') as [j|] eqn:Ej'; [|reflexivity].
      rewrite (Hstay K' j HK' Hne Ej') in Ej. discriminate.
  - reflexivity.
  - cbn [ins set_ents nent]. lia.
  - intros Hd0. cbn [ins set_ents dels]. destruct (key_at (ents h) f =? 0); lia.
Qed.

Lemma put_f_unfold : forall fuel h K v, 2 <= K ->
  put_f bs me fuel h K v =
  match put_probe bs h K with
  | PColl => (0, h)
  | PRepl i => (1, set_ents h (upd (ents h) (N.to_nat i) (K, v)) (pop h) (dels h))
  | PNoFree => (2, h)
  | PFree f =>
    if key_at (ents h) f =? 0 then
      if grow h <=? pop h then
        match fuel with
        | O => (3, h)
        | S fu => put_f bs me fu (brehash_with bs me (put_f bs me fu) h (2 * nent h)) K v
        end
      else if tidy h <? pop h + dels h then
        match fuel with
        | O => (3, h)
        | S fu => put_f bs me fu (brehash_with bs me (put_f bs me fu) h (nent h)) K v
        end
      else (1, set_ents h (upd (ents h) (N.to_nat f) (K, v)) (pop h + 1) (dels h))
    else (1, set_ents h (upd (ents h) (N.to_nat f) (K, v)) (pop h + 1) (dels h - 1))
  end.
Proof.
  intros fuel h K v HK.
  assert (E0 : (K =? 0) = false) by (apply N.eqb_neq; lia).
  assert (E1 : (K =? 1) = false) by (apply N.eqb_neq; lia).
  destruct fuel; cbn [put_f]; rewrite E0, E1; reflexivity.
Qed.

Lemma probe_free : forall h K, wf h -> 2 <= K -> find_slot bs h K = None ->
  exists f, put_probe bs h K = PFree f /\ sfree (ents h) (slots bs h K) = Some f.
Proof.
  intros h K Hwf HK Habs.
  rewrite put_probe_absent by (intros s _; apply (absent_all h K Hwf HK Habs)).
  destruct (sfree (ents h) (slots bs h K)) as [f|] eqn:E.
  - exists f. split; reflexivity.
  - exfalso. exact (free_exists h K Hwf E).
Qed.

(* a put that needs no resize: the chosen slot is a deleted one, or the thresholds allow a never-used one *)
Lemma put_direct : forall fuel h K v, wf h -> 2 <= K -> find_slot bs h K = None ->
  (dels h = 0 -> pop h < grow h /\ pop h + dels h <= tidy h) ->
  (dels h <> 0 -> forall f, sfree (ents h) (slots bs h K) = Some f -> key_at (ents h) f = 0 ->
                 pop h < grow h /\ pop h + dels h <= tidy h) ->
  put_ok h K v (put_f bs me fuel h K v).
Proof.
  intros fuel h K v Hwf HK Habs Hc0 Hc1.
  destruct (probe_free h K Hwf HK Habs) as (f & Hp & Hf).
  rewrite put_f_unfold by exact HK. rewrite Hp.
  pose proof (ins_ok h K v f Hwf HK Habs Hf) as Hins. unfold ins in Hins.
  destruct (key_at (ents h) f =? 0) eqn:E0.
  - apply N.eqb_eq in E0.
    assert (Hc : pop h < grow h /\ pop h + dels h <= tidy h).
    { destruct (N.eq_dec (dels h) 0) as [Hd|Hd]; [apply Hc0; exact Hd|apply (Hc1 Hd f Hf E0)]. }
    destruct Hc as [Hg Ht].
    assert (Eg : (grow h <=? pop h) = false) by (apply N.leb_gt; exact Hg). rewrite Eg.
    assert (Et : (tidy h <? pop h + dels h) = false) by (apply N.ltb_ge; exact Ht). rewrite Et.
    apply Hins. intros _. exact Ht.
  - apply Hins. intros H0. apply N.eqb_neq in E0. contradiction.
Qed.

(* ------------------------------------------------------------------ marking a slot deleted *)
Definition mark (h : tbl) (i : N) : tbl :=
  set_ents h (upd (ents h) (N.to_nat i) (1, val_at (ents h) i)) (pop h - 1) (dels h + 1).

Lemma mark_ok : forall h K i, wf h -> 2 <= K -> find_slot bs h K = Some i ->
  wf (mark h i) /\ lookup (mark h i) K = None /\
  (forall K', 2 <= K' -> K' <> K -> lookup (mark h i) K' = lookup h K') /\
  pop (mark h i) + 1 = pop h /\ nent (mark h i) = nent h.
Proof.
  intros h K i Hwf HK Hfi.
  pose proof (wf_shape h Hwf) as Hs.
  destruct (find_sound _ _ _ Hfi) as [Hin Hki].
  pose proof (AR_bound h K Hs i Hin) as Hin_n.
  assert (Hil : i < N.of_nat (length (ents h))) by (rewrite (len_N h Hs); exact Hin_n).
  assert (Hsl : forall K', slots bs (mark h i) K' = slots bs h K') by (intros; apply slots_ext; reflexivity).
  assert (Hsame : forall K', 2 <= K' -> K' <> K -> find_slot bs (mark h i) K' = find_slot bs h K').
  { intros K' HK' Hne. rewrite !find_slot_flat, Hsl. cbn [mark set_ents ents].
    rewrite (sfind_mark_other (ents h) (val_at (ents h) i) K' (slots bs h K') i HK');
      [reflexivity|rewrite Hki; lia|rewrite Hki; congruence|exact Hil]. }
  destruct (counts_upd (ents h) i (1, val_at (ents h) i) Hil) as [Hcl Hcd]. cbn [fst] in Hcl, Hcd.
  rewrite Hki in Hcl, Hcd.
  assert (HKl : (1 <? K) = true) by (apply N.ltb_lt; lia). rewrite HKl in Hcl.
  assert (HK1 : (K =? 1) = false) by (apply N.eqb_neq; lia). rewrite HK1 in Hcd. cbn in Hcl, Hcd.
  pose proof (wf_pop h Hwf) as Hp. pose proof (wf_dels h Hwf) as Hd. pose proof (wf_load h Hwf) as Hld.
  assert (Hnone : find_slot bs (mark h i) K = None).
  { destruct (find_slot bs (mark h i) K) as [j|] eqn:Ej; [|reflexivity]. exfalso.
    destruct (find_sound _ _ _ Ej) as [Hjin Hjk]. rewrite Hsl in Hjin.
    pose proof (AR_bound h K Hs j Hjin) as Hjn. cbn [mark set_ents ents] in Hjk.
    destruct (N.eq_dec j i) as [->|Hji].
    - rewrite key_at_upd_same in Hjk by exact Hil. cbn [fst] in Hjk. lia.
    - rewrite key_at_upd_other in Hjk by exact Hji.
      pose proof (wf_reach h Hwf j Hjn) as Hr. rewrite Hjk in Hr. rewrite Hfi in Hr.
      specialize (Hr ltac:(lia)). congruence. }
  split; [|split; [|split; [|split]]].
  - constructor.
    + destruct Hs as (Ha & Hm & Hl & Hg & Ht). unfold shape. cbn [mark set_ents ents mask nent grow tidy].
      rewrite upd_length. repeat split; assumption.
    + exact (wf_has h Hwf).
    + cbn [mark set_ents pop ents]. lia.
    + cbn [mark set_ents dels ents]. lia.
    + cbn [mark set_ents pop dels tidy]. lia.
    + intros j Hj Hlive. cbn [mark set_ents ents nent] in Hj, Hlive |- *.
      destruct (N.eq_dec j i) as [->|Hji].
      * rewrite key_at_upd_same in Hlive by exact Hil. cbn [fst] in Hlive. lia.
      * rewrite key_at_upd_other in Hlive |- * by exact Hji.
        pose proof (wf_reach h Hwf j Hj Hlive) as Hr.
        assert (Hne : key_at (ents h) j <> K).
        { intros Heq. rewrite Heq in Hr. congruence. }
        change (find_slot bs (mark h i) (key_at (ents h) j) = Some j).
        rewrite (Hsame (key_at (ents h) j)); [exact Hr|lia|exact Hne].
  - unfold lookup. rewrite Hnone. reflexivity.
  - intros K' HK' Hne. unfold lookup. rewrite (Hsame K' HK' Hne).
    destruct (find_slot bs h K') as [j|] eqn:Ej; [|reflexivity].
    cbn [mark set_ents ents]. rewrite val_at_upd_other; [reflexivity|].
    intros ->. apply find_sound in Ej. destruct Ej as [_ Ej]. congruence.
  - cbn [mark set_ents pop]. lia.
  - reflexivity.
Qed.

(* ------------------------------------------------------------------ the abstraction read off the entry array *)
Lemma lookup_afind : forall h K, wf h -> 2 <= K -> lookup h K = afind K (ents h).
Proof.
  intros h K Hwf HK. pose proof (wf_shape h Hwf) as Hs. unfold lookup.
  destruct (afind K (ents h)) as [v|] eqn:E.
  - destruct (afind_some_nth _ _ _ E) as (q & Hq & Hn).
    assert (Hqn : N.of_nat q < nent h) by (rewrite <- (len_N h Hs); lia).
    assert (Hk : key_at (ents h) (N.of_nat q) = K) by (unfold key_at; rewrite Nat2N.id, Hn; reflexivity).
    pose proof (wf_reach h Hwf _ Hqn) as Hr. rewrite Hk in Hr. rewrite Hr by lia.
    unfold val_at. rewrite Nat2N.id, Hn. reflexivity.
  - destruct (find_slot bs h K) as [i|] eqn:Ei; [|reflexivity]. exfalso.
    destruct (find_sound _ _ _ Ei) as [Hin Hk].
    pose proof (AR_bound h K Hs i Hin) as Hi.
    apply (afind_none_nth _ _ E (N.to_nat i)); [|exact Hk].
    destruct Hs as (_ & _ & Hl & _). rewrite Hl. lia.
Qed.

Lemma nodup_ents : forall h a x b, wf h -> ents h = a ++ x :: b -> 1 < fst x -> afind (fst x) a = None.
Proof.
  intros h a x b Hwf He Hx. pose proof (wf_shape h Hwf) as Hs.
  destruct (afind (fst x) a) as [w|] eqn:E; [exfalso|reflexivity].
  destruct (afind_some_nth _ _ _ E) as (q & Hq & Hn).
  assert (Hlen : length (ents h) = (length a + S (length b))%nat) by (rewrite He, app_length; reflexivity).
  assert (Hkq : key_at (ents h) (N.of_nat q) = fst x).
  { unfold key_at. rewrite Nat2N.id, He, app_nth1 by exact Hq. rewrite Hn. reflexivity. }
  assert (Hkp : key_at (ents h) (N.of_nat (length a)) = fst x).
  { unfold key_at. rewrite Nat2N.id, He, app_nth2 by lia. rewrite Nat.sub_diag. reflexivity. }
  pose proof (wf_reach h Hwf (N.of_nat q)) as Hr1. pose proof (wf_reach h Hwf (N.of_nat (length a))) as Hr2.
  rewrite Hkq in Hr1. rewrite Hkp in Hr2. rewrite <- (len_N h Hs) in Hr1, Hr2.
  rewrite Hr1 in Hr2 by lia. specialize (Hr2 ltac:(lia) Hx). inversion Hr2. lia.
Qed.

(* ------------------------------------------------------------------ brehash *)
Definition with_shrink (d : tbl) (s : N) : tbl :=
  mkT (ents d) (mask d) (nent d) (pop d) (dels d) (grow d) s (tidy d) (val0 d) (val1 d) (has0 d) (has1 d).

Lemma wf_with_shrink : forall d s, wf d -> wf (with_shrink d s).
Proof.
  intros d s Hwf. destruct Hwf as [Hs Hh Hp Hd Hl Hr]. constructor; assumption.
Qed.

Lemma lookup_with_shrink : forall d s K, lookup (with_shrink d s) K = lookup d K.
Proof. intros. unfold lookup. rewrite (find_slot_ext (with_shrink d s) d) by reflexivity. reflexivity. Qed.

Lemma wf_empty : forall a, lm <= a -> wf (empty_tbl a) /\ (forall K, 2 <= K -> lookup (empty_tbl a) K = None).
Proof.
  intros a Ha.
  assert (Hs : shape (empty_tbl a)).
  { unfold shape, empty_tbl. cbn [nent mask ents grow tidy]. rewrite repeat_length.
    repeat split; try reflexivity. exists a. split; [exact Ha|reflexivity]. }
  destruct (nlive_repeat (N.to_nat (2 ^ a))) as [Hl0 Hd0].
  split.
  - constructor; try exact Hs.
    + split; reflexivity.
    + cbn [empty_tbl pop ents]. rewrite Hl0. reflexivity.
    + cbn [empty_tbl dels ents]. rewrite Hd0. reflexivity.
    + cbn [empty_tbl pop dels tidy]. lia.
    + intros i _ Hlive. cbn [empty_tbl ents] in Hlive. rewrite key_at_repeat in Hlive. lia.
  - intros K HK. unfold lookup. destruct (find_slot bs (empty_tbl a) K) as [i|] eqn:E; [|reflexivity].
    apply find_sound in E. destruct E as [_ E]. cbn [empty_tbl ents] in E. rewrite key_at_repeat in E. lia.
Qed.

Section REHASH.
Variable putf : tbl -> N -> N -> N * tbl.
Variables hpop N0 : N.
Hypothesis Hput : forall d K v, wf d -> dels d = 0 -> pop d < hpop -> N0 <= nent d -> 2 <= K ->
  find_slot bs d K = None -> put_ok d K v (putf d K v).

Lemma rehash_loop_ok : forall full l pre d copied,
  full = pre ++ l ->
  (forall a x b, full = a ++ x :: b -> 1 < fst x -> afind (fst x) a = None) ->
  hpop = nlive full ->
  wf d -> dels d = 0 -> pop d = copied -> copied = nlive pre -> N0 <= nent d ->
  (forall K, 2 <= K -> lookup d K = afind K pre) ->
  let d' := rehash_loop putf l copied hpop d in
  wf d' /\ dels d' = 0 /\ pop d' = hpop /\ N0 <= nent d' /\ (forall K, 2 <= K -> lookup d' K = afind K full).
Proof.
  intros full l. induction l as [|[k v] l IH]; intros pre d copied Hfull Hnd Hhp Hwf Hd0 Hpd Hcp HN Hlk.
  - cbn [rehash_loop]. cbn zeta. rewrite app_nil_r in Hfull. subst full.
    refine (conj Hwf (conj Hd0 (conj _ (conj HN Hlk)))). lia.
  - cbn [rehash_loop]. cbn zeta.
    assert (Hfull' : full = (pre ++ [(k, v)]) ++ l) by (rewrite <- app_assoc; exact Hfull).
    assert (Hnl : nlive full = nlive pre + (if 1 <? k then 1 else 0) + nlive l).
    { rewrite Hfull, nlive_app, nlive_cons. cbn [fst]. lia. }
    destruct (1 <? k) eqn:Ek.
    + apply N.ltb_lt in Ek.
      pose proof (Hnd pre (k, v) l Hfull Ek) as Hnk. cbn [fst] in Hnk.
      assert (Habs : find_slot bs d k = None).
      { pose proof (Hlk k ltac:(lia)) as H1. rewrite Hnk in H1.
        unfold lookup in H1. destruct (find_slot bs d k); [discriminate|reflexivity]. }
      pose proof (Hput d k v Hwf Hd0 ltac:(lia) HN ltac:(lia) Habs) as (Hr1 & Hwf1 & Hlk1 & Hoth1 & Hp1 & Hn1 & Hd1).
      set (d1 := snd (putf d k v)) in *.
      assert (Hlk' : forall K, 2 <= K -> lookup d1 K = afind K (pre ++ [(k, v)])).
      { intros K HK. rewrite afind_app. cbn [afind].
        destruct (N.eq_dec K k) as [->|Hne].
        - rewrite Hlk1, Hnk, N.eqb_refl. reflexivity.
        - rewrite (Hoth1 K HK Hne), (Hlk K HK).
          assert (E : (k =? K) = false) by (apply N.eqb_neq; congruence). rewrite E.
          destruct (afind K pre); reflexivity. }
      assert (Hcp' : copied + 1 = nlive (pre ++ [(k, v)])).
      { rewrite nlive_app, nlive_cons. cbn [fst].
        assert (E : (1 <? k) = true) by (apply N.ltb_lt; exact Ek). rewrite E. cbn. lia. }
      destruct (copied + 1 =? hpop) eqn:Ec.
      * apply N.eqb_eq in Ec.
        assert (Hl0 : nlive l = 0) by lia.
        refine (conj Hwf1 (conj (Hd1 Hd0) (conj _ (conj _ _)))); try lia.
        intros K HK. rewrite (Hlk' K HK), Hfull'. rewrite (afind_app K (pre ++ [(k, v)]) l).
        rewrite (afind_nolive K l HK Hl0). destruct (afind K (pre ++ [(k, v)])); reflexivity.
      * apply (IH (pre ++ [(k, v)]) d1 (copied + 1)); try assumption; try lia.
    + apply N.ltb_ge in Ek.
      apply (IH (pre ++ [(k, v)]) d copied); try assumption.
      * rewrite nlive_app, nlive_cons. cbn [fst].
        assert (E : (1 <? k) = false) by (apply N.ltb_ge; exact Ek). rewrite E. cbn. lia.
      * intros K HK. rewrite afind_app. cbn [afind].
        assert (E : (k =? K) = false) by (apply N.eqb_neq; lia). rewrite E. rewrite (Hlk K HK).
        destruct (afind K pre); reflexivity.
Qed.

Lemma brehash_ok : forall h, wf h -> 0 < N0 -> hpop = pop h ->
  let h' := brehash_with bs me putf h N0 in
  wf h' /\ dels h' = 0 /\ pop h' = pop h /\ N0 <= nent h' /\
  (forall K, 2 <= K -> lookup h' K = lookup h K).
Proof.
  intros h Hwf Hlen Hhp.
  destruct (CS N0 Hlen) as (a & Ha & Hla & Hcr).
  destruct (wf_has h Hwf) as [Hh0 Hh1].
  destruct (wf_empty a Ha) as [Hwe Hle].
  unfold brehash_with. rewrite Hcr, Hh0, Hh1. cbn [b2n N.add].
  set (d1 := mkT (ents (empty_tbl a)) (mask (empty_tbl a)) (nent (empty_tbl a)) (pop (empty_tbl a))
                 (dels (empty_tbl a)) (grow (empty_tbl a)) (shrink (empty_tbl a)) (tidy (empty_tbl a))
                 (val0 h) (val1 h) false false).
  assert (Hwd1 : wf d1).
  { destruct Hwe as [Hs Hh Hp Hd Hl Hr]. constructor; assumption. }
  assert (Hld1 : forall K, 2 <= K -> lookup d1 K = None).
  { intros K HK. rewrite <- (Hle K HK). unfold lookup.
    rewrite (find_slot_ext d1 (empty_tbl a)) by reflexivity. reflexivity. }
  pose proof (wf_pop h Hwf) as Hp.
  assert (Hgoal : forall d, wf d -> dels d = 0 -> pop d = pop h -> N0 <= nent d ->
                  (forall K, 2 <= K -> lookup d K = afind K (ents h)) ->
                  let h' := mkT (ents d) (mask d) (nent d) (pop d) (dels d) (grow d) (shrink h) (tidy d)
                                (val0 d) (val1 d) (has0 d) (has1 d) in
                  wf h' /\ dels h' = 0 /\ pop h' = pop h /\ N0 <= nent h' /\
                  (forall K, 2 <= K -> lookup h' K = lookup h K)).
  { intros d Hwd Hdd Hpd HNd Hlkd. cbn zeta.
    change (mkT (ents d) (mask d) (nent d) (pop d) (dels d) (grow d) (shrink h) (tidy d)
                (val0 d) (val1 d) (has0 d) (has1 d)) with (with_shrink d (shrink h)).
    split; [apply wf_with_shrink; exact Hwd|]. cbn [with_shrink dels pop nent].
    repeat split; try assumption.
    intros K HK. rewrite lookup_with_shrink, (Hlkd K HK), (lookup_afind h K Hwf HK). reflexivity. }
  assert (HN1 : N0 <= nent d1) by (cbn [d1 empty_tbl nent]; lia).
  destruct (0 <? pop h) eqn:E0.
  - apply N.ltb_lt in E0.
    pose proof (rehash_loop_ok (ents h) (ents h) [] d1 0 eq_refl
                  (fun a0 x b He Hx => nodup_ents h a0 x b Hwf He Hx) ltac:(lia) Hwd1 eq_refl eq_refl eq_refl
                  HN1 (fun K HK => Hld1 K HK)) as Hloop.
    cbn zeta in Hloop. rewrite Hhp in Hloop. destruct Hloop as (Hw & Hd & Hpp & Hnn & Hlk).
    apply Hgoal; assumption.
  - apply N.ltb_ge in E0.
    apply Hgoal; try assumption; try reflexivity.
    + cbn [d1 empty_tbl pop]. lia.
    + intros K HK. rewrite (Hld1 K HK). symmetry. apply afind_nolive; [exact HK|lia].
Qed.

End REHASH.
(* ------------------------------------------------------------------ put, any fuel >= 1 *)
Lemma lookup_none_find : forall h K, lookup h K = None -> find_slot bs h K = None.
Proof. intros h K H. unfold lookup in H. destruct (find_slot bs h K); [discriminate|reflexivity]. Qed.

Lemma pow_le_inv : forall a b, 2 ^ a <= 2 ^ b -> a <= b.
Proof. intros a b H. apply (N.pow_le_mono_r_iff 2); [lia|exact H]. Qed.

Lemma put_after_rehash : forall fu h K v len, wf h -> 2 <= K -> find_slot bs h K = None -> 0 < len -> nent h <= len ->
  (forall d, wf d -> dels d = 0 -> pop d <= pop h -> len <= nent d -> pop d < grow d /\ pop d + dels d <= tidy d) ->
  put_ok h K v (put_f bs me fu (brehash_with bs me (put_f bs me fu) h len) K v).
Proof.
  intros fu h K v len Hwf HK Habs Hlen Hnl Hcond.
  assert (Hput : forall d K0 v0, wf d -> dels d = 0 -> pop d < pop h -> len <= nent d -> 2 <= K0 ->
                 find_slot bs d K0 = None -> put_ok d K0 v0 (put_f bs me fu d K0 v0)).
  { intros d K0 v0 Hwd Hd0 Hpd Hnd HK0 Habs0.
    apply put_direct; try assumption.
    - intros _. apply Hcond; try assumption. lia.
    - intros Hne. contradiction. }
  pose proof (brehash_ok (put_f bs me fu) (pop h) len Hput h Hwf Hlen eq_refl) as Hb. cbn zeta in Hb.
  set (h2 := brehash_with bs me (put_f bs me fu) h len) in *.
  destruct Hb as (Hw2 & Hd2 & Hp2 & Hn2 & Hl2).
  assert (Habs2 : find_slot bs h2 K = None).
  { apply lookup_none_find. rewrite (Hl2 K HK). unfold lookup. rewrite Habs. reflexivity. }
  assert (Hc2 : pop h2 < grow h2 /\ pop h2 + dels h2 <= tidy h2) by (apply Hcond; try assumption; lia).
  pose proof (put_direct fu h2 K v Hw2 HK Habs2 (fun _ => Hc2) (fun Hne => False_ind _ (Hne Hd2))) as Hr.
  destruct Hr as (Hr1 & Hwr & Hlr & Hor & Hpr & Hnr & Hdr).
  refine (conj Hr1 (conj Hwr (conj Hlr (conj _ (conj _ (conj _ _)))))).
  - intros K' HK' Hne. rewrite (Hor K' HK' Hne). apply Hl2. exact HK'.
  - lia.
  - lia.
  - intros _. apply Hdr. exact Hd2.
Qed.

Lemma put_top : forall fu h K v, wf h -> 2 <= K -> find_slot bs h K = None ->
  put_ok h K v (put_f bs me (S fu) h K v).
Proof.
  intros fu h K v Hwf HK Habs.
  destruct (probe_free h K Hwf HK Habs) as (f & Hp & Hf).
  rewrite put_f_unfold by exact HK. rewrite Hp.
  pose proof (wf_shape h Hwf) as Hs. destruct Hs as ((a & Ha & Hn) & Hm & Hl & Hg & Ht).
  pose proof (wf_load h Hwf) as Hld.
  pose proof (ins_ok h K v f Hwf HK Habs Hf) as Hins. unfold ins in Hins.
  assert (Hpos : 0 < nent h) by (rewrite Hn; apply N.neq_0_lt_0, N.pow_nonzero; lia).
  assert (Hdshape : forall d, wf d -> exists a', lm <= a' /\ nent d = 2 ^ a' /\ grow d = grow_of (2 ^ a') /\ tidy d = tidy_of (2 ^ a')).
  { intros d Hwd. destruct (wf_shape d Hwd) as ((a' & Ha' & Hn') & _ & _ & Hg' & Ht').
    exists a'. rewrite Hg', Ht', Hn'. repeat split; assumption. }
  destruct (key_at (ents h) f =? 0) eqn:E0.
  - destruct (grow h <=? pop h) eqn:Eg.
    + apply put_after_rehash; try assumption; try lia.
      intros d Hwd Hd0 Hpd Hnd.
      destruct (Hdshape d Hwd) as (a' & Ha' & Hn' & Hg' & Ht').
      assert (Haa : a + 1 <= a').
      { apply pow_le_inv. rewrite N.pow_add_r. rewrite <- Hn, <- Hn'. cbn. lia. }
      pose proof (TH_tidy_grow2 a a' Ha Haa) as H1. pose proof (TH_grow_le_tidy a' Ha') as H2.
      rewrite Hg', Ht', Hd0. rewrite Ht, Hn in Hld. lia.
    + apply N.leb_gt in Eg.
      destruct (tidy h <? pop h + dels h) eqn:Et.
      * apply put_after_rehash; try assumption; try lia.
        intros d Hwd Hd0 Hpd Hnd.
        destruct (Hdshape d Hwd) as (a' & Ha' & Hn' & Hg' & Ht').
        assert (Haa : a <= a') by (apply pow_le_inv; rewrite <- Hn, <- Hn'; exact Hnd).
        destruct (TH_mono a a' Ha Haa) as [H1 _]. pose proof (TH_grow_le_tidy a' Ha') as H2.
        rewrite Hg', Ht', Hd0. rewrite Hg, Hn in Eg. lia.
      * apply N.ltb_ge in Et. apply Hins. intros _. exact Et.
  - apply Hins. intros H0. apply N.eqb_neq in E0. contradiction.
Qed.

Lemma put_ok_top : forall h K v, wf h -> 2 <= K -> find_slot bs h K = None -> put_ok h K v (put bs me h K v).
Proof. intros. unfold put, put_fuel. apply put_top; assumption. Qed.

(* the rehash step itself leaves the abstraction unchanged *)
Lemma brehash_abs : forall h len, wf h -> 0 < len ->
  wf (brehash bs me h len) /\ dels (brehash bs me h len) = 0 /\ pop (brehash bs me h len) = pop h /\
  len <= nent (brehash bs me h len) /\ (forall K, 2 <= K -> lookup (brehash bs me h len) K = lookup h K).
Proof.
  intros h len Hwf Hlen. unfold brehash.
  apply (brehash_ok (put bs me) (pop h) len); try assumption; try reflexivity.
  intros d K v Hwd _ _ _ HK Habs. apply put_ok_top; assumption.
Qed.

(* ------------------------------------------------------------------ remove *)
Definition remove_post (h : tbl) (K : N) (r : N * tbl) : Prop :=
  wf (snd r) /\ lookup (snd r) K = None /\
  (forall K', 2 <= K' -> K' <> K -> lookup (snd r) K' = lookup h K') /\
  match lookup h K with
  | Some _ => fst r = 1 /\ pop (snd r) + 1 = pop h
  | None => fst r = 0 /\ pop (snd r) = pop h
  end.

Lemma remove_ok : forall h K, wf h -> 2 <= K -> remove_post h K (remove bs me h K).
Proof.
  intros h K Hwf HK. unfold remove.
  assert (E0 : (K =? 0) = false) by (apply N.eqb_neq; lia).
  assert (E1 : (K =? 1) = false) by (apply N.eqb_neq; lia).
  rewrite E0, E1. unfold remove_post.
  destruct (find_slot bs h K) as [i|] eqn:Ei.
  - assert (Hlh : lookup h K = Some (val_at (ents h) i)) by (unfold lookup; rewrite Ei; reflexivity).
    rewrite Hlh.
    change (set_ents h (upd (ents h) (N.to_nat i) (1, val_at (ents h) i)) (pop h - 1) (dels h + 1)) with (mark h i).
    destruct (mark_ok h K i Hwf HK Ei) as (Hw1 & Hl1 & Ho1 & Hp1 & Hn1).
    set (h1 := mark h i) in *.
    destruct (wf_shape h1 Hw1) as ((a & Ha & Hn) & _).
    assert (H8 : 8 <= nent h1).
    { rewrite Hn. eapply N.le_trans; [exact TH_me|]. apply N.pow_le_mono_r; [lia|exact Ha]. }
    assert (Hfin : forall len, 0 < len ->
              wf (brehash bs me h1 len) /\ lookup (brehash bs me h1 len) K = None /\
              (forall K', 2 <= K' -> K' <> K -> lookup (brehash bs me h1 len) K' = lookup h K') /\
              1 = 1 /\ pop (brehash bs me h1 len) + 1 = pop h).
    { intros len Hlen. destruct (brehash_abs h1 len Hw1 Hlen) as (Hw & _ & Hp & _ & Hl).
      refine (conj Hw (conj _ (conj _ (conj eq_refl _)))).
      - rewrite (Hl K HK). exact Hl1.
      - intros K' HK' Hne. rewrite (Hl K' HK'). apply Ho1; assumption.
      - lia. }
    destruct (tidy h1 <=? pop h1 + dels h1).
    + cbn [fst snd]. apply Hfin. lia.
    + destruct (pop h1 <? shrink h1).
      * cbn [fst snd]. apply Hfin. apply N.div_str_pos. lia.
      * cbn [fst snd]. refine (conj Hw1 (conj Hl1 (conj Ho1 (conj eq_refl Hp1)))).
  - assert (Hlh : lookup h K = None) by (unfold lookup; rewrite Ei; reflexivity).
    rewrite Hlh. cbn [fst snd].
    refine (conj Hwf (conj Hlh (conj (fun _ _ _ => eq_refl) (conj eq_refl eq_refl)))).
Qed.

(* ------------------------------------------------------------------ refinement of a finite map, any operation sequence *)
Definition smap := N -> option N.
Definition sput (m : smap) (k v : N) : smap := fun x => if x =? k then Some v else m x.
Definition sdel (m : smap) (k : N) : smap := fun x => if x =? k then None else m x.

(* the specification: a finite map with its cardinality *)
Definition spec_step (m : smap) (c : N) (o : op) : N * (smap * N) :=
  match o with
  | OPut k v => (1, (sput m k v, c + 1))
  | OGet k => (match m k with Some v => v | None => 0 end, (m, c))
  | ORemove k => match m k with Some _ => (1, (sdel m k, c - 1)) | None => (0, (m, c)) end
  | OCount => (c, (m, c))
  end.

Fixpoint spec_run (m : smap) (c : N) (os : list op) : list N :=
  match os with
  | [] => []
  | o :: os' => let '(r, (m', c')) := spec_step m c o in r :: spec_run m' c' os'
  end.

(* the contract of the callers (feb.c, syncvar.c): regular keys only, a key is inserted only when it is absent *)
Definition op_guard (m : smap) (o : op) : Prop :=
  match o with
  | OPut k _ => 2 <= k /\ m k = None
  | OGet k => 2 <= k
  | ORemove k => 2 <= k
  | OCount => True
  end.

Fixpoint guarded (m : smap) (os : list op) : Prop :=
  match os with
  | [] => True
  | o :: os' => op_guard m o /\ guarded (fst (snd (spec_step m 0 o))) os'
  end.

Definition Rel (h : tbl) (m : smap) (c : N) : Prop :=
  wf h /\ (forall K, 2 <= K -> lookup h K = m K) /\ pop h = c.

Lemma spec_step_map_indep : forall m c c' o, fst (snd (spec_step m c o)) = fst (snd (spec_step m c' o)).
Proof. intros m c c' [k v|k|k|]; cbn; try reflexivity. destruct (m k); reflexivity. Qed.

Lemma step_refines : forall h m c o, Rel h m c -> op_guard m o ->
  fst (step bs me h o) = fst (spec_step m c o) /\
  Rel (snd (step bs me h o)) (fst (snd (spec_step m c o))) (snd (snd (spec_step m c o))).
Proof.
  intros h m c o (Hwf & Hlk & Hpc) Hg. destruct o as [k v|k|k|]; cbn [step spec_step op_guard fst snd] in *.
  - destruct Hg as [Hk Hnone].
    assert (Habs : find_slot bs h k = None) by (apply lookup_none_find; rewrite (Hlk k Hk); exact Hnone).
    destruct (put_ok_top h k v Hwf Hk Habs) as (Hr & Hw & Hl & Ho & Hp & _ & _).
    split; [exact Hr|]. refine (conj Hw (conj _ _)); [|lia].
    intros K HK. unfold sput. destruct (K =? k) eqn:E.
    + apply N.eqb_eq in E. subst K. exact Hl.
    + apply N.eqb_neq in E. rewrite (Ho K HK E). apply Hlk; exact HK.
  - split; [|refine (conj Hwf (conj Hlk Hpc))].
    unfold get.
    assert (E0 : (k =? 0) = false) by (apply N.eqb_neq; lia).
    assert (E1 : (k =? 1) = false) by (apply N.eqb_neq; lia).
    rewrite E0, E1. rewrite <- (Hlk k Hg). unfold lookup. destruct (find_slot bs h k); reflexivity.
  - destruct (remove_ok h k Hwf Hg) as (Hw & Hl & Ho & Hc). rewrite (Hlk k Hg) in Hc.
    destruct (m k) as [w|] eqn:Em; cbn [fst snd]; destruct Hc as [Hr Hp].
    + split; [exact Hr|]. refine (conj Hw (conj _ _)); [|lia].
      intros K HK. unfold sdel. destruct (K =? k) eqn:E.
      * apply N.eqb_eq in E. subst K. exact Hl.
      * apply N.eqb_neq in E. rewrite (Ho K HK E). apply Hlk; exact HK.
    + split; [exact Hr|]. refine (conj Hw (conj _ _)); [|lia].
      intros K HK. destruct (N.eq_dec K k) as [->|E].
      * rewrite Hl, Em. reflexivity.
      * rewrite (Ho K HK E). apply Hlk; exact HK.
  - split; [|refine (conj Hwf (conj Hlk Hpc))].
    unfold count. destruct (wf_has h Hwf) as [H0 H1]. rewrite H0, H1. cbn [b2n]. lia.
Qed.

Theorem run_refines : forall os h m c, Rel h m c -> guarded m os ->
  fst (run bs me h os) = spec_run m c os /\ wf (snd (run bs me h os)).
Proof.
  induction os as [|o os IH]; intros h m c HR Hg.
  - cbn. split; [reflexivity|exact (proj1 HR)].
  - destruct Hg as [Hg1 Hg2].
    destruct (step_refines h m c o HR Hg1) as [Hr HR'].
    cbn [run spec_run].
    destruct (step bs me h o) as [r h'] eqn:Es.
    destruct (spec_step m c o) as [r' [m' c']] eqn:Ep.
    cbn [fst snd] in Hr, HR'.
    rewrite (spec_step_map_indep m 0 c o), Ep in Hg2. cbn [fst snd] in Hg2.
    destruct (IH h' m' c' HR' Hg2) as [IH1 IH2].
    destruct (run bs me h' os) as [rs h''] eqn:Er. cbn [fst snd] in *.
    split; [congruence|exact IH2].
Qed.

Lemma create_rel : Rel (create bs me) (fun _ => None) 0.
Proof.
  unfold create. destruct (CS 100 ltac:(lia)) as (a & Ha & _ & Hc). rewrite Hc.
  destruct (wf_empty a Ha) as [Hw Hl]. refine (conj Hw (conj Hl eq_refl)).
Qed.

End INV.
