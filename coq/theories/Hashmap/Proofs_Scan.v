(* Structural facts about the probing code of Hashmap.Model: the nested loops of qt_hash_internal_find and
   qt_hash_put_locked are scans of one flat list of slot indices (which depends on mask / num_entries / hash only),
   and how such a scan reacts to the update of one slot. *)
From Coq Require Import NArith PeanoNat List Bool Lia.
From QV Require Import Hashmap.Model.
Import ListNotations.
Local Open Scope N_scope.

Fixpoint bucket_list (fuel : nat) (msk step quit bucket : N) : list N :=
  match fuel with
  | O => []
  | S f => let b := N.land (bucket + step) msk in
           b :: (if b =? quit then [] else bucket_list f msk step quit b)
  end.

Fixpoint first_some {A : Type} (visit : N -> option A) (l : list N) : option A :=
  match l with
  | [] => None
  | b :: l' => match visit b with Some r => Some r | None => first_some visit l' end
  end.

Lemma walk_list : forall (A : Type) fuel (visit : N -> option A) msk step quit b,
  walk fuel visit msk step quit b = first_some visit (bucket_list fuel msk step quit b).
Proof.
  induction fuel as [|f IH]; intros visit msk step quit b; cbn [walk bucket_list first_some]; [reflexivity|].
  destruct (visit (N.land (b + step) msk)) as [r|]; [reflexivity|].
  destruct (N.land (b + step) msk =? quit); [reflexivity|apply IH].
Qed.

(* the slots of one bucket, in scan order *)
Fixpoint bslots (b : N) (cnt : nat) (i : N) : list N :=
  match cnt with O => [] | S c => (b + i) :: bslots b c (i + 1) end.

(* flat scans *)
Fixpoint sfind (e : list (N * N)) (key : N) (sl : list N) : fres :=
  match sl with
  | [] => FCont
  | s :: sl' => let zk := key_at e s in
                if zk =? key then FFound s else if zk =? 0 then FNull else sfind e key sl'
  end.

Fixpoint sfree (e : list (N * N)) (sl : list N) : option N :=
  match sl with
  | [] => None
  | s :: sl' => if key_at e s <=? 1 then Some s else sfree e sl'
  end.

Lemma scan_find_sfind : forall e key b cnt i, scan_find e key b cnt i = sfind e key (bslots b cnt i).
Proof.
  induction cnt as [|c IH]; intros i; cbn [scan_find bslots sfind]; [reflexivity|].
  destruct (key_at e (b + i) =? key); [reflexivity|].
  destruct (key_at e (b + i) =? 0); [reflexivity|apply IH].
Qed.

Lemma sfind_app : forall e key l1 l2,
  sfind e key (l1 ++ l2) = match sfind e key l1 with FCont => sfind e key l2 | r => r end.
Proof.
  induction l1 as [|s l1 IH]; intros l2; cbn [app sfind]; [reflexivity|].
  destruct (key_at e s =? key); [reflexivity|].
  destruct (key_at e s =? 0); [reflexivity|apply IH].
Qed.

Lemma sfree_app : forall e l1 l2,
  sfree e (l1 ++ l2) = match sfree e l1 with Some f => Some f | None => sfree e l2 end.
Proof.
  induction l1 as [|s l1 IH]; intros l2; cbn [app sfree]; [reflexivity|].
  destruct (key_at e s <=? 1); [reflexivity|apply IH].
Qed.

Section SCAN.
Variable bs : N.

Definition slots_of (L : list N) : list N := flat_map (fun b => bslots b (nbs bs) 0) L.

Definition blist (h : tbl) (key : N) : list N :=
  let b0 := N.land (qt_hash64 key) (mask h) in
  b0 :: bucket_list (walk_fuel h) (mask h) (step_of bs (qt_hash64 key) (mask h)) b0 b0.

Definition slots (h : tbl) (key : N) : list N := slots_of (blist h key).

Definition fvisit (e : list (N * N)) (key b : N) : option (option N) :=
  match scan_find e key b (nbs bs) 0 with
  | FFound i => Some (Some i) | FNull => Some None | FCont => None end.

Lemma first_some_fvisit : forall e key L,
  first_some (fvisit e key) L =
  match sfind e key (slots_of L) with FFound i => Some (Some i) | FNull => Some None | FCont => None end.
Proof.
  induction L as [|b L IH]; cbn [first_some slots_of flat_map]; [reflexivity|].
  rewrite sfind_app. unfold fvisit at 1. rewrite scan_find_sfind.
  destruct (sfind e key (bslots b (nbs bs) 0)); try reflexivity. exact IH.
Qed.

Lemma find_slot_flat : forall h key,
  find_slot bs h key = match sfind (ents h) key (slots h key) with FFound i => Some i | _ => None end.
Proof.
  intros h key. unfold find_slot, slots, blist, slots_of. cbn [flat_map].
  rewrite sfind_app, scan_find_sfind.
  destruct (sfind (ents h) key (bslots (N.land (qt_hash64 key) (mask h)) (nbs bs) 0)); try reflexivity.
  rewrite walk_list.
  change (fun b : N => match scan_find (ents h) key b (nbs bs) 0 with
                       | FFound i => Some (Some i) | FNull => Some None | FCont => None end)
    with (fvisit (ents h) key).
  rewrite first_some_fvisit. unfold slots_of.
  destruct (sfind (ents h) key _); reflexivity.
Qed.

(* the put scan of one bucket when the key is nowhere in it *)
Lemma scan_put_nomatch_some : forall e key b cnt i x,
  (forall s, In s (bslots b cnt i) -> key_at e s <> key) ->
  scan_put e key b cnt i (Some x) = BDone (Some x).
Proof.
  induction cnt as [|c IH]; intros i x Hno; cbn [scan_put]; [reflexivity|].
  assert (Hk : key_at e (b + i) <> key) by (apply Hno; cbn [bslots]; left; reflexivity).
  apply N.eqb_neq in Hk. rewrite Hk.
  destruct (key_at e (b + i) =? 1).
  - apply IH. intros s Hs. apply Hno. cbn [bslots]. right; exact Hs.
  - destruct (key_at e (b + i) =? 0); [reflexivity|].
    apply IH. intros s Hs. apply Hno. cbn [bslots]. right; exact Hs.
Qed.

Lemma scan_put_nomatch : forall e key b cnt i,
  (forall s, In s (bslots b cnt i) -> key_at e s <> key) ->
  scan_put e key b cnt i None = BDone (sfree e (bslots b cnt i)).
Proof.
  induction cnt as [|c IH]; intros i Hno; cbn [scan_put bslots sfree]; [reflexivity|].
  assert (Hk : key_at e (b + i) <> key) by (apply Hno; cbn [bslots]; left; reflexivity).
  apply N.eqb_neq in Hk. rewrite Hk.
  assert (Hrest : forall s, In s (bslots b c (i + 1)) -> key_at e s <> key)
    by (intros s Hs; apply Hno; cbn [bslots]; right; exact Hs).
  destruct (key_at e (b + i) =? 1) eqn:E1.
  - apply N.eqb_eq in E1. rewrite E1. cbn. apply scan_put_nomatch_some; exact Hrest.
  - destruct (key_at e (b + i) =? 0) eqn:E0.
    + apply N.eqb_eq in E0. rewrite E0. reflexivity.
    + apply N.eqb_neq in E0, E1.
      assert (Hle : (key_at e (b + i) <=? 1) = false) by (apply N.leb_gt; lia).
      rewrite Hle. apply IH; exact Hrest.
Qed.

Definition pvisit (e : list (N * N)) (key b : N) : option pres :=
  match scan_put e key b (nbs bs) 0 None with
  | BMatch i => Some (PRepl i) | BDone (Some f) => Some (PFree f) | BDone None => None end.

Lemma first_some_pvisit : forall e key L,
  (forall s, In s (slots_of L) -> key_at e s <> key) ->
  first_some (pvisit e key) L = match sfree e (slots_of L) with Some f => Some (PFree f) | None => None end.
Proof.
  induction L as [|b L IH]; intros Hno; cbn [first_some slots_of flat_map]; [reflexivity|].
  rewrite sfree_app. unfold pvisit at 1.
  rewrite scan_put_nomatch
    by (intros s Hs; apply Hno; cbn [slots_of flat_map]; apply in_or_app; left; exact Hs).
  destruct (sfree e (bslots b (nbs bs) 0)); [reflexivity|].
  apply IH. intros s Hs. apply Hno. cbn [slots_of flat_map]. apply in_or_app; right; exact Hs.
Qed.

Lemma put_probe_absent : forall h key,
  (forall s, In s (slots h key) -> key_at (ents h) s <> key) ->
  put_probe bs h key = match sfree (ents h) (slots h key) with Some f => PFree f | None => PNoFree end.
Proof.
  intros h key Hno. unfold put_probe.
  assert (H0 : forall s, In s (bslots (N.land (qt_hash64 key) (mask h)) (nbs bs) 0) -> key_at (ents h) s <> key).
  { intros s Hs. apply Hno. unfold slots, blist, slots_of. cbn [flat_map]. apply in_or_app; left; exact Hs. }
  rewrite (scan_put_nomatch _ _ _ _ _ H0).
  unfold slots, blist, slots_of. cbn [flat_map]. rewrite sfree_app.
  destruct (sfree (ents h) (bslots (N.land (qt_hash64 key) (mask h)) (nbs bs) 0)); [reflexivity|].
  rewrite walk_list.
  change (fun b : N => match scan_put (ents h) key b (nbs bs) 0 None with
                       | BMatch i => Some (PRepl i) | BDone (Some f) => Some (PFree f) | BDone None => None end)
    with (pvisit (ents h) key).
  rewrite first_some_pvisit.
  - unfold slots_of. destruct (sfree (ents h) _); reflexivity.
  - intros s Hs. apply Hno. unfold slots, blist, slots_of. cbn [flat_map]. apply in_or_app; right; exact Hs.
Qed.

End SCAN.

(* ------------------------------------------------------------------ entry lists under a one-slot update *)
Lemma upd_length : forall l i x, length (upd l i x) = length l.
Proof. induction l as [|h t IH]; intros [|i] x; cbn; auto. Qed.

Lemma nth_upd_same : forall l i x d, (i < length l)%nat -> nth i (upd l i x) d = x.
Proof. induction l as [|h t IH]; intros [|i] x d H; cbn in *; try lia; auto. apply IH; lia. Qed.

Lemma nth_upd_other : forall l i j x d, i <> j -> nth j (upd l i x) d = nth j l d.
Proof. induction l as [|h t IH]; intros [|i] [|j] x d H; cbn; auto; try congruence. Qed.

Lemma key_at_upd_same : forall e f x, f < N.of_nat (length e) -> key_at (upd e (N.to_nat f) x) f = fst x.
Proof. intros. unfold key_at. rewrite nth_upd_same by lia. reflexivity. Qed.

Lemma key_at_upd_other : forall e f s x, s <> f -> key_at (upd e (N.to_nat f) x) s = key_at e s.
Proof. intros. unfold key_at. rewrite nth_upd_other by lia. reflexivity. Qed.

Lemma val_at_upd_same : forall e f x, f < N.of_nat (length e) -> val_at (upd e (N.to_nat f) x) f = snd x.
Proof. intros. unfold val_at. rewrite nth_upd_same by lia. reflexivity. Qed.

Lemma val_at_upd_other : forall e f s x, s <> f -> val_at (upd e (N.to_nat f) x) s = val_at e s.
Proof. intros. unfold val_at. rewrite nth_upd_other by lia. reflexivity. Qed.

(* sfind: soundness *)
Lemma sfind_found : forall e key sl i, sfind e key sl = FFound i -> In i sl /\ key_at e i = key.
Proof.
  induction sl as [|s sl IH]; intros i H; cbn [sfind] in H; [discriminate|].
  destruct (key_at e s =? key) eqn:E.
  - inversion H; subst. split; [left; reflexivity|apply N.eqb_eq; exact E].
  - destruct (key_at e s =? 0); [discriminate|]. destruct (IH _ H) as [Hin Hk]. split; [right; exact Hin|exact Hk].
Qed.

(* sfree: the first slot that holds no live key *)
Lemma sfree_some : forall e sl f, sfree e sl = Some f -> In f sl /\ key_at e f <= 1.
Proof.
  induction sl as [|s sl IH]; intros f H; cbn [sfree] in H; [discriminate|].
  destruct (key_at e s <=? 1) eqn:E.
  - inversion H; subst. split; [left; reflexivity|apply N.leb_le; exact E].
  - destruct (IH _ H). split; [right|]; assumption.
Qed.

Lemma sfree_none : forall e sl, sfree e sl = None -> forall s, In s sl -> 1 < key_at e s.
Proof.
  induction sl as [|s0 sl IH]; intros H s Hin; cbn [sfree] in H; [destruct Hin|].
  destruct (key_at e s0 <=? 1) eqn:E; [discriminate|]. apply N.leb_gt in E.
  destruct Hin as [->|Hin]; [exact E|apply IH; assumption].
Qed.

(* F4: the inserted key is found at the slot the put chose *)
Lemma sfind_inserted : forall e key v sl f,
  2 <= key -> sfree e sl = Some f -> (forall s, In s sl -> key_at e s <> key) -> f < N.of_nat (length e) ->
  sfind (upd e (N.to_nat f) (key, v)) key sl = FFound f.
Proof.
  induction sl as [|s sl IH]; intros f Hk Hf Hno Hlen; cbn [sfree] in Hf; [discriminate|].
  cbn [sfind]. destruct (key_at e s <=? 1) eqn:E.
  - inversion Hf; subst. rewrite key_at_upd_same by exact Hlen. cbn [fst]. rewrite N.eqb_refl. reflexivity.
  - apply N.leb_gt in E.
    assert (Hne : s <> f).
    { intros ->. apply sfree_some in Hf. lia. }
    rewrite key_at_upd_other by exact Hne.
    assert (Hs : key_at e s <> key) by (apply Hno; left; reflexivity).
    apply N.eqb_neq in Hs. rewrite Hs.
    assert (H0 : (key_at e s =? 0) = false) by (apply N.eqb_neq; lia). rewrite H0.
    apply IH; try assumption. intros s' Hs'. apply Hno. right; exact Hs'.
Qed.

(* F5: filling a slot that held no live key does not disturb a successful search for another (live) key *)
Lemma sfind_fill_other : forall e key v K' sl f j,
  2 <= key -> 2 <= K' -> key <> K' -> key_at e f <= 1 ->
  sfind e K' sl = FFound j -> sfind (upd e (N.to_nat f) (key, v)) K' sl = FFound j.
Proof.
  induction sl as [|s sl IH]; intros f j Hk HK Hne Hf H; cbn [sfind] in *; [discriminate|].
  destruct (N.eq_dec s f) as [->|Hsf].
  - assert (E1 : (key_at e f =? K') = false) by (apply N.eqb_neq; lia).
    rewrite E1 in H.
    destruct (key_at e f =? 0) eqn:E0; [discriminate|].
    destruct (N.lt_ge_cases f (N.of_nat (length e))) as [Hl|Hl].
    + rewrite key_at_upd_same by exact Hl. cbn [fst].
      assert (E2 : (key =? K') = false) by (apply N.eqb_neq; exact Hne). rewrite E2.
      assert (E3 : (key =? 0) = false) by (apply N.eqb_neq; lia). rewrite E3.
      apply IH; assumption.
    + (* out of range: the entry list does not change, but then key_at e f = 0 *)
      exfalso. apply N.eqb_neq in E0. apply E0. unfold key_at. rewrite nth_overflow by lia. reflexivity.
  - rewrite key_at_upd_other by exact Hsf.
    destruct (key_at e s =? K'); [exact H|].
    destruct (key_at e s =? 0); [exact H|]. apply IH; assumption.
Qed.

(* F6: marking the slot of a live key K as deleted does not change any search for another live key *)
Lemma sfind_mark_other : forall e v K' sl i,
  2 <= K' -> 1 < key_at e i -> key_at e i <> K' -> i < N.of_nat (length e) ->
  sfind (upd e (N.to_nat i) (1, v)) K' sl = sfind e K' sl.
Proof.
  induction sl as [|s sl IH]; intros i HK Hlive Hne Hl; cbn [sfind]; [reflexivity|].
  destruct (N.eq_dec s i) as [->|Hsi].
  - rewrite key_at_upd_same by exact Hl. cbn [fst].
    assert (E1 : (1 =? K') = false) by (apply N.eqb_neq; lia). rewrite E1. cbn.
    assert (E2 : (key_at e i =? K') = false) by (apply N.eqb_neq; exact Hne). rewrite E2.
    assert (E3 : (key_at e i =? 0) = false) by (apply N.eqb_neq; lia). rewrite E3.
    apply IH; assumption.
  - rewrite key_at_upd_other by exact Hsi.
    destruct (key_at e s =? K'); [reflexivity|].
    destruct (key_at e s =? 0); [reflexivity|]. apply IH; assumption.
Qed.

(* counting live and deleted slots *)
Definition nlive (e : list (N * N)) : N := N.of_nat (length (filter (fun x => 1 <? fst x) e)).
Definition ndel (e : list (N * N)) : N := N.of_nat (length (filter (fun x => fst x =? 1) e)).

Lemma upd_split : forall (l : list (N * N)) i x, (i < length l)%nat ->
  exists l1 y l2, l = l1 ++ y :: l2 /\ upd l i x = l1 ++ x :: l2 /\ length l1 = i /\ nth i l (0, 0) = y.
Proof.
  induction l as [|h t IH]; intros [|i] x H; cbn in H; try lia.
  - exists [], h, t. repeat split.
  - destruct (IH i x ltac:(lia)) as (l1 & y & l2 & E1 & E2 & E3 & E4).
    exists (h :: l1), y, l2. cbn. rewrite E1 at 1. rewrite E2. repeat split; auto.
Qed.

Lemma nlive_app : forall a b, nlive (a ++ b) = nlive a + nlive b.
Proof. intros. unfold nlive. rewrite filter_app, app_length. lia. Qed.
Lemma ndel_app : forall a b, ndel (a ++ b) = ndel a + ndel b.
Proof. intros. unfold ndel. rewrite filter_app, app_length. lia. Qed.
Lemma nlive_cons : forall x l, nlive (x :: l) = (if 1 <? fst x then 1 else 0) + nlive l.
Proof. intros. unfold nlive. cbn [filter]. destruct (1 <? fst x); cbn [length]; lia. Qed.
Lemma ndel_cons : forall x l, ndel (x :: l) = (if fst x =? 1 then 1 else 0) + ndel l.
Proof. intros. unfold ndel. cbn [filter]. destruct (fst x =? 1); cbn [length]; lia. Qed.

Lemma counts_upd : forall e f x, f < N.of_nat (length e) ->
  nlive (upd e (N.to_nat f) x) + (if 1 <? key_at e f then 1 else 0) = nlive e + (if 1 <? fst x then 1 else 0) /\
  ndel (upd e (N.to_nat f) x) + (if key_at e f =? 1 then 1 else 0) = ndel e + (if fst x =? 1 then 1 else 0).
Proof.
  intros e f x Hf.
  destruct (upd_split e (N.to_nat f) x ltac:(lia)) as (l1 & y & l2 & E1 & E2 & E3 & E4).
  unfold key_at. rewrite E4, E2.
  assert (HL : nlive e = nlive (l1 ++ y :: l2)) by (rewrite <- E1; reflexivity).
  assert (HD : ndel e = ndel (l1 ++ y :: l2)) by (rewrite <- E1; reflexivity).
  rewrite HL, HD, !nlive_app, !ndel_app, !nlive_cons, !ndel_cons. split; lia.
Qed.

Lemma nlive_repeat : forall n, nlive (repeat (0, 0) n) = 0 /\ ndel (repeat (0, 0) n) = 0.
Proof. induction n as [|n [IH1 IH2]]; cbn [repeat]; [split; reflexivity|]. rewrite nlive_cons, ndel_cons. cbn. split; lia. Qed.

Lemma key_at_repeat : forall n i, key_at (repeat (0, 0) n) i = 0.
Proof.
  intros. unfold key_at. destruct (Nat.lt_ge_cases (N.to_nat i) n) as [H|H].
  - rewrite nth_repeat. reflexivity.
  - rewrite nth_overflow; [reflexivity|]. rewrite repeat_length. exact H.
Qed.

Lemma nlive_pos : forall e i, 1 < key_at e i -> 1 <= nlive e.
Proof.
  intros e i H. unfold key_at in H.
  destruct (Nat.lt_ge_cases (N.to_nat i) (length e)) as [Hl|Hl].
  - destruct (upd_split e (N.to_nat i) (0, 0) Hl) as (l1 & y & l2 & E1 & _ & _ & E4).
    rewrite E4 in H. rewrite E1, nlive_app, nlive_cons.
    assert (Hy : (1 <? fst y) = true) by (apply N.ltb_lt; exact H). rewrite Hy. lia.
  - rewrite nth_overflow in H by exact Hl. cbn in H. lia.
Qed.

Lemma ndel_zero : forall e i, ndel e = 0 -> key_at e i <> 1.
Proof.
  intros e i H Hk. unfold key_at in Hk.
  destruct (Nat.lt_ge_cases (N.to_nat i) (length e)) as [Hl|Hl].
  - destruct (upd_split e (N.to_nat i) (0, 0) Hl) as (l1 & y & l2 & E1 & _ & _ & E4).
    rewrite E4 in Hk. rewrite E1, ndel_app, ndel_cons in H.
    assert (Hy : (fst y =? 1) = true) by (apply N.eqb_eq; exact Hk). rewrite Hy in H. lia.
  - rewrite nth_overflow in Hk by exact Hl. cbn in Hk. lia.
Qed.

(* association view of an entry list (regular keys only meet live entries) *)
Fixpoint afind (K : N) (l : list (N * N)) : option N :=
  match l with
  | [] => None
  | (k, v) :: l' => if k =? K then Some v else afind K l'
  end.

Lemma afind_app : forall K a b, afind K (a ++ b) = match afind K a with Some v => Some v | None => afind K b end.
Proof. induction a as [|[k v] a IH]; intros b; cbn [app afind]; [reflexivity|]. destruct (k =? K); [reflexivity|apply IH]. Qed.

Lemma afind_nolive : forall K l, 2 <= K -> nlive l = 0 -> afind K l = None.
Proof.
  induction l as [|[k v] l IH]; intros HK H; cbn [afind]; [reflexivity|].
  rewrite nlive_cons in H. cbn [fst] in H.
  destruct (1 <? k) eqn:E; [lia|]. apply N.ltb_ge in E.
  assert (E2 : (k =? K) = false) by (apply N.eqb_neq; lia). rewrite E2. apply IH; [exact HK|lia].
Qed.

Lemma afind_some_nth : forall K l v, afind K l = Some v ->
  exists q, (q < length l)%nat /\ nth q l (0, 0) = (K, v).
Proof.
  induction l as [|[k w] l IH]; intros v H; cbn [afind] in H; [discriminate|].
  destruct (k =? K) eqn:E.
  - apply N.eqb_eq in E. inversion H; subst. exists O. cbn. split; [lia|reflexivity].
  - destruct (IH _ H) as (q & Hq & Hn). exists (S q). cbn. split; [lia|exact Hn].
Qed.

Lemma afind_none_nth : forall K l, afind K l = None -> forall q, (q < length l)%nat -> fst (nth q l (0, 0)) <> K.
Proof.
  induction l as [|[k w] l IH]; intros H q Hq; cbn [afind] in H; cbn in Hq; [lia|].
  destruct (k =? K) eqn:E; [discriminate|]. apply N.eqb_neq in E.
  destruct q as [|q]; cbn; [exact E|apply IH; [exact H|lia]].
Qed.
