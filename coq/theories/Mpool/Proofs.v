(* C14: invariants of the mpool model over all histories (proofs). *)
From Coq Require Import List NArith Bool Lia ZifyBool ZifyN ZifyNat Permutation Arith.
From QV Require Import Mpool.Model.
Import ListNotations.
Local Open Scope N_scope.

(* ---------------------------------------------------------------- items, counting *)
Lemma item_eqb_eq a b : item_eqb a b = true <-> a = b.
Proof.
  destruct a as [a1 a2], b as [b1 b2]. unfold item_eqb. cbn [fst snd].
  rewrite andb_true_iff, !N.eqb_eq. split; [intros [-> ->]; reflexivity|intros H; injection H; auto].
Qed.
Lemma item_eqb_neq a b : item_eqb a b = false <-> a <> b.
Proof. rewrite <- item_eqb_eq. destruct (item_eqb a b); split; congruence. Qed.

Definition item_eq_dec (x y : item) : {x = y} + {x <> y}.
Proof. decide equality; apply N.eq_dec. Defined.

Notation cnt := (count_occ item_eq_dec).
Definition one (a y : item) : nat := if item_eq_dec a y then 1%nat else 0%nat.

Lemma cnt_cons a l y : cnt (a :: l) y = (one a y + cnt l y)%nat.
Proof. unfold one. cbn [count_occ]. destruct (item_eq_dec a y); reflexivity. Qed.
Lemma one_refl a : one a a = 1%nat.
Proof. unfold one. destruct (item_eq_dec a a); congruence. Qed.
Lemma one_neq a y : a <> y -> one a y = 0%nat.
Proof. unfold one. destruct (item_eq_dec a y); congruence. Qed.
Lemma one_le1 a y : (one a y <= 1)%nat.
Proof. unfold one. destruct (item_eq_dec a y); lia. Qed.
Lemma one_le_cnt x l y : In x l -> (one x y <= cnt l y)%nat.
Proof.
  intros H. unfold one. destruct (item_eq_dec x y) as [->|]; [|lia].
  apply (count_occ_In item_eq_dec) in H. lia.
Qed.
Lemma perm_cnt (a b : list item) : Permutation a b <-> forall y, cnt a y = cnt b y.
Proof. apply Permutation_count_occ. Qed.
Lemma nodup_cnt (l : list item) : NoDup l <-> forall y, (cnt l y <= 1)%nat.
Proof. apply NoDup_count_occ. Qed.
Lemma notin_cnt (l : list item) x : ~ In x l <-> cnt l x = 0%nat.
Proof. apply count_occ_not_In. Qed.

Lemma mem_In x l : mem x l = true <-> In x l.
Proof.
  induction l as [|y l IH]; cbn [mem In]; [split; [discriminate|tauto]|].
  rewrite orb_true_iff, IH, item_eqb_eq. split; intros [H|H]; auto.
Qed.
Lemma cnt_remove_one x l y : In x l -> cnt l y = (one x y + cnt (remove_one x l) y)%nat.
Proof.
  induction l as [|z l IH]; cbn [In remove_one]; [tauto|].
  intros H. destruct (item_eqb x z) eqn:E.
  - apply item_eqb_eq in E. subst z. apply cnt_cons.
  - apply item_eqb_neq in E. destruct H as [H|H]; [congruence|].
    rewrite !cnt_cons, IH by exact H. lia.
Qed.

(* ---------------------------------------------------------------- the items of a pool *)
Fixpoint nseq (lo : N) (n : nat) : list N :=
  match n with O => [] | S k => lo :: nseq (lo + 1) k end.
Definition slab_items (ipa s : N) : list item := map (fun i => (s, i)) (nseq 0 (N.to_nat ipa)).
Definition all_items (ipa ns : N) : list item := flat_map (slab_items ipa) (nseq 0 (N.to_nat ns)).
Definition items_of (l : list entry) : list item := map fst l.
Definition block_items (ipa : N) (c : cache) : list item :=
  match c_block c with
  | Some s => map (fun i => (s, i)) (nseq (c_i c) (N.to_nat (ipa - c_i c)))
  | None => []
  end.
Definition cache_items (ipa : N) (c : cache) : list item := items_of (c_list c) ++ block_items ipa c.
Definition all_cache_items (ipa : N) (l : list (N * cache)) : list item :=
  flat_map (fun e => cache_items ipa (snd e)) l.
(* every item that is free: shared batches, cache lists, not yet carved slab tails *)
Definition free_items (p : pool) : list item :=
  items_of (p_reuse p) ++ all_cache_items (p_ipa p) (p_caches p).

Lemma nseq_In lo n x : In x (nseq lo n) <-> lo <= x < lo + N.of_nat n.
Proof.
  revert lo. induction n as [|n IH]; intros lo; cbn [nseq In]; [lia|].
  rewrite IH. lia.
Qed.
Lemma nseq_NoDup lo n : NoDup (nseq lo n).
Proof.
  revert lo. induction n as [|n IH]; intros lo; cbn [nseq]; constructor; [|apply IH].
  rewrite nseq_In. lia.
Qed.
Lemma nseq_snoc lo n : nseq lo (S n) = nseq lo n ++ [lo + N.of_nat n].
Proof.
  revert lo. induction n as [|n IH]; intros lo.
  - cbn. f_equal. lia.
  - change (nseq lo (S (S n))) with (lo :: nseq (lo + 1) (S n)). rewrite IH. cbn [nseq app].
    do 2 f_equal. f_equal. lia.
Qed.
Lemma slab_items_In ipa s x : In x (slab_items ipa s) <-> fst x = s /\ snd x < ipa.
Proof.
  unfold slab_items. rewrite in_map_iff. split.
  - intros (i & <- & Hi). apply nseq_In in Hi. cbn. lia.
  - intros [<- H]. exists (snd x). split; [destruct x; reflexivity|]. apply nseq_In. lia.
Qed.
Lemma slab_items_NoDup ipa s : NoDup (slab_items ipa s).
Proof.
  unfold slab_items. apply FinFun.Injective_map_NoDup; [|apply nseq_NoDup].
  intros a b H. congruence.
Qed.
Lemma all_items_In ipa ns x : In x (all_items ipa ns) <-> fst x < ns /\ snd x < ipa.
Proof.
  unfold all_items. rewrite in_flat_map. split.
  - intros (s & Hs & Hx). apply nseq_In in Hs. apply slab_items_In in Hx. lia.
  - intros [H1 H2]. exists (fst x). split; [apply nseq_In; lia|apply slab_items_In; auto].
Qed.
Lemma all_items_NoDup ipa ns : NoDup (all_items ipa ns).
Proof.
  unfold all_items. generalize (N.to_nat ns) as n. generalize 0 as lo.
  intros lo n. revert lo. induction n as [|n IH]; intros lo; cbn [nseq flat_map]; [constructor|].
  apply nodup_cnt. intros y. rewrite count_occ_app.
  pose proof (proj1 (nodup_cnt _) (slab_items_NoDup ipa lo) y) as H1.
  pose proof (proj1 (nodup_cnt _) (IH (lo + 1)) y) as H2.
  destruct (Nat.eq_dec (cnt (slab_items ipa lo) y) 0) as [E|E]; [lia|].
  assert (Hin : In y (slab_items ipa lo)) by (apply (count_occ_In item_eq_dec); lia).
  apply slab_items_In in Hin.
  assert (Hn : ~ In y (flat_map (slab_items ipa) (nseq (lo + 1) n))).
  { rewrite in_flat_map. intros (s & Hs & Hy). apply nseq_In in Hs. apply slab_items_In in Hy. lia. }
  apply notin_cnt in Hn. lia.
Qed.
Lemma all_items_succ ipa ns y :
  cnt (all_items ipa (ns + 1)) y = (cnt (all_items ipa ns) y + cnt (slab_items ipa ns) y)%nat.
Proof.
  unfold all_items. replace (N.to_nat (ns + 1)) with (S (N.to_nat ns)) by lia.
  rewrite nseq_snoc, flat_map_app, count_occ_app. cbn [flat_map]. rewrite app_nil_r.
  replace (0 + N.of_nat (N.to_nat ns)) with ns by lia. reflexivity.
Qed.

(* ---------------------------------------------------------------- per-thread caches as an association list *)
Fixpoint others (ipa t : N) (l : list (N * cache)) : list item :=
  match l with
  | [] => []
  | (t', c) :: r => if t =? t' then all_cache_items ipa r else cache_items ipa c ++ others ipa t r
  end.
Lemma cnt_get ipa t l y :
  cnt (all_cache_items ipa l) y = (cnt (cache_items ipa (get_cache t l)) y + cnt (others ipa t l) y)%nat.
Proof.
  induction l as [|[t' c] r IH]; cbn [all_cache_items flat_map get_cache others snd]; [reflexivity|].
  destruct (t =? t'); rewrite !count_occ_app; fold (all_cache_items ipa r); [reflexivity|].
  rewrite IH. lia.
Qed.
Lemma cnt_set ipa t c l y :
  cnt (all_cache_items ipa (set_cache t c l)) y = (cnt (cache_items ipa c) y + cnt (others ipa t l) y)%nat.
Proof.
  induction l as [|[t' c'] r IH]; cbn [all_cache_items flat_map set_cache others snd].
  - rewrite app_nil_r. cbn. lia.
  - destruct (t =? t'); cbn [flat_map snd]; rewrite !count_occ_app; fold (all_cache_items ipa r);
      fold (all_cache_items ipa (set_cache t c r)); [reflexivity|].
    rewrite IH. lia.
Qed.
Lemma get_cache_P (P : cache -> Prop) t l :
  P empty_cache -> Forall (fun e => P (snd e)) l -> P (get_cache t l).
Proof.
  intros H0 H. induction H as [|[t' c] r Hc Hr IH]; cbn [get_cache]; [exact H0|].
  destruct (t =? t'); [exact Hc|exact IH].
Qed.
Lemma set_cache_P (P : cache -> Prop) t c l :
  P c -> Forall (fun e => P (snd e)) l -> Forall (fun e => P (snd e)) (set_cache t c l).
Proof.
  intros H0 H. induction H as [|[t' c'] r Hc Hr IH]; cbn [set_cache].
  - constructor; [exact H0|constructor].
  - destruct (t =? t'); constructor; auto.
Qed.
Lemma get_set_cache t t' c l :
  get_cache t' (set_cache t c l) = if t' =? t then c else get_cache t' l.
Proof.
  induction l as [|[t2 c2] r IH]; cbn [set_cache get_cache].
  - destruct (t' =? t); reflexivity.
  - destruct (t =? t2) eqn:E; cbn [get_cache].
    + apply N.eqb_eq in E. subst t2. destruct (t' =? t); reflexivity.
    + destruct (t' =? t2) eqn:E2.
      * apply N.eqb_eq in E2. subst t2. rewrite N.eqb_sym, E. reflexivity.
      * exact IH.
Qed.

(* ---------------------------------------------------------------- shape of the intrusive lists *)
(* a batch: every block_tail field names the last item, whose own field names itself *)
Inductive seg : list entry -> Prop :=
| seg_intro pre x : Forall (fun e => snd e = x) pre -> seg (pre ++ [(x, x)]).
Definition segn (l : list entry) : Prop := l = [] \/ seg l.
Definition cache_shape (ipa : nat) (l : list entry) : Prop :=
  (segn l /\ (length l <= ipa)%nat) \/
  (exists l1 l2, l = l1 ++ l2 /\ seg l1 /\ seg l2 /\ length l2 = ipa /\ (length l1 < ipa)%nat).
Inductive batches (ipa : nat) : list entry -> Prop :=
| b_nil : batches ipa []
| b_cons b r : seg b -> length b = ipa -> batches ipa r -> batches ipa (b ++ r).
Definition cache_ok (ipa : N) (c : cache) : Prop :=
  c_count c = N.of_nat (length (c_list c)) /\
  cache_shape (N.to_nat ipa) (c_list c) /\
  match c_block c with Some _ => 1 <= c_i c < ipa | None => True end.

Record Inv (p : pool) (L : list item) : Prop := mkInv {
  inv_ipa : 2 <= p_ipa p;
  inv_reuse : batches (N.to_nat (p_ipa p)) (p_reuse p);
  inv_caches : Forall (fun e => cache_ok (p_ipa p) (snd e)) (p_caches p);
  inv_part : Permutation (free_items p ++ L) (all_items (p_ipa p) (p_nslabs p))
}.

Definition hd_bt (l : list entry) (d : item) : item := match l with e :: _ => snd e | [] => d end.

Lemma seg_single x : seg [(x, x)].
Proof. apply (seg_intro [] x). constructor. Qed.
Lemma seg_push l x : seg l -> seg ((x, hd_bt l x) :: l).
Proof.
  intros [pre y Hpre].
  assert (E : hd_bt (pre ++ [(y, y)]) x = y).
  { destruct pre as [|e pre']; [reflexivity|]. cbn. inversion Hpre; auto. }
  rewrite E. apply (seg_intro ((x, y) :: pre) y). constructor; auto.
Qed.
Lemma seg_pop e r : seg (e :: r) -> segn r.
Proof.
  intros H. inversion H as [pre x Hpre Heq].
  destruct pre as [|e' pre'].
  - cbn in Heq. injection Heq as _ <-. left; reflexivity.
  - cbn in Heq. injection Heq as _ <-. right. constructor. inversion Hpre; auto.
Qed.
Lemma seg_len l : seg l -> (1 <= length l)%nat.
Proof. intros [pre x _]. rewrite app_length. cbn. lia. Qed.

Lemma split_after_app pre x b rest :
  ~ In x (items_of pre) -> split_after x (pre ++ (x, b) :: rest) = Some (pre ++ [(x, b)], rest).
Proof.
  induction pre as [|e pre IH]; cbn [items_of map In app split_after fst]; intros H.
  - assert (E : item_eqb x x = true) by (apply item_eqb_eq; reflexivity). rewrite E. reflexivity.
  - assert (E : item_eqb (fst e) x = false) by (apply item_eqb_neq; tauto). rewrite E.
    fold (items_of pre) in H. rewrite IH by tauto. reflexivity.
Qed.
(* cutting a batch that heads a chain at its head's block_tail gives exactly the batch *)
Lemma seg_split l rest :
  seg l -> NoDup (items_of l) -> split_after (hd_bt l (0, 0)) (l ++ rest) = Some (l, rest).
Proof.
  intros [pre x Hpre] Hnd.
  assert (E : hd_bt (pre ++ [(x, x)]) (0, 0) = x).
  { destruct pre as [|e pre']; [reflexivity|]. cbn. inversion Hpre; auto. }
  rewrite E, <- app_assoc. cbn [app]. apply split_after_app.
  unfold items_of in Hnd. rewrite map_app in Hnd. cbn [map fst] in Hnd.
  apply NoDup_remove_2 in Hnd. rewrite app_nil_r in Hnd. exact Hnd.
Qed.
Lemma seg_split_nil l : seg l -> NoDup (items_of l) -> split_after (hd_bt l (0, 0)) l = Some (l, []).
Proof. intros H1 H2. pose proof (seg_split l [] H1 H2) as H. rewrite app_nil_r in H. exact H. Qed.
Lemma hd_bt_app l1 l2 d : l1 <> [] -> hd_bt (l1 ++ l2) d = hd_bt l1 d.
Proof. destruct l1; [congruence|reflexivity]. Qed.
Lemma hd_bt_dflt l d d' : l <> [] -> hd_bt l d = hd_bt l d'.
Proof. destruct l; [congruence|reflexivity]. Qed.
Lemma seg_nonnil l : seg l -> l <> [].
Proof. intros H E. apply seg_len in H. subst l. cbn in H. lia. Qed.
Lemma items_of_app a b : items_of (a ++ b) = items_of a ++ items_of b.
Proof. apply map_app. Qed.

Definition tail_items (s i ipa : N) : list item := map (fun j => (s, j)) (nseq i (N.to_nat (ipa - i))).
Lemma tail_step s i ipa : i < ipa -> tail_items s i ipa = (s, i) :: tail_items s (i + 1) ipa.
Proof.
  intros H. unfold tail_items. replace (N.to_nat (ipa - i)) with (S (N.to_nat (ipa - (i + 1)))) by lia.
  reflexivity.
Qed.
Lemma tail_end s i ipa : ipa <= i -> tail_items s i ipa = [].
Proof. intros H. unfold tail_items. replace (N.to_nat (ipa - i)) with 0%nat by lia. reflexivity. Qed.
Lemma slab_tail ipa s : slab_items ipa s = tail_items s 0 ipa.
Proof. unfold slab_items, tail_items. rewrite N.sub_0_r. reflexivity. Qed.

Definition blk_of (ipa : N) (b : option N) (i : N) : list item :=
  match b with Some s => tail_items s i ipa | None => [] end.
Lemma block_blk ipa l n b i : block_items ipa (mkcache l n b i) = blk_of ipa b i.
Proof. destruct b; reflexivity. Qed.

Lemma empty_cache_ok ipa : cache_ok ipa empty_cache.
Proof. repeat split. left. split; [left; reflexivity|cbn; lia]. Qed.

(* ---------------------------------------------------------------- one step re-establishes the invariant *)
Lemma inv_le1 p L t : Inv p L -> forall y,
  (cnt (items_of (p_reuse p)) y + cnt (cache_items (p_ipa p) (get_cache t (p_caches p))) y + cnt L y <= 1)%nat.
Proof.
  intros [_ _ _ Hpa] y.
  pose proof (proj1 (perm_cnt _ _) Hpa y) as HP.
  pose proof (proj1 (nodup_cnt _) (all_items_NoDup (p_ipa p) (p_nslabs p)) y) as HN.
  unfold free_items in HP. rewrite !count_occ_app, (cnt_get _ t) in HP. lia.
Qed.

Lemma live_valid p L x : Inv p L -> In x L -> fst x < p_nslabs p /\ snd x < p_ipa p.
Proof.
  intros [_ _ _ Hpa] H. apply all_items_In. eapply Permutation_in; [exact Hpa|].
  apply in_or_app. right. exact H.
Qed.

Lemma inv_update p L t c' r' ns' L' :
  Inv p L ->
  batches (N.to_nat (p_ipa p)) r' ->
  cache_ok (p_ipa p) c' ->
  (forall y, (cnt (items_of r') y + cnt (cache_items (p_ipa p) c') y + cnt L' y + cnt (all_items (p_ipa p) (p_nslabs p)) y =
              cnt (items_of (p_reuse p)) y + cnt (cache_items (p_ipa p) (get_cache t (p_caches p))) y + cnt L y +
              cnt (all_items (p_ipa p) ns') y)%nat) ->
  Inv (mkpool (p_item p) (p_align p) (p_alloc p) (p_ipa p) r' ns' (set_cache t c' (p_caches p))) L'.
Proof.
  intros [Hipa Hre Hca Hpa] Hb Hc Heq.
  constructor; cbn [p_ipa p_reuse p_caches p_nslabs]; try assumption.
  - apply set_cache_P; assumption.
  - apply perm_cnt. intros y.
    pose proof (proj1 (perm_cnt _ _) Hpa y) as HP. specialize (Heq y).
    unfold free_items in *. cbn [p_ipa p_reuse p_caches p_nslabs].
    rewrite !count_occ_app, (cnt_get _ t) in HP. rewrite !count_occ_app, cnt_set. lia.
Qed.

Lemma items_of_cons e l : items_of (e :: l) = fst e :: items_of l.
Proof. reflexivity. Qed.
Lemma items_of_nil : items_of [] = [].
Proof. reflexivity. Qed.
Ltac cn := unfold cache_items in *; rewrite ?block_blk in *; cbn [c_list c_block c_i c_count blk_of] in *;
           repeat (rewrite ?items_of_app, ?items_of_cons, ?items_of_nil, ?count_occ_app, ?cnt_cons in * );
           cbn [count_occ fst snd] in *.

Lemma alloc_inv p L t : Inv p L ->
  exists p' x, alloc p t = (p', RItem x) /\ ~ In x L /\ Inv p' (x :: L).
Proof.
  intros HI. pose proof HI as [Hipa Hre Hca Hpa].
  assert (Hc : cache_ok (p_ipa p) (get_cache t (p_caches p)))
    by (apply get_cache_P; [apply empty_cache_ok|exact Hca]).
  pose proof (inv_le1 p L t HI) as Hle.
  unfold alloc.
  destruct (get_cache t (p_caches p)) as [l n b i] eqn:Eg.
  destruct Hc as (Hcnt & Hshape & Hblk). cbn [c_list c_count c_block c_i] in *.
  destruct l as [|e r].
  - destruct b as [s|].
    + (* carve the next item of the block *)
      eexists _, (s, i). split; [reflexivity|]. split.
      * apply notin_cnt. specialize (Hle (s, i)). cn. rewrite (tail_step s i) in Hle by lia.
        rewrite cnt_cons, one_refl in Hle. lia.
      * unfold with_cache.
        destruct (i + 1 =? p_ipa p) eqn:E.
        -- apply N.eqb_eq in E. apply (inv_update p L t); try assumption.
           ++ repeat split; [exact Hcnt|exact Hshape].
           ++ intros y. rewrite Eg. cn. rewrite (tail_step s i) by lia.
              rewrite (tail_end s (i + 1)) by lia. rewrite cnt_cons. cbn [count_occ]. lia.
        -- apply N.eqb_neq in E. apply (inv_update p L t); try assumption.
           ++ repeat split; cbn [c_list c_count c_block c_i]; try assumption; try lia.
           ++ intros y. rewrite Eg. cn. rewrite (tail_step s i) by lia. rewrite cnt_cons. lia.
    + destruct (p_reuse p) as [|e rr] eqn:Er.
      * (* new slab *)
        eexists _, (p_nslabs p, 0). split; [reflexivity|]. split.
        -- intros Hin. apply (live_valid p L _ HI) in Hin. cbn in Hin. lia.
        -- unfold with_cache, with_nslabs. cbn [p_item p_align p_alloc p_ipa p_reuse p_nslabs p_caches].
           apply (inv_update p L t); try assumption; try (rewrite Er; exact Hre).
           ++ repeat split; cbn [c_list c_count c_block c_i]; try assumption; try lia.
           ++ intros y. rewrite Eg, all_items_succ, slab_tail. cn.
              rewrite (tail_step _ 0) by lia. rewrite cnt_cons. change (0 + 1) with 1. lia.
      * (* refill from the shared list *)
        inversion Hre as [|bb r0 Hseg Hlen Hrest Heq].
        destruct bb as [|e' b'].
        { cbn in Hlen. lia. }
        cbn [app] in Heq. injection Heq as -> Hrr. subst rr.
        assert (Hnd : NoDup (items_of (e :: b'))).
        { apply nodup_cnt. intros y. specialize (Hle y).
          change (e :: b' ++ r0) with ((e :: b') ++ r0) in Hle. rewrite items_of_app, count_occ_app in Hle. lia. }
        pose proof (seg_split (e :: b') r0 Hseg Hnd) as Hsp. cbn [hd_bt] in Hsp.
        change (e :: b' ++ r0) with ((e :: b') ++ r0). rewrite Hsp. cbn [tl].
        eexists _, (fst e). split; [reflexivity|]. split.
        -- apply notin_cnt. specialize (Hle (fst e)). cn. rewrite one_refl in Hle. lia.
        -- unfold with_cache, with_reuse. cbn [p_item p_align p_alloc p_ipa p_reuse p_nslabs p_caches].
           apply (inv_update p L t); try assumption.
           ++ cbn [length] in Hlen. repeat split; cbn [c_list c_count c_block].
              ** lia.
              ** left. split; [exact (seg_pop _ _ Hseg)|lia].
           ++ intros y. rewrite Eg, Er. cn. lia.
  - (* pop the head of the cache list *)
    eexists _, (fst e). split; [reflexivity|]. split.
    + apply notin_cnt. specialize (Hle (fst e)). cn. rewrite one_refl in Hle. lia.
    + unfold with_cache. apply (inv_update p L t); try assumption.
      * cbn [length] in Hcnt. repeat split; cbn [c_list c_count c_block c_i]; [lia| |exact Hblk].
        destruct Hshape as [[Hs Hl]|(l1 & l2 & Heq & Hs1 & Hs2 & Hl2 & Hl1)].
        -- destruct Hs as [Hs|Hs]; [discriminate|]. left. split; [exact (seg_pop _ _ Hs)|cbn [length] in Hl; lia].
        -- destruct l1 as [|e1 l1']; [exfalso; exact (seg_nonnil _ Hs1 eq_refl)|].
           cbn [app] in Heq. injection Heq as -> ->.
           destruct (seg_pop _ _ Hs1) as [->|Hs1'].
           ++ left. split; [right; exact Hs2|cbn [app]; lia].
           ++ right. exists l1', l2. cbn [length] in Hl1. repeat split; try assumption; lia.
      * intros y. rewrite Eg. cn. lia.
Qed.

Ltac rw_split H :=
  match type of H with _ = ?rhs =>
    match goal with |- context [split_after ?a ?b] =>
      replace (split_after a b) with rhs by (symmetry; exact H) end end.

Lemma free_inv p L t x : Inv p L -> In x L ->
  exists p', free p t x = (p', RUnit) /\ Inv p' (remove_one x L).
Proof.
  intros HI Hx. pose proof HI as [Hipa Hre Hca Hpa].
  assert (Hc : cache_ok (p_ipa p) (get_cache t (p_caches p)))
    by (apply get_cache_P; [apply empty_cache_ok|exact Hca]).
  pose proof (inv_le1 p L t HI) as Hle.
  pose proof (fun y => cnt_remove_one x L y Hx) as HL.
  pose proof (fun y => one_le_cnt x L y Hx) as H1.
  unfold free.
  destruct (get_cache t (p_caches p)) as [l n b i] eqn:Eg.
  destruct Hc as (Hcnt & Hshape & Hblk). cbn [c_list c_count c_block c_i] in *.
  change (match l with e :: _ => snd e | [] => x end) with (hd_bt l x).
  destruct (p_ipa p * 2 <=? n + 1) eqn:E2.
  - (* hand the older batch over to the shared list *)
    apply N.leb_le in E2.
    destruct Hshape as [[Hs Hl]|(l1 & l2 & Heq & Hs1 & Hs2 & Hl2 & Hl1)]; [lia|].
    subst l. rewrite app_length in Hcnt.
    pose proof (seg_nonnil _ Hs1) as Hn1.
    rewrite (hd_bt_app l1 l2 x Hn1).
    assert (Hnd1 : NoDup (items_of ((x, hd_bt l1 x) :: l1))).
    { apply nodup_cnt. intros y. specialize (Hle y). specialize (H1 y). cn. lia. }
    assert (Hnd2 : NoDup (items_of l2)).
    { apply nodup_cnt. intros y. specialize (Hle y). cn. lia. }
    pose proof (seg_split _ l2 (seg_push l1 x Hs1) Hnd1) as Hsp. cbn [hd_bt snd] in Hsp.
    rw_split Hsp.
    pose proof (seg_split_nil l2 Hs2 Hnd2) as Hsp2.
    destruct l2 as [|e2 l2']; [exfalso; exact (seg_nonnil _ Hs2 eq_refl)|].
    cbn [hd_bt] in Hsp2. rw_split Hsp2.
    eexists. split; [reflexivity|].
    unfold with_cache, with_reuse. cbn [p_item p_align p_alloc p_ipa p_reuse p_nslabs p_caches].
    apply (inv_update p L t); try assumption.
    + constructor; assumption.
    + repeat split; cbn [c_list c_count c_block c_i length]; [lia| |exact Hblk].
      left. split; [right; exact (seg_push l1 x Hs1)|cbn [length]; lia].
    + intros y. rewrite Eg. specialize (HL y). cn. lia.
  - apply N.leb_gt in E2. destruct (n + 1 =? p_ipa p + 1) eqn:E3.
    + (* chop_block: the new item starts a new batch *)
      apply N.eqb_eq in E3. eexists. split; [reflexivity|].
      unfold with_cache. apply (inv_update p L t); try assumption.
      * repeat split; cbn [c_list c_count c_block c_i length]; [lia| |exact Hblk].
        right. exists [(x, x)], l. repeat split; cbn [length]; try lia.
        -- apply seg_single.
        -- destruct Hshape as [[[->|Hs] Hl]|(l1 & l2 & Heq & Hs1 & Hs2 & Hl2 & Hl1)].
           ++ cbn [length] in Hcnt. lia.
           ++ exact Hs.
           ++ subst l. rewrite app_length in Hcnt. apply seg_len in Hs1. lia.
      * intros y. rewrite Eg. specialize (HL y). cn. lia.
    + apply N.eqb_neq in E3. eexists. split; [reflexivity|].
      unfold with_cache. apply (inv_update p L t); try assumption.
      * repeat split; cbn [c_list c_count c_block c_i length]; [lia| |exact Hblk].
        destruct Hshape as [[[->|Hs] Hl]|(l1 & l2 & Heq & Hs1 & Hs2 & Hl2 & Hl1)].
        -- left. split; [right; apply seg_single|cbn [length]; lia].
        -- left. split; [right; exact (seg_push l x Hs)|cbn [length]; lia].
        -- subst l. rewrite app_length in Hcnt. pose proof (seg_nonnil _ Hs1) as Hn1.
           rewrite (hd_bt_app l1 l2 x Hn1).
           right. exists ((x, hd_bt l1 x) :: l1), l2. repeat split; cbn [length]; try assumption; try lia.
           exact (seg_push l1 x Hs1).
      * intros y. rewrite Eg. specialize (HL y). cn. lia.
Qed.

(* ---------------------------------------------------------------- all histories *)
Lemma init_inv s : 2 <= s_ipa s -> Inv (pool_of_sizes s) [].
Proof.
  intros H. constructor; cbn [pool_of_sizes p_ipa p_reuse p_caches p_nslabs]; try assumption.
  - constructor.
  - constructor.
  - unfold free_items, all_items. cbn. constructor.
Qed.

Lemma run_inv : forall h p L, Inv p L ->
  match run p L h with Ok p' L' => Inv p' L' | BadClient => True | Stuck => False end.
Proof.
  induction h as [|[t o] h IH]; intros p L HI; cbn [run]; [exact HI|].
  destruct o as [|x].
  - destruct (alloc_inv p L t HI) as (p' & x & E & _ & HI'). rewrite E. apply IH. exact HI'.
  - destruct (mem x L) eqn:M; [|exact I]. apply mem_In in M.
    destruct (free_inv p L t x HI M) as (p' & E & HI'). rewrite E. apply IH. exact HI'.
Qed.

Lemma inv_nodup_live p L : Inv p L -> NoDup L.
Proof.
  intros HI. apply nodup_cnt. intros y. pose proof (inv_le1 p L 0 HI y). lia.
Qed.

Lemma inv_cache_ok p L t : Inv p L -> cache_ok (p_ipa p) (get_cache t (p_caches p)).
Proof. intros [_ _ Hca _]. apply get_cache_P; [apply empty_cache_ok|exact Hca]. Qed.

(* a freed block is the next one handed to the same thread *)
Lemma split_after_head y e r k g : split_after y (e :: r) = Some (k, g) -> exists k', k = e :: k'.
Proof.
  cbn [split_after]. destruct (item_eqb (fst e) y).
  - intros H. injection H as <- _. eexists; reflexivity.
  - destruct (split_after y r) as [[a b]|]; [|discriminate]. intros H. injection H as <- _. eexists; reflexivity.
Qed.
Lemma alloc_pops q t e k n b i : exists q', alloc (with_cache q t (mkcache (e :: k) n b i)) t = (q', RItem (fst e)).
Proof.
  unfold alloc. unfold with_cache at 1. cbn [p_caches]. rewrite get_set_cache, N.eqb_refl. cbn [c_list].
  eexists; reflexivity.
Qed.
Lemma free_then_alloc p t x p' : free p t x = (p', RUnit) -> exists p'', alloc p' t = (p'', RItem x).
Proof.
  unfold free.
  destruct (p_ipa p * 2 <=? c_count (get_cache t (p_caches p)) + 1).
  - destruct (split_after _ _) as [[keep tog]|] eqn:E1; [|discriminate].
    apply split_after_head in E1. destruct E1 as [k' ->].
    destruct tog as [|e2 tog']; [discriminate|].
    destruct (split_after (snd e2) (e2 :: tog')) as [[batch lost]|]; [|discriminate].
    intros H. injection H as <-. apply (alloc_pops _ t (x, _)).
  - destruct (_ =? _); intros H; injection H as <-; apply (alloc_pops _ t (x, _)).
Qed.

(* ---------------------------------------------------------------- several pools *)
Lemma get_set_pool k k' q l : get_pool k' (set_pool k q l) = if k' =? k then Some q else get_pool k' l.
Proof.
  induction l as [|[k2 q2] r IH]; cbn [set_pool get_pool].
  - destruct (k' =? k); reflexivity.
  - destruct (k =? k2) eqn:E; cbn [get_pool].
    + apply N.eqb_eq in E. subst k2. destruct (k' =? k); reflexivity.
    + destruct (k' =? k2) eqn:E2.
      * apply N.eqb_eq in E2. subst k2. rewrite N.eqb_sym, E. reflexivity.
      * exact IH.
Qed.
Lemma get_del_pool k k' l : k' <> k -> get_pool k' (del_pool k l) = get_pool k' l.
Proof.
  intros Hne. induction l as [|[k2 q2] r IH]; cbn [del_pool get_pool]; [reflexivity|].
  destruct (k =? k2) eqn:E.
  - apply N.eqb_eq in E. subst k2. apply N.eqb_neq in Hne. rewrite Hne. exact IH.
  - cbn [get_pool]. rewrite IH. reflexivity.
Qed.
Definition pid_of (o : wop) : N :=
  match o with WCreate k _ _ => k | WAlloc k _ => k | WFree k _ _ => k | WDestroy k => k end.
Lemma world_step_other pagesize env w o k :
  k <> pid_of o -> get_pool k (w_pools (fst (world_step pagesize env w o))) = get_pool k (w_pools w).
Proof.
  intros Hne. assert (E : (k =? pid_of o) = false) by (apply N.eqb_neq; exact Hne).
  destruct o as [k0 sz al|k0 t|k0 t x|k0]; cbn [world_step pid_of] in *.
  - destruct (create_sizes _ _ _ _ _); cbn [fst w_pools]; [rewrite get_set_pool, E|]; reflexivity.
  - destruct (get_pool k0 (w_pools w)); [|reflexivity]. destruct (alloc p t). cbn [fst w_pools].
    rewrite get_set_pool, E. reflexivity.
  - destruct (get_pool k0 (w_pools w)); [|reflexivity]. destruct (free p t x). cbn [fst w_pools].
    rewrite get_set_pool, E. reflexivity.
  - cbn [fst w_pools]. apply get_del_pool. exact Hne.
Qed.
