(* C14 — micro-step machine for the SHARED part of src/mpool.c.
   Shared fields and their protection (mpool.c):
     pool->reuse_pool   : read WITHOUT lock at :345 (peek), re-read and written under reuse_lock at :347-354 (alloc,
                          take one batch) and :433-436 (free, push the older batch);
     pool->alloc_list / alloc_list_pos (the model's p_nslabs) : read and written under pool_lock at :367-378;
     tc->cache / count / block / i and the link fields of items owned by a cache : thread-local, never locked.
   One shared access per step: peek | lock | read | write | unlock.  A write step computes from the value the thread
   READ earlier ([seen] / [s]), not from the current state, so that a missing lock is observable.  Thread-local updates
   (tc->cache = ..., tc->count = ...; they follow the unlock in the C text) are performed together with the thread's
   own write step: no other thread reads them, so moving them earlier inside the same thread is unobservable.
   [lk = false] is the same machine with the lock / unlock steps removed from free's hand-over. *)
From Coq Require Import List NArith Bool.
From QV Require Import Mpool.Model.
Import ListNotations.
Local Open Scope N_scope.

Inductive pc :=
| Idle
| A_LockR                            (* alloc: peeked a non-empty reuse_pool; next: acquire reuse_lock *)
| A_ReadR                            (* holds reuse_lock; next: re-read reuse_pool *)
| A_WriteR (seen : list entry)       (* read a non-empty chain; next: reuse_pool := what follows the first batch *)
| A_UnlockR (got : bool)             (* next: release reuse_lock; then return (got) or go and get a new slab *)
| A_LockP                            (* slab obtained from the allocator; next: acquire pool_lock *)
| A_ReadP                            (* holds pool_lock; next: read alloc_list_pos *)
| A_WriteP (s : N)                   (* next: alloc_list[pos] = p; pos++ *)
| A_UnlockP                          (* next: release pool_lock; return *)
| F_LockR (x : item)                 (* free: older batch cut off (thread-local); next: acquire reuse_lock *)
| F_ReadR (x : item)                 (* next: read reuse_pool (to link the batch in front of it) *)
| F_WriteR (x : item) (seen : list entry)   (* next: reuse_pool := batch ++ seen *)
| F_UnlockR.                         (* next: release reuse_lock; return *)

Record thread := mkthr { t_pc : pc; t_prog : list op }.
Definition idle_thread := mkthr Idle [].

Fixpoint get_thr (t : N) (l : list (N * thread)) : thread :=
  match l with [] => idle_thread | (t', c) :: r => if t =? t' then c else get_thr t r end.
Fixpoint set_thr (t : N) (c : thread) (l : list (N * thread)) : list (N * thread) :=
  match l with
  | [] => [(t, c)]
  | (t', c') :: r => if t =? t' then (t, c) :: r else (t', c') :: set_thr t c r
  end.

Record mstate := mkm {
  m_pool : pool;                (* shared: p_reuse, p_nslabs; thread-local: p_caches *)
  m_live : list item;           (* ghost: blocks the clients hold *)
  m_rlock : option N;           (* reuse_lock owner *)
  m_plock : option N;           (* pool_lock owner *)
  m_thr : list (N * thread)
}.

Definition miss (c : cache) : bool :=
  match c_list c, c_block c with [], None => true | _, _ => false end.
Definition handover (p : pool) (t : N) : bool :=
  p_ipa p * 2 <=? c_count (get_cache t (p_caches p)) + 1.

(* the atomic alloc, plus the one behaviour the unlocked peek adds: a thread that saw an empty shared list carves a
   new slab even if a batch has been pushed meanwhile *)
Definition alloc_x (force : bool) (p : pool) (t : N) : pool * result :=
  let tc := get_cache t (p_caches p) in
  if force && miss tc then
    let s := p_nslabs p in
    (with_cache (with_nslabs p (s + 1)) t (mkcache [] (c_count tc) (Some s) 1), RItem (s, 0))
  else alloc p t.

Definition upd (m : mstate) (t : N) (c : pc) : mstate :=
  mkm (m_pool m) (m_live m) (m_rlock m) (m_plock m)
      (set_thr t (mkthr c (t_prog (get_thr t (m_thr m)))) (m_thr m)).

Definition mstep (lk : bool) (m : mstate) (t : N) : option mstate :=
  let th := get_thr t (m_thr m) in
  let p := m_pool m in
  match t_pc th with
  | Idle =>
      match t_prog th with
      | [] => None
      | OAlloc :: rest =>
          if miss (get_cache t (p_caches p)) then
            (* shared access: the unlocked peek `if (pool->reuse_pool)` *)
            Some (upd m t (match p_reuse p with [] => A_LockP | _ :: _ => A_LockR end))
          else                                   (* cache hit / block carve: thread-local *)
            match alloc p t with
            | (p', RItem x) => Some (mkm p' (x :: m_live m) (m_rlock m) (m_plock m) (set_thr t (mkthr Idle rest) (m_thr m)))
            | _ => None
            end
      | OFree x :: rest =>
          if mem x (m_live m) then
            if handover p t then                 (* thread-local: link n, cut the older batch off *)
              Some (mkm p (remove_one x (m_live m)) (m_rlock m) (m_plock m)
                        (set_thr t (mkthr (if lk then F_LockR x else F_ReadR x) (t_prog th)) (m_thr m)))
            else
              match free p t x with
              | (p', RUnit) => Some (mkm p' (remove_one x (m_live m)) (m_rlock m) (m_plock m) (set_thr t (mkthr Idle rest) (m_thr m)))
              | _ => None
              end
          else None                              (* the client does not hold x: outside the contract *)
      end
  | A_LockR =>
      match m_rlock m with
      | None => Some (mkm p (m_live m) (Some t) (m_plock m) (set_thr t (mkthr A_ReadR (t_prog th)) (m_thr m)))
      | Some _ => None                           (* blocked *)
      end
  | A_ReadR => Some (upd m t (match p_reuse p with [] => A_UnlockR false | _ :: _ => A_WriteR (p_reuse p) end))
  | A_WriteR seen =>
      match alloc (with_reuse p seen) t with
      | (p', RItem x) => Some (mkm p' (x :: m_live m) (m_rlock m) (m_plock m) (set_thr t (mkthr (A_UnlockR true) (tl (t_prog th))) (m_thr m)))
      | _ => None
      end
  | A_UnlockR got =>
      Some (mkm p (m_live m) None (m_plock m) (set_thr t (mkthr (if got then Idle else A_LockP) (t_prog th)) (m_thr m)))
  | A_LockP =>
      match m_plock m with
      | None => Some (mkm p (m_live m) (m_rlock m) (Some t) (set_thr t (mkthr A_ReadP (t_prog th)) (m_thr m)))
      | Some _ => None
      end
  | A_ReadP => Some (upd m t (A_WriteP (p_nslabs p)))
  | A_WriteP s =>
      match alloc_x true (with_nslabs p s) t with
      | (p', RItem x) => Some (mkm p' (x :: m_live m) (m_rlock m) (m_plock m) (set_thr t (mkthr A_UnlockP (tl (t_prog th))) (m_thr m)))
      | _ => None
      end
  | A_UnlockP =>
      Some (mkm p (m_live m) (m_rlock m) None (set_thr t (mkthr Idle (t_prog th)) (m_thr m)))
  | F_LockR x =>
      match m_rlock m with
      | None => Some (mkm p (m_live m) (Some t) (m_plock m) (set_thr t (mkthr (F_ReadR x) (t_prog th)) (m_thr m)))
      | Some _ => None
      end
  | F_ReadR x => Some (upd m t (F_WriteR x (p_reuse p)))
  | F_WriteR x seen =>
      match free (with_reuse p seen) t x with
      | (p', RUnit) => Some (mkm p' (m_live m) (m_rlock m) (m_plock m)
                                 (set_thr t (mkthr (if lk then F_UnlockR else Idle) (tl (t_prog th))) (m_thr m)))
      | _ => None
      end
  | F_UnlockR =>
      Some (mkm p (m_live m) None (m_plock m) (set_thr t (mkthr Idle (t_prog th)) (m_thr m)))
  end.

(* a schedule is a list of thread ids; a thread that cannot step makes the schedule infeasible *)
Fixpoint mrun (lk : bool) (m : mstate) (s : list N) : option mstate :=
  match s with
  | [] => Some m
  | t :: s' => match mstep lk m t with Some m' => mrun lk m' s' | None => None end
  end.

Definition minit (p : pool) (thr : list (N * list op)) : mstate :=
  mkm p [] None None (map (fun e => (fst e, mkthr Idle (snd e))) thr).

(* op-atomic histories of the relaxed operations *)
Inductive xop := XAlloc (force : bool) | XFree (x : item).
Definition erase (o : xop) : op := match o with XAlloc _ => OAlloc | XFree x => OFree x end.
Definition stepx (p : pool) (L : list item) (t : N) (o : xop) : option (pool * list item) :=
  match o with
  | XAlloc b => match alloc_x b p t with (p', RItem x) => Some (p', x :: L) | _ => None end
  | XFree x => if mem x L then match free p t x with (p', RUnit) => Some (p', remove_one x L) | _ => None end else None
  end.
Fixpoint runx (p : pool) (L : list item) (h : list (N * xop)) : option (pool * list item) :=
  match h with
  | [] => Some (p, L)
  | (t, o) :: h' => match stepx p L t o with Some (p', L') => runx p' L' h' | None => None end
  end.
Definition proj (t : N) (h : list (N * xop)) : list op :=
  map (fun e => erase (snd e)) (filter (fun e => fst e =? t) h).

(* items handed to free whose hand-over has not yet been linearised *)
Definition pend (th : thread) : list item :=
  match t_pc th with F_LockR x | F_ReadR x | F_WriteR x _ => [x] | _ => [] end.
Definition pend_all (l : list (N * thread)) : list item := flat_map (fun e => pend (snd e)) l.
Definition alive (m : mstate) : list item := m_live m ++ pend_all (m_thr m).
