(* C14: from items to addresses: size, alignment, disjointness of live blocks. *)
From Coq Require Import List NArith Bool Lia ZifyBool ZifyN ZifyNat Permutation.
From QV Require Import Mpool.Model Mpool.ProofsSize Mpool.Proofs.
Import ListNotations.
Local Open Scope N_scope.

Definition geom (p : pool) : N * N * N * N := (p_item p, p_align p, p_alloc p, p_ipa p).

Lemma alloc_geom p t : geom (fst (alloc p t)) = geom p.
Proof.
  unfold alloc.
  destruct (c_list (get_cache t (p_caches p))); [|reflexivity].
  destruct (c_block (get_cache t (p_caches p))); [reflexivity|].
  destruct (p_reuse p) as [|e r]; [reflexivity|].
  destruct (split_after (snd e) (e :: r)) as [[a b]|]; reflexivity.
Qed.
Lemma free_geom p t x : geom (fst (free p t x)) = geom p.
Proof.
  unfold free.
  destruct (p_ipa p * 2 <=? c_count (get_cache t (p_caches p)) + 1).
  - destruct (split_after _ _) as [[keep tog]|]; [|reflexivity].
    destruct tog as [|e2 tog']; [reflexivity|].
    destruct (split_after (snd e2) (e2 :: tog')) as [[batch lost]|]; reflexivity.
  - destruct (_ =? _); reflexivity.
Qed.
Lemma run_geom : forall h p L p' L', run p L h = Ok p' L' -> geom p' = geom p.
Proof.
  induction h as [|[t o] h IH]; intros p L p' L'; cbn [run].
  - intros H. injection H as <- _. reflexivity.
  - destruct o as [|x].
    + pose proof (alloc_geom p t) as G. destruct (alloc p t) as [q r]. cbn [fst] in G.
      destruct r; try discriminate. intros H. apply IH in H. congruence.
    + destruct (mem x L); [|discriminate].
      pose proof (free_geom p t x) as G. destruct (free p t x) as [q r]. cbn [fst] in G.
      destruct r; try discriminate. intros H. apply IH in H. congruence.
Qed.

Section Addr.
  Variable base : N -> N.                 (* address of slab k, as returned by the aligned allocator *)
  Variable s : sizes.
  Variables item_req align_req : N.
  Hypothesis Hs : sizes_ok item_req align_req s.
  Hypothesis base_aligned : forall k, base k mod s_align s = 0.
  Hypothesis base_disjoint : forall k k', k <> k' ->
    base k + s_alloc s <= base k' \/ base k' + s_alloc s <= base k.

  Definition addr (x : item) : N := base (fst x) + snd x * s_item s.

  Lemma block_in_slab x : snd x < s_ipa s ->
    base (fst x) <= addr x /\ addr x + item_req <= base (fst x) + s_alloc s.
  Proof.
    intros H. destruct Hs. unfold addr. split; [lia|].
    assert ((snd x + 1) * s_item s <= s_ipa s * s_item s) by (apply N.mul_le_mono_r; lia). nia.
  Qed.

  Lemma block_aligned x : addr x mod s_align s = 0.
  Proof.
    destruct Hs. assert (Ha : s_align s <> 0) by lia.
    unfold addr. apply N.mod_divide; [exact Ha|].
    apply N.divide_add_r.
    - apply N.mod_divide; [exact Ha|apply base_aligned].
    - apply N.divide_mul_r. apply N.mod_divide; assumption.
  Qed.

  Lemma blocks_apart x y : snd x < s_ipa s -> snd y < s_ipa s -> x <> y ->
    addr x + item_req <= addr y \/ addr y + item_req <= addr x.
  Proof.
    intros Hx Hy Hne. destruct x as [a i], y as [b j]. cbn [fst snd] in *.
    destruct (N.eq_dec a b) as [->|Hab].
    - assert (Hij : i <> j) by congruence. destruct Hs. unfold addr. cbn [fst snd].
      destruct (N.lt_ge_cases i j).
      + left. assert ((i + 1) * s_item s <= j * s_item s) by (apply N.mul_le_mono_r; lia). nia.
      + right. assert ((j + 1) * s_item s <= i * s_item s) by (apply N.mul_le_mono_r; lia). nia.
    - pose proof (block_in_slab (a, i) Hx) as [H1 H2]. pose proof (block_in_slab (b, j) Hy) as [H3 H4].
      cbn [fst snd] in *. destruct (base_disjoint a b Hab); [left|right]; lia.
  Qed.

  (* the property, for every history under the client contract *)
  Theorem live_blocks_ok : forall h p L,
    run (pool_of_sizes s) [] h = Ok p L ->
    NoDup L /\
    (forall x, In x L ->
       addr x mod s_align s = 0 /\ base (fst x) <= addr x /\ addr x + item_req <= base (fst x) + s_alloc s) /\
    (forall x y, In x L -> In y L -> x <> y -> addr x + item_req <= addr y \/ addr y + item_req <= addr x) /\
    (forall t, exists p' z, alloc p t = (p', RItem z) /\ ~ In z L).
  Proof.
    intros h p L Hrun.
    pose proof (run_inv h _ _ (init_inv s (so_ipa _ _ _ Hs))) as HI. rewrite Hrun in HI.
    pose proof (run_geom _ _ _ _ _ Hrun) as G. unfold geom in G. cbn [pool_of_sizes p_item p_align p_alloc p_ipa] in G.
    injection G as G1 G2 G3 G4.
    assert (Hv : forall x, In x L -> snd x < s_ipa s).
    { intros x Hx. rewrite <- G4. apply (live_valid p L x HI Hx). }
    split; [exact (inv_nodup_live p L HI)|]. split; [|split].
    - intros x Hx. split; [apply block_aligned|apply block_in_slab; auto].
    - intros x y Hx Hy. apply blocks_apart; auto.
    - intros t. destruct (alloc_inv p L t HI) as (p' & z & E & Hz & _). exists p', z. auto.
  Qed.
End Addr.

(* ---------------------------------------------------------------- closed forms used by Properties_C14.v *)
Lemma cache_wf_all s h p L : 2 <= s_ipa s -> run (pool_of_sizes s) [] h = Ok p L ->
  batches (N.to_nat (p_ipa p)) (p_reuse p) /\ forall t, cache_ok (p_ipa p) (get_cache t (p_caches p)).
Proof.
  intros H2 Hrun. pose proof (run_inv h _ _ (init_inv s H2)) as HI. rewrite Hrun in HI.
  split; [exact (inv_reuse _ _ HI)|]. intros t. exact (inv_cache_ok p L t HI).
Qed.
Lemma never_stuck_all s h : 2 <= s_ipa s -> run (pool_of_sizes s) [] h <> Stuck.
Proof.
  intros H2 E. pose proof (run_inv h _ _ (init_inv s H2)) as HI. rewrite E in HI. exact HI.
Qed.
Lemma live_partition_all s h p L : 2 <= s_ipa s -> run (pool_of_sizes s) [] h = Ok p L ->
  Permutation (free_items p ++ L) (all_items (p_ipa p) (p_nslabs p)).
Proof.
  intros H2 Hrun. pose proof (run_inv h _ _ (init_inv s H2)) as HI. rewrite Hrun in HI. exact (inv_part _ _ HI).
Qed.
Lemma alloc_fresh_all s h p L t : 2 <= s_ipa s -> run (pool_of_sizes s) [] h = Ok p L ->
  exists p' x, alloc p t = (p', RItem x) /\ ~ In x L /\ NoDup (x :: L).
Proof.
  intros H2 Hrun. pose proof (run_inv h _ _ (init_inv s H2)) as HI. rewrite Hrun in HI.
  destruct (alloc_inv p L t HI) as (p' & x & E & Hx & HI'). exists p', x. repeat split; try assumption.
  exact (inv_nodup_live _ _ HI').
Qed.
Lemma size_rounding_all : forall pagesize env_max max0 item_req align_req s,
  pagesize <> 0 ->
  create_sizes pagesize env_max max0 item_req align_req = Some s ->
  item_req <= s_item s /\ HDRSZ <= s_item s /\ s_item s mod s_align s = 0 /\
  (16 <= s_align s /\ align_req <= s_align s /\ (s_align s = 16 \/ s_align s = align_req)) /\
  2 <= s_ipa s /\ s_ipa s * s_item s <= s_alloc s /\ s_item s * 2 <= s_max s.
Proof.
  intros pagesize env_max max0 item_req align_req s Hp Hc.
  destruct (create_sizes_ok pagesize env_max max0 item_req align_req s Hp Hc); repeat split; tauto.
Qed.
Lemma live_disjoint_all : forall (base : N -> N) pagesize env_max max0 item_req align_req s h p L,
  pagesize <> 0 ->
  create_sizes pagesize env_max max0 item_req align_req = Some s ->
  (forall k, base k mod s_align s = 0) ->
  (forall k k', k <> k' -> base k + s_alloc s <= base k' \/ base k' + s_alloc s <= base k) ->
  run (pool_of_sizes s) [] h = Ok p L ->
  NoDup L /\
  (forall x, In x L ->
     addr base s x mod s_align s = 0 /\
     base (fst x) <= addr base s x /\ addr base s x + item_req <= base (fst x) + s_alloc s) /\
  (forall x y, In x L -> In y L -> x <> y ->
     addr base s x + item_req <= addr base s y \/ addr base s y + item_req <= addr base s x) /\
  (forall t, exists p' z, alloc p t = (p', RItem z) /\ ~ In z L).
Proof.
  intros base pagesize env_max max0 item_req align_req s h p L Hp Hc Hb Hd.
  exact (live_blocks_ok base s item_req align_req (create_sizes_ok _ _ _ _ _ _ Hp Hc) Hb Hd h p L).
Qed.
