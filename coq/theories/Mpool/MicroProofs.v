(* C14 — the micro-step machine refines the op-atomic model (locks present); refutation without free's lock. *)
From Coq Require Import List NArith Bool Lia ZifyBool ZifyN ZifyNat Permutation Arith.
From QV Require Import Mpool.Model Mpool.Proofs Mpool.Micro.
Import ListNotations.
Local Open Scope N_scope.

(* ---------------------------------------------------------------- thread table *)
Lemma get_set_thr t t' c l : get_thr t' (set_thr t c l) = if t' =? t then c else get_thr t' l.
Proof.
  induction l as [|[t2 c2] r IH]; cbn [set_thr get_thr].
  - destruct (t' =? t); reflexivity.
  - destruct (t =? t2) eqn:E; cbn [get_thr].
    + apply N.eqb_eq in E. subst t2. destruct (t' =? t); reflexivity.
    + destruct (t' =? t2) eqn:E2.
      * apply N.eqb_eq in E2. subst t2. rewrite N.eqb_sym, E. reflexivity.
      * exact IH.
Qed.
Fixpoint pend_others (t : N) (l : list (N * thread)) : list item :=
  match l with
  | [] => []
  | (t', c) :: r => if t =? t' then pend_all r else pend c ++ pend_others t r
  end.
Lemma cnt_pend_get t l y : cnt (pend_all l) y = (cnt (pend (get_thr t l)) y + cnt (pend_others t l) y)%nat.
Proof.
  induction l as [|[t' c] r IH]; cbn [pend_all flat_map get_thr pend_others snd]; [reflexivity|].
  destruct (t =? t'); rewrite !count_occ_app; fold (pend_all r); [reflexivity|]. rewrite IH. lia.
Qed.
Lemma cnt_pend_set t c l y : cnt (pend_all (set_thr t c l)) y = (cnt (pend c) y + cnt (pend_others t l) y)%nat.
Proof.
  induction l as [|[t' c'] r IH]; cbn [pend_all flat_map set_thr pend_others snd].
  - rewrite app_nil_r. cbn. lia.
  - destruct (t =? t'); cbn [flat_map snd]; rewrite !count_occ_app; fold (pend_all r);
      fold (pend_all (set_thr t c r)); [reflexivity|]. rewrite IH. lia.
Qed.

(* ---------------------------------------------------------------- what alloc / free touch *)
Lemma with_reuse_id p : with_reuse p (p_reuse p) = p.
Proof. destruct p; reflexivity. Qed.
Lemma with_nslabs_id p : with_nslabs p (p_nslabs p) = p.
Proof. destruct p; reflexivity. Qed.

Lemma alloc_hit_shared p t : miss (get_cache t (p_caches p)) = false ->
  p_reuse (fst (alloc p t)) = p_reuse p /\ p_nslabs (fst (alloc p t)) = p_nslabs p.
Proof.
  unfold alloc, miss. destruct (c_list (get_cache t (p_caches p))); [|intros; split; reflexivity].
  destruct (c_block (get_cache t (p_caches p))); [intros; split; reflexivity|discriminate].
Qed.
Lemma alloc_refill_nslabs p r t : r <> [] -> p_nslabs (fst (alloc (with_reuse p r) t)) = p_nslabs p.
Proof.
  intros Hr. unfold alloc. cbn [with_reuse p_caches p_reuse].
  destruct (c_list (get_cache t (p_caches p))); [|reflexivity].
  destruct (c_block (get_cache t (p_caches p))); [reflexivity|].
  destruct r as [|e r']; [congruence|].
  destruct (split_after (snd e) (e :: r')) as [[a b]|]; reflexivity.
Qed.
Lemma alloc_x_reuse p t : p_reuse (fst (alloc_x true p t)) = p_reuse p.
Proof.
  unfold alloc_x. cbn [andb]. destruct (miss (get_cache t (p_caches p))) eqn:E; [reflexivity|].
  apply (alloc_hit_shared p t E).
Qed.
Lemma free_nslabs p t x : p_nslabs (fst (free p t x)) = p_nslabs p.
Proof.
  unfold free.
  destruct (p_ipa p * 2 <=? c_count (get_cache t (p_caches p)) + 1).
  - destruct (split_after _ _) as [[keep tog]|]; [|reflexivity].
    destruct tog as [|e2 tog']; [reflexivity|].
    destruct (split_after (snd e2) (e2 :: tog')) as [[batch lost]|]; reflexivity.
  - destruct (_ =? _); reflexivity.
Qed.
Lemma free_local_reuse p t x : handover p t = false -> p_reuse (fst (free p t x)) = p_reuse p.
Proof.
  unfold free, handover. intros ->. destruct (_ =? _); reflexivity.
Qed.
Lemma free_with_reuse_nslabs p r t x : p_nslabs (fst (free (with_reuse p r) t x)) = p_nslabs p.
Proof. rewrite free_nslabs. reflexivity. Qed.

(* ---------------------------------------------------------------- the lock invariant *)
Definition in_r (c : pc) : bool :=
  match c with A_ReadR | A_WriteR _ | A_UnlockR _ | F_ReadR _ | F_WriteR _ _ | F_UnlockR => true | _ => false end.
Definition in_p (c : pc) : bool :=
  match c with A_ReadP | A_WriteP _ | A_UnlockP => true | _ => false end.
(* the operation a thread is inside of is the head of its program until it is linearised *)
Definition prog_ok (th : thread) : Prop :=
  match t_pc th with
  | A_LockR | A_ReadR | A_WriteR _ | A_UnlockR false | A_LockP | A_ReadP | A_WriteP _ =>
      exists rest, t_prog th = OAlloc :: rest
  | F_LockR x | F_ReadR x | F_WriteR x _ => exists rest, t_prog th = OFree x :: rest
  | _ => True
  end.
Definition thread_ok (m : mstate) (t : N) (th : thread) : Prop :=
  (in_r (t_pc th) = true -> m_rlock m = Some t) /\
  (in_p (t_pc th) = true -> m_plock m = Some t) /\
  match t_pc th with
  | A_WriteR seen => seen = p_reuse (m_pool m) /\ seen <> []
  | F_WriteR _ seen => seen = p_reuse (m_pool m)
  | A_WriteP s => s = p_nslabs (m_pool m)
  | _ => True
  end /\ prog_ok th.
Definition MI (m : mstate) : Prop := forall u, thread_ok m u (get_thr u (m_thr m)).

Lemma MI_init p thr : MI (minit p thr).
Proof.
  intros u. unfold minit. cbn [m_thr].
  assert (H : t_pc (get_thr u (map (fun e : N * list op => (fst e, mkthr Idle (snd e))) thr)) = Idle).
  { induction thr as [|[t' pr] r IH]; cbn [map get_thr fst snd]; [reflexivity|]. destruct (u =? t'); [reflexivity|exact IH]. }
  unfold thread_ok, prog_ok. rewrite H. cbn. repeat split; discriminate.
Qed.

(* at most one thread inside a region of a pool *)
Lemma lock_mutex_r m t u : MI m ->
  in_r (t_pc (get_thr t (m_thr m))) = true -> in_r (t_pc (get_thr u (m_thr m))) = true -> t = u.
Proof. intros H Ht Hu. pose proof (proj1 (H t) Ht). pose proof (proj1 (H u) Hu). congruence. Qed.
Lemma lock_mutex_p m t u : MI m ->
  in_p (t_pc (get_thr t (m_thr m))) = true -> in_p (t_pc (get_thr u (m_thr m))) = true -> t = u.
Proof. intros H Ht Hu. pose proof (proj1 (proj2 (H t)) Ht). pose proof (proj1 (proj2 (H u)) Hu). congruence. Qed.

Lemma thread_ok_transfer m m' u th :
  thread_ok m u th ->
  (in_r (t_pc th) = true -> m_rlock m' = m_rlock m /\ p_reuse (m_pool m') = p_reuse (m_pool m)) ->
  (in_p (t_pc th) = true -> m_plock m' = m_plock m /\ p_nslabs (m_pool m') = p_nslabs (m_pool m)) ->
  thread_ok m' u th.
Proof.
  intros (H1 & H2 & H3 & H4) Hr Hp. unfold thread_ok.
  destruct (t_pc th) eqn:E; cbn [in_r in_p] in *;
    try (destruct (Hr eq_refl) as [Hr1 Hr2]; rewrite ?Hr1, ?Hr2);
    try (destruct (Hp eq_refl) as [Hp1 Hp2]; rewrite ?Hp1, ?Hp2);
    repeat split; try discriminate; try exact I; try exact H4; try tauto; auto.
Qed.

Lemma MI_step m m' t th' :
  MI m -> m_thr m' = set_thr t th' (m_thr m) -> thread_ok m' t th' ->
  (forall u, u <> t -> thread_ok m' u (get_thr u (m_thr m))) -> MI m'.
Proof.
  intros HM Ht Hok Hoth u. rewrite Ht, get_set_thr. destruct (u =? t) eqn:E.
  - apply N.eqb_eq in E. subst u. exact Hok.
  - apply N.eqb_neq in E. apply Hoth. exact E.
Qed.

(* one micro step is a stutter or exactly one op-atomic step of the stepping thread *)
Inductive simrel (m m' : mstate) (t : N) : Prop :=
| sim_stutter :
    m_pool m' = m_pool m -> (forall y, cnt (alive m') y = cnt (alive m) y) ->
    t_prog (get_thr t (m_thr m')) = t_prog (get_thr t (m_thr m)) -> simrel m m' t
| sim_lin xo L' :
    t_prog (get_thr t (m_thr m)) = erase xo :: t_prog (get_thr t (m_thr m')) ->
    stepx (m_pool m) (alive m) t xo = Some (m_pool m', L') ->
    (forall y, cnt L' y = cnt (alive m') y) -> simrel m m' t.

Lemma others_unch m m' t th' : m_thr m' = set_thr t th' (m_thr m) ->
  forall u, u <> t -> get_thr u (m_thr m') = get_thr u (m_thr m).
Proof. intros -> u Hne. rewrite get_set_thr. apply N.eqb_neq in Hne. rewrite Hne. reflexivity. Qed.

Lemma get_self m m' t th' : m_thr m' = set_thr t th' (m_thr m) -> get_thr t (m_thr m') = th'.
Proof. intros ->. rewrite get_set_thr, N.eqb_refl. reflexivity. Qed.

Lemma alive_cnt m y t :
  cnt (alive m) y = (cnt (m_live m) y + cnt (pend (get_thr t (m_thr m))) y + cnt (pend_others t (m_thr m)) y)%nat.
Proof. unfold alive. rewrite count_occ_app, (cnt_pend_get t). lia. Qed.
Lemma alive_cnt_set p L rl pl t th' l y :
  cnt (alive (mkm p L rl pl (set_thr t th' l))) y = (cnt L y + cnt (pend th') y + cnt (pend_others t l) y)%nat.
Proof. unfold alive. cbn [m_live m_thr]. rewrite count_occ_app, cnt_pend_set. lia. Qed.

Ltac unch := let u := fresh "u" in let Hne := fresh "Hne" in
  intros u Hne; cbn [m_thr]; rewrite get_set_thr; apply N.eqb_neq in Hne; rewrite Hne; reflexivity.
Ltac contra_r HM u Hin := let Hu := fresh in pose proof (proj1 (HM u) Hin) as Hu; congruence.
Ltac contra_p HM u Hin := let Hu := fresh in pose proof (proj1 (proj2 (HM u)) Hin) as Hu; congruence.

Lemma mstep_sim m t m' : MI m -> mstep true m t = Some m' ->
  MI m' /\ simrel m m' t /\ (forall u, u <> t -> get_thr u (m_thr m') = get_thr u (m_thr m)).
Proof.
  intros HM Hs. pose proof (HM t) as (Hr & Hp & Hseen & Hprog). unfold prog_ok in Hprog.
  unfold mstep, upd in Hs.
  destruct (get_thr t (m_thr m)) as [c prog] eqn:Eth. cbn [t_pc t_prog in_r in_p] in *.
  destruct c.
  - (* Idle: start of an operation *)
    destruct prog as [|[|x] rest]; [discriminate| |].
    + destruct (miss (get_cache t (p_caches (m_pool m)))) eqn:Em.
      * (* the unlocked peek *)
        injection Hs as <-.
        set (c' := match p_reuse (m_pool m) with [] => A_LockP | _ :: _ => A_LockR end).
        assert (Hc' : c' = A_LockP \/ c' = A_LockR) by (subst c'; destruct (p_reuse (m_pool m)); auto).
        split; [|split].
        -- eapply MI_step; [exact HM|reflexivity| |].
           ++ unfold thread_ok, prog_ok. cbn [t_pc t_prog]. destruct Hc' as [-> | ->]; cbn; repeat split; try discriminate; eauto.
           ++ intros u Hne. apply (thread_ok_transfer m _ u _ (HM u)); cbn [m_rlock m_plock m_pool]; auto.
        -- apply sim_stutter; cbn [m_pool m_thr].
           ++ reflexivity.
           ++ intros y. rewrite alive_cnt_set, (alive_cnt m y t), Eth. unfold pend. cbn [t_pc].
              destruct Hc' as [-> | ->]; reflexivity.
           ++ rewrite get_set_thr, N.eqb_refl, Eth. reflexivity.
        -- unch.
      * (* cache hit / block carve: thread-local, linearised here *)
        destruct (alloc (m_pool m) t) as [p' r] eqn:Ea. destruct r as [x| |]; try discriminate.
        injection Hs as <-.
        pose proof (alloc_hit_shared (m_pool m) t Em) as [Hre Hns]. rewrite Ea in Hre, Hns. cbn [fst] in Hre, Hns.
        split; [|split].
        -- eapply MI_step; [exact HM|reflexivity| |].
           ++ unfold thread_ok, prog_ok. cbn. repeat split; try discriminate.
           ++ intros u Hne. apply (thread_ok_transfer m _ u _ (HM u)); cbn [m_rlock m_plock m_pool]; auto.
        -- apply (sim_lin m _ t (XAlloc false) (x :: alive m)); cbn [m_pool m_thr erase].
           ++ rewrite get_set_thr, N.eqb_refl, Eth. reflexivity.
           ++ unfold stepx, alloc_x. cbn [andb]. rewrite Ea. reflexivity.
           ++ intros y. rewrite cnt_cons, alive_cnt_set, (alive_cnt m y t), Eth. unfold pend. cbn [t_pc].
              rewrite cnt_cons. lia.
        -- unch.
    + destruct (mem x (m_live m)) eqn:Emem; [|discriminate]. apply mem_In in Emem.
      destruct (handover (m_pool m) t) eqn:Eh.
      * (* hand-over needed: thread-local cut, nothing shared yet *)
        injection Hs as <-.
        split; [|split].
        -- eapply MI_step; [exact HM|reflexivity| |].
           ++ unfold thread_ok, prog_ok. cbn. repeat split; try discriminate. eauto.
           ++ intros u Hne. apply (thread_ok_transfer m _ u _ (HM u)); cbn [m_rlock m_plock m_pool]; auto.
        -- apply sim_stutter; cbn [m_pool m_thr].
           ++ reflexivity.
           ++ intros y. rewrite alive_cnt_set, (alive_cnt m y t), Eth. unfold pend. cbn [t_pc].
              rewrite (cnt_remove_one x (m_live m) y Emem), cnt_cons. cbn [count_occ]. lia.
           ++ rewrite get_set_thr, N.eqb_refl, Eth. reflexivity.
        -- unch.
      * (* plain push / chop: thread-local, linearised here *)
        destruct (free (m_pool m) t x) as [p' r] eqn:Ef. destruct r; try discriminate.
        injection Hs as <-.
        pose proof (free_local_reuse (m_pool m) t x Eh) as Hre. pose proof (free_nslabs (m_pool m) t x) as Hns.
        rewrite Ef in Hre, Hns. cbn [fst] in Hre, Hns.
        assert (Hal : In x (alive m)) by (unfold alive; apply in_or_app; left; exact Emem).
        split; [|split].
        -- eapply MI_step; [exact HM|reflexivity| |].
           ++ unfold thread_ok, prog_ok. cbn. repeat split; try discriminate.
           ++ intros u Hne. apply (thread_ok_transfer m _ u _ (HM u)); cbn [m_rlock m_plock m_pool]; auto.
        -- apply (sim_lin m _ t (XFree x) (remove_one x (alive m))); cbn [m_pool m_thr erase].
           ++ rewrite get_set_thr, N.eqb_refl, Eth. reflexivity.
           ++ unfold stepx. rewrite (proj2 (mem_In x (alive m)) Hal), Ef. reflexivity.
           ++ intros y. pose proof (cnt_remove_one x (alive m) y Hal) as H1.
              pose proof (cnt_remove_one x (m_live m) y Emem) as H2.
              rewrite alive_cnt_set. rewrite (alive_cnt m y t), Eth in H1. unfold pend in *. cbn [t_pc] in *.
              cbn [count_occ] in *. lia.
        -- unch.
  - (* A_LockR *)
    destruct (m_rlock m) eqn:El; [discriminate|]. injection Hs as <-.
    split; [|split].
    + eapply MI_step; [exact HM|reflexivity| |].
      * unfold thread_ok, prog_ok. cbn. repeat split; try discriminate. exact Hprog.
      * intros u Hne. apply (thread_ok_transfer m _ u _ (HM u)); cbn [m_rlock m_plock m_pool]; auto.
        intros Hin. contra_r HM u Hin.
    + apply sim_stutter; cbn [m_pool m_thr]; [reflexivity| |rewrite get_set_thr, N.eqb_refl, Eth; reflexivity].
      intros y. rewrite alive_cnt_set, (alive_cnt m y t), Eth. reflexivity.
    + unch.
  - (* A_ReadR *)
    injection Hs as <-.
    split; [|split].
    + eapply MI_step; [exact HM|reflexivity| |].
      * unfold thread_ok, prog_ok. cbn [t_pc t_prog m_rlock m_plock m_pool].
        destruct (p_reuse (m_pool m)) eqn:Er; cbn [in_r in_p]; repeat split; try discriminate; auto.
      * intros u Hne. apply (thread_ok_transfer m _ u _ (HM u)); cbn [m_rlock m_plock m_pool]; auto.
    + apply sim_stutter; cbn [m_pool m_thr]; [reflexivity| |rewrite get_set_thr, N.eqb_refl, Eth; reflexivity].
      intros y. rewrite alive_cnt_set, (alive_cnt m y t), Eth. unfold pend. cbn [t_pc].
      destruct (p_reuse (m_pool m)); reflexivity.
    + unch.
  - (* A_WriteR: reuse_pool := rest — the refill is linearised here *)
    destruct Hseen as [Hsn Hne0]. subst seen. rewrite with_reuse_id in Hs.
    destruct (alloc (m_pool m) t) as [p' r] eqn:Ea. destruct r as [x| |]; try discriminate.
    injection Hs as <-. destruct Hprog as [rest Hrest]. subst prog. cbn [tl] in *.
    pose proof (alloc_refill_nslabs (m_pool m) (p_reuse (m_pool m)) t Hne0) as Hns.
    rewrite with_reuse_id, Ea in Hns. cbn [fst] in Hns.
    specialize (Hr eq_refl).
    split; [|split].
    + eapply MI_step; [exact HM|reflexivity| |].
      * unfold thread_ok, prog_ok. cbn. repeat split; try discriminate; auto.
      * intros u Hne. apply (thread_ok_transfer m _ u _ (HM u)); cbn [m_rlock m_plock m_pool]; auto.
        intros Hin. contra_r HM u Hin.
    + apply (sim_lin m _ t (XAlloc false) (x :: alive m)); cbn [m_pool m_thr erase].
      * rewrite get_set_thr, N.eqb_refl, Eth. reflexivity.
      * unfold stepx, alloc_x. cbn [andb]. rewrite Ea. reflexivity.
      * intros y. rewrite cnt_cons, alive_cnt_set, (alive_cnt m y t), Eth. unfold pend. cbn [t_pc].
        rewrite cnt_cons. lia.
    + unch.
  - (* A_UnlockR *)
    injection Hs as <-. specialize (Hr eq_refl).
    split; [|split].
    + eapply MI_step; [exact HM|reflexivity| |].
      * unfold thread_ok, prog_ok. cbn [t_pc t_prog]. destruct got; cbn; repeat split; try discriminate. exact Hprog.
      * intros u Hne. apply (thread_ok_transfer m _ u _ (HM u)); cbn [m_rlock m_plock m_pool]; auto.
        intros Hin. contra_r HM u Hin.
    + apply sim_stutter; cbn [m_pool m_thr]; [reflexivity| |rewrite get_set_thr, N.eqb_refl, Eth; reflexivity].
      intros y. rewrite alive_cnt_set, (alive_cnt m y t), Eth. unfold pend. cbn [t_pc]. destruct got; reflexivity.
    + unch.
  - (* A_LockP *)
    destruct (m_plock m) eqn:El; [discriminate|]. injection Hs as <-.
    split; [|split].
    + eapply MI_step; [exact HM|reflexivity| |].
      * unfold thread_ok, prog_ok. cbn. repeat split; try discriminate. exact Hprog.
      * intros u Hne. apply (thread_ok_transfer m _ u _ (HM u)); cbn [m_rlock m_plock m_pool]; auto.
        intros Hin. contra_p HM u Hin.
    + apply sim_stutter; cbn [m_pool m_thr]; [reflexivity| |rewrite get_set_thr, N.eqb_refl, Eth; reflexivity].
      intros y. rewrite alive_cnt_set, (alive_cnt m y t), Eth. reflexivity.
    + unch.
  - (* A_ReadP *)
    injection Hs as <-.
    split; [|split].
    + eapply MI_step; [exact HM|reflexivity| |].
      * unfold thread_ok, prog_ok. cbn. repeat split; try discriminate; auto.
      * intros u Hne. apply (thread_ok_transfer m _ u _ (HM u)); cbn [m_rlock m_plock m_pool]; auto.
    + apply sim_stutter; cbn [m_pool m_thr]; [reflexivity| |rewrite get_set_thr, N.eqb_refl, Eth; reflexivity].
      intros y. rewrite alive_cnt_set, (alive_cnt m y t), Eth. reflexivity.
    + unch.
  - (* A_WriteP: the new slab is registered — linearised here (relaxed alloc) *)
    subst s. rewrite with_nslabs_id in Hs.
    destruct (alloc_x true (m_pool m) t) as [p' r] eqn:Ea. destruct r as [x| |]; try discriminate.
    injection Hs as <-. destruct Hprog as [rest Hrest]. subst prog. cbn [tl] in *.
    pose proof (alloc_x_reuse (m_pool m) t) as Hre. rewrite Ea in Hre. cbn [fst] in Hre.
    specialize (Hp eq_refl).
    split; [|split].
    + eapply MI_step; [exact HM|reflexivity| |].
      * unfold thread_ok, prog_ok. cbn. repeat split; try discriminate; auto.
      * intros u Hne. apply (thread_ok_transfer m _ u _ (HM u)); cbn [m_rlock m_plock m_pool]; auto.
        intros Hin. contra_p HM u Hin.
    + apply (sim_lin m _ t (XAlloc true) (x :: alive m)); cbn [m_pool m_thr erase].
      * rewrite get_set_thr, N.eqb_refl, Eth. reflexivity.
      * unfold stepx. rewrite Ea. reflexivity.
      * intros y. rewrite cnt_cons, alive_cnt_set, (alive_cnt m y t), Eth. unfold pend. cbn [t_pc].
        rewrite cnt_cons. lia.
    + unch.
  - (* A_UnlockP *)
    injection Hs as <-. specialize (Hp eq_refl).
    split; [|split].
    + eapply MI_step; [exact HM|reflexivity| |].
      * unfold thread_ok, prog_ok. cbn. repeat split; try discriminate.
      * intros u Hne. apply (thread_ok_transfer m _ u _ (HM u)); cbn [m_rlock m_plock m_pool]; auto.
        intros Hin. contra_p HM u Hin.
    + apply sim_stutter; cbn [m_pool m_thr]; [reflexivity| |rewrite get_set_thr, N.eqb_refl, Eth; reflexivity].
      intros y. rewrite alive_cnt_set, (alive_cnt m y t), Eth. reflexivity.
    + unch.
  - (* F_LockR *)
    destruct (m_rlock m) eqn:El; [discriminate|]. injection Hs as <-.
    split; [|split].
    + eapply MI_step; [exact HM|reflexivity| |].
      * unfold thread_ok, prog_ok. cbn. repeat split; try discriminate. exact Hprog.
      * intros u Hne. apply (thread_ok_transfer m _ u _ (HM u)); cbn [m_rlock m_plock m_pool]; auto.
        intros Hin. contra_r HM u Hin.
    + apply sim_stutter; cbn [m_pool m_thr]; [reflexivity| |rewrite get_set_thr, N.eqb_refl, Eth; reflexivity].
      intros y. rewrite alive_cnt_set, (alive_cnt m y t), Eth. reflexivity.
    + unch.
  - (* F_ReadR *)
    injection Hs as <-.
    split; [|split].
    + eapply MI_step; [exact HM|reflexivity| |].
      * unfold thread_ok, prog_ok. cbn. repeat split; try discriminate; auto.
      * intros u Hne. apply (thread_ok_transfer m _ u _ (HM u)); cbn [m_rlock m_plock m_pool]; auto.
    + apply sim_stutter; cbn [m_pool m_thr]; [reflexivity| |rewrite get_set_thr, N.eqb_refl, Eth; reflexivity].
      intros y. rewrite alive_cnt_set, (alive_cnt m y t), Eth. reflexivity.
    + unch.
  - (* F_WriteR: reuse_pool := batch ++ reuse_pool — the hand-over is linearised here *)
    subst seen. rewrite with_reuse_id in Hs.
    destruct (free (m_pool m) t x) as [p' r] eqn:Ef. destruct r; try discriminate.
    injection Hs as <-. destruct Hprog as [rest Hrest]. subst prog. cbn [tl] in *.
    pose proof (free_nslabs (m_pool m) t x) as Hns. rewrite Ef in Hns. cbn [fst] in Hns.
    specialize (Hr eq_refl).
    assert (Hal : In x (alive m)).
    { apply (count_occ_In item_eq_dec). rewrite (alive_cnt m x t), Eth. unfold pend. cbn [t_pc].
      rewrite cnt_cons, one_refl. lia. }
    split; [|split].
    + eapply MI_step; [exact HM|reflexivity| |].
      * unfold thread_ok, prog_ok. cbn. repeat split; try discriminate; auto.
      * intros u Hne. apply (thread_ok_transfer m _ u _ (HM u)); cbn [m_rlock m_plock m_pool]; auto.
        intros Hin. contra_r HM u Hin.
    + apply (sim_lin m _ t (XFree x) (remove_one x (alive m))); cbn [m_pool m_thr erase].
      * rewrite get_set_thr, N.eqb_refl, Eth. reflexivity.
      * unfold stepx. rewrite (proj2 (mem_In x (alive m)) Hal), Ef. reflexivity.
      * intros y. pose proof (cnt_remove_one x (alive m) y Hal) as H1.
        rewrite alive_cnt_set. rewrite (alive_cnt m y t), Eth in H1. unfold pend in *. cbn [t_pc] in *.
        rewrite cnt_cons in H1. cbn [count_occ] in *. lia.
    + unch.
  - (* F_UnlockR *)
    injection Hs as <-. specialize (Hr eq_refl).
    split; [|split].
    + eapply MI_step; [exact HM|reflexivity| |].
      * unfold thread_ok, prog_ok. cbn. repeat split; try discriminate.
      * intros u Hne. apply (thread_ok_transfer m _ u _ (HM u)); cbn [m_rlock m_plock m_pool]; auto.
        intros Hin. contra_r HM u Hin.
    + apply sim_stutter; cbn [m_pool m_thr]; [reflexivity| |rewrite get_set_thr, N.eqb_refl, Eth; reflexivity].
      intros y. rewrite alive_cnt_set, (alive_cnt m y t), Eth. reflexivity.
    + unch.
Qed.

(* ---------------------------------------------------------------- histories *)
Lemma stepx_cnt p L1 L2 t o p' L1' :
  (forall y, cnt L1 y = cnt L2 y) -> stepx p L1 t o = Some (p', L1') ->
  exists L2', stepx p L2 t o = Some (p', L2') /\ forall y, cnt L1' y = cnt L2' y.
Proof.
  intros Hc. destruct o as [b|x]; cbn [stepx].
  - destruct (alloc_x b p t) as [q r]. destruct r as [z| |]; try discriminate.
    intros H. injection H as <- <-. eexists. split; [reflexivity|]. intros y. rewrite !cnt_cons, Hc. reflexivity.
  - destruct (mem x L1) eqn:M; [|discriminate]. apply mem_In in M.
    assert (M2 : In x L2).
    { apply (count_occ_In item_eq_dec). rewrite <- Hc. apply (count_occ_In item_eq_dec). exact M. }
    rewrite (proj2 (mem_In x L2) M2).
    destruct (free p t x) as [q r]. destruct r; try discriminate.
    intros H. injection H as <- <-. eexists. split; [reflexivity|]. intros y.
    pose proof (cnt_remove_one x L1 y M). pose proof (cnt_remove_one x L2 y M2). specialize (Hc y). lia.
Qed.

Lemma proj_cons_same t o h : proj t ((t, o) :: h) = erase o :: proj t h.
Proof. unfold proj. cbn [filter fst]. rewrite N.eqb_refl. reflexivity. Qed.
Lemma proj_cons_other t u o h : u <> t -> proj u ((t, o) :: h) = proj u h.
Proof. intros H. unfold proj. cbn [filter fst]. rewrite N.eqb_sym. apply N.eqb_neq in H. rewrite H. reflexivity. Qed.

(* every schedule: the pool reached by the micro machine is, AT EVERY POINT of the execution (not only when no
   thread is inside a critical section), the pool reached by an op-atomic history of the same operations in the
   order of their lock-protected writes; each thread's operations appear in its program order *)
Lemma mrun_refines : forall s m m' L,
  MI m -> mrun true m s = Some m' -> (forall y, cnt L y = cnt (alive m) y) ->
  MI m' /\
  exists h L', runx (m_pool m) L h = Some (m_pool m', L') /\
               (forall y, cnt L' y = cnt (alive m') y) /\
               forall u, proj u h ++ t_prog (get_thr u (m_thr m')) = t_prog (get_thr u (m_thr m)).
Proof.
  induction s as [|t s IH]; intros m m' L HM Hrun HL; cbn [mrun] in Hrun.
  - injection Hrun as <-. split; [exact HM|]. exists [], L. cbn [runx]. repeat split; auto.
  - destruct (mstep true m t) as [m1|] eqn:Es; [|discriminate].
    destruct (mstep_sim m t m1 HM Es) as (HM1 & Hsim & Hoth).
    destruct Hsim as [Hpool Hal Hprog | xo L1 Hprog Hstep Hal].
    + destruct (IH m1 m' L HM1 Hrun) as (HM' & h & L' & Hr & Hc & Hp).
      { intros y. rewrite HL, Hal. reflexivity. }
      split; [exact HM'|]. exists h, L'. rewrite <- Hpool. repeat split; try assumption.
      intros u. rewrite Hp. destruct (N.eq_dec u t) as [->|Hne]; [exact Hprog|]. rewrite (Hoth u Hne). reflexivity.
    + destruct (stepx_cnt _ _ L _ _ _ _ (fun y => eq_sym (HL y)) Hstep) as (L2 & Hstep2 & Hc2).
      destruct (IH m1 m' L2 HM1 Hrun) as (HM' & h & L' & Hr & Hc & Hp).
      { intros y. rewrite <- Hc2, Hal. reflexivity. }
      split; [exact HM'|]. exists ((t, xo) :: h), L'. cbn [runx]. rewrite Hstep2. repeat split; try assumption.
      intros u. destruct (N.eq_dec u t) as [->|Hne].
      * rewrite proj_cons_same. cbn [app]. rewrite Hp, Hprog. reflexivity.
      * rewrite (proj_cons_other t u xo h Hne), Hp, (Hoth u Hne). reflexivity.
Qed.

Lemma alive_init p thr : alive (minit p thr) = [].
Proof.
  unfold alive, minit. cbn [m_live m_thr app]. induction thr as [|e r IH]; [reflexivity|]. cbn. exact IH.
Qed.

(* ---------------------------------------------------------------- the relaxed atomic steps keep the invariant *)
Lemma alloc_x_inv b p L t : Inv p L ->
  exists p' x, alloc_x b p t = (p', RItem x) /\ ~ In x L /\ Inv p' (x :: L).
Proof.
  intros HI. unfold alloc_x.
  destruct (b && miss (get_cache t (p_caches p))) eqn:E; [|apply alloc_inv; exact HI].
  apply andb_true_iff in E. destruct E as [_ Em]. unfold miss in Em.
  pose proof HI as [Hipa Hre Hca Hpa].
  pose proof (inv_cache_ok p L t HI) as (Hcnt & Hshape & Hblk).
  destruct (get_cache t (p_caches p)) as [l n bk i] eqn:Eg. cbn [c_list c_count c_block c_i] in *.
  destruct l; [|discriminate]. destruct bk; [discriminate|].
  eexists _, (p_nslabs p, 0). split; [reflexivity|]. split.
  - intros Hin. apply (live_valid p L _ HI) in Hin. cbn in Hin. lia.
  - unfold with_cache, with_nslabs. cbn [p_item p_align p_alloc p_ipa p_reuse p_nslabs p_caches].
    apply (inv_update p L t); try assumption.
    + repeat split; cbn [c_list c_count c_block c_i]; try assumption; try lia.
    + intros y. rewrite Eg, all_items_succ, slab_tail. cn.
      rewrite (tail_step _ 0) by lia. rewrite cnt_cons. change (0 + 1) with 1. lia.
Qed.

Lemma inv_cnt p L1 L2 : Inv p L1 -> (forall y, cnt L1 y = cnt L2 y) -> Inv p L2.
Proof.
  intros [H1 H2 H3 H4] Hc. constructor; try assumption.
  apply perm_cnt. intros y. pose proof (proj1 (perm_cnt _ _) H4 y) as H.
  rewrite count_occ_app in *. rewrite <- Hc. exact H.
Qed.

Lemma runx_inv : forall h p L p' L', Inv p L -> runx p L h = Some (p', L') -> Inv p' L'.
Proof.
  induction h as [|[t o] h IH]; intros p L p' L' HI; cbn [runx].
  - intros H. injection H as <- <-. exact HI.
  - destruct o as [b|x]; cbn [stepx].
    + destruct (alloc_x_inv b p L t HI) as (q & z & E & _ & HI'). rewrite E. apply IH. exact HI'.
    + destruct (mem x L) eqn:M; [|discriminate]. apply mem_In in M.
      destruct (free_inv p L t x HI M) as (q & E & HI'). rewrite E. apply IH. exact HI'.
Qed.

(* without the relaxation the histories are exactly those of Model.run *)
Lemma alloc_x_false p t : alloc_x false p t = alloc p t.
Proof. reflexivity. Qed.
Lemma alloc_x_empty b p t : p_reuse p = [] -> alloc_x b p t = alloc p t.
Proof.
  intros Hr. unfold alloc_x. destruct (b && miss (get_cache t (p_caches p))) eqn:E; [|reflexivity].
  apply andb_true_iff in E. destruct E as [_ Em]. unfold miss in Em. unfold alloc.
  destruct (c_list (get_cache t (p_caches p))); [|discriminate].
  destruct (c_block (get_cache t (p_caches p))); [discriminate|]. rewrite Hr. reflexivity.
Qed.

(* ---------------------------------------------------------------- closed statements *)
Lemma micro_refines_atomic_all : forall p0 thr sched m,
  mrun true (minit p0 thr) sched = Some m ->
  exists h L, runx p0 [] h = Some (m_pool m, L) /\ Permutation L (alive m) /\
    forall u, proj u h ++ t_prog (get_thr u (m_thr m)) = t_prog (get_thr u (m_thr (minit p0 thr))).
Proof.
  intros p0 thr sched m Hrun.
  destruct (mrun_refines sched (minit p0 thr) m [] (MI_init p0 thr) Hrun) as (_ & h & L & Hr & Hc & Hp).
  { intros y. rewrite alive_init. reflexivity. }
  exists h, L. repeat split; [exact Hr| |exact Hp]. apply perm_cnt. exact Hc.
Qed.

Lemma lock_mutex_all : forall p0 thr sched m t u,
  mrun true (minit p0 thr) sched = Some m ->
  (in_r (t_pc (get_thr t (m_thr m))) = true -> in_r (t_pc (get_thr u (m_thr m))) = true -> t = u) /\
  (in_p (t_pc (get_thr t (m_thr m))) = true -> in_p (t_pc (get_thr u (m_thr m))) = true -> t = u).
Proof.
  intros p0 thr sched m t u Hrun.
  destruct (mrun_refines sched (minit p0 thr) m [] (MI_init p0 thr) Hrun) as (HM & _).
  { intros y. rewrite alive_init. reflexivity. }
  split; [apply lock_mutex_r|apply lock_mutex_p]; exact HM.
Qed.

(* cache_wf / live_partition / alloc_fresh for EVERY interleaving, at every point of the execution.
   [alive m] = blocks the clients hold + blocks passed to a free whose hand-over is not yet linearised. *)
Lemma micro_inv_all : forall s0 thr sched m,
  2 <= s_ipa s0 ->
  mrun true (minit (pool_of_sizes s0) thr) sched = Some m ->
  (batches (N.to_nat (p_ipa (m_pool m))) (p_reuse (m_pool m)) /\
   forall t, cache_ok (p_ipa (m_pool m)) (get_cache t (p_caches (m_pool m)))) /\
  Permutation (free_items (m_pool m) ++ alive m) (all_items (p_ipa (m_pool m)) (p_nslabs (m_pool m))) /\
  NoDup (alive m) /\
  forall t b, exists p' x, alloc_x b (m_pool m) t = (p', RItem x) /\ ~ In x (alive m).
Proof.
  intros s0 thr sched m H2 Hrun.
  destruct (mrun_refines sched (minit (pool_of_sizes s0) thr) m [] (MI_init _ thr) Hrun) as (_ & h & L & Hr & Hc & _).
  { intros y. rewrite alive_init. reflexivity. }
  cbn [minit m_pool] in Hr.
  pose proof (runx_inv h _ _ _ _ (init_inv s0 H2) Hr) as HI.
  pose proof (inv_cnt _ _ _ HI Hc) as HI'.
  split; [split|split; [|split]].
  - exact (inv_reuse _ _ HI').
  - intros t. exact (inv_cache_ok _ _ t HI').
  - exact (inv_part _ _ HI').
  - exact (inv_nodup_live _ _ HI').
  - intros t b. destruct (alloc_x_inv b _ _ t HI') as (p' & x & E & Hx & _). exists p', x. auto.
Qed.

(* ---------------------------------------------------------------- refutation: free's hand-over without reuse_lock *)
Definition s2m := mksizes 32768 16 65536 2 65536.
Definition progs_w : list (N * list op) :=
  [(1, [OAlloc; OAlloc; OAlloc; OAlloc; OFree (0, 0); OFree (0, 1); OFree (1, 0); OFree (1, 1)]);
   (2, [OAlloc; OAlloc; OAlloc; OAlloc; OFree (2, 0); OFree (2, 1); OFree (3, 0); OFree (3, 1)])].
(* both threads fill their caches to 2*ipa-1, start the hand-over, BOTH read reuse_pool (empty), then both write *)
Definition sched_w : list N :=
  repeat 1 12 ++ repeat 2 12 ++ [1; 1; 1; 2; 2; 2] ++ [1; 2] ++ [1; 2] ++ [1; 2].

Lemma unlocked_handover_refuted_all :
  exists m, mrun false (minit (pool_of_sizes s2m) progs_w) sched_w = Some m /\
    (forall u, t_pc (get_thr u (m_thr m)) = Idle /\ t_prog (get_thr u (m_thr m)) = []) /\
    alive m = [] /\ p_nslabs (m_pool m) = 4 /\
    items_of (p_reuse (m_pool m)) = [(2, 1); (2, 0)] /\
    ~ In (0, 0) (free_items (m_pool m) ++ alive m) /\ ~ In (0, 1) (free_items (m_pool m) ++ alive m) /\
    ~ Permutation (free_items (m_pool m) ++ alive m) (all_items (p_ipa (m_pool m)) (p_nslabs (m_pool m))).
Proof.
  eexists. split; [vm_compute; reflexivity|].
  split; [|split; [|split; [|split; [|split; [|split]]]]].
  - intros u. cbn [m_thr get_thr]. destruct (u =? 1); [split; reflexivity|]. destruct (u =? 2); split; reflexivity.
  - reflexivity.
  - reflexivity.
  - reflexivity.
  - vm_compute. intuition discriminate.
  - vm_compute. intuition discriminate.
  - intros H. apply Permutation_length in H. vm_compute in H. discriminate.
Qed.
(* the same programs and the same order of thread turns with the lock: thread 2 is blocked at its lock step *)
Lemma locked_same_schedule_blocked : mrun true (minit (pool_of_sizes s2m) progs_w) sched_w = None.
Proof. vm_compute. reflexivity. Qed.

(* ---------------------------------------------------------------- non-vacuity *)
(* a feasible locked schedule with both hand-overs in flight at once: both batches arrive *)
Definition sched_ok : list N :=
  repeat 1 12 ++ repeat 2 12 ++ [1; 1; 1; 2; 2; 2] ++ [1; 2] ++ [1; 1; 1; 1] ++ [2; 2; 2; 2].
Example locked_run :
  exists m, mrun true (minit (pool_of_sizes s2m) progs_w) sched_ok = Some m /\
            items_of (p_reuse (m_pool m)) = [(2, 1); (2, 0); (0, 1); (0, 0)] /\ alive m = [].
Proof. eexists. split; [vm_compute; reflexivity|]. split; reflexivity. Qed.

(* the relaxation is real: thread 3 peeks an empty shared list, thread 1 then hands a batch over, and thread 3 still
   registers a new slab although the list is no longer empty (Model.alloc at that point would refill) *)
Definition progs_s : list (N * list op) :=
  [(1, [OAlloc; OAlloc; OAlloc; OAlloc; OFree (0, 0); OFree (0, 1); OFree (1, 0); OFree (1, 1)]); (3, [OAlloc])].
Definition sched_s : list N := repeat 1 12 ++ [1; 1; 1] ++ [3] ++ [1; 1; 1; 1; 1] ++ [3; 3; 3; 3].
Example spurious_new_slab :
  exists m, mrun true (minit (pool_of_sizes s2m) progs_s) sched_s = Some m /\
            items_of (p_reuse (m_pool m)) = [(0, 1); (0, 0)] /\ p_nslabs (m_pool m) = 3 /\ alive m = [(2, 0)].
Proof. eexists. split; [vm_compute; reflexivity|]. repeat split; reflexivity. Qed.
