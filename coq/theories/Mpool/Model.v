(* Executable model of src/mpool.c (C14) — concrete layer, mirrors the code branch by branch.
   Items are (slab ordinal, index); the intrusive free lists (next / block_tail stored in the
   item) are lists of (item, block_tail) read along the `next` chain; `x->block_tail->next = ...`
   becomes "cut the chain after the first element whose item is block_tail" ([split_after]).
   Definitions only (proofs are in Proofs.v), stdlib only, everything extractable. *)
From Coq Require Import List NArith Bool.
Import ListNotations.
Local Open Scope N_scope.

(* ------------------------------------------------------------------ *)
(* qt_mpool_create_aligned: size arithmetic                            *)
(* ------------------------------------------------------------------ *)
Definition PTRSZ : N := 8.     (* sizeof of a pointer *)
Definition HDRSZ : N := 16.    (* sizeof(qt_mpool_cache_t): next + block_tail *)
Definition FUEL : nat := 80.

(* while ((alloc_size / item_size < 128) && (alloc_size <= max_alloc_size / 2)) alloc_size *= 2; *)
Fixpoint dbl1 (fuel : nat) (a isz maxa : N) : option N :=
  match fuel with
  | O => None
  | S f => if (a / isz <? 128) && (a <=? maxa / 2) then dbl1 f (a * 2) isz maxa else Some a
  end.
(* while (alloc_size < pagesize * 16) alloc_size *= 2; *)
Fixpoint dbl2 (fuel : nat) (a lim : N) : option N :=
  match fuel with
  | O => None
  | S f => if a <? lim then dbl2 f (a * 2) lim else Some a
  end.

(* qt_lcm (MOD GCD variant; the value of qt_gcd is the mathematical gcd) *)
Definition qt_lcm (a b : N) : N :=
  let g := N.gcd a b in if g =? 0 then 0 else a * b / g.

Record sizes := mksizes {
  s_item : N;      (* pool->item_size (NOT re-rounded to a page multiple) *)
  s_align : N;     (* pool->alignment *)
  s_alloc : N;     (* pool->alloc_size *)
  s_ipa : N;       (* pool->items_per_alloc *)
  s_max : N        (* the function-static max_alloc_size after the call *)
}.

(* [max0]: value of the static before the call (0 = not yet read); [env_max]: what
   qt_internal_get_env_num("MAX_POOL_ALLOC_SIZE", SIZE_MAX, 0) returns. *)
Definition create_sizes (pagesize env_max max0 item_req align_req : N) : option sizes :=
  let max1 := if max0 =? 0 then env_max else max0 in
  let i1 := if item_req <? HDRSZ then HDRSZ else item_req in
  let i2 := if i1 mod PTRSZ =? 0 then i1 else i1 + (PTRSZ - i1 mod PTRSZ) in
  let al := if align_req <=? 16 then 16 else align_req in
  let i3 := if i2 mod al =? 0 then i2 else i2 + (al - i2 mod al) in
  let max2 := if max1 <=? i3 * 2 then i3 * 2 else max1 in
  let l := qt_lcm i3 pagesize in
  let '(i4, a1) :=
    if max2 <? l then
      let i4 := i3 + (pagesize - i3 mod pagesize) in
      let mn := max2 / i4 in
      let mn := if mn <? 2 then 2 else mn in
      (i4, i4 * mn)
    else (i3, l) in
  let a2 :=
    if a1 =? 0 then Some (if pagesize <? i4 then i4 else pagesize)
    else match dbl1 FUEL a1 i4 max2 with
         | None => None
         | Some a => dbl2 FUEL a (pagesize * 16)
         end in
  match a2 with
  | None => None
  | Some a => Some (mksizes i3 al a (a / i4) max2)
  end.

(* ------------------------------------------------------------------ *)
(* pool state                                                          *)
(* ------------------------------------------------------------------ *)
Definition item := (N * N)%type.                 (* (slab ordinal, index in slab) *)
Definition item_eqb (a b : item) : bool := (fst a =? fst b) && (snd a =? snd b).
Definition entry := (item * item)%type.          (* (item, its block_tail field) *)

Record cache := mkcache {
  c_list : list entry;        (* tc->cache chain *)
  c_count : N;                (* tc->count *)
  c_block : option N;         (* tc->block: slab being carved *)
  c_i : N                     (* tc->i *)
}.
Definition empty_cache := mkcache [] 0 None 0.

Record pool := mkpool {
  p_item : N; p_align : N; p_alloc : N; p_ipa : N;
  p_reuse : list entry;       (* pool->reuse_pool chain (batches concatenated) *)
  p_nslabs : N;               (* number of slabs recorded in alloc_list *)
  p_caches : list (N * cache) (* pthread-specific caches, by thread id *)
}.

Fixpoint get_cache (t : N) (l : list (N * cache)) : cache :=
  match l with
  | [] => empty_cache
  | (t', c) :: r => if t =? t' then c else get_cache t r
  end.
Fixpoint set_cache (t : N) (c : cache) (l : list (N * cache)) : list (N * cache) :=
  match l with
  | [] => [(t, c)]
  | (t', c') :: r => if t =? t' then (t, c) :: r else (t', c') :: set_cache t c r
  end.

Definition with_cache (p : pool) (t : N) (c : cache) : pool :=
  mkpool (p_item p) (p_align p) (p_alloc p) (p_ipa p) (p_reuse p) (p_nslabs p) (set_cache t c (p_caches p)).
Definition with_reuse (p : pool) (r : list entry) : pool :=
  mkpool (p_item p) (p_align p) (p_alloc p) (p_ipa p) r (p_nslabs p) (p_caches p).
Definition with_nslabs (p : pool) (n : N) : pool :=
  mkpool (p_item p) (p_align p) (p_alloc p) (p_ipa p) (p_reuse p) n (p_caches p).

(* cut the chain after the first element whose item is [x] *)
Fixpoint split_after (x : item) (l : list entry) : option (list entry * list entry) :=
  match l with
  | [] => None
  | e :: r => if item_eqb (fst e) x then Some ([e], r)
              else match split_after x r with
                   | Some (a, b) => Some (e :: a, b)
                   | None => None
                   end
  end.

Inductive result := RItem (x : item) | RUnit | RStuck.

Definition pool_of_sizes (s : sizes) : pool :=
  mkpool (s_item s) (s_align s) (s_alloc s) (s_ipa s) [] 0 [].

(* ------------------------------------------------------------------ *)
(* qt_mpool_alloc                                                      *)
(* ------------------------------------------------------------------ *)
Definition alloc (p : pool) (t : N) : pool * result :=
  let tc := get_cache t (p_caches p) in
  match c_list tc with
  | e :: r =>                                    (* if (tc->cache) *)
      (with_cache p t (mkcache r (N.pred (c_count tc)) (c_block tc) (c_i tc)), RItem (fst e))
  | [] =>
      match c_block tc with
      | Some s =>                                (* else if (tc->block) *)
          let i' := c_i tc + 1 in
          let tc' := if i' =? p_ipa p then mkcache [] (c_count tc) None i'
                     else mkcache [] (c_count tc) (Some s) i' in
          (with_cache p t tc', RItem (s, c_i tc))
      | None =>
          match p_reuse p with
          | e :: _ =>                            (* pool->reuse_pool non-NULL: take one batch *)
              match split_after (snd e) (p_reuse p) with
              | Some (batch, rest) =>
                  (with_cache (with_reuse p rest) t
                     (mkcache (tl batch) (p_ipa p - 1) None (c_i tc)), RItem (fst e))
              | None => (p, RStuck)
              end
          | [] =>                                (* new slab *)
              let s := p_nslabs p in
              (with_cache (with_nslabs p (s + 1)) t (mkcache [] (c_count tc) (Some s) 1), RItem (s, 0))
          end
      end
  end.

(* ------------------------------------------------------------------ *)
(* qt_mpool_free                                                       *)
(* ------------------------------------------------------------------ *)
Definition free (p : pool) (t : N) (x : item) : pool * result :=
  let tc := get_cache t (p_caches p) in
  let ipa := p_ipa p in
  let bt := match c_list tc with e :: _ => snd e | [] => x end in
  let cnt := c_count tc + 1 in
  if ipa * 2 <=? cnt then
    (* push to global: toglobal = n->block_tail->next; n->block_tail->next = NULL *)
    match split_after bt ((x, bt) :: c_list tc) with
    | Some (keep, tog) =>
        match tog with
        | e :: _ =>
            (* toglobal->block_tail->next = pool->reuse_pool; what follows block_tail is lost *)
            match split_after (snd e) tog with
            | Some (batch, _) =>
                (with_cache (with_reuse p (batch ++ p_reuse p)) t
                   (mkcache keep (cnt - ipa) (c_block tc) (c_i tc)), RUnit)
            | None => (p, RStuck)
            end
        | [] => (p, RStuck)
        end
    | None => (p, RStuck)
    end
  else if cnt =? ipa + 1 then                    (* chop_block *)
    (with_cache p t (mkcache ((x, x) :: c_list tc) cnt (c_block tc) (c_i tc)), RUnit)
  else
    (with_cache p t (mkcache ((x, bt) :: c_list tc) cnt (c_block tc) (c_i tc)), RUnit).

(* ------------------------------------------------------------------ *)
(* several pools + the function-static max_alloc_size                  *)
(* ------------------------------------------------------------------ *)
Record world := mkworld { w_max : N; w_pools : list (N * pool) }.

Fixpoint get_pool (k : N) (l : list (N * pool)) : option pool :=
  match l with
  | [] => None
  | (k', p) :: r => if k =? k' then Some p else get_pool k r
  end.
Fixpoint set_pool (k : N) (p : pool) (l : list (N * pool)) : list (N * pool) :=
  match l with
  | [] => [(k, p)]
  | (k', p') :: r => if k =? k' then (k, p) :: r else (k', p') :: set_pool k p r
  end.
Fixpoint del_pool (k : N) (l : list (N * pool)) : list (N * pool) :=
  match l with
  | [] => []
  | (k', p') :: r => if k =? k' then del_pool k r else (k', p') :: del_pool k r
  end.

Inductive wop :=
| WCreate (pid size align : N)
| WAlloc (pid tid : N)
| WFree (pid tid : N) (x : item)
| WDestroy (pid : N).

Definition world_step (pagesize env_max : N) (w : world) (o : wop) : world * result :=
  match o with
  | WCreate k sz al =>
      match create_sizes pagesize env_max (w_max w) sz al with
      | Some s => (mkworld (s_max s) (set_pool k (pool_of_sizes s) (w_pools w)), RUnit)
      | None => (w, RStuck)
      end
  | WAlloc k t =>
      match get_pool k (w_pools w) with
      | Some p => let '(p', r) := alloc p t in (mkworld (w_max w) (set_pool k p' (w_pools w)), r)
      | None => (w, RStuck)
      end
  | WFree k t x =>
      match get_pool k (w_pools w) with
      | Some p => let '(p', r) := free p t x in (mkworld (w_max w) (set_pool k p' (w_pools w)), r)
      | None => (w, RStuck)
      end
  | WDestroy k => (mkworld (w_max w) (del_pool k (w_pools w)), RUnit)
  end.

(* address of an item inside its slab, and the block it denotes *)
Definition offset_of (p : pool) (x : item) : N := snd x * p_item p.

(* ------------------------------------------------------------------ *)
(* histories under the client contract "free only what you hold, once" *)
(* ------------------------------------------------------------------ *)
Inductive op := OAlloc | OFree (x : item).
Inductive outcome := Ok (p : pool) (live : list item) | BadClient | Stuck.

Fixpoint mem (x : item) (l : list item) : bool :=
  match l with [] => false | y :: r => item_eqb x y || mem x r end.
Fixpoint remove_one (x : item) (l : list item) : list item :=
  match l with [] => [] | y :: r => if item_eqb x y then r else y :: remove_one x r end.

(* [live] = blocks currently held by clients (ghost state of the contract) *)
Fixpoint run (p : pool) (live : list item) (h : list (N * op)) : outcome :=
  match h with
  | [] => Ok p live
  | (t, OAlloc) :: h' =>
      match alloc p t with
      | (p', RItem x) => run p' (x :: live) h'
      | _ => Stuck
      end
  | (t, OFree x) :: h' =>
      if mem x live then
        match free p t x with
        | (p', RUnit) => run p' (remove_one x live) h'
        | _ => Stuck
        end
      else BadClient
  end.
