(* C14: size arithmetic of qt_mpool_create_aligned, for ALL item sizes, alignments, limits and page sizes. *)
From Coq Require Import List NArith Bool Lia ZifyBool ZifyN.
From QV Require Import Mpool.Model.
Import ListNotations.
Local Open Scope N_scope.

Lemma round_up_mod a m : m <> 0 ->
  (if a mod m =? 0 then a else a + (m - a mod m)) mod m = 0.
Proof.
  intros Hm. destruct (a mod m =? 0) eqn:E.
  - apply N.eqb_eq in E. exact E.
  - apply N.eqb_neq in E.
    pose proof (N.div_mod a m Hm) as Hd.
    pose proof (N.mod_lt a m Hm) as Hl.
    replace (a + (m - a mod m)) with ((a / m + 1) * m) by nia.
    apply N.mod_mul. exact Hm.
Qed.

Lemma round_up_ge a m : m <> 0 ->
  a <= (if a mod m =? 0 then a else a + (m - a mod m)).
Proof. intros. destruct (a mod m =? 0); lia. Qed.

Lemma div_double a b : b <> 0 -> 2 * (a / b) <= (a * 2) / b.
Proof.
  intros Hb. apply N.div_le_lower_bound; [exact Hb|].
  pose proof (N.mul_div_le a b Hb). nia.
Qed.

(* first doubling loop: terminates within 8 rounds, never shrinks, doubles at least once when its guard holds *)
Lemma dbl1_spec : forall fuel a isz maxa,
  isz <> 0 -> 128 <= (a / isz) * 2 ^ N.of_nat (pred fuel) -> (fuel <> 0)%nat ->
  exists r, dbl1 fuel a isz maxa = Some r /\ a <= r /\
            ((a / isz <? 128) && (a <=? maxa / 2) = true -> a * 2 <= r).
Proof.
  induction fuel as [|f IH]; intros a isz maxa Hi H128 Hf; [congruence|].
  cbn [dbl1]. destruct ((a / isz <? 128) && (a <=? maxa / 2)) eqn:G.
  - destruct f as [|f'].
    + cbn in H128. lia.
    + destruct (IH (a * 2) isz maxa Hi) as (r & Hr & Hle & _).
      * pose proof (div_double a isz Hi) as Hd.
        cbn [pred] in *. rewrite Nat2N.inj_succ, N.pow_succ_r' in H128. nia.
      * congruence.
      * exists r. split; [exact Hr|]. split; [lia|]. intros _. lia.
  - exists a. split; [reflexivity|]. split; [lia|]. intros; congruence.
Qed.

Lemma dbl2_spec : forall fuel a lim,
  1 <= a -> lim <= a * 2 ^ N.of_nat (pred fuel) -> (fuel <> 0)%nat ->
  exists r, dbl2 fuel a lim = Some r /\ a <= r /\ lim <= r.
Proof.
  induction fuel as [|f IH]; intros a lim Ha Hl Hf; [congruence|].
  cbn [dbl2]. destruct (a <? lim) eqn:G.
  - destruct f as [|f'].
    + cbn in Hl. lia.
    + destruct (IH (a * 2) lim) as (r & Hr & Hle & Hlim).
      * lia.
      * cbn [pred] in *. rewrite Nat2N.inj_succ, N.pow_succ_r' in Hl. nia.
      * congruence.
      * exists r. repeat split; try assumption; lia.
  - exists a. repeat split; lia.
Qed.

Lemma qt_lcm_ge a b : a <> 0 -> b <> 0 -> a <= qt_lcm a b /\ (qt_lcm a b = a \/ a * 2 <= qt_lcm a b).
Proof.
  intros Ha Hb. unfold qt_lcm.
  assert (Hg : N.gcd a b <> 0) by (intro E; apply N.gcd_eq_0_l in E; contradiction).
  destruct (N.gcd a b =? 0) eqn:E; [apply N.eqb_eq in E; contradiction|].
  destruct (N.gcd_divide_r a b) as [q Hq].
  assert (Hq0 : q <> 0) by (intro; subst q; lia).
  replace (a * b / N.gcd a b) with (a * q).
  2:{ symmetry. rewrite Hq at 1. rewrite N.mul_assoc. apply N.div_mul. exact Hg. }
  split; [nia|]. destruct (N.eq_dec q 1); [left; nia|right; nia].
Qed.

Record sizes_ok (item_req align_req : N) (s : sizes) : Prop := {
  so_item_ge : item_req <= s_item s;
  so_item_hdr : HDRSZ <= s_item s;
  so_item_mod : s_item s mod s_align s = 0;
  so_align : 16 <= s_align s /\ align_req <= s_align s /\ (s_align s = 16 \/ s_align s = align_req);
  so_ipa : 2 <= s_ipa s;
  so_fit : s_ipa s * s_item s <= s_alloc s;
  so_max : s_item s * 2 <= s_max s
}.

Theorem create_sizes_ok : forall pagesize env_max max0 item_req align_req s,
  pagesize <> 0 ->
  create_sizes pagesize env_max max0 item_req align_req = Some s ->
  sizes_ok item_req align_req s.
Proof.
  intros pagesize env_max max0 item_req align_req s Hp.
  unfold create_sizes.
  set (max1 := if max0 =? 0 then env_max else max0).
  set (i1 := if item_req <? HDRSZ then HDRSZ else item_req).
  set (i2 := if i1 mod PTRSZ =? 0 then i1 else i1 + (PTRSZ - i1 mod PTRSZ)).
  set (al := if align_req <=? 16 then 16 else align_req).
  set (i3 := if i2 mod al =? 0 then i2 else i2 + (al - i2 mod al)).
  set (max2 := if max1 <=? i3 * 2 then i3 * 2 else max1).
  set (l := qt_lcm i3 pagesize).
  assert (Hal : 16 <= al /\ align_req <= al /\ (al = 16 \/ al = align_req))
    by (subst al; destruct (align_req <=? 16) eqn:E; lia).
  assert (Hal0 : al <> 0) by lia.
  assert (Hi1 : item_req <= i1 /\ HDRSZ <= i1) by (subst i1; unfold HDRSZ; destruct (item_req <? 16) eqn:E; lia).
  assert (Hi2 : i1 <= i2) by (apply round_up_ge; unfold PTRSZ; lia).
  assert (Hi3 : i2 <= i3) by (apply round_up_ge; exact Hal0).
  assert (Hi3m : i3 mod al = 0) by (apply round_up_mod; exact Hal0).
  assert (Hi30 : i3 <> 0) by (unfold HDRSZ in *; lia).
  assert (Hmax2 : i3 * 2 <= max2) by (subst max2; destruct (max1 <=? i3 * 2) eqn:E; lia).
  destruct (qt_lcm_ge i3 pagesize Hi30 Hp) as [Hl1 Hl2]. fold l in Hl1, Hl2.
  (* the pair (i4, a1) *)
  set (pr := if max2 <? l then
      let i4 := i3 + (pagesize - i3 mod pagesize) in
      let mn := max2 / i4 in
      let mn := if mn <? 2 then 2 else mn in
      (i4, i4 * mn)
    else (i3, l)).
  assert (Hpr : let '(i4, a1) := pr in i3 <= i4 /\ i4 <> 0 /\ a1 <> 0 /\
            (i4 * 2 <= a1 \/ (a1 = i4 /\ i4 * 2 <= max2))).
  { subst pr. destruct (max2 <? l) eqn:E.
    - cbv zeta. set (i4 := i3 + (pagesize - i3 mod pagesize)).
      pose proof (N.mod_lt i3 pagesize Hp).
      assert (i3 <= i4) by (subst i4; lia).
      assert (i4 <> 0) by lia.
      destruct (max2 / i4 <? 2) eqn:E2.
      + repeat split; try lia. 
      + apply N.ltb_ge in E2. repeat split; try lia; try nia.
    - repeat split; lia. }
  destruct pr as [i4 a1]. destruct Hpr as (H34 & H40 & Ha10 & Hcase).
  destruct (a1 =? 0) eqn:Ea; [apply N.eqb_eq in Ea; contradiction|].
  destruct (dbl1 FUEL a1 i4 max2) as [a|] eqn:D1; [|discriminate].
  destruct (dbl2 FUEL a (pagesize * 16)) as [a'|] eqn:D2; [|discriminate].
  intros Hs. injection Hs as <-. cbn [s_item s_align s_alloc s_ipa s_max].
  (* facts about the loops *)
  assert (Ha : a1 <= a /\ i4 * 2 <= a).
  { assert (Hq : 1 <= a1 / i4).
    { destruct Hcase as [Hc|[Hc _]].
      - apply N.div_le_lower_bound; [exact H40|lia].
      - subst a1. rewrite N.div_same by exact H40. lia. }
    destruct (dbl1_spec FUEL a1 i4 max2 H40) as (r & Hr & Hge & Hdbl).
    - unfold FUEL. cbn [pred]. change (N.of_nat 79) with 79. 
      assert (128 <= 2 ^ 79) by (vm_compute; discriminate). nia.
    - unfold FUEL; congruence.
    - rewrite D1 in Hr. injection Hr as <-. split; [exact Hge|].
      destruct Hcase as [Hc|[Hc Hm]]; [lia|].
      subst a1. apply Hdbl. rewrite N.div_same by exact H40.
      apply andb_true_intro. split; [reflexivity|].
      apply N.leb_le. apply N.div_le_lower_bound; lia. }
  assert (Ha' : a <= a').
  { clear -D2. revert a D2. unfold FUEL. generalize 80%nat.
    induction n; intros a D2; cbn [dbl2] in D2; [discriminate|].
    destruct (a <? pagesize * 16); [apply IHn in D2; lia|injection D2 as <-; lia]. }
  assert (Hipa : 2 <= a' / i4) by (apply N.div_le_lower_bound; [exact H40|lia]).
  pose proof (N.mul_div_le a' i4 H40) as Hfit.
  constructor; cbn [s_item s_align s_alloc s_ipa s_max]; try lia; try assumption.
  nia.
Qed.

(* the two loops never run out of fuel (page sizes below 2^64) *)
Theorem create_sizes_total : forall pagesize env_max max0 item_req align_req,
  pagesize <> 0 -> pagesize < 2 ^ 64 ->
  create_sizes pagesize env_max max0 item_req align_req <> None.
Proof.
  intros pagesize env_max max0 item_req align_req Hp Hp64.
  unfold create_sizes.
  set (max1 := if max0 =? 0 then env_max else max0).
  set (i1 := if item_req <? HDRSZ then HDRSZ else item_req).
  set (i2 := if i1 mod PTRSZ =? 0 then i1 else i1 + (PTRSZ - i1 mod PTRSZ)).
  set (al := if align_req <=? 16 then 16 else align_req).
  set (i3 := if i2 mod al =? 0 then i2 else i2 + (al - i2 mod al)).
  set (max2 := if max1 <=? i3 * 2 then i3 * 2 else max1).
  set (l := qt_lcm i3 pagesize).
  assert (Hal0 : al <> 0) by (subst al; destruct (align_req <=? 16) eqn:E; lia).
  assert (Hi1 : HDRSZ <= i1) by (subst i1; unfold HDRSZ; destruct (item_req <? 16) eqn:E; lia).
  assert (Hi2 : i1 <= i2) by (apply round_up_ge; unfold PTRSZ; lia).
  assert (Hi3 : i2 <= i3) by (apply round_up_ge; exact Hal0).
  assert (Hi30 : i3 <> 0) by (unfold HDRSZ in *; lia).
  destruct (qt_lcm_ge i3 pagesize Hi30 Hp) as [Hl1 _]. fold l in Hl1.
  set (pr := if max2 <? l then
      let i4 := i3 + (pagesize - i3 mod pagesize) in
      let mn := max2 / i4 in
      let mn := if mn <? 2 then 2 else mn in
      (i4, i4 * mn)
    else (i3, l)).
  assert (Hpr : let '(i4, a1) := pr in i4 <> 0 /\ i4 <= a1).
  { subst pr. destruct (max2 <? l) eqn:E.
    - cbv zeta. set (i4 := i3 + (pagesize - i3 mod pagesize)).
      pose proof (N.mod_lt i3 pagesize Hp).
      assert (i4 <> 0) by (subst i4; lia).
      destruct (max2 / i4 <? 2) eqn:E2.
      + split; [lia|nia].
      + apply N.ltb_ge in E2. split; [lia|nia].
    - split; lia. }
  destruct pr as [i4 a1]. destruct Hpr as (H40 & H4a).
  destruct (a1 =? 0) eqn:Ea; [discriminate|].
  assert (Hq : 1 <= a1 / i4) by (apply N.div_le_lower_bound; [exact H40|lia]).
  destruct (dbl1_spec FUEL a1 i4 max2 H40) as (r & Hr & Hge & _).
  { unfold FUEL. cbn [pred]. change (N.of_nat 79) with 79.
    assert (128 <= 2 ^ 79) by (vm_compute; discriminate). nia. }
  { unfold FUEL; congruence. }
  rewrite Hr.
  destruct (dbl2_spec FUEL r (pagesize * 16)) as (r' & Hr' & _).
  { unfold HDRSZ in *. lia. }
  { unfold FUEL. cbn [pred]. change (N.of_nat 79) with 79.
    assert (2 ^ 64 * 16 <= 2 ^ 79) by (vm_compute; discriminate).
    unfold HDRSZ in *. nia. }
  { unfold FUEL; congruence. }
  rewrite Hr'. discriminate.
Qed.
