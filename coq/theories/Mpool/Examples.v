(* C14: non-vacuity — the hypotheses of the theorems are met by non-trivial reachable states. *)
From Coq Require Import List NArith Bool Lia.
From QV Require Import Mpool.Model Mpool.ProofsSize Mpool.Proofs Mpool.ProofsAddr.
Import ListNotations.
Local Open Scope N_scope.

(* QT_MAX_POOL_ALLOC_SIZE=1, 32 KiB items: two items per slab *)
Example sizes_ipa2 : create_sizes 4096 1 0 32768 0 = Some (mksizes 32768 16 65536 2 65536).
Proof. vm_compute. reflexivity. Qed.
(* the static limit is sticky: after the big pool a 16-byte pool gets 4096 items per slab instead of 16 *)
Example sizes_small_first : create_sizes 4096 1 0 16 0 = Some (mksizes 16 16 65536 16 32).
Proof. vm_compute. reflexivity. Qed.
Example sizes_small_after_big : create_sizes 4096 1 65536 16 0 = Some (mksizes 16 16 65536 4096 65536).
Proof. vm_compute. reflexivity. Qed.
(* item_size is not re-rounded although items_per_alloc is computed from the page-rounded size *)
Example sizes_20000 : create_sizes 4096 1 0 20000 64 = Some (mksizes 20032 64 81920 4 40064).
Proof. vm_compute. reflexivity. Qed.

Definition s2 := mksizes 32768 16 65536 2 65536.
(* thread 0 allocates 5 blocks, thread 1 frees them (chop at count 3, hand-over at count 4),
   thread 2 refills from the shared list and then opens a new slab; thread 0 re-allocates *)
Definition h_demo : list (N * op) :=
  [(0, OAlloc); (0, OAlloc); (0, OAlloc); (0, OAlloc); (0, OAlloc);
   (1, OFree (0, 0)); (1, OFree (0, 1)); (1, OFree (1, 0)); (1, OFree (1, 1)); (1, OFree (2, 0));
   (2, OAlloc); (2, OAlloc); (2, OAlloc); (0, OAlloc)].
Example demo_run :
  exists p, run (pool_of_sizes s2) [] h_demo = Ok p [(2, 1); (3, 0); (0, 0); (0, 1)] /\
            p_nslabs p = 4 /\
            c_list (get_cache 1 (p_caches p)) = [((2, 0), (2, 0)); ((1, 1), (1, 0)); ((1, 0), (1, 0))].
Proof. eexists. vm_compute. repeat split. Qed.
(* just before thread 2 runs, the shared list holds the batch handed over by thread 1 *)
Example demo_handover :
  exists p L, run (pool_of_sizes s2) [] (firstn 10 h_demo) = Ok p L /\
              p_reuse p = [((0, 1), (0, 0)); ((0, 0), (0, 0))] /\ length L = 0%nat.
Proof. eexists. eexists. vm_compute. repeat split. Qed.
Example demo_bad_client : run (pool_of_sizes s2) [] [(0, OAlloc); (1, OFree (0, 0)); (1, OFree (0, 0))] = BadClient.
Proof. vm_compute. reflexivity. Qed.
Example s2_ok : sizes_ok 32768 0 s2.
Proof. apply (create_sizes_ok 4096 1 0); [discriminate|exact sizes_ipa2]. Qed.
