From Coq Require Import List NArith.
From QV Require Import Mpool.Model Mpool.Micro.
Require Extraction.
Require Import ExtrOcamlBasic.
Extraction Language OCaml.
Extraction "../ocaml/gen/c14_model.ml" create_sizes pool_of_sizes alloc free world_step get_pool get_cache offset_of mstep get_thr.
