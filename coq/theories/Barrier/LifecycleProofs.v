(* C11 extension S -- proofs about the barrier's life cycle (Barrier/Lifecycle.v). *)
From Coq Require Import List ZArith Bool Arith Lia.
From QV Require Import Barrier.Model Barrier.Proofs Barrier.Lifecycle.
Import ListNotations.
Local Open Scope nat_scope.

(* ------------------------------------------------------------------ participants that have all returned *)
Lemma all_done_nth : forall E s j t, all_done E s = true -> nth_error (thrs s) j = Some t -> t_pc t = PCall /\ E <= t_ep t.
Proof.
  intros E s j t H Hj. unfold all_done in H. rewrite forallb_forall in H.
  specialize (H t (nth_error_In _ _ Hj)). unfold done in H. destruct (t_pc t); try discriminate.
  split; auto. apply Nat.leb_le; auto.
Qed.

Lemma all_done_no_step : forall m E s i, all_done E s = true -> step m E s i = None.
Proof.
  intros m E s i H. unfold step. destruct (nth_error (thrs s) i) as [t|] eqn:Hi; auto.
  destruct (all_done_nth _ _ _ _ H Hi) as (Hp & He). rewrite Hp.
  assert (Hlt : (t_ep t <? E) = false) by (apply Nat.ltb_ge; auto). rewrite Hlt. reflexivity.
Qed.

(* a joined barrier is in the state qt_barrier_create leaves it in *)
Definition fresh (b : state) : Prop := in_full b = true /\ out_full b = false /\ blockers b = 0%Z.

Lemma quiescent_fresh : forall n E s, inv n E s -> all_done E s = true -> fresh s.
Proof.
  intros n E s (Hlen & Hwf & ph & g & Htok & Hgl) Hd.
  assert (Hc : forall f, (forall t, t_pc t = PCall -> f t = false) -> cnt f (thrs s) = 0).
  { intros f Hf. apply cnt_none. intros j t Hj. apply Hf. eapply all_done_nth; eauto. }
  assert (H1 : cnt isOutWait (thrs s) = 0) by (apply Hc; intros t Hp; unfold isOutWait; rewrite Hp; auto).
  assert (H2 : cnt isEmpIn (thrs s) = 0) by (apply Hc; intros t Hp; unfold isEmpIn; rewrite Hp; auto).
  assert (H3 : cnt isFillOut (thrs s) = 0) by (apply Hc; intros t Hp; unfold isFillOut; rewrite Hp; auto).
  assert (H4 : cnt isInside (thrs s) = 0) by (apply Hc; intros t Hp; unfold isInside; rewrite Hp; auto).
  assert (H5 : cnt isEmpOut (thrs s) = 0) by (apply Hc; intros t Hp; unfold isEmpOut; rewrite Hp; auto).
  assert (H6 : cnt isFillIn (thrs s) = 0) by (apply Hc; intros t Hp; unfold isFillIn; rewrite Hp; auto).
  unfold fresh. destruct ph; simpl in Hgl; destruct Hgl as (Hi & Ho & Hb & Hx); try lia.
  rewrite H1 in Hb. auto.
Qed.

Lemma quiescent_is_fresh_lemma : forall (n E : nat) (sched : list nat),
    let s := exec (Z.of_nat n) E (init n) sched in
    all_done E s = true -> in_full s = true /\ out_full s = false /\ blockers s = 0%Z.
Proof. intros n E sched. exact (quiescent_fresh n E _ (inv_reachable n E sched)). Qed.

(* every participant is back in its own code with all E episodes behind it *)
Definition settled (E : nat) (b : state) : Prop :=
  forall j t, nth_error (thrs b) j = Some t -> t_pc t = PCall /\ t_ep t = E /\ t_arr t = E /\ t_pas t = E.

Lemma settled_all_done : forall E b, settled E b -> all_done E b = true.
Proof.
  intros E b H. unfold all_done. apply forallb_forall. intros t Ht.
  apply In_nth_error in Ht. destruct Ht as (j & Hj). destruct (H _ _ Hj) as (Hp & He & _).
  unfold done. rewrite Hp. apply Nat.leb_le. lia.
Qed.

Lemma inv_done_settled : forall n E s, inv n E s -> all_done E s = true -> settled E s.
Proof.
  intros n E s (Hlen & Hwf & _) Hd j t Hj.
  destruct (all_done_nth _ _ _ _ Hd Hj) as (Hp & He).
  destruct (Hwf _ _ Hj) as (Ha & Hq & HeE & _). rewrite Hp in Ha, Hq. simpl in Ha, Hq. repeat split; auto; lia.
Qed.

Lemma settled_map_id : forall E b (g : thr -> thr),
    (forall t, t_pc t = PCall -> g t = t) -> settled E b -> map g (thrs b) = thrs b.
Proof.
  intros E b g Hg H. rewrite <- (map_id (thrs b)) at 2. apply map_ext_in. intros t Ht.
  apply In_nth_error in Ht. destruct Ht as (j & Hj). apply Hg. apply (H _ _ Hj).
Qed.

Lemma rel_out_call : forall t, t_pc t = PCall -> rel_out t = t.
Proof. intros t H. unfold rel_out. rewrite H. reflexivity. Qed.
Lemma rel_in_call : forall t, t_pc t = PCall -> rel_in t = t.
Proof. intros t H. unfold rel_in. rewrite H. reflexivity. Qed.

Lemma settled_repeat_nil : forall E i o b, settled E (mkst i o b []).
Proof. intros E i o b j t Hj. destruct j; discriminate. Qed.

(* ------------------------------------------------------------------ scripts inside the contract: the invariant *)
Definition linv (l : lstate) : Prop :=
  uaf l = 0 /\
  match cp l with
  | CNext =>
    if alive l then
      (inv (nthr l) (epis l) (bar l) /\ maxb l = Z.of_nat (nthr l) /\ (gmode l = false \/ gset l = true) /\
       okscript (gmode l) MR (gset l) (maxb l) (script l) = true)
      \/ (settled (epis l) (bar l) /\ fresh (bar l) /\ okscript (gmode l) MQ (gset l) (maxb l) (script l) = true)
    else settled (epis l) (bar l) /\ okscript (gmode l) MD (gset l) (maxb l) (script l) = true
  | CYield => False
  | _ => alive l = true /\ settled (epis l) (bar l) /\
         exists r, (script l = LDestroy :: r /\ okscript (gmode l) MD (gset l) (maxb l) r = true) \/
                   (script l = LGDestroy :: r /\ okscript (gmode l) MD false (maxb l) r = true)
  end.

Lemma linv_start : forall gm sc, okscript gm MD false 0%Z sc = true -> linv (lstart gm sc).
Proof.
  intros gm sc H. unfold linv, lstart; simpl. split; auto. split; auto. apply settled_repeat_nil.
Qed.

Section AnyExit.
  (* the exit condition of destroy's wait loop: anything that lets a joined (fresh) barrier through at once *)
  Variable chk : lstate -> bool.
  Hypothesis chk_fresh : forall l, fresh (bar l) -> chk l = true.

Lemma pstep_settled_none : forall l i, settled (epis l) (bar l) -> pstep l i = None.
Proof.
  intros l i H. unfold pstep.
  destruct (nth_error (thrs (bar l)) i) as [t|] eqn:Hi; auto.
  destruct (H _ _ Hi) as (Hp & He & _).
  assert (Hlt : (t_ep t <? epis l) = false) by (apply Nat.ltb_ge; lia).
  rewrite Hlt. rewrite (all_done_no_step _ _ _ _ (settled_all_done _ _ H)).
  destruct (gmode l && negb (gset l) && is_call t)%bool; reflexivity.
Qed.

Lemma settled_fresh_era_is_init : forall b n, fresh b -> mkst (in_full b) (out_full b) (blockers b) (repeat thr0 n) = init n.
Proof. intros b n (-> & -> & ->). reflexivity. Qed.

Lemma nthr_init : forall n, length (thrs (init n)) = n.
Proof. intros. simpl. apply repeat_length. Qed.

Lemma linv_cstep : forall l l', linv l -> cstepG chk l = Some l' -> linv l'.
Proof.
  intros l l' (Hu & H) Hs. unfold cstepG in Hs.
  destruct l as [b m E al gm gs c sc u]; simpl in *. subst u.
  destruct c; try contradiction.
  - (* CNext *)
    destruct al.
    + destruct H as [(Hinv & Hm & Hg & Hok) | (Hset & Hfr & Hok)].
      * (* participants may be running: only the join is allowed *)
        unfold nthr in *; simpl in *.
        destruct sc as [|o r]; [discriminate|].
        destruct o; simpl in Hok; try discriminate.
        destruct (all_done E b) eqn:Hd; [|discriminate].
        inversion Hs; subst l'; clear Hs. unfold linv, set_script; simpl. split; auto.
        right. split; [eapply inv_done_settled; eauto|]. split; [eapply quiescent_fresh; eauto|]. exact Hok.
      * pose proof (settled_all_done _ _ Hset) as Hd.
        destruct sc as [|o r]; [discriminate|].
        destruct o; simpl in Hok; rewrite ?Hd in Hs.
        -- inversion Hs; subst l'. unfold linv, set_script; simpl. split; auto.
        -- apply andb_prop in Hok. destruct Hok as (Hok1 & Hok). apply andb_prop in Hok1. destruct Hok1 as (Hmn & Hgg).
           apply Z.eqb_eq in Hmn.
           inversion Hs; subst l'. unfold linv, nthr; simpl. split; auto. left.
           rewrite ?repeat_length. rewrite (settled_fresh_era_is_init _ _ Hfr).
           split; [apply inv_init|]. split; [exact Hmn|]. split; [|exact Hok].
           destruct gm; simpl in Hgg; auto.
        -- inversion Hs; subst l'. unfold linv; simpl. split; auto.
        -- inversion Hs; subst l'. unfold linv, destroy_checkG, set_cp; simpl.
           match goal with |- context [chk ?x] => rewrite (chk_fresh x Hfr) end. simpl. split; auto. split; auto. split; auto.
           exists r. left. auto.
        -- inversion Hs; subst l'. unfold linv, create; simpl. split; auto. right.
           split; [intros j t Hj; apply (Hset j t Hj)|]. split; [repeat split|]. exact Hok.
        -- destruct gs.
           ++ inversion Hs; subst l'. unfold linv, set_script; simpl. split; auto.
           ++ inversion Hs; subst l'. unfold linv, create; simpl. split; auto. right.
              split; [intros j t Hj; apply (Hset j t Hj)|]. split; [repeat split|]. exact Hok.
        -- inversion Hs; subst l'. unfold linv; simpl. split; auto.
        -- destruct gs.
           ++ inversion Hs; subst l'. unfold linv, destroy_checkG, set_cp; simpl.
              match goal with |- context [chk ?x] => rewrite (chk_fresh x Hfr) end. simpl. split; auto. split; auto. split; auto.
              exists r. right. auto.
           ++ inversion Hs; subst l'. unfold linv, set_script; simpl. split; auto.
    + destruct H as (Hset & Hok).
      pose proof (settled_all_done _ _ Hset) as Hd.
      destruct sc as [|o r]; [discriminate|].
      destruct o; simpl in Hok; try discriminate; rewrite ?Hd in Hs.
      * inversion Hs; subst l'. unfold linv, set_script; simpl. split; auto.
      * inversion Hs; subst l'. unfold linv, create; simpl. split; auto. right.
        split; [intros j t Hj; apply (Hset j t Hj)|]. split; [repeat split|]. exact Hok.
      * destruct gs.
        -- inversion Hs; subst l'. unfold linv, set_script; simpl. split; auto.
        -- inversion Hs; subst l'. unfold linv, create; simpl. split; auto. right.
           split; [intros j t Hj; apply (Hset j t Hj)|]. split; [repeat split|]. exact Hok.
      * destruct gs; [discriminate|].
        inversion Hs; subst l'. unfold linv, set_script; simpl. split; auto.
  - (* CFillOut *)
    destruct H as (Hal & Hset & r & Hr).
    inversion Hs; subst l'. unfold linv; simpl. split; auto. split; auto.
    rewrite (settled_map_id E b rel_out rel_out_call Hset).
    split; [intros j t Hj; apply (Hset j t Hj)|]. exists r. exact Hr.
  - (* CFillIn *)
    destruct H as (Hal & Hset & r & Hr).
    inversion Hs; subst l'. unfold linv; simpl. split; auto. split; auto.
    rewrite (settled_map_id E b rel_in rel_in_call Hset).
    split; [intros j t Hj; apply (Hset j t Hj)|]. exists r. exact Hr.
  - (* CFree *)
    destruct H as (Hal & Hset & r & [(Hsc & Hok) | (Hsc & Hok)]); subst sc;
      inversion Hs; subst l'; unfold linv; simpl; split; auto.
Qed.

Lemma linv_pstep : forall l i l', linv l -> pstep l i = Some l' -> linv l'.
Proof.
  intros l i l' (Hu & H) Hs.
  assert (Hns : settled (epis l) (bar l) -> False).
  { intros Hset. rewrite (pstep_settled_none l i Hset) in Hs. discriminate. }
  destruct (cp l) eqn:Hc; try contradiction.
  - destruct (alive l) eqn:Hal.
    + destruct H as [(Hinv & Hm & Hg & Hok) | (Hset & _)]; [|exfalso; auto].
      unfold pstep in Hs.
      destruct (nth_error (thrs (bar l)) i) as [t|] eqn:Hi; [|discriminate].
      assert (Hnull : (gmode l && negb (gset l) && is_call t)%bool = false).
      { destruct Hg as [-> | ->]; simpl; auto. rewrite andb_false_r. auto. }
      rewrite Hnull in Hs.
      destruct (step (maxb l) (epis l) (bar l) i) as [b'|] eqn:Hst; [|discriminate].
      inversion Hs; subst l'; clear Hs. rewrite Hm in Hst.
      pose proof (inv_step _ _ _ _ _ Hinv Hst) as Hinv'.
      assert (Hlen : length (thrs b') = nthr l) by (destruct Hinv' as (Hl & _); exact Hl).
      unfold linv, nthr; simpl. rewrite Hc, Hal. unfold nthr in *. rewrite Hlen. split; [rewrite Hu; simpl; lia|].
      left. split; [exact Hinv'|]. split; [exact Hm|]. split; [exact Hg|exact Hok].
    + destruct H as (Hset & _). exfalso; auto.
  - destruct H as (_ & Hset & _). exfalso; auto.
  - destruct H as (_ & Hset & _). exfalso; auto.
  - destruct H as (_ & Hset & _). exfalso; auto.
Qed.

Lemma linv_lstep : forall l i l', linv l -> lstepG chk l i = Some l' -> linv l'.
Proof.
  intros l i l' H Hs. unfold lstepG in Hs.
  destruct (i <? nthr l); [eapply linv_pstep; eauto|].
  destruct (i =? nthr l); [eapply linv_cstep; eauto|discriminate].
Qed.

Lemma linv_lexec : forall sched l, linv l -> linv (lexecG chk l sched).
Proof.
  induction sched as [|i r IH]; intros l H; simpl; auto. apply IH.
  unfold lstepG_or_stay. destruct (lstepG chk l i) eqn:Hs; auto. eapply linv_lstep; eauto.
Qed.
End AnyExit.

Lemma chk_code_fresh : forall l, fresh (bar l) -> chk_code l = true.
Proof. intros l (_ & _ & Hb). unfold chk_code. rewrite Hb. reflexivity. Qed.
Lemma chk_fixed_fresh : forall l, fresh (bar l) -> chk_fixed l = true.
Proof. intros l (Hi & _ & Hb). unfold chk_fixed. rewrite Hb, Hi. reflexivity. Qed.

(* what the invariant gives *)
Lemma linv_safe : forall l, linv l ->
    uaf l = 0 /\
    (forall i j ti tj, nth_error (thrs (bar l)) i = Some ti -> nth_error (thrs (bar l)) j = Some tj ->
                       t_ep ti <= t_pas ti /\ t_pas ti <= t_arr tj /\ t_arr tj <= calls tj) /\
    (alive l = true -> cp l = CNext -> in_full (bar l) && out_full (bar l) = false /\ (0 <= blockers (bar l))%Z).
Proof.
  intros l (Hu & H). split; auto.
  assert (Hsafe_set : settled (epis l) (bar l) ->
          forall i j ti tj, nth_error (thrs (bar l)) i = Some ti -> nth_error (thrs (bar l)) j = Some tj ->
                            t_ep ti <= t_pas ti /\ t_pas ti <= t_arr tj /\ t_arr tj <= calls tj).
  { intros Hset i j ti tj Hi Hj. destruct (Hset _ _ Hi) as (_ & He & _ & Hq). destruct (Hset _ _ Hj) as (Hp & He' & Ha & _).
    unfold calls. rewrite Hp. lia. }
  split.
  - destruct (cp l); try contradiction.
    + destruct (alive l).
      * destruct H as [(Hinv & _) | (Hset & _)]; [|exact (Hsafe_set Hset)].
        intros i j ti tj. exact (inv_safe _ _ _ Hinv i j ti tj).
      * destruct H as (Hset & _); exact (Hsafe_set Hset).
    + destruct H as (_ & Hset & _); exact (Hsafe_set Hset).
    + destruct H as (_ & Hset & _); exact (Hsafe_set Hset).
    + destruct H as (_ & Hset & _); exact (Hsafe_set Hset).
  - intros Hal Hc. rewrite Hc, Hal in H.
    destruct H as [(Hinv & Hm & _) | (Hset & (Hi & Ho & Hb) & _)].
    + pose proof (inv_gates _ _ _ Hinv) as (Hx & Hy). split; auto. lia.
    + rewrite Hi, Ho, Hb. simpl. split; auto. lia.
Qed.

Lemma life_contract_safe_lemma : forall (gm : bool) (sc : list lop) (sched : list nat),
    okscript gm MD false 0%Z sc = true ->
    let l := lexec (lstart gm sc) sched in
    uaf l = 0 /\
    (forall i j ti tj, nth_error (thrs (bar l)) i = Some ti -> nth_error (thrs (bar l)) j = Some tj ->
                       t_ep ti <= t_pas ti /\ t_pas ti <= t_arr tj /\ t_arr tj <= calls tj) /\
    (alive l = true -> cp l = CNext -> in_full (bar l) && out_full (bar l) = false /\ (0 <= blockers (bar l))%Z).
Proof. intros gm sc sched H l. apply linv_safe. apply (linv_lexec chk_code chk_code_fresh). apply linv_start. exact H. Qed.

(* the same for the machine with the repaired wait loop: the repair changes nothing inside the contract *)
Lemma life_contract_safe_fixed_lemma : forall (gm : bool) (sc : list lop) (sched : list nat),
    okscript gm MD false 0%Z sc = true ->
    let l := lexecG chk_fixed (lstart gm sc) sched in
    uaf l = 0 /\
    (forall i j ti tj, nth_error (thrs (bar l)) i = Some ti -> nth_error (thrs (bar l)) j = Some tj ->
                       t_ep ti <= t_pas ti /\ t_pas ti <= t_arr tj /\ t_arr tj <= calls tj) /\
    (alive l = true -> cp l = CNext -> in_full (bar l) && out_full (bar l) = false /\ (0 <= blockers (bar l))%Z).
Proof. intros gm sc sched H l. apply linv_safe. apply (linv_lexec chk_fixed chk_fixed_fresh). apply linv_start. exact H. Qed.

(* ------------------------------------------------------------------ progress inside the contract *)
Lemma lstep_ctl : forall l, lstep l (nthr l) = cstep l.
Proof. intros l. unfold lstep, lstepG. rewrite Nat.ltb_irrefl, Nat.eqb_refl. reflexivity. Qed.

Lemma cstep_quiet_enabled : forall l, cp l = CNext -> all_done (epis l) (bar l) = true -> script l <> [] -> cstep l <> None.
Proof.
  intros l Hc Hd Hs. unfold cstep, cstepG. rewrite Hc, Hd.
  destruct (script l) as [|o r]; [congruence|].
  destruct o; try discriminate; destruct (gset l); discriminate.
Qed.

Lemma linv_no_deadlock : forall l, linv l -> lfinished l = false -> exists i, lenabled l i = true.
Proof.
  intros l (Hu & H) Hf.
  assert (Hq : cp l = CNext -> settled (epis l) (bar l) -> exists i, lenabled l i = true).
  { intros Hc Hset. pose proof (settled_all_done _ _ Hset) as Hd.
    exists (nthr l). unfold lenabled. rewrite lstep_ctl.
    assert (Hne : script l <> []).
    { intros He. unfold lfinished in Hf. rewrite He, Hc, Hd in Hf. discriminate. }
    pose proof (cstep_quiet_enabled l Hc Hd Hne). destruct (cstep l); congruence. }
  assert (Hd3 : (cp l = CFillOut \/ cp l = CFillIn \/ cp l = CFree) -> exists i, lenabled l i = true).
  { intros Hc. exists (nthr l). unfold lenabled. rewrite lstep_ctl. unfold cstep, cstepG.
    destruct Hc as [-> | [-> | ->]]; reflexivity. }
  destruct (cp l) eqn:Hc; try contradiction; auto.
  destruct (alive l) eqn:Hal.
  - destruct H as [(Hinv & Hm & Hg & Hok) | (Hset & _)]; auto.
    destruct (all_done (epis l) (bar l)) eqn:Hd.
    + exists (nthr l). unfold lenabled. rewrite lstep_ctl.
      assert (Hne : script l <> []).
      { intros He. unfold lfinished in Hf. rewrite He, Hc, Hd in Hf. discriminate. }
      pose proof (cstep_quiet_enabled l Hc Hd Hne). destruct (cstep l); congruence.
    + destruct (inv_no_deadlock _ _ _ Hinv Hd) as (i & Hen).
      exists i. unfold enabled in Hen. rewrite <- Hm in Hen.
      destruct (step (maxb l) (epis l) (bar l) i) as [b'|] eqn:Hst; [|discriminate].
      assert (Hi : i < nthr l).
      { unfold step in Hst. destruct (nth_error (thrs (bar l)) i) eqn:Hn; [|discriminate].
        unfold nthr. apply nth_error_Some. congruence. }
      unfold lenabled, lstep, lstepG. apply Nat.ltb_lt in Hi. rewrite Hi. unfold pstep.
      destruct (nth_error (thrs (bar l)) i) as [t|] eqn:Hn.
      * assert (Hnull : (gmode l && negb (gset l) && is_call t)%bool = false).
        { destruct Hg as [-> | ->]; simpl; auto. rewrite andb_false_r. auto. }
        rewrite Hnull, Hst. reflexivity.
      * unfold step in Hst. rewrite Hn in Hst. discriminate.
  - destruct H as (Hset & _); auto.
Qed.

Lemma life_no_deadlock_lemma : forall (gm : bool) (sc : list lop) (sched : list nat),
    okscript gm MD false 0%Z sc = true ->
    let l := lexec (lstart gm sc) sched in
    lfinished l = false -> exists i, lenabled l i = true.
Proof. intros gm sc sched H l. apply linv_no_deadlock. apply (linv_lexec chk_code chk_code_fresh). apply linv_start. exact H. Qed.

(* ------------------------------------------------------------------ resize at a joined point, then a group as large as the new count *)
Lemma resize_then_correct_lemma : forall (n E : nat) (sched : list nat) (n' E' : nat) (sched' : list nat),
    let b := exec (Z.of_nat n) E (init n) sched in
    all_done E b = true ->
    let l := mkl b (Z.of_nat n) E true false false CNext [LResize (Z.of_nat n'); LEra n' E'] 0 in
    exists l1 l2, cstep l = Some l1 /\ cstep l1 = Some l2 /\
      bar l2 = init n' /\ maxb l2 = Z.of_nat n' /\ epis l2 = E' /\
      (forall i j ti tj, let s := exec (maxb l2) (epis l2) (bar l2) sched' in
                         nth_error (thrs s) i = Some ti -> nth_error (thrs s) j = Some tj ->
                         t_ep ti <= t_pas ti /\ t_pas ti <= t_arr tj /\ t_arr tj <= calls tj) /\
      (exists rest, all_done (epis l2) (exec (maxb l2) (epis l2) (bar l2) (sched' ++ rest)) = true).
Proof.
  intros n E sched n' E' sched' b Hd l.
  pose proof (quiescent_fresh n E b (inv_reachable n E sched) Hd) as Hfr.
  eexists. eexists. split; [reflexivity|]. split; [unfold cstep, cstepG; simpl; rewrite Hd; reflexivity|].
  simpl. rewrite (settled_fresh_era_is_init _ _ Hfr).
  split; [reflexivity|]. split; [reflexivity|]. split; [reflexivity|]. split.
  - intros i j ti tj. apply barrier_safe_lemma.
  - apply barrier_completes_lemma.
Qed.

(* explicit statement over an unbounded number of episodes *)
Lemma reuse_any_number_of_episodes_lemma : forall (n E : nat) (sched : list nat) (k i j : nat) (ti tj : thr),
    let s := exec (Z.of_nat n) E (init n) sched in
    nth_error (thrs s) i = Some ti -> nth_error (thrs s) j = Some tj ->
    k <= t_ep ti -> k <= t_arr tj /\ k <= calls tj.
Proof.
  intros n E sched k i j ti tj s Hi Hj Hk.
  pose proof (barrier_safe_lemma n E sched i j ti tj Hi Hj) as (H1 & H2 & H3). lia.
Qed.

(* ------------------------------------------------------------------ blockers counts the participants inside: every script, every schedule *)
Definition inside (t : thr) : bool := match t_pc t with PEmpIn | PFillOut | POut | POutW | PDec => true | _ => false end.
Definition cntinv (b : state) : Prop := blockers b = Z.of_nat (cnt inside (thrs b)).

Lemma cnt_map_same : forall (f : thr -> bool) (g : thr -> thr) l, (forall t, f (g t) = f t) -> cnt f (map g l) = cnt f l.
Proof. induction l as [|y r IH]; intros H; simpl; auto. rewrite H, IH; auto. Qed.

Lemma inside_rel_out : forall t, inside (rel_out t) = inside t.
Proof. intros [p e a q]. destruct p; reflexivity. Qed.
Lemma inside_rel_in : forall t, inside (rel_in t) = inside t.
Proof. intros [p e a q]. destruct p; reflexivity. Qed.

Lemma cnt_zero_all : forall (f : thr -> bool) l j t, cnt f l = 0 -> nth_error l j = Some t -> f t = false.
Proof.
  intros f l j t H Hj. destruct (f t) eqn:Hf; auto.
  pose proof (cnt_pos_of f l j t Hj Hf). lia.
Qed.

Lemma cnt_all_call : forall E b, all_done E b = true -> cnt inside (thrs b) = 0.
Proof.
  intros E b H. apply cnt_none. intros j t Hj. destruct (all_done_nth _ _ _ _ H Hj) as (Hp & _).
  unfold inside. rewrite Hp. reflexivity.
Qed.

Lemma cnt_repeat_thr0 : forall n, cnt inside (repeat thr0 n) = 0.
Proof. induction n; simpl; auto. Qed.

Lemma cntinv_step : forall m E b i b', cntinv b -> step m E b i = Some b' -> cntinv b'.
Proof.
  intros m E b i b' H Hs. unfold step in Hs.
  destruct (nth_error (thrs b) i) as [t|] eqn:Hi; [|discriminate].
  destruct b as [fi fo bl l]; unfold cntinv in *; simpl in *.
  destruct t as [p e a q].
  assert (Hmo : nth_error (map rel_out l) i = Some (rel_out (mkthr p e a q))) by (apply map_nth_error; auto).
  assert (Hmi : nth_error (map rel_in l) i = Some (rel_in (mkthr p e a q))) by (apply map_nth_error; auto).
  destruct p; simpl in Hs; try discriminate.
  - destruct (e <? E); [|discriminate]. inversion Hs; subst b'; simpl.
    pose proof (cnt_upd inside l i _ (setpc (mkthr PCall e a q) PIn) Hi) as Hc. cbv [b2n] in Hc; cbn [inside isOutWait t_pc setpc pass_out finish rel_out rel_in] in Hc |- *. lia.
  - inversion Hs; subst b'; simpl.
    pose proof (cnt_upd inside l i _ (setpc (mkthr PIn e a q) (if fi then PInc else PInW)) Hi) as Hc.
    destruct fi; cbv [b2n] in Hc; cbn [inside isOutWait t_pc setpc pass_out finish rel_out rel_in] in Hc |- *; lia.
  - inversion Hs; subst b'; simpl.
    pose proof (cnt_upd inside l i _ (mkthr (if (bl + 1 =? m)%Z then PEmpIn else POut) e (S a) q) Hi) as Hc.
    destruct (bl + 1 =? m)%Z; cbv [b2n] in Hc; cbn [inside isOutWait t_pc setpc pass_out finish rel_out rel_in] in Hc |- *; lia.
  - inversion Hs; subst b'; simpl.
    pose proof (cnt_upd inside l i _ (setpc (mkthr PEmpIn e a q) PFillOut) Hi) as Hc. cbv [b2n] in Hc; cbn [inside isOutWait t_pc setpc pass_out finish rel_out rel_in] in Hc |- *. lia.
  - inversion Hs; subst b'; simpl.
    pose proof (cnt_upd inside (map rel_out l) i _ (pass_out (mkthr PFillOut e a q)) Hmo) as Hc.
    rewrite (cnt_map_same inside rel_out l inside_rel_out) in Hc.
    cbv [b2n] in Hc; cbn [inside isOutWait t_pc setpc pass_out finish rel_out rel_in] in Hc |- *. lia.
  - inversion Hs; subst b'; simpl.
    pose proof (cnt_upd inside l i _ (if fo then pass_out (mkthr POut e a q) else setpc (mkthr POut e a q) POutW) Hi) as Hc.
    destruct fo; cbv [b2n] in Hc; cbn [inside isOutWait t_pc setpc pass_out finish rel_out rel_in] in Hc |- *; lia.
  - inversion Hs; subst b'; simpl.
    pose proof (cnt_upd inside l i _ (if (bl - 1 =? 0)%Z then setpc (mkthr PDec e a q) PEmpOut else finish (mkthr PDec e a q)) Hi) as Hc.
    destruct (bl - 1 =? 0)%Z; cbv [b2n] in Hc; cbn [inside isOutWait t_pc setpc pass_out finish rel_out rel_in] in Hc |- *; lia.
  - inversion Hs; subst b'; simpl.
    pose proof (cnt_upd inside l i _ (setpc (mkthr PEmpOut e a q) PFillIn) Hi) as Hc. cbv [b2n] in Hc; cbn [inside isOutWait t_pc setpc pass_out finish rel_out rel_in] in Hc |- *. lia.
  - inversion Hs; subst b'; simpl.
    pose proof (cnt_upd inside (map rel_in l) i _ (finish (mkthr PFillIn e a q)) Hmi) as Hc.
    rewrite (cnt_map_same inside rel_in l inside_rel_in) in Hc.
    cbv [b2n] in Hc; cbn [inside isOutWait t_pc setpc pass_out finish rel_out rel_in] in Hc |- *. lia.
Qed.

Lemma cntinv_lstep : forall chk l i l', cntinv (bar l) -> lstepG chk l i = Some l' -> cntinv (bar l').
Proof.
  intros chk l i l' H Hs. unfold lstepG in Hs.
  destruct (i <? nthr l).
  - unfold pstep in Hs. destruct (nth_error (thrs (bar l)) i) as [t|] eqn:Hi; [|discriminate].
    destruct (gmode l && negb (gset l) && is_call t)%bool eqn:Hnull.
    + destruct (t_ep t <? epis l); [|discriminate]. inversion Hs; subst l'; simpl.
      unfold cntinv in *; simpl.
      apply andb_prop in Hnull. destruct Hnull as (_ & Hcall).
      pose proof (cnt_upd inside (thrs (bar l)) i _ (finish t) Hi) as Hc.
      unfold is_call in Hcall. destruct t as [p e a q]; simpl in *. destruct p; try discriminate.
      cbv [b2n] in Hc; cbn [inside isOutWait t_pc setpc pass_out finish rel_out rel_in] in Hc |- *. lia.
    + destruct (step (maxb l) (epis l) (bar l) i) as [b'|] eqn:Hst; [|discriminate].
      inversion Hs; subst l'; simpl. eapply cntinv_step; eauto.
  - destruct (i =? nthr l); [|discriminate].
    unfold cstepG in Hs.
    assert (Hz : all_done (epis l) (bar l) = true -> blockers (bar l) = 0%Z).
    { intros Hd. unfold cntinv in H. rewrite H, (cnt_all_call _ _ Hd). reflexivity. }
    destruct (cp l).
    + destruct (script l) as [|o r]; [discriminate|].
      destruct o;
        repeat match type of Hs with context [if ?c then _ else _] => destruct c eqn:? end;
        try discriminate; inversion Hs; subst l'; unfold cntinv, destroy_checkG, set_cp, set_script, create; simpl; auto.
      * rewrite cnt_repeat_thr0. auto.
      * erewrite cnt_all_call; eauto.
      * erewrite cnt_all_call; eauto.
    + inversion Hs; subst l'. unfold destroy_checkG, set_cp; simpl. auto.
    + inversion Hs; subst l'; unfold cntinv in *; simpl. rewrite (cnt_map_same inside rel_out _ inside_rel_out). auto.
    + inversion Hs; subst l'; unfold cntinv in *; simpl. rewrite (cnt_map_same inside rel_in _ inside_rel_in). auto.
    + inversion Hs; subst l'; simpl. auto.
Qed.

Lemma cntinv_lexec : forall chk sched l, cntinv (bar l) -> cntinv (bar (lexecG chk l sched)).
Proof.
  induction sched as [|i r IH]; intros l H; simpl; auto. apply IH.
  unfold lstepG_or_stay. destruct (lstepG chk l i) eqn:Hs; auto. eapply cntinv_lstep; eauto.
Qed.

Lemma blockers_counts_inside_lemma : forall (gm : bool) (sc : list lop) (sched : list nat),
    let l := lexec (lstart gm sc) sched in
    blockers (bar l) = Z.of_nat (cnt inside (thrs (bar l))).
Proof. intros. apply cntinv_lexec. reflexivity. Qed.

(* when the wait loop of qt_barrier_destroy ends, no participant is between its +1 and its -1 *)
Lemma destroy_waits_partial_lemma : forall (gm : bool) (sc : list lop) (sched : list nat) (l' : lstate),
    let l := lexec (lstart gm sc) sched in
    cp l <> CFillOut -> cstep l = Some l' -> cp l' = CFillOut ->
    bar l' = bar l /\ blockers (bar l') = 0%Z /\
    forall j t, nth_error (thrs (bar l')) j = Some t -> inside t = false.
Proof.
  intros gm sc sched l' l Hc Hs Hc'.
  pose proof (blockers_counts_inside_lemma gm sc sched) as Hcnt. fold l in Hcnt.
  assert (Hchk : l' = destroy_check l -> bar l' = bar l /\ blockers (bar l') = 0%Z /\
                                          forall j t, nth_error (thrs (bar l')) j = Some t -> inside t = false).
  { intros ->. unfold destroy_check, destroy_checkG, chk_code, set_cp in *; simpl in *.
    destruct (blockers (bar l) =? 0)%Z eqn:Hb; [|discriminate]. apply Z.eqb_eq in Hb.
    split; auto. split; auto. intros j t Hj. rewrite Hb in Hcnt.
    apply (cnt_zero_all inside (thrs (bar l)) j t); auto. lia. }
  unfold cstep, cstepG in Hs. fold destroy_check in Hs. destruct (cp l) eqn:Hcp.
  - destruct (script l) as [|o r]; [discriminate|].
    destruct o;
      repeat match type of Hs with context [if ?c then _ else _] => destruct c eqn:? end;
      try discriminate; inversion Hs; subst l'; try (apply Hchk; reflexivity);
      unfold set_script, create in Hc'; simpl in Hc'; try congruence.
  - inversion Hs; subst l'. apply Hchk; reflexivity.
  - congruence.
  - inversion Hs; subst l'. simpl in Hc'. discriminate.
  - inversion Hs; subst l'. simpl in Hc'. discriminate.
Qed.

(* (the controller is thread id = number of participants: 0 until the first group exists)
   the full statement fails: the last leaver has decremented blockers to 0 but still has to reset the gates *)
Definition race_script : list lop := [LCreate 2; LEra 2 1; LDestroy].
Definition race_sched : list nat := [0;0; 0;0;0;0; 1;1;1;1;1; 0; 1; 2;2;2;2; 1;1].

Lemma destroy_waits_refuted_lemma :
  let before := lexec (lstart false race_script) (firstn 13 race_sched) in
  let after_free := lexec (lstart false race_script) (firstn 17 race_sched) in
  let l := lexec (lstart false race_script) race_sched in
  (exists t0 t1, thrs (bar before) = [t0; t1] /\ t_pc t0 = PCall /\ t_ep t0 = 1 /\ t_pc t1 = PEmpOut) /\
  blockers (bar before) = 0%Z /\ alive before = true /\
  alive after_free = false /\ uaf after_free = 0 /\
  uaf l = 2 /\ lfinished l = true.
Proof. vm_compute. split; [do 2 eexists; repeat split; reflexivity|]. repeat split; reflexivity. Qed.

(* the same through the global wrappers *)
Definition grace_script : list lop := [LGInit 2; LEra 2 1; LGDestroy].
Lemma global_destroy_refuted_lemma :
  let l := lexec (lstart true grace_script) race_sched in uaf l = 2 /\ gset l = false /\ lfinished l = true.
Proof. vm_compute. auto. Qed.

(* ------------------------------------------------------------------ fewer participants than the count: nobody passes *)
Section Fewer.
  Variable n : nat.
  Variable m : Z.
  Variable E : nat.
  Hypothesis Hnm : (Z.of_nat n < m)%Z.

  Definition fpc (p : pc) : Prop := match p with PCall | PIn | PInc | POut | POutW => True | _ => False end.
  Definition finv (s : state) : Prop :=
    length (thrs s) = n /\ in_full s = true /\ out_full s = false /\
    blockers s = Z.of_nat (cnt isOutWait (thrs s)) /\
    allT (fun t => t_pas t = 0 /\ t_ep t = 0 /\ fpc (t_pc t)) (thrs s).

  Lemma finv_init : finv (init n).
  Proof.
    unfold finv, init; simpl. split; [apply repeat_length|]. repeat split; auto.
    - rewrite cnt_none; auto. intros j t H. apply nth_error_In in H. apply repeat_spec in H. subst. reflexivity.
    - apply nth_error_In in H. apply repeat_spec in H. subst. reflexivity.
    - apply nth_error_In in H. apply repeat_spec in H. subst. reflexivity.
    - apply nth_error_In in H. apply repeat_spec in H. subst. exact I.
  Qed.

  Lemma finv_step : forall s i s', finv s -> step m E s i = Some s' -> finv s'.
  Proof.
    intros s i s' (Hlen & Hin & Hout & Hb & Hall) Hs. unfold step in Hs.
    destruct (nth_error (thrs s) i) as [t|] eqn:Hi; [|discriminate].
    destruct (Hall _ _ Hi) as (Hq & He & Hp).
    destruct s as [fi fo bl l]; simpl in *. subst fi fo.
    destruct t as [p e a q]; simpl in *. subst q e.
    destruct p; simpl in Hp; try contradiction; simpl in Hs.
    - destruct (0 <? E); [|discriminate]. inversion Hs; subst s'. unfold finv; simpl.
      pose proof (cnt_upd isOutWait l i _ (setpc (mkthr PCall 0 a 0) PIn) Hi) as Hc. cbv [b2n] in Hc; cbn [inside isOutWait t_pc setpc pass_out finish rel_out rel_in] in Hc |- *.
      rewrite length_upd. split; [auto|]. split; [auto|]. split; [auto|]. split; [lia|].
      apply allT_upd; [exact Hall|]. simpl. auto.
    - inversion Hs; subst s'. unfold finv; simpl.
      pose proof (cnt_upd isOutWait l i _ (setpc (mkthr PIn 0 a 0) PInc) Hi) as Hc. cbv [b2n] in Hc; cbn [inside isOutWait t_pc setpc pass_out finish rel_out rel_in] in Hc |- *.
      rewrite length_upd. split; [auto|]. split; [auto|]. split; [auto|]. split; [lia|].
      apply allT_upd; [exact Hall|]. simpl. auto.
    - pose proof (cnt_upd isOutWait l i _ (mkthr POut 0 (S a) 0) Hi) as Hc. cbv [b2n] in Hc; cbn [inside isOutWait t_pc setpc pass_out finish rel_out rel_in] in Hc |- *.
      pose proof (cnt_le_length isOutWait (upd i (mkthr POut 0 (S a) 0) l)) as Hle. rewrite length_upd in Hle.
      assert (Hne : (bl + 1 =? m)%Z = false) by (apply Z.eqb_neq; lia).
      rewrite Hne in Hs. inversion Hs; subst s'. unfold finv; simpl.
      rewrite length_upd. split; [auto|]. split; [auto|]. split; [auto|]. split; [lia|].
      apply allT_upd; [exact Hall|]. simpl. auto.
    - inversion Hs; subst s'. unfold finv; simpl.
      pose proof (cnt_upd isOutWait l i _ (setpc (mkthr POut 0 a 0) POutW) Hi) as Hc. cbv [b2n] in Hc; cbn [inside isOutWait t_pc setpc pass_out finish rel_out rel_in] in Hc |- *.
      rewrite length_upd. split; [auto|]. split; [auto|]. split; [auto|]. split; [lia|].
      apply allT_upd; [exact Hall|]. simpl. auto.
    - discriminate.
  Qed.

  Lemma finv_exec : forall sched s, finv s -> finv (exec m E s sched).
  Proof.
    induction sched as [|i r IH]; intros s H; simpl; auto. apply IH.
    unfold step_or_stay. destruct (step m E s i) eqn:Hs; auto. eapply finv_step; eauto.
  Qed.
End Fewer.

Lemma fewer_participants_nobody_passes_lemma : forall (n : nat) (m : Z) (E : nat) (sched : list nat) (i : nat) (t : thr),
    (Z.of_nat n < m)%Z ->
    let s := exec m E (init n) sched in
    nth_error (thrs s) i = Some t ->
    t_pas t = 0 /\ t_ep t = 0 /\ in_full s = true /\ out_full s = false /\ (blockers s <= Z.of_nat n)%Z.
Proof.
  intros n m E sched i t H s Hi.
  pose proof (finv_exec n m E H sched (init n) (finv_init n)) as (Hlen & Hin & Hout & Hb & Hall). fold s in Hlen, Hin, Hout, Hb, Hall.
  destruct (Hall _ _ Hi) as (Hq & He & _).
  pose proof (cnt_le_length isOutWait (thrs s)). repeat split; auto. lia.
Qed.

(* ... and a destroy issued meanwhile never leaves its wait loop once somebody arrived (it can only spin) *)

(* more participants than the count (outside the contract: the code's own assert says waiters <= max_blockers):
   count 2, four participants, one episode each, i.e. two full batches -- yet three of them pass on the first
   opening and the fourth is left waiting for ever *)
Definition more_sched : list nat := [0;1;2;1;1;1;0;3;0;3;0;2;3;3;0;1;0;3;3;3;2;2].
Lemma more_participants_refuted_lemma :
  let s := exec 2 1 (init 4) more_sched in
  all_done 1 s = false /\ enabled_list 2 1 s = [] /\
  (exists t0 t1 t2 t3, thrs s = [t0; t1; t2; t3] /\ t_ep t0 = 1 /\ t_ep t1 = 1 /\ t_ep t3 = 1 /\ t_pc t2 = POutW /\ t_ep t2 = 0).
Proof. vm_compute. split; [reflexivity|]. split; [reflexivity|]. do 4 eexists. repeat split; reflexivity. Qed.

(* ------------------------------------------------------------------ the global wrappers *)
Lemma global_init_twice_ignored_lemma : forall (l l' : lstate) (m : Z) (r : list lop),
    cp l = CNext -> script l = LGInit m :: r -> gset l = true -> cstep l = Some l' ->
    bar l' = bar l /\ maxb l' = maxb l /\ alive l' = alive l /\ gset l' = true /\ script l' = r.
Proof.
  intros l l' m r Hc Hs Hg H. unfold cstep, cstepG in H. rewrite Hc, Hs, Hg in H. inversion H; subst l'. simpl. auto.
Qed.

(* qt_global_barrier() before qt_global_barrier_init (or after the destroy): enter(NULL) returns at once *)
Lemma global_enter_before_init_refuted_lemma :
  let l := lexec (lstart true [LEra 2 1]) [0; 0] in
  exists t0 t1, thrs (bar l) = [t0; t1] /\ t_ep t0 = 1 /\ t_arr t1 = 0 /\ calls t1 = 0 /\ uaf l = 0.
Proof. vm_compute. do 2 eexists. repeat split; reflexivity. Qed.

(* non-vacuity *)
Example contract_script_ok :
  okscript false MD false 0%Z [LCreate 2; LEra 2 2; LWait; LResize 3; LEra 3 1; LWait; LDestroy; LCreate 1; LEra 1 1; LWait; LDestroy] = true /\
  okscript true MD false 0%Z [LGInit 2; LGInit 5; LEra 2 2; LWait; LGResize 3; LEra 3 1; LWait; LGDestroy; LGDestroy] = true /\
  okscript false MD false 0%Z race_script = false.
Proof. vm_compute. auto. Qed.

Example contract_run_completes :
  let l := lexec (lstart false [LCreate 2; LEra 2 2; LWait; LResize 3; LEra 3 1; LWait; LDestroy])
                 (concat (repeat [0;1;2;3] 40)) in
  lfinished l = true /\ alive l = false /\ uaf l = 0 /\ maxb l = 3%Z.
Proof. vm_compute. auto. Qed.

Example destroy_spins_while_inside :
  let l := lexec (lstart false race_script) [0;0; 0;0;0;0; 2;2;2] in
  cp l = CYield /\ blockers (bar l) = 1%Z.
Proof. vm_compute. auto. Qed.

Example fewer_blocks_all :
  let s := exec 3 1 (init 2) [0;0;0;0;1;1;1;1;0;1] in enabled_list 3 1 s = [] /\ all_done 1 s = false.
Proof. vm_compute. auto. Qed.

(* ------------------------------------------------------------------ the repaired wait loop (chk_fixed): destroy may be called as soon
   as every participant has ARRIVED for its last episode (the usual pattern: a participant returns from its last enter and
   destroys the barrier) -- nobody touches the freed object *)
Definition last_arrived (l : lstate) : Prop := forall j t, nth_error (thrs (bar l)) j = Some t -> t_arr t = epis l.

Definition pend (l : lstate) : Prop :=
  uaf l = 0 /\ alive l = true /\ inv (nthr l) (epis l) (bar l) /\ maxb l = Z.of_nat (nthr l) /\
  (gmode l = false \/ gset l = true) /\ last_arrived l /\
  (cp l = CNext \/ cp l = CYield) /\
  exists r, (script l = LDestroy :: r /\ okscript (gmode l) MD (gset l) (maxb l) r = true) \/
            (script l = LGDestroy :: r /\ gset l = true /\ okscript (gmode l) MD false (maxb l) r = true).

Lemma rel_out_arr : forall t, t_arr (rel_out t) = t_arr t.
Proof. intros [p e a q]. destruct p; reflexivity. Qed.
Lemma rel_in_arr : forall t, t_arr (rel_in t) = t_arr t.
Proof. intros [p e a q]. destruct p; reflexivity. Qed.

Lemma step_keeps_last : forall n E b i b',
    inv n E b -> (forall j t, nth_error (thrs b) j = Some t -> t_arr t = E) ->
    step (Z.of_nat n) E b i = Some b' ->
    forall j t, nth_error (thrs b') j = Some t -> t_arr t = E.
Proof.
  intros n E b i b' (Hlen & Hwf & _) Hall Hs. unfold step in Hs.
  destruct (nth_error (thrs b) i) as [t|] eqn:Hi; [|discriminate].
  pose proof (Hall _ _ Hi) as Ha. destruct (Hwf _ _ Hi) as (Hwa & _ & _ & Hlt).
  destruct b as [fi fo bl l]; simpl in *. destruct t as [p e a q]; simpl in *.
  change (allT (fun t => t_arr t = E) (thrs b')).
  destruct p; simpl in Hs; try discriminate.
  - destruct (e <? E); [|discriminate]. inversion Hs; subst b'; simpl. apply allT_upd; [exact Hall|]. exact Ha.
  - inversion Hs; subst b'; simpl. apply allT_upd; [exact Hall|]. exact Ha.
  - exfalso. simpl in Hwa. assert (e < E) by (apply Hlt; discriminate). lia.
  - inversion Hs; subst b'; simpl. apply allT_upd; [exact Hall|]. exact Ha.
  - inversion Hs; subst b'; simpl. apply allT_upd_map; [|exact Ha].
    intros j u _ Hj. rewrite rel_out_arr. exact (Hall _ _ Hj).
  - inversion Hs; subst b'; simpl. apply allT_upd; [exact Hall|]. destruct fo; exact Ha.
  - inversion Hs; subst b'; simpl. apply allT_upd; [exact Hall|]. destruct (bl - 1 =? 0)%Z; exact Ha.
  - inversion Hs; subst b'; simpl. apply allT_upd; [exact Hall|]. exact Ha.
  - inversion Hs; subst b'; simpl. apply allT_upd_map; [|exact Ha].
    intros j u _ Hj. rewrite rel_in_arr. exact (Hall _ _ Hj).
Qed.

(* blockers = 0 and the in gate full with everybody arrived for the last episode: everybody has returned *)
Lemma fixed_pass_settled : forall n E b,
    inv n E b -> blockers b = 0%Z -> in_full b = true ->
    (forall j t, nth_error (thrs b) j = Some t -> t_arr t = E) -> settled E b.
Proof.
  intros n E b (Hlen & Hwf & ph & g & Htok & Hgl) Hb Hin Hall j t Hj.
  destruct (Hwf _ _ Hj) as (Hwa & Hwq & HeE & Hlt). pose proof (Hall _ _ Hj) as Ha. pose proof (Htok _ _ Hj) as Ht.
  assert (Hp : t_pc t = PCall).
  { destruct ph; simpl in Hgl; destruct Hgl as (Hi' & Ho' & Hb' & Hx); try congruence.
    - (* F *)
      assert (Hz : cnt isOutWait (thrs b) = 0) by lia.
      pose proof (cnt_zero_all isOutWait _ _ _ Hz Hj) as Hw.
      unfold tok in Ht. unfold isOutWait in Hw.
      destruct (t_pc t) eqn:Hpc; try contradiction; try discriminate; auto;
        exfalso; simpl in Hwa; assert (t_ep t < E) by (apply Hlt; discriminate); lia.
    - (* C1: blockers = n = 0, no participants *)
      exfalso. assert (n = 0) by lia. subst n.
      assert (j < length (thrs b)) by (apply nth_error_Some; congruence). lia. }
  rewrite Hp in Hwa, Hwq. simpl in Hwa, Hwq. repeat split; auto; lia.
Qed.

Lemma pend_step : forall l i l', pend l -> lstepG chk_fixed l i = Some l' -> pend l' \/ linv l'.
Proof.
  intros l i l' (Hu & Hal & Hinv & Hm & Hg & Hla & Hcp & r & Hsc) Hs. unfold lstepG in Hs.
  destruct (i <? nthr l).
  - (* a participant *)
    left. unfold pstep in Hs.
    destruct (nth_error (thrs (bar l)) i) as [t|] eqn:Hi; [|discriminate].
    assert (Hnull : (gmode l && negb (gset l) && is_call t)%bool = false).
    { destruct Hg as [-> | ->]; simpl; auto. rewrite andb_false_r. auto. }
    rewrite Hnull in Hs.
    destruct (step (maxb l) (epis l) (bar l) i) as [b'|] eqn:Hst; [|discriminate].
    inversion Hs; subst l'; clear Hs. rewrite Hm in Hst.
    pose proof (inv_step _ _ _ _ _ Hinv Hst) as Hinv'.
    assert (Hlen : length (thrs b') = nthr l) by (destruct Hinv' as (Hl & _); exact Hl).
    unfold pend, nthr, last_arrived; simpl. unfold nthr in *. rewrite Hlen, Hal. simpl.
    split; [lia|]. split; [auto|]. split; [exact Hinv'|]. split; [exact Hm|]. split; [exact Hg|].
    split; [exact (step_keeps_last _ _ _ _ _ Hinv Hla Hst)|]. split; [exact Hcp|]. exists r. exact Hsc.
  - destruct (i =? nthr l); [|discriminate].
    assert (Hchk : l' = destroy_checkG chk_fixed l -> pend l' \/ linv l').
    { intros ->. unfold destroy_checkG. destruct (chk_fixed l) eqn:Hc.
      - right. unfold chk_fixed in Hc. apply andb_prop in Hc. destruct Hc as (Hb & Hin). apply Z.eqb_eq in Hb.
        pose proof (fixed_pass_settled _ _ _ Hinv Hb Hin Hla) as Hset.
        unfold linv, set_cp; simpl. split; auto. split; auto. split; auto.
        exists r. destruct Hsc as [(Hs1 & Hok) | (Hs1 & Hgs & Hok)]; [left|right]; auto.
      - left. unfold pend, set_cp, nthr, last_arrived; simpl.
        split; auto. split; auto. split; auto. split; auto. split; auto. split; auto. split; auto. exists r. exact Hsc. }
    unfold cstepG in Hs.
    destruct Hcp as [Hcp | Hcp]; rewrite Hcp in Hs.
    + destruct Hsc as [(Hs1 & Hok) | (Hs1 & Hgs & Hok)]; rewrite Hs1 in Hs.
      * injection Hs as H0. apply Hchk. auto.
      * rewrite Hgs in Hs. injection Hs as H0. apply Hchk. auto.
    + injection Hs as H0. apply Hchk. auto.
Qed.

Lemma pend_exec : forall sched l, pend l \/ linv l -> pend (lexecG chk_fixed l sched) \/ linv (lexecG chk_fixed l sched).
Proof.
  induction sched as [|i r IH]; intros l H; simpl; auto. apply IH.
  unfold lstepG_or_stay. destruct (lstepG chk_fixed l i) eqn:Hs; auto.
  destruct H as [H | H]; [eapply pend_step; eauto|right; eapply (linv_lstep chk_fixed chk_fixed_fresh); eauto].
Qed.

Lemma destroy_fixed_waits_for_leavers_lemma : forall (l : lstate) (sched : list nat),
    pend l ->
    let l' := lexecG chk_fixed l sched in
    uaf l' = 0 /\ (alive l' = false -> settled (epis l') (bar l')) /\
    (forall i j ti tj, nth_error (thrs (bar l')) i = Some ti -> nth_error (thrs (bar l')) j = Some tj ->
                       t_ep ti <= t_pas ti /\ t_pas ti <= t_arr tj /\ t_arr tj <= calls tj).
Proof.
  intros l sched H l'. destruct (pend_exec sched l (or_introl H)) as [Hp | Hl]; fold l' in Hp || fold l' in Hl.
  - destruct Hp as (Hu & Hal & Hinv & _). split; auto. split; [congruence|].
    intros i j ti tj. exact (inv_safe _ _ _ Hinv i j ti tj).
  - pose proof (linv_safe _ Hl) as (Hu & Hs & _). split; auto. split; auto.
    intros Hal. destruct Hl as (_ & Hl). destruct (cp l'); try contradiction; rewrite ?Hal in Hl.
    + destruct Hl as (Hset & _); exact Hset.
    + destruct Hl as (Hal' & _). congruence.
    + destruct Hl as (Hal' & _). congruence.
    + destruct Hl as (Hal' & _). congruence.
Qed.

(* once everybody has returned the repaired loop exits: destroy terminates *)
Lemma destroy_fixed_exits_lemma : forall l, pend l -> all_done (epis l) (bar l) = true -> chk_fixed l = true.
Proof.
  intros l (_ & _ & Hinv & _) Hd. apply chk_fixed_fresh. eapply quiescent_fresh; eauto.
Qed.

(* non-vacuity: the state of the race witness (participant 0 returned, participant 1 = last leaver before its gate
   operations, destroy about to be called) satisfies the guard; the repaired loop makes the destroyer yield there *)
Example pend_race_state : pend (lexec (lstart false race_script) (firstn 13 race_sched)).
Proof.
  set (l := lexec (lstart false race_script) (firstn 13 race_sched)).
  assert (Hb : bar l = exec (Z.of_nat 2) 1 (init 2) [0;0;0;0;1;1;1;1;1;0;1]) by (vm_compute; reflexivity).
  assert (Hn : nthr l = 2) by (vm_compute; reflexivity).
  unfold pend, last_arrived. rewrite Hn, Hb.
  split; [vm_compute; reflexivity|]. split; [vm_compute; reflexivity|]. split; [apply inv_reachable|].
  split; [vm_compute; reflexivity|]. split; [left; vm_compute; reflexivity|].
  split.
  - intros j t Hj. vm_compute in Hj. destruct j as [|[|[|j]]]; inversion Hj; reflexivity.
  - split; [left; vm_compute; reflexivity|]. exists []. left. split; vm_compute; reflexivity.
Qed.

Example fixed_race_run :
  let l := lexecG chk_fixed (lstart false race_script) (race_sched ++ [2;2;2;2]) in
  uaf l = 0 /\ alive l = false /\ lfinished l = true.
Proof. vm_compute. auto. Qed.

(* ------------------------------------------------------------------ inside the contract every run can be completed, whatever happened
   so far: a measure that every step decreases *)
Definition opcost (o : lop) : nat :=
  match o with LEra n E => n * (E * 10 + 9) + 1 | LDestroy | LGDestroy => 5 | _ => 1 end.
Definition cpcost (c : cpc) : nat :=
  match c with CNext => 4 | CYield => 4 | CFillOut => 3 | CFillIn => 2 | CFree => 1 end.
Definition lmeas (l : lstate) : nat := meas (epis l) (bar l) + sum opcost (script l) + cpcost (cp l).

Lemma lmeas_cstep : forall l l', linv l -> cstep l = Some l' -> lmeas l' < lmeas l.
Proof.
  intros l l' (Hu & H) Hs. unfold cstep, cstepG in Hs.
  destruct l as [b m E al gm gs c sc u]; unfold lmeas; simpl in *.
  assert (Hck : forall r, fresh b -> destroy_checkG chk_code (mkl b m E al gm gs CNext r u) = mkl b m E al gm gs CFillOut r u).
  { intros r (_ & _ & Hb). unfold destroy_checkG, chk_code, set_cp; simpl. rewrite Hb. reflexivity. }
  destruct c; try contradiction.
  - destruct al.
    + destruct H as [(Hinv & Hm & Hg & Hok) | (Hset & Hfr & Hok)].
      * destruct sc as [|o r]; [discriminate|]. destruct o; simpl in Hok; try discriminate.
        destruct (all_done E b); [|discriminate]. inversion Hs; subst l'. simpl. lia.
      * pose proof (settled_all_done _ _ Hset) as Hd.
        destruct sc as [|o r]; [discriminate|].
        destruct o; rewrite ?Hd in Hs;
          try (destruct gs); try rewrite (Hck _ Hfr) in Hs; inversion Hs; subst l'; unfold meas; simpl; try lia.
        all: rewrite sum_repeat; unfold meas_t at 1; simpl; rewrite Nat.sub_0_r; lia.
    + destruct H as (Hset & Hok).
      pose proof (settled_all_done _ _ Hset) as Hd.
      destruct sc as [|o r]; [discriminate|].
      destruct o; simpl in Hok; try discriminate; rewrite ?Hd in Hs;
        try (destruct gs); try discriminate; inversion Hs; subst l'; unfold meas; simpl; lia.
  - destruct H as (_ & Hset & _). inversion Hs; subst l'. simpl.
    rewrite (settled_map_id E b rel_out rel_out_call Hset). unfold meas; simpl. lia.
  - destruct H as (_ & Hset & _). inversion Hs; subst l'. simpl.
    rewrite (settled_map_id E b rel_in rel_in_call Hset). unfold meas; simpl. lia.
  - destruct H as (_ & _ & r & [(Hsc & _) | (Hsc & _)]); subst sc; inversion Hs; subst l'; simpl; lia.
Qed.

Lemma lmeas_lstep : forall l i l', linv l -> lstep l i = Some l' -> lmeas l' < lmeas l.
Proof.
  intros l i l' H Hs. unfold lstep, lstepG in Hs.
  destruct (i <? nthr l).
  - destruct H as (Hu & H).
    assert (Hns : settled (epis l) (bar l) -> False).
    { intros Hset. rewrite (pstep_settled_none l i Hset) in Hs. discriminate. }
    destruct (cp l) eqn:Hc; try contradiction;
      try (destruct H as (_ & Hset & _); exfalso; auto).
    destruct (alive l) eqn:Hal; [|destruct H as (Hset & _); exfalso; auto].
    destruct H as [(Hinv & Hm & Hg & Hok) | (Hset & _)]; [|exfalso; auto].
    unfold pstep in Hs.
    destruct (nth_error (thrs (bar l)) i) as [t|] eqn:Hi; [|discriminate].
    assert (Hnull : (gmode l && negb (gset l) && is_call t)%bool = false).
    { destruct Hg as [-> | ->]; simpl; auto. rewrite andb_false_r. auto. }
    rewrite Hnull in Hs.
    destruct (step (maxb l) (epis l) (bar l) i) as [b'|] eqn:Hst; [|discriminate].
    inversion Hs; subst l'; clear Hs. rewrite Hm in Hst.
    pose proof (meas_step _ _ _ _ _ Hinv Hst). unfold lmeas; simpl. lia.
  - destruct (i =? nthr l); [|discriminate]. apply lmeas_cstep; auto.
Qed.

Lemma linv_completes : forall k l, linv l -> lmeas l <= k -> exists sched, lfinished (lexec l sched) = true.
Proof.
  induction k as [|k IH]; intros l H Hk.
  - destruct (lfinished l) eqn:Hf; [exists []; auto|].
    destruct (linv_no_deadlock l H Hf) as (i & Hen). unfold lenabled in Hen.
    destruct (lstep l i) as [l'|] eqn:Hs; [|discriminate].
    pose proof (lmeas_lstep _ _ _ H Hs). lia.
  - destruct (lfinished l) eqn:Hf; [exists []; auto|].
    destruct (linv_no_deadlock l H Hf) as (i & Hen). unfold lenabled in Hen.
    destruct (lstep l i) as [l'|] eqn:Hs; [|discriminate].
    pose proof (lmeas_lstep _ _ _ H Hs) as Hlt.
    pose proof (linv_lstep chk_code chk_code_fresh _ _ _ H Hs) as H'.
    destruct (IH l' H') as (sched & Hsched); [lia|].
    exists (i :: sched). unfold lexec, lexecG. simpl. unfold lstepG_or_stay. fold (lstep l i). rewrite Hs. exact Hsched.
Qed.

Lemma life_completes_lemma : forall (gm : bool) (sc : list lop) (sched : list nat),
    okscript gm MD false 0%Z sc = true ->
    exists rest, lfinished (lexec (lstart gm sc) (sched ++ rest)) = true.
Proof.
  intros gm sc sched H.
  pose proof (linv_lexec chk_code chk_code_fresh sched _ (linv_start gm sc H)) as Hl.
  destruct (linv_completes _ _ Hl (le_n _)) as (rest & Hr).
  exists rest. unfold lexec, lexecG in *. rewrite fold_left_app. exact Hr.
Qed.

Lemma life_step_decreases_lemma : forall (gm : bool) (sc : list lop) (sched : list nat) (i : nat) (l' : lstate),
    okscript gm MD false 0%Z sc = true ->
    lstep (lexec (lstart gm sc) sched) i = Some l' -> lmeas l' < lmeas (lexec (lstart gm sc) sched).
Proof.
  intros gm sc sched i l' H Hs. eapply lmeas_lstep; eauto.
  apply (linv_lexec chk_code chk_code_fresh). apply linv_start. exact H.
Qed.
