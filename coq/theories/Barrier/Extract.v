From Coq Require Import List ZArith.
From QV Require Import Barrier.Model.
Require Extraction.
Require Import ExtrOcamlBasic.
Extraction Language OCaml.
Extraction "../ocaml/gen/c11_model.ml" init step pick enabled_list min_calls all_done.
