(* C11 -- executable micro-step model of qt_barrier_enter (src/barrier/feb.c).

   One shared access of the code = one step of one thread:

     qt_barrier_enter(b):
       PIn      qthread_readFF(NULL,&b->in_gate)          full: go on; empty: enqueue as waiter (PInW)
       PInc     waiters = qthread_incr(&b->blockers,1)+1  ; if (waiters == max_blockers)
       PEmpIn       qthread_empty(&b->in_gate)
       PFillOut     qthread_fill(&b->out_gate)            releases every waiter of out_gate
       POut     else qthread_readFF(NULL,&b->out_gate)    full: go on; empty: waiter (POutW)
       PDec     waiters = qthread_incr(&b->blockers,-1)-1 ; if (waiters == 0)
       PEmpOut      qthread_empty(&b->out_gate)
       PFillIn      qthread_fill(&b->in_gate)             releases every waiter of in_gate

   PCall is the participant's own code between two calls (it announces its arrival there).
   FEB semantics used (C01/C02): readFF on a full word returns, on an empty word the caller is
   enqueued and only a later fill of that word makes it runnable again; a waiter that was
   released completes its readFF even if the word has been emptied again in the meantime
   (this is why released waiters are moved past the gate by the fill step itself).
   qt_barrier_create: in_gate full (fresh FEB word), out_gate emptied, blockers = 0.

   History variables (never read by the program): t_arr = number of +1 fetch-adds done,
   t_pas = number of times the thread got past the out gate, t_ep = number of returns from enter. *)
From Coq Require Import List ZArith Bool Arith.
Import ListNotations.
Local Open Scope Z_scope.

Inductive pc := PCall | PIn | PInW | PInc | PEmpIn | PFillOut | POut | POutW | PDec | PEmpOut | PFillIn.

Record thr := mkthr { t_pc : pc; t_ep : nat; t_arr : nat; t_pas : nat }.

Record state := mkst { in_full : bool; out_full : bool; blockers : Z; thrs : list thr }.

Fixpoint upd {A} (i : nat) (x : A) (l : list A) : list A :=
  match l, i with
  | [], _ => []
  | _ :: r, O => x :: r
  | y :: r, S k => y :: upd k x r
  end.

Definition setpc (t : thr) (p : pc) : thr := mkthr p (t_ep t) (t_arr t) (t_pas t).
Definition pass_out (t : thr) : thr := mkthr PDec (t_ep t) (t_arr t) (S (t_pas t)).
Definition finish (t : thr) : thr := mkthr PCall (S (t_ep t)) (t_arr t) (t_pas t).

(* effect of qthread_fill on the waiters of the word *)
Definition rel_in (t : thr) : thr := match t_pc t with PInW => setpc t PInc | _ => t end.
Definition rel_out (t : thr) : thr := match t_pc t with POutW => pass_out t | _ => t end.

Section Params.
  Variable maxb : Z.      (* b->max_blockers *)
  Variable E : nat.       (* episodes every participant runs *)

  Definition step (s : state) (i : nat) : option state :=
    match nth_error (thrs s) i with
    | None => None
    | Some t =>
      let put t' := upd i t' (thrs s) in
      match t_pc t with
      | PCall => if (t_ep t <? E)%nat
                 then Some (mkst (in_full s) (out_full s) (blockers s) (put (setpc t PIn)))
                 else None
      | PIn => Some (mkst (in_full s) (out_full s) (blockers s)
                          (put (setpc t (if in_full s then PInc else PInW))))
      | PInW => None
      | PInc => let w := blockers s + 1 in
                Some (mkst (in_full s) (out_full s) w
                           (put (mkthr (if w =? maxb then PEmpIn else POut) (t_ep t) (S (t_arr t)) (t_pas t))))
      | PEmpIn => Some (mkst false (out_full s) (blockers s) (put (setpc t PFillOut)))
      | PFillOut => Some (mkst (in_full s) true (blockers s) (upd i (pass_out t) (map rel_out (thrs s))))
      | POut => Some (mkst (in_full s) (out_full s) (blockers s)
                           (put (if out_full s then pass_out t else setpc t POutW)))
      | POutW => None
      | PDec => let w := blockers s - 1 in
                Some (mkst (in_full s) (out_full s) w (put (if w =? 0 then setpc t PEmpOut else finish t)))
      | PEmpOut => Some (mkst (in_full s) false (blockers s) (put (setpc t PFillIn)))
      | PFillIn => Some (mkst true (out_full s) (blockers s) (upd i (finish t) (map rel_in (thrs s))))
      end
    end.

  (* a schedule is any list of thread ids; picking a thread that cannot move is a stutter *)
  Definition step_or_stay (s : state) (i : nat) : state :=
    match step s i with Some s' => s' | None => s end.

  Definition exec (s : state) (sched : list nat) : state := fold_left step_or_stay sched s.

  Definition enabled (s : state) (i : nat) : bool :=
    match step s i with Some _ => true | None => false end.

  Definition enabled_list (s : state) : list nat :=
    filter (enabled s) (seq 0 (length (thrs s))).

  (* adaptive schedule used by the correspondence: r = 1024*(p) + q ; p > 0 prefers thread p-1 when it is
     enabled (streaks of one participant: fast re-entry), otherwise q selects among the enabled threads *)
  Definition pick (s : state) (r : nat) : option nat :=
    match enabled_list s with
    | [] => None
    | l => let p := (r / 1024)%nat in
           if ((0 <? p)%nat && enabled s (p - 1))%bool then Some (p - 1)%nat
           else nth_error l ((r mod 1024) mod length l)
    end.
End Params.

Definition thr0 : thr := mkthr PCall 0 0 0.
Definition init (n : nat) : state := mkst true false 0 (repeat thr0 n).

(* number of calls of enter begun by a thread (history, derived) *)
Definition calls (t : thr) : nat := match t_pc t with PCall => t_ep t | _ => S (t_ep t) end.
Definition min_calls (s : state) : nat :=
  match thrs s with
  | [] => 0%nat
  | t :: r => fold_left (fun m u => Nat.min m (calls u)) r (calls t)
  end.

Definition done (E : nat) (t : thr) : bool :=
  match t_pc t with PCall => (E <=? t_ep t)%nat | _ => false end.
Definition all_done (E : nat) (s : state) : bool := forallb (done E) (thrs s).
