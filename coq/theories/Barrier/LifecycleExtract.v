From Coq Require Import List ZArith.
From QV Require Import Barrier.Model Barrier.Lifecycle.
Require Extraction.
Require Import ExtrOcamlBasic.
Extraction Language OCaml.
Extraction "../ocaml/gen/c11life_model.ml" lstart lstep lpick lenabled_list lfinished okscript min_calls all_done.
