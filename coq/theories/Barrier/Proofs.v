(* C11 -- invariant proof for the barrier micro-step model: phases filling (F) / closing (C1,C2) /
   draining (D) / reopening (O1,O2), for every number of participants, every number of episodes,
   every schedule. *)
From Coq Require Import List ZArith Bool Arith Lia.
From QV Require Import Barrier.Model.
Import ListNotations.
Local Open Scope nat_scope.

(* ------------------------------------------------------------------ lists *)
Section ListFacts.
  Context {A : Type}.

  Lemma length_upd : forall (l : list A) i x, length (upd i x l) = length l.
  Proof. induction l as [|y r IH]; intros [|i] x; simpl; auto. Qed.

  Lemma nth_upd_eq : forall (l : list A) i x t, nth_error l i = Some t -> nth_error (upd i x l) i = Some x.
  Proof. induction l as [|y r IH]; intros [|i] x t H; simpl in *; try discriminate; eauto. Qed.

  Lemma nth_upd_ne : forall (l : list A) i j x, i <> j -> nth_error (upd i x l) j = nth_error l j.
  Proof.
    induction l as [|y r IH]; intros [|i] [|j] x H; simpl; auto; try congruence.
  Qed.

  Lemma nth_upd_inv : forall (l : list A) i j x u,
      nth_error (upd i x l) j = Some u -> (j = i /\ u = x) \/ (j <> i /\ nth_error l j = Some u).
  Proof.
    intros l i j x u H. destruct (Nat.eq_dec j i) as [->|Hne].
    - left. split; auto.
      destruct (nth_error l i) eqn:Hi.
      + rewrite (nth_upd_eq _ _ _ _ Hi) in H. congruence.
      + exfalso. apply nth_error_None in Hi.
        assert (Hs : nth_error (upd i x l) i <> None) by congruence.
        apply nth_error_Some in Hs. rewrite length_upd in Hs. lia.
    - right. split; auto. rewrite nth_upd_ne in H; auto.
  Qed.

  Fixpoint cnt (f : A -> bool) (l : list A) : nat :=
    match l with [] => 0 | x :: r => (if f x then 1 else 0) + cnt f r end.

  Definition b2n (b : bool) : nat := if b then 1 else 0.

  Lemma cnt_upd : forall f (l : list A) i t x,
      nth_error l i = Some t -> cnt f (upd i x l) + b2n (f t) = cnt f l + b2n (f x).
  Proof.
    induction l as [|y r IH]; intros [|i] t x H; simpl in *; try discriminate.
    - inversion H; subst. unfold b2n. destruct (f t), (f x); lia.
    - specialize (IH _ _ x H). destruct (f y); lia.
  Qed.

  Lemma cnt_le_length : forall f (l : list A), cnt f l <= length l.
  Proof. induction l as [|y r IH]; simpl; auto. destruct (f y); lia. Qed.

  Lemma cnt_all : forall f (l : list A),
      (forall j t, nth_error l j = Some t -> f t = true) -> cnt f l = length l.
  Proof.
    induction l as [|y r IH]; intros H; simpl; auto.
    rewrite (H 0 y eq_refl). rewrite IH; auto. intros j t Hj. apply (H (S j) t Hj).
  Qed.

  Lemma cnt_none : forall f (l : list A),
      (forall j t, nth_error l j = Some t -> f t = false) -> cnt f l = 0.
  Proof.
    induction l as [|y r IH]; intros H; simpl; auto.
    rewrite (H 0 y eq_refl). rewrite IH; auto. intros j t Hj. apply (H (S j) t Hj).
  Qed.

  Lemma cnt_pos_ex : forall f (l : list A), 0 < cnt f l -> exists i t, nth_error l i = Some t /\ f t = true.
  Proof.
    induction l as [|y r IH]; simpl; intros H; [lia|].
    destruct (f y) eqn:Hy.
    - exists 0, y. auto.
    - destruct (IH H) as (i & t & Hi & Ht). exists (S i), t. auto.
  Qed.

  Lemma cnt_lt_ex : forall f (l : list A), cnt f l < length l -> exists i t, nth_error l i = Some t /\ f t = false.
  Proof.
    induction l as [|y r IH]; simpl; intros H; [lia|].
    destruct (f y) eqn:Hy.
    - destruct IH as (i & t & Hi & Ht); [lia|]. exists (S i), t. auto.
    - exists 0, y. auto.
  Qed.

  Lemma cnt_pos_of : forall f (l : list A) i t, nth_error l i = Some t -> f t = true -> 0 < cnt f l.
  Proof.
    induction l as [|y r IH]; intros [|i] t Hi Ht; simpl in *; try discriminate.
    - inversion Hi; subst. rewrite Ht. lia.
    - specialize (IH _ _ Hi Ht). destruct (f y); lia.
  Qed.

  (* exactly one element satisfies f: every other one does not *)
  Lemma cnt_one_others : forall f (l : list A) i t,
      cnt f l = 1 -> nth_error l i = Some t -> f t = true ->
      forall j u, j <> i -> nth_error l j = Some u -> f u = false.
  Proof.
    induction l as [|y r IH]; intros i t H1 Hi Ht j u Hne Hj; [destruct i; discriminate|].
    destruct (f u) eqn:Hu; auto. exfalso.
    destruct i as [|i], j as [|j]; simpl in *; try congruence.
    - inversion Hi; subst. rewrite Ht in H1. pose proof (cnt_pos_of f r j u Hj Hu). lia.
    - inversion Hj; subst. rewrite Hu in H1. pose proof (cnt_pos_of f r i t Hi Ht). lia.
    - destruct (f y).
      + pose proof (cnt_pos_of f r i t Hi Ht). lia.
      + simpl in H1. assert (Hij : j <> i) by congruence.
        pose proof (IH i t H1 Hi Ht j u Hij Hj). congruence.
  Qed.

  Lemma cnt_neg : forall f (l : list A), cnt (fun x => negb (f x)) l + cnt f l = length l.
  Proof. induction l as [|y r IH]; simpl; auto. destruct (f y); simpl; lia. Qed.

  (* all but one satisfy f *)
  Lemma cnt_allbut : forall f (l : list A) i t,
      cnt f l + 1 = length l -> nth_error l i = Some t -> f t = false ->
      forall j u, j <> i -> nth_error l j = Some u -> f u = true.
  Proof.
    intros f l i t H Hi Ht j u Hne Hj.
    pose proof (cnt_neg f l) as Hn.
    assert (H1 : cnt (fun x => negb (f x)) l = 1) by lia.
    pose proof (cnt_one_others (fun x => negb (f x)) l i t H1 Hi) as Ho.
    simpl in Ho. rewrite Ht in Ho. specialize (Ho eq_refl j u Hne Hj).
    destruct (f u); auto; discriminate.
  Qed.

  Fixpoint sum (m : A -> nat) (l : list A) : nat := match l with [] => 0 | x :: r => m x + sum m r end.

  Lemma sum_upd : forall m (l : list A) i t x,
      nth_error l i = Some t -> sum m (upd i x l) + m t = sum m l + m x.
  Proof.
    induction l as [|y r IH]; intros [|i] t x H; simpl in *; try discriminate.
    - inversion H; subst. lia.
    - specialize (IH _ _ x H). lia.
  Qed.

  Lemma sum_map_le : forall m g (l : list A), (forall t, m (g t) <= m t) -> sum m (map g l) <= sum m l.
  Proof. induction l as [|y r IH]; simpl; intros H; auto. specialize (IH H). specialize (H y). lia. Qed.

  Lemma sum_repeat : forall m (x : A) k, sum m (repeat x k) = k * m x.
  Proof. induction k; simpl; auto. Qed.
End ListFacts.

Definition allT (P : thr -> Prop) (l : list thr) : Prop := forall j t, nth_error l j = Some t -> P t.

Lemma allT_upd_map : forall (P : thr -> Prop) (g : thr -> thr) (l : list thr) i x,
    (forall j u, j <> i -> nth_error l j = Some u -> P (g u)) -> P x -> allT P (upd i x (map g l)).
Proof.
  intros P g l i x Ho Hx j u Hj.
  apply nth_upd_inv in Hj. destruct Hj as [[-> ->]|[Hne Hj]]; auto.
  rewrite nth_error_map in Hj. destruct (nth_error l j) eqn:Hl; simpl in Hj; try discriminate.
  inversion Hj; subst. eauto.
Qed.

Lemma allT_upd_others : forall (P : thr -> Prop) l i x,
    (forall j u, j <> i -> nth_error l j = Some u -> P u) -> P x -> allT P (upd i x l).
Proof.
  intros P l i x Ho Hx j u Hj.
  apply nth_upd_inv in Hj. destruct Hj as [[-> ->]|[Hne Hj]]; eauto.
Qed.

Lemma allT_upd : forall (P : thr -> Prop) l i x, allT P l -> P x -> allT P (upd i x l).
Proof. intros. apply allT_upd_others; auto. intros; eauto. Qed.

(* ------------------------------------------------------------------ the invariant *)
Inductive phase := F | C1 | C2 | D | O1 | O2.

Definition arrflag (p : pc) : nat :=
  match p with PEmpIn | PFillOut | POut | POutW | PDec | PEmpOut | PFillIn => 1 | _ => 0 end.
Definition pasflag (p : pc) : nat :=
  match p with PDec | PEmpOut | PFillIn => 1 | _ => 0 end.

Definition isOutWait (t : thr) : bool := match t_pc t with POut | POutW => true | _ => false end.
Definition isInside (t : thr) : bool := match t_pc t with POut | PDec => true | _ => false end.
Definition isEmpIn (t : thr) : bool := match t_pc t with PEmpIn => true | _ => false end.
Definition isFillOut (t : thr) : bool := match t_pc t with PFillOut => true | _ => false end.
Definition isEmpOut (t : thr) : bool := match t_pc t with PEmpOut => true | _ => false end.
Definition isFillIn (t : thr) : bool := match t_pc t with PFillIn => true | _ => false end.

(* position allowed for a thread in phase ph of global episode g *)
Definition tok (ph : phase) (g : nat) (t : thr) : Prop :=
  match ph, t_pc t with
  | F, (PCall | PIn | PInc | POut | POutW) => t_ep t = g
  | C1, (PEmpIn | POut | POutW) => t_ep t = g
  | C2, (PFillOut | POut | POutW) => t_ep t = g
  | D, (POut | PDec) => t_ep t = g
  | D, (PCall | PIn | PInW) => t_ep t = S g
  | O1, PEmpOut => t_ep t = g
  | O1, (PCall | PIn | PInW) => t_ep t = S g
  | O2, PFillIn => t_ep t = g
  | O2, (PCall | PIn | PInW) => t_ep t = S g
  | _, _ => False
  end.

Section Inv.
  Variable n : nat.
  Variable E : nat.
  Let maxb : Z := Z.of_nat n.

  Definition wf (t : thr) : Prop :=
    t_arr t = t_ep t + arrflag (t_pc t) /\ t_pas t = t_ep t + pasflag (t_pc t) /\
    t_ep t <= E /\ (t_pc t <> PCall -> t_ep t < E).

  Definition gl (ph : phase) (s : state) : Prop :=
    match ph with
    | F => in_full s = true /\ out_full s = false /\ blockers s = Z.of_nat (cnt isOutWait (thrs s)) /\ (n = 0 \/ (blockers s < maxb)%Z)
    | C1 => in_full s = true /\ out_full s = false /\ blockers s = maxb /\ cnt isEmpIn (thrs s) = 1
    | C2 => in_full s = false /\ out_full s = false /\ blockers s = maxb /\ cnt isFillOut (thrs s) = 1
    | D => in_full s = false /\ out_full s = true /\ blockers s = Z.of_nat (cnt isInside (thrs s)) /\ (1 <= blockers s)%Z
    | O1 => in_full s = false /\ out_full s = true /\ blockers s = 0%Z /\ cnt isEmpOut (thrs s) = 1
    | O2 => in_full s = false /\ out_full s = false /\ blockers s = 0%Z /\ cnt isFillIn (thrs s) = 1
    end.

  Definition inv (s : state) : Prop :=
    length (thrs s) = n /\ allT wf (thrs s) /\ exists ph g, allT (tok ph g) (thrs s) /\ gl ph s.

  Lemma inv_init : inv (init n).
  Proof.
    unfold inv, init; simpl. split; [apply repeat_length|].
    assert (Hrep : forall j t, nth_error (repeat thr0 n) j = Some t -> t = thr0).
    { intros j t H. apply nth_error_In in H. apply repeat_spec in H. auto. }
    split.
    - intros j t H. apply Hrep in H; subst. unfold wf; simpl. repeat split; try lia. congruence.
    - exists F, 0. split.
      + intros j t H. apply Hrep in H; subst. reflexivity.
      + simpl. repeat split; auto.
        * rewrite cnt_none; auto. intros j t H. apply Hrep in H; subst. reflexivity.
        * unfold maxb. destruct n; [left; auto|right; lia].
  Qed.

  Ltac wf_solve :=
    unfold wf, setpc, pass_out, finish; simpl; cbn [arrflag pasflag] in *;
    try match goal with |- context [if ?b then _ else _] => destruct b; simpl end;
    repeat split; auto; try lia;
    try (intros _; match goal with H : _ <> PCall -> _ |- _ => apply H; congruence end); try congruence.

  (* one step preserves the invariant; n = 0 has no steps *)
  Lemma inv_step : forall s i s', inv s -> step maxb E s i = Some s' -> inv s'.
  Proof.
    intros s i s' (Hlen & Hwf & ph & g & Htok & Hgl) Hstep.
    unfold step in Hstep.
    destruct (nth_error (thrs s) i) as [t|] eqn:Hi; [|discriminate].
    pose proof (Hwf _ _ Hi) as Hwt. pose proof (Htok _ _ Hi) as Htt.
    assert (Hn : 0 < n).
    { assert (i < length (thrs s)) by (apply nth_error_Some; congruence). lia. }
    destruct s as [fin fout b l]; simpl in *.
    destruct t as [p e a q]. unfold wf in Hwt; simpl in Hwt. destruct Hwt as (Ha & Hq & HeE & HeLt).
    unfold tok in Htt; simpl in Htt.
    destruct p; simpl in Hstep.
    - (* PCall *)
      destruct (e <? E) eqn:HE; [|discriminate]. apply Nat.ltb_lt in HE.
      inversion Hstep; subst s'; clear Hstep. unfold inv; simpl.
      split; [rewrite length_upd; auto|]. split.
      { apply allT_upd; [assumption|]. wf_solve. }
      exists ph, g. split.
      { apply allT_upd; [assumption|]. unfold tok, setpc; simpl. destruct ph; auto. }
      destruct ph; simpl in *; try contradiction;
        repeat match goal with H : _ /\ _ |- _ => destruct H end; repeat split; auto;
        match goal with |- context [cnt ?f (upd i ?x l)] =>
          pose proof (cnt_upd f l i _ x Hi) as Hc; cbv [b2n] in Hc; cbn [isOutWait isInside isEmpIn isFillOut isEmpOut isFillIn t_pc setpc pass_out finish] in Hc end; try lia.
    - (* PIn *)
      inversion Hstep; subst s'; clear Hstep. unfold inv; simpl.
      split; [rewrite length_upd; auto|]. split.
      { apply allT_upd; [assumption|]. wf_solve. }
      exists ph, g. split.
      { apply allT_upd; [assumption|]. unfold tok, setpc; simpl.
        destruct ph; simpl in *; try contradiction; destruct Hgl as (-> & _); auto. }
      destruct ph; simpl in *; try contradiction;
        repeat match goal with H : _ /\ _ |- _ => destruct H end; subst; repeat split; auto;
        match goal with |- context [cnt ?f (upd i ?x l)] =>
          pose proof (cnt_upd f l i _ x Hi) as Hc; cbv [b2n] in Hc; cbn [isOutWait isInside isEmpIn isFillOut isEmpOut isFillIn t_pc setpc pass_out finish] in Hc end; try lia.
    - (* PInW *) discriminate.
    - (* PInc *)
      inversion Hstep; subst s'; clear Hstep.
      destruct ph; simpl in Htt; try contradiction. subst e.
      destruct Hgl as (Hfin & Hfout & Hb & Hlt). simpl in *.
      pose proof (cnt_upd isOutWait l i _ (mkthr POut g (S a) q) Hi) as Hc; cbv [b2n] in Hc; cbn [isOutWait isInside isEmpIn isFillOut isEmpOut isFillIn t_pc setpc pass_out finish] in Hc.
      pose proof (cnt_upd isOutWait l i _ (mkthr PEmpIn g (S a) q) Hi) as Hc1; cbv [b2n] in Hc1; cbn [isOutWait isInside isEmpIn isFillOut isEmpOut isFillIn t_pc setpc pass_out finish] in Hc1.
      destruct (b + 1 =? maxb)%Z eqn:Hlast.
      + (* last arrival: closing *)
        apply Z.eqb_eq in Hlast. unfold inv; simpl.
        split; [rewrite length_upd; auto|]. split.
        { apply allT_upd; [assumption|]. wf_solve. }
        exists C1, g.
        assert (Hothers : forall j u, j <> i -> nth_error l j = Some u -> isOutWait u = true).
        { apply (cnt_allbut isOutWait l i (mkthr PInc g a q)); auto. unfold maxb in *. lia. }
        split.
        { apply allT_upd_others; [|reflexivity].
          intros j u Hne Hj. specialize (Hothers _ _ Hne Hj). specialize (Htok _ _ Hj).
          unfold tok, isOutWait in *. destruct (t_pc u); try discriminate; try contradiction; auto. }
        simpl. repeat split; auto.
        pose proof (cnt_upd isEmpIn l i _ (mkthr PEmpIn g (S a) q) Hi) as Hc2; cbv [b2n] in Hc2; cbn [isOutWait isInside isEmpIn isFillOut isEmpOut isFillIn t_pc setpc pass_out finish] in Hc2.
        rewrite (cnt_none isEmpIn l) in Hc2; [lia|].
        intros j u Hj. specialize (Htok _ _ Hj). unfold tok, isEmpIn in *. destruct (t_pc u); auto; contradiction.
      + apply Z.eqb_neq in Hlast. unfold inv; simpl.
        split; [rewrite length_upd; auto|]. split.
        { apply allT_upd; [assumption|]. wf_solve. }
        exists F, g. split.
        { apply allT_upd; [assumption|]. reflexivity. }
        simpl. repeat split; auto; lia.
    - (* PEmpIn *)
      inversion Hstep; subst s'; clear Hstep.
      destruct ph; simpl in Htt; try contradiction. subst e.
      destruct Hgl as (Hfin & Hfout & Hb & Hone). simpl in *.
      unfold inv; simpl.
      split; [rewrite length_upd; auto|]. split.
      { apply allT_upd; [assumption|]. wf_solve. }
      exists C2, g. split.
      { apply allT_upd_others; [|reflexivity].
        intros j u Hne Hj. pose proof (cnt_one_others isEmpIn l i _ Hone Hi eq_refl j u Hne Hj) as Hu.
        specialize (Htok _ _ Hj). unfold tok, isEmpIn in *. destruct (t_pc u); try discriminate; try contradiction; auto. }
      simpl. repeat split; auto.
      pose proof (cnt_upd isFillOut l i _ (setpc (mkthr PEmpIn g a q) PFillOut) Hi) as Hc2; cbv [b2n] in Hc2; cbn [isOutWait isInside isEmpIn isFillOut isEmpOut isFillIn t_pc setpc pass_out finish] in Hc2.
      rewrite (cnt_none isFillOut l) in Hc2; [lia|].
      intros j u Hj. specialize (Htok _ _ Hj). unfold tok, isFillOut in *. destruct (t_pc u); auto; contradiction.
    - (* PFillOut *)
      inversion Hstep; subst s'; clear Hstep.
      destruct ph; simpl in Htt; try contradiction. subst e.
      destruct Hgl as (Hfin & Hfout & Hb & Hone). simpl in *.
      assert (Hoth : forall j u, j <> i -> nth_error l j = Some u -> t_ep u = g /\ (t_pc u = POut \/ t_pc u = POutW)).
      { intros j u Hne Hj. pose proof (cnt_one_others isFillOut l i _ Hone Hi eq_refl j u Hne Hj) as Hu.
        specialize (Htok _ _ Hj). unfold tok, isFillOut in *. destruct (t_pc u); try discriminate; try contradiction; auto. }
      unfold inv; simpl.
      split; [rewrite length_upd, map_length; auto|]. split.
      { apply allT_upd_map.
        - intros j u Hne Hj. specialize (Hwf _ _ Hj). destruct (Hoth _ _ Hne Hj) as (_ & [Hp|Hp]);
            unfold rel_out; rewrite Hp; auto.
          unfold wf, pass_out in *; simpl. rewrite Hp in Hwf; simpl in Hwf.
          destruct Hwf as (? & ? & ? & ?). repeat split; auto; try lia. intros _. apply H2. congruence.
        - wf_solve. }
      assert (HD : allT (tok D g) (upd i (pass_out (mkthr PFillOut g a q)) (map rel_out l))).
      { apply allT_upd_map; [|reflexivity].
        intros j u Hne Hj. destruct (Hoth _ _ Hne Hj) as (He & [Hp|Hp]); unfold rel_out, tok; rewrite Hp; simpl; auto.
        rewrite Hp. auto. }
      exists D, g. split; auto.
      assert (Hall : cnt isInside (upd i (pass_out (mkthr PFillOut g a q)) (map rel_out l)) = n).
      { rewrite cnt_all; [rewrite length_upd, map_length; auto|].
        intros j u Hj. apply nth_upd_inv in Hj. destruct Hj as [[-> ->]|[Hne Hj]]; [reflexivity|].
        rewrite nth_error_map in Hj. destruct (nth_error l j) as [v|] eqn:Hv; simpl in Hj; [|discriminate].
        inversion Hj; subst u. destruct (Hoth _ _ Hne Hv) as (_ & [Hp|Hp]); unfold rel_out, isInside; rewrite Hp; simpl; auto.
        rewrite Hp; auto. }
      simpl. repeat split; auto; try rewrite Hall; unfold maxb in *; lia.
    - (* POut *)
      inversion Hstep; subst s'; clear Hstep. unfold inv; simpl.
      split; [rewrite length_upd; auto|].
      destruct ph; simpl in Htt; try contradiction; subst e; simpl in Hgl;
        destruct Hgl as (Hfin & Hfout & Hb & Hx); subst fout.
      + split. { apply allT_upd; [assumption|]. wf_solve. }
        exists F, g. split. { apply allT_upd; [assumption|]. reflexivity. }
        simpl. repeat split; auto.
        pose proof (cnt_upd isOutWait l i _ (setpc (mkthr POut g a q) POutW) Hi) as Hc; cbv [b2n] in Hc; cbn [isOutWait isInside isEmpIn isFillOut isEmpOut isFillIn t_pc setpc pass_out finish] in Hc. lia.
      + split. { apply allT_upd; [assumption|]. wf_solve. }
        exists C1, g. split. { apply allT_upd; [assumption|]. reflexivity. }
        simpl. repeat split; auto.
        pose proof (cnt_upd isEmpIn l i _ (setpc (mkthr POut g a q) POutW) Hi) as Hc; cbv [b2n] in Hc; cbn [isOutWait isInside isEmpIn isFillOut isEmpOut isFillIn t_pc setpc pass_out finish] in Hc. lia.
      + split. { apply allT_upd; [assumption|]. wf_solve. }
        exists C2, g. split. { apply allT_upd; [assumption|]. reflexivity. }
        simpl. repeat split; auto.
        pose proof (cnt_upd isFillOut l i _ (setpc (mkthr POut g a q) POutW) Hi) as Hc; cbv [b2n] in Hc; cbn [isOutWait isInside isEmpIn isFillOut isEmpOut isFillIn t_pc setpc pass_out finish] in Hc. lia.
      + split. { apply allT_upd; [assumption|]. wf_solve. }
        exists D, g. split. { apply allT_upd; [assumption|]. reflexivity. }
        simpl. repeat split; auto.
        pose proof (cnt_upd isInside l i _ (pass_out (mkthr POut g a q)) Hi) as Hc; cbv [b2n] in Hc; cbn [isOutWait isInside isEmpIn isFillOut isEmpOut isFillIn t_pc setpc pass_out finish] in Hc. lia.
    - (* POutW *) discriminate.
    - (* PDec *)
      inversion Hstep; subst s'; clear Hstep.
      destruct ph; simpl in Htt; try contradiction. subst e.
      destruct Hgl as (Hfin & Hfout & Hb & Hge). simpl in *.
      assert (HgE : g < E) by (apply HeLt; congruence).
      destruct (b - 1 =? 0)%Z eqn:Hlast.
      + apply Z.eqb_eq in Hlast. unfold inv; simpl.
        split; [rewrite length_upd; auto|]. split.
        { apply allT_upd; [assumption|]. wf_solve. }
        exists O1, g.
        assert (Hone : cnt isInside l = 1) by lia.
        split.
        { apply allT_upd_others; [|reflexivity].
          intros j u Hne Hj. pose proof (cnt_one_others isInside l i _ Hone Hi eq_refl j u Hne Hj) as Hu.
          specialize (Htok _ _ Hj). unfold tok, isInside in *. destruct (t_pc u); try discriminate; try contradiction; auto. }
        simpl. repeat split; auto.
        pose proof (cnt_upd isEmpOut l i _ (setpc (mkthr PDec g a q) PEmpOut) Hi) as Hc2; cbv [b2n] in Hc2; cbn [isOutWait isInside isEmpIn isFillOut isEmpOut isFillIn t_pc setpc pass_out finish] in Hc2.
        rewrite (cnt_none isEmpOut l) in Hc2; [lia|].
        intros j u Hj. specialize (Htok _ _ Hj). unfold tok, isEmpOut in *. destruct (t_pc u); auto; contradiction.
      + apply Z.eqb_neq in Hlast. unfold inv; simpl.
        split; [rewrite length_upd; auto|]. split.
        { apply allT_upd; [assumption|]. wf_solve. }
        exists D, g. split. { apply allT_upd; [assumption|]. reflexivity. }
        pose proof (cnt_upd isInside l i _ (finish (mkthr PDec g a q)) Hi) as Hc; cbv [b2n] in Hc; cbn [isOutWait isInside isEmpIn isFillOut isEmpOut isFillIn t_pc setpc pass_out finish] in Hc.
        simpl. repeat split; auto; lia.
    - (* PEmpOut *)
      inversion Hstep; subst s'; clear Hstep.
      destruct ph; simpl in Htt; try contradiction. subst e.
      destruct Hgl as (Hfin & Hfout & Hb & Hone). simpl in *.
      unfold inv; simpl.
      split; [rewrite length_upd; auto|]. split.
      { apply allT_upd; [assumption|]. wf_solve. }
      exists O2, g. split.
      { apply allT_upd_others; [|reflexivity].
        intros j u Hne Hj. pose proof (cnt_one_others isEmpOut l i _ Hone Hi eq_refl j u Hne Hj) as Hu.
        specialize (Htok _ _ Hj). unfold tok, isEmpOut in *. destruct (t_pc u); try discriminate; try contradiction; auto. }
      simpl. repeat split; auto.
      pose proof (cnt_upd isFillIn l i _ (setpc (mkthr PEmpOut g a q) PFillIn) Hi) as Hc2; cbv [b2n] in Hc2; cbn [isOutWait isInside isEmpIn isFillOut isEmpOut isFillIn t_pc setpc pass_out finish] in Hc2.
      rewrite (cnt_none isFillIn l) in Hc2; [lia|].
      intros j u Hj. specialize (Htok _ _ Hj). unfold tok, isFillIn in *. destruct (t_pc u); auto; contradiction.
    - (* PFillIn *)
      inversion Hstep; subst s'; clear Hstep.
      destruct ph; simpl in Htt; try contradiction. subst e.
      destruct Hgl as (Hfin & Hfout & Hb & Hone). simpl in *.
      assert (HgE : g < E) by (apply HeLt; congruence).
      assert (Hoth : forall j u, j <> i -> nth_error l j = Some u ->
                                 t_ep u = S g /\ (t_pc u = PCall \/ t_pc u = PIn \/ t_pc u = PInW)).
      { intros j u Hne Hj. pose proof (cnt_one_others isFillIn l i _ Hone Hi eq_refl j u Hne Hj) as Hu.
        specialize (Htok _ _ Hj). unfold tok, isFillIn in *. destruct (t_pc u); try discriminate; try contradiction; auto. }
      unfold inv; simpl.
      split; [rewrite length_upd, map_length; auto|]. split.
      { apply allT_upd_map.
        - intros j u Hne Hj. specialize (Hwf _ _ Hj). destruct (Hoth _ _ Hne Hj) as (_ & [Hp|[Hp|Hp]]);
            unfold rel_in; rewrite Hp; auto.
          unfold wf, setpc in *; simpl. rewrite Hp in Hwf; simpl in Hwf.
          destruct Hwf as (? & ? & ? & ?). repeat split; auto; try lia. intros _. apply H2. congruence.
        - wf_solve. }
      exists F, (S g). split.
      { apply allT_upd_map; [|reflexivity].
        intros j u Hne Hj. destruct (Hoth _ _ Hne Hj) as (He & [Hp|[Hp|Hp]]); unfold rel_in, tok; rewrite Hp; simpl; auto;
          rewrite Hp; auto. }
      simpl. repeat split; auto.
      + rewrite cnt_none; auto.
        intros j u Hj. apply nth_upd_inv in Hj. destruct Hj as [[-> ->]|[Hne Hj]]; [reflexivity|].
        rewrite nth_error_map in Hj. destruct (nth_error l j) as [v|] eqn:Hv; simpl in Hj; [|discriminate].
        inversion Hj; subst u. destruct (Hoth _ _ Hne Hv) as (_ & [Hp|[Hp|Hp]]); unfold rel_in, isOutWait; rewrite Hp; simpl; auto;
          rewrite Hp; auto.
      + unfold maxb. lia.
  Qed.

  Lemma inv_step_or_stay : forall s i, inv s -> inv (step_or_stay maxb E s i).
  Proof.
    intros s i H. unfold step_or_stay. destruct (step maxb E s i) eqn:Hs; auto. eapply inv_step; eauto.
  Qed.

  Lemma inv_exec : forall sched s, inv s -> inv (exec maxb E s sched).
  Proof.
    induction sched as [|i r IH]; intros s H; simpl; auto. apply IH. apply inv_step_or_stay; auto.
  Qed.

  Lemma inv_reachable : forall sched, inv (exec maxb E (init n) sched).
  Proof. intros. apply inv_exec. apply inv_init. Qed.

  (* ---------------------------------------------------------------- safety *)
  Lemma inv_safe : forall s, inv s ->
      forall i j ti tj, nth_error (thrs s) i = Some ti -> nth_error (thrs s) j = Some tj ->
                        t_ep ti <= t_pas ti /\ t_pas ti <= t_arr tj /\ t_arr tj <= calls tj.
  Proof.
    intros s (Hlen & Hwf & ph & g & Htok & Hgl) i j ti tj Hi Hj.
    pose proof (Hwf _ _ Hi) as (Hai & Hqi & _ & _). pose proof (Hwf _ _ Hj) as (Haj & Hqj & _ & _).
    pose proof (Htok _ _ Hi) as Hti. pose proof (Htok _ _ Hj) as Htj.
    unfold tok, calls in *.
    destruct ti as [pi ei ai qi], tj as [pj ej aj qj]; simpl in *.
    destruct ph, pi; simpl in *; try contradiction; destruct pj; simpl in *; try contradiction; lia.
  Qed.

  Lemma inv_gates : forall s, inv s ->
      (in_full s && out_full s = false) /\ (0 <= blockers s <= maxb)%Z.
  Proof.
    intros s (Hlen & Hwf & ph & g & Htok & Hgl).
    pose proof (cnt_le_length isInside (thrs s)). pose proof (cnt_le_length isOutWait (thrs s)).
    destruct ph; simpl in Hgl; destruct Hgl as (-> & -> & Hb & Hx); simpl; split; auto; unfold maxb in *; lia.
  Qed.

  (* ---------------------------------------------------------------- progress *)
  Lemma enabled_of_pc : forall s i t,
      nth_error (thrs s) i = Some t ->
      match t_pc t with PInW | POutW => False | PCall => t_ep t < E | _ => True end ->
      enabled maxb E s i = true.
  Proof.
    intros s i t Hi Hp. unfold enabled, step. rewrite Hi.
    destruct (t_pc t); try contradiction; auto.
    apply Nat.ltb_lt in Hp. rewrite Hp. auto.
  Qed.

  Lemma not_done_ex : forall l, forallb (done E) l = false -> exists j t, nth_error l j = Some t /\ done E t = false.
  Proof.
    induction l as [|y r IH]; simpl; intros H; [discriminate|].
    destruct (done E y) eqn:Hy.
    - destruct (IH H) as (j & t & Hj & Ht). exists (S j), t. auto.
    - exists 0, y. auto.
  Qed.

  Lemma inv_no_deadlock : forall s, inv s -> all_done E s = false -> exists i, enabled maxb E s i = true.
  Proof.
    intros s (Hlen & Hwf & ph & g & Htok & Hgl) Hnd.
    unfold all_done in Hnd. apply not_done_ex in Hnd. destruct Hnd as (j & u & Hj & Hu).
    pose proof (Hwf _ _ Hj) as (_ & _ & HuE & HuLt). pose proof (Htok _ _ Hj) as Htu.
    assert (HepE : t_pc u = PCall -> t_ep u < E).
    { intros Hp. unfold done in Hu. rewrite Hp in Hu. apply Nat.leb_gt in Hu. auto. }
    assert (Hn : 0 < n).
    { assert (j < length (thrs s)) by (apply nth_error_Some; congruence). lia. }
    destruct ph; simpl in Hgl; destruct Hgl as (Hfin & Hfout & Hb & Hx).
    - (* F: somebody has not yet incremented *)
      assert (HgE : g < E).
      { unfold tok in Htu. destruct (t_pc u) eqn:Hp; try contradiction; subst g; auto; apply HuLt; congruence. }
      destruct (cnt_lt_ex isOutWait (thrs s)) as (i & t & Hi & Ht); [unfold maxb in *; lia|].
      exists i. apply (enabled_of_pc s i t Hi).
      specialize (Htok _ _ Hi). unfold tok, isOutWait in *. destruct (t_pc t); try contradiction; try discriminate; auto. lia.
    - destruct (cnt_pos_ex isEmpIn (thrs s)) as (i & t & Hi & Ht); [lia|].
      exists i. apply (enabled_of_pc s i t Hi). unfold isEmpIn in Ht. destruct (t_pc t); try discriminate; auto.
    - destruct (cnt_pos_ex isFillOut (thrs s)) as (i & t & Hi & Ht); [lia|].
      exists i. apply (enabled_of_pc s i t Hi). unfold isFillOut in Ht. destruct (t_pc t); try discriminate; auto.
    - destruct (cnt_pos_ex isInside (thrs s)) as (i & t & Hi & Ht); [lia|].
      exists i. apply (enabled_of_pc s i t Hi). unfold isInside in Ht. destruct (t_pc t); try discriminate; auto.
    - destruct (cnt_pos_ex isEmpOut (thrs s)) as (i & t & Hi & Ht); [lia|].
      exists i. apply (enabled_of_pc s i t Hi). unfold isEmpOut in Ht. destruct (t_pc t); try discriminate; auto.
    - destruct (cnt_pos_ex isFillIn (thrs s)) as (i & t & Hi & Ht); [lia|].
      exists i. apply (enabled_of_pc s i t Hi). unfold isFillIn in Ht. destruct (t_pc t); try discriminate; auto.
  Qed.

  (* ---------------------------------------------------------------- termination measure *)
  Definition rank (p : pc) : nat :=
    match p with
    | PCall => 9 | PIn => 8 | PInW => 7 | PInc => 6 | PEmpIn => 5 | PFillOut => 4
    | POut => 5 | POutW => 4 | PDec => 3 | PEmpOut => 2 | PFillIn => 1
    end.
  Definition meas_t (t : thr) : nat := (E - t_ep t) * 10 + rank (t_pc t).
  Definition meas (s : state) : nat := sum meas_t (thrs s).

  Lemma meas_rel_out : forall t, meas_t (rel_out t) <= meas_t t.
  Proof. intros [p e a q]. unfold rel_out, meas_t; simpl. destruct p; simpl; lia. Qed.
  Lemma meas_rel_in : forall t, meas_t (rel_in t) <= meas_t t.
  Proof. intros [p e a q]. unfold rel_in, meas_t; simpl. destruct p; simpl; lia. Qed.

  Lemma meas_step : forall s i s', inv s -> step maxb E s i = Some s' -> meas s' < meas s.
  Proof.
    intros s i s' (Hlen & Hwf & _) Hstep.
    unfold step in Hstep.
    destruct (nth_error (thrs s) i) as [t|] eqn:Hi; [|discriminate].
    pose proof (Hwf _ _ Hi) as (_ & _ & HeE & HeLt).
    unfold meas.
    destruct s as [fin fout b l]; simpl in *.
    destruct t as [p e a q]; simpl in *.
    destruct p; simpl in Hstep;
      try discriminate;
      try (destruct (e <? E) eqn:HE; [apply Nat.ltb_lt in HE|discriminate]);
      inversion Hstep; subst s'; clear Hstep; simpl;
      try (match goal with |- sum meas_t (upd i ?x l) < _ =>
             pose proof (sum_upd meas_t l i _ x Hi) as Hs;
             remember (sum meas_t (upd i x l)) as S1; remember (sum meas_t l) as S0;
             unfold meas_t, setpc, pass_out, finish in Hs; simpl in Hs end).
    - lia.
    - destruct fin; simpl in Hs; lia.
    - destruct (b + 1 =? maxb)%Z; simpl in Hs; lia.
    - lia.
    - assert (Hm : nth_error (map rel_out l) i = Some (mkthr PFillOut e a q)).
      { rewrite nth_error_map, Hi. reflexivity. }
      pose proof (sum_upd meas_t _ i _ (pass_out (mkthr PFillOut e a q)) Hm) as Hs.
      pose proof (sum_map_le meas_t rel_out l meas_rel_out) as Hle.
      remember (sum meas_t (upd i (pass_out (mkthr PFillOut e a q)) (map rel_out l))) as S1.
      remember (sum meas_t (map rel_out l)) as S2. remember (sum meas_t l) as S0.
      unfold meas_t, pass_out in Hs; simpl in Hs. lia.
    - destruct fout; simpl in Hs; lia.
    - assert (e < E) by (apply HeLt; congruence).
      destruct (b - 1 =? 0)%Z; simpl in Hs; lia.
    - lia.
    - assert (e < E) by (apply HeLt; congruence).
      assert (Hm : nth_error (map rel_in l) i = Some (mkthr PFillIn e a q)).
      { rewrite nth_error_map, Hi. reflexivity. }
      pose proof (sum_upd meas_t _ i _ (finish (mkthr PFillIn e a q)) Hm) as Hs.
      pose proof (sum_map_le meas_t rel_in l meas_rel_in) as Hle.
      remember (sum meas_t (upd i (finish (mkthr PFillIn e a q)) (map rel_in l))) as S1.
      remember (sum meas_t (map rel_in l)) as S2. remember (sum meas_t l) as S0.
      unfold meas_t, finish in Hs; simpl in Hs. lia.
  Qed.

  (* number of picks of a schedule that actually moved a thread *)
  Fixpoint moves (s : state) (sched : list nat) : nat :=
    match sched with
    | [] => 0
    | i :: r => match step maxb E s i with
                | Some s' => S (moves s' r)
                | None => moves s r
                end
    end.

  Lemma moves_bound : forall sched s, inv s -> moves s sched + meas (exec maxb E s sched) <= meas s.
  Proof.
    induction sched as [|i r IH]; intros s H; simpl; [lia|].
    unfold step_or_stay. destruct (step maxb E s i) as [s'|] eqn:Hs.
    - pose proof (meas_step _ _ _ H Hs). pose proof (inv_step _ _ _ H Hs) as H'. specialize (IH _ H'). lia.
    - apply IH; auto.
  Qed.

  Lemma meas_init : meas (init n) = n * (E * 10 + 9).
  Proof. unfold meas, init; simpl. rewrite sum_repeat. unfold meas_t; simpl. rewrite Nat.sub_0_r. reflexivity. Qed.

  (* from every reachable state the run can be completed, and it completes whatever is scheduled *)
  Lemma inv_completes : forall k s, inv s -> meas s <= k -> exists sched, all_done E (exec maxb E s sched) = true.
  Proof.
    induction k as [|k IH]; intros s H Hk.
    - destruct (all_done E s) eqn:Hd; [exists []; auto|].
      destruct (inv_no_deadlock s H Hd) as (i & Hen). unfold enabled in Hen.
      destruct (step maxb E s i) as [s'|] eqn:Hs; [|discriminate].
      pose proof (meas_step _ _ _ H Hs). lia.
    - destruct (all_done E s) eqn:Hd; [exists []; auto|].
      destruct (inv_no_deadlock s H Hd) as (i & Hen). unfold enabled in Hen.
      destruct (step maxb E s i) as [s'|] eqn:Hs; [|discriminate].
      pose proof (meas_step _ _ _ H Hs) as Hlt. pose proof (inv_step _ _ _ H Hs) as H'.
      destruct (IH s' H') as (sched & Hsched); [lia|].
      exists (i :: sched). simpl. unfold step_or_stay. rewrite Hs. auto.
  Qed.
End Inv.

(* ------------------------------------------------------------------ statements *)
Lemma barrier_safe_lemma : forall (n E : nat) (sched : list nat) i j ti tj,
    let s := exec (Z.of_nat n) E (init n) sched in
    nth_error (thrs s) i = Some ti -> nth_error (thrs s) j = Some tj ->
    t_ep ti <= t_pas ti /\ t_pas ti <= t_arr tj /\ t_arr tj <= calls tj.
Proof. intros n E sched i j ti tj s. apply (inv_safe n E). apply inv_reachable. Qed.

Lemma gates_exclusive_lemma : forall (n E : nat) (sched : list nat),
    let s := exec (Z.of_nat n) E (init n) sched in
    in_full s && out_full s = false /\ (0 <= blockers s <= Z.of_nat n)%Z.
Proof. intros n E sched s. apply (inv_gates n E). apply inv_reachable. Qed.

Lemma barrier_no_deadlock_lemma : forall (n E : nat) (sched : list nat),
    let s := exec (Z.of_nat n) E (init n) sched in
    all_done E s = false -> exists i, enabled (Z.of_nat n) E s i = true.
Proof. intros n E sched s. apply (inv_no_deadlock n E). apply inv_reachable. Qed.

Lemma barrier_terminates_lemma : forall (n E : nat) (sched : list nat),
    moves n E (init n) sched + meas E (exec (Z.of_nat n) E (init n) sched) <= n * (E * 10 + 9).
Proof. intros. rewrite <- (meas_init n E). apply moves_bound. apply inv_init. Qed.

Lemma barrier_step_decreases_lemma : forall (n E : nat) (sched : list nat) i s',
    step (Z.of_nat n) E (exec (Z.of_nat n) E (init n) sched) i = Some s' ->
    meas E s' < meas E (exec (Z.of_nat n) E (init n) sched).
Proof. intros. eapply meas_step; eauto. apply inv_reachable. Qed.

Lemma barrier_completes_lemma : forall (n E : nat) (sched : list nat),
    exists rest, all_done E (exec (Z.of_nat n) E (init n) (sched ++ rest)) = true.
Proof.
  intros. destruct (inv_completes n E (meas E (exec (Z.of_nat n) E (init n) sched)) _ (inv_reachable n E sched) (le_n _)) as (rest & H).
  exists rest. unfold exec in *. rewrite fold_left_app. exact H.
Qed.

(* non-vacuity: concrete runs *)
Example run_3x2_round_robin :
  all_done 2 (exec 3 2 (init 3) (concat (repeat [0;1;2] 30))) = true.
Proof. vm_compute. reflexivity. Qed.

Example draining_state_reachable :
  let s := exec 2 3 (init 2) [0;0;0;0;1;1;1;1;1] in
  out_full s = true /\ in_full s = false /\ blockers s = 2%Z /\ all_done 3 s = false.
Proof. vm_compute. auto. Qed.
