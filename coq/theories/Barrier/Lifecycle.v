(* C11 extension S -- the barrier's life cycle: the entry points of src/barrier/feb.c other than qt_barrier_enter,
   as operations of ONE more thread (the "controller", thread id = number of participants) interleaved with the
   participants of Barrier/Model.v, whose step function is reused unchanged.

     qt_barrier_create(m)            LCreate m   one step (the object is private until the call returns): in_gate full (fresh FEB
                                                 word), out_gate emptied, blockers = 0, max_blockers = m
     qt_barrier_resize(b, m)         LResize m   one step: b->max_blockers = m (plain store; the assert(blockers == 0) is compiled out)
     qt_barrier_destroy(b)           LDestroy    CNext    the call: first evaluation of  while (b->blockers > 0)  (unsigned: <> 0)
                                                 CYield   qthread_yield() returned: the loop condition is evaluated again
                                                 CFillOut qthread_fill(&b->out_gate)   releases every waiter of out_gate
                                                 CFillIn  qthread_fill(&b->in_gate)    releases every waiter of in_gate
                                                 CFree    qt_mpool_free(fbp.pool, b)
     qt_global_barrier_init(m, _)    LGInit m    if (global_barrier == NULL) global_barrier = qt_barrier_create(m)  else NOTHING (m ignored)
     qt_global_barrier_resize(m)     LGResize m  qt_barrier_resize(global_barrier, m)
     qt_global_barrier_destroy()     LGDestroy   if (global_barrier) { the destroy steps ; global_barrier = NULL } else nothing
     qt_global_barrier()                         participants of a session in global mode: qt_barrier_enter(global_barrier); with
                                                 global_barrier == NULL, qassert_retvoid(b) makes the call return AT ONCE
   and two operations of the test program itself:
     LWait                                       join: proceeds only when every participant has returned from its last enter
     LEra n E                                    (all participants returned) a new group of n participants, E episodes each
   The test program also joins before it creates an object (LCreate, the creating LGInit): the model has ONE object, a
   participant still running could only refer to an older one.

   alive = the object is allocated; uaf counts the shared accesses participants make to a freed barrier (history). *)
From Coq Require Import List ZArith Bool Arith.
From QV Require Import Barrier.Model.
Import ListNotations.
Local Open Scope Z_scope.

Inductive lop :=
| LWait | LEra (n : nat) (E : nat) | LResize (m : Z) | LDestroy | LCreate (m : Z)
| LGInit (m : Z) | LGResize (m : Z) | LGDestroy.

Inductive cpc := CNext | CYield | CFillOut | CFillIn | CFree.

Record lstate := mkl {
  bar : state; maxb : Z; epis : nat; alive : bool; gmode : bool; gset : bool;
  cp : cpc; script : list lop; uaf : nat }.

Definition set_script (l : lstate) (r : list lop) : lstate :=
  mkl (bar l) (maxb l) (epis l) (alive l) (gmode l) (gset l) (cp l) r (uaf l).
Definition set_cp (l : lstate) (c : cpc) : lstate :=
  mkl (bar l) (maxb l) (epis l) (alive l) (gmode l) (gset l) c (script l) (uaf l).

(* qt_barrier_create: the participants' records are not part of the object *)
Definition create (l : lstate) (m : Z) (gs : bool) (r : list lop) : lstate :=
  mkl (mkst true false 0 (thrs (bar l))) m (epis l) true (gmode l) gs CNext r (uaf l).

(* the exit condition of the wait loop of qt_barrier_destroy is a parameter of the machine:
     chk_code   while (b->blockers > 0) qthread_yield();      (blockers is unsigned: > 0 is <> 0)  -- the code as it is
     chk_fixed  while (b->blockers > 0 || !qthread_feb_status(&b->in_gate)) qthread_yield();       -- the proposed repair
   (docs/proposed_fixes/C11-destroy-last-leaver.diff; only used in theorems about the repair, never in the tie) *)
Definition chk_code (l : lstate) : bool := blockers (bar l) =? 0.
Definition chk_fixed (l : lstate) : bool := (blockers (bar l) =? 0) && in_full (bar l).

Definition destroy_checkG (chk : lstate -> bool) (l : lstate) : lstate :=
  set_cp l (if chk l then CFillOut else CYield).

Definition is_call (t : thr) : bool := match t_pc t with PCall => true | _ => false end.

Definition cstepG (chk : lstate -> bool) (l : lstate) : option lstate :=
  let b := bar l in
  match cp l with
  | CNext =>
    match script l with
    | [] => None
    | LWait :: r => if all_done (epis l) b then Some (set_script l r) else None
    | LEra n E :: r =>
      if all_done (epis l) b
      then Some (mkl (mkst (in_full b) (out_full b) (blockers b) (repeat thr0 n)) (maxb l) E (alive l) (gmode l) (gset l) CNext r (uaf l))
      else None
    | LResize m :: r => Some (mkl b m (epis l) (alive l) (gmode l) (gset l) CNext r (uaf l))
    | LGResize m :: r => Some (mkl b m (epis l) (alive l) (gmode l) (gset l) CNext r (uaf l))
    | LCreate m :: r => if all_done (epis l) b then Some (create l m (gset l) r) else None
    | LGInit m :: r => if gset l then Some (set_script l r)
                       else if all_done (epis l) b then Some (create l m true r) else None
    | LDestroy :: _ => Some (destroy_checkG chk l)
    | LGDestroy :: r => if gset l then Some (destroy_checkG chk l) else Some (set_script l r)
    end
  | CYield => Some (destroy_checkG chk l)
  | CFillOut => Some (mkl (mkst (in_full b) true (blockers b) (map rel_out (thrs b))) (maxb l) (epis l) (alive l) (gmode l) (gset l)
                          CFillIn (script l) (uaf l))
  | CFillIn => Some (mkl (mkst true (out_full b) (blockers b) (map rel_in (thrs b))) (maxb l) (epis l) (alive l) (gmode l) (gset l)
                         CFree (script l) (uaf l))
  | CFree => Some (mkl b (maxb l) (epis l) false (gmode l)
                       (match script l with LGDestroy :: _ => false | _ => gset l end)
                       CNext (tl (script l)) (uaf l))
  end.

Definition pstep (l : lstate) (i : nat) : option lstate :=
  let b := bar l in
  match nth_error (thrs b) i with
  | None => None
  | Some t =>
    if (gmode l && negb (gset l) && is_call t)%bool
    then (* qt_global_barrier() with global_barrier == NULL: returns at once, no shared access *)
      if (t_ep t <? epis l)%nat
      then Some (mkl (mkst (in_full b) (out_full b) (blockers b) (upd i (finish t) (thrs b)))
                     (maxb l) (epis l) (alive l) (gmode l) (gset l) (cp l) (script l) (uaf l))
      else None
    else
      match step (maxb l) (epis l) b i with
      | None => None
      | Some b' => Some (mkl b' (maxb l) (epis l) (alive l) (gmode l) (gset l) (cp l) (script l)
                             (uaf l + (if (alive l || is_call t)%bool then 0 else 1))%nat)
      end
  end.

Definition nthr (l : lstate) : nat := length (thrs (bar l)).

Definition lstepG (chk : lstate -> bool) (l : lstate) (i : nat) : option lstate :=
  if (i <? nthr l)%nat then pstep l i else if (i =? nthr l)%nat then cstepG chk l else None.

Definition lstepG_or_stay (chk : lstate -> bool) (l : lstate) (i : nat) : lstate :=
  match lstepG chk l i with Some l' => l' | None => l end.
Definition lexecG (chk : lstate -> bool) (l : lstate) (sched : list nat) : lstate := fold_left (lstepG_or_stay chk) sched l.

(* the machine of the code as it is (the one that is extracted and tied to the working tree) *)
Definition destroy_check : lstate -> lstate := destroy_checkG chk_code.
Definition cstep : lstate -> option lstate := cstepG chk_code.
Definition lstep : lstate -> nat -> option lstate := lstepG chk_code.
Definition lexec : lstate -> list nat -> lstate := lexecG chk_code.

Definition lenabled (l : lstate) (i : nat) : bool := match lstep l i with Some _ => true | None => false end.
Definition lenabled_list (l : lstate) : list nat := filter (lenabled l) (seq 0 (S (nthr l))).

(* the adaptive schedule of Barrier/Model.v over the participants and the controller *)
Definition lpick (l : lstate) (r : nat) : option nat :=
  match lenabled_list l with
  | [] => None
  | e => let p := (r / 1024)%nat in
         if ((0 <? p)%nat && lenabled l (p - 1))%bool then Some (p - 1)%nat
         else nth_error e ((r mod 1024) mod length e)
  end.

(* before anything was created: no object, global_barrier == NULL, no participants *)
Definition lstart (gm : bool) (sc : list lop) : lstate :=
  mkl (mkst true false 0 []) 0 0 false gm false CNext sc 0.

Definition lfinished (l : lstate) : bool :=
  match script l, cp l with [], CNext => all_done (epis l) (bar l) | _, _ => false end.

(* ---- which scripts use the barrier inside its contract: resize / destroy / a new group only after a join, the group as
   large as the count, nothing on a freed object.  mode: MR participants may be running, MQ joined, MD no object. *)
Inductive lmode := MR | MQ | MD.

Fixpoint okscript (gm : bool) (md : lmode) (gs : bool) (m : Z) (sc : list lop) : bool :=
  match sc with
  | [] => true
  | o :: r =>
    match md, o with
    | MR, LWait => okscript gm MQ gs m r
    | MR, _ => false
    | MQ, LWait => okscript gm MQ gs m r
    | MQ, LEra n _ => (m =? Z.of_nat n) && (negb gm || gs) && okscript gm MR gs m r
    | MQ, LResize m' => okscript gm MQ gs m' r
    | MQ, LGResize m' => okscript gm MQ gs m' r
    | MQ, LDestroy => okscript gm MD gs m r
    | MQ, LGDestroy => if gs then okscript gm MD false m r else okscript gm MQ gs m r
    | MQ, LCreate m' => okscript gm MQ gs m' r
    | MQ, LGInit m' => if gs then okscript gm MQ gs m r else okscript gm MQ true m' r
    | MD, LWait => okscript gm MD gs m r
    | MD, LCreate m' => okscript gm MQ gs m' r
    | MD, LGInit m' => if gs then okscript gm MD gs m r else okscript gm MQ true m' r
    | MD, LGDestroy => if gs then false else okscript gm MD gs m r
    | MD, _ => false
    end
  end.
