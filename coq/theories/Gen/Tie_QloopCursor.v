(* Gen/Tie_QloopCursor.v -- the arithmetic of the queue-loop cursors in Loops.Model (guided_it, fact_it, fact_target,
   timed_block, the claim of the chunked fetch-add step: what the C12 cursor theorems are about) equals the code
   between the shared accesses of qqloop_get_iterations_{chunked,guided,factored,timed} as regenerated from src/qloop.c
   by tools/ctrans.py (Gen/Qloop.v); the atomic operations (CAS, fetch-add) are oracle parameters and the theorems say
   with which arguments they are called.  Domain: 0 <= cursor values <= stop < 2^62, 0 < activesheps < 2^16. *)
From Coq Require Import ZArith Bool Lia List.
From QV Require Import Gen.CInt Gen.Qloop Loops.Model.
Local Open Scope Z_scope.

Definition B62 : Z := 4611686018427387904.

Lemma quot_bounds : forall a b, 0 <= a -> 0 < b -> 0 <= Z.quot a b <= a /\ Z.quot a b * b <= a.
Proof.
  intros a b Ha Hb. rewrite Z.quot_div_nonneg by lia.
  pose proof (Z.div_pos a b Ha Hb). pose proof (Z.mul_div_le a b Hb).
  assert (a / b <= a) by (apply Z.div_le_upper_bound; nia). nia.
Qed.

Ltac s64 := rewrite !wrapS64_small by (unfold B62 in *; nia).

Lemma it_of_bounds : forall q, 0 <= q -> 1 <= it_of q <= q + 1.
Proof. intros q Hq. unfold it_of. destruct (Z.eqb_spec q 0); lia. Qed.

(* guided: iterations = (stop - ret) / sheps, at least 1; then CAS(&iq->start, ret, ret + iterations) *)
Theorem tie_guided_claim :
  forall (p : params) (cas : Z -> Z -> Z) (ret : Z),
    0 <= ret <= p_stop p -> p_stop p < B62 -> 0 < p_sheps p < 65536 ->
    qq_guided_claim cas ret (p_sheps p) (p_stop p)
    = Some (guided_it p ret, cas ret (ret + guided_it p ret)).
Proof.
  intros p cas ret Hr Hs Hsh. unfold qq_guided_claim, guided_it, cdivS.
  set (stop := p_stop p) in *. set (sh := p_sheps p) in *.
  destruct (quot_bounds (stop - ret) sh ltac:(lia) ltac:(lia)) as (Hq & _).
  pose proof (it_of_bounds _ (proj1 Hq)) as Hi.
  rewrite (wrapS64_small (stop - ret)) by (unfold B62 in *; lia).
  destruct (Z.eqb_spec sh 0); [lia|]. destruct (Z.eqb_spec sh (-1)); [lia|].
  rewrite andb_false_r. cbn [negb andb]. cbv zeta. fold (it_of (Z.quot (stop - ret) sh)).
  rewrite wrapS64_small by (unfold B62 in *; lia). reflexivity.
Qed.

(* factored: the CAS on the phase word is called with (phase, fact_target) *)
Theorem tie_factored_phase :
  forall (p : params) (cas : Z -> Z -> Z) (ret ph : Z),
    0 <= ret <= p_stop p -> p_stop p < B62 -> 0 < p_sheps p < 65536 ->
    qq_factored_phase cas ph ret (p_sheps p) (p_stop p) = Some (cas ph (fact_target p ret ph)).
Proof.
  intros p cas ret ph Hr Hs Hsh. unfold qq_factored_phase, fact_target, cdivS.
  set (stop := p_stop p) in *. set (sh := p_sheps p) in *. cbv zeta.
  rewrite (wrapS64_small (stop + ret)) by (unfold B62 in *; lia).
  destruct (quot_bounds (stop + ret) 2 ltac:(lia) ltac:(lia)) as (Hq1 & Hm1).
  assert (Hnp : Z.quot (stop + ret) 2 <= stop).
  { rewrite Z.quot_div_nonneg by lia. apply Z.div_le_upper_bound; lia. }
  set (np := Z.quot (stop + ret) 2) in *.
  rewrite (wrapS64_small (stop - np)) by (unfold B62 in *; lia).
  destruct (quot_bounds (stop - np) sh ltac:(lia) ltac:(lia)) as (Hq2 & Hm2).
  set (cs := Z.quot (stop - np) sh) in *.
  destruct (Z.eqb_spec sh 0); [lia|]. destruct (Z.eqb_spec sh (-1)); [lia|].
  rewrite andb_false_r. cbn [negb andb].
  rewrite (wrapS64_small (cs * sh)) by (unfold B62 in *; nia).
  rewrite (wrapS64_small (ret + cs * sh)) by (unfold B62 in *; nia).
  destruct (Z.eqb_spec (ret + cs * sh) ph); reflexivity.
Qed.

(* factored: iterations = (stop - phase) / sheps, at least 1; then CAS(&iq->start, ret, ret + iterations) *)
Theorem tie_factored_claim :
  forall (p : params) (cas : Z -> Z -> Z) (ret ph : Z),
    0 <= ret <= p_stop p -> 0 <= ph <= p_stop p -> p_stop p < B62 -> 0 < p_sheps p < 65536 ->
    qq_factored_claim cas ph ret (p_sheps p) (p_stop p)
    = Some (fact_it p ph, cas ret (ret + fact_it p ph)).
Proof.
  intros p cas ret ph Hr Hp Hs Hsh. unfold qq_factored_claim, fact_it, cdivS.
  set (stop := p_stop p) in *. set (sh := p_sheps p) in *.
  destruct (quot_bounds (stop - ph) sh ltac:(lia) ltac:(lia)) as (Hq & _).
  pose proof (it_of_bounds _ (proj1 Hq)) as Hi.
  rewrite (wrapS64_small (stop - ph)) by (unfold B62 in *; lia).
  destruct (Z.eqb_spec sh 0); [lia|]. destruct (Z.eqb_spec sh (-1)); [lia|].
  rewrite andb_false_r. cbn [negb andb]. cbv zeta. fold (it_of (Z.quot (stop - ph) sh)).
  rewrite wrapS64_small by (unfold B62 in *; lia). reflexivity.
Qed.

(* chunked: read of iq->start (value cur0), then -- if it is below stop -- the fetch-add, which returns cur1; the
   range handed out and the return value are the claim of the model's C_faa step taken at cursor value cur1 *)
Theorem tie_chunked :
  forall (p : params) (ph : Z) (lb : Z -> Z) (fst_ : bool) (shep cur0 cur1 : Z),
    cur0 < p_stop p -> 0 <= cur1 -> 0 <= cur0 -> p_stop p < B62 -> cur1 < B62 -> 0 <= p_chunk p < B62 ->
    qq_chunked (fun _ => cur1) cur0 (p_step p) (p_stop p) (p_chunk p)
    = Some (match option_map e_claim (tstep p false cur1 ph lb (mkT C_faa fst_ shep)) with
            | Some (Some (lo, hi)) => (lo, hi, 1)
            | _ => (0, 0, 0)
            end).
Proof.
  intros p ph lb fst_ shep cur0 cur1 H0 H1 H0' Hs H1b Hc. unfold qq_chunked, tstep. cbn [t_pc t_first option_map].
  set (stop := p_stop p) in *. set (ch := p_chunk p) in *. cbv zeta.
  rewrite (wrapS64_small ch) by (unfold B62 in *; lia).
  destruct (Z.ltb_spec cur0 stop); [|lia].
  destruct (Z.ltb_spec cur1 stop) as [Hlt|Hge]; cbn [option_map e_claim].
  - rewrite (wrapS64_small (cur1 + ch)) by (unfold B62 in *; lia).
    destruct (Z.ltb_spec stop (cur1 + ch)).
    + rewrite (wrapS64_small (stop - cur1)) by (unfold B62 in *; lia).
      replace (cur1 + (stop - cur1)) with stop by lia.
      rewrite (wrapS64_small stop) by (unfold B62 in *; lia).
      rewrite !wrapU64_small by (unfold B62 in *; lia). reflexivity.
    + rewrite (wrapS64_small (cur1 + ch)) by (unfold B62 in *; lia).
      rewrite !wrapU64_small by (unfold B62 in *; lia). reflexivity.
  - reflexivity.
Qed.

(* timed: dynamicBlock as computed by the "slow" branch and the clamp, then CAS(&iq->start, localstart, localstart + block) *)
Theorem tie_timed_block :
  forall (p : params) (cas : Z -> Z -> Z) (ls db : Z) (slow : bool),
    0 <= ls <= p_stop p -> p_stop p < B62 -> 0 < p_sheps p < 65536 -> 0 < p_step p < 2147483648 -> 0 <= db < B62 ->
    match (if slow then qq_timed_slow ls (p_step p) (p_stop p) (p_sheps p) else Some db) with
    | Some d => qq_timed_claim cas d ls (p_stop p)
    | None => None
    end = Some (timed_block p ls db slow, cas ls (ls + timed_block p ls db slow)).
Proof.
  intros p cas ls db slow Hl Hs Hsh Hst Hdb. unfold timed_block, qq_timed_slow, qq_timed_claim, cdivS.
  set (stop := p_stop p) in *. set (sh := p_sheps p) in *. set (st := p_step p) in *. cbv zeta.
  assert (Hden : 0 < sh * 2 * st) by nia.
  destruct (quot_bounds (stop - ls) (sh * 2 * st) ltac:(lia) Hden) as (Hq & _).
  destruct slow.
  - rewrite Z.shiftl_mul_pow2 by lia. change (2 ^ 1) with 2.
    rewrite (wrapS32_small (sh * 2)) by lia.
    rewrite (wrapS64_small (sh * 2 * st)) by nia.
    rewrite (wrapS64_small (stop - ls)) by (unfold B62 in *; lia).
    destruct (Z.eqb_spec (sh * 2 * st) 0); [lia|]. destruct (Z.eqb_spec (sh * 2 * st) (-1)); [lia|].
    rewrite andb_false_r. cbn [negb andb].
    set (q := Z.quot (stop - ls) (sh * 2 * st)) in *.
    rewrite (wrapS64_small (q + 1)) by (unfold B62 in *; lia).
    rewrite (wrapS64_small (ls + (q + 1))) by (unfold B62 in *; lia).
    destruct (Z.ltb_spec stop (ls + (q + 1))).
    + rewrite wrapS64_small by (unfold B62 in *; lia). reflexivity.
    + rewrite wrapS64_small by (unfold B62 in *; lia). reflexivity.
  - rewrite (wrapS64_small (ls + db)) by (unfold B62 in *; lia).
    destruct (Z.ltb_spec stop (ls + db)).
    + rewrite (wrapS64_small (stop - ls)) by (unfold B62 in *; lia).
      rewrite wrapS64_small by (unfold B62 in *; lia). reflexivity.
    + rewrite wrapS64_small by (unfold B62 in *; lia). reflexivity.
Qed.

Example tie_cursor_ex :
  qq_guided_claim (fun a b => a) 10 4 100 = Some (22, 10) /\
  qq_factored_phase (fun a b => b) 50 0 4 100 = Some 48 /\
  qq_chunked (fun _ => 96) 90 1 100 8 = Some (96, 100, 1).
Proof. repeat split; vm_compute; reflexivity. Qed.
