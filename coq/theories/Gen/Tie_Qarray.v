(* Gen/Tie_Qarray.v -- the hand-written model functions of Qarray/Model.v (the ones the C17 theorems are about) are
   equal to the definitions that tools/ctrans.py regenerates from src/ds/qarray.c + include/qthread/qarray.h on
   every run (Gen/Qarray.v), on the domain the model uses (no 64-bit overflow; stated explicitly).
   The proofs never mention the names of C locals: renaming a local or reordering independent statements in the
   source leaves them valid; a change of the arithmetic does not. *)
From Coq Require Import ZArith NArith Bool Lia List.
From QV Require Import Gen.CInt Gen.Qarray Qarray.Model.
Local Open Scope Z_scope.

Definition M64 : Z := 18446744073709551616.

Ltac wsmall := rewrite !wrapU64_small by (unfold M64 in *; nia).

Lemma div_facts : forall i s, 0 <= i -> 0 < s -> 0 <= i / s /\ (i / s) * s <= i /\ i - (i / s) * s < s.
Proof.
  intros i s Hi Hs. pose proof (Z.div_mod i s ltac:(lia)). pose proof (Z.mod_pos_bound i s Hs).
  pose proof (Z.div_pos i s Hi Hs). nia.
Qed.

(* ---------------------------------------------------------------- qarray_elem_nomigrate *)
Definition gen_elem (aptr base : Z) (a : desc) (i : N) : option Z :=
  qarray_elem_nomigrate aptr (Z.of_N i) base (Z.of_N (d_count a)) (Z.of_N (d_segbytes a)) (Z.of_N (d_segsize a))
                        (Z.of_N (d_unit a)).
Definition gen_shep_slot (head : Z) (a : desc) : option Z :=
  qarray_internal_segment_shep head 3 (Z.of_N (d_segbytes a)) (Z.of_N (d_segsize a)) (Z.of_N (d_unit a)).

(* byte address of element i = base_ptr + Model.elem_off *)
Theorem tie_elem_off : forall (aptr base : Z) (a : desc) (i : N),
  aptr <> 0 -> (i <= d_count a)%N -> (0 < d_segsize a)%N ->
  0 <= base -> Z.of_N (d_count a) < M64 ->
  base + Z.of_N (elem_off a i) < M64 ->
  gen_elem aptr base a i = Some (base + Z.of_N (elem_off a i)).
Proof.
  intros aptr base a i Ha Hi Hss Hb Hc Hov.
  unfold gen_elem, qarray_elem_nomigrate, elem_off in *. unfold cdivU.
  destruct (aptr =? 0) eqn:E1; [apply Z.eqb_eq in E1; contradiction|].
  destruct (Z.of_N (d_count a) <? Z.of_N i) eqn:E2; [apply Z.ltb_lt in E2; lia|].
  destruct (Z.of_N (d_segsize a) =? 0) eqn:E3; [apply Z.eqb_eq in E3; lia|].
  cbn [orb negb].
  assert (Hle : (i / d_segsize a * d_segsize a <= i)%N) by (rewrite N.mul_comm; apply N.mul_div_le; lia).
  assert (Heq : Z.of_N (i / d_segsize a * d_segbytes a + (i - i / d_segsize a * d_segsize a) * d_unit a)
                = Z.of_N i / Z.of_N (d_segsize a) * Z.of_N (d_segbytes a)
                  + (Z.of_N i - Z.of_N i / Z.of_N (d_segsize a) * Z.of_N (d_segsize a)) * Z.of_N (d_unit a)).
  { rewrite N2Z.inj_add, N2Z.inj_mul, N2Z.inj_mul, N2Z.inj_sub by exact Hle.
    rewrite N2Z.inj_mul, N2Z.inj_div. reflexivity. }
  rewrite Heq in *. clear Heq Hle.
  set (I := Z.of_N i) in *. set (SS := Z.of_N (d_segsize a)) in *.
  set (SB := Z.of_N (d_segbytes a)) in *. set (US := Z.of_N (d_unit a)) in *.
  assert (HI : 0 <= I) by (subst I; lia). assert (HSS : 0 < SS) by (subst SS; lia).
  assert (HSB : 0 <= SB) by (subst SB; lia). assert (HUS : 0 <= US) by (subst US; lia).
  destruct (div_facts I SS HI HSS) as (Hq & Hm & Hr).
  set (q := I / SS) in *.
  assert (0 <= q * SB) by nia. assert (0 <= (I - q * SS) * US) by nia.
  f_equal.
  rewrite (wrapU64_small (q * SB)) by (unfold M64 in *; lia).
  rewrite (wrapU64_small (q * SS)) by (unfold M64 in *; lia).
  rewrite (wrapU64_small (I - q * SS)) by (unfold M64 in *; lia).
  rewrite (wrapU64_small ((I - q * SS) * US)) by (unfold M64 in *; lia).
  rewrite (wrapU64_small (q * SB + (I - q * SS) * US)) by (unfold M64 in *; lia).
  rewrite wrapU64_small by (unfold M64 in *; lia).
  reflexivity.
Qed.

(* out of range index / NULL array: NULL *)
Theorem tie_elem_null : forall aptr i base cnt sb ss us,
  aptr = 0 \/ cnt < i -> qarray_elem_nomigrate aptr i base cnt sb ss us = Some 0.
Proof.
  intros aptr i base cnt sb ss us H. unfold qarray_elem_nomigrate.
  destruct H as [H | H].
  - subst. reflexivity.
  - apply Z.ltb_lt in H. rewrite H, orb_true_r. reflexivity.
Qed.

(* ---------------------------------------------------------------- qarray_internal_segment_shep *)
Lemma land3 : forall x, 0 <= x -> Z.land x 3 = x mod 4.
Proof. intros x Hx. change 3 with (Z.ones 2). rewrite Z.land_ones by lia. reflexivity. Qed.

Lemma nland3 : forall p : N, Z.of_N (N.land p 3) = Z.of_N p mod 4.
Proof.
  intro p. change 3%N with (N.ones 2). rewrite N.land_ones. rewrite N2Z.inj_mod. reflexivity.
Qed.

(* the DIST shepherd-id slot of the segment whose first element is at head (a multiple of 4: segments are page
   multiples from a page-aligned allocation) is at head + Model.shep_slot, provided it fits (the code's own check) *)
Theorem tie_shep_slot : forall (head : Z) (a : desc),
  0 <= head -> head mod 4 = 0 ->
  Z.of_N (shep_slot a) + 2 <= Z.of_N (d_segbytes a) ->
  head + Z.of_N (d_segbytes a) < M64 ->
  gen_shep_slot head a = Some (head + Z.of_N (shep_slot a)).
Proof.
  intros head a Hh Hal Hfit Hov.
  unfold gen_shep_slot, qarray_internal_segment_shep, shep_slot in *.
  set (P := (d_segsize a * d_unit a)%N) in *.
  assert (HP : Z.of_N (d_segsize a) * Z.of_N (d_unit a) = Z.of_N P) by (subst P; lia).
  rewrite HP.
  assert (HPle : Z.of_N P <= Z.of_N (if (N.land P 3 =? 0)%N then P else (P + (4 - N.land P 3))%N)).
  { destruct (N.land P 3 =? 0)%N; lia. }
  rewrite (wrapU64_small (Z.of_N P)) by (unfold M64 in *; lia).
  rewrite (wrapU64_small (head + Z.of_N P)) by (unfold M64 in *; lia).
  change (3 =? 3) with true. cbn [negb].
  rewrite land3 by lia.
  assert (Hm : (head + Z.of_N P) mod 4 = Z.of_N P mod 4).
  { rewrite Z.add_mod, Hal, Z.add_0_l, Z.mod_mod by lia. reflexivity. }
  rewrite Hm.
  pose proof (nland3 P) as HL.
  pose proof (Z.mod_pos_bound (Z.of_N P) 4 ltac:(lia)) as Hb.
  destruct (N.land P 3 =? 0)%N eqn:E.
  - apply N.eqb_eq in E. rewrite E in HL. cbn in HL. rewrite <- HL. cbn [Z.eqb negb].
    rewrite (wrapU64_small (head + Z.of_N P + 2)) by (unfold M64 in *; lia).
    rewrite (wrapU64_small (head + Z.of_N P + 2 - 1)) by (unfold M64 in *; lia).
    rewrite (wrapU64_small (head + Z.of_N (d_segbytes a))) by (unfold M64 in *; lia).
    destruct (head + Z.of_N P + 2 - 1 <? head + Z.of_N (d_segbytes a)) eqn:E2;
      [reflexivity | apply Z.ltb_ge in E2; exfalso; lia].
  - apply N.eqb_neq in E.
    assert (Hnz : Z.of_N P mod 4 <> 0) by lia.
    destruct (Z.of_N P mod 4 =? 0) eqn:E3; [apply Z.eqb_eq in E3; contradiction|]. cbn [negb].
    assert (HN : Z.of_N (P + (4 - N.land P 3)) = Z.of_N P + (4 - Z.of_N P mod 4)).
    { rewrite N2Z.inj_add, N2Z.inj_sub, HL; [reflexivity|].
      apply N2Z.inj_le. rewrite HL. change (Z.of_N 4) with 4. lia. }
    rewrite HN in *.
    rewrite (wrapU64_small (4 - Z.of_N P mod 4)) by (unfold M64 in *; lia).
    rewrite (wrapU64_small (head + Z.of_N P + (4 - Z.of_N P mod 4))) by (unfold M64 in *; lia).
    rewrite (wrapU64_small (head + Z.of_N P + (4 - Z.of_N P mod 4) + 2)) by (unfold M64 in *; lia).
    rewrite (wrapU64_small (head + Z.of_N P + (4 - Z.of_N P mod 4) + 2 - 1)) by (unfold M64 in *; lia).
    rewrite (wrapU64_small (head + Z.of_N (d_segbytes a))) by (unfold M64 in *; lia).
    destruct (head + Z.of_N P + (4 - Z.of_N P mod 4) + 2 - 1 <? head + Z.of_N (d_segbytes a)) eqn:E2;
      [cbn [negb]; f_equal; lia | apply Z.ltb_ge in E2; exfalso; lia].
Qed.

(* ---------------------------------------------------------------- qarray_internal_shepof_segidx *)
Definition kind_code (k : dkind) : Z :=
  match k with FIXED_HASH => 0 | FIXED_FIELDS => 1 | ALL_SAME => 2 | DIST => 3 end.

(* the regenerated function applied to the fields of a model descriptor *)
Definition gen_shepof_segidx (nsheps : N) (rd : Z -> Z) (aptr base : Z) (a : desc) (seg : N) : option Z :=
  qarray_internal_shepof_segidx aptr (Z.of_N seg) base (Z.of_N (d_count a)) (Z.of_N (d_shep a))
                (Z.of_N (d_extras a)) (Z.of_N (d_sps a)) (kind_code (d_kind a)) (Z.of_N (d_segbytes a))
                (Z.of_N (d_segsize a)) (Z.of_N (d_unit a)) rd (Z.of_N nsheps).

Section Shepof.
  Variable nsheps : N.
  Variable asg : N -> N.
  Variable rd : Z -> Z.                       (* qarray_internal_segment_shep_read as a function of the segment head *)
  Variables (aptr base : Z) (a : desc) (seg : N).
  Let call := gen_shepof_segidx nsheps rd aptr base a seg.

  Theorem tie_shepof_all_same :
    d_kind a = ALL_SAME -> call = Some (Z.of_N (shepof_seg nsheps asg a seg)).
  Proof. intro K. subst call. unfold gen_shepof_segidx, qarray_internal_shepof_segidx, shepof_seg. rewrite K. reflexivity. Qed.

  Theorem tie_shepof_fixed_hash :
    d_kind a = FIXED_HASH -> (0 < nsheps)%N -> Z.of_N nsheps <= 65536 ->
    call = Some (Z.of_N (shepof_seg nsheps asg a seg)).
  Proof.
    intros K Hn Hs. subst call. unfold gen_shepof_segidx, qarray_internal_shepof_segidx, shepof_seg. rewrite K. cbn [kind_code].
    change (0 =? 2) with false. change (0 =? 1) with false. change (0 =? 0) with true. cbv iota.
    destruct (Z.of_N nsheps =? 0) eqn:E; [apply Z.eqb_eq in E; lia|]. cbn [negb].
    unfold cmodU. rewrite N2Z.inj_mod.
    pose proof (Z.mod_pos_bound (Z.of_N seg) (Z.of_N nsheps) ltac:(lia)).
    rewrite wrapU16_small by lia. reflexivity.
  Qed.

  Theorem tie_shepof_fixed_fields :
    d_kind a = FIXED_FIELDS -> (0 < d_sps a)%N -> Z.of_N (d_sps a) + 1 < M64 ->
    Z.of_N seg < M64 -> Z.of_N (d_extras a) < M64 ->
    Z.of_N (shepof_seg nsheps asg a seg) < 65536 ->
    call = Some (Z.of_N (shepof_seg nsheps asg a seg)).
  Proof.
    intros K Hsps Hov Hseg Hex Hr. subst call. unfold gen_shepof_segidx, qarray_internal_shepof_segidx, shepof_seg in *.
    rewrite K in *. cbn [kind_code].
    change (1 =? 2) with false. change (1 =? 1) with true. cbv iota. cbv zeta.
    rewrite (wrapU64_small (Z.of_N (d_sps a) + 1)) by (unfold M64 in *; lia).
    destruct (Z.of_N (d_sps a) + 1 =? 0) eqn:E0; [apply Z.eqb_eq in E0; lia|]. cbn [negb].
    unfold cdivU.
    assert (Hq : Z.of_N (seg / (d_sps a + 1)) = Z.of_N seg / (Z.of_N (d_sps a) + 1)).
    { rewrite N2Z.inj_div, N2Z.inj_add. reflexivity. }
    destruct (seg / (d_sps a + 1) <? d_extras a)%N eqn:E1.
    - apply N.ltb_lt in E1.
      destruct (Z.of_N seg / (Z.of_N (d_sps a) + 1) <? Z.of_N (d_extras a)) eqn:E2;
        [|apply Z.ltb_ge in E2; lia].
      rewrite <- Hq. rewrite wrapU16_small by (split; [apply N2Z.is_nonneg | exact Hr]). reflexivity.
    - apply N.ltb_ge in E1.
      destruct (Z.of_N seg / (Z.of_N (d_sps a) + 1) <? Z.of_N (d_extras a)) eqn:E2;
        [apply Z.ltb_lt in E2; lia|].
      destruct (Z.of_N (d_sps a) =? 0) eqn:E3; [apply Z.eqb_eq in E3; lia|]. cbn [negb].
      assert (Hge : (d_extras a <= seg)%N).
      { pose proof (N.mul_div_le seg (d_sps a + 1) ltac:(lia)). nia. }
      rewrite (wrapU64_small (Z.of_N seg - Z.of_N (d_extras a))) by (unfold M64 in *; lia).
      assert (Hq2 : Z.of_N ((seg - d_extras a) / d_sps a) = (Z.of_N seg - Z.of_N (d_extras a)) / Z.of_N (d_sps a)).
      { rewrite N2Z.inj_div, N2Z.inj_sub by lia. reflexivity. }
      rewrite <- Hq2. rewrite wrapU16_small by (split; [apply N2Z.is_nonneg | exact Hr]). reflexivity.
  Qed.

  (* DIST: the id stored in segment seg, read at the address the element arithmetic gives for the segment's head *)
  Theorem tie_shepof_dist :
    d_kind a = DIST -> aptr <> 0 -> (0 < d_segsize a)%N -> (seg * d_segsize a <= d_count a)%N ->
    0 <= base -> Z.of_N (d_count a) < M64 -> base + Z.of_N seg * Z.of_N (d_segbytes a) < M64 ->
    call = Some (rd (base + Z.of_N seg * Z.of_N (d_segbytes a))).
  Proof.
    intros K Ha Hss Hle Hb Hc Hov. subst call. unfold gen_shepof_segidx, qarray_internal_shepof_segidx. rewrite K. cbn [kind_code].
    change (3 =? 2) with false. change (3 =? 1) with false. change (3 =? 0) with false. change (3 =? 3) with true.
    cbv iota.
    assert (Hidx : Z.of_N seg * Z.of_N (d_segsize a) = Z.of_N (seg * d_segsize a)) by lia.
    rewrite Hidx. rewrite (wrapU64_small (Z.of_N (seg * d_segsize a))) by (unfold M64 in *; lia).
    assert (Hoff : elem_off a (seg * d_segsize a) = (seg * d_segbytes a)%N).
    { unfold elem_off. rewrite N.div_mul by lia. lia. }
    fold (gen_elem aptr base a (seg * d_segsize a)). rewrite tie_elem_off; try assumption.
    - rewrite Hoff. f_equal. f_equal. lia.
    - rewrite Hoff. lia.
  Qed.
End Shepof.
