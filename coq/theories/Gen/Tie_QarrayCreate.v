(* Gen/Tie_QarrayCreate.v -- the size arithmetic of Qarray.Model.create (unit_size_of, layout with the shrink loop,
   kind_of, seg_count: what the C17 layout theorems are about) equals the "choose allocation sizes / set dist_type /
   segment_count" part of qarray_create_internal as regenerated from src/ds/qarray.c by tools/ctrans.py
   (qarray_create_sizes in Gen/Qarray.v).  qt_lcm is an oracle on both sides (the model uses N.lcm).
   Domain: 0 < obj_size < 2^40, 4 <= pagesize < 2^30, seg_pages < 2^31, count < 2^64, the resulting segment_size is
   positive (the code's own assertion), fuel > initial segment_size. *)
From Coq Require Import ZArith NArith Bool Lia ZifyBool ZifyNat ZifyN.
From QV Require Import Gen.CInt Gen.Qarray Gen.Tie_Qarray Qarray.Model.
Local Open Scope Z_scope.

Definition B40 : Z := 1099511627776.
Definition B30 : Z := 1073741824.
Definition B31 : Z := 2147483648.
Definition zlcm (a b : Z) : Z := Z.of_N (N.lcm (Z.to_N a) (Z.to_N b)).
Definition dcode (d : distribution) : Z :=
  match d with
  | dFIXED_HASH => 0 | dFIXED_FIELDS => 1 | dALL_SAME => 2 | dDIST => 3 | dDIST_STRIPES => 4 | dDIST_FIELDS => 5
  | dDIST_RAND => 6 | dDIST_LEAST => 7 | dALL_LOCAL => 8 | dALL_RAND => 9 | dALL_LEAST => 10
  end.

Lemma ltb_N : forall a b : N, (Z.of_N a <? Z.of_N b) = (a <? b)%N.
Proof. intros. destruct (Z.ltb_spec (Z.of_N a) (Z.of_N b)), (N.ltb_spec a b); try reflexivity; lia. Qed.
Lemma eqb_N : forall a b : N, (Z.of_N a =? Z.of_N b) = (a =? b)%N.
Proof. intros. destruct (Z.eqb_spec (Z.of_N a) (Z.of_N b)), (N.eqb_spec a b); try reflexivity; lia. Qed.
Lemma ofN_if : forall (b : bool) (x y : N), (if b then Z.of_N x else Z.of_N y) = Z.of_N (if b then x else y).
Proof. destruct b; reflexivity. Qed.
Lemma of_N_land : forall a b : N, Z.of_N (N.land a b) = Z.land (Z.of_N a) (Z.of_N b).
Proof. destruct a, b; reflexivity. Qed.

(* x & ~(size_t)3 on 64 bits *)
Lemma land_mask4 : forall x, 0 <= x < M64 -> Z.land x 18446744073709551612 = x / 4 * 4.
Proof.
  intros x Hx. change 18446744073709551612 with (Z.land (Z.ones 64) (Z.lnot 3)).
  rewrite Z.land_assoc, Z.land_ones by lia. rewrite Z.mod_small by (unfold M64 in *; exact Hx).
  rewrite <- Z.ldiff_land. change 3 with (Z.ones 2). rewrite Z.ldiff_ones_r by lia.
  rewrite Z.shiftr_div_pow2, Z.shiftl_mul_pow2 by lia. reflexivity.
Qed.

(* the address just behind the shepherd-id slot: roundup4(ss*us) + sizeof(qthread_shepherd_id_t) *)
Lemma tie_slot_end : forall ss us : N, Z.of_N ss * Z.of_N us + 8 < M64 ->
  wrapU64 (Z.land (wrapU64 (wrapU64 (Z.of_N ss * Z.of_N us) + 3)) 18446744073709551612 + 2) = Z.of_N (slot_end ss us).
Proof.
  intros ss us Hb. unfold slot_end. cbv zeta.
  replace (Z.of_N ss * Z.of_N us) with (Z.of_N (ss * us)) in * by lia. set (p := (ss * us)%N) in *.
  rewrite (wrapU64_small (Z.of_N p)) by (unfold M64 in *; lia).
  rewrite (wrapU64_small (Z.of_N p + 3)) by (unfold M64 in *; lia).
  rewrite land_mask4 by (unfold M64 in *; lia).
  pose proof (nland3 p) as HL. pose proof (Z.mod_pos_bound (Z.of_N p) 4 ltac:(lia)) as Hm.
  pose proof (Z.div_mod (Z.of_N p) 4 ltac:(lia)) as Hd.
  assert (Hr : (Z.of_N p + 3) / 4 * 4 = if Z.of_N p mod 4 =? 0 then Z.of_N p else Z.of_N p + (4 - Z.of_N p mod 4)).
  { destruct (Z.eqb_spec (Z.of_N p mod 4) 0) as [E|E].
    - replace (Z.of_N p + 3) with (3 + Z.of_N p / 4 * 4) by lia. rewrite Z.div_add by lia. change (3 / 4) with 0. lia.
    - replace (Z.of_N p + 3) with ((Z.of_N p mod 4 - 1) + (Z.of_N p / 4 + 1) * 4) by lia.
      rewrite Z.div_add by lia. rewrite (Z.div_small (Z.of_N p mod 4 - 1)) by lia. lia. }
  rewrite Hr. rewrite <- HL. change 0 with (Z.of_N 0). rewrite eqb_N.
  destruct (N.eqb_spec (N.land p 3) 0) as [E|E].
  - rewrite wrapU64_small by (unfold M64 in *; lia). lia.
  - assert (Z.of_N (N.land p 3) < 4) by lia.
    rewrite wrapU64_small by (unfold M64 in *; lia). lia.
Qed.

Lemma tie_shrink : forall (n : nat) (ss us sb : N) (fuel : nat),
  n = N.to_nat ss -> (n < fuel)%nat -> Z.of_N ss * Z.of_N us + 8 < M64 -> Z.of_N ss < M64 ->
  qarray_create_sizes_loop1 fuel (Z.of_N sb) (Z.of_N us) (Z.of_N ss) = Some (Z.of_N (shrink n ss us sb)).
Proof.
  induction n as [|n IH]; intros ss us sb fuel Hn Hf Hb Hs; (destruct fuel as [|fuel]; [lia|]);
    unfold qarray_create_sizes_loop1; fold qarray_create_sizes_loop1; cbn [shrink].
  - assert (ss = 0%N) by (apply N2Nat.inj; rewrite <- Hn; reflexivity). subst ss. reflexivity.
  - rewrite tie_slot_end by assumption. change 0 with (Z.of_N 0). rewrite !ltb_N.
    destruct ((0 <? ss)%N && (sb <? slot_end ss us)%N) eqn:E; [|reflexivity].
    apply andb_true_iff in E. destruct E as [E _]. apply N.ltb_lt in E.
    rewrite wrapU64_small by (unfold M64 in *; lia).
    replace (Z.of_N ss - 1) with (Z.of_N (ss - 1)) by lia.
    apply IH; [rewrite N2Nat.inj_sub; change (N.to_nat 1) with 1%nat; lia | lia | nia | lia].
Qed.

Lemma nland7 : forall p : N, Z.of_N (N.land p 7) = Z.of_N p mod 8.
Proof. intro p. change 7%N with (N.ones 3). rewrite N.land_ones, N2Z.inj_mod. reflexivity. Qed.

Lemma tie_unit_size : forall (obj : N) (tight : bool), Z.of_N obj < B40 ->
  (if (if tight then 1 else 0) =? 0
   then wrapU64 (Z.of_N obj + (if negb (Z.land (Z.of_N obj) 7 =? 0) then wrapU64 (8 - Z.land (Z.of_N obj) 7) else 0))
   else Z.of_N obj) = Z.of_N (unit_size_of obj tight).
Proof.
  intros obj tight Hb. unfold unit_size_of. destruct tight; [reflexivity|]. change (0 =? 0) with true. cbv iota.
  change 7 with (Z.of_N 7). rewrite <- of_N_land. pose proof (nland7 obj) as H7.
  pose proof (Z.mod_pos_bound (Z.of_N obj) 8 ltac:(lia)) as Hm.
  change 0 with (Z.of_N 0) at 1. rewrite eqb_N.
  destruct (N.eqb_spec (N.land obj 7) 0) as [E|E]; cbn [negb].
  - rewrite wrapU64_small by (unfold B40 in *; lia). lia.
  - rewrite (wrapU64_small (8 - _)) by lia. rewrite wrapU64_small by (unfold B40 in *; lia). lia.
Qed.

Lemma unit_size_bounds : forall obj tight, (obj <= unit_size_of obj tight /\ unit_size_of obj tight <= obj + 8)%N.
Proof.
  intros obj tight. unfold unit_size_of. destruct tight; [lia|].
  pose proof (nland7 obj) as H7. pose proof (Z.mod_pos_bound (Z.of_N obj) 8 ltac:(lia)) as Hm.
  destruct (N.land obj 7 =? 0)%N; lia.
Qed.

Lemma tie_seg_count : forall count ss : N, (0 < ss)%N -> Z.of_N count < M64 ->
  wrapU64 (cdivU (Z.of_N count) (Z.of_N ss) + wrapU64 (if negb (cmodU (Z.of_N count) (Z.of_N ss) =? 0) then 1 else 0))
  = Z.of_N (seg_count count ss).
Proof.
  intros count ss Hs Hc. unfold seg_count, cdivU, cmodU. rewrite <- N2Z.inj_div, <- N2Z.inj_mod.
  change 0 with (Z.of_N 0). rewrite eqb_N.
  pose proof (N.div_mod count ss ltac:(lia)) as Hd.
  set (q := (count / ss)%N) in *. set (r := (count mod ss)%N) in *. clearbody q r.
  assert ((q <= count)%N) by nia.
  destruct (N.eqb_spec r 0) as [E|E]; cbn [negb].
  - change (wrapU64 (Z.of_N 0)) with 0. rewrite wrapU64_small by (unfold M64 in *; lia). lia.
  - assert ((q < count)%N) by nia.
    change (wrapU64 1) with 1. rewrite wrapU64_small by (unfold M64 in *; lia). lia.
Qed.

Lemma dist_chain : forall dd, ((dcode dd =? 4) || (dcode dd =? 5) || (dcode dd =? 6) || (dcode dd =? 7) || (dcode dd =? 3)) = is_dist dd.
Proof. destruct dd; reflexivity. Qed.
Lemma kind_chain : forall dd,
  (if (dcode dd =? 8) || (dcode dd =? 9) || (dcode dd =? 10) || (dcode dd =? 2) then 2
   else if dcode dd =? 1 then 1 else if is_dist dd then 3 else 0) = kind_code (kind_of dd).
Proof. destruct dd; reflexivity. Qed.

Theorem tie_create_sizes :
  forall (fuel : nat) (count obj : N) (dd : distribution) (tight : bool) (segpages pagesize nsheps oshep : N),
    (0 < obj)%N -> Z.of_N obj < B40 -> (4 <= pagesize)%N -> Z.of_N pagesize < B30 -> Z.of_N segpages < B31 ->
    Z.of_N count < M64 ->
    (0 < d_segsize (create count obj dd tight segpages pagesize nsheps oshep))%N ->
    (N.to_nat ((if (segpages =? 0)%N then 16 * pagesize else segpages * pagesize) / unit_size_of obj tight) < fuel)%nat ->
    qarray_create_sizes fuel (Z.of_N count) (Z.of_N obj) (dcode dd) (if tight then 1 else 0) (Z.of_N segpages)
                        (Z.of_N pagesize) zlcm
    = Some (Z.of_N (d_unit (create count obj dd tight segpages pagesize nsheps oshep)),
            Z.of_N (d_segbytes (create count obj dd tight segpages pagesize nsheps oshep)),
            Z.of_N (d_segsize (create count obj dd tight segpages pagesize nsheps oshep)),
            kind_code (d_kind (create count obj dd tight segpages pagesize nsheps oshep)),
            Z.of_N (seg_count count (d_segsize (create count obj dd tight segpages pagesize nsheps oshep)))).
Proof.
  intros fuel count obj dd tight segpages pagesize nsheps oshep Hobj Hobjb Hps Hpsb Hsp Hcnt Hss Hfuel.
  unfold create in *. cbv zeta in *. cbn [d_unit d_segbytes d_segsize d_kind] in *.
  pose proof (unit_size_bounds obj tight) as Hus.
  set (us := unit_size_of obj tight) in *.
  unfold qarray_create_sizes. cbv zeta.
  rewrite (tie_unit_size obj tight Hobjb). fold us.
  rewrite !dist_chain. rewrite kind_chain.
  (* segment_bytes before trimming *)
  set (sb0 := (if (segpages =? 0)%N then 16 * pagesize else segpages * pagesize)%N) in *.
  assert (Hsb0 : (4 <= sb0)%N /\ Z.of_N sb0 < 2305843009213693952).
  { subst sb0. destruct (N.eqb_spec segpages 0); unfold B30, B31 in *; nia. }
  rewrite (wrapU64_small (Z.of_N segpages)) by (unfold B31 in *; lia).
  rewrite (wrapU64_small (16 * Z.of_N pagesize)) by (unfold B30 in *; lia).
  rewrite (wrapU64_small (Z.of_N segpages * Z.of_N pagesize)) by (unfold B30, B31 in *; nia).
  change 0 with (Z.of_N 0). rewrite !eqb_N.
  destruct (N.eqb_spec us 0) as [|_]; [lia|]. cbn [negb].
  set (SB0 := if (segpages =? 0)%N then 16 * Z.of_N pagesize else Z.of_N segpages * Z.of_N pagesize).
  assert (E : SB0 = Z.of_N sb0) by (subst SB0 sb0; destruct (segpages =? 0)%N; lia).
  assert (Tail : forall sb ss : N, (0 < ss)%N ->
    (if negb (Z.of_N ss =? Z.of_N 0)
     then Some (Z.of_N us, Z.of_N sb, Z.of_N ss, kind_code (kind_of dd),
                wrapU64 (cdivU (Z.of_N count) (Z.of_N ss)
                         + wrapU64 (if negb (cmodU (Z.of_N count) (Z.of_N ss) =? Z.of_N 0) then 1 else 0)))
     else None)
    = Some (Z.of_N us, Z.of_N sb, Z.of_N ss, kind_code (kind_of dd), Z.of_N (seg_count count ss))).
  { intros sb ss H0. rewrite eqb_N. destruct (N.eqb_spec ss 0) as [|_]; [lia|]. cbn [negb].
    change (Z.of_N 0) with 0. rewrite tie_seg_count by assumption. reflexivity. }
  destruct (is_dist dd) eqn:Hd.
  - (* DIST kinds: room for the shepherd id, trimming, shrink loop *)
    unfold layout in *. cbv zeta in *. fold sb0 in Hss |- *.
    rewrite E. clear E SB0.
    unfold cdivU, cmodU. rewrite <- (N2Z.inj_div sb0 us).
    pose proof (N.mul_div_le sb0 us ltac:(lia)) as Hle.
    set (ss0 := (sb0 / us)%N) in *.
    replace (Z.of_N ss0 * Z.of_N us) with (Z.of_N (ss0 * us)) by lia.
    rewrite (wrapU64_small (Z.of_N (ss0 * us))) by (unfold M64; lia).
    replace (Z.of_N sb0 - Z.of_N (ss0 * us)) with (Z.of_N (sb0 - ss0 * us)) by lia.
    rewrite (wrapU64_small (Z.of_N (sb0 - ss0 * us))) by (unfold M64; lia).
    change 4 with (Z.of_N 4). rewrite !ltb_N.
    destruct (N.ltb_spec (sb0 - ss0 * us) 4) as [Hlt|Hge].
    + assert (Hss0 : (1 <= ss0)%N) by (destruct (N.eq_dec ss0 0) as [Z0|]; [rewrite Z0 in Hlt; lia | lia]).
      rewrite (wrapU64_small (Z.of_N ss0 - 1)) by (unfold M64; lia).
      replace (Z.of_N ss0 - 1) with (Z.of_N (ss0 - 1)) by lia.
      destruct (N.eqb_spec pagesize 0) as [|_]; [lia|]. cbn [negb].
      destruct (N.ltb_spec pagesize us) as [Hpu|Hpu].
      * rewrite <- (N2Z.inj_div us pagesize), <- (N2Z.inj_mod us pagesize), eqb_N.
        pose proof (N.mul_div_le us pagesize ltac:(lia)) as Hle2.
        set (k := (us / pagesize)%N) in *.
        replace (Z.of_N k * Z.of_N pagesize) with (Z.of_N (k * pagesize)) by lia.
        assert (Hus_sb : (us <= sb0)%N) by nia.
        rewrite (wrapU64_small (Z.of_N (k * pagesize))) by (unfold M64; lia).
        replace (Z.of_N sb0 - Z.of_N (k * pagesize)) with (Z.of_N (sb0 - k * pagesize)) by lia.
        rewrite (wrapU64_small (Z.of_N (sb0 - k * pagesize))) by (unfold M64; lia).
        rewrite (wrapU64_small (Z.of_N (sb0 - k * pagesize) + Z.of_N pagesize)) by (unfold M64, B30 in *; lia).
        replace (Z.of_N (sb0 - k * pagesize) + Z.of_N pagesize) with (Z.of_N (sb0 - k * pagesize + pagesize)) by lia.
        rewrite ofN_if.
        replace (if (us mod pagesize =? 0)%N then (sb0 - k * pagesize + pagesize)%N else (sb0 - k * pagesize)%N)
          with (sb0 - k * pagesize + (if (us mod pagesize =? 0)%N then pagesize else 0))%N
          by (destruct (us mod pagesize =? 0)%N; lia).
        cbn [snd fst] in *.
        set (sb1 := (sb0 - k * pagesize + (if (us mod pagesize =? 0)%N then pagesize else 0))%N) in *.
        assert (Hsb1 : (sb1 <= sb0 + pagesize)%N) by (subst sb1; destruct (us mod pagesize =? 0)%N; lia).
        rewrite (tie_shrink (N.to_nat (ss0 - 1)) (ss0 - 1) us sb1 fuel) by (try reflexivity; unfold M64; nia).
        apply Tail. exact Hss.
      * cbn [snd fst] in *.
        rewrite (tie_shrink (N.to_nat (ss0 - 1)) (ss0 - 1) us sb0 fuel) by (try reflexivity; unfold M64; nia).
        apply Tail. exact Hss.
    + cbn [snd fst] in *.
      rewrite (tie_shrink (N.to_nat ss0) ss0 us sb0 fuel) by (try reflexivity; unfold M64; nia).
      apply Tail. exact Hss.
  - (* the other kinds *)
    unfold layout in *. cbn [snd fst] in *. fold sb0 in Hss |- *.
    set (sbn := (if (segpages =? 0)%N
                 then if (16 * pagesize <? us)%N then N.lcm us pagesize else (16 * pagesize)%N
                 else (segpages * pagesize)%N)) in *.
    set (SBZ := if (segpages =? 0)%N
                then if 16 * Z.of_N pagesize <? Z.of_N us then zlcm (Z.of_N us) (Z.of_N pagesize) else 16 * Z.of_N pagesize
                else Z.of_N segpages * Z.of_N pagesize).
    assert (E2 : SBZ = Z.of_N sbn).
    { subst SBZ sbn. unfold zlcm. rewrite !N2Z.id.
      replace (16 * Z.of_N pagesize) with (Z.of_N (16 * pagesize)) by lia. rewrite ltb_N.
      destruct (segpages =? 0)%N; [destruct (16 * pagesize <? us)%N; reflexivity | lia]. }
    rewrite E2. unfold cdivU, cmodU. rewrite <- (N2Z.inj_div sbn us).
    exact (Tail sbn (sbn / us)%N Hss).
Qed.

(* the hypotheses are satisfiable: 1000 elements of 24 bytes, DIST_STRIPES, 4 KiB pages, default segment size *)
Example tie_create_sizes_ex :
  qarray_create_sizes 3000 1000 24 4 0 0 4096 zlcm = Some (24, 65536, 2730, 3, 1).
Proof. vm_compute. reflexivity. Qed.
