(* Gen/Tie_Mpool.v -- Mpool.Model.create_sizes (the function the C14 size theorems are about) equals the size
   arithmetic of qt_mpool_create_aligned as regenerated from src/mpool.c by tools/ctrans.py (Gen/Mpool.v): item size
   rounding to pointer size and alignment, the static max_alloc_size, lcm with the page size, page re-rounding when the
   lcm exceeds the maximum, the two doubling loops, items_per_alloc.  qt_lcm and the environment read are oracle
   inputs on both sides.  Domain: requested sizes and page size below 2^40 (no 64-bit overflow in the roundings),
   page size > 0, pool != NULL (the code's own check). *)
From Coq Require Import ZArith NArith Bool Lia.
From QV Require Import Gen.CInt Gen.Mpool Mpool.Model.
Local Open Scope Z_scope.

Definition B64 : Z := 18446744073709551616.
Definition B40 : Z := 1099511627776.
Definition zlcm (a b : Z) : Z := Z.of_N (qt_lcm (Z.to_N a) (Z.to_N b)).
Definition sizes_tuple (s : sizes) : Z * Z * Z * Z * Z :=
  (Z.of_N (s_item s), Z.of_N (s_align s), Z.of_N (s_alloc s), Z.of_N (s_ipa s), Z.of_N (s_max s)).

Lemma ltb_N : forall a b : N, (Z.of_N a <? Z.of_N b) = (a <? b)%N.
Proof. intros. destruct (Z.ltb_spec (Z.of_N a) (Z.of_N b)), (N.ltb_spec a b); try reflexivity; lia. Qed.
Lemma leb_N : forall a b : N, (Z.of_N a <=? Z.of_N b) = (a <=? b)%N.
Proof. intros. destruct (Z.leb_spec (Z.of_N a) (Z.of_N b)), (N.leb_spec a b); try reflexivity; lia. Qed.
Lemma eqb_N : forall a b : N, (Z.of_N a =? Z.of_N b) = (a =? b)%N.
Proof. intros. destruct (Z.eqb_spec (Z.of_N a) (Z.of_N b)), (N.eqb_spec a b); try reflexivity; lia. Qed.
Lemma ofN_if : forall (b : bool) (x y : N), (if b then Z.of_N x else Z.of_N y) = Z.of_N (if b then x else y).
Proof. destruct b; reflexivity. Qed.
Lemma some_if : forall (A : Type) (b : bool) (x y : A), (if b then Some x else Some y) = Some (if b then x else y).
Proof. destruct b; reflexivity. Qed.

(* x + (k - x mod k), the rounding step *)
Lemma addround : forall x k : N, (0 < k)%N -> Z.of_N x + Z.of_N k < B64 ->
  wrapU64 (Z.of_N x + wrapU64 (Z.of_N k - cmodU (Z.of_N x) (Z.of_N k))) = Z.of_N (x + (k - x mod k)).
Proof.
  intros x k Hk Hb. unfold cmodU, B64 in *. rewrite <- N2Z.inj_mod.
  pose proof (N.mod_lt x k ltac:(lia)) as Hm. set (m := (x mod k)%N) in *.
  rewrite (wrapU64_small (Z.of_N k - Z.of_N m)) by lia.
  rewrite wrapU64_small by lia. lia.
Qed.
Lemma round : forall x k : N, (0 < k)%N -> Z.of_N x + Z.of_N k < B64 ->
  (if negb (cmodU (Z.of_N x) (Z.of_N k) =? 0)
   then wrapU64 (Z.of_N x + wrapU64 (Z.of_N k - cmodU (Z.of_N x) (Z.of_N k))) else Z.of_N x)
  = Z.of_N (if x mod k =? 0 then x else x + (k - x mod k))%N.
Proof.
  intros x k Hk Hb. rewrite addround by assumption. unfold cmodU. rewrite <- N2Z.inj_mod.
  change 0 with (Z.of_N 0). rewrite eqb_N. destruct (x mod k =? 0)%N; reflexivity.
Qed.

(* the two doubling loops *)
Lemma tie_dbl1 : forall (fuel : nat) (a isz maxa : N),
  (0 < isz)%N -> Z.of_N maxa < B64 ->
  qt_mpool_create_sizes_loop1 fuel (Z.of_N maxa) (Z.of_N isz) (Z.of_N a) = option_map Z.of_N (dbl1 fuel a isz maxa).
Proof.
  induction fuel as [|fuel IH]; intros a isz maxa Hi Hm; [reflexivity|].
  unfold qt_mpool_create_sizes_loop1; fold qt_mpool_create_sizes_loop1. cbn [dbl1].
  change 0 with (Z.of_N 0). rewrite eqb_N. destruct (N.eqb_spec isz 0); [lia|]. cbn [negb].
  change (cdivU (Z.of_N maxa) 2) with (Z.of_N maxa / Z.of_N 2).
  unfold cdivU. rewrite <- !N2Z.inj_div. change 128 with (Z.of_N 128).
  rewrite ltb_N, leb_N.
  destruct ((a / isz <? 128)%N && (a <=? maxa / 2)%N) eqn:E; [|reflexivity].
  apply andb_true_iff in E. destruct E as [_ E]. apply N.leb_le in E.
  pose proof (N.mul_div_le maxa 2 ltac:(lia)).
  rewrite wrapU64_small by (unfold B64 in *; lia).
  replace (Z.of_N a * 2) with (Z.of_N (a * 2)) by lia. apply IH; assumption.
Qed.

Lemma tie_dbl2 : forall (fuel : nat) (a ps : N),
  Z.of_N ps * 32 < B64 ->
  qt_mpool_create_sizes_loop2 fuel (Z.of_N ps) (Z.of_N a) = option_map Z.of_N (dbl2 fuel a (ps * 16)).
Proof.
  induction fuel as [|fuel IH]; intros a ps Hp; [reflexivity|].
  unfold qt_mpool_create_sizes_loop2; fold qt_mpool_create_sizes_loop2. cbn [dbl2].
  rewrite (wrapU64_small (Z.of_N ps * 16)) by (unfold B64 in *; lia).
  replace (Z.of_N ps * 16) with (Z.of_N (ps * 16)) by lia. rewrite ltb_N.
  destruct (N.ltb_spec a (ps * 16)); [|reflexivity].
  rewrite wrapU64_small by (unfold B64 in *; lia).
  replace (Z.of_N a * 2) with (Z.of_N (a * 2)) by lia. apply IH; assumption.
Qed.

Theorem tie_create_sizes :
  forall (pagesize env_max max0 item_req align_req : N) (pool : Z),
    pool <> 0 -> (0 < pagesize)%N -> Z.of_N pagesize < B40 -> Z.of_N item_req < B40 -> Z.of_N align_req < B40 ->
    Z.of_N env_max < B64 -> Z.of_N max0 < B64 ->
    qt_mpool_create_sizes FUEL (Z.of_N item_req) (Z.of_N align_req) (Z.of_N pagesize) (Z.of_N max0) pool
                          (Z.of_N env_max) zlcm
    = option_map sizes_tuple (create_sizes pagesize env_max max0 item_req align_req).
Proof.
  intros pagesize env_max max0 item_req align_req pool Hpool Hps Hpsb Hit Hal Henv Hmax0.
  unfold qt_mpool_create_sizes, create_sizes. cbv zeta.
  destruct (Z.eqb_spec pool 0) as [|_]; [contradiction|].
  (* names for the stages of the model *)
  set (max1 := (if (max0 =? 0)%N then env_max else max0)).
  set (i1 := (if (item_req <? HDRSZ)%N then HDRSZ else item_req)).
  set (i2 := (if (i1 mod PTRSZ =? 0)%N then i1 else (i1 + (PTRSZ - i1 mod PTRSZ))%N)).
  set (al := (if (align_req <=? 16)%N then 16%N else align_req)).
  set (i3 := (if (i2 mod al =? 0)%N then i2 else (i2 + (al - i2 mod al))%N)).
  assert (Hmax1 : Z.of_N max1 < B64) by (subst max1; destruct (max0 =? 0)%N; assumption).
  assert (Hi1 : (16 <= i1 /\ i1 <= item_req + 16)%N)
    by (subst i1; unfold HDRSZ; destruct (N.ltb_spec item_req 16); lia).
  assert (Hi2 : (16 <= i2 /\ i2 <= i1 + 8)%N).
  { subst i2. unfold PTRSZ. pose proof (N.mod_lt i1 8 ltac:(lia)) as Hm. set (m := (i1 mod 8)%N) in *. clearbody m. destruct (m =? 0)%N; lia. }
  assert (Hal2 : (16 <= al /\ al <= align_req + 16)%N) by (subst al; destruct (N.leb_spec align_req 16); lia).
  assert (Hi3 : (16 <= i3 /\ i3 <= i2 + al)%N).
  { subst i3. pose proof (N.mod_lt i2 al ltac:(lia)) as Hm. set (m := (i2 mod al)%N) in *. clearbody m. destruct (m =? 0)%N; lia. }
  (* the same stages on the regenerated side *)
  set (M1 := if Z.of_N max0 =? 0 then Z.of_N env_max else Z.of_N max0).
  assert (E : M1 = Z.of_N max1).
  { subst M1 max1. change 0 with (Z.of_N 0). rewrite eqb_N. apply ofN_if. }
  rewrite E; clear E M1.
  set (I1 := if Z.of_N item_req <? 16 then 16 else Z.of_N item_req).
  assert (E : I1 = Z.of_N i1).
  { subst I1 i1. unfold HDRSZ. change 16 with (Z.of_N 16). rewrite ltb_N. apply ofN_if. }
  rewrite E; clear E I1.
  set (I2 := if negb (cmodU (Z.of_N i1) 8 =? 0) then wrapU64 (Z.of_N i1 + wrapU64 (8 - cmodU (Z.of_N i1) 8)) else Z.of_N i1).
  assert (E : I2 = Z.of_N i2).
  { subst I2 i2. unfold PTRSZ. change 8 with (Z.of_N 8). apply round; unfold B64, B40 in *; lia. }
  rewrite E; clear E I2.
  set (AL := if Z.of_N align_req <=? 16 then 16 else Z.of_N align_req).
  assert (E : AL = Z.of_N al).
  { subst AL al. change 16 with (Z.of_N 16). rewrite leb_N. apply ofN_if. }
  rewrite E; clear E AL.
  destruct (Z.eqb_spec (Z.of_N al) 0) as [|_]; [lia|]. cbn [negb].
  rewrite some_if. rewrite (round i2 al) by (unfold B64, B40 in *; lia).
  fold i3. cbv beta iota.
  (* max2, lcm *)
  rewrite (wrapU64_small (Z.of_N i3 * 2)) by (unfold B64, B40 in *; lia).
  replace (Z.of_N i3 * 2) with (Z.of_N (i3 * 2)) by lia.
  rewrite leb_N, ofN_if.
  set (max2 := (if (max1 <=? i3 * 2)%N then (i3 * 2)%N else max1)).
  assert (Hmax2 : Z.of_N max2 < B64) by (subst max2; destruct (max1 <=? i3 * 2)%N; unfold B64, B40 in *; lia).
  assert (Hmax2lo : (i3 * 2 <= max2)%N) by (subst max2; destruct (N.leb_spec max1 (i3 * 2)); lia).
  unfold zlcm. rewrite !N2Z.id. set (l := qt_lcm i3 pagesize). rewrite ltb_N.
  (* i4 and the item count *)
  rewrite (addround i3 pagesize) by (unfold B64, B40 in *; lia).
  set (i4 := (i3 + (pagesize - i3 mod pagesize))%N).
  assert (Hi4 : (i3 <= i4 /\ i4 <= i3 + pagesize)%N).
  { subst i4. pose proof (N.mod_lt i3 pagesize ltac:(lia)) as Hm. set (m := (i3 mod pagesize)%N) in *. clearbody m. lia. }
  change 0 with (Z.of_N 0). rewrite !eqb_N.
  destruct (N.eqb_spec pagesize 0) as [|_]; [lia|]. destruct (N.eqb_spec i4 0) as [|_]; [lia|]. cbn [negb].
  unfold cdivU at 1 2. rewrite <- (N2Z.inj_div max2 i4). change 2 with (Z.of_N 2). rewrite ltb_N, ofN_if.
  set (mn := (if (max2 / i4 <? 2)%N then 2%N else (max2 / i4)%N)).
  assert (Hmn : Z.of_N i4 * Z.of_N mn < B64).
  { subst mn. pose proof (N.mul_div_le max2 i4 ltac:(lia)). destruct (N.ltb_spec (max2 / i4) 2); unfold B64, B40 in *; nia. }
  rewrite (wrapU64_small (Z.of_N i4 * Z.of_N mn)) by (unfold B64 in *; nia).
  replace (Z.of_N i4 * Z.of_N mn) with (Z.of_N (i4 * mn)) by lia.
  assert (Tail : forall it a1 : N, (0 < it)%N ->
    match (if Z.of_N a1 =? Z.of_N 0
           then Some (if Z.of_N pagesize <? Z.of_N it then Z.of_N it else Z.of_N pagesize)
           else match qt_mpool_create_sizes_loop1 FUEL (Z.of_N max2) (Z.of_N it) (Z.of_N a1) with
                | Some x => match qt_mpool_create_sizes_loop2 FUEL (Z.of_N pagesize) x with
                            | Some y => Some y | None => None end
                | None => None end)
    with
    | Some a0 => if negb (Z.of_N it =? Z.of_N 0)
                 then Some (Z.of_N i3, Z.of_N al, a0, cdivU a0 (Z.of_N it), Z.of_N max2) else None
    | None => None
    end
    = option_map sizes_tuple
        (match (if (a1 =? 0)%N then Some (if (pagesize <? it)%N then it else pagesize)
                else match dbl1 FUEL a1 it max2 with
                     | Some a => dbl2 FUEL a (pagesize * 16) | None => None end)
         with
         | Some a => Some (mksizes i3 al a (a / it) max2)
         | None => None
         end)).
  { intros it a1 Hit0. rewrite !eqb_N, ltb_N, ofN_if.
    destruct (N.eqb_spec it 0) as [|_]; [lia|]. cbn [negb].
    destruct (a1 =? 0)%N.
    - cbn [option_map]. unfold sizes_tuple, cdivU. cbn [s_item s_align s_alloc s_ipa s_max].
      rewrite N2Z.inj_div. reflexivity.
    - rewrite tie_dbl1 by (assumption || lia).
      destruct (dbl1 FUEL a1 it max2) as [a|]; cbn [option_map]; [|reflexivity].
      rewrite tie_dbl2 by (unfold B64, B40 in *; lia).
      destruct (dbl2 FUEL a (pagesize * 16)) as [b|]; cbn [option_map]; [|reflexivity].
      unfold sizes_tuple, cdivU. cbn [s_item s_align s_alloc s_ipa s_max].
      rewrite N2Z.inj_div. reflexivity. }
  destruct (max2 <? l)%N; cbv beta iota; apply Tail; lia.
Qed.

(* the hypotheses are satisfiable and the result is not trivial: 40-byte items, 4 KiB pages, default maximum *)
Example tie_create_sizes_ex :
  qt_mpool_create_sizes FUEL 40 0 4096 0 1 18446744073709551615 zlcm = Some (48, 16, 98304, 2048, 18446744073709551615).
Proof. vm_compute. reflexivity. Qed.
