(* Gen/Tie_Qloop.v -- Loops.Model.split (the function the C12 theorems about qt_loop_balance / qt_loopaccum_balance are
   about) equals what the maxworkers / each / extra / iterend loop of qt_loop_balance_inner and
   qt_loopaccum_balance_inner computes, as regenerated from src/qloop.c by tools/ctrans.py (Gen/Qloop.v):
   the startat / stopat fields written into qwa[k] are the k-th pair of Model.split, maxworkers is Model.maxworkers.
   Domain: 0 <= start <= stop < 2^62 (the model's no-wrap domain), the worker count fits qthread_shepherd_id_t,
   sync_type is one the function does not abort on, fuel > maxworkers. *)
From Coq Require Import ZArith Bool Lia List.
From QV Require Import Gen.CInt Gen.Qloop Loops.Model.
Import ListNotations.
Local Open Scope Z_scope.

Definition B64 : Z := 18446744073709551616.

Lemma upd_upd_same : forall f i a b, upd (upd f i a) i b i = b.
Proof. intros. apply upd_same. Qed.

Ltac sync_ok :=
  repeat match goal with
         | |- context [if (?a =? ?b) || (?c =? ?d) then _ else _] =>
             destruct (Z.eqb_spec a b); destruct (Z.eqb_spec c d); cbn [orb]
         | |- context [if ?a =? ?b then _ else _] => destruct (Z.eqb_spec a b)
         end; try lia.

(* the same proof script is used for both loops (they differ only in which sync_type values abort) *)
Lemma loop_spec :
  forall (n : nat) (fuel : nat) (st mw each : Z) (sa so : Z -> Z) (extra iterend i : Z),
    0 <= st <= 3 -> n = Z.to_nat (mw - i) -> (n < fuel)%nat -> 0 <= i <= mw -> mw < 65536 -> 0 <= each ->
    0 <= extra < B64 -> 0 <= iterend -> iterend + (mw - i) * (each + 1) < B64 ->
    exists sa' so' ex' it',
      qt_loop_balance_split_loop1 fuel st mw each sa so i extra iterend = Some (sa', so', mw, ex', it')
      /\ (forall k, 0 <= k < i -> sa' k = sa k /\ so' k = so k)
      /\ (forall k, i <= k < mw -> (sa' k, so' k) = nth (Z.to_nat (k - i)) (split_loop n iterend each extra) (0, 0)).
Proof.
  intro n; induction n as [|n IH];
  intros fuel st mw each sa so extra iterend i Hst Hn Hf Hi Hmw He Hx Hit Hov;
  (destruct fuel as [|fuel]; [lia|]);
  unfold qt_loop_balance_split_loop1; fold qt_loop_balance_split_loop1;
  [ (* i = mw *)
    assert (i = mw) by lia; subst i;
    rewrite Z.ltb_irrefl;
    exists sa, so, extra, iterend; split; [reflexivity|]; split; [intros; split; reflexivity | intros; lia]
  | assert (Hlt : i < mw) by lia;
    destruct (i <? mw) eqn:E; [|apply Z.ltb_ge in E; lia]; clear E;
    cbv zeta;
    assert (Hst' : st = 0 \/ st = 1 \/ st = 2 \/ st = 3) by lia;
    destruct Hst' as [->|[->|[->| ->]]]; cbn [Z.eqb Pos.eqb orb]; try lia;
    (rewrite (wrapU64_small (iterend + each)) by (unfold B64 in *; nia);
    rewrite (wrapU16_small (i + 1)) by lia;
    cbn [split_loop];
    destruct (0 <? extra) eqn:Ex;
    [ apply Z.ltb_lt in Ex;
      rewrite upd_upd_same; rewrite upd_same;
      rewrite (wrapU64_small (iterend + each + 1)) by (unfold B64 in *; nia);
      rewrite (wrapU64_small (extra - 1)) by (unfold B64 in *; lia)
    | apply Z.ltb_ge in Ex; rewrite upd_same ];
    (match goal with
    | |- exists _ _ _ _, qt_loop_balance_split_loop1 fuel ?st0 mw each ?sa1 ?so1 (i + 1) ?ex1 ?it1 = _ /\ _ =>
        destruct (IH fuel st0 mw each sa1 so1 ex1 it1 (i + 1)) as (sa' & so' & ex' & it' & Hrun & Hlo & Hhi);
        [ lia | lia | lia | lia | lia | lia | unfold B64 in *; lia | lia | unfold B64 in *; nia | ];
        exists sa', so', ex', it'; split; [exact Hrun|]; split;
        [ intros k Hk; destruct (Hlo k ltac:(lia)) as [H1 H2]; rewrite H1, H2;
          rewrite !upd_other by lia; split; reflexivity
        | intros k Hk; destruct (Z.eq_dec k i) as [->|Hne];
          [ rewrite Z.sub_diag; cbn [Z.to_nat nth];
            destruct (Hlo i ltac:(lia)) as [H1 H2]; rewrite H1, H2;
            rewrite ?upd_same; reflexivity
          | replace (Z.to_nat (k - i)) with (S (Z.to_nat (k - (i + 1)))) by lia;
            cbn [nth]; apply Hhi; lia ] ]
    end)) ].
Qed.

Lemma loopaccum_spec :
  forall (n : nat) (fuel : nat) (st mw each : Z) (sa so : Z -> Z) (extra iterend i : Z),
    1 <= st <= 3 -> n = Z.to_nat (mw - i) -> (n < fuel)%nat -> 0 <= i <= mw -> mw < 65536 -> 0 <= each ->
    0 <= extra < B64 -> 0 <= iterend -> iterend + (mw - i) * (each + 1) < B64 ->
    exists sa' so' ex' it',
      qt_loopaccum_balance_split_loop1 fuel st mw each sa so extra iterend i = Some (sa', so', ex', it', mw)
      /\ (forall k, 0 <= k < i -> sa' k = sa k /\ so' k = so k)
      /\ (forall k, i <= k < mw -> (sa' k, so' k) = nth (Z.to_nat (k - i)) (split_loop n iterend each extra) (0, 0)).
Proof.
  intro n; induction n as [|n IH];
  intros fuel st mw each sa so extra iterend i Hst Hn Hf Hi Hmw He Hx Hit Hov;
  (destruct fuel as [|fuel]; [lia|]);
  unfold qt_loopaccum_balance_split_loop1; fold qt_loopaccum_balance_split_loop1;
  [ (* i = mw *)
    assert (i = mw) by lia; subst i;
    rewrite Z.ltb_irrefl;
    exists sa, so, extra, iterend; split; [reflexivity|]; split; [intros; split; reflexivity | intros; lia]
  | assert (Hlt : i < mw) by lia;
    destruct (i <? mw) eqn:E; [|apply Z.ltb_ge in E; lia]; clear E;
    cbv zeta;
    assert (Hst' : st = 0 \/ st = 1 \/ st = 2 \/ st = 3) by lia;
    destruct Hst' as [->|[->|[->| ->]]]; cbn [Z.eqb Pos.eqb orb]; try lia;
    (rewrite (wrapU64_small (iterend + each)) by (unfold B64 in *; nia);
    rewrite (wrapU16_small (i + 1)) by lia;
    cbn [split_loop];
    destruct (0 <? extra) eqn:Ex;
    [ apply Z.ltb_lt in Ex;
      rewrite upd_upd_same; rewrite upd_same;
      rewrite (wrapU64_small (iterend + each + 1)) by (unfold B64 in *; nia);
      rewrite (wrapU64_small (extra - 1)) by (unfold B64 in *; lia)
    | apply Z.ltb_ge in Ex; rewrite upd_same ];
    (match goal with
    | |- exists _ _ _ _, qt_loopaccum_balance_split_loop1 fuel ?st0 mw each ?sa1 ?so1 ?ex1 ?it1 (i + 1) = _ /\ _ =>
        destruct (IH fuel st0 mw each sa1 so1 ex1 it1 (i + 1)) as (sa' & so' & ex' & it' & Hrun & Hlo & Hhi);
        [ lia | lia | lia | lia | lia | lia | unfold B64 in *; lia | lia | unfold B64 in *; nia | ];
        exists sa', so', ex', it'; split; [exact Hrun|]; split;
        [ intros k Hk; destruct (Hlo k ltac:(lia)) as [H1 H2]; rewrite H1, H2;
          rewrite !upd_other by lia; split; reflexivity
        | intros k Hk; destruct (Z.eq_dec k i) as [->|Hne];
          [ rewrite Z.sub_diag; cbn [Z.to_nat nth];
            destruct (Hlo i ltac:(lia)) as [H1 H2]; rewrite H1, H2;
            rewrite ?upd_same; reflexivity
          | replace (Z.to_nat (k - i)) with (S (Z.to_nat (k - (i + 1)))) by lia;
            cbn [nth]; apply Hhi; lia ] ]
    end)) ].
Qed.

Lemma maxworkers_range : forall start stop nw, 0 <= maxworkers start stop nw < 65536.
Proof. intros. unfold maxworkers, wrap16. apply Z.mod_pos_bound. lia. Qed.

(* qt_loop_balance_inner: qwa[k].startat / .stopat = k-th pair of Model.split; maxworkers = Model.maxworkers *)
Theorem tie_loop_balance_split :
  forall (fuel : nat) (start stop nw st : Z) (sa so : Z -> Z),
    0 <= start <= stop -> stop < 2 ^ 62 -> 0 <= nw < 65536 -> 0 <= st <= 3 ->
    0 < maxworkers start stop nw -> (Z.to_nat (maxworkers start stop nw) < fuel)%nat ->
    exists sa' so',
      qt_loop_balance_split fuel start stop st nw sa so = Some (maxworkers start stop nw, sa', so')
      /\ forall k, 0 <= k < maxworkers start stop nw ->
                   (sa' k, so' k) = nth (Z.to_nat k) (split start stop nw) (0, 0).
Proof.
  intros fuel start stop nw st sa so Hs Hstop Hnw Hst Hmw Hf;
  unfold qt_loop_balance_split;
  pose proof (maxworkers_range start stop nw) as Hr;
  rewrite (wrapU64_small (stop - start)) by (unfold B64; lia);
  change (wrapU16 (if nw <? stop - start then nw else stop - start)) with (maxworkers start stop nw) in *;
  set (mw := maxworkers start stop nw) in *;
  cbv zeta;
  destruct (mw =? 0) eqn:E0; [apply Z.eqb_eq in E0; lia|]; clear E0; cbn [negb];
  unfold cdivU;
  assert (Hd : 0 <= (stop - start) / mw) by (apply Z.div_pos; lia);
  pose proof (Z.div_mod (stop - start) mw ltac:(lia)) as Hdm;
  pose proof (Z.mod_pos_bound (stop - start) mw ltac:(lia)) as Hmb;
  set (each := (stop - start) / mw) in *;
  rewrite (wrapU64_small (each * mw)) by (unfold B64; nia);
  rewrite (wrapU64_small (stop - start - each * mw)) by (unfold B64; nia);
  assert (Hst' : st = 0 \/ st = 1 \/ st = 2 \/ st = 3) by lia;
  destruct Hst' as [->|[->|[->| ->]]]; cbn [Z.eqb Pos.eqb orb]; try lia;
  (match goal with |- context [qt_loop_balance_split_loop1 fuel ?st0] =>
     destruct (loop_spec (Z.to_nat mw) fuel st0 mw each sa so (stop - start - each * mw) start 0)
       as (sa' & so' & ex' & it' & Hrun & _ & Hhi) end;
  [ lia | lia | lia | lia | lia | lia | unfold B64; nia | lia | unfold B64; nia | ];
  rewrite Hrun; exists sa', so'; split; [reflexivity|];
  intros k Hk; rewrite (Hhi k ltac:(lia)); rewrite Z.sub_0_r; unfold split;
  fold mw; fold each; reflexivity).
Qed.

Theorem tie_loopaccum_balance_split :
  forall (fuel : nat) (start stop nw st : Z) (sa so : Z -> Z),
    0 <= start <= stop -> stop < 2 ^ 62 -> 0 <= nw < 65536 -> 1 <= st <= 3 ->
    0 < maxworkers start stop nw -> (Z.to_nat (maxworkers start stop nw) < fuel)%nat ->
    exists sa' so',
      qt_loopaccum_balance_split fuel start stop st nw sa so = Some (maxworkers start stop nw, sa', so')
      /\ forall k, 0 <= k < maxworkers start stop nw ->
                   (sa' k, so' k) = nth (Z.to_nat k) (split start stop nw) (0, 0).
Proof.
  intros fuel start stop nw st sa so Hs Hstop Hnw Hst Hmw Hf;
  unfold qt_loopaccum_balance_split;
  pose proof (maxworkers_range start stop nw) as Hr;
  rewrite (wrapU64_small (stop - start)) by (unfold B64; lia);
  change (wrapU16 (if nw <? stop - start then nw else stop - start)) with (maxworkers start stop nw) in *;
  set (mw := maxworkers start stop nw) in *;
  cbv zeta;
  destruct (mw =? 0) eqn:E0; [apply Z.eqb_eq in E0; lia|]; clear E0; cbn [negb];
  unfold cdivU;
  assert (Hd : 0 <= (stop - start) / mw) by (apply Z.div_pos; lia);
  pose proof (Z.div_mod (stop - start) mw ltac:(lia)) as Hdm;
  pose proof (Z.mod_pos_bound (stop - start) mw ltac:(lia)) as Hmb;
  set (each := (stop - start) / mw) in *;
  rewrite (wrapU64_small (each * mw)) by (unfold B64; nia);
  rewrite (wrapU64_small (stop - start - each * mw)) by (unfold B64; nia);
  assert (Hst' : st = 0 \/ st = 1 \/ st = 2 \/ st = 3) by lia;
  destruct Hst' as [->|[->|[->| ->]]]; cbn [Z.eqb Pos.eqb orb]; try lia;
  (match goal with |- context [qt_loopaccum_balance_split_loop1 fuel ?st0] =>
     destruct (loopaccum_spec (Z.to_nat mw) fuel st0 mw each sa so (stop - start - each * mw) start 0)
       as (sa' & so' & ex' & it' & Hrun & _ & Hhi) end;
  [ lia | lia | lia | lia | lia | lia | unfold B64; nia | lia | unfold B64; nia | ];
  rewrite Hrun; exists sa', so'; split; [reflexivity|];
  intros k Hk; rewrite (Hhi k ltac:(lia)); rewrite Z.sub_0_r; unfold split;
  fold mw; fold each; reflexivity).
Qed.

(* the hypotheses are satisfiable: 10 iterations on 4 workers *)
Example tie_loop_balance_split_ex :
  exists sa' so', qt_loop_balance_split 5 0 10 3 4 (fun _ => 0) (fun _ => 0) = Some (4, sa', so')
                  /\ map (fun k => (sa' k, so' k)) [0; 1; 2; 3] = [(0, 3); (3, 6); (6, 8); (8, 10)].
Proof. eexists. eexists. split; [vm_compute; reflexivity | vm_compute; reflexivity]. Qed.
