(* Gen/CInt.v -- C integer semantics used by the definitions that tools/ctrans.py regenerates from the C source.
   Values are Z.  A value of C type T is kept in T's range; every arithmetic result, cast and assignment is passed
   through the wrap function of the type clang reports for that node (usual arithmetic conversions are clang's).
   Unsigned division / remainder are Z.div / Z.modulo on non-negative operands, signed ones are Z.quot / Z.rem;
   a zero divisor, an out-of-range shift count, an exhausted fuel or a trap make the generated function return None. *)
From Coq Require Import ZArith Bool Lia.
Local Open Scope Z_scope.

Definition wrapU64 (x : Z) : Z := x mod 18446744073709551616.
Definition wrapU32 (x : Z) : Z := x mod 4294967296.
Definition wrapU16 (x : Z) : Z := x mod 65536.
Definition wrapU8  (x : Z) : Z := x mod 256.
Definition wrapS64 (x : Z) : Z := (x + 9223372036854775808) mod 18446744073709551616 - 9223372036854775808.
Definition wrapS32 (x : Z) : Z := (x + 2147483648) mod 4294967296 - 2147483648.
Definition wrapS16 (x : Z) : Z := (x + 32768) mod 65536 - 32768.
Definition wrapS8  (x : Z) : Z := (x + 128) mod 256 - 128.

Definition cdivU (a b : Z) : Z := a / b.
Definition cmodU (a b : Z) : Z := a mod b.
Definition cdivS (a b : Z) : Z := Z.quot a b.
Definition cmodS (a b : Z) : Z := Z.rem a b.

Definition b2z (b : bool) : Z := if b then 1 else 0.
Definition z2b (x : Z) : bool := negb (x =? 0).

(* memory cells indexed by an integer (array of scalars / one field of an array of structs) *)
Definition upd (f : Z -> Z) (i v : Z) : Z -> Z := fun j => if j =? i then v else f j.

(* result of a loop: it ran to its end with the final values of the variables it assigns, or executed `return` *)
Inductive lres (S R : Type) : Type :=
| LNormal (s : S)
| LReturn (r : R).
Arguments LNormal {S R} s.
Arguments LReturn {S R} r.

(* ------------------------------------------------------------------ *)
Lemma wrapU64_mod : forall x, wrapU64 x = x mod 2 ^ 64.
Proof. reflexivity. Qed.
Lemma wrapU32_mod : forall x, wrapU32 x = x mod 2 ^ 32.
Proof. reflexivity. Qed.
Lemma wrapU16_mod : forall x, wrapU16 x = x mod 2 ^ 16.
Proof. reflexivity. Qed.
Lemma wrapU8_mod : forall x, wrapU8 x = x mod 2 ^ 8.
Proof. reflexivity. Qed.

Lemma wrapU64_small : forall x, 0 <= x < 18446744073709551616 -> wrapU64 x = x.
Proof. intros x H. unfold wrapU64. apply Z.mod_small. exact H. Qed.
Lemma wrapU32_small : forall x, 0 <= x < 4294967296 -> wrapU32 x = x.
Proof. intros x H. unfold wrapU32. apply Z.mod_small. exact H. Qed.
Lemma wrapU16_small : forall x, 0 <= x < 65536 -> wrapU16 x = x.
Proof. intros x H. unfold wrapU16. apply Z.mod_small. exact H. Qed.
Lemma wrapU8_small : forall x, 0 <= x < 256 -> wrapU8 x = x.
Proof. intros x H. unfold wrapU8. apply Z.mod_small. exact H. Qed.

Lemma wrapU64_range : forall x, 0 <= wrapU64 x < 18446744073709551616.
Proof. intro x. unfold wrapU64. apply Z.mod_pos_bound. lia. Qed.
Lemma wrapU32_range : forall x, 0 <= wrapU32 x < 4294967296.
Proof. intro x. unfold wrapU32. apply Z.mod_pos_bound. lia. Qed.
Lemma wrapU16_range : forall x, 0 <= wrapU16 x < 65536.
Proof. intro x. unfold wrapU16. apply Z.mod_pos_bound. lia. Qed.

Lemma wrapU64_idem : forall x, wrapU64 (wrapU64 x) = wrapU64 x.
Proof. intro x. apply wrapU64_small. apply wrapU64_range. Qed.
Lemma wrapU32_idem : forall x, wrapU32 (wrapU32 x) = wrapU32 x.
Proof. intro x. apply wrapU32_small. apply wrapU32_range. Qed.
Lemma wrapU16_idem : forall x, wrapU16 (wrapU16 x) = wrapU16 x.
Proof. intro x. apply wrapU16_small. apply wrapU16_range. Qed.

Lemma wrapS64_small : forall x, -9223372036854775808 <= x < 9223372036854775808 -> wrapS64 x = x.
Proof. intros x H. unfold wrapS64. rewrite Z.mod_small; lia. Qed.
Lemma wrapS32_small : forall x, -2147483648 <= x < 2147483648 -> wrapS32 x = x.
Proof. intros x H. unfold wrapS32. rewrite Z.mod_small; lia. Qed.
Lemma wrapS64_range : forall x, -9223372036854775808 <= wrapS64 x < 9223372036854775808.
Proof.
  intro x. unfold wrapS64.
  pose proof (Z.mod_pos_bound (x + 9223372036854775808) 18446744073709551616 ltac:(lia)). lia.
Qed.
(* reinterpreting a 64-bit pattern: signed -> unsigned -> signed is the identity, and conversely *)
Lemma wrapS64_wrapU64 : forall x, wrapS64 (wrapU64 x) = wrapS64 x.
Proof.
  intro x. unfold wrapS64, wrapU64.
  rewrite Zplus_mod_idemp_l. reflexivity.
Qed.
Lemma wrapU64_wrapS64 : forall x, wrapU64 (wrapS64 x) = wrapU64 x.
Proof.
  intro x. unfold wrapS64, wrapU64.
  rewrite <- Zminus_mod_idemp_l, Z.mod_mod by lia.
  rewrite Zminus_mod_idemp_l. f_equal. lia.
Qed.

Lemma upd_same : forall f i v, upd f i v i = v.
Proof. intros. unfold upd. rewrite Z.eqb_refl. reflexivity. Qed.
Lemma upd_other : forall f i v j, j <> i -> upd f i v j = f j.
Proof. intros f i v j H. unfold upd. destruct (j =? i) eqn:E; [apply Z.eqb_eq in E; contradiction | reflexivity]. Qed.

Lemma b2z_z2b : forall b, z2b (b2z b) = b.
Proof. destruct b; reflexivity. Qed.
