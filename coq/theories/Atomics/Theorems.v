(* C18: the property theorems, about the machines of the shape READ FROM THE SOURCE (GenShape.gen_shape).
   `shape_is_expected` is the obligation that breaks when include/qthread/qthread.h drops the lock prefix,
   changes the retry condition, the returned variable, the operand binding of the asm, or the primitive a
   macro expands to.  Atomicity of the lock-prefixed instruction / the __sync builtins is the ASSUMPTION
   built into Model.step (one step); everything else is proved.                                            *)
From Coq Require Import ZArith List Bool Lia Arith.
From QV Require Import Atomics.Model Atomics.GenShape Atomics.Proofs.
Import ListNotations.
Local Open Scope Z_scope.

Lemma shape_is_expected : shape_ok gen_shape = true.
Proof. vm_compute. reflexivity. Qed.

Lemma gen_cfg_ok : forall c, In c (cfgs_of gen_shape) -> mcfg_ok c = true.
Proof.
  pose proof shape_is_expected as H. unfold shape_ok in H.
  apply andb_prop in H. destruct H as [_ H]. rewrite forallb_forall in H. exact H.
Qed.

Definition st_of (fadd : Z -> Z -> Z) (c : mcfg) (v0 : Z) (progs : list (list op)) (sched : list nat) : st :=
  run fadd c (init_st v0 progs) sched.

(* every schedule is linearizable: the completed operations, in the order of their successful primitive, form a
   legal sequential history that starts at the initial value and ends at the current cell; every operation returned
   the value held immediately before its successful primitive; every thread's returned values / completed
   operations are its own events in program order.  For every add function (float, double, integer). *)
Theorem atomics_linearizable_all : forall fadd c, In c (cfgs_of gen_shape) ->
  forall v0 progs sched, let s := st_of fadd c v0 progs sched in
  seq_accept fadd (m_M c) v0 (rev (map (fun e => (e_op e, e_ret e)) (log s))) = Some (cell s) /\
  (forall e, In e (log s) -> e_ret e = e_pre e /\ e_post e = effect fadd (m_M c) (e_op e) (e_pre e)) /\
  (forall i t, nth_error (thrs s) i = Some t ->
     t_rets t = map e_ret (mine i (log s)) /\ rev (map e_op (mine i (log s))) ++ t_todo t = nth i progs []).
Proof.
  intros fadd c Hc v0 progs sched s. pose proof (gen_cfg_ok c Hc) as Hok.
  unfold s, st_of. rewrite (run_xrun fadd c Hok).
  destruct (inv_run fadd c v0 progs sched) as (Hch & _ & _ & Hh).
  split; [apply lchain_accept; exact Hch|]. split; [apply (lchain_ret_pre fadd c _ _ _ Hch)|exact Hh].
Qed.

(* increments are never lost: for integer addition (qthread_incr, and fincr/dincr on exactly representable values)
   cell + (increments of the operations not yet completed) = initial + (all increments)  (mod 2^w), at every point
   of every schedule; negative increments are the values 2^w - k. *)
Theorem incr_no_lost_update_all : forall fadd c, In c (cfgs_of gen_shape) ->
  (forall a b, fadd a b = (a + b) mod m_M c) ->
  forall v0 progs sched, Forall (fun p => forallb is_add p = true) progs -> 0 <= v0 < m_M c ->
  let s := st_of fadd c v0 progs sched in
  (cell s + pending (thrs s)) mod m_M c = (v0 + total progs) mod m_M c /\
  (finished s = true -> cell s = (v0 + total progs) mod m_M c).
Proof.
  intros fadd c Hc Hf v0 progs sched Hp Hv s. pose proof (gen_cfg_ok c Hc) as Hok.
  unfold s, st_of. rewrite (run_xrun fadd c Hok).
  destruct (no_lost_update_sum fadd c Hok Hf v0 progs sched Hp) as [H1 H2]. split; [exact H1|].
  intros Hfin. unfold finished in Hfin. rewrite (pending_finished _ Hfin) in H1. rewrite Z.add_0_r in H1.
  rewrite <- H1. symmetry. apply Z.mod_small. apply H2. exact Hv.
Qed.

(* tickets: when every operation adds 1 and at most 2^w operations exist, all returned values are pairwise distinct
   (within a thread and across threads) *)
Theorem incr_distinct_all : forall fadd c, In c (cfgs_of gen_shape) ->
  (forall a b, fadd a b = (a + b) mod m_M c) ->
  forall v0 progs sched, Forall (fun p => forallb plus_one p = true) progs -> 0 <= v0 < m_M c ->
  Z.of_nat (totalN progs) <= m_M c ->
  let s := st_of fadd c v0 progs sched in
  NoDup (map e_ret (log s)) /\
  (forall i t, nth_error (thrs s) i = Some t -> NoDup (t_rets t)) /\
  (forall i j ti tj r, i <> j -> nth_error (thrs s) i = Some ti -> nth_error (thrs s) j = Some tj ->
     In r (t_rets ti) -> ~ In r (t_rets tj)).
Proof.
  intros fadd c Hc Hf v0 progs sched Hp Hv Hn s. pose proof (gen_cfg_ok c Hc) as Hok.
  unfold s, st_of. rewrite (run_xrun fadd c Hok).
  destruct (inv_run fadd c v0 progs sched) as (Hch & _ & _ & Hh).
  destruct (pred_run fadd c plus_one v0 progs sched Hp) as [_ Hl].
  pose proof (count_run fadd c v0 progs sched) as Hcnt. cbv zeta in Hcnt.
  set (s1 := xrun fadd c (init_st v0 progs) sched) in *.
  assert (Hlen : Z.of_nat (length (log s1)) <= m_M c) by lia.
  destruct (chain_plus1 fadd c Hf v0 (log s1) (cell s1) Hv Hch Hl Hlen) as (_ & Hnd & _).
  split; [exact Hnd|]. split.
  - intros i t Hi. destruct (Hh _ _ Hi) as [-> _]. unfold mine.
    clear - Hnd. induction (log s1) as [|e l IH]; simpl; [constructor|].
    simpl in Hnd. inversion Hnd as [|? ? Hnotin Hnd']; subst.
    destruct (Nat.eqb (e_tid e) i); [|auto]. simpl. constructor; [|auto].
    intros Hin. apply Hnotin. apply in_map_iff in Hin. destruct Hin as (x & Hx & Hin). apply filter_In in Hin.
    rewrite <- Hx. apply in_map. tauto.
  - intros i j ti tj r Hij Hi Hj Hri Hrj.
    destruct (Hh _ _ Hi) as [Ei _]. destruct (Hh _ _ Hj) as [Ej _]. rewrite Ei in Hri. rewrite Ej in Hrj.
    apply in_map_iff in Hri. destruct Hri as (e1 & He1 & Hin1). apply in_map_iff in Hrj. destruct Hrj as (e2 & He2 & Hin2).
    unfold mine in *. apply filter_In in Hin1. apply filter_In in Hin2. destruct Hin1 as [Hin1 T1], Hin2 as [Hin2 T2].
    apply Nat.eqb_eq in T1. apply Nat.eqb_eq in T2.
    assert (e1 = e2) by (eapply NoDup_map_inj; eauto; congruence). subst. congruence.
Qed.

(* compare-and-swap: when the cell holds o and any number of threads issue CASes (o -> n_i) with n_i <> o, in every
   schedule exactly one of the completed CASes returns o (succeeds) -- none before the first one completes -- and the
   cell holds the winner's new value *)
Theorem cas_one_winner_all : forall fadd c, In c (cfgs_of gen_shape) ->
  forall o progs sched, Forall (fun p => forallb (cas_on o) p = true) progs ->
  let s := st_of fadd c o progs sched in
  (log s = [] /\ cell s = o) \/
  (cell s <> o /\ length (filter (wins o) (log s)) = 1%nat /\
   exists e n, In e (log s) /\ e_ret e = o /\ e_op e = OCas o n /\ cell s = n).
Proof.
  intros fadd c Hc o progs sched Hp s. pose proof (gen_cfg_ok c Hc) as Hok.
  unfold s, st_of. rewrite (run_xrun fadd c Hok).
  induction sched as [|i l IH] using rev_ind.
  - left. simpl. auto.
  - rewrite xrun_snoc. apply winner_step; [|exact IH]. apply (pred_run fadd c (cas_on o) o progs l Hp).
Qed.

(* lock freedom of the retry loops (system-wide progress): from EVERY state, a window of the schedule in which some
   thread with unfinished work is scheduled three times completes at least one operation (of some thread) ... *)
Theorem cas_loop_lockfree_thread_all : forall fadd c, In c (cfgs_of gen_shape) ->
  forall s i window, unfinished s i -> (3 <= count_occ Nat.eq_dec window i)%nat ->
  (length (log s) < length (log (run fadd c s window)))%nat.
Proof.
  intros fadd c Hc s i w Hu H3. pose proof (gen_cfg_ok c Hc) as Hok. rewrite (run_xrun fadd c Hok).
  apply (progress_rank fadd c w s i Hu). pose proof (rank_le_2 c s i). lia.
Qed.

(* ... hence any window of more than 2*|threads| steps of threads with unfinished work completes an operation *)
Theorem cas_loop_lockfree_all : forall fadd c, In c (cfgs_of gen_shape) ->
  forall s window, (forall i, In i window -> unfinished s i) -> (2 * length (thrs s) < length window)%nat ->
  (length (log s) < length (log (run fadd c s window)))%nat.
Proof.
  intros fadd c Hc s w Hu Hlen.
  destruct (pigeon3 fadd c (length (thrs s)) w) as (i & Hi & H3); [|exact Hlen|].
  - intros i Hi. destruct (Hu i Hi) as (t & o & r & Hn & _). apply nth_error_Some. congruence.
  - eapply cas_loop_lockfree_thread_all; eauto.
Qed.

(* ------------------------------------------------------------------ non-vacuity and the necessity of the shape *)
Definition c32 : mcfg := mkCfg 32 (sh_fincr gen_shape) (sh_incr32 gen_shape) (sh_cas32 gen_shape).
Definition i32 := iadd (2 ^ 32).

(* a contended run: thread 0's first CAS fails because thread 1 got in between; nothing is lost, mixed signs wrap *)
Example ex_contended :
  let s := st_of i32 c32 4294967295 [[OLoop 1; OIncr 4294967294]; [OLoop 2; OIncr 3]] [0; 1; 1; 0; 0; 0; 1; 0]%nat in
  finished s = true /\ cell s = 3 /\ all_rets s = [[1; 5]; [4294967295; 2]] /\ length (log s) = 4%nat.
Proof. vm_compute. repeat split. Qed.

Example ex_tickets :
  let s := st_of i32 c32 7 [[OIncr 1; OLoop 1]; [OLoop 1; OIncr 1]; [OIncr 1]] [1; 0; 1; 2; 1; 1; 0; 0; 1]%nat in
  finished s = true /\ all_rets s = [[7; 10]; [9; 11]; [8]].
Proof. vm_compute. repeat split. Qed.

Example ex_cas_race :
  let s := st_of i32 c32 5 [[OCas 5 1]; [OCas 5 2]; [OCas 5 3]] [1; 2; 0]%nat in
  cell s = 2 /\ all_rets s = [[2]; [5]; [2]].
Proof. vm_compute. repeat split. Qed.

(* the same loop WITHOUT the lock prefix (two micro-steps per cmpxchg) loses an update: the shape obligation is needed *)
Definition unlocked (L : loop_shape) : loop_shape :=
  mkLoop (ls_width L) (ls_is_loop L) (ls_load_dst L) (ls_load_src L) (ls_load_volatile L) (ls_add_dst L) (ls_add_a L)
         (ls_add_b L) AsmCmpxchg (ls_cas_res L) (ls_cas_expect L) (ls_cas_new L) (ls_cas_addr L) (ls_cas_memclob L)
         (ls_cas_intview L) (ls_retry_ne L) (ls_retry_a L) (ls_retry_b L) (ls_retry_intview L) (ls_ret L).
Example unlocked_cmpxchg_refuted : exists sched,
  let s := run i32 (mkCfg 32 (unlocked (sh_fincr gen_shape)) (sh_incr32 gen_shape) (sh_cas32 gen_shape))
               (init_st 0 [[OLoop 1]; [OLoop 1]]) sched in
  finished s = true /\ cell s = 1.
Proof. exists [0; 1; 0; 1; 0; 1]%nat. vm_compute. split; reflexivity. Qed.

(* returning the new value instead of the old one breaks `returned value = cell before the primitive` *)
Definition returning (r : role) (L : loop_shape) : loop_shape :=
  mkLoop (ls_width L) (ls_is_loop L) (ls_load_dst L) (ls_load_src L) (ls_load_volatile L) (ls_add_dst L) (ls_add_a L)
         (ls_add_b L) (ls_prim L) (ls_cas_res L) (ls_cas_expect L) (ls_cas_new L) (ls_cas_addr L) (ls_cas_memclob L)
         (ls_cas_intview L) (ls_retry_ne L) (ls_retry_a L) (ls_retry_b L) (ls_retry_intview L) r.
Example return_new_refuted : exists sched e,
  let s := run i32 (mkCfg 32 (returning RNew (sh_fincr gen_shape)) (sh_incr32 gen_shape) (sh_cas32 gen_shape))
               (init_st 10 [[OLoop 1]]) sched in
  In e (log s) /\ e_ret e <> e_pre e.
Proof. exists [0; 0]%nat. eexists. vm_compute. split; [left; reflexivity|discriminate]. Qed.

(* retrying on equality instead of inequality: a thread whose CAS failed leaves the loop without having added *)
Definition retry_on_eq (L : loop_shape) : loop_shape :=
  mkLoop (ls_width L) (ls_is_loop L) (ls_load_dst L) (ls_load_src L) (ls_load_volatile L) (ls_add_dst L) (ls_add_a L)
         (ls_add_b L) (ls_prim L) (ls_cas_res L) (ls_cas_expect L) (ls_cas_new L) (ls_cas_addr L) (ls_cas_memclob L)
         (ls_cas_intview L) false (ls_retry_a L) (ls_retry_b L) (ls_retry_intview L) (ls_ret L).
Example retry_eq_refuted : exists sched,
  let s := run i32 (mkCfg 32 (retry_on_eq (sh_fincr gen_shape)) (sh_incr32 gen_shape) (sh_cas32 gen_shape))
               (init_st 0 [[OLoop 1]; [OIncr 5]]) sched in
  finished s = true /\ cell s = 5.
Proof. exists [0; 1; 0]%nat. vm_compute. split; reflexivity. Qed.
