(* C18: proofs about the micro-step machine of Atomics/Model.v, for every configuration accepted by mcfg_ok. *)
From Coq Require Import ZArith List Bool Lia Arith.
From QV Require Import Atomics.Model.
Import ListNotations.
Local Open Scope Z_scope.

(* ------------------------------------------------------------------ lists *)
Lemma nth_error_upd_eq : forall A (l : list A) i x t, nth_error l i = Some t -> nth_error (upd l i x) i = Some x.
Proof. induction l as [|a l IH]; intros [|i] x t H; simpl in *; try discriminate; eauto. Qed.

Lemma nth_error_upd_neq : forall A (l : list A) i j x, i <> j -> nth_error (upd l i x) j = nth_error l j.
Proof. induction l as [|a l IH]; intros [|i] [|j] x H; simpl; try reflexivity; try congruence. apply IH; congruence. Qed.

Lemma length_upd : forall A (l : list A) i x, length (upd l i x) = length l.
Proof. induction l as [|a l IH]; intros [|i] x; simpl; auto. Qed.

Lemma run_app : forall fadd c s a b, run fadd c s (a ++ b) = run fadd c (run fadd c s a) b.
Proof. intros. unfold run. apply fold_left_app. Qed.

Lemma role_eqb_true : forall a b, role_eqb a b = true -> a = b.
Proof. destruct a, b; simpl; congruence. Qed.
Lemma carg_eqb_true : forall a b, carg_eqb a b = true -> a = b.
Proof. destruct a, b; simpl; congruence. Qed.

Ltac split_andb := repeat match goal with [ H : _ && _ = true |- _ ] => apply andb_prop in H; destruct H end.

(* ------------------------------------------------------------------ the step of an accepted configuration *)
Section Ok.
  Variable fadd : Z -> Z -> Z.
  Variable c : mcfg.
  Hypothesis Hok : mcfg_ok c = true.
  Let M := m_M c.

  Definition xstep (s : st) (i : nat) : st :=
    match nth_error (thrs s) i with
    | None => s
    | Some t =>
        match t_todo t with
        | [] => s
        | OIncr inc :: rest => complete s i t rest (OIncr inc) ((cell s + inc) mod M) (cell s)
        | OCas o n :: rest => complete s i t rest (OCas o n) (if cell s =? o then n else cell s) (cell s)
        | OLoop inc :: rest =>
            match t_pc t with
            | PLoopCas =>
                if cell s =? t_old t
                then complete s i (setr t RRes (cell s)) rest (OLoop inc) (t_new t) (t_old t)
                else mkSt (cell s) (upd (thrs s) i (set_pc (setr t RRes (cell s)) PIdle)) (log s)
            | _ => mkSt (cell s) (upd (thrs s) i (set_pc (setr (setr t ROld (cell s)) RNew (fadd (cell s) inc)) PLoopCas)) (log s)
            end
        end
    end.

  Lemma M_pos : 0 < M.
  Proof.
    unfold M, m_M. pose proof Hok as H. unfold mcfg_ok in H. split_andb.
    match goal with [ K : (0 <? _) = true |- _ ] => apply Z.ltb_lt in K end. apply Z.pow_pos_nonneg; lia.
  Qed.

  Lemma step_xstep : forall s i, step fadd c s i = xstep s i.
  Proof.
    intros s i. unfold step, xstep.
    destruct (nth_error (thrs s) i) as [t|]; [|reflexivity].
    destruct (t_todo t) as [|[inc|inc|o n] rest]; [reflexivity| | |].
    - (* fetch-add *)
      unfold step_fa. pose proof Hok as H. unfold mcfg_ok, fa_ok in H.
      split_andb.
      match goal with [ K : atomic_fa _ = true |- _ ] => rewrite K end.
      match goal with [ K : cs_returns (m_fa c) = true |- _ ] => rewrite K end. reflexivity.
    - (* loop *)
      unfold step_loop, loop_tail. pose proof Hok as H. unfold mcfg_ok, loop_ok in H.
      split_andb.
      repeat match goal with [ K : role_eqb _ _ = true |- _ ] => apply role_eqb_true in K; rewrite K end.
      match goal with [ K : atomic_cas (ls_prim _) = true |- _ ] => rewrite K end.
      match goal with [ K : ls_retry_ne _ = true |- _ ] => rewrite K end.
      destruct (t_pc t); try reflexivity.
      simpl getr. destruct (cell s =? t_old t) eqn:E; simpl; reflexivity.
    - (* cas *)
      unfold step_cas. pose proof Hok as H. unfold mcfg_ok, cas_ok in H.
      split_andb.
      repeat match goal with [ K : carg_eqb _ _ = true |- _ ] => apply carg_eqb_true in K; rewrite K end.
      match goal with [ K : atomic_cas (cs_prim _) = true |- _ ] => rewrite K end.
      match goal with [ K : cs_returns (m_cas c) = true |- _ ] => rewrite K end. reflexivity.
  Qed.

  Definition xrun (s : st) (sched : list nat) : st := fold_left xstep sched s.
  Lemma run_xrun : forall sched s, run fadd c s sched = xrun s sched.
  Proof. induction sched as [|i l IH]; intros s; simpl; [reflexivity|]. unfold run in *. simpl. rewrite step_xstep. apply IH. Qed.
  Lemma xrun_snoc : forall s l i, xrun s (l ++ [i]) = xstep (xrun s l) i.
  Proof. intros. unfold xrun. rewrite fold_left_app. reflexivity. Qed.

  (* ---------------------------------------------------------------- linearizability *)
  (* the log (newest first) is a sequential history: each completed operation returned the cell content
     immediately before its successful primitive, wrote its sequential effect, and the next one started there *)
  Fixpoint lchain (v0 : Z) (l : list event) (cur : Z) : Prop :=
    match l with
    | [] => cur = v0
    | e :: l' => e_post e = cur /\ e_ret e = e_pre e /\ e_post e = effect fadd M (e_op e) (e_pre e) /\ lchain v0 l' (e_pre e)
    end.

  Definition thr_inv (t : thr) : Prop :=
    t_pc t = PLoopCas -> match t_todo t with OLoop inc :: _ => t_new t = fadd (t_old t) inc | _ => False end.

  Definition mine (i : nat) (l : list event) : list event := filter (fun e => Nat.eqb (e_tid e) i) l.

  (* thread i: returned values and completed operations are exactly its events, in program order *)
  Definition hist_inv (progs : list (list op)) (s : st) : Prop :=
    length (thrs s) = length progs /\
    forall i t, nth_error (thrs s) i = Some t ->
      t_rets t = map e_ret (mine i (log s)) /\
      rev (map e_op (mine i (log s))) ++ t_todo t = nth i progs [].

  Definition inv (v0 : Z) (progs : list (list op)) (s : st) : Prop :=
    lchain v0 (log s) (cell s) /\ (forall i t, nth_error (thrs s) i = Some t -> thr_inv t) /\ hist_inv progs s.

  Lemma inv_init : forall v0 progs, inv v0 progs (init_st v0 progs).
  Proof.
    intros. unfold inv, init_st; simpl. split; [reflexivity|]. split.
    - intros i t H. rewrite nth_error_map in H. destruct (nth_error progs i); inversion H; subst. unfold thr_inv; simpl; discriminate.
    - unfold hist_inv; simpl. split; [apply map_length|]. intros i t H. rewrite nth_error_map in H.
      destruct (nth_error progs i) eqn:E; inversion H; subst; simpl. split; [reflexivity|].
      symmetry. apply nth_error_nth. exact E.
  Qed.

  Lemma mine_cons_eq : forall i e l, e_tid e = i -> mine i (e :: l) = e :: mine i l.
  Proof. intros. unfold mine. simpl. subst. rewrite Nat.eqb_refl. reflexivity. Qed.
  Lemma mine_cons_neq : forall i e l, e_tid e <> i -> mine i (e :: l) = mine i l.
  Proof. intros. unfold mine. simpl. apply Nat.eqb_neq in H. rewrite H. reflexivity. Qed.

  (* a completing step preserves the history invariant *)
  Lemma hist_complete : forall progs s i t rest o post r,
      hist_inv progs s -> nth_error (thrs s) i = Some t -> t_todo t = o :: rest ->
      forall t1, t_rets t1 = t_rets t ->
      hist_inv progs (complete s i t1 rest o post r).
  Proof.
    intros progs s i t rest o post r [Hlen H] Hi Ht t1 Hr. split; [simpl; rewrite length_upd; exact Hlen|].
    intros j tj Hj. simpl in Hj. simpl log.
    destruct (Nat.eq_dec i j) as [->|Hne].
    - rewrite (nth_error_upd_eq _ _ _ _ _ Hi) in Hj. inversion Hj; subst tj. clear Hj.
      rewrite mine_cons_eq by reflexivity. destruct (H _ _ Hi) as [Ha Hb]. simpl. split.
      + rewrite Hr, Ha. reflexivity.
      + rewrite <- Hb, Ht. rewrite <- app_assoc. reflexivity.
    - rewrite nth_error_upd_neq in Hj by exact Hne. rewrite mine_cons_neq by (simpl; exact Hne). apply H. exact Hj.
  Qed.

  (* a step that only changes thread i's registers/pc *)
  Lemma hist_local : forall progs s i t t1 v,
      hist_inv progs s -> nth_error (thrs s) i = Some t -> t_todo t1 = t_todo t -> t_rets t1 = t_rets t ->
      hist_inv progs (mkSt v (upd (thrs s) i t1) (log s)).
  Proof.
    intros progs s i t t1 v [Hlen H] Hi Ht Hr. split; [simpl; rewrite length_upd; exact Hlen|].
    intros j tj Hj. simpl in *. destruct (Nat.eq_dec i j) as [->|Hne].
    - rewrite (nth_error_upd_eq _ _ _ _ _ Hi) in Hj. inversion Hj; subst tj. rewrite Ht, Hr. apply H. exact Hi.
    - rewrite nth_error_upd_neq in Hj by exact Hne. apply H. exact Hj.
  Qed.

  Lemma thr_inv_upd : forall (s : st) i t1,
      (forall j t, nth_error (thrs s) j = Some t -> thr_inv t) -> thr_inv t1 ->
      forall j t, nth_error (upd (thrs s) i t1) j = Some t -> thr_inv t.
  Proof.
    intros s i t1 H H1 j t Hj. destruct (Nat.eq_dec i j) as [->|Hne].
    - destruct (nth_error (thrs s) j) eqn:E.
      + rewrite (nth_error_upd_eq _ _ _ _ _ E) in Hj. inversion Hj; subst; exact H1.
      + assert (nth_error (upd (thrs s) j t1) j = None).
        { apply nth_error_None. rewrite length_upd. apply nth_error_None. exact E. }
        congruence.
    - rewrite nth_error_upd_neq in Hj by exact Hne. eapply H; eauto.
  Qed.

  Lemma inv_step : forall v0 progs s i, inv v0 progs s -> inv v0 progs (xstep s i).
  Proof.
    intros v0 progs s i (Hc & Ht & Hh). unfold xstep.
    destruct (nth_error (thrs s) i) as [t|] eqn:Hi; [|split; [exact Hc|split; [exact Ht|exact Hh]]].
    destruct (t_todo t) as [|[inc|inc|o n] rest] eqn:Htodo; [split; [exact Hc|split; [exact Ht|exact Hh]]| | |].
    - (* OIncr *)
      split; [|split].
      + simpl. repeat split; auto.
      + apply thr_inv_upd; auto. unfold thr_inv, finish; simpl; discriminate.
      + eapply hist_complete; eauto.
    - (* OLoop *)
      destruct (t_pc t) eqn:Hpc.
      2:{ (* at the CAS *)
        destruct (cell s =? t_old t) eqn:E.
        - apply Z.eqb_eq in E. split; [|split].
          + simpl. repeat split; auto. pose proof (Ht _ _ Hi Hpc) as K. rewrite Htodo in K. rewrite K, E. reflexivity.
          + apply thr_inv_upd; auto. unfold thr_inv, finish; simpl; discriminate.
          + eapply hist_complete; eauto.
        - split; [|split].
          + exact Hc.
          + apply thr_inv_upd; auto. unfold thr_inv, set_pc; simpl; discriminate.
          + eapply hist_local; eauto. }
      all: (split; [|split];
            [ exact Hc
            | apply thr_inv_upd; auto; unfold thr_inv, set_pc; simpl; rewrite Htodo; intros _; reflexivity
            | eapply hist_local; eauto ]).
    - (* OCas *)
      split; [|split].
      + simpl. repeat split; auto.
      + apply thr_inv_upd; auto. unfold thr_inv, finish; simpl; discriminate.
      + eapply hist_complete; eauto.
  Qed.

  Lemma inv_run : forall v0 progs sched, inv v0 progs (xrun (init_st v0 progs) sched).
  Proof.
    intros v0 progs sched. induction sched as [|i l IH] using rev_ind; [apply inv_init|].
    rewrite xrun_snoc. apply inv_step. exact IH.
  Qed.

  (* the log read oldest-first is accepted by the sequential specification and ends in the current cell *)
  Lemma lchain_accept : forall v0 l cur, lchain v0 l cur ->
      seq_accept fadd M v0 (rev (map (fun e => (e_op e, e_ret e)) l)) = Some cur.
  Proof.
    intros v0 l. induction l as [|e l IH]; intros cur H; simpl in *.
    - subst; reflexivity.
    - destruct H as (Hp & Hr & He & Hl).
      assert (G : forall h v x, seq_accept fadd M v0 h = Some v ->
                  seq_accept fadd M v0 (h ++ [(e_op e, x)]) = if x =? v then Some (effect fadd M (e_op e) v) else None).
      { clear. intros h. generalize v0. induction h as [|[o r] h IH]; intros v1 v x H; simpl in *.
        - inversion H; subst. destruct (x =? v); reflexivity.
        - destruct (r =? v1); [|discriminate]. apply IH. exact H. }
      rewrite (G _ _ _ (IH _ Hl)). rewrite Hr, Z.eqb_refl, <- He, Hp. reflexivity.
  Qed.

  (* ---------------------------------------------------------------- predicates on operations are inherited *)
  Definition all_todo (P : op -> bool) (s : st) : Prop :=
    forall i t, nth_error (thrs s) i = Some t -> forallb P (t_todo t) = true.
  Definition all_log (P : op -> bool) (s : st) : Prop := forall e, In e (log s) -> P (e_op e) = true.

  Lemma nth_upd_cases : forall A (l : list A) i j x y, nth_error (upd l i x) j = Some y ->
      (i = j /\ y = x /\ exists t, nth_error l i = Some t) \/ (i <> j /\ nth_error l j = Some y).
  Proof.
    intros A l i j x y H. destruct (Nat.eq_dec i j) as [->|Hne].
    - left. destruct (nth_error l j) eqn:E.
      + rewrite (nth_error_upd_eq _ _ _ _ _ E) in H. inversion H. eauto.
      + assert (nth_error (upd l j x) j = None) by (apply nth_error_None; rewrite length_upd; apply nth_error_None; exact E).
        congruence.
    - right. rewrite nth_error_upd_neq in H by exact Hne. auto.
  Qed.

  Lemma pred_step : forall P s i, all_todo P s -> all_log P s -> all_todo P (xstep s i) /\ all_log P (xstep s i).
  Proof.
    intros P s i Ht Hl. unfold xstep.
    destruct (nth_error (thrs s) i) as [t|] eqn:Hi; [|auto].
    destruct (t_todo t) as [|o rest] eqn:Htodo; [auto|].
    pose proof (Ht _ _ Hi) as Hp. rewrite Htodo in Hp. simpl in Hp. apply andb_prop in Hp. destruct Hp as [Hpo Hpr].
    assert (Hcomp : forall t1 post r, all_todo P (complete s i t1 rest o post r) /\ all_log P (complete s i t1 rest o post r)).
    { intros t1 post r. split.
      - intros j tj Hj. simpl in Hj. apply nth_upd_cases in Hj. destruct Hj as [(_ & -> & _)|(_ & Hj)]; [exact Hpr|eauto].
      - intros e [<-|He]; [exact Hpo|auto]. }
    assert (Hloc : forall t1 v, t_todo t1 = t_todo t -> all_todo P (mkSt v (upd (thrs s) i t1) (log s)) /\ all_log P (mkSt v (upd (thrs s) i t1) (log s))).
    { intros t1 v E. split; [|exact Hl].
      intros j tj Hj. simpl in Hj. apply nth_upd_cases in Hj. destruct Hj as [(_ & -> & _)|(_ & Hj)]; [rewrite E; eauto|eauto]. }
    destruct o as [inc|inc|o n]; [apply Hcomp| |apply Hcomp].
    destruct (t_pc t); try (apply Hloc; reflexivity).
    destruct (cell s =? t_old t); [apply Hcomp|apply Hloc; reflexivity].
  Qed.

  Lemma pred_run : forall P v0 progs sched, Forall (fun p => forallb P p = true) progs ->
      all_todo P (xrun (init_st v0 progs) sched) /\ all_log P (xrun (init_st v0 progs) sched).
  Proof.
    intros P v0 progs sched H. induction sched as [|i l IH] using rev_ind.
    - split.
      + intros i t Hi. simpl in Hi. rewrite nth_error_map in Hi. destruct (nth_error progs i) eqn:E; inversion Hi; subst. simpl.
        rewrite Forall_forall in H. apply H. eapply nth_error_In; eauto.
      + intros e [].
    - rewrite xrun_snoc. destruct IH. apply pred_step; auto.
  Qed.

  (* ---------------------------------------------------------------- no lost update *)
  Definition op_inc (o : op) : Z := match o with OIncr i => i | OLoop i => i | OCas _ _ => 0 end.
  Definition is_add (o : op) : bool := match o with OCas _ _ => false | _ => true end.
  Definition osum (l : list op) : Z := fold_right (fun o a => op_inc o + a) 0 l.
  Definition pending (l : list thr) : Z := fold_right (fun t a => osum (t_todo t) + a) 0 l.
  Definition total (progs : list (list op)) : Z := fold_right (fun p a => osum p + a) 0 progs.

  Lemma pending_upd : forall l i t t1, nth_error l i = Some t ->
      pending (upd l i t1) = pending l - osum (t_todo t) + osum (t_todo t1).
  Proof.
    induction l as [|a l IH]; intros [|i] t t1 H; simpl in *; try discriminate.
    - inversion H; subst. lia.
    - rewrite (IH _ _ _ H). lia.
  Qed.

  Lemma pending_init : forall progs, pending (map new_thr progs) = total progs.
  Proof. induction progs as [|p l IH]; simpl; [reflexivity|]. rewrite IH. reflexivity. Qed.

  Section IntegerAdd.
    (* exactly representable floats: the loop's addition agrees with integer addition mod 2^w *)
    Hypothesis Hf : forall a b, fadd a b = (a + b) mod M.

    Lemma nlu_step : forall s i,
        (forall j t, nth_error (thrs s) j = Some t -> thr_inv t) -> all_todo is_add s ->
        (cell (xstep s i) + pending (thrs (xstep s i))) mod M = (cell s + pending (thrs s)) mod M.
    Proof.
      intros s i Ht Ha. unfold xstep.
      destruct (nth_error (thrs s) i) as [t|] eqn:Hi; [|reflexivity].
      destruct (t_todo t) as [|o rest] eqn:Htodo; [reflexivity|].
      pose proof (Ha _ _ Hi) as Hp. rewrite Htodo in Hp. simpl in Hp. apply andb_prop in Hp. destruct Hp as [Hpo _].
      destruct o as [inc|inc|o n]; [| |discriminate].
      - simpl. rewrite (pending_upd _ _ _ _ Hi). rewrite Htodo. simpl.
        rewrite Zplus_mod_idemp_l. f_equal. lia.
      - destruct (t_pc t) eqn:Hpc;
          try (simpl; rewrite (pending_upd _ _ _ _ Hi); simpl; f_equal; lia).
        destruct (cell s =? t_old t) eqn:E.
        + apply Z.eqb_eq in E. simpl. rewrite (pending_upd _ _ _ _ Hi). rewrite Htodo. simpl.
          pose proof (Ht _ _ Hi Hpc) as K. rewrite Htodo in K. rewrite K, Hf, <- E.
          rewrite Zplus_mod_idemp_l. f_equal. lia.
        + simpl. rewrite (pending_upd _ _ _ _ Hi). simpl. f_equal. lia.
    Qed.

    Lemma range_step : forall s i,
        (forall j t, nth_error (thrs s) j = Some t -> thr_inv t) -> all_todo is_add s ->
        0 <= cell s < M -> 0 <= cell (xstep s i) < M.
    Proof.
      intros s i Ht Ha Hr. unfold xstep.
      destruct (nth_error (thrs s) i) as [t|] eqn:Hi; [|exact Hr].
      destruct (t_todo t) as [|o rest] eqn:Htodo; [exact Hr|].
      pose proof (Ha _ _ Hi) as Hp. rewrite Htodo in Hp. simpl in Hp. apply andb_prop in Hp. destruct Hp as [Hpo _].
      destruct o as [inc|inc|o n]; [| |discriminate].
      - simpl. apply Z.mod_pos_bound. apply M_pos.
      - destruct (t_pc t) eqn:Hpc; try exact Hr.
        destruct (cell s =? t_old t) eqn:E; [|exact Hr].
        simpl. pose proof (Ht _ _ Hi Hpc) as K. rewrite Htodo in K. rewrite K, Hf. apply Z.mod_pos_bound. apply M_pos.
    Qed.

    Theorem no_lost_update_sum : forall v0 progs sched,
        Forall (fun p => forallb is_add p = true) progs ->
        let s := xrun (init_st v0 progs) sched in
        (cell s + pending (thrs s)) mod M = (v0 + total progs) mod M /\ (0 <= v0 < M -> 0 <= cell s < M).
    Proof.
      intros v0 progs sched H. induction sched as [|i l IH] using rev_ind.
      - simpl. rewrite pending_init. auto.
      - rewrite xrun_snoc. cbv zeta in *. destruct IH as [IH1 IH2].
        destruct (inv_run v0 progs l) as (_ & Ht & _). destruct (pred_run is_add v0 progs l H) as [Ha _].
        split.
        + rewrite nlu_step; auto.
        + intros Hr. apply range_step; auto.
    Qed.

    Lemma pending_finished : forall l, forallb (fun t => match t_todo t with [] => true | _ => false end) l = true -> pending l = 0.
    Proof.
      induction l as [|t l IH]; simpl; [reflexivity|]. intros H. apply andb_prop in H. destruct H as [H1 H2].
      destruct (t_todo t); [|discriminate]. simpl. rewrite IH by exact H2. reflexivity.
    Qed.

    (* ---------------------------------------------------------------- distinct tickets *)
    Definition plus_one (o : op) : bool := match o with OIncr 1 | OLoop 1 => true | _ => false end.

    Lemma mod_shift_neq : forall a j k, 0 <= j < k -> k < M -> (a + j) mod M <> (a + k) mod M.
    Proof.
      intros a j k Hj Hk E.
      assert (H : ((a + k) - (a + j)) mod M = 0) by (rewrite Zminus_mod, E, Z.sub_diag; apply Zmod_0_l).
      replace (a + k - (a + j)) with (k - j) in H by lia. rewrite Z.mod_small in H by lia. lia.
    Qed.

    Lemma chain_plus1 : forall v0 l cur, 0 <= v0 < M -> lchain v0 l cur ->
        (forall e, In e l -> plus_one (e_op e) = true) -> Z.of_nat (length l) <= M ->
        cur = (v0 + Z.of_nat (length l)) mod M /\ NoDup (map e_ret l) /\
        (forall e, In e l -> exists j, 0 <= j < Z.of_nat (length l) /\ e_ret e = (v0 + j) mod M).
    Proof.
      intros v0 l. induction l as [|e l IH]; intros cur Hv Hc Hp Hn.
      - simpl in *. subst. rewrite Z.add_0_r, Z.mod_small by lia. repeat split; [constructor|intros e []].
      - simpl in Hc. destruct Hc as (Hpost & Hret & Heff & Hl).
        assert (Hn' : Z.of_nat (length l) <= M) by (simpl length in Hn; lia).
        destruct (IH _ Hv Hl (fun e He => Hp e (or_intror He)) Hn') as (Hpre & Hnd & Hall).
        assert (Hlt : Z.of_nat (length l) < M) by (simpl length in Hn; lia).
        split; [|split].
        + rewrite <- Hpost, Heff. pose proof (Hp e (or_introl eq_refl)) as Pe.
          assert (Ef : effect fadd M (e_op e) (e_pre e) = (e_pre e + 1) mod M).
          { destruct (e_op e) as [inc|inc|? ?]; simpl in Pe; try discriminate;
              destruct inc as [|[| |]|]; try discriminate; simpl; [reflexivity|apply Hf]. }
          rewrite Ef, Hpre. rewrite Zplus_mod_idemp_l. f_equal. simpl length. lia.
        + simpl. constructor; [|exact Hnd]. rewrite Hret, Hpre. intros Hin. apply in_map_iff in Hin.
          destruct Hin as (e' & He' & Hin). destruct (Hall _ Hin) as (j & Hj & Ej). rewrite Ej in He'.
          eapply mod_shift_neq; [| |exact He']; lia.
        + intros e' [<-|Hin].
          * exists (Z.of_nat (length l)). split; [simpl length; lia|]. rewrite Hret. exact Hpre.
          * destruct (Hall _ Hin) as (j & Hj & Ej). exists j. split; [simpl length; lia|exact Ej].
    Qed.
  End IntegerAdd.

  (* ---------------------------------------------------------------- one CAS winner *)
  Definition cas_on (o : Z) (p : op) : bool := match p with OCas e n => (e =? o) && negb (n =? o) | _ => false end.
  Definition wins (o : Z) (e : event) : bool := e_ret e =? o.

  Definition winner_inv (o : Z) (s : st) : Prop :=
    (log s = [] /\ cell s = o) \/
    (cell s <> o /\ length (filter (wins o) (log s)) = 1%nat /\
     exists e n, In e (log s) /\ e_ret e = o /\ e_op e = OCas o n /\ cell s = n).

  Lemma winner_step : forall o s i, all_todo (cas_on o) s -> winner_inv o s -> winner_inv o (xstep s i).
  Proof.
    intros o s i Ha Hw. unfold xstep.
    destruct (nth_error (thrs s) i) as [t|] eqn:Hi; [|exact Hw].
    destruct (t_todo t) as [|p rest] eqn:Htodo; [exact Hw|].
    pose proof (Ha _ _ Hi) as Hp. rewrite Htodo in Hp. simpl in Hp. apply andb_prop in Hp. destruct Hp as [Hpo _].
    destruct p as [inc|inc|e n]; try discriminate. simpl in Hpo. apply andb_prop in Hpo. destruct Hpo as [He Hn].
    apply Z.eqb_eq in He. subst e. apply negb_true_iff in Hn. apply Z.eqb_neq in Hn.
    right. destruct Hw as [[Hl Hc]|(Hc & Hcount & e0 & n0 & Hin & Hr & Hop & Hcell)].
    - simpl. rewrite Hc, Z.eqb_refl, Hl. split; [exact Hn|]. split.
      + unfold wins; simpl. rewrite Z.eqb_refl. reflexivity.
      + eexists; exists n. split; [left; reflexivity|]. simpl. auto.
    - simpl. assert (E : (cell s =? o) = false) by (apply Z.eqb_neq; exact Hc). rewrite E. split; [exact Hc|]. split.
      + unfold wins at 1; simpl. rewrite E. exact Hcount.
      + exists e0, n0. auto.
  Qed.

  (* ---------------------------------------------------------------- lock freedom *)
  Definition unfinished (s : st) (i : nat) : Prop := exists t o r, nth_error (thrs s) i = Some t /\ t_todo t = o :: r.

  (* own steps thread i still needs before its next step completes an operation *)
  Definition rank (s : st) (i : nat) : nat :=
    match nth_error (thrs s) i with
    | Some t => match t_todo t with
                | OLoop _ :: _ => match t_pc t with PLoopCas => if cell s =? t_old t then 0 else 2 | _ => 1 end
                | _ => 0
                end
    | None => 0
    end.

  Lemma log_mono_step : forall s u, (length (log s) <= length (log (xstep s u)))%nat.
  Proof.
    intros s u. unfold xstep. destruct (nth_error (thrs s) u) as [t|]; [|lia].
    destruct (t_todo t) as [|[inc|inc|o n] rest]; simpl; try lia.
    destruct (t_pc t); simpl; try lia. destruct (cell s =? t_old t); simpl; lia.
  Qed.
  Lemma log_mono_run : forall l s, (length (log s) <= length (log (xrun s l)))%nat.
  Proof. induction l as [|u l IH]; intros s; simpl; [lia|]. pose proof (log_mono_step s u). pose proof (IH (xstep s u)). unfold xrun in *. lia. Qed.

  (* a step of another thread either completes an operation or leaves the cell and thread i alone *)
  Lemma other_step : forall s u i, u <> i ->
      nth_error (thrs (xstep s u)) i = nth_error (thrs s) i /\
      ((length (log s) < length (log (xstep s u)))%nat \/ cell (xstep s u) = cell s).
  Proof.
    intros s u i Hne. unfold xstep. destruct (nth_error (thrs s) u) as [t|]; [|auto].
    assert (Hcomp : forall t1 rest o post r,
               nth_error (thrs (complete s u t1 rest o post r)) i = nth_error (thrs s) i /\
               ((length (log s) < length (log (complete s u t1 rest o post r)))%nat \/ cell (complete s u t1 rest o post r) = cell s)).
    { intros. simpl. rewrite nth_error_upd_neq by exact Hne. split; [reflexivity|left; lia]. }
    assert (Hloc : forall t1,
               nth_error (thrs (mkSt (cell s) (upd (thrs s) u t1) (log s))) i = nth_error (thrs s) i /\
               ((length (log s) < length (log (mkSt (cell s) (upd (thrs s) u t1) (log s))))%nat \/
                cell (mkSt (cell s) (upd (thrs s) u t1) (log s)) = cell s)).
    { intros. simpl. rewrite nth_error_upd_neq by exact Hne. auto. }
    destruct (t_todo t) as [|[inc|inc|o n] rest]; [auto|apply Hcomp| |apply Hcomp].
    destruct (t_pc t); try apply Hloc.
    destruct (cell s =? t_old t); [apply Hcomp|apply Hloc].
  Qed.

  Lemma own_step : forall s i, unfinished s i ->
      (length (log s) < length (log (xstep s i)))%nat \/
      (unfinished (xstep s i) i /\ S (rank (xstep s i) i) = rank s i /\ length (log (xstep s i)) = length (log s)).
  Proof.
    intros s i (t & o & r & Hi & Htodo). unfold rank, unfinished, xstep. rewrite Hi, Htodo.
    destruct o as [inc|inc|e n]; simpl; try (left; lia).
    destruct (t_pc t) eqn:Hpc; simpl;
      try (right; rewrite (nth_error_upd_eq _ _ _ _ _ Hi); simpl; rewrite Htodo, Z.eqb_refl;
           split; [do 3 eexists; split; reflexivity|split; reflexivity]).
    destruct (cell s =? t_old t) eqn:E; simpl; [left; lia|].
    right. rewrite (nth_error_upd_eq _ _ _ _ _ Hi). simpl. rewrite Htodo.
    split; [do 3 eexists; split; reflexivity|split; reflexivity].
  Qed.

  Lemma progress_rank : forall l s i, unfinished s i -> (rank s i < count_occ Nat.eq_dec l i)%nat ->
      (length (log s) < length (log (xrun s l)))%nat.
  Proof.
    induction l as [|u l IH]; intros s i Hu Hc; simpl in Hc; [lia|].
    change (xrun s (u :: l)) with (xrun (xstep s u) l).
    destruct (Nat.eq_dec u i) as [->|Hne].
    - destruct (own_step s i Hu) as [Hg|(Hu' & Hr & Hl)].
      + pose proof (log_mono_run l (xstep s i)). lia.
      + rewrite <- Hl. apply (IH _ i Hu'). lia.
    - destruct (other_step s u i Hne) as [Hsame [Hg|Hcell]].
      + pose proof (log_mono_run l (xstep s u)). lia.
      + pose proof (log_mono_step s u) as Hm.
        assert (Hu' : unfinished (xstep s u) i) by (unfold unfinished in *; rewrite Hsame; exact Hu).
        assert (Hr : rank (xstep s u) i = rank s i) by (unfold rank; rewrite Hsame, Hcell; reflexivity).
        pose proof (IH (xstep s u) i Hu'). lia.
  Qed.

  Lemma rank_le_2 : forall s i, (rank s i <= 2)%nat.
  Proof.
    intros. unfold rank. destruct (nth_error (thrs s) i) as [t|]; [|lia].
    destruct (t_todo t) as [|[| |] ?]; try lia. destruct (t_pc t); try lia. destruct (cell s =? t_old t); lia.
  Qed.

  (* pigeonhole: more than 2n steps of n threads contain three steps of one thread *)
  Lemma count_filter_ne : forall (l : list nat) n,
      (length (filter (fun x => negb (Nat.eqb x n)) l) + count_occ Nat.eq_dec l n = length l)%nat.
  Proof.
    induction l as [|a l IH]; intros n; simpl; [reflexivity|].
    destruct (Nat.eq_dec a n) as [->|Hne].
    - rewrite Nat.eqb_refl. simpl. specialize (IH n). lia.
    - apply Nat.eqb_neq in Hne. rewrite Hne. simpl. specialize (IH n). lia.
  Qed.
  Lemma count_filter_le : forall (l : list nat) n i,
      (count_occ Nat.eq_dec (filter (fun x => negb (Nat.eqb x n)) l) i <= count_occ Nat.eq_dec l i)%nat.
  Proof.
    induction l as [|a l IH]; intros n i; simpl; [lia|].
    destruct (Nat.eqb a n); simpl; destruct (Nat.eq_dec a i); specialize (IH n i); lia.
  Qed.
  Lemma pigeon3 : forall n (l : list nat), (forall i, In i l -> (i < n)%nat) -> (2 * n < length l)%nat ->
      exists i, In i l /\ (3 <= count_occ Nat.eq_dec l i)%nat.
  Proof.
    induction n as [|n IH]; intros l Hb Hlen.
    - destruct l as [|a l]; [simpl in Hlen; lia|]. specialize (Hb a (or_introl eq_refl)). lia.
    - destruct (le_lt_dec 3 (count_occ Nat.eq_dec l n)) as [H3|H3].
      + exists n. split; [|exact H3]. apply (count_occ_In Nat.eq_dec). lia.
      + set (l' := filter (fun x => negb (Nat.eqb x n)) l).
        assert (Hb' : forall i, In i l' -> (i < n)%nat).
        { intros i Hi. apply filter_In in Hi. destruct Hi as [Hi Hn]. apply negb_true_iff, Nat.eqb_neq in Hn.
          specialize (Hb i Hi). lia. }
        pose proof (count_filter_ne l n) as Hc. fold l' in Hc.
        destruct (IH l' Hb') as (i & Hi & H3'); [lia|].
        exists i. split; [apply filter_In in Hi; tauto|]. pose proof (count_filter_le l n i). fold l' in H. lia.
  Qed.

  (* ---------------------------------------------------------------- counting completed operations *)
  Definition pendingN (l : list thr) : nat := fold_right (fun t a => (length (t_todo t) + a)%nat) 0%nat l.
  Definition totalN (progs : list (list op)) : nat := fold_right (fun p a => (length p + a)%nat) 0%nat progs.

  Lemma pendingN_upd : forall l i t t1, nth_error l i = Some t ->
      (pendingN (upd l i t1) + length (t_todo t) = pendingN l + length (t_todo t1))%nat.
  Proof.
    induction l as [|a l IH]; intros [|i] t t1 H; simpl in *; try discriminate.
    - inversion H; subst. lia.
    - specialize (IH _ _ t1 H). lia.
  Qed.

  Lemma count_step : forall s i,
      (length (log (xstep s i)) + pendingN (thrs (xstep s i)) = length (log s) + pendingN (thrs s))%nat.
  Proof.
    intros s i. unfold xstep. destruct (nth_error (thrs s) i) as [t|] eqn:Hi; [|reflexivity].
    destruct (t_todo t) as [|o rest] eqn:Htodo; [reflexivity|].
    assert (Hcomp : forall t1 post r, (length (log (complete s i t1 rest o post r)) + pendingN (thrs (complete s i t1 rest o post r))
                                       = length (log s) + pendingN (thrs s))%nat).
    { intros. simpl. pose proof (pendingN_upd _ _ _ (finish t1 rest r) Hi) as K. rewrite Htodo in K. simpl in K. lia. }
    assert (Hloc : forall t1 v, t_todo t1 = t_todo t ->
                                (length (log (mkSt v (upd (thrs s) i t1) (log s))) + pendingN (thrs (mkSt v (upd (thrs s) i t1) (log s)))
                                 = length (log s) + pendingN (thrs s))%nat).
    { intros t1 v E. simpl. pose proof (pendingN_upd _ _ _ t1 Hi) as K. rewrite E in K. lia. }
    destruct o as [inc|inc|o n]; [apply Hcomp| |apply Hcomp].
    destruct (t_pc t); try (apply Hloc; reflexivity).
    destruct (cell s =? t_old t); [apply Hcomp|apply Hloc; reflexivity].
  Qed.

  Lemma count_run : forall v0 progs sched,
      let s := xrun (init_st v0 progs) sched in (length (log s) + pendingN (thrs s) = totalN progs)%nat.
  Proof.
    intros v0 progs sched. induction sched as [|i l IH] using rev_ind.
    - simpl. induction progs as [|p ps IHp]; simpl; [reflexivity|]. simpl in IHp. rewrite IHp. reflexivity.
    - rewrite xrun_snoc. cbv zeta in *. rewrite count_step. exact IH.
  Qed.

  Lemma lchain_ret_pre : forall v0 l cur, lchain v0 l cur -> forall e, In e l -> e_ret e = e_pre e /\ e_post e = effect fadd M (e_op e) (e_pre e).
  Proof.
    intros v0 l. induction l as [|a l IH]; intros cur H e He; [destruct He|].
    simpl in H. destruct H as (_ & Hr & Hp & Hl). destruct He as [<-|He]; [auto|eapply IH; eauto].
  Qed.

  Lemma NoDup_map_inj : forall A B (f : A -> B) (l : list A) x y, NoDup (map f l) -> In x l -> In y l -> f x = f y -> x = y.
  Proof.
    intros A B f l. induction l as [|a l IH]; intros x y Hn Hx Hy E; [destruct Hx|].
    simpl in Hn. inversion Hn as [|? ? Hnotin Hn']; subst.
    destruct Hx as [<-|Hx], Hy as [<-|Hy]; auto.
    - exfalso. apply Hnotin. rewrite E. apply in_map. exact Hy.
    - exfalso. apply Hnotin. rewrite <- E. apply in_map. exact Hx.
  Qed.
End Ok.
