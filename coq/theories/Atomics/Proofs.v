(* C18: proofs about the micro-step machine of Atomics/Model.v, for every configuration accepted by mcfg_ok. *)
From Coq Require Import ZArith List Bool Lia Arith.
From QV Require Import Atomics.Model.
Import ListNotations.
Local Open Scope Z_scope.

(* ------------------------------------------------------------------ lists *)
Lemma nth_error_upd_eq : forall A (l : list A) i x t, nth_error l i = Some t -> nth_error (upd l i x) i = Some x.
Proof. induction l as [|a l IH]; intros [|i] x t H; simpl in *; try discriminate; eauto. Qed.

Lemma nth_error_upd_neq : forall A (l : list A) i j x, i <> j -> nth_error (upd l i x) j = nth_error l j.
Proof. induction l as [|a l IH]; intros [|i] [|j] x H; simpl; try reflexivity; try congruence. apply IH; congruence. Qed.

Lemma length_upd : forall A (l : list A) i x, length (upd l i x) = length l.
Proof. induction l as [|a l IH]; intros [|i] x; simpl; auto. Qed.

Lemma run_app : forall fadd c s a b, run fadd c s (a ++ b) = run fadd c (run fadd c s a) b.
Proof. intros. unfold run. apply fold_left_app. Qed.

Lemma role_eqb_true : forall a b, role_eqb a b = true -> a = b.
Proof. destruct a, b; simpl; congruence. Qed.
Lemma carg_eqb_true : forall a b, carg_eqb a b = true -> a = b.
Proof. destruct a, b; simpl; congruence. Qed.

Ltac split_andb := repeat match goal with [ H : _ && _ = true |- _ ] => apply andb_prop in H; destruct H end.

(* ------------------------------------------------------------------ the step of an accepted configuration *)
Section Ok.
  Variable fadd : Z -> Z -> Z.
  Variable c : mcfg.
  Hypothesis Hok : mcfg_ok c = true.
  Let M := m_M c.

  Definition xstep (s : st) (i : nat) : st :=
    match nth_error (thrs s) i with
    | None => s
    | Some t =>
        match t_todo t with
        | [] => s
        | OIncr inc :: rest => complete s i t rest (OIncr inc) ((cell s + inc) mod M) (cell s)
        | OCas o n :: rest => complete s i t rest (OCas o n) (if cell s =? o then n else cell s) (cell s)
        | OLoop inc :: rest =>
            match t_pc t with
            | PLoopCas =>
                if cell s =? t_old t
                then complete s i (setr t RRes (cell s)) rest (OLoop inc) (t_new t) (t_old t)
                else mkSt (cell s) (upd (thrs s) i (set_pc (setr t RRes (cell s)) PIdle)) (log s)
            | _ => mkSt (cell s) (upd (thrs s) i (set_pc (setr (setr t ROld (cell s)) RNew (fadd (cell s) inc)) PLoopCas)) (log s)
            end
        end
    end.

  Lemma M_pos : 0 < M.
  Proof.
    unfold M, m_M. pose proof Hok as H. unfold mcfg_ok in H. split_andb.
    match goal with [ K : (0 <? _) = true |- _ ] => apply Z.ltb_lt in K end. apply Z.pow_pos_nonneg; lia.
  Qed.

  Lemma step_xstep : forall s i, step fadd c s i = xstep s i.
  Proof.
    intros s i. unfold step, xstep.
    destruct (nth_error (thrs s) i) as [t|]; [|reflexivity].
    destruct (t_todo t) as [|[inc|inc|o n] rest]; [reflexivity| | |].
    - (* fetch-add *)
      unfold step_fa. pose proof Hok as H. unfold mcfg_ok, fa_ok in H.
      split_andb.
      match goal with [ K : atomic_fa _ = true |- _ ] => rewrite K end.
      match goal with [ K : cs_returns (m_fa c) = true |- _ ] => rewrite K end. reflexivity.
    - (* loop *)
      unfold step_loop, loop_tail. pose proof Hok as H. unfold mcfg_ok, loop_ok in H.
      split_andb.
      repeat match goal with [ K : role_eqb _ _ = true |- _ ] => apply role_eqb_true in K; rewrite K end.
      match goal with [ K : atomic_cas (ls_prim _) = true |- _ ] => rewrite K end.
      match goal with [ K : ls_retry_ne _ = true |- _ ] => rewrite K end.
      destruct (t_pc t); try reflexivity.
      simpl getr. destruct (cell s =? t_old t) eqn:E; simpl; reflexivity.
    - (* cas *)
      unfold step_cas. pose proof Hok as H. unfold mcfg_ok, cas_ok in H.
      split_andb.
      repeat match goal with [ K : carg_eqb _ _ = true |- _ ] => apply carg_eqb_true in K; rewrite K end.
      match goal with [ K : atomic_cas (cs_prim _) = true |- _ ] => rewrite K end.
      match goal with [ K : cs_returns (m_cas c) = true |- _ ] => rewrite K end. reflexivity.
  Qed.

  Definition xrun (s : st) (sched : list nat) : st := fold_left xstep sched s.
  Lemma run_xrun : forall sched s, run fadd c s sched = xrun s sched.
  Proof. induction sched as [|i l IH]; intros s; simpl; [reflexivity|]. unfold run in *. simpl. rewrite step_xstep. apply IH. Qed.
  Lemma xrun_snoc : forall s l i, xrun s (l ++ [i]) = xstep (xrun s l) i.
  Proof. intros. unfold xrun. rewrite fold_left_app. reflexivity. Qed.

  (* ---------------------------------------------------------------- linearizability *)
  (* the log (newest first) is a sequential history: each completed operation returned the cell content
     immediately before its successful primitive, wrote its sequential effect, and the next one started there *)
  Fixpoint lchain (v0 : Z) (l : list event) (cur : Z) : Prop :=
    match l with
    | [] => cur = v0
    | e :: l' => e_post e = cur /\ e_ret e = e_pre e /\ e_post e = effect fadd M (e_op e) (e_pre e) /\ lchain v0 l' (e_pre e)
    end.

  Definition thr_inv (t : thr) : Prop :=
    t_pc t = PLoopCas -> match t_todo t with OLoop inc :: _ => t_new t = fadd (t_old t) inc | _ => False end.

  Definition mine (i : nat) (l : list event) : list event := filter (fun e => Nat.eqb (e_tid e) i) l.

  (* thread i: returned values and completed operations are exactly its events, in program order *)
  Definition hist_inv (progs : list (list op)) (s : st) : Prop :=
    length (thrs s) = length progs /\
    forall i t, nth_error (thrs s) i = Some t ->
      t_rets t = map e_ret (mine i (log s)) /\
      rev (map e_op (mine i (log s))) ++ t_todo t = nth i progs [].

  Definition inv (v0 : Z) (progs : list (list op)) (s : st) : Prop :=
    lchain v0 (log s) (cell s) /\ (forall i t, nth_error (thrs s) i = Some t -> thr_inv t) /\ hist_inv progs s.

  Lemma inv_init : forall v0 progs, inv v0 progs (init_st v0 progs).
  Proof.
    intros. unfold inv, init_st; simpl. split; [reflexivity|]. split.
    - intros i t H. rewrite nth_error_map in H. destruct (nth_error progs i); inversion H; subst. unfold thr_inv; simpl; discriminate.
    - unfold hist_inv; simpl. split; [apply map_length|]. intros i t H. rewrite nth_error_map in H.
      destruct (nth_error progs i) eqn:E; inversion H; subst; simpl. split; [reflexivity|].
      symmetry. apply nth_error_nth. exact E.
  Qed.

  Lemma mine_cons_eq : forall i e l, e_tid e = i -> mine i (e :: l) = e :: mine i l.
  Proof. intros. unfold mine. simpl. subst. rewrite Nat.eqb_refl. reflexivity. Qed.
  Lemma mine_cons_neq : forall i e l, e_tid e <> i -> mine i (e :: l) = mine i l.
  Proof. intros. unfold mine. simpl. apply Nat.eqb_neq in H. rewrite H. reflexivity. Qed.

  (* a completing step preserves the history invariant *)
  Lemma hist_complete : forall progs s i t rest o post r,
      hist_inv progs s -> nth_error (thrs s) i = Some t -> t_todo t = o :: rest ->
      forall t1, t_rets t1 = t_rets t ->
      hist_inv progs (complete s i t1 rest o post r).
  Proof.
    intros progs s i t rest o post r [Hlen H] Hi Ht t1 Hr. split; [simpl; rewrite length_upd; exact Hlen|].
    intros j tj Hj. simpl in Hj. simpl log.
    destruct (Nat.eq_dec i j) as [->|Hne].
    - rewrite (nth_error_upd_eq _ _ _ _ _ Hi) in Hj. inversion Hj; subst tj. clear Hj.
      rewrite mine_cons_eq by reflexivity. destruct (H _ _ Hi) as [Ha Hb]. simpl. split.
      + rewrite Hr, Ha. reflexivity.
      + rewrite <- Hb, Ht. rewrite <- app_assoc. reflexivity.
    - rewrite nth_error_upd_neq in Hj by exact Hne. rewrite mine_cons_neq by (simpl; exact Hne). apply H. exact Hj.
  Qed.

  (* a step that only changes thread i's registers/pc *)
  Lemma hist_local : forall progs s i t t1 v,
      hist_inv progs s -> nth_error (thrs s) i = Some t -> t_todo t1 = t_todo t -> t_rets t1 = t_rets t ->
      hist_inv progs (mkSt v (upd (thrs s) i t1) (log s)).
  Proof.
    intros progs s i t t1 v [Hlen H] Hi Ht Hr. split; [simpl; rewrite length_upd; exact Hlen|].
    intros j tj Hj. simpl in *. destruct (Nat.eq_dec i j) as [->|Hne].
    - rewrite (nth_error_upd_eq _ _ _ _ _ Hi) in Hj. inversion Hj; subst tj. rewrite Ht, Hr. apply H. exact Hi.
    - rewrite nth_error_upd_neq in Hj by exact Hne. apply H. exact Hj.
  Qed.

  Lemma thr_inv_upd : forall (s : st) i t1,
      (forall j t, nth_error (thrs s) j = Some t -> thr_inv t) -> thr_inv t1 ->
      forall j t, nth_error (upd (thrs s) i t1) j = Some t -> thr_inv t.
  Proof.
    intros s i t1 H H1 j t Hj. destruct (Nat.eq_dec i j) as [->|Hne].
    - destruct (nth_error (thrs s) j) eqn:E.
      + rewrite (nth_error_upd_eq _ _ _ _ _ E) in Hj. inversion Hj; subst; exact H1.
      + assert (nth_error (upd (thrs s) j t1) j = None).
        { apply nth_error_None. rewrite length_upd. apply nth_error_None. exact E. }
        congruence.
    - rewrite nth_error_upd_neq in Hj by exact Hne. eapply H; eauto.
  Qed.

  Lemma inv_step : forall v0 progs s i, inv v0 progs s -> inv v0 progs (xstep s i).
  Proof.
    intros v0 progs s i (Hc & Ht & Hh). unfold xstep.
    destruct (nth_error (thrs s) i) as [t|] eqn:Hi; [|split; [exact Hc|split; [exact Ht|exact Hh]]].
    destruct (t_todo t) as [|[inc|inc|o n] rest] eqn:Htodo; [split; [exact Hc|split; [exact Ht|exact Hh]]| | |].
    - (* OIncr *)
      split; [|split].
      + simpl. repeat split; auto.
      + apply thr_inv_upd; auto. unfold thr_inv, finish; simpl; discriminate.
      + eapply hist_complete; eauto.
    - (* OLoop *)
      destruct (t_pc t) eqn:Hpc.
      2:{ (* at the CAS *)
        destruct (cell s =? t_old t) eqn:E.
        - apply Z.eqb_eq in E. split; [|split].
          + simpl. repeat split; auto. pose proof (Ht _ _ Hi Hpc) as K. rewrite Htodo in K. rewrite K, E. reflexivity.
          + apply thr_inv_upd; auto. unfold thr_inv, finish; simpl; discriminate.
          + eapply hist_complete; eauto.
        - split; [|split].
          + exact Hc.
          + apply thr_inv_upd; auto. unfold thr_inv, set_pc; simpl; discriminate.
          + eapply hist_local; eauto. }
      all: (split; [|split];
            [ exact Hc
            | apply thr_inv_upd; auto; unfold thr_inv, set_pc; simpl; rewrite Htodo; intros _; reflexivity
            | eapply hist_local; eauto ]).
    - (* OCas *)
      split; [|split].
      + simpl. repeat split; auto.
      + apply thr_inv_upd; auto. unfold thr_inv, finish; simpl; discriminate.
      + eapply hist_complete; eauto.
  Qed.

  Lemma inv_run : forall v0 progs sched, inv v0 progs (xrun (init_st v0 progs) sched).
  Proof.
    intros v0 progs sched. induction sched as [|i l IH] using rev_ind; [apply inv_init|].
    rewrite xrun_snoc. apply inv_step. exact IH.
  Qed.

  (* the log read oldest-first is accepted by the sequential specification and ends in the current cell *)
  Lemma lchain_accept : forall v0 l cur, lchain v0 l cur ->
      seq_accept fadd M v0 (rev (map (fun e => (e_op e, e_ret e)) l)) = Some cur.
  Proof.
    intros v0 l. induction l as [|e l IH]; intros cur H; simpl in *.
    - subst; reflexivity.
    - destruct H as (Hp & Hr & He & Hl).
      assert (G : forall h v x, seq_accept fadd M v0 h = Some v ->
                  seq_accept fadd M v0 (h ++ [(e_op e, x)]) = if x =? v then Some (effect fadd M (e_op e) v) else None).
      { clear. intros h. generalize v0. induction h as [|[o r] h IH]; intros v1 v x H; simpl in *.
        - inversion H; subst. destruct (x =? v); reflexivity.
        - destruct (r =? v1); [|discriminate]. apply IH. exact H. }
      rewrite (G _ _ _ (IH _ Hl)). rewrite Hr, Z.eqb_refl, <- He, Hp. reflexivity.
  Qed.
End Ok.
