(* GENERATED on every run by lib/verif/props/c18_shape.py from include/qthread/qthread.h preprocessed with the
   repo's configuration -- do not edit.  Source facts (for the reader):
     asm_dincr: lock; cmpxchgq %1, (%2)
     asm_fincr: lock; cmpxchg %1, (%2)
     macro_cas: __sync_val_compare_and_swap((ADDR), (OLDV), (NEWV))
     macro_cas32: __sync_val_compare_and_swap((ADDR), (OLDV), (NEWV))
     macro_cas64: __sync_val_compare_and_swap((ADDR), (OLDV), (NEWV))
     macro_cas_ptr: (void * )__sync_val_compare_and_swap((ADDR), (OLDV), (NEWV))
     macro_incr: __sync_fetch_and_add(ADDR, INCVAL)
*)
From Coq Require Import ZArith.
From QV Require Import Atomics.Model.
Local Open Scope Z_scope.

Definition gen_shape : shape :=
  mkShape false
    (mkLoop 32 true ROld ROperand true RNew ROld RInc AsmLockCmpxchg RRes ROld RNew ROperand true true true RRes ROld true ROld)
    (mkLoop 64 true ROld ROperand true RNew ROld RInc AsmLockCmpxchg RRes ROld RNew ROperand true true true RRes ROld true ROld)
    (mkCall BuiltinFetchAdd AAddr AInc ANone true)
    (mkCall BuiltinFetchAdd AAddr AInc ANone true)
    (mkCall BuiltinFetchAdd AAddr AInc ANone true)
    true
    (mkCall BuiltinCAS AAddr AOld ANew true)
    (mkCall BuiltinCAS AAddr AOld ANew true)
    (mkCall BuiltinCAS AAddr AOld ANew true)
    (mkCall BuiltinCAS AAddr AOld ANew true).
