From Coq Require Import ZArith List.
From QV Require Import Atomics.Model Atomics.GenShape.
Require Extraction.
Require Import ExtrOcamlBasic.
Extraction Language OCaml.
Extraction "../ocaml/gen/c18_model.ml" gen_shape cfgs_of shape_ok mcfg_ok init_st run step finished all_rets seq_accept effect iadd.
