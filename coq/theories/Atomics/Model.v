(* C18 atomic read-modify-write primitives: executable micro-step model (definitions only).

   One shared memory cell of width w (values are Z in [0, 2^w), M = 2^w).  The hardware/compiler
   contract is ASSUMED, not proved: a `lock`-prefixed cmpxchg/xadd instruction and the __sync_* builtins
   execute as ONE step of this machine.  What is modelled and proved is the code AROUND the primitive:
   which primitive each API name expands to, the CAS-retry loop of qthread_fincr/qthread_dincr
   (load; add; CAS; retry-condition; returned variable) -- read from include/qthread/qthread.h on every
   run into GenShape.v (lib/verif/props/c18_shape.py).

   The machine is an interpreter of that shape, so that a mutated shape (no lock prefix, other retry
   condition, other returned variable) has a semantics too (used for the refutation examples); the theorems
   are proved for the shapes accepted by `mcfg_ok`.                                                          *)
From Coq Require Import ZArith List Bool.
Import ListNotations.
Local Open Scope Z_scope.

(* ------------------------------------------------------------------ the shape read from the source *)
(* local variables of the retry loop by order of first assignment: 1st = ROld, 2nd = RNew, 3rd = RRes *)
Inductive role := ROld | RNew | RRes | RInc | ROperand | RUnknown.

Inductive primk :=
| AsmLockCmpxchg      (* __asm__ "lock; cmpxchg{,l,q} %1, (%2)" *)
| AsmCmpxchg          (* the same without the lock prefix: not atomic on SMP *)
| BuiltinCAS          (* __sync_val_compare_and_swap *)
| BuiltinFetchAdd     (* __sync_fetch_and_add *)
| AsmLockXadd         (* "lock; xadd" *)
| AsmXadd
| PlainRMW            (* an ordinary C read-modify-write *)
| MutexCall           (* qthread_*_ of compat_atomics.c (QTHREAD_MUTEX_INCREMENT) *)
| PrimUnknown.

Record loop_shape := mkLoop {
  ls_width        : Z;       (* bits of the integer view that is compared and swapped *)
  ls_is_loop      : bool;    (* do { ... } while (...) with exactly load; add; cas in the body *)
  ls_load_dst     : role;    (* oldval.f = *(volatile float * )operand *)
  ls_load_src     : role;
  ls_load_volatile: bool;
  ls_add_dst      : role;    (* newval.f = oldval.f + incr *)
  ls_add_a        : role;
  ls_add_b        : role;
  ls_prim         : primk;
  ls_cas_res      : role;    (* "=a"(retval.i) / value of the builtin *)
  ls_cas_expect   : role;    (* "0"(oldval.i): accumulator on entry *)
  ls_cas_new      : role;    (* %1 *)
  ls_cas_addr     : role;    (* (%2) *)
  ls_cas_memclob  : bool;    (* "memory" clobber (compiler barrier) *)
  ls_cas_intview  : bool;    (* every CAS operand is the integer member of the union *)
  ls_retry_ne     : bool;    (* while (a != b) *)
  ls_retry_a      : role;
  ls_retry_b      : role;
  ls_retry_intview: bool;    (* compared as bit patterns (.i), not as floats *)
  ls_ret          : role     (* return oldval.f *)
}.

Inductive carg := AAddr | AOld | ANew | AInc | ANone | AOther.

(* a function body / macro that is a single call of a primitive *)
Record call_shape := mkCall {
  cs_prim    : primk;
  cs_a0      : carg;
  cs_a1      : carg;
  cs_a2      : carg;
  cs_returns : bool      (* the value of the primitive is the value of the function/macro *)
}.

Record shape := mkShape {
  sh_mutex_increment : bool;      (* QTHREAD_MUTEX_INCREMENT defined (then compat_atomics.c is what runs) *)
  sh_fincr   : loop_shape;
  sh_dincr   : loop_shape;
  sh_incr32  : call_shape;
  sh_incr64  : call_shape;
  sh_incr    : call_shape;        (* macro qthread_incr *)
  sh_xx32    : bool;              (* qthread_incr_xx: case 4 -> qthread_incr32, case 8 -> qthread_incr64 *)
  sh_cas     : call_shape;        (* macros *)
  sh_cas32   : call_shape;
  sh_cas64   : call_shape;
  sh_cas_ptr : call_shape
}.

Definition role_eqb (a b : role) : bool :=
  match a, b with
  | ROld, ROld | RNew, RNew | RRes, RRes | RInc, RInc | ROperand, ROperand | RUnknown, RUnknown => true
  | _, _ => false
  end.
Definition carg_eqb (a b : carg) : bool :=
  match a, b with
  | AAddr, AAddr | AOld, AOld | ANew, ANew | AInc, AInc | ANone, ANone | AOther, AOther => true
  | _, _ => false
  end.

Definition atomic_cas (p : primk) : bool := match p with AsmLockCmpxchg | BuiltinCAS => true | _ => false end.
Definition plain_cas (p : primk) : bool := match p with AsmCmpxchg => true | _ => false end.
Definition atomic_fa (p : primk) : bool := match p with BuiltinFetchAdd | AsmLockXadd => true | _ => false end.
Definition plain_fa (p : primk) : bool := match p with AsmXadd | PlainRMW => true | _ => false end.

(* the shapes the proofs cover *)
Definition loop_ok (w : Z) (L : loop_shape) : bool :=
  (ls_width L =? w) && ls_is_loop L &&
  role_eqb (ls_load_dst L) ROld && role_eqb (ls_load_src L) ROperand && ls_load_volatile L &&
  role_eqb (ls_add_dst L) RNew && role_eqb (ls_add_a L) ROld && role_eqb (ls_add_b L) RInc &&
  atomic_cas (ls_prim L) &&
  role_eqb (ls_cas_res L) RRes && role_eqb (ls_cas_expect L) ROld && role_eqb (ls_cas_new L) RNew &&
  role_eqb (ls_cas_addr L) ROperand && ls_cas_memclob L && ls_cas_intview L &&
  ls_retry_ne L && role_eqb (ls_retry_a L) RRes && role_eqb (ls_retry_b L) ROld && ls_retry_intview L &&
  role_eqb (ls_ret L) ROld.

Definition fa_ok (C : call_shape) : bool :=
  atomic_fa (cs_prim C) && carg_eqb (cs_a0 C) AAddr && carg_eqb (cs_a1 C) AInc && carg_eqb (cs_a2 C) ANone && cs_returns C.

Definition cas_ok (C : call_shape) : bool :=
  atomic_cas (cs_prim C) && carg_eqb (cs_a0 C) AAddr && carg_eqb (cs_a1 C) AOld && carg_eqb (cs_a2 C) ANew && cs_returns C.

(* ------------------------------------------------------------------ machine *)
(* configuration of one machine: the cell width and which shape each operation kind runs *)
Record mcfg := mkCfg {
  m_bits : Z;
  m_loop : loop_shape;     (* OLoop: qthread_fincr (32) / qthread_dincr (64) *)
  m_fa   : call_shape;     (* OIncr: qthread_incr / qthread_incr32 / qthread_incr64 *)
  m_cas  : call_shape      (* OCas : qthread_cas / cas32 / cas64 / cas_ptr *)
}.
Definition m_M (c : mcfg) : Z := 2 ^ m_bits c.
Definition mcfg_ok (c : mcfg) : bool :=
  (0 <? m_bits c) && loop_ok (m_bits c) (m_loop c) && fa_ok (m_fa c) && cas_ok (m_cas c).

(* the machines of the configured library: every API name of the property appears in one of them *)
Definition cfgs_of (sh : shape) : list mcfg :=
  [ mkCfg 32 (sh_fincr sh) (sh_incr32 sh) (sh_cas32 sh);
    mkCfg 32 (sh_fincr sh) (sh_incr sh)   (sh_cas sh);
    mkCfg 64 (sh_dincr sh) (sh_incr64 sh) (sh_cas64 sh);
    mkCfg 64 (sh_dincr sh) (sh_incr sh)   (sh_cas sh);
    mkCfg 64 (sh_dincr sh) (sh_incr sh)   (sh_cas_ptr sh) ].
Definition shape_ok (sh : shape) : bool :=
  negb (sh_mutex_increment sh) && sh_xx32 sh && forallb mcfg_ok (cfgs_of sh).

Inductive op :=
| OIncr (inc : Z)       (* integer fetch-and-add, wraps mod 2^w *)
| OLoop (inc : Z)       (* CAS-retry loop adding with fadd (float/double on bit patterns) *)
| OCas (o n : Z).       (* compare-and-swap, returns the value found *)

Inductive pc := PIdle | PLoopCas | PLoopCasW | PFaW | PCasW.

Record thr := mkThr {
  t_todo : list op;
  t_pc   : pc;
  t_old  : Z;
  t_new  : Z;
  t_res  : Z;
  t_rets : list Z        (* values returned so far, newest first *)
}.

(* ghost record of a completed operation: cell before / after the completing step *)
Record event := mkEv { e_tid : nat; e_op : op; e_pre : Z; e_post : Z; e_ret : Z }.

Record st := mkSt { cell : Z; thrs : list thr; log : list event (* newest first *) }.

Fixpoint upd {A} (l : list A) (i : nat) (x : A) : list A :=
  match l, i with
  | [], _ => []
  | _ :: r, O => x :: r
  | a :: r, S j => a :: upd r j x
  end.

Definition getr (t : thr) (inc : Z) (r : role) : Z :=
  match r with ROld => t_old t | RNew => t_new t | RRes => t_res t | RInc => inc | _ => 0 end.
Definition setr (t : thr) (r : role) (v : Z) : thr :=
  match r with
  | ROld => mkThr (t_todo t) (t_pc t) v (t_new t) (t_res t) (t_rets t)
  | RNew => mkThr (t_todo t) (t_pc t) (t_old t) v (t_res t) (t_rets t)
  | RRes => mkThr (t_todo t) (t_pc t) (t_old t) (t_new t) v (t_rets t)
  | _ => t
  end.
Definition set_pc (t : thr) (p : pc) : thr := mkThr (t_todo t) p (t_old t) (t_new t) (t_res t) (t_rets t).
(* the running operation returns r: next operation *)
Definition finish (t : thr) (rest : list op) (r : Z) : thr :=
  mkThr rest PIdle (t_old t) (t_new t) (t_res t) (r :: t_rets t).

Definition pick (C : call_shape) (a : carg) (o n : Z) : Z :=
  match a with AOld => o | ANew => n | _ => 0 end.

Section Machine.
  Variable fadd : Z -> Z -> Z.       (* float/double addition on bit patterns; nothing is assumed about it *)
  Variable c : mcfg.

  Definition complete (s : st) (i : nat) (t : thr) (rest : list op) (o : op) (post r : Z) : st :=
    mkSt post (upd (thrs s) i (finish t rest r)) (mkEv i o (cell s) post r :: log s).

  (* end of one loop iteration (after the CAS wrote `post`): evaluate the retry condition, return or go round *)
  Definition loop_tail (s : st) (i : nat) (t1 : thr) (rest : list op) (inc post : Z) : st :=
    let L := m_loop c in
    let differ := negb (getr t1 inc (ls_retry_a L) =? getr t1 inc (ls_retry_b L)) in
    let retry := if ls_retry_ne L then differ else negb differ in
    if retry then mkSt post (upd (thrs s) i (set_pc t1 PIdle)) (log s)
    else complete s i t1 rest (OLoop inc) post (getr t1 inc (ls_ret L)).

  Definition step_loop (s : st) (i : nat) (t : thr) (rest : list op) (inc : Z) : st :=
    let L := m_loop c in
    if atomic_cas (ls_prim L) then
      match t_pc t with
      | PLoopCas =>
          let cur := cell s in
          let post := if cur =? getr t inc (ls_cas_expect L) then getr t inc (ls_cas_new L) else cur in
          loop_tail s i (setr t (ls_cas_res L) cur) rest inc post
      | _ =>
          let t1 := setr t (ls_load_dst L) (cell s) in
          let t2 := setr t1 (ls_add_dst L) (fadd (getr t1 inc (ls_add_a L)) (getr t1 inc (ls_add_b L))) in
          mkSt (cell s) (upd (thrs s) i (set_pc t2 PLoopCas)) (log s)
      end
    else if plain_cas (ls_prim L) then
      match t_pc t with
      | PLoopCas =>     (* the read half of an unlocked cmpxchg *)
          mkSt (cell s) (upd (thrs s) i (set_pc (setr t (ls_cas_res L) (cell s)) PLoopCasW)) (log s)
      | PLoopCasW =>    (* the write half *)
          let seen := getr t inc (ls_cas_res L) in
          let post := if seen =? getr t inc (ls_cas_expect L) then getr t inc (ls_cas_new L) else cell s in
          loop_tail s i t rest inc post
      | _ =>
          let t1 := setr t (ls_load_dst L) (cell s) in
          let t2 := setr t1 (ls_add_dst L) (fadd (getr t1 inc (ls_add_a L)) (getr t1 inc (ls_add_b L))) in
          mkSt (cell s) (upd (thrs s) i (set_pc t2 PLoopCas)) (log s)
      end
    else s.

  Definition step_fa (s : st) (i : nat) (t : thr) (rest : list op) (inc : Z) : st :=
    let C := m_fa c in
    if atomic_fa (cs_prim C) then
      complete s i t rest (OIncr inc) ((cell s + inc) mod m_M c) (if cs_returns C then cell s else 0)
    else if plain_fa (cs_prim C) then
      match t_pc t with
      | PFaW => complete s i t rest (OIncr inc) ((t_old t + inc) mod m_M c) (if cs_returns C then t_old t else 0)
      | _ => mkSt (cell s) (upd (thrs s) i (set_pc (setr t ROld (cell s)) PFaW)) (log s)
      end
    else s.

  Definition step_cas (s : st) (i : nat) (t : thr) (rest : list op) (o n : Z) : st :=
    let C := m_cas c in
    let expect := pick C (cs_a1 C) o n in
    let nw := pick C (cs_a2 C) o n in
    if atomic_cas (cs_prim C) then
      complete s i t rest (OCas o n) (if cell s =? expect then nw else cell s) (if cs_returns C then cell s else 0)
    else if plain_cas (cs_prim C) then
      match t_pc t with
      | PCasW => complete s i t rest (OCas o n) (if t_old t =? expect then nw else cell s) (if cs_returns C then t_old t else 0)
      | _ => mkSt (cell s) (upd (thrs s) i (set_pc (setr t ROld (cell s)) PCasW)) (log s)
      end
    else s.

  (* one micro-step of thread i (a thread that does not exist or has finished does not move) *)
  Definition step (s : st) (i : nat) : st :=
    match nth_error (thrs s) i with
    | None => s
    | Some t =>
        match t_todo t with
        | [] => s
        | OIncr inc :: rest => step_fa s i t rest inc
        | OLoop inc :: rest => step_loop s i t rest inc
        | OCas o n :: rest => step_cas s i t rest o n
        end
    end.

  Definition run (s : st) (sched : list nat) : st := fold_left step sched s.
End Machine.

Definition new_thr (p : list op) : thr := mkThr p PIdle 0 0 0 [].
Definition init_st (v : Z) (progs : list (list op)) : st := mkSt v (map new_thr progs) [].

(* sequential meaning of one operation on the cell (the abstract spec `A`) *)
Definition effect (fadd : Z -> Z -> Z) (M : Z) (o : op) (v : Z) : Z :=
  match o with
  | OIncr inc => (v + inc) mod M
  | OLoop inc => fadd v inc
  | OCas e n => if v =? e then n else v
  end.

(* acceptor: is this sequence of (op, returned value) a legal sequential history from v0, and where does it end *)
Fixpoint seq_accept (fadd : Z -> Z -> Z) (M : Z) (v : Z) (h : list (op * Z)) : option Z :=
  match h with
  | [] => Some v
  | (o, r) :: h' => if r =? v then seq_accept fadd M (effect fadd M o v) h' else None
  end.

(* integer addition as the loop's add (exactly representable floats behave like this) *)
Definition iadd (M : Z) (a b : Z) : Z := (a + b) mod M.

Definition finished (s : st) : bool := forallb (fun t => match t_todo t with [] => true | _ => false end) (thrs s).
Definition all_rets (s : st) : list (list Z) := map (fun t => rev (t_rets t)) (thrs s).
