(* C08 - steal corollaries, victim scan, stranded work, single-worker yield wait, McCoy re-queue refutation *)
From Coq Require Import List ZArith NArith Bool Arith Lia Permutation.
From Coq Require Import ZifyBool ZifyNat ZifyN.
From QV Require Import TQueue.Model TQueue.Proofs.
Import ListNotations.
Local Open Scope Z_scope.

(* ---- the steal, as the thief sees it ------------------------------------------------------- *)
Lemma steal_facts : forall c v s v',
  exact v -> 0 <= c -> dequeue_steal c false v = (s, v') ->
  s = firstn (Z.to_nat (desired c v)) (filter stl (items v)) /\
  length s = Nat.min (Z.to_nat (desired c v)) (count_stl (items v)) /\
  Permutation (items v' ++ s) (items v) /\ exact v'.
Proof.
  intros c v s v' Hex Hc H.
  assert (Hd : 0 < desired c v). { pose proof (desired_pos c v Hc). destruct Hex as [_ Hs]. lia. }
  pose proof (exact_dequeue_steal _ _ _ _ _ Hex H) as [Hex' _].
  rewrite (dequeue_steal_spec c v Hex Hd) in H.
  destruct (take_stl (Z.to_nat (desired c v)) (items v)) as [kp s0] eqn:E. inversion H; subst. cbn [items].
  split; [|split; [|split]].
  - eapply take_stl_stolen_is_prefix; eassumption.
  - eapply take_stl_length; eassumption.
  - eapply take_stl_perm; eassumption.
  - exact Hex'.
Qed.

Lemma steal_progress_l : forall c v s v',
  exact v -> 0 <= c -> (0 < count_stl (items v))%nat -> dequeue_steal c false v = (s, v') -> s <> [].
Proof.
  intros c v s v' Hex Hc Hpos H. destruct (steal_facts c v s v' Hex Hc H) as [_ [Hl _]].
  pose proof (desired_pos c v Hc) as Hd. destruct Hex as [_ Hs].
  intros ->. cbn [length] in Hl. lia.
Qed.

Lemma steal_at_most_desired_l : forall c v s v',
  exact v -> 0 <= c -> dequeue_steal c false v = (s, v') -> Z.of_nat (length s) <= desired c v.
Proof.
  intros c v s v' Hex Hc H. destruct (steal_facts c v s v' Hex Hc H) as [_ [Hl _]].
  pose proof (desired_pos c v Hc) as Hd. destruct Hex as [_ Hs]. lia.
Qed.

(* ---- victim scan ---------------------------------------------------------------------------- *)
Lemma next_idx_iter : forall n j, (j < n - 1)%nat -> Nat.iter j (next_idx n) O = j.
Proof.
  induction j as [|j IH]; intros H; [reflexivity|]. change (Nat.iter (S j) (next_idx n) O) with (next_idx n (Nat.iter j (next_idx n) O)). rewrite IH by lia.
  unfold next_idx. destruct (Nat.ltb_spec (S j) (n - 1)); [reflexivity | lia].
Qed.

Lemma next_idx_wrap : forall n, (2 <= n)%nat -> Nat.iter (n - 1) (next_idx n) O = O.
Proof.
  intros n Hn. replace (n - 1)%nat with (S (n - 2)) by lia. change (Nat.iter (S (n - 2)) (next_idx n) O) with (next_idx n (Nat.iter (n - 2) (next_idx n) O)). rewrite next_idx_iter by lia.
  unfold next_idx. destruct (Nat.ltb_spec (S (n - 2)) (n - 1)); [lia | reflexivity].
Qed.

(* ---- a stranded stealable task is found by an idle thief within one round -------------------- *)
Lemma steal_loop_finds : forall fuel i st s p,
  sys_exact st -> 0 <= chunk st -> disable st = false ->
  items (getq st s) = [] ->
  (i <= p)%nat -> (p < nsheps st - 1)%nat -> (p - i < fuel)%nat ->
  (0 < count_stl (items (getq st (nth p (nth s (sorted st) []) O))))%nat ->
  exists n st', steal_loop fuel i st s [] = SGot n st' /\ stl n = true.
Proof.
  induction fuel as [|f IH]; intros i st s p Hex Hc Hdis Hown Hip Hp Hfuel Hst; [lia|].
  cbn [steal_loop]. set (v := nth i (nth s (sorted st) []) O).
  assert (Hnth : nth v (@nil bool) false = false) by (destruct v; reflexivity).
  assert (Hcont : (i < p)%nat ->
     exists n st', steal_loop f (next_idx (nsheps st) i) st s [] = SGot n st' /\ stl n = true).
  { intros Hlt. apply (IH _ st s p); auto; unfold next_idx; destruct (Nat.ltb_spec (S i) (nsheps st - 1)); lia. }
  assert (Hq0 : (0 <? qlen (getq st s)) || disable st = false).
  { rewrite Hdis, orb_false_r. pose proof (exact_getq st s Hex) as [Hl _]. rewrite Hown in Hl. cbn [length] in Hl. lia. }
  destruct (qstl (getq st v) =? 0) eqn:Eq.
  - rewrite Hq0. apply Hcont. destruct (Nat.eq_dec i p) as [->|]; [|lia].
    exfalso. pose proof (exact_getq st v Hex) as [_ Hs]. fold v in Hst. lia.
  - rewrite Hnth. destruct (dequeue_steal (chunk st) false (getq st v)) as [stolen vq'] eqn:Eds.
    pose proof (exact_getq st v Hex) as Hexv.
    destruct (exact_dequeue_steal _ _ _ _ _ Hexv Eds) as [_ Hall].
    destruct stolen as [|first surplus].
    + exfalso. destruct Hexv as [_ Hs]. apply Z.eqb_neq in Eq.
      refine (steal_progress_l (chunk st) (getq st v) [] vq' (conj _ Hs) Hc _ Eds eq_refl); [|lia].
      apply (exact_getq st v Hex).
    + inversion Hall; subst. eexists _, _. split; [reflexivity | assumption].
Qed.

Theorem stranded_is_stealable_l : forall st s p,
  sys_exact st -> 0 <= chunk st -> disable st = false -> getst st s = 0 ->
  items (getq st s) = [] ->
  (p < nsheps st - 1)%nat ->
  (0 < count_stl (items (getq st (nth p (nth s (sorted st) []) O))))%nat ->
  exists n st', qsteal st s [] = SGot n st' /\ stl n = true.
Proof.
  intros st s p Hex Hc Hdis Hst0 Hown Hp Hpos. unfold qsteal. rewrite Hst0. cbn [Z.eqb negb].
  destruct (steal_loop_finds (Nat.max 1 (nsheps st - 1)) O (setst st s 1) s p) as [n [st' [E Hn]]]; auto; try lia.
  rewrite E. eexists _, _. split; [reflexivity | exact Hn].
Qed.

(* ---- single worker: busy-waiting with yield terminates (terminating measure) ------------------ *)
Lemma fold_enqueue_items : forall l q, items (fold_left enqueue l q) = items q ++ l.
Proof.
  induction l as [|n tl IH]; intros q; cbn [fold_left]; [rewrite app_nil_r; reflexivity|].
  rewrite IH. cbn [enqueue items]. rewrite <- app_assoc. reflexivity.
Qed.

Lemma dequeue_owner_items : forall q l n, items q = l ++ [n] ->
  exists q', dequeue_owner q = (Some n, q') /\ items q' = l.
Proof.
  intros q l n H. destruct (dequeue_owner_spec q) as [[E _]|[l' [n' [Ei E]]]].
  - rewrite E in H. destruct l; discriminate.
  - rewrite Ei in H. apply app_inj_tail in H. destruct H; subst. eexists. split; [exact E | reflexivity].
Qed.

Definition all_spawned (rs : list round) : list node := concat (map spawned rs).

(* the worker's queue is  P ++ b :: R  (b is the task that will set the flag; the yielded waiter sits in P):
   with enough rounds, b is dequeued after at most |R| + (number of tasks spawned meanwhile) rounds, and every
   task dequeued before b comes from R or was spawned meanwhile - never from P.  The measure |R| drops by one
   per round and grows only by what the dequeued task itself spawns. *)
Theorem single_worker_yield_wait_l : forall rs q P b R,
  items q = P ++ b :: R ->
  (length R + length (all_spawned rs) < length rs)%nat ->
  exists k, (k <= length R + length (all_spawned rs))%nat /\
            nth_error (fst (sched_run q rs)) k = Some (Some b) /\
            forall j, (j < k)%nat -> exists t, nth_error (fst (sched_run q rs)) j = Some (Some t) /\ In t (R ++ all_spawned rs).
Proof.
  induction rs as [|r tl IH]; intros q P b R Hq Hlen; [cbn in Hlen; lia|].
  cbn [sched_run]. unfold sched_round.
  destruct R as [|r0 R0 _] using rev_ind.
  - (* b is at the tail *)
    destruct (dequeue_owner_items q P b Hq) as [q' [E _]]. rewrite E.
    destruct (sched_run _ tl) as [os q2]. exists O. cbn [fst nth_error length].
    split; [lia|]. split; [reflexivity|]. intros j Hj. lia.
  - assert (Hq' : items q = (P ++ b :: R0) ++ [r0]) by (rewrite Hq, <- app_assoc; reflexivity).
    destruct (dequeue_owner_items q _ r0 Hq') as [q' [E Hi]]. rewrite E.
    set (q1 := fold_left enqueue (spawned r) q').
    assert (Hi1 : items q1 = P ++ b :: (R0 ++ spawned r)).
    { unfold q1. rewrite fold_enqueue_items, Hi, <- app_assoc. reflexivity. }
    set (q2 := if yields r then enqueue_yielded q1 r0 else q1).
    assert (Hi2 : exists P', items q2 = P' ++ b :: (R0 ++ spawned r)).
    { unfold q2. destruct (yields r); [exists (r0 :: P); cbn [enqueue_yielded items]; rewrite Hi1; reflexivity | exists P; exact Hi1]. }
    destruct Hi2 as [P' Hi2].
    assert (Hsp : length (all_spawned (r :: tl)) = (length (spawned r) + length (all_spawned tl))%nat).
    { unfold all_spawned. cbn [map concat]. apply app_length. }
    assert (Hlen' : (length (R0 ++ spawned r) + length (all_spawned tl) < length tl)%nat).
    { rewrite Hsp in Hlen. rewrite !app_length in *. cbn [length] in Hlen. lia. }
    destruct (IH q2 P' b (R0 ++ spawned r) Hi2 Hlen') as [k [Hk [Hb Hbefore]]].
    destruct (sched_run q2 tl) as [os q3] eqn:Er. cbn [fst] in *.
    exists (S k). split; [|split].
    + rewrite Hsp. rewrite !app_length in *. cbn [length]. lia.
    + exact Hb.
    + intros j Hj. destruct j as [|j]; cbn [nth_error].
      * exists r0. split; [reflexivity|]. apply in_or_app. left. apply in_or_app. right. left. reflexivity.
      * destruct (Hbefore j ltac:(lia)) as [t [Ht Hin]]. exists t. split; [exact Ht|].
        unfold all_spawned. cbn [map concat]. fold (all_spawned tl).
        apply in_app_or in Hin. destruct Hin as [Hin|Hin]; [apply in_app_or in Hin; destruct Hin as [Hin|Hin]|].
        -- apply in_or_app. left. apply in_or_app. left. exact Hin.
        -- apply in_or_app. right. apply in_or_app. left. exact Hin.
        -- apply in_or_app. right. apply in_or_app. right. exact Hin.
Qed.

(* ---- McCoy re-queue: a fair cycle of two workers in which the main task never runs ------------- *)
(* every owner-dequeued task is run, except a McCoy task taken by a worker other than (packed) worker 0 *)
Lemma dequeued_task_runs : forall st s w n,
  mccoy n = false \/ w = O -> exists st', finish_node st s w n = FDone (GGot n) st'.
Proof.
  intros st s w n [H| ->]; unfold finish_node.
  - rewrite H. eexists; reflexivity.
  - destruct (mccoy n); eexists; reflexivity.
Qed.

(* REGRESSION (rule before the fix: every worker pops the tail).  Worker 1 holds the McCoy task M between its pop
   and its re-queue; meanwhile the yielder A running on worker 0 yields and pops itself again.  The four lock sections
   bring the queue back to where it started, so the schedule (w1 pop, w0 push A, w0 pop, w1 push M) can be repeated
   for ever: A busy-waits with qthread_yield() for something the ready task M would do, and M never runs. *)
Definition mccoy_cycle (M A : node) : list wop := [WPop 1; WPushY A; WPop 0; WPushY M].

Lemma wrun_old_app : forall a b q0, fst (wrun_old q0 (a ++ b)) = fst (wrun_old (fst (wrun_old q0 a)) b).
Proof.
  induction a as [|o a IHa]; intros b q0; [reflexivity|]. cbn [app wrun_old].
  destruct (wstep_old q0 o) as [q1 out]. specialize (IHa b q1).
  destruct (wrun_old q1 (a ++ b)) as [x y]. destruct (wrun_old q1 a) as [x' y']. cbn [fst] in *. exact IHa.
Qed.

Theorem old_rule_starvation_cycle :
  exists (M A : node) (q : queue) (st : sys),
    mccoy M = true /\ mccoy A = false /\ exact q /\ items q = [M] /\
    (* under the old rule worker 1 does not run M but re-queues it at the head *)
    (exists st', finish_node st O 1 M = FCont st') /\
    (* one cycle returns the same queue; M is handed to worker 1 only, A is run again by worker 0 *)
    wrun_old q (mccoy_cycle M A) = (q, [[M]; []; [A]; []]) /\
    (* hence any number of cycles: M is never dequeued by worker 0 *)
    (forall k, fst (wrun_old q (concat (repeat (mccoy_cycle M A) k))) = q) /\
    (* the same schedule under the new rule: worker 1 takes nothing, worker 0 gets M at its next pop *)
    snd (wrun q [WPop 1; WPushY A; WPop 0]) = [[]; []; [M]].
Proof.
  exists (mkNode 0 false true 0), (mkNode 1 false false 0), (mkQ [mkNode 0 false true 0] 1 0), (init_sys 1 0).
  repeat split.
  - eexists. reflexivity.
  - induction k as [|k IH]; [reflexivity|]. cbn [repeat concat]. rewrite wrun_old_app. exact IH.
Qed.

(* ---- McCoy hand-over under the new rule, for every interleaving of the workers of the shepherd ------------- *)
Definition nm (l : list node) : Prop := Forall (fun n => mccoy n = false) l.
Definition push_ok (o : wop) : Prop := match o with WPushY n | WPush n => mccoy n = false | _ => True end.
Fixpoint count_pop0 (ops : list wop) : nat :=
  match ops with [] => O | WPop O :: tl => S (count_pop0 tl) | _ :: tl => count_pop0 tl end.
Fixpoint count_push (ops : list wop) : nat :=
  match ops with [] => O | WPush _ :: tl => S (count_push tl) | _ :: tl => count_push tl end.

Lemma dequeue_steal_sub : forall c v s v', exact v -> dequeue_steal c false v = (s, v') ->
  (forall x, In x s -> In x (items v) /\ stl x = true) /\ (forall x, In x (items v') -> In x (items v)) /\ exact v'.
Proof.
  intros c v s v' Hex H. destruct (exact_dequeue_steal _ _ _ _ _ Hex H) as [Hex' Hall].
  destruct (Z_lt_le_dec 0 (desired c v)) as [Hd|Hd].
  - rewrite (dequeue_steal_spec c v Hex Hd) in H.
    destruct (take_stl (Z.to_nat (desired c v)) (items v)) as [kp s0] eqn:E. inversion H; subst. cbn [items].
    split; [|split; [|exact Hex']].
    + intros x Hx. split; [eapply take_stl_stolen_in; eassumption|]. rewrite Forall_forall in Hall. auto.
    + intros x Hx. eapply take_stl_kept_in; eassumption.
  - unfold dequeue_steal in H. assert (Hd' : (0 <? desired c v) = false) by lia. rewrite Hd', andb_false_r in H.
    inversion H; subst. split; [intros x []|]. split; [auto | exact Hex].
Qed.

Lemma nm_not_in : forall M l, mccoy M = true -> nm l -> ~ In M l.
Proof. intros M l HM Hl Hin. unfold nm in Hl. rewrite Forall_forall in Hl. specialize (Hl M Hin). congruence. Qed.

Lemma nm_app : forall a b, nm (a ++ b) <-> nm a /\ nm b.
Proof. intros. unfold nm. apply Forall_app. Qed.

Lemma nm_sub : forall a b, (forall x, In x a -> In x b) -> nm b -> nm a.
Proof. intros a b H Hb. unfold nm in *. rewrite Forall_forall in *. auto. Qed.

(* once M has left, it never shows up again (nothing pushed is a McCoy task) *)
Lemma wrun_no_mccoy : forall ops q q' outs,
  exact q -> nm (items q) -> Forall push_ok ops -> wrun q ops = (q', outs) ->
  forall k, nm (nth k outs []).
Proof.
  induction ops as [|o tl IH]; intros q q' outs Hex Hnm Hok H k; cbn [wrun] in H.
  - inversion H; subst. destruct k; constructor.
  - inversion Hok as [|? ? Ho Htl]; subst.
    destruct (wstep q o) as [q1 out0] eqn:E1. destruct (wrun q1 tl) as [q2 outs2] eqn:E2. inversion H; subst.
    assert (Hstep : exact q1 /\ nm (items q1) /\ nm out0).
    { destruct o as [w|n|n|c]; cbn [wstep push_ok] in *.
      - destruct (dequeue_worker q w) as [o q1'] eqn:Ed.
        pose proof (exact_dequeue_worker _ _ _ _ Hex Ed) as Hex1.
        destruct (dequeue_worker_cases q w) as [E|[[l [n [Ei [_ E]]]]|[l [m [n [Ei [_ [_ E]]]]]]]]; rewrite E in Ed; inversion Ed; subst;
          inversion E1; subst.
        + split; [exact Hex1|]. split; [exact Hnm | constructor].
        + rewrite Ei in Hnm. apply nm_app in Hnm. destruct Hnm as [Hl Hn]. split; [exact Hex1|]. split; [exact Hl | exact Hn].
        + rewrite Ei in Hnm. apply nm_app in Hnm. destruct Hnm as [Hl Hn]. inversion Hn as [|? ? Hm Hn']; subst.
          cbn [items]. split; [exact Hex1|]. split; [apply nm_app; split; auto | constructor; [exact Hm | constructor]].
      - inversion E1; subst. split; [apply exact_enqueue_yielded; exact Hex|]. split; [constructor; assumption | constructor].
      - inversion E1; subst. split; [apply exact_enqueue; exact Hex|].
        split; [apply nm_app; split; [exact Hnm | constructor; [exact Ho | constructor]] | constructor].
      - destruct (dequeue_steal c false q) as [s v'] eqn:Ed. inversion E1; subst.
        destruct (dequeue_steal_sub _ _ _ _ Hex Ed) as [Hs [Hk Hex1]].
        split; [exact Hex1|]. split; [eapply nm_sub; [exact Hk | exact Hnm] | eapply nm_sub; [|exact Hnm]; intros x Hx; apply Hs; exact Hx]. }
    destruct Hstep as [Hex1 [Hnm1 Hout]].
    destruct k as [|k]; cbn [nth]; [exact Hout|]. eapply IH; eassumption.
Qed.

Ltac five := split; [|split; [|split; [|split]]].

(* one lock section on a queue  P ++ M :: R  (M = the single McCoy task, unstealable) *)
Lemma wstep_decomp : forall q o P M R q' out,
  exact q -> items q = P ++ M :: R -> mccoy M = true -> stl M = false -> nm P -> nm R -> push_ok o ->
  wstep q o = (q', out) ->
  exact q' /\
  ((o = WPop O /\ R = [] /\ out = [M] /\ items q' = P) \/
   (exists P' R', items q' = P' ++ M :: R' /\ nm P' /\ nm R' /\ nm out /\
       (length R' + match o with WPop O => 1 | _ => 0 end <= length R + match o with WPush _ => 1 | _ => 0 end)%nat)).
Proof.
  intros q o P M R q' out Hex Hq HM HsM HP HR Hok H.
  destruct o as [w|n|n|c]; cbn [wstep push_ok] in *.
  - (* pop *)
    destruct (dequeue_worker q w) as [o q1] eqn:Ed.
    pose proof (exact_dequeue_worker _ _ _ _ Hex Ed) as Hex1.
    destruct R as [|x R0 _] using rev_ind.
    + (* M is the tail *)
      destruct (dequeue_worker_cases q w) as [E|[[l [n [Ei [Hcase E]]]]|[l [m [n [Ei [Hmn [Hw E]]]]]]]]; rewrite E in Ed; inversion Ed; subst;
        inversion H; subst.
      * split; [exact Hex|]. right. exists P, []. five; [exact Hq | exact HP | constructor | constructor |]. destruct w as [|w]; cbn; [|lia].
        (* worker 0 always takes the tail: this case is impossible *)
        exfalso. rewrite dequeue_worker_0 in E.
        match type of Hq with items ?qq = _ => destruct (dequeue_owner_items qq P M Hq) as [q'' [E' _]] end. rewrite E' in E. discriminate.
      * rewrite Hq in Ei. apply app_inj_tail in Ei. destruct Ei as [-> ->].
        destruct Hcase as [Hc| ->]; [congruence|]. split; [exact Hex1|]. left. repeat split; reflexivity.
      * rewrite Hq in Ei. change (l ++ [m; n]) with (l ++ [m] ++ [n]) in Ei. rewrite app_assoc in Ei.
        apply app_inj_tail in Ei. destruct Ei as [-> ->]. split; [exact Hex1|]. right.
        apply nm_app in HP. destruct HP as [Hl Hm]. exists l, []. cbn [items]. five; [reflexivity | exact Hl | constructor | exact Hm |].
        destruct w; [congruence | cbn; lia].
    + (* the tail x is an ordinary task: every worker takes it *)
      apply nm_app in HR. destruct HR as [HR0 Hx]. inversion Hx as [|? ? Hxm _]; subst.
      assert (Hq' : items q = (P ++ M :: R0) ++ [x]) by (rewrite Hq, <- app_assoc; reflexivity).
      destruct (dequeue_worker_cases q w) as [E|[[l [n [Ei [_ E]]]]|[l [m [n [Ei [Hmn [_ E]]]]]]]]; rewrite E in Ed; inversion Ed; subst;
        inversion H; subst.
      * (* nothing taken: only when the tail is a McCoy task *)
        exfalso. unfold dequeue_worker in E. rewrite Hq', rev_app_distr in E. cbn [rev app] in E. rewrite Hxm in E. cbn [andb] in E.
        discriminate.
      * rewrite Hq' in Ei. apply app_inj_tail in Ei. destruct Ei as [<- <-]. split; [exact Hex1|]. right.
        exists P, R0. cbn [items]. five; [reflexivity | exact HP | exact HR0 | constructor; [exact Hxm | constructor] |].
        rewrite app_length. cbn [length]. destruct w as [|w]; lia.
      * rewrite Hq' in Ei. change (l ++ [m; n]) with (l ++ [m] ++ [n]) in Ei. rewrite app_assoc in Ei.
        apply app_inj_tail in Ei. destruct Ei as [_ <-]. congruence.
  - inversion H; subst. split; [apply exact_enqueue_yielded; exact Hex|]. right. exists (n :: P), R.
    cbn [enqueue_yielded items]. rewrite Hq. five; [reflexivity | constructor; assumption | exact HR | constructor | lia].
  - inversion H; subst. split; [apply exact_enqueue; exact Hex|]. right. exists P, (R ++ [n]).
    cbn [enqueue items]. rewrite Hq, <- app_assoc. five; [reflexivity | exact HP | apply nm_app; split; [exact HR | constructor; [exact Hok | constructor]] | constructor |].
    rewrite app_length. cbn [length]. lia.
  - (* steal: M is unstealable, it stays; what is taken is stealable hence not M *)
    destruct (dequeue_steal c false q) as [s v'] eqn:Ed. inversion H; subst.
    destruct (dequeue_steal_sub _ _ _ _ Hex Ed) as [Hs [Hk Hex1]]. split; [exact Hex1|]. right.
    assert (Hout : nm out).
    { unfold nm. rewrite Forall_forall. intros x Hx. destruct (Hs x Hx) as [Hin Hst]. rewrite Hq in Hin.
      apply in_app_or in Hin. destruct Hin as [Hin|[<-|Hin]]; [| congruence |].
      - unfold nm in HP. rewrite Forall_forall in HP. auto.
      - unfold nm in HR. rewrite Forall_forall in HR. auto. }
    destruct (Z_lt_le_dec 0 (desired c q)) as [Hd|Hd].
    + rewrite (dequeue_steal_spec c q Hex Hd) in Ed. rewrite Hq, take_stl_app in Ed.
      destruct (take_stl (Z.to_nat (desired c q)) P) as [kP sP] eqn:EP.
      set (k2 := (Z.to_nat (desired c q) - length sP)%nat) in Ed.
      assert (E2 : exists kR sR, take_stl k2 (M :: R) = (M :: kR, sR) /\ (forall x, In x kR -> In x R) /\ (length kR <= length R)%nat).
      { destruct k2 as [|k2'].
        - exists R, []. cbn [take_stl]. repeat split; auto.
        - cbn [take_stl]. rewrite HsM. destruct (take_stl (S k2') R) as [kR sR] eqn:ER. exists kR, sR. repeat split.
          + intros x Hx. eapply take_stl_kept_in; eassumption.
          + destruct (take_stl_kept_count _ _ _ _ ER) as [_ Hn]. lia. }
      destruct E2 as [kR [sR [E2 [Hsub Hlen]]]]. rewrite E2 in Ed. inversion Ed; subst. cbn [items].
      exists kP, kR. five; [reflexivity | | | exact Hout | lia].
      * eapply nm_sub; [|exact HP]. intros x Hx. eapply take_stl_kept_in; eassumption.
      * eapply nm_sub; [exact Hsub | exact HR].
    + unfold dequeue_steal in Ed. assert (Hd' : (0 <? desired c q) = false) by lia. rewrite Hd', andb_false_r in Ed.
      inversion Ed; subst. exists P, R. five; [exact Hq | exact HP | exact HR | exact Hout | lia].
Qed.

(* For every interleaving of the workers of one shepherd (pops by any worker, yields, spawns, thieves), starting from a
   queue P ++ M :: R that holds the single, unstealable McCoy task M:
   (A) M is never handed to a worker other than worker 0 and never stolen;
   (B) if worker 0 pops more often than |R| + (number of tail enqueues), one of its pops returns M.
   A task running on worker 0 that busy-waits with qthread_yield() for main performs one such pop per yield. *)
Theorem mccoy_handover_l : forall ops q P M R q' outs,
  exact q -> items q = P ++ M :: R -> mccoy M = true -> stl M = false -> nm P -> nm R -> Forall push_ok ops ->
  wrun q ops = (q', outs) ->
  (forall k, In M (nth k outs []) -> nth_error ops k = Some (WPop O)) /\
  ((length R + count_push ops < count_pop0 ops)%nat ->
   exists k, nth_error ops k = Some (WPop O) /\ nth k outs [] = [M]).
Proof.
  induction ops as [|o tl IH]; intros q P M R q' outs Hex Hq HM HsM HP HR Hok H; cbn [wrun] in H.
  - inversion H; subst. split; [intros k Hin; destruct k; destruct Hin | cbn; lia].
  - inversion Hok as [|? ? Ho Htl]; subst.
    destruct (wstep q o) as [q1 out0] eqn:E1. destruct (wrun q1 tl) as [q2 outs2] eqn:E2. inversion H; subst.
    destruct (wstep_decomp q o P M R q1 out0 Hex Hq HM HsM HP HR Ho E1) as [Hex1 [[-> [-> [-> Hi]]]|[P' [R' [Hi [HP' [HR' [Hout Hlen]]]]]]]].
    + (* handed to worker 0 now; afterwards M is gone *)
      split.
      * intros k Hin. destruct k as [|k]; [reflexivity|]. cbn [nth] in Hin. exfalso.
        assert (Hn : nm (items q1)) by (rewrite Hi; exact HP).
        pose proof (wrun_no_mccoy tl q1 q' outs2 Hex1 Hn Htl E2 k) as Hk. exact (nm_not_in M _ HM Hk Hin).
      * intros _. exists O. split; reflexivity.
    + destruct (IH q1 P' M R' q' outs2 Hex1 Hi HM HsM HP' HR' Htl E2) as [IHA IHB]. split.
      * intros k Hin. destruct k as [|k]; cbn [nth] in Hin; [exfalso; exact (nm_not_in M _ HM Hout Hin)|].
        cbn [nth_error]. apply IHA. exact Hin.
      * intros Hc. destruct IHB as [k [Hk Hm]].
        { destruct o as [[|w]|n|n|c]; cbn [count_pop0 count_push] in *; lia. }
        exists (S k). split; assumption.
Qed.

(* ---- yield precedence (owner operations of one queue; thieves excluded: _partial) ------------- *)
Definition owner_op_not (y : node) (o : qop) : Prop :=
  match o with QEnq n | QEnqY n => n <> y | QDeq => True | QSteal _ => False end.

Lemma no_y_after_gone : forall y ops q q' outs,
  ~ In y (items q) -> Forall (owner_op_not y) ops -> qrun q ops = (q', outs) ->
  forall k out, nth_error outs k = Some out -> ~ In y out.
Proof.
  induction ops as [|o tl IH]; intros q q' outs Hn Hall H k out Hk; cbn [qrun] in H.
  - inversion H; subst. destruct k; discriminate.
  - inversion Hall as [|? ? Ho Htl]; subst.
    destruct (qstep q o) as [q1 out0] eqn:E1. destruct (qrun q1 tl) as [q2 outs2] eqn:E2. inversion H; subst.
    assert (Hq1 : ~ In y (items q1) /\ ~ In y out0).
    { destruct o as [n|n| |c]; cbn [qstep owner_op_not] in *.
      - inversion E1; subst. cbn [enqueue items]. split; [|intros []]. intros Hin. apply in_app_or in Hin. destruct Hin as [|[|[]]]; auto.
      - inversion E1; subst. cbn [enqueue_yielded items]. split; [|intros []]. intros [|]; auto.
      - destruct (dequeue_owner_spec q) as [[_ Ed]|[l [n [Ei Ed]]]]; rewrite Ed in E1; inversion E1; subst.
        + split; [exact Hn | intros []].
        + cbn [items]. rewrite Ei in Hn. split; intros Hin; apply Hn; apply in_or_app; [left; exact Hin|].
          destruct Hin as [->|[]]. right. left. reflexivity.
      - contradiction. }
    destruct Hq1 as [Hq1 Ho0]. destruct k as [|k]; cbn [nth_error] in Hk.
    + inversion Hk; subst. exact Ho0.
    + eapply IH; eassumption.
Qed.

Theorem yield_precedence_partial : forall y ops q P R q' outs,
  items q = P ++ y :: R -> ~ In y P -> ~ In y R ->
  Forall (owner_op_not y) ops ->
  qrun q ops = (q', outs) ->
  forall k, nth_error ops k = Some QDeq -> nth_error outs k = Some [y] ->
  forall x, In x R -> exists j, (j < k)%nat /\ In x (nth j outs []).
Proof.
  intros y. induction ops as [|o tl IH]; intros q P R q' outs Hq HnP HnR Hall H k Hk Hout x Hx; [destruct k; discriminate|].
  cbn [qrun] in H. inversion Hall as [|? ? Ho Htl]; subst.
  destruct (qstep q o) as [q1 out0] eqn:E1. destruct (qrun q1 tl) as [q2 outs2] eqn:E2. inversion H; subst.
  destruct k as [|k]; cbn [nth_error] in Hk, Hout.
  - (* y is dequeued now: nothing may be to its right *)
    inversion Hk; subst. inversion Hout; subst. cbn [qstep] in E1.
    destruct R as [|r0 R0 _] using rev_ind; [destruct Hx|].
    assert (Hq' : items q = (P ++ y :: R0) ++ [r0]) by (rewrite Hq, <- app_assoc; reflexivity).
    destruct (dequeue_owner_items q _ r0 Hq') as [q'' [E _]]. rewrite E in E1. inversion E1; subst.
    exfalso. apply HnR. apply in_or_app. right. left. reflexivity.
  - (* one step, then the induction hypothesis on the new decomposition *)
    assert (Hshift : forall j, (j < k)%nat -> In x (nth j outs2 []) -> exists j', (j' < S k)%nat /\ In x (nth j' (out0 :: outs2) [])).
    { intros j Hj Hin. exists (S j). split; [lia | exact Hin]. }
    destruct o as [n|n| |c]; cbn [qstep owner_op_not] in *.
    + inversion E1; subst.
      assert (Hi : items (enqueue q n) = P ++ y :: (R ++ [n])) by (cbn [enqueue items]; rewrite Hq, <- app_assoc; reflexivity).
      assert (HnR' : ~ In y (R ++ [n])) by (intros Hin; apply in_app_or in Hin; destruct Hin as [|[|[]]]; auto).
      destruct (IH _ P (R ++ [n]) _ _ Hi HnP HnR' Htl E2 k Hk Hout x (in_or_app _ _ _ (or_introl Hx))) as [j [Hj Hin]].
      exact (Hshift j Hj Hin).
    + inversion E1; subst.
      assert (Hi : items (enqueue_yielded q n) = (n :: P) ++ y :: R) by (cbn [enqueue_yielded items]; rewrite Hq; reflexivity).
      assert (HnP' : ~ In y (n :: P)) by (intros [|]; auto).
      destruct (IH _ (n :: P) R _ _ Hi HnP' HnR Htl E2 k Hk Hout x Hx) as [j [Hj Hin]].
      exact (Hshift j Hj Hin).
    + destruct R as [|r0 R0 _] using rev_ind; [destruct Hx|].
      assert (Hq' : items q = (P ++ y :: R0) ++ [r0]) by (rewrite Hq, <- app_assoc; reflexivity).
      destruct (dequeue_owner_items q _ r0 Hq') as [q'' [E Hi]]. rewrite E in E1. inversion E1; subst.
      apply in_app_or in Hx. destruct Hx as [Hx|[->|[]]].
      * assert (HnR' : ~ In y R0) by (intros Hin; apply HnR; apply in_or_app; left; exact Hin).
        destruct (IH _ P R0 _ _ Hi HnP HnR' Htl E2 k Hk Hout x Hx) as [j [Hj Hin]].
        exact (Hshift j Hj Hin).
      * exists O. split; [lia|]. left. reflexivity.
    + contradiction.
Qed.

(* ---- non-vacuity --------------------------------------------------------------------------- *)
Definition ex_n (t : N) (s : bool) : node := mkNode t s false 0.
Definition ex_ops : list op :=
  [OEnq 0 (ex_n 1 true); OEnq 0 (ex_n 2 false); OEnq 0 (ex_n 3 true); OEnq 0 (ex_n 4 true); OEnq 0 (ex_n 5 true);
   OSteal 1 []; OGet 1 0 true; OGet 0 0 true; OEnqY 0 (ex_n 5 true); OGet 0 1 true].
Example ex_run_reachable :
  let st := fst (run (init_sys 2 0) ex_ops) in
  map (fun n => tid n) (items (getq st 0)) = [5%N; 2%N] /\ snd (run (init_sys 2 0) ex_ops) <> [].
Proof. vm_compute. split; [reflexivity | discriminate]. Qed.
Example ex_steal_takes_two :
  fst (dequeue_steal 0 false (mkQ [ex_n 1 true; ex_n 2 false; ex_n 3 true; ex_n 4 true; ex_n 5 true] 5 4)) = [ex_n 1 true; ex_n 3 true].
Proof. reflexivity. Qed.
Example ex_stranded_hyps :
  let st := fst (run (init_sys 3 0) [OEnq 0 (ex_n 1 false); OEnq 0 (ex_n 2 true)]) in
  sys_exact st /\ getst st 1 = 0 /\ items (getq st 1) = [] /\ (1 < nsheps st - 1)%nat /\
  (0 < count_stl (items (getq st (nth 1 (nth 1 (sorted st) []) O))))%nat.
Proof. split; [apply counts_exact_run, sys_exact_init|]. vm_compute. repeat split; lia. Qed.
Example ex_yield_wait_hyps :
  let rs := [mkRound [ex_n 9 true] true; mkRound [] false; mkRound [] true; mkRound [] false] in
  (length [ex_n 2 true; ex_n 3 true] + length (all_spawned rs) < length rs)%nat.
Proof. vm_compute. lia. Qed.
Example ex_handover_hyps :
  let M := mkNode 0 false true 0 in
  let q := mkQ [ex_n 7 true; M; ex_n 2 true; ex_n 3 false] 4 2 in
  let ops := [WPop 1; WPushY (ex_n 3 false); WPop 0; WSteal 0; WPop 2; WPushY (ex_n 2 true); WPop 0; WPop 0] in
  exact q /\ items q = [ex_n 7 true] ++ M :: [ex_n 2 true; ex_n 3 false] /\ Forall push_ok ops /\
  (length [ex_n 2 true; ex_n 3 false] + count_push ops < count_pop0 ops)%nat /\
  map (map (fun n => tid n)) (snd (wrun q ops)) = [[3%N]; []; [2%N]; [7%N]; [3%N]; []; [0%N]; [2%N]].
Proof. vm_compute. repeat split; try lia; repeat constructor. Qed.
