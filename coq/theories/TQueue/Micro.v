(* C08 - micro-step machine for the lock discipline of src/threadqueues/sherwood_threadqueues.c.

   Two shepherds (queue k = shepherds[k].ready, lock k = its qlock, flag k = shepherds[k].stealing), any number of
   threads (workers of either shepherd, or remote enqueuers).  One shared access per step:

     qt_threadqueue_enqueue / _enqueue_yielded (:300-327, :439-466)
         [node filled: thread-local]  LOCK qlock | body (links + both counters) | UNLOCK qlock
     owner path of qt_scheduler_get_thread (:844-894, :924-956)
         peek q->head WITHOUT the lock (:844) | LOCK | body: node = q->tail, McCoy rule, `if (node != NULL)` re-check,
         unlink, counters | UNLOCK | McCoy on worker 0 clears shepherd->stealing (:940) and the task is returned
     qthread_steal (:1137-1218) with qt_threadqueue_dequeue_steal (:1035-1132) and qt_threadqueue_enqueue_multiple (:962-990)
         read thief_shepherd->stealing (:1144) | CAS stealing 0->1 (:1158) |
         peek victim->qlength_stealable WITHOUT the lock (:1176) | read it again for desired_stolen (:1045, still unlocked) |
         QTHREAD_TRYLOCK_TRY (:1055) | body: the scan with the desired amount computed BEFORE the lock | UNLOCK (:1128) |
         surplus: LOCK own qlock | body: chain appended, addCnt to both counters | UNLOCK |
         nothing stolen: peek own qlength WITHOUT the lock, steal_disable (:1198) | SPINLOCK_BODY (:1214) and again |
         stealing = 0 (:1216), return.

   A thread "sees the queue as it locked it": the LOCK / TRY step records the queue value in the program counter ([seen]);
   the body computes from [seen], not from the current state, so that a missing lock is observable ([lk = false] is the same
   machine whose enqueue does not take / release the lock).  The body of a critical section is one step: inside the lock the
   plain loads / stores of head, tail, prev, next, qlength, qlength_stealable are not schedule points of the real code either.
   Interposable accesses (schedule points of the M3 replay): LOCK, TRY, UNLOCK, CAS, SPIN, END (between operations). *)
From Coq Require Import List ZArith NArith Bool Arith.
From QV Require Import TQueue.Model.
Import ListNotations.
Local Open Scope Z_scope.

Inductive mop := MEnq (k : nat) (n : node) | MEnqY (k : nat) (n : node) | MDeq | MSteal.

Inductive pc :=
| Idle
| E_Lock (k : nat) (n : node) (y : bool)
| E_Body (k : nat) (n : node) (y : bool) (seen : queue)
| E_Unlock (k : nat)
| D_Peek
| D_Lock
| D_Body (seen : queue)
| D_Unlock (r : option node)
| D_Fin (r : option node)
| T_PeekFlag
| T_Cas
| T_PeekV
| T_ReadD
| T_Try (d : Z)
| T_Body (d : Z) (seen : queue)
| T_Unlock (s : list node)
| T_MLock (f : node) (sur : list node)
| T_MBody (f : node) (sur : list node) (seen : queue)
| T_MUnlock (f : node)
| T_PeekOwn
| T_Spin
| T_Clear (r : option node).

Record thread := mkThr {
  t_home : nat;                     (* shepherd of this worker: its own queue / stealing flag; the victim is the other one *)
  t_w : nat;                        (* packed worker id (0 only for worker 0 of shepherd 0) *)
  t_pc : pc;
  t_prog : list mop;
  t_ret : list (option node)        (* results of the completed MDeq / MSteal operations, newest first *)
}.
Definition idle_thread := mkThr 0 0 Idle [] [].

Fixpoint get_thr (t : nat) (l : list (nat * thread)) : thread :=
  match l with [] => idle_thread | (t', c) :: r => if Nat.eqb t t' then c else get_thr t r end.
Fixpoint set_thr (t : nat) (c : thread) (l : list (nat * thread)) : list (nat * thread) :=
  match l with
  | [] => [(t, c)]
  | (t', c') :: r => if Nat.eqb t t' then (t, c) :: r else (t', c') :: set_thr t c r
  end.

Record mstate := mkM {
  m_q : list queue;                 (* shepherds[k].ready *)
  m_lock : list (option nat);       (* owner of shepherds[k].ready->qlock *)
  m_steal : list Z;                 (* shepherds[k].stealing *)
  m_chunk : Z;                      (* steal_chunksize *)
  m_dis : bool;                     (* steal_disable *)
  m_added : list node;              (* ghost: nodes handed to an enqueue (or present initially) *)
  m_out : list node;                (* ghost: nodes returned by completed dequeue / steal operations *)
  m_thr : list (nat * thread)
}.

Definition qat (m : mstate) (k : nat) : queue := nth k (m_q m) empty_queue.
Definition lockat (m : mstate) (k : nat) : option nat := nth k (m_lock m) None.
Definition stat (m : mstate) (k : nat) : Z := nth k (m_steal m) 0.
Definition other (k : nat) : nat := match k with O => 1%nat | _ => O end.

(* the scan of qt_threadqueue_dequeue_steal with a given desired amount (Model.dequeue_steal computes it from the victim) *)
Definition steal_with (d : Z) (v : queue) : list node * queue :=
  if (0 <? qstl v) && (0 <? d) then
    let '(k, s, ql, qs) := scan (items v) false 0 (qlen v) (qstl v) d in (s, mkQ k ql qs)
  else ([], v).

Definition with_thr (m : mstate) (t : nat) (th : thread) : mstate :=
  mkM (m_q m) (m_lock m) (m_steal m) (m_chunk m) (m_dis m) (m_added m) (m_out m) (set_thr t th (m_thr m)).
Definition with_pc (th : thread) (c : pc) : thread := mkThr (t_home th) (t_w th) c (t_prog th) (t_ret th).
Definition set_q (m : mstate) (k : nat) (q : queue) : mstate :=
  mkM (upd (m_q m) k q) (m_lock m) (m_steal m) (m_chunk m) (m_dis m) (m_added m) (m_out m) (m_thr m).
Definition set_lock (m : mstate) (k : nat) (o : option nat) : mstate :=
  mkM (m_q m) (upd (m_lock m) k o) (m_steal m) (m_chunk m) (m_dis m) (m_added m) (m_out m) (m_thr m).
Definition set_steal (m : mstate) (k : nat) (v : Z) : mstate :=
  mkM (m_q m) (m_lock m) (upd (m_steal m) k v) (m_chunk m) (m_dis m) (m_added m) (m_out m) (m_thr m).
Definition add_node (m : mstate) (n : node) : mstate :=
  mkM (m_q m) (m_lock m) (m_steal m) (m_chunk m) (m_dis m) (n :: m_added m) (m_out m) (m_thr m).
Definition olist (o : option node) : list node := match o with Some n => [n] | None => [] end.
Definition deliver (m : mstate) (o : option node) : mstate :=
  mkM (m_q m) (m_lock m) (m_steal m) (m_chunk m) (m_dis m) (m_added m) (olist o ++ m_out m) (m_thr m).

(* the operation returns r: back to Idle, result recorded *)
Definition finish (m : mstate) (t : nat) (th : thread) (r : option node) : mstate :=
  with_thr (deliver m r) t (mkThr (t_home th) (t_w th) Idle (t_prog th) (r :: t_ret th)).
Definition goto (m : mstate) (t : nat) (th : thread) (c : pc) : mstate := with_thr m t (with_pc th c).

Definition mstep (lk : bool) (m : mstate) (t : nat) : option mstate :=
  let th := get_thr t (m_thr m) in
  let home := t_home th in
  let vic := other home in
  match t_pc th with
  | Idle =>
      match t_prog th with
      | [] => None
      | MEnq k n :: rest => Some (with_thr (add_node m n) t (mkThr home (t_w th) (E_Lock k n false) rest (t_ret th)))
      | MEnqY k n :: rest => Some (with_thr (add_node m n) t (mkThr home (t_w th) (E_Lock k n true) rest (t_ret th)))
      | MDeq :: rest => Some (with_thr m t (mkThr home (t_w th) D_Peek rest (t_ret th)))
      | MSteal :: rest => Some (with_thr m t (mkThr home (t_w th) T_PeekFlag rest (t_ret th)))
      end
  (* ---- enqueue / enqueue_yielded on queue k *)
  | E_Lock k n y =>
      if lk then
        match lockat m k with
        | None => Some (goto (set_lock m k (Some t)) t th (E_Body k n y (qat m k)))
        | Some _ => None                                                  (* blocked *)
        end
      else Some (goto m t th (E_Body k n y (qat m k)))
  | E_Body k n y seen =>
      Some (goto (set_q m k (if y then enqueue_yielded seen n else enqueue seen n)) t th (E_Unlock k))
  | E_Unlock k => Some (goto (if lk then set_lock m k None else m) t th Idle)
  (* ---- owner path of qt_scheduler_get_thread on the own queue *)
  | D_Peek =>                                                             (* `else if (q->head)`: unlocked *)
      match items (qat m home) with
      | [] => Some (finish m t th None)                                   (* skipped attempt *)
      | _ :: _ => Some (goto m t th D_Lock)
      end
  | D_Lock =>
      match lockat m home with
      | None => Some (goto (set_lock m home (Some t)) t th (D_Body (qat m home)))
      | Some _ => None
      end
  | D_Body seen =>                                                        (* node = q->tail ... if (node != NULL) {...} *)
      let '(o, q') := dequeue_worker seen (t_w th) in
      Some (goto (set_q m home q') t th (D_Unlock o))
  | D_Unlock o => Some (goto (set_lock m home None) t th (D_Fin o))
  | D_Fin o =>                                                            (* McCoy: `if (my_shepherd->stealing) stealing = 0;` *)
      let m1 := match o with
                | Some n => if mccoy n && negb (stat m home =? 0) then set_steal m home 0 else m
                | None => m
                end in
      Some (finish m1 t th o)
  (* ---- qthread_steal by a worker of shepherd `home`, victim = the other shepherd *)
  | T_PeekFlag => if stat m home =? 0 then Some (goto m t th T_Cas) else Some (finish m t th None)
  | T_Cas =>
      if stat m home =? 0 then Some (goto (set_steal m home 1) t th T_PeekV) else Some (finish m t th None)
  | T_PeekV => if qstl (qat m vic) =? 0 then Some (goto m t th T_PeekOwn) else Some (goto m t th T_ReadD)
  | T_ReadD => Some (goto m t th (T_Try (desired (m_chunk m) (qat m vic))))
  | T_Try d =>
      match lockat m vic with
      | None => Some (goto (set_lock m vic (Some t)) t th (T_Body d (qat m vic)))
      | Some _ => Some (goto m t th T_PeekOwn)                            (* trylock failed: NULL *)
      end
  | T_Body d seen =>
      let '(s, v') := steal_with d seen in
      Some (goto (set_q m vic v') t th (T_Unlock s))
  | T_Unlock s =>
      let m1 := set_lock m vic None in
      match s with
      | [] => Some (goto m1 t th T_PeekOwn)
      | f :: [] => Some (goto m1 t th (T_Clear (Some f)))
      | f :: sur => Some (goto m1 t th (T_MLock f sur))
      end
  | T_MLock f sur =>
      match lockat m home with
      | None => Some (goto (set_lock m home (Some t)) t th (T_MBody f sur (qat m home)))
      | Some _ => None
      end
  | T_MBody f sur seen => Some (goto (set_q m home (enqueue_multiple seen sur)) t th (T_MUnlock f))
  | T_MUnlock f => Some (goto (set_lock m home None) t th (T_Clear (Some f)))
  | T_PeekOwn =>                                                          (* `if ((0 < myqueue->qlength) || steal_disable) break;` *)
      if (0 <? qlen (qat m home)) || m_dis m then Some (goto m t th (T_Clear None)) else Some (goto m t th T_Spin)
  | T_Spin => Some (goto m t th T_PeekV)
  | T_Clear r => Some (finish (set_steal m home 0) t th r)                (* thief_shepherd->stealing = 0; return stolen; *)
  end.

(* a schedule is a list of thread ids; a thread that cannot step makes the schedule infeasible *)
Fixpoint mrun (lk : bool) (m : mstate) (s : list nat) : option mstate :=
  match s with
  | [] => Some m
  | t :: s' => match mstep lk m t with Some m' => mrun lk m' s' | None => None end
  end.

(* initial state: two queues, nothing locked, no thief out *)
Definition mk_threads (cfg : list (nat * (nat * nat * list mop))) : list (nat * thread) :=
  map (fun e => (fst e, mkThr (fst (fst (snd e))) (snd (fst (snd e))) Idle (snd (snd e)) [])) cfg.
Definition minit (q0 q1 : queue) (chunk : Z) (dis : bool) (cfg : list (nat * (nat * nat * list mop))) : mstate :=
  mkM [q0; q1] [None; None] [0; 0] chunk dis (items q0 ++ items q1) [] (mk_threads cfg).

(* ---- ghost views used by the theorems ------------------------------------------------------------------------ *)
(* nodes in a thread's possession (neither in a queue nor returned yet) *)
Definition held (c : pc) : list node :=
  match c with
  | E_Lock _ n _ | E_Body _ n _ _ => [n]
  | D_Unlock o | D_Fin o | T_Clear o => olist o
  | T_Unlock s => s
  | T_MLock f sur | T_MBody f sur _ => f :: sur
  | T_MUnlock f => [f]
  | _ => []
  end.
(* which qlock a thread at this program counter holds *)
Definition holds (home : nat) (c : pc) : option nat :=
  match c with
  | E_Body k _ _ _ | E_Unlock k => Some k
  | D_Body _ | D_Unlock _ | T_MBody _ _ _ | T_MUnlock _ => Some home
  | T_Body _ _ | T_Unlock _ => Some (other home)
  | _ => None
  end.
(* the queue value a thread inside a critical section works from *)
Definition seen_of (home : nat) (c : pc) : option (nat * queue) :=
  match c with
  | E_Body k _ _ s => Some (k, s)
  | D_Body s | T_MBody _ _ s => Some (home, s)
  | T_Body _ s => Some (other home, s)
  | _ => None
  end.

(* ---- the operations as atomic list-level steps (lock-acquisition order) ---------------------------------------- *)
Inductive aop :=
| AEnq (k : nat) (n : node) | AEnqY (k : nat) (n : node) | APop (k w : nat) | ASteal (k : nat) (d : Z) | AMulti (k : nat) (l : list node).
Definition astep (qs : list queue) (a : aop) : list queue :=
  match a with
  | AEnq k n => upd qs k (enqueue (nth k qs empty_queue) n)
  | AEnqY k n => upd qs k (enqueue_yielded (nth k qs empty_queue) n)
  | APop k w => upd qs k (snd (dequeue_worker (nth k qs empty_queue) w))
  | ASteal k d => upd qs k (snd (steal_with d (nth k qs empty_queue)))
  | AMulti k l => upd qs k (enqueue_multiple (nth k qs empty_queue) l)
  end.
Definition arun (qs : list queue) (h : list aop) : list queue := fold_left astep h qs.

(* ---- replay alphabet: a grant runs the thread's pending interposed access and then up to the next one ---------- *)
Inductive spk := KEnd | KLock | KTry | KUnlock | KCas | KSpin | KPlain.
Definition kind_of (c : pc) : spk :=
  match c with
  | Idle => KEnd
  | E_Lock _ _ _ | D_Lock | T_MLock _ _ => KLock
  | E_Unlock _ | D_Unlock _ | T_Unlock _ | T_MUnlock _ => KUnlock
  | T_Try _ => KTry
  | T_Cas => KCas
  | T_Spin => KSpin
  | _ => KPlain
  end.
Definition is_plain (c : pc) : bool := match kind_of c with KPlain => true | _ => false end.

Fixpoint run_plain (fuel : nat) (m : mstate) (t : nat) : mstate :=
  match fuel with
  | O => m
  | S f => if is_plain (t_pc (get_thr t (m_thr m))) then
             match mstep true m t with Some m' => run_plain f m' t | None => m end
           else m
  end.
(* a blocked LOCK (or a finished thread) leaves the state as it is: the failed attempt is a step of the replay *)
Definition run_to_sp (m : mstate) (t : nat) : mstate :=
  match mstep true m t with Some m' => run_plain 8 m' t | None => m end.
