(* C08 - pointer layer of the sherwood thread queue: a heap of nodes {next; prev; stealable; value} and head/tail
   pointers; the operations are written on pointers as in src/threadqueues/sherwood_threadqueues.c.
   Definitions only; PtrProofs.v shows that each operation keeps the heap well formed (doubly linked,
   head->prev = tail->next = NULL, acyclic) and that its abstraction is the list-level result of Model.v. *)
From Coq Require Import List Arith Bool.
From QV Require Import TQueue.Model.
Import ListNotations.

Record cell := mkCell { nx : option nat; pv : option nat; cst : bool; cval : node }.
Definition heap := nat -> cell.                       (* node address -> node *)
Record pq := mkPq { phd : option nat; ptl : option nat }.   (* q->head, q->tail *)

Definition upd_h (h : heap) (i : nat) (c : cell) : heap := fun j => if Nat.eqb j i then c else h j.
Definition set_nx (h : heap) (i : nat) (v : option nat) : heap := upd_h h i (mkCell v (pv (h i)) (cst (h i)) (cval (h i))).
Definition set_pv (h : heap) (i : nat) (v : option nat) : heap := upd_h h i (mkCell (nx (h i)) v (cst (h i)) (cval (h i))).

Definition opt_is (o : option nat) (i : nat) : bool := match o with Some j => Nat.eqb j i | None => false end.

(* qt_threadqueue_enqueue: node->next = NULL; node->prev = q->tail; q->tail = node;
   if (q->head == NULL) q->head = node; else node->prev->next = node; *)
Definition p_enqueue (h : heap) (q : pq) (i : nat) (v : node) : heap * pq :=
  let h1 := upd_h h i (mkCell None (ptl q) (stl v) v) in
  match phd q with
  | None => (h1, mkPq (Some i) (Some i))
  | Some _ => match ptl q with
              | Some t => (set_nx h1 t (Some i), mkPq (phd q) (Some i))
              | None => (h1, mkPq (phd q) (Some i))          (* NULL dereference in C; excluded by well-formedness *)
              end
  end.

(* qt_threadqueue_enqueue_yielded: node->prev = NULL; node->next = q->head; q->head = node;
   if (q->tail == NULL) q->tail = node; else node->next->prev = node; *)
Definition p_enqueue_yielded (h : heap) (q : pq) (i : nat) (v : node) : heap * pq :=
  let h1 := upd_h h i (mkCell (phd q) None (stl v) v) in
  match ptl q with
  | None => (h1, mkPq (Some i) (Some i))
  | Some _ => match phd q with
              | Some f => (set_pv h1 f (Some i), mkPq (Some i) (ptl q))
              | None => (h1, mkPq (Some i) (ptl q))
              end
  end.

(* the general unlink of the owner path (node = q->tail, or node = q->tail->prev when the tail is the McCoy task):
   if (node->next == NULL) q->tail = node->prev; else node->next->prev = node->prev;
   if (node->prev == NULL) q->head = node->next; else node->prev->next = node->next; *)
Definition p_unlink (h : heap) (q : pq) (i : nat) : heap * pq :=
  let n := nx (h i) in
  let p := pv (h i) in
  let '(h1, t1) := match n with None => (h, p) | Some j => (set_pv h j p, ptl q) end in
  let '(h2, f2) := match p with None => (h1, n) | Some j => (set_nx h1 j n, phd q) end in
  (h2, mkPq f2 t1).

(* which node the owner path takes: the tail, or the node in front of it when the tail is McCoy and w <> 0 *)
Definition p_pop_target (h : heap) (q : pq) (w : nat) : option nat :=
  match ptl q with
  | None => None
  | Some t => if mccoy (cval (h t)) && negb (Nat.eqb w 0) then pv (h t) else Some t
  end.

Definition p_pop (h : heap) (q : pq) (w : nat) : option nat * heap * pq :=
  match p_pop_target h q w with
  | None => (None, h, q)
  | Some i => let '(h', q') := p_unlink h q i in (Some i, h', q')
  end.

(* one "Patch up the victim queue" + "Update steal list" of qt_threadqueue_dequeue_steal: the run fs..ls leaves the victim
   and is appended to the thief's chain (cf, cl) *)
Definition p_splice (h : heap) (q : pq) (fs ls : nat) (chain : option (nat * nat)) : heap * pq * (nat * nat) :=
  let ln := nx (h ls) in
  let fp := pv (h fs) in
  (* if (first_stolen == v->head) v->head = last_stolen->next; else first_stolen->prev->next = last_stolen->next; *)
  let '(h1, f1) := if opt_is (phd q) fs then (h, ln)
                   else match fp with Some k => (set_nx h k ln, phd q) | None => (h, phd q) end in
  (* if (last_stolen == v->tail) v->tail = first_stolen->prev; else last_stolen->next->prev = first_stolen->prev; *)
  let '(h2, t2) := if opt_is (ptl q) ls then (h1, fp)
                   else match ln with Some k => (set_pv h1 k fp, ptl q) | None => (h1, ptl q) end in
  (* first_stolen->prev = last_stolen->next = NULL; *)
  let h3 := set_nx (set_pv h2 fs None) ls None in
  (* if (first == NULL) {first = first_stolen; last = last_stolen;} else {last->next = first_stolen; first_stolen->prev = last; last = last_stolen;} *)
  match chain with
  | None => (h3, mkPq f1 t2, (fs, ls))
  | Some (cf, cl) => (set_pv (set_nx h3 cl (Some fs)) fs (Some cl), mkPq f1 t2, (cf, ls))
  end.

(* qt_threadqueue_enqueue_multiple (the walk to `last` is given): last->next = NULL; first->prev = q->tail; q->tail = last;
   if (q->head == NULL) q->head = first; else first->prev->next = first; *)
Definition p_enqueue_multiple (h : heap) (q : pq) (first last : nat) : heap * pq :=
  let h1 := set_pv (set_nx h last None) first (ptl q) in
  match phd q with
  | None => (h1, mkPq (Some first) (Some last))
  | Some _ => match ptl q with
              | Some t => (set_nx h1 t (Some first), mkPq (phd q) (Some last))
              | None => (h1, mkPq (phd q) (Some last))
              end
  end.

(* ---- well-formedness and abstraction -------------------------------------------------------- *)
Definition ohd (b : list nat) (e : option nat) : option nat := match b with [] => e | j :: _ => Some j end.
Fixpoint olast (a : list nat) (p : option nat) : option nat := match a with [] => p | j :: r => olast r (Some j) end.

(* doubly linked segment: ids in order, prev of the first = p, next of the last = e *)
Fixpoint dl (h : heap) (p : option nat) (ids : list nat) (e : option nat) : Prop :=
  match ids with
  | [] => True
  | i :: rest => pv (h i) = p /\ nx (h i) = ohd rest e /\ dl h (Some i) rest e
  end.

Definition wf (h : heap) (q : pq) (ids : list nat) : Prop :=
  NoDup ids /\ phd q = ohd ids None /\ ptl q = olast ids None /\ dl h None ids None.

Definition abs (h : heap) (ids : list nat) : list node := map (fun i => cval (h i)) ids.
