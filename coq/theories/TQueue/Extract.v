From Coq Require Import List ZArith NArith.
From QV Require Import TQueue.Model.
Require Extraction.
Require Import ExtrOcamlBasic.
Extraction Language OCaml.
Extraction "../ocaml/gen/c08_model.ml" init_sys step run getq getst sim sched_run qrun next_idx dequeue_steal enqueue_multiple dequeue_worker wrun.
