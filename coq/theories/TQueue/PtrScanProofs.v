(* C08 - pointer layer, second part: the steal scan loop as a whole, the surplus cut of qthread_steal and
   qt_threadqueue_dequeue_specific (PtrScan.v) refine the list layer (Model.v); transfer of the list-level theorems. *)
From Coq Require Import List Arith Bool Lia ZArith NArith ZifyBool ZifyNat ZifyN Permutation.
From QV Require Import TQueue.Model TQueue.Proofs TQueue.PtrModel TQueue.PtrProofs TQueue.PtrScan.
Import ListNotations.
Local Open Scope Z_scope.

(* node->stealable is the stealable bit of the task the node carries (set by every enqueue) *)
Definition coh (h : heap) (ids : list nat) : Prop := forall i, In i ids -> cst (h i) = stl (cval (h i)).
Definition pexact (h : heap) (v : pqc) (ids : list nat) : Prop := exact (mkQ (abs h ids) (pql v) (pqs v)).

(* ---- small facts about the heap updates ---------------------------------------------------------------------- *)
Lemma set_nx_cst : forall h i v j, cst (set_nx h i v j) = cst (h j).
Proof. intros h i v j. unfold set_nx, upd_h. destruct (Nat.eqb_spec j i) as [->|]; reflexivity. Qed.
Lemma set_pv_cst : forall h i v j, cst (set_pv h i v j) = cst (h j).
Proof. intros h i v j. unfold set_pv, upd_h. destruct (Nat.eqb_spec j i) as [->|]; reflexivity. Qed.

Ltac cstn := repeat first [rewrite set_pv_cst | rewrite set_nx_cst | rewrite set_pv_cval | rewrite set_nx_cval].

Lemma wf_ext : forall h h' q ids, (forall x, nx (h' x) = nx (h x) /\ pv (h' x) = pv (h x)) -> wf h q ids -> wf h' q ids.
Proof.
  intros h h' q ids He (H1 & H2 & H3 & H4). repeat split; try assumption. eapply dl_ext; [|exact H4]. intros x _. apply He.
Qed.

Lemma abs_cval : forall h h' ids, (forall x, cval (h' x) = cval (h x)) -> abs h' ids = abs h ids.
Proof. intros. apply abs_ext. assumption. Qed.

Lemma olast_default : forall r j, olast r (Some j) = Some (match olast r None with Some l => l | None => j end).
Proof. destruct r as [|x r]; intros j; [reflexivity|]. cbn [olast]. destruct r as [|y r' _] using rev_ind; [reflexivity|]. rewrite !olast_snoc. reflexivity. Qed.

Lemma p_splice_pres : forall h q fs ls chain h' q' ch', p_splice h q fs ls chain = (h', q', ch') ->
  forall x, cst (h' x) = cst (h x).
Proof.
  intros h q fs ls chain h' q' ch' H x. unfold p_splice in H.
  destruct (opt_is (phd q) fs); destruct (pv (h fs)); destruct (opt_is (ptl q) ls); destruct (nx (h ls)); destruct chain as [[cf cl]|];
    inversion H; subst; cstn; reflexivity.
Qed.

Ltac hn := repeat first [rewrite set_nx_pv | rewrite set_pv_nx | rewrite set_nx_nx_same | rewrite set_pv_pv_same
                        | rewrite set_nx_nx_other by congruence | rewrite set_pv_pv_other by congruence].

Lemma p_enqueue_multiple_frame : forall h q first last h' q', p_enqueue_multiple h q first last = (h', q') ->
  forall x, (x <> last -> ptl q <> Some x -> nx (h' x) = nx (h x)) /\ (x <> first -> pv (h' x) = pv (h x)) /\ cst (h' x) = cst (h x).
Proof.
  intros h q first last h' q' H x. unfold p_enqueue_multiple in H.
  destruct (phd q); [destruct (ptl q) as [t|] eqn:Et|]; inversion H; subst; repeat split; intros; cstn; hn; reflexivity.
Qed.

(* ---- qt_threadqueue_enqueue_multiple's walk, and the surplus cut ------------------------------------------------ *)
Lemma p_walk_spec : forall c h p first fuel cnt0, dl h p c None -> ohd c None = Some first -> (length c <= fuel)%nat ->
  exists last, olast c None = Some last /\ p_walk fuel h first cnt0 = (last, cnt0 + Z.of_nat (length c) - 1).
Proof.
  induction c as [|x r IH]; intros h p first fuel cnt0 Hd Hf Hl; [discriminate|].
  cbn in Hf. inversion Hf; subst x. cbn [dl] in Hd. destruct Hd as (_ & Hn & Hr).
  destruct fuel as [|f]; [cbn in Hl; lia|]. cbn [p_walk]. rewrite Hn. destruct r as [|j r'].
  - cbn [ohd]. exists first. split; [reflexivity|]. f_equal. cbn [length]. lia.
  - cbn [ohd]. destruct (IH h (Some first) j f (cnt0 + 1) Hr eq_refl ltac:(cbn [length] in *; lia)) as (last & Ho & Hw).
    exists last. split; [exact Ho|]. rewrite Hw. f_equal. cbn [length]. lia.
Qed.

Theorem ptr_surplus_cut_refines : forall fuel h mine tids sids stolen h' mine',
  wf h (pq_of mine) tids -> NoDup sids -> (forall x, In x sids -> ~ In x tids) -> dl h None sids None ->
  ohd sids None = Some stolen -> (length sids <= fuel)%nat ->
  p_surplus_cut fuel h mine stolen = (h', mine') ->
  wf h' (pq_of mine') (tids ++ tl sids) /\
  nx (h' stolen) = None /\ pv (h' stolen) = None /\
  (forall x, cval (h' x) = cval (h x) /\ cst (h' x) = cst (h x)) /\
  mkQ (abs h' (tids ++ tl sids)) (pql mine') (pqs mine') = enqueue_multiple (mkQ (abs h tids) (pql mine) (pqs mine)) (abs h (tl sids)).
Proof.
  intros fuel h mine tids sids stolen h' mine' Hwf Hnd Hdis Hdl Hf Hlen H.
  destruct sids as [|x sur]; [discriminate|]. cbn in Hf. inversion Hf; subst x. cbn [tl].
  cbn [dl] in Hdl. destruct Hdl as (Hpv & Hnx & Hsur). inversion Hnd as [|? ? Hni Hnds]; subst.
  unfold p_surplus_cut in H. rewrite Hnx in H. destruct sur as [|s r].
  - cbn [ohd] in H. inversion H; subst. rewrite app_nil_r. cbn [abs map enqueue_multiple]. split; [exact Hwf|]. repeat split; auto.
  - cbn [ohd] in H.
    assert (Hst : ~ In stolen tids) by (apply Hdis; left; reflexivity).
    assert (Hstids : forall y, In y (s :: r) -> ~ In y tids) by (intros y Hy; apply Hdis; right; exact Hy).
    set (h1 := set_pv (set_nx h stolen None) s None) in *.
    assert (Hs1 : dl h1 None (s :: r) None).
    { unfold h1. inversion Hnds; subst. eapply dl_cons_set; [|assumption]. apply dl_set_nx_frame; [exact Hni | exact Hsur]. }
    assert (Hw1 : wf h1 (pq_of mine) tids).
    { destruct Hwf as (W1 & W2 & W3 & W4). repeat split; try assumption. unfold h1.
      apply dl_set_pv_frame; [apply Hstids; left; reflexivity|]. apply dl_set_nx_frame; assumption. }
    unfold p_enqueue_multiple_c in H.
    destruct (p_walk_spec (s :: r) h1 None s fuel 1 Hs1 eq_refl ltac:(cbn [length] in *; lia)) as (last & Hlast & Hw).
    remember (1 + Z.of_nat (length (s :: r)) - 1) as cnt1 eqn:Ecnt.
    rewrite Hw in H. destruct (p_enqueue_multiple h1 (pq_of mine) s last) as [h2 q2] eqn:Em. injection H as E1 E2. subst h' mine'.
    destruct (ptr_enqueue_multiple_refines _ _ _ _ _ _ _ _ _ _ Hw1 Hnds Hstids Hs1 eq_refl Hlast Em) as (Hwf2 & Hcv2 & Habs2).
    assert (Hlin : In last (s :: r)) by (eapply olast_in; [exact Hlast | discriminate]).
    assert (Hstl : stolen <> last) by (intros ->; contradiction).
    assert (Hsts : stolen <> s) by (intros ->; apply Hni; left; reflexivity).
    assert (Htl : ptl (pq_of mine) <> Some stolen).
    { intros E. destruct Hwf as (_ & _ & W3 & _). rewrite W3 in E. destruct tids as [|t0 tt]; [discriminate|].
      apply Hst. eapply olast_in; [exact E | discriminate]. }
    destruct (p_enqueue_multiple_frame _ _ _ _ _ _ Em stolen) as (F1 & F2 & _).
    cbn [pq_of pql pqs]. split; [exact Hwf2|]. split; [|split; [|split]].
    + rewrite (F1 Hstl Htl). unfold h1. rewrite set_pv_nx, set_nx_nx_same. reflexivity.
    + rewrite (F2 Hsts). unfold h1. rewrite set_pv_pv_other by exact Hsts. rewrite set_nx_pv. exact Hpv.
    + intros y. destruct (p_enqueue_multiple_frame _ _ _ _ _ _ Em y) as (_ & _ & F3). split.
      * rewrite Hcv2. unfold h1. rewrite set_pv_cval, set_nx_cval. reflexivity.
      * rewrite F3. unfold h1. rewrite set_pv_cst, set_nx_cst. reflexivity.
    + assert (Hc1 : forall y, cval (h1 y) = cval (h y)) by (intros y; unfold h1; rewrite set_pv_cval, set_nx_cval; reflexivity).
      rewrite Habs2, !(abs_cval h h1) by exact Hc1.
      assert (Hlen2 : length (abs h (s :: r)) = length (s :: r)) by (unfold abs; apply map_length).
      remember (abs h (s :: r)) as L eqn:EL. destruct L as [|c0 cr]; [discriminate|]. unfold enqueue_multiple.
      cbn [items qlen qstl]. f_equal; lia.
Qed.

(* ---- qt_threadqueue_dequeue_specific ---------------------------------------------------------------------------- *)
(* the walk along prev from the tail is Model.find_ret on the reversed list *)
Lemma p_find_ret_spec : forall ids h e val fuel, dl h None ids e -> (length ids <= fuel)%nat ->
  (p_find_ret fuel h (olast ids None) val = None /\ find_ret (rev (abs h ids)) val = None) \/
  (exists A i B, ids = A ++ i :: B /\ p_find_ret fuel h (olast ids None) val = Some i /\
                 find_ret (rev (abs h ids)) val = Some (rev (abs h B), cval (h i), rev (abs h A))).
Proof.
  induction ids as [|i l IH] using rev_ind; intros h e val fuel Hd Hl.
  - left. destruct fuel; split; reflexivity.
  - rewrite app_length in Hl. cbn [length] in Hl. destruct fuel as [|f]; [lia|].
    rewrite olast_snoc. cbn [p_find_ret]. unfold abs. rewrite map_app, rev_app_distr. cbn [map rev app find_ret].
    destruct (N.eqb (retv (cval (h i))) val) eqn:Ev.
    + right. exists l, i, []. repeat split.
    + pose proof (dl_last_pv _ _ _ _ _ Hd) as Hpv. rewrite Hpv.
      apply dl_app in Hd. destruct Hd as [Hd1 _]. cbn [ohd] in Hd1.
      destruct (IH h (Some i) val f Hd1 ltac:(lia)) as [[H1 H2]|(A & j & B & HA & H1 & H2)].
      * left. split; [exact H1|]. fold (abs h l). rewrite H2. reflexivity.
      * right. exists A, j, (B ++ [i]). split; [rewrite HA, <- app_assoc; reflexivity|]. split; [exact H1|].
        fold (abs h l). rewrite H2. unfold abs. rewrite map_app, rev_app_distr. reflexivity.
Qed.

Lemma p_move_to_tail_pres : forall h q i h' q', p_move_to_tail h q i = (h', q') ->
  forall x, cval (h' x) = cval (h x) /\ cst (h' x) = cst (h x).
Proof.
  intros h q i h' q' H x. unfold p_move_to_tail in H.
  destruct (ptl q) as [t|]; [|inversion H; subst; split; reflexivity].
  destruct (Nat.eqb i t); [inversion H; subst; split; reflexivity|].
  destruct (opt_is (phd q) i); destruct (pv (h i)); destruct (nx (h i)); inversion H; subst; split; cstn; reflexivity.
Qed.

(* the stores of p_move_to_tail are, cell by cell, those of the steal splice of the one-node run [i] followed by
   enqueue_multiple of that node *)
Lemma move_cells : forall (h2 : heap) i t x,
  set_nx (set_pv (set_nx h2 i None) i (Some t)) t (Some i) x =
  set_nx (set_pv (set_nx (set_nx (set_pv h2 i None) i None) i None) i (Some t)) t (Some i) x.
Proof.
  intros h2 i t x. unfold set_nx, set_pv, upd_h.
  destruct (Nat.eqb_spec x t) as [->|Hxt]; destruct (Nat.eqb_spec t i) as [->|Hti]; rewrite ?Nat.eqb_refl; cbn;
    try reflexivity; destruct (Nat.eqb_spec x i) as [->|Hxi]; rewrite ?Nat.eqb_refl; cbn; try reflexivity; try congruence.
Qed.

Theorem ptr_dequeue_specific_refines : forall fuel h v ids val o h' v',
  wf h (pq_of v) ids -> (length ids <= fuel)%nat ->
  p_dequeue_specific fuel h v val = (o, h', v') ->
  exists ids', wf h' (pq_of v') ids' /\ Permutation ids' ids /\
    (forall x, cval (h' x) = cval (h x) /\ cst (h' x) = cst (h x)) /\
    dequeue_specific (mkQ (abs h ids) (pql v) (pqs v)) val =
      (match o with Some i => Some (cval (h i)) | None => None end, mkQ (abs h' ids') (pql v') (pqs v')).
Proof.
  intros fuel h v ids val o h' v' Hwf Hlen H. pose proof Hwf as (Hnd & Hhd & Htl & Hdl).
  unfold p_dequeue_specific in H. unfold dequeue_specific. cbn [qlen items qstl].
  destruct (0 <? pql v) eqn:Eq.
  2:{ inversion H; subst. exists ids. repeat split; auto. }
  rewrite Htl in H.
  destruct (p_find_ret_spec ids h None val fuel Hdl Hlen) as [[H1 H2]|(A & i & B & HA & H1 & H2)].
  - rewrite H1 in H. inversion H; subst. rewrite H2. exists ids. repeat split; auto.
  - rewrite H1 in H. rewrite H2.
    destruct (p_move_to_tail h (pq_of v) i) as [h3 q3] eqn:Em. inversion H; subst o h' v'. clear H. cbn [pq_of pql pqs].
    pose proof (p_move_to_tail_pres _ _ _ _ _ Em) as Hpres.
    assert (Habs : forall l, abs h3 l = abs h l) by (intros l; apply abs_cval; intros x; apply Hpres).
    rewrite !rev_involutive.
    exists (A ++ B ++ [i]). split; [|split; [|split]].
    2:{ rewrite HA. apply Permutation_app_head. apply Permutation_sym. apply Permutation_cons_append. }
    2:{ exact Hpres. }
    2:{ rewrite Habs. unfold abs. rewrite !map_app. reflexivity. }
    (* the links *)
    unfold p_move_to_tail in Em. rewrite Htl in Em. subst ids.
    destruct B as [|b0 B'] using rev_ind.
    + (* i is the tail: nothing moves *)
      rewrite olast_snoc in Em. rewrite Nat.eqb_refl in Em. inversion Em; subst. cbn [app]. exact Hwf.
    + clear IHB'. rename b0 into t. 
      assert (Etl : olast (A ++ i :: B' ++ [t]) None = Some t).
      { replace (A ++ i :: B' ++ [t]) with ((A ++ i :: B') ++ [t]) by (rewrite <- app_assoc; reflexivity). apply olast_snoc. }
      rewrite Etl in Em.
      assert (Hit : i <> t).
      { intros ->. apply NoDup_remove_2 in Hnd. apply Hnd. apply in_or_app. right. apply in_or_app. right. left. reflexivity. }
      destruct (Nat.eqb_spec i t) as [|_]; [contradiction|].
      (* the same stores through the splice of the run [i] and enqueue_multiple of [i] *)
      destruct (p_splice h (pq_of v) i i None) as [[hS qS] chS] eqn:Es.
      assert (Hw0 : wf h (pq_of v) (A ++ [i] ++ (B' ++ [t]))) by exact Hwf.
      destruct (ptr_splice_refines _ _ _ _ _ _ _ [] None _ _ _ Hw0 eq_refl eq_refl (NoDup_nil _) ltac:(intros x []) I eq_refl Es)
        as (HwS & _ & HdS & _ & _ & HcvS).
      cbn [app] in HdS.
      assert (HiAB : ~ In i (A ++ B' ++ [t])) by (apply NoDup_remove_2 in Hnd; exact Hnd).
      destruct (p_enqueue_multiple hS qS i i) as [hE qE] eqn:Ee.
      destruct (ptr_enqueue_multiple_refines _ _ _ [i] None None i i _ _ HwS ltac:(repeat constructor; intros [])
                  ltac:(intros x [<-|[]]; exact HiAB) HdS eq_refl eq_refl Ee) as (HwE & _ & _).
      (* unfold both computations *)
      unfold p_splice in Es.
      assert (Hti : opt_is (ptl (pq_of v)) i = false).
      { rewrite Htl, Etl. cbn [opt_is]. apply Nat.eqb_neq. congruence. }
      rewrite Hti in Es.
      destruct HwS as (_ & HhS & HtS & _).
      unfold p_enqueue_multiple in Ee.
      destruct (if opt_is (phd (pq_of v)) i then (h, nx (h i))
                else match pv (h i) with Some k => (set_nx h k (nx (h i)), phd (pq_of v)) | None => (h, phd (pq_of v)) end) as [h1 f1] eqn:E1.
      assert (Hnxi : nx (h i) <> None).
      { apply dl_app in Hdl. destruct Hdl as [_ Hdl]. cbn [dl] in Hdl. destruct Hdl as (_ & Hn & _). rewrite Hn.
        destruct B'; discriminate. }
      destruct (nx (h i)) as [j|] eqn:Enx; [|contradiction].
      injection Es as <- <- _.
      cbn [phd ptl] in Ee, HhS, HtS.
      assert (Hf1 : exists f0, f1 = Some f0).
      { rewrite HhS. destruct A; cbn; [destruct B'; cbn|]; eexists; reflexivity. }
      destruct Hf1 as [f0 ->]. rewrite Htl, Etl in Ee. injection Ee as <- <-.
      injection Em as <- <-.
      replace (A ++ (B' ++ [t]) ++ [i]) with ((A ++ B' ++ [t]) ++ [i]) by (rewrite <- !app_assoc; reflexivity).
      eapply wf_ext; [|exact HwE]. intros x. rewrite <- move_cells. split; reflexivity.
Qed.

(* ---- qt_threadqueue_dequeue_steal: the scan loop as a whole ------------------------------------------------------- *)
(* Model.scan over node addresses *)
Fixpoint scan_i (st : nat -> bool) (l : list nat) (run : bool) (amt ql qs d : Z) : list nat * list nat * Z * Z :=
  match l with
  | [] => ([], [], ql, qs)
  | n :: tl =>
      if run then
        if amt <? d then
          if st n then
            let '(k, s, ql', qs') := scan_i st tl true (amt + 1) (ql - 1) (qs - 1) d in (k, n :: s, ql', qs')
          else if 0 <? qs then
            let '(k, s, ql', qs') := scan_i st tl false amt ql qs d in (n :: k, s, ql', qs')
          else (l, [], ql, qs)
        else (l, [], ql, qs)
      else
        if st n then
          let '(k, s, ql', qs') := scan_i st tl true (amt + 1) (ql - 1) (qs - 1) d in (k, n :: s, ql', qs')
        else
          let '(k, s, ql', qs') := scan_i st tl false amt ql qs d in (n :: k, s, ql', qs')
  end.

Lemma scan_i_abs : forall (st : nat -> bool) (cv : nat -> node) l run amt ql qs d,
  (forall i, In i l -> st i = stl (cv i)) ->
  scan (map cv l) run amt ql qs d = let '(k, s, ql', qs') := scan_i st l run amt ql qs d in (map cv k, map cv s, ql', qs').
Proof.
  induction l as [|n tl IH]; intros run amt ql qs d Hc; [reflexivity|].
  assert (Hn : st n = stl (cv n)) by (apply Hc; left; reflexivity).
  assert (Ht : forall i, In i tl -> st i = stl (cv i)) by (intros i Hi; apply Hc; right; exact Hi).
  cbn [map scan scan_i]. rewrite <- Hn.
  destruct run; [destruct (amt <? d); [|reflexivity]|]; destruct (st n).
  - rewrite (IH true (amt + 1) (ql - 1) (qs - 1) d Ht). destruct (scan_i st tl true (amt + 1) (ql - 1) (qs - 1) d) as [[[k s] a] b]. reflexivity.
  - destruct (0 <? qs); [|reflexivity]. rewrite (IH false amt ql qs d Ht). destruct (scan_i st tl false amt ql qs d) as [[[k s] a] b]. reflexivity.
  - rewrite (IH true (amt + 1) (ql - 1) (qs - 1) d Ht). destruct (scan_i st tl true (amt + 1) (ql - 1) (qs - 1) d) as [[[k s] a] b]. reflexivity.
  - rewrite (IH false amt ql qs d Ht). destruct (scan_i st tl false amt ql qs d) as [[[k s] a] b]. reflexivity.
Qed.

Lemma scan_i_ext : forall (st st' : nat -> bool) l run amt ql qs d, (forall i, st' i = st i) ->
  scan_i st' l run amt ql qs d = scan_i st l run amt ql qs d.
Proof.
  induction l as [|n tl IH]; intros run amt ql qs d He; [reflexivity|]. cbn [scan_i]. rewrite (He n).
  rewrite !(IH _ _ _ _ _ He). reflexivity.
Qed.

Lemma scan_i_perm : forall st l run amt ql qs d k s ql' qs', scan_i st l run amt ql qs d = (k, s, ql', qs') -> Permutation (k ++ s) l.
Proof.
  induction l as [|n tl IH]; intros run amt ql qs d k s ql' qs' H; cbn [scan_i] in H.
  - inversion H; subst. constructor.
  - assert (Hstop : (n :: tl, @nil nat, ql, qs) = (k, s, ql', qs') -> Permutation (k ++ s) (n :: tl)).
    { intros E. inversion E; subst. rewrite app_nil_r. apply Permutation_refl. }
    assert (Htake : forall a b c, (let '(k0, s0, ql0, qs0) := scan_i st tl true a b c d in (k0, n :: s0, ql0, qs0)) = (k, s, ql', qs') ->
                                  Permutation (k ++ s) (n :: tl)).
    { intros a b c E. destruct (scan_i st tl true a b c d) as [[[k0 s0] x] y] eqn:E0. inversion E; subst.
      apply Permutation_sym. apply Permutation_cons_app. apply Permutation_sym. eapply IH; eassumption. }
    assert (Hkeep : forall a b c, (let '(k0, s0, ql0, qs0) := scan_i st tl false a b c d in (n :: k0, s0, ql0, qs0)) = (k, s, ql', qs') ->
                                  Permutation (k ++ s) (n :: tl)).
    { intros a b c E. destruct (scan_i st tl false a b c d) as [[[k0 s0] x] y] eqn:E0. inversion E; subst.
      cbn [app]. constructor. eapply IH; eassumption. }
    destruct run; [destruct (amt <? d); [|auto]|]; destruct (st n); eauto. destruct (0 <? qs); eauto.
Qed.

(* find mode passes over an unstealable prefix *)
Lemma scan_i_skip : forall st u l amt ql qs d, (forall i, In i u -> st i = false) ->
  scan_i st (u ++ l) false amt ql qs d = let '(k, s, ql', qs') := scan_i st l false amt ql qs d in (u ++ k, s, ql', qs').
Proof.
  induction u as [|n tl IH]; intros l amt ql qs d Hu; cbn [app].
  - destruct (scan_i st l false amt ql qs d) as [[[k s] a] b]. reflexivity.
  - cbn [scan_i]. rewrite (Hu n (or_introl eq_refl)). rewrite IH by (intros i Hi; apply Hu; right; exact Hi).
    destruct (scan_i st l false amt ql qs d) as [[[k s] a] b]. reflexivity.
Qed.
Lemma scan_i_none : forall st l amt ql qs d, (forall i, In i l -> st i = false) -> scan_i st l false amt ql qs d = (l, [], ql, qs).
Proof.
  intros st l amt ql qs d H. pose proof (scan_i_skip st l [] amt ql qs d H) as E. rewrite app_nil_r in E. rewrite E. cbn. rewrite app_nil_r. reflexivity.
Qed.
(* after a run: the do-while condition holds and the cursor is absent or unstealable -> the scan goes on in find mode *)
Lemma scan_i_true_false : forall st l amt ql qs d, amt < d -> 0 < qs ->
  match l with [] => True | j :: _ => st j = false end ->
  scan_i st l true amt ql qs d = scan_i st l false amt ql qs d.
Proof.
  intros st [|j tl] amt ql qs d Ha Hq Hj; [reflexivity|]. cbn [scan_i]. rewrite Hj.
  replace (amt <? d) with true by lia. replace (0 <? qs) with true by lia. reflexivity.
Qed.
(* ... or the loop ends *)
Lemma scan_i_stop : forall st l amt ql qs d, (amt < d -> match l with [] => True | j :: _ => st j = false end) ->
  (0 <? qs) && (amt <? d) = false -> scan_i st l true amt ql qs d = (l, [], ql, qs).
Proof.
  intros st [|j tl] amt ql qs d Hj Hc; [reflexivity|]. cbn [scan_i].
  destruct (amt <? d) eqn:Ea; [|reflexivity]. rewrite (Hj ltac:(lia)). rewrite andb_true_r in Hc. rewrite Hc. reflexivity.
Qed.

(* "Find next stealable node" on a segment that ends the queue *)
Lemma p_find_spec : forall rest h p fuel, dl h p rest None -> (length rest <= fuel)%nat ->
  (p_find fuel h (ohd rest None) = None /\ forall i, In i rest -> cst (h i) = false) \/
  (exists u fs r, rest = u ++ fs :: r /\ (forall i, In i u -> cst (h i) = false) /\ cst (h fs) = true /\
                  p_find fuel h (ohd rest None) = Some fs).
Proof.
  induction rest as [|n tl IH]; intros h p fuel Hd Hl.
  - left. split; [destruct fuel; reflexivity | intros i []].
  - cbn [length] in Hl. destruct fuel as [|f]; [lia|]. cbn [ohd p_find]. cbn [dl] in Hd. destruct Hd as (_ & Hn & Hr).
    destruct (cst (h n)) eqn:Ec.
    + right. exists [], n, tl. repeat split; auto. intros i [].
    + rewrite Hn. destruct (IH h (Some n) f Hr ltac:(lia)) as [[H1 H2]|(u & fs & r & E & Hu & Hf & H1)].
      * left. split; [exact H1|]. intros i [<-|Hi]; auto.
      * right. exists (n :: u), fs, r. subst tl. repeat split; auto. intros i [<-|Hi]; auto.
Qed.

(* "Find next unstealable node, or amount we want to steal" *)
Lemma p_run_spec : forall r h ls0 fuel amt ql qs d, dl h (Some ls0) r None -> (length r <= fuel)%nat ->
  exists r1 r2 amt' ql' qs',
    r = r1 ++ r2 /\ (forall i, In i r1 -> cst (h i) = true) /\
    amt' = amt + Z.of_nat (length r1) /\ ql' = ql - Z.of_nat (length r1) /\ qs' = qs - Z.of_nat (length r1) /\
    p_run fuel h ls0 (ohd r None) amt ql qs d = (match olast r1 None with Some l => l | None => ls0 end, amt', ql', qs') /\
    (amt' < d -> match r2 with [] => True | j :: _ => cst (h j) = false end) /\
    scan_i (fun i => cst (h i)) r true amt ql qs d =
      (let '(k, s, a, b) := scan_i (fun i => cst (h i)) r2 true amt' ql' qs' d in (k, r1 ++ s, a, b)).
Proof.
  induction r as [|j r' IH]; intros h ls0 fuel amt ql qs d Hd Hl.
  - exists [], [], amt, ql, qs. cbn [app length olast ohd scan_i]. repeat split; try lia; try (intros i []).
    destruct fuel; cbn [p_run]; [reflexivity|]. destruct (amt <? d); reflexivity.
  - cbn [length] in Hl. destruct fuel as [|f]; [lia|]. cbn [dl] in Hd. destruct Hd as (_ & Hn & Hr). cbn [ohd p_run scan_i].
    destruct (amt <? d) eqn:Ea.
    + destruct (cst (h j)) eqn:Ec.
      * destruct (IH h j f (amt + 1) (ql - 1) (qs - 1) d Hr ltac:(lia)) as (r1 & r2 & a' & l' & s' & E & H1 & Ha & Hq & Hs & Hp & Hc & Hsc).
        exists (j :: r1), r2, a', l', s'. cbn [app length]. rewrite Hn, Hp, Hsc.
        split; [rewrite E; reflexivity|]. split; [intros i [<-|Hi]; auto|]. split; [lia|]. split; [lia|]. split; [lia|].
        split; [|split; [exact Hc|]].
        -- cbn [olast]. rewrite olast_default. reflexivity.
        -- destruct (scan_i (fun i => cst (h i)) r2 true a' l' s' d) as [[[k s] x] y]. reflexivity.
      * exists [], (j :: r'), amt, ql, qs. cbn [app length olast scan_i]. rewrite Ea, Ec.
        repeat split; try lia; try (intros i []); auto.
        destruct (0 <? qs); [destruct (scan_i (fun i => cst (h i)) r' false amt ql qs d) as [[[k s] x] y]|]; reflexivity.
    + exists [], (j :: r'), amt, ql, qs. cbn [app length olast scan_i]. rewrite Ea.
      repeat split; try lia; try (intros i []); auto.
Qed.

Definition chain_ok (chain : option (nat * nat)) (sc : list nat) : Prop :=
  match chain with
  | None => sc = []
  | Some (cf, cl) => ohd sc None = Some cf /\ olast sc None = Some cl /\ sc <> []
  end.

(* the do-while loop: victim = a ++ rest with the cursor at the head of rest, steal chain so far = sc *)
Lemma p_scan_spec : forall fuel n h q a rest sc chain amt ql qs d h' q' chain' ql' qs',
  wf h q (a ++ rest) -> NoDup sc -> (forall x, In x sc -> ~ In x (a ++ rest)) -> dl h None sc None -> chain_ok chain sc ->
  (length rest <= fuel)%nat -> (length rest <= n)%nat ->
  p_scan fuel n h q (ohd rest None) chain amt ql qs d = (h', q', chain', ql', qs') ->
  forall k s ql2 qs2, scan_i (fun i => cst (h i)) rest false amt ql qs d = (k, s, ql2, qs2) ->
  wf h' q' (a ++ k) /\ NoDup (sc ++ s) /\ dl h' None (sc ++ s) None /\ chain_ok chain' (sc ++ s) /\ ql' = ql2 /\ qs' = qs2 /\
  (forall x, cval (h' x) = cval (h x) /\ cst (h' x) = cst (h x)).
Proof.
  induction fuel as [|f IH]; intros n h q a rest sc chain amt ql qs d h' q' chain' ql' qs' Hwf Hnds Hdis Hdsc Hch Hlf Hln H k s ql2 qs2 Hsc.
  - destruct rest; [|cbn in Hlf; lia]. cbn [p_scan] in H. inversion H; subst. cbn [scan_i] in Hsc. inversion Hsc; subst.
    rewrite !app_nil_r in *. split; [exact Hwf|]. repeat split; auto.
  - cbn [p_scan] in H. pose proof Hwf as (Hnd & Hhd & Htl & Hdl).
    apply dl_app in Hdl. destruct Hdl as [Hda Hdr].
    destruct (p_find_spec rest h (olast a None) n Hdr Hln) as [[Hf Hall]|(u & fs & r & Er & Hu & Hfs & Hf)]; rewrite Hf in H.
    + rewrite (scan_i_none _ rest amt ql qs d Hall) in Hsc. inversion Hsc; subst. inversion H; subst.
      rewrite !app_nil_r. split; [exact Hwf|]. repeat split; auto.
    + subst rest.
      rewrite (scan_i_skip _ u (fs :: r) amt ql qs d Hu) in Hsc. cbn [scan_i] in Hsc. rewrite Hfs in Hsc.
      (* the run *)
      apply dl_app in Hdr. destruct Hdr as [Hdu Hdfr]. cbn [dl] in Hdfr. destruct Hdfr as (Hpfs & Hnfs & Hdr').
      rewrite app_length in Hlf, Hln. cbn [length] in Hlf, Hln.
      destruct (p_run_spec r h fs n (amt + 1) (ql - 1) (qs - 1) d Hdr' ltac:(lia))
        as (r1 & r2 & amt1 & ql1 & qs1 & Er & Hr1 & Ea & Eql & Eqs & Hp & Hcur & Hscan).
      rewrite Hnfs, Hp in H. rewrite Hscan in Hsc. subst r.
      set (ls := match olast r1 None with Some l => l | None => fs end) in *.
      assert (Hls : olast (fs :: r1) None = Some ls) by (cbn [olast]; rewrite olast_default; reflexivity).
      (* the node after the run *)
      assert (Hnxt : nx (h ls) = ohd r2 None).
      { assert (Hseg : dl h (olast u (olast a None)) ((fs :: r1) ++ r2) None).
        { cbn [app dl]. repeat split; assumption. }
        apply dl_app in Hseg. destruct Hseg as [Hseg _].
        destruct (fs :: r1) as [|x0 l0] eqn:El using rev_ind; [discriminate|]. rewrite olast_snoc in Hls. inversion Hls; subst x0.
        eapply dl_last_nx. exact Hseg. }
      rewrite Hnxt in H.
      (* the splice *)
      destruct (p_splice h q fs ls chain) as [[h1 q1] ch1] eqn:Esp.
      assert (Hw0 : wf h q ((a ++ u) ++ (fs :: r1) ++ r2)).
      { replace ((a ++ u) ++ (fs :: r1) ++ r2) with (a ++ u ++ fs :: r1 ++ r2) by (rewrite <- app_assoc; reflexivity). exact Hwf. }
      assert (Hdis0 : forall x, In x sc -> ~ In x ((a ++ u) ++ (fs :: r1) ++ r2)).
      { intros x Hx. replace ((a ++ u) ++ (fs :: r1) ++ r2) with (a ++ u ++ fs :: r1 ++ r2) by (rewrite <- app_assoc; reflexivity). apply Hdis. exact Hx. }
      assert (Hch0 : match chain with None => sc = [] | Some (cf, cl) => ohd sc None = Some cf /\ olast sc None = Some cl /\ sc <> [] end) by exact Hch.
      destruct (ptr_splice_refines _ _ _ _ _ _ _ _ _ _ _ _ Hw0 eq_refl Hls Hnds Hdis0 Hdsc Hch0 Esp)
        as (Hw1 & Hnd1 & Hd1 & Hhd1 & Hcl1 & Hcv1).
      pose proof (p_splice_pres _ _ _ _ _ _ _ _ Esp) as Hcs1.
      destruct ch1 as [cf1 cl1]. cbn [fst snd] in Hhd1, Hcl1. subst cl1.
      assert (Hch1 : chain_ok (Some (cf1, ls)) (sc ++ fs :: r1)).
      { cbn [chain_ok]. split; [exact Hhd1|]. split; [|destruct sc; discriminate].
        rewrite olast_app. rewrite (olast_nonempty (fs :: r1) _ None) by discriminate. exact Hls. }
      destruct ((0 <? qs1) && (amt1 <? d)) eqn:Econd.
      * (* the loop goes on from the node after the run *)
        apply andb_prop in Econd. destruct Econd as [Eq1 Ea1].
        rewrite (scan_i_true_false _ r2 amt1 ql1 qs1 d ltac:(lia) ltac:(lia) (Hcur ltac:(lia))) in Hsc.
        destruct (scan_i (fun i => cst (h i)) r2 false amt1 ql1 qs1 d) as [[[k2 s2] a2] b2] eqn:E2.
        inversion Hsc; subst k s ql2 qs2. clear Hsc.
        assert (Hdis1 : forall x, In x (sc ++ fs :: r1) -> ~ In x ((a ++ u) ++ r2)).
        { destruct Hw0 as (Hnd0 & _). intros x Hx Hin. apply in_app_or in Hx. destruct Hx as [Hx|Hx].
          - apply (Hdis0 x Hx). apply in_app_or in Hin. destruct Hin as [Hin|Hin]; apply in_or_app; [left; exact Hin|].
            right. apply in_or_app. right. exact Hin.
          - destruct (NoDup_app_inv _ _ Hnd0) as (_ & Hnrb & Hd1'). destruct (NoDup_app_inv _ _ Hnrb) as (_ & _ & Hd2').
            apply in_app_or in Hin. destruct Hin as [Hin|Hin]; [apply (Hd1' x Hin); apply in_or_app; left; exact Hx | exact (Hd2' x Hx Hin)]. }
        rewrite (scan_i_ext (fun i => cst (h i)) (fun i => cst (h1 i)) r2 false amt1 ql1 qs1 d Hcs1) in E2 || 
          (rewrite <- (scan_i_ext (fun i => cst (h i)) (fun i => cst (h1 i)) r2 false amt1 ql1 qs1 d Hcs1) in E2).
        destruct (IH n h1 q1 (a ++ u) r2 (sc ++ fs :: r1) (Some (cf1, ls)) amt1 ql1 qs1 d h' q' chain' ql' qs'
                    Hw1 Hnd1 Hdis1 Hd1 Hch1 ltac:(rewrite app_length in Hlf; lia)
                    ltac:(rewrite app_length in Hln; lia) H k2 s2 a2 b2 E2)
          as (G1 & G2 & G3 & G4 & G5 & G6 & G7).
        rewrite <- !app_assoc in G1, G2, G3, G4. cbn [app] in G2, G3, G4.
        split; [exact G1|]. split; [exact G2|]. split; [exact G3|]. split; [exact G4|]. split; [exact G5|]. split; [exact G6|].
        intros x. split; [rewrite (proj1 (G7 x)); apply Hcv1 | rewrite (proj2 (G7 x)); apply Hcs1].
      * (* the loop ends *)
        rewrite (scan_i_stop _ r2 amt1 ql1 qs1 d Hcur Econd) in Hsc. inversion Hsc; subst k s ql2 qs2. inversion H; subst h' q' chain' ql' qs'.
        rewrite app_nil_r. rewrite <- app_assoc in Hw1. split; [exact Hw1|]. destruct Hch1 as (C1 & C2 & C3). repeat split; auto.
Qed.

Theorem ptr_steal_scan_refines : forall fuel chunk lk h v ids o h' v',
  wf h (pq_of v) ids -> coh h ids -> (length ids <= fuel)%nat ->
  p_dequeue_steal fuel chunk lk h v = (o, h', v') ->
  exists kids sids,
    wf h' (pq_of v') kids /\ NoDup sids /\ dl h' None sids None /\ o = ohd sids None /\
    (forall x, cval (h' x) = cval (h x) /\ cst (h' x) = cst (h x)) /\
    Permutation (kids ++ sids) ids /\
    dequeue_steal chunk lk (mkQ (abs h ids) (pql v) (pqs v)) = (abs h' sids, mkQ (abs h' kids) (pql v') (pqs v')).
Proof.
  intros fuel chunk lk h v ids o h' v' Hwf Hcoh Hlen H.
  assert (Htriv : (o, h', v') = (None, h, v) ->
    exists kids sids, wf h' (pq_of v') kids /\ NoDup sids /\ dl h' None sids None /\ o = ohd sids None /\
      (forall x, cval (h' x) = cval (h x) /\ cst (h' x) = cst (h x)) /\ Permutation (kids ++ sids) ids /\
      ([], mkQ (abs h ids) (pql v) (pqs v)) = (abs h' sids, mkQ (abs h' kids) (pql v') (pqs v'))).
  { intros E. inversion E; subst. exists ids, []. rewrite app_nil_r. split; [exact Hwf|]. repeat split; auto. constructor. }
  unfold p_dequeue_steal in H. unfold dequeue_steal. cbn [qstl qlen items].
  destruct lk; [apply Htriv; symmetry; exact H|].
  change (desired chunk (mkQ (abs h ids) (pql v) (pqs v))) with (p_desired chunk (pqs v)).
  destruct ((0 <? pqs v) && (0 <? p_desired chunk (pqs v))) eqn:Ec; [|apply Htriv; symmetry; exact H].
  destruct (p_scan fuel fuel h (pq_of v) (phd (pq_of v)) None 0 (pql v) (pqs v) (p_desired chunk (pqs v))) as [[[[h1 q1] ch1] ql1] qs1] eqn:Es.
  inversion H; subst o h' v'. clear H. cbn [pq_of pql pqs].
  destruct (scan_i (fun i => cst (h i)) ids false 0 (pql v) (pqs v) (p_desired chunk (pqs v))) as [[[k s] a2] b2] eqn:Ei.
  pose proof Hwf as (_ & Hhd & _). rewrite Hhd in Es.
  destruct (p_scan_spec fuel fuel h (pq_of v) [] ids [] None 0 (pql v) (pqs v) _ h1 q1 ch1 ql1 qs1
              Hwf (NoDup_nil _) ltac:(intros x []) I eq_refl Hlen Hlen Es k s a2 b2 Ei) as (G1 & G2 & G3 & G4 & G5 & G6 & G7).
  cbn [app] in *. subst ql1 qs1.
  exists k, s. split; [exact G1|]. split; [exact G2|]. split; [exact G3|]. split; [|split; [exact G7|split]].
  - destruct ch1 as [[cf cl]|]; cbn [chain_ok] in G4; [destruct G4 as (E & _); symmetry; exact E | subst s; reflexivity].
  - eapply scan_i_perm. exact Ei.
  - unfold abs at 1. rewrite (scan_i_abs (fun i => cst (h i)) (fun i => cval (h i)) ids false 0 (pql v) (pqs v) _ Hcoh). rewrite Ei.
    rewrite !(abs_cval h h1) by (intros x; apply G7). reflexivity.
Qed.

(* ---- transfer of the list-level theorems ------------------------------------------------------------------------ *)
Lemma Forall_abs_cst : forall h sids, coh h sids -> Forall (fun n => stl n = true) (abs h sids) -> Forall (fun i => cst (h i) = true) sids.
Proof.
  induction sids as [|i r IH]; intros Hc Hf; [constructor|]. cbn [abs map] in Hf. inversion Hf; subst.
  constructor; [rewrite (Hc i (or_introl eq_refl)); assumption|]. apply IH; [intros j Hj; apply Hc; right; exact Hj | assumption].
Qed.

Theorem ptr_counts_exact : forall fuel chunk lk h v ids o h' v',
  wf h (pq_of v) ids -> coh h ids -> (length ids <= fuel)%nat -> pexact h v ids ->
  p_dequeue_steal fuel chunk lk h v = (o, h', v') ->
  exists kids sids, wf h' (pq_of v') kids /\ dl h' None sids None /\ pexact h' v' kids /\ Forall (fun i => cst (h' i) = true) sids.
Proof.
  intros fuel chunk lk h v ids o h' v' Hwf Hcoh Hlen Hex H.
  destruct (ptr_steal_scan_refines _ _ _ _ _ _ _ _ _ Hwf Hcoh Hlen H) as (kids & sids & G1 & G2 & G3 & G4 & G5 & G6 & G7).
  exists kids, sids. split; [exact G1|]. split; [exact G3|].
  destruct (exact_dequeue_steal _ _ _ _ _ Hex G7) as [He Hs]. split; [exact He|].
  apply Forall_abs_cst; [|exact Hs]. intros i Hi. rewrite (proj1 (G5 i)), (proj2 (G5 i)). apply Hcoh.
  apply (Permutation_in i G6). apply in_or_app. right. exact Hi.
Qed.

Theorem ptr_counts_exact_surplus : forall fuel h mine tids sids stolen h' mine',
  wf h (pq_of mine) tids -> NoDup sids -> (forall x, In x sids -> ~ In x tids) -> dl h None sids None ->
  ohd sids None = Some stolen -> (length sids <= fuel)%nat ->
  p_surplus_cut fuel h mine stolen = (h', mine') ->
  pexact h mine tids -> Forall (fun i => stl (cval (h i)) = true) (tl sids) -> pexact h' mine' (tids ++ tl sids).
Proof.
  intros fuel h mine tids sids stolen h' mine' Hwf Hnd Hdis Hdl Hf Hlen H Hex Hall.
  destruct (ptr_surplus_cut_refines _ _ _ _ _ _ _ _ Hwf Hnd Hdis Hdl Hf Hlen H) as (_ & _ & _ & _ & E).
  unfold pexact. rewrite E. apply exact_enqueue_multiple; [exact Hex|].
  unfold abs. apply Forall_map. exact Hall.
Qed.

Theorem ptr_counts_exact_specific : forall fuel h v ids val o h' v',
  wf h (pq_of v) ids -> (length ids <= fuel)%nat -> pexact h v ids ->
  p_dequeue_specific fuel h v val = (o, h', v') ->
  exists ids', wf h' (pq_of v') ids' /\ pexact h' v' ids'.
Proof.
  intros fuel h v ids val o h' v' Hwf Hlen Hex H.
  destruct (ptr_dequeue_specific_refines _ _ _ _ _ _ _ _ Hwf Hlen H) as (ids' & G1 & _ & _ & G4).
  exists ids'. split; [exact G1|]. eapply exact_dequeue_specific; [exact Hex | exact G4].
Qed.

(* nothing dropped or duplicated: neither node addresses nor task ids *)
Theorem ptr_conservation : forall fuel chunk lk h v ids o h' v',
  wf h (pq_of v) ids -> coh h ids -> (length ids <= fuel)%nat -> pexact h v ids ->
  p_dequeue_steal fuel chunk lk h v = (o, h', v') ->
  exists kids sids, wf h' (pq_of v') kids /\ dl h' None sids None /\ Permutation (kids ++ sids) ids /\
    forall t, (cnt t (abs h' kids) + cnt t (abs h' sids) = cnt t (abs h ids))%nat.
Proof.
  intros fuel chunk lk h v ids o h' v' Hwf Hcoh Hlen Hex H.
  destruct (ptr_steal_scan_refines _ _ _ _ _ _ _ _ _ Hwf Hcoh Hlen H) as (kids & sids & G1 & G2 & G3 & G4 & G5 & G6 & G7).
  exists kids, sids. split; [exact G1|]. split; [exact G3|]. split; [exact G6|].
  intros t. apply (dequeue_steal_cnt _ _ _ _ _ Hex G7 t).
Qed.

Theorem ptr_conservation_specific : forall fuel h v ids val o h' v',
  wf h (pq_of v) ids -> (length ids <= fuel)%nat ->
  p_dequeue_specific fuel h v val = (o, h', v') ->
  exists ids', wf h' (pq_of v') ids' /\ Permutation ids' ids /\ forall t, cnt t (abs h' ids') = cnt t (abs h ids).
Proof.
  intros fuel h v ids val o h' v' Hwf Hlen H.
  destruct (ptr_dequeue_specific_refines _ _ _ _ _ _ _ _ Hwf Hlen H) as (ids' & G1 & G2 & G3 & _).
  exists ids'. split; [exact G1|]. split; [exact G2|]. intros t. apply cnt_perm.
  rewrite (abs_cval h h' ids') by (intros x; apply G3). unfold abs. apply Permutation_map. exact G2.
Qed.

(* the list-level characterisation of a steal, at pointer level: the stolen chain is the first min(desired, #stealable)
   stealable nodes in queue order *)
Theorem ptr_steal_exact_prefix : forall fuel chunk h v ids o h' v',
  wf h (pq_of v) ids -> coh h ids -> (length ids <= fuel)%nat -> pexact h v ids -> 0 <= chunk ->
  p_dequeue_steal fuel chunk false h v = (o, h', v') ->
  exists kids sids, wf h' (pq_of v') kids /\ dl h' None sids None /\ o = ohd sids None /\
    abs h' sids = firstn (Z.to_nat (p_desired chunk (pqs v))) (filter stl (abs h ids)).
Proof.
  intros fuel chunk h v ids o h' v' Hwf Hcoh Hlen Hex Hc H.
  destruct (ptr_steal_scan_refines _ _ _ _ _ _ _ _ _ Hwf Hcoh Hlen H) as (kids & sids & G1 & G2 & G3 & G4 & G5 & G6 & G7).
  exists kids, sids. split; [exact G1|]. split; [exact G3|]. split; [exact G4|].
  pose proof Hex as [Hl Hs]. cbn [items qlen qstl] in Hl, Hs.
  assert (Hd : 0 < desired chunk (mkQ (abs h ids) (pql v) (pqs v))).
  { pose proof (desired_pos chunk (mkQ (abs h ids) (pql v) (pqs v)) Hc ltac:(cbn [qstl]; lia)). lia. }
  rewrite (dequeue_steal_spec chunk _ Hex Hd) in G7. cbn [items] in G7.
  change (desired chunk (mkQ (abs h ids) (pql v) (pqs v))) with (p_desired chunk (pqs v)) in G7.
  destruct (take_stl (Z.to_nat (p_desired chunk (pqs v))) (abs h ids)) as [kp s0] eqn:Et.
  inversion G7; subst. eapply take_stl_stolen_is_prefix. exact Et.
Qed.

(* ---- non-vacuity: a reachable heap, a steal over two runs, the moved node of dequeue_specific ---------------------- *)
Definition nd (t : N) (s : bool) (r : N) : node := mkNode t s false r.
Definition ex_heap : heap * pq :=
  let s1 := p_enqueue h0 (mkPq None None) 10 (nd 1 true 0) in
  let s2 := p_enqueue (fst s1) (snd s1) 11 (nd 2 false 1) in
  let s3 := p_enqueue (fst s2) (snd s2) 12 (nd 3 true 2) in
  let s4 := p_enqueue (fst s3) (snd s3) 13 (nd 4 true 3) in
  p_enqueue (fst s4) (snd s4) 14 (nd 5 false 0).
Lemma ex_heap_wf : wf (fst ex_heap) (snd ex_heap) [10; 11; 12; 13; 14]%nat.
Proof.
  unfold ex_heap. cbv zeta.
  apply (enq_wf _ _ [10; 11; 12; 13]%nat); [|intros [H|[H|[H|[H|[]]]]]; discriminate].
  apply (enq_wf _ _ [10; 11; 12]%nat); [|intros [H|[H|[H|[]]]]; discriminate].
  apply (enq_wf _ _ [10; 11]%nat); [|intros [H|[H|[]]]; discriminate].
  apply (enq_wf _ _ [10]%nat); [|intros [H|[]]; discriminate].
  apply (enq_wf _ _ []); [exact wf_empty | intros []].
Qed.
Lemma ex_heap_coh : coh (fst ex_heap) [10; 11; 12; 13; 14]%nat.
Proof. intros i [<-|[<-|[<-|[<-|[<-|[]]]]]]; vm_compute; reflexivity. Qed.
Example ex_ptr_steal :
  let v := mkPqc (snd ex_heap) 5 3 in
  pexact (fst ex_heap) v [10; 11; 12; 13; 14]%nat /\
  (* chunk 3: the scan takes node 10, passes over 11, takes the run 12-13 and relinks 11 - 14 *)
  let r := p_dequeue_steal 5 3 false (fst ex_heap) v in
  fst (fst r) = Some 10%nat /\
  walk_nx 6 (snd (fst r)) (Some 10%nat) = [10; 12; 13]%nat /\
  walk_nx 6 (snd (fst r)) (phd (pq_of (snd r))) = [11; 14]%nat /\
  walk_pv 6 (snd (fst r)) (ptl (pq_of (snd r))) = [14; 11]%nat /\
  pql (snd r) = 2 /\ pqs (snd r) = 0 /\
  (* dequeue_specific of the task with ret = 1 (node 11): moved behind 14 *)
  let x := p_dequeue_specific 5 (fst ex_heap) v 1 in
  fst (fst x) = Some 11%nat /\ walk_nx 6 (snd (fst x)) (phd (pq_of (snd x))) = [10; 12; 13; 14; 11]%nat /\
  walk_pv 6 (snd (fst x)) (ptl (pq_of (snd x))) = [11; 14; 13; 12; 10]%nat.
Proof. cbv zeta. split; [split; vm_compute; reflexivity|]. vm_compute. repeat split. Qed.
