(* C08 - yield precedence with thieves and all workers of the shepherd (lock-section alphabet wop) *)
From Coq Require Import List ZArith NArith Bool Arith Lia Permutation.
From Coq Require Import ZifyBool ZifyNat ZifyN.
From QV Require Import TQueue.Model TQueue.Proofs TQueue.Proofs2.
Import ListNotations.
Local Open Scope Z_scope.

Definition push_ne (y : node) (o : wop) : Prop := match o with WPushY n | WPush n => n <> y | _ => True end.

Lemma wstep_exact : forall q o q1 out, exact q -> wstep q o = (q1, out) -> exact q1.
Proof.
  intros q o q1 out Hex H. destruct o as [w|n|n|c]; cbn [wstep] in H.
  - destruct (dequeue_worker q w) as [o q'] eqn:Ed. pose proof (exact_dequeue_worker _ _ _ _ Hex Ed).
    destruct o; inversion H; subst; assumption.
  - inversion H; subst. apply exact_enqueue_yielded. exact Hex.
  - inversion H; subst. apply exact_enqueue. exact Hex.
  - destruct (dequeue_steal c false q) as [s v'] eqn:Ed. inversion H; subst.
    destruct (dequeue_steal_sub _ _ _ _ Hex Ed) as [_ [_ X]]. exact X.
Qed.

(* what one lock section hands out was in the queue; what stays was in the queue or was pushed *)
Lemma wstep_sub : forall q o q1 out, exact q -> wstep q o = (q1, out) ->
  (forall x, In x out -> In x (items q)) /\
  (forall x, In x (items q1) -> In x (items q) \/ match o with WPushY n | WPush n => x = n | _ => False end).
Proof.
  intros q o q1 out Hex H. destruct o as [w|n|n|c]; cbn [wstep] in H.
  - destruct (dequeue_worker q w) as [o q'] eqn:Ed.
    destruct (dequeue_worker_cases q w) as [E|[[l [n [Ei [_ E]]]]|[l [m [n [Ei [_ [_ E]]]]]]]]; rewrite E in Ed; inversion Ed; subst;
      inversion H; subst.
    + split; [intros x []|auto].
    + split; [intros x [<-|[]]; rewrite Ei; apply in_or_app; right; left; reflexivity|].
      intros x Hx. left. cbn [items] in Hx. rewrite Ei. apply in_or_app. left. exact Hx.
    + split; [intros x [<-|[]]; rewrite Ei; apply in_or_app; right; left; reflexivity|].
      intros x Hx. left. cbn [items] in Hx. rewrite Ei. apply in_app_or in Hx. destruct Hx as [Hx|[<-|[]]].
      * apply in_or_app. left. exact Hx.
      * apply in_or_app. right. right. left. reflexivity.
  - inversion H; subst. split; [intros x []|]. cbn [enqueue_yielded items]. intros x [<-|Hx]; auto.
  - inversion H; subst. split; [intros x []|]. cbn [enqueue items]. intros x Hx. apply in_app_or in Hx. destruct Hx as [Hx|[<-|[]]]; auto.
  - destruct (dequeue_steal c false q) as [s v'] eqn:Ed. inversion H; subst.
    destruct (dequeue_steal_sub _ _ _ _ Hex Ed) as [Hs [Hk _]]. split; [intros x Hx; apply Hs; exact Hx | intros x Hx; left; apply Hk; exact Hx].
Qed.

(* once y has left the queue it does not come back (nobody enqueues it again) *)
Lemma wrun_no_y : forall y ops q q' outs,
  exact q -> ~ In y (items q) -> Forall (push_ne y) ops -> wrun q ops = (q', outs) ->
  forall k, ~ In y (nth k outs []).
Proof.
  intros y. induction ops as [|o tl IH]; intros q q' outs Hex Hn Hok H k; cbn [wrun] in H.
  - inversion H; subst. destruct k; intros [].
  - inversion Hok as [|? ? Ho Htl]; subst.
    destruct (wstep q o) as [q1 out0] eqn:E1. destruct (wrun q1 tl) as [q2 outs2] eqn:E2. inversion H; subst.
    destruct (wstep_sub q o q1 out0 Hex E1) as [Hout Hkeep].
    pose proof (wstep_exact q o q1 out0 Hex E1) as Hex1.
    destruct k as [|k]; cbn [nth].
    + intros Hin. apply Hn. apply Hout. exact Hin.
    + eapply IH; try eassumption. intros Hin. destruct (Hkeep y Hin) as [Hq|Hp]; [auto|].
      destruct o; cbn [push_ne] in Ho; try contradiction; congruence.
Qed.

(* one lock section on  P ++ y :: R : either y stays (with everything of R that did not leave in this very section still
   to its right), or y leaves now - by a pop (then R is empty, or R is a single McCoy task and the worker is not worker 0)
   or by a thief (then y is stealable) *)
Lemma wstep_y : forall y q o P R q1 out0,
  exact q -> items q = P ++ y :: R -> ~ In y P -> ~ In y R -> push_ne y o ->
  wstep q o = (q1, out0) ->
  (exists P1 R1, items q1 = P1 ++ y :: R1 /\ ~ In y P1 /\ ~ In y R1 /\ ~ In y out0 /\
                 forall x, In x R -> In x R1 \/ In x out0) \/
  (~ In y (items q1) /\
   match o with
   | WPop w => out0 = [y] /\ forall x, In x R -> mccoy x = true /\ w <> O
   | WSteal _ => In y out0 /\ stl y = true
   | _ => False
   end).
Proof.
  intros y q o P R q1 out0 Hex Hq HnP HnR Hne H.
  destruct o as [w|n|n|c]; cbn [wstep push_ne] in *.
  - destruct (dequeue_worker q w) as [o q'] eqn:Ed.
    destruct R as [|z R0 _] using rev_ind.
    + (* y is the tail *)
      destruct (dequeue_worker_cases q w) as [E|[[l [n [Ei [_ E]]]]|[l [m [n [Ei [_ [_ E]]]]]]]]; rewrite E in Ed; inversion Ed; subst;
        inversion H; subst.
      * left. exists P, []. repeat split; auto.
      * rewrite Hq in Ei. apply app_inj_tail in Ei. destruct Ei as [<- <-]. right. cbn [items].
        split; [exact HnP|]. split; [reflexivity | intros x []].
      * rewrite Hq in Ei. change (l ++ [m; n]) with (l ++ [m] ++ [n]) in Ei. rewrite app_assoc in Ei.
        apply app_inj_tail in Ei. destruct Ei as [-> <-]. left. exists l, []. cbn [items].
        assert (Hnl : ~ In y l) by (intros Hin; apply HnP; apply in_or_app; left; exact Hin).
        assert (Hnm : m <> y) by (intros ->; apply HnP; apply in_or_app; right; left; reflexivity).
        repeat split; auto. intros [Hc|[]]. auto.
    + assert (Hq' : items q = (P ++ y :: R0) ++ [z]) by (rewrite Hq, <- app_assoc; reflexivity).
      assert (HnR0 : ~ In y R0) by (intros Hin; apply HnR; apply in_or_app; left; exact Hin).
      assert (Hzy : z <> y) by (intros ->; apply HnR; apply in_or_app; right; left; reflexivity).
      destruct (dequeue_worker_cases q w) as [E|[[l [n [Ei [_ E]]]]|[l [m [n [Ei [Hmn [Hw E]]]]]]]]; rewrite E in Ed; inversion Ed; subst;
        inversion H; subst.
      * left. exists P, (R0 ++ [z]). repeat split; auto.
      * rewrite Hq' in Ei. apply app_inj_tail in Ei. destruct Ei as [<- <-]. left. exists P, R0. cbn [items].
        repeat split; auto.
        -- intros [Hc|[]]. auto.
        -- intros x Hx. apply in_app_or in Hx. destruct Hx as [Hx|[<-|[]]]; [left; exact Hx | right; left; reflexivity].
      * (* tail z is a McCoy task and the worker is not worker 0: the node in front of it goes *)
        rewrite Hq' in Ei. change (l ++ [m; n]) with (l ++ [m] ++ [n]) in Ei. rewrite app_assoc in Ei.
        apply app_inj_tail in Ei. destruct Ei as [Ei <-].
        destruct R0 as [|u R1 _] using rev_ind.
        -- (* the node in front is y itself *)
           apply app_inj_tail in Ei. destruct Ei as [<- <-]. right. cbn [items]. split.
           ++ intros Hin. apply in_app_or in Hin. destruct Hin as [Hin|[Hin|[]]]; auto.
           ++ split; [reflexivity|]. intros x [<-|[]]. split; assumption.
        -- assert (Ei' : (P ++ y :: R1) ++ [u] = l ++ [m]) by (rewrite <- app_assoc; exact Ei).
           apply app_inj_tail in Ei'. destruct Ei' as [<- <-]. left. exists P, (R1 ++ [z]). cbn [items].
           assert (HnR1 : ~ In y R1) by (intros Hin; apply HnR0; apply in_or_app; left; exact Hin).
           assert (Huy : u <> y) by (intros ->; apply HnR0; apply in_or_app; right; left; reflexivity).
           repeat split.
           ++ rewrite <- app_assoc. reflexivity.
           ++ exact HnP.
           ++ intros Hin. apply in_app_or in Hin. destruct Hin as [Hin|[Hin|[]]]; auto.
           ++ intros [Hc|[]]. auto.
           ++ intros x Hx. apply in_app_or in Hx. destruct Hx as [Hx|[<-|[]]].
              ** apply in_app_or in Hx. destruct Hx as [Hx|[<-|[]]]; [left; apply in_or_app; left; exact Hx | right; left; reflexivity].
              ** left. apply in_or_app. right. left. reflexivity.
  - inversion H; subst. left. exists (n :: P), R. cbn [enqueue_yielded items]. rewrite Hq.
    repeat split; auto. intros [Hc|Hin]; auto.
  - inversion H; subst. left. exists P, (R ++ [n]). cbn [enqueue items]. rewrite Hq, <- app_assoc.
    repeat split; auto.
    + intros Hin. apply in_app_or in Hin. destruct Hin as [Hin|[Hin|[]]]; auto.
    + intros x Hx. left. apply in_or_app. left. exact Hx.
  - destruct (dequeue_steal c false q) as [s v'] eqn:Ed. inversion H; subst.
    destruct (dequeue_steal_sub _ _ _ _ Hex Ed) as [Hs [Hk Hex1]].
    destruct (Z_lt_le_dec 0 (desired c q)) as [Hd|Hd].
    + rewrite (dequeue_steal_spec c q Hex Hd) in Ed. rewrite Hq, take_stl_app in Ed.
      destruct (take_stl (Z.to_nat (desired c q)) P) as [kP sP] eqn:EP.
      set (k2 := (Z.to_nat (desired c q) - length sP)%nat) in Ed.
      assert (HkP : ~ In y kP) by (intros Hin; apply HnP; eapply take_stl_kept_in; eassumption).
      assert (HsP : ~ In y sP) by (intros Hin; apply HnP; eapply take_stl_stolen_in; eassumption).
      destruct k2 as [|k2'].
      * (* the thief's amount is used up before y *)
        cbn [take_stl] in Ed. inversion Ed; subst. left. exists kP, R. cbn [items]. rewrite app_nil_r.
        repeat split; auto.
      * cbn [take_stl] in Ed. destruct (stl y) eqn:Hsy.
        -- (* y is stealable and within the amount: the thief takes it *)
           destruct (take_stl k2' R) as [kR sR] eqn:ER. inversion Ed; subst. right. cbn [items]. split.
           ++ intros Hin. apply in_app_or in Hin. destruct Hin as [Hin|Hin]; [auto|]. apply HnR. eapply take_stl_kept_in; eassumption.
           ++ split; [apply in_or_app; right; left; reflexivity | reflexivity].
        -- destruct (take_stl (S k2') R) as [kR sR] eqn:ER. inversion Ed; subst. left. exists kP, kR. cbn [items].
           repeat split; auto.
           ++ intros Hin. apply HnR. eapply take_stl_kept_in; eassumption.
           ++ intros Hin. apply in_app_or in Hin. destruct Hin as [Hin|Hin]; [auto|]. apply HnR. eapply take_stl_stolen_in; eassumption.
           ++ intros x Hx. destruct (take_stl_in _ _ _ _ x ER Hx) as [Hx'|Hx']; [left; exact Hx' | right; apply in_or_app; right; exact Hx'].
    + unfold dequeue_steal in Ed. assert (Hd' : (0 <? desired c q) = false) by lia. rewrite Hd', andb_false_r in Ed.
      inversion Ed; subst. left. exists P, R. repeat split; auto.
Qed.

(* YIELD PRECEDENCE.  y sits in q with R to its right (for a task that has just been yield-enqueued: P = [] and R = the
   whole queue at that moment).  For every interleaving of the workers of the shepherd and of thieves: when an owner-side
   worker w pops y, every element of R has left q before - dequeued by an owner-side worker or stolen - except that a worker
   other than worker 0 passes over a McCoy task (which only worker 0 may run). *)
Theorem yield_precedence_l : forall y ops q P R q' outs,
  exact q -> items q = P ++ y :: R -> ~ In y P -> ~ In y R ->
  Forall (push_ne y) ops ->
  wrun q ops = (q', outs) ->
  forall k w, nth_error ops k = Some (WPop w) -> nth k outs [] = [y] ->
  forall x, In x R -> (exists j, (j < k)%nat /\ In x (nth j outs [])) \/ (mccoy x = true /\ w <> O).
Proof.
  intros y. induction ops as [|o tl IH]; intros q P R q' outs Hex Hq HnP HnR Hok H k w Hk Hout x Hx; [destruct k; discriminate|].
  cbn [wrun] in H. inversion Hok as [|? ? Ho Htl]; subst.
  destruct (wstep q o) as [q1 out0] eqn:E1. destruct (wrun q1 tl) as [q2 outs2] eqn:E2. inversion H; subst.
  pose proof (wstep_exact q o q1 out0 Hex E1) as Hex1.
  destruct (wstep_y y q o P R q1 out0 Hex Hq HnP HnR Ho E1) as [[P1 [R1 [Hi [HnP1 [HnR1 [Hno Hmove]]]]]]|[Hgone Hhow]].
  - destruct k as [|k]; cbn [nth_error nth] in Hk, Hout.
    + exfalso. apply Hno. rewrite Hout. left. reflexivity.
    + destruct (Hmove x Hx) as [Hx1|Hx0].
      * destruct (IH q1 P1 R1 q' outs2 Hex1 Hi HnP1 HnR1 Htl E2 k w Hk Hout x Hx1) as [[j [Hj Hin]]|Hmc]; [left|right; exact Hmc].
        exists (S j). split; [lia | exact Hin].
      * left. exists O. split; [lia | exact Hx0].
  - destruct k as [|k]; cbn [nth_error nth] in Hk, Hout.
    + inversion Hk; subst. destruct Hhow as [_ Hall]. right. apply Hall. exact Hx.
    + exfalso. pose proof (wrun_no_y y tl q1 q' outs2 Hex1 Hgone Htl E2 k) as Hn. apply Hn. rewrite Hout. left. reflexivity.
Qed.

(* what a thief may do to y: it can take y only if y is stealable (then y runs on the thief's shepherd - the property
   speaks about the owner's workers only); an unstealable y is never handed out by a steal *)
Theorem thief_takes_only_stealable_l : forall ops q q' outs,
  exact q -> wrun q ops = (q', outs) ->
  forall k c, nth_error ops k = Some (WSteal c) -> Forall (fun n => stl n = true) (nth k outs []).
Proof.
  induction ops as [|o tl IH]; intros q q' outs Hex H k c Hk; [destruct k; discriminate|].
  cbn [wrun] in H. destruct (wstep q o) as [q1 out0] eqn:E1. destruct (wrun q1 tl) as [q2 outs2] eqn:E2. inversion H; subst.
  destruct k as [|k]; cbn [nth_error nth] in *.
  - inversion Hk; subst. cbn [wstep] in E1. destruct (dequeue_steal c false q) as [s v'] eqn:Ed. inversion E1; subst.
    destruct (exact_dequeue_steal _ _ _ _ _ Hex Ed) as [_ X]. exact X.
  - eapply IH; [eapply wstep_exact; eassumption | eassumption | eassumption].
Qed.

Example ex_yield_precedence_hyps :
  let y := ex_n 9 false in
  let q := enqueue_yielded (mkQ [ex_n 1 true; ex_n 2 false; ex_n 3 true] 3 2) y in
  let ops := [WSteal 0; WPop 1; WPushY (ex_n 3 true); WPop 0; WPop 1; WPop 0] in
  exact q /\ items q = [] ++ y :: [ex_n 1 true; ex_n 2 false; ex_n 3 true] /\ Forall (push_ne y) ops /\
  map (map (fun n => tid n)) (snd (wrun q ops)) = [[1%N]; [3%N]; []; [2%N]; [9%N]; [3%N]].
Proof. vm_compute. repeat split; try lia; repeat constructor; discriminate. Qed.
