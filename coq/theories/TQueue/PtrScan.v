(* C08 - pointer layer, second part: the operations of src/threadqueues/sherwood_threadqueues.c that PtrModel.v left out,
   written on the same heap (nodes {next; prev; stealable; value}, q->head / q->tail) plus the two counters
   q->qlength / q->qlength_stealable, statement by statement as the C code:
     qt_threadqueue_dequeue_steal   -> p_find / p_run / p_scan / p_dequeue_steal   (the whole scan loop)
     qthread_steal, `surplus` block -> p_surplus_cut  (+ qt_threadqueue_enqueue_multiple as a whole: p_walk / p_enqueue_multiple_c)
     qt_threadqueue_dequeue_specific-> p_find_ret / p_move_to_tail / p_dequeue_specific
   and a small machine (pm_step) that runs these operations on several queues sharing one heap; it is extracted and
   executed next to the real code (the heap shape - forward walk, backward walk, head, tail, both counters - is compared).
   Definitions only; PtrScanProofs.v has the refinement proofs.  Loops are fuelled; every theorem assumes
   length ids <= fuel, the driver passes the number of nodes ever allocated. *)
From Coq Require Import List Arith Bool ZArith NArith.
From QV Require Import TQueue.Model TQueue.PtrModel.
Import ListNotations.
Local Open Scope Z_scope.

Record pqc := mkPqc { pq_of : pq; pql : Z; pqs : Z }.      (* head/tail, qlength, qlength_stealable *)

(* ---- qt_threadqueue_dequeue_steal --------------------------------------------------------------------------- *)
(* // Find next stealable node (if one exists)
   while (node) { if (!node->stealable) node = node->next; else break; } *)
Fixpoint p_find (fuel : nat) (h : heap) (node : option nat) : option nat :=
  match fuel with
  | O => None
  | S f => match node with
           | None => None
           | Some i => if cst (h i) then Some i else p_find f h (nx (h i))
           end
  end.

(* // Find next unstealable node, or amount we want to steal
   while (amtStolen < desired_stolen && next_to_steal) {
       if (!next_to_steal->stealable) break;
       else { last_stolen = next_to_steal; amtStolen++; v->qlength--; v->qlength_stealable--; next_to_steal = next_to_steal->next; } } *)
Fixpoint p_run (fuel : nat) (h : heap) (last : nat) (nts : option nat) (amt ql qs d : Z) : nat * Z * Z * Z :=
  match fuel with
  | O => (last, amt, ql, qs)
  | S f =>
      if amt <? d then
        match nts with
        | None => (last, amt, ql, qs)
        | Some j => if cst (h j) then p_run f h j (nx (h j)) (amt + 1) (ql - 1) (qs - 1) d else (last, amt, ql, qs)
        end
      else (last, amt, ql, qs)
  end.

(* the do { ... } while (v->qlength_stealable > 0 && amtStolen < desired_stolen) loop; `node` is the cursor, `chain` is
   (first, last) of the steal list.  n is the fuel of the two inner loops. *)
Fixpoint p_scan (fuel n : nat) (h : heap) (q : pq) (node : option nat) (chain : option (nat * nat))
                (amt ql qs d : Z) : heap * pq * option (nat * nat) * Z * Z :=
  match fuel with
  | O => (h, q, chain, ql, qs)
  | S f =>
      match p_find n h node with
      | None => (h, q, chain, ql, qs)                                            (* } else { break; } *)
      | Some fs =>
          (* first_stolen = last_stolen = node; amtStolen++; v->qlength--; v->qlength_stealable--; *)
          let '(ls, amt1, ql1, qs1) := p_run n h fs (nx (h fs)) (amt + 1) (ql - 1) (qs - 1) d in
          (* node = last_stolen->next is read before the links of the run are cut *)
          let nxt := nx (h ls) in
          let '(h1, q1, ch1) := p_splice h q fs ls chain in
          if (0 <? qs1) && (amt1 <? d) then p_scan f n h1 q1 nxt (Some ch1) amt1 ql1 qs1 d
          else (h1, q1, Some ch1, ql1, qs1)
      end
  end.

(* desired_stolen as in the C text (steal_chunksize == 0: v->qlength_stealable / 2; 0 becomes 1) *)
Definition p_desired (chunk : Z) (qs : Z) : Z :=
  let d := if chunk =? 0 then Z.quot qs 2 else chunk in if d =? 0 then 1 else d.

(* whole function: QTHREAD_TRYLOCK_TRY failed -> NULL; while (qs > 0 && amt < desired) { node = v->head; do ... ; break; }
   returns `first` *)
Definition p_dequeue_steal (fuel : nat) (chunk : Z) (locked : bool) (h : heap) (v : pqc) : option nat * heap * pqc :=
  if locked then (None, h, v)
  else
    let d := p_desired chunk (pqs v) in
    if (0 <? pqs v) && (0 <? d) then
      let '(h', q', chain, ql, qs) := p_scan fuel fuel h (pq_of v) (phd (pq_of v)) None 0 (pql v) (pqs v) d in
      (match chain with Some (f, _) => Some f | None => None end, h', mkPqc q' ql qs)
    else (None, h, v).

(* ---- qt_threadqueue_enqueue_multiple as a whole, and the surplus block of qthread_steal ------------------------- *)
(* last = first; while (last->next) { last = last->next; addCnt++; } *)
Fixpoint p_walk (fuel : nat) (h : heap) (last : nat) (cnt : Z) : nat * Z :=
  match fuel with
  | O => (last, cnt)
  | S f => match nx (h last) with None => (last, cnt) | Some j => p_walk f h j (cnt + 1) end
  end.

Definition p_enqueue_multiple_c (fuel : nat) (h : heap) (v : pqc) (first : nat) : heap * pqc :=
  let '(last, cnt) := p_walk fuel h first 1 in
  let '(h', q') := p_enqueue_multiple h (pq_of v) first last in
  (h', mkPqc q' (pql v + cnt) (pqs v + cnt)).            (* q->qlength += addCnt; q->qlength_stealable += addCnt; *)

(* surplus = stolen->next; if (surplus) { stolen->next = NULL; surplus->prev = NULL; enqueue_multiple(myqueue, surplus); } *)
Definition p_surplus_cut (fuel : nat) (h : heap) (mine : pqc) (stolen : nat) : heap * pqc :=
  match nx (h stolen) with
  | None => (h, mine)
  | Some s => p_enqueue_multiple_c fuel (set_pv (set_nx h stolen None) s None) mine s
  end.

(* ---- qt_threadqueue_dequeue_specific ------------------------------------------------------------------------- *)
(* node = q->tail; t = node ? node->value : NULL; while (t != NULL && t->ret != value) { node = node->prev; t = ...; } *)
Fixpoint p_find_ret (fuel : nat) (h : heap) (node : option nat) (val : N) : option nat :=
  match fuel with
  | O => None
  | S f => match node with
           | None => None
           | Some i => if N.eqb (retv (cval (h i))) val then Some i else p_find_ret f h (pv (h i)) val
           end
  end.

(* if (node != q->tail) {
     if (node == q->head) q->head = node->next; else node->prev->next = node->next;
     node->next->prev = node->prev; node->next = NULL; node->prev = q->tail; q->tail->next = node; q->tail = node; } *)
Definition p_move_to_tail (h : heap) (q : pq) (i : nat) : heap * pq :=
  match ptl q with
  | None => (h, q)
  | Some t =>
      if Nat.eqb i t then (h, q)
      else
        let n := nx (h i) in
        let p := pv (h i) in
        let '(h1, f1) := if opt_is (phd q) i then (h, n)
                         else match p with Some k => (set_nx h k n, phd q) | None => (h, phd q) end in
        let h2 := match n with Some j => set_pv h1 j p | None => h1 end in
        let h3 := set_nx (set_pv (set_nx h2 i None) i (Some t)) t (Some i) in
        (h3, mkPq f1 (Some i))
  end.

Definition p_dequeue_specific (fuel : nat) (h : heap) (v : pqc) (val : N) : option nat * heap * pqc :=
  if 0 <? pql v then
    match p_find_ret fuel h (ptl (pq_of v)) val with
    | None => (None, h, v)
    | Some i => let '(h', q') := p_move_to_tail h (pq_of v) i in (Some i, h', mkPqc q' (pql v) (pqs v))
    end
  else (None, h, v).

(* ---- the operations of PtrModel.v with the counters ------------------------------------------------------------ *)
Definition p_enqueue_c (h : heap) (v : pqc) (i : nat) (n : node) : heap * pqc :=
  let '(h', q') := p_enqueue h (pq_of v) i n in (h', mkPqc q' (pql v + 1) (pqs v + b2z (cst (h' i)))).
Definition p_enqueue_yielded_c (h : heap) (v : pqc) (i : nat) (n : node) : heap * pqc :=
  let '(h', q') := p_enqueue_yielded h (pq_of v) i n in
  (h', mkPqc q' (pql v + 1) (if cst (h' i) then pqs v + 1 else pqs v)).
(* `else if (q->head) { lock; node = q->tail; (McCoy rule) if (node != NULL) { unlink; q->qlength--; q->qlength_stealable -= node->stealable; } unlock; }` *)
Definition p_pop_c (h : heap) (v : pqc) (w : nat) : option nat * heap * pqc :=
  match phd (pq_of v) with
  | None => (None, h, v)
  | Some _ =>
      match p_pop h (pq_of v) w with
      | (None, h', q') => (None, h', mkPqc q' (pql v) (pqs v))
      | (Some i, h', q') => (Some i, h', mkPqc q' (pql v - 1) (pqs v - b2z (cst (h i))))
      end
  end.

(* ---- a machine over several queues in one heap (executed next to the real code) ---------------------------------- *)
Record pm := mkPm { pm_h : heap; pm_q : list pqc; pm_next : nat; pm_chunk : Z }.

Definition pq_empty : pqc := mkPqc (mkPq None None) 0 0.
Definition heap0 : heap := fun _ : nat => mkCell None None false (mkNode 0 false false 0).
Definition pm_init (n : nat) (chunk : Z) : pm := mkPm heap0 (repeat pq_empty n) 1%nat chunk.

Definition pm_getq (m : pm) (s : nat) : pqc := nth s (pm_q m) pq_empty.
Definition pm_set (m : pm) (h : heap) (s : nat) (v : pqc) : pm := mkPm h (upd (pm_q m) s v) (pm_next m) (pm_chunk m).
Definition pm_valid (m : pm) (s : nat) : bool := Nat.ltb s (length (pm_q m)).

Inductive pcmd :=
| PEnq (s : nat) (n : node)                   (* qt_threadqueue_enqueue on a fresh node *)
| PEnqY (s : nat) (n : node)                  (* qt_threadqueue_enqueue_yielded *)
| PPop (s w : nat)                            (* owner path of qt_scheduler_get_thread (queue not empty) *)
| PSteal (th v : nat) (locked : bool)         (* dequeue_steal(th, v); the whole chain to th by enqueue_multiple *)
| PThief (s v : nat)                          (* qthread_steal with victim v: dequeue_steal, surplus cut; first node returned *)
| PSpecific (s : nat) (val : N)
| PChunk (c : Z).

(* the dump the harness prints: forward walk by next from head, backward walk by prev from tail *)
Fixpoint walk_nx (fuel : nat) (h : heap) (o : option nat) : list nat :=
  match fuel with O => [] | S f => match o with None => [] | Some i => i :: walk_nx f h (nx (h i)) end end.
Fixpoint walk_pv (fuel : nat) (h : heap) (o : option nat) : list nat :=
  match fuel with O => [] | S f => match o with None => [] | Some i => i :: walk_pv f h (pv (h i)) end end.

(* result: the nodes (addresses) handed out (PSteal: the whole stolen chain in order) *)
Definition pm_step (m : pm) (c : pcmd) : pm * list nat :=
  let fuel := pm_next m in
  match c with
  | PEnq s n =>
      if pm_valid m s then
        let '(h', v') := p_enqueue_c (pm_h m) (pm_getq m s) (pm_next m) n in
        (mkPm h' (upd (pm_q m) s v') (S (pm_next m)) (pm_chunk m), [])
      else (m, [])
  | PEnqY s n =>
      if pm_valid m s then
        let '(h', v') := p_enqueue_yielded_c (pm_h m) (pm_getq m s) (pm_next m) n in
        (mkPm h' (upd (pm_q m) s v') (S (pm_next m)) (pm_chunk m), [])
      else (m, [])
  | PPop s w =>
      if pm_valid m s then
        match p_pop_c (pm_h m) (pm_getq m s) w with
        | (None, h', v') => (pm_set m h' s v', [])
        | (Some i, h', v') => (pm_set m h' s v', [i])
        end
      else (m, [])
  | PSteal th v lk =>
      if pm_valid m th && pm_valid m v then
        match p_dequeue_steal fuel (pm_chunk m) lk (pm_h m) (pm_getq m v) with
        | (None, h', v') => (pm_set m h' v v', [])
        | (Some first, h', v') =>
            let m1 := pm_set m h' v v' in
            let '(h2, t') := p_enqueue_multiple_c fuel h' (pm_getq m1 th) first in
            (pm_set m1 h2 th t', walk_nx fuel h' (Some first))
        end
      else (m, [])
  | PThief s v =>
      if pm_valid m s && pm_valid m v then
        match p_dequeue_steal fuel (pm_chunk m) false (pm_h m) (pm_getq m v) with
        | (None, h', v') => (pm_set m h' v v', [])
        | (Some first, h', v') =>
            let m1 := pm_set m h' v v' in
            let '(h2, t') := p_surplus_cut fuel h' (pm_getq m1 s) first in
            (pm_set m1 h2 s t', [first])
        end
      else (m, [])
  | PSpecific s val =>
      if pm_valid m s then
        match p_dequeue_specific fuel (pm_h m) (pm_getq m s) val with
        | (None, h', v') => (pm_set m h' s v', [])
        | (Some i, h', v') => (pm_set m h' s v', [i])
        end
      else (m, [])
  | PChunk c => (mkPm (pm_h m) (pm_q m) (pm_next m) c, [])
  end.

