(* C08 - proofs about the list-layer model of the sherwood thread queue (Model.v) *)
From Coq Require Import List ZArith NArith Bool Arith Lia Permutation.
From Coq Require Import ZifyBool ZifyNat ZifyN.
From QV Require Import TQueue.Model.
Import ListNotations.
Local Open Scope Z_scope.

(* ------------------------------------------------------------------------------------------ *)
(* 1. the steal scan equals "remove the first k stealable nodes"                               *)
(* ------------------------------------------------------------------------------------------ *)

(* specification: take the first k stealable nodes of l, keep everything else in order *)
Fixpoint take_stl (k : nat) (l : list node) : list node * list node :=
  match k with
  | O => (l, [])
  | S k' =>
      match l with
      | [] => ([], [])
      | n :: tl =>
          if stl n then let '(kp, s) := take_stl k' tl in (kp, n :: s)
          else let '(kp, s) := take_stl k tl in (n :: kp, s)
      end
  end.

Lemma take_stl_nil : forall k, take_stl k [] = ([], []).
Proof. destruct k; reflexivity. Qed.

Lemma take_stl_none : forall l k, count_stl l = O -> take_stl k l = (l, []).
Proof.
  induction l as [|n tl IH]; intros k H.
  - apply take_stl_nil.
  - destruct k; [reflexivity|]. cbn [take_stl count_stl] in *.
    destruct (stl n); [discriminate|]. rewrite (IH (S k) H). reflexivity.
Qed.

Lemma scan_spec :
  forall l run amt ql qs d,
    qs = Z.of_nat (count_stl l) ->
    (run = false -> amt < d) ->
    scan l run amt ql qs d =
      let '(kp, s) := take_stl (Z.to_nat (d - amt)) l in
      (kp, s, ql - Z.of_nat (length s), qs - Z.of_nat (length s)).
Proof.
  induction l as [|n tl IH]; intros run amt ql qs d Hqs Hrun.
  - cbn [scan]. rewrite take_stl_nil. cbn [length]. f_equal; [f_equal|]; lia.
  - cbn [scan].
    assert (Htake : amt < d -> stl n = true ->
              (let '(k, s, ql', qs') := scan tl true (amt + 1) (ql - 1) (qs - 1) d in (k, n :: s, ql', qs')) =
              (let '(kp, s) := take_stl (Z.to_nat (d - amt)) (n :: tl) in
               (kp, s, ql - Z.of_nat (length s), qs - Z.of_nat (length s)))).
    { intros Hlt Hs.
      rewrite (IH true (amt + 1) (ql - 1) (qs - 1) d);
        [| cbn [count_stl] in Hqs; rewrite Hs in Hqs; lia | discriminate].
      replace (Z.to_nat (d - amt)) with (S (Z.to_nat (d - (amt + 1)))) by lia.
      cbn [take_stl]. rewrite Hs.
      destruct (take_stl (Z.to_nat (d - (amt + 1))) tl) as [kp s]. cbn [length].
      f_equal; [f_equal|]; lia. }
    assert (Hkeep : amt < d -> stl n = false ->
              (let '(k, s, ql', qs') := scan tl false amt ql qs d in (n :: k, s, ql', qs')) =
              (let '(kp, s) := take_stl (Z.to_nat (d - amt)) (n :: tl) in
               (kp, s, ql - Z.of_nat (length s), qs - Z.of_nat (length s)))).
    { intros Hlt Hs.
      rewrite (IH false amt ql qs d);
        [| cbn [count_stl] in Hqs; rewrite Hs in Hqs; lia | intros _; exact Hlt].
      destruct (Z.to_nat (d - amt)) as [|k'] eqn:Ek; [lia|].
      cbn [take_stl]. rewrite Hs.
      destruct (take_stl (S k') tl) as [kp s]. reflexivity. }
    destruct run.
    + destruct (amt <? d) eqn:Hlt.
      * apply Z.ltb_lt in Hlt.
        destruct (stl n) eqn:Hs.
        -- apply Htake; auto.
        -- destruct (0 <? qs) eqn:Hq.
           ++ apply Hkeep; auto.
           ++ (* no stealable node is left: stopping equals going on *)
              apply Z.ltb_ge in Hq.
              assert (Hc : count_stl (n :: tl) = O) by lia.
              rewrite (take_stl_none (n :: tl) _ Hc). cbn [length]. f_equal; [f_equal|]; lia.
      * apply Z.ltb_ge in Hlt.
        replace (Z.to_nat (d - amt)) with O by lia. cbn [take_stl length]. f_equal; [f_equal|]; lia.
    + specialize (Hrun eq_refl).
      destruct (stl n) eqn:Hs; [apply Htake | apply Hkeep]; auto.
Qed.

(* facts about take_stl *)
Lemma take_stl_stolen_stealable : forall l k kp s, take_stl k l = (kp, s) -> Forall (fun n => stl n = true) s.
Proof.
  induction l as [|n tl IH]; intros k kp s H.
  - rewrite take_stl_nil in H. inversion H. constructor.
  - destruct k; cbn [take_stl] in H; [inversion H; constructor|].
    destruct (stl n) eqn:Hs.
    + destruct (take_stl k tl) as [kp' s'] eqn:E. inversion H; subst. constructor; [assumption|]. eapply IH; eassumption.
    + destruct (take_stl (S k) tl) as [kp' s'] eqn:E. inversion H; subst. eapply IH; eassumption.
Qed.

Lemma take_stl_length : forall l k kp s, take_stl k l = (kp, s) -> length s = Nat.min k (count_stl l).
Proof.
  induction l as [|n tl IH]; intros k kp s H.
  - rewrite take_stl_nil in H. inversion H. cbn. lia.
  - destruct k; cbn [take_stl] in H; [inversion H; reflexivity|]. cbn [count_stl].
    destruct (stl n) eqn:Hs.
    + destruct (take_stl k tl) as [kp' s'] eqn:E. inversion H; subst. cbn [length]. rewrite (IH _ _ _ E). lia.
    + destruct (take_stl (S k) tl) as [kp' s'] eqn:E. inversion H; subst. apply (IH _ _ _ E).
Qed.

(* the stolen chain is the first k stealable nodes, in queue order *)
Lemma take_stl_stolen_is_prefix : forall l k kp s, take_stl k l = (kp, s) -> s = firstn k (filter stl l).
Proof.
  induction l as [|n tl IH]; intros k kp s H.
  - rewrite take_stl_nil in H. inversion H. destruct k; reflexivity.
  - destruct k; cbn [take_stl] in H; [inversion H; reflexivity|]. cbn [filter].
    destruct (stl n) eqn:Hs.
    + destruct (take_stl k tl) as [kp' s'] eqn:E. inversion H; subst. cbn [firstn]. f_equal. eapply IH; eassumption.
    + destruct (take_stl (S k) tl) as [kp' s'] eqn:E. inversion H; subst. eapply IH; eassumption.
Qed.

Lemma take_stl_perm : forall l k kp s, take_stl k l = (kp, s) -> Permutation (kp ++ s) l.
Proof.
  induction l as [|n tl IH]; intros k kp s H.
  - rewrite take_stl_nil in H. inversion H. constructor.
  - destruct k; cbn [take_stl] in H; [inversion H; rewrite app_nil_r; apply Permutation_refl|].
    destruct (stl n) eqn:Hs.
    + destruct (take_stl k tl) as [kp' s'] eqn:E. inversion H; subst.
      eapply Permutation_trans; [apply Permutation_sym, Permutation_middle|]. constructor. eapply IH; eassumption.
    + destruct (take_stl (S k) tl) as [kp' s'] eqn:E. inversion H; subst. cbn. constructor. eapply IH; eassumption.
Qed.

(* what stays keeps its order and its stealable count is what is left *)
Lemma take_stl_kept_count : forall l k kp s, take_stl k l = (kp, s) ->
  (count_stl kp + length s = count_stl l)%nat /\ (length kp + length s = length l)%nat.
Proof.
  induction l as [|n tl IH]; intros k kp s H.
  - rewrite take_stl_nil in H. inversion H. cbn. lia.
  - destruct k; cbn [take_stl] in H; [inversion H; subst; cbn [length]; lia|]. cbn [count_stl length].
    destruct (stl n) eqn:Hs.
    + destruct (take_stl k tl) as [kp' s'] eqn:E. inversion H; subst. cbn [length]. destruct (IH _ _ _ E). lia.
    + destruct (take_stl (S k) tl) as [kp' s'] eqn:E. inversion H; subst. cbn [count_stl length]. rewrite Hs.
      destruct (IH _ _ _ E). lia.
Qed.

(* decomposition over an append: used by the yield-precedence invariant *)
Lemma take_stl_app : forall a b k,
  take_stl k (a ++ b) =
    let '(ka, sa) := take_stl k a in
    let '(kb, sb) := take_stl (k - length sa) b in (ka ++ kb, sa ++ sb).
Proof.
  induction a as [|n tl IH]; intros b k.
  - cbn [app]. rewrite take_stl_nil. cbn [length]. rewrite Nat.sub_0_r. destruct (take_stl k b). reflexivity.
  - destruct k.
    + cbn [take_stl length Nat.sub app]. destruct b; reflexivity.
    + cbn [app take_stl]. destruct (stl n) eqn:Hs.
      * rewrite IH. destruct (take_stl k tl) as [ka sa]. cbn [length Nat.sub].
        destruct (take_stl (k - length sa) b) as [kb sb]. reflexivity.
      * rewrite IH. destruct (take_stl (S k) tl) as [ka sa].
        destruct (take_stl (S k - length sa) b) as [kb sb]. reflexivity.
Qed.

Lemma take_stl_in : forall l k kp s x, take_stl k l = (kp, s) -> In x l -> In x kp \/ In x s.
Proof.
  intros l k kp s x H Hin. apply take_stl_perm in H.
  apply Permutation_sym in H. apply (Permutation_in _ H) in Hin. apply in_app_or in Hin. exact Hin.
Qed.

Lemma take_stl_kept_in : forall l k kp s x, take_stl k l = (kp, s) -> In x kp -> In x l.
Proof.
  intros l k kp s x H Hin. apply take_stl_perm in H. apply (Permutation_in _ H). apply in_or_app. left. exact Hin.
Qed.

Lemma take_stl_stolen_in : forall l k kp s x, take_stl k l = (kp, s) -> In x s -> In x l.
Proof.
  intros l k kp s x H Hin. apply take_stl_perm in H. apply (Permutation_in _ H). apply in_or_app. right. exact Hin.
Qed.

(* ------------------------------------------------------------------------------------------ *)
(* 2. exact counters                                                                           *)
(* ------------------------------------------------------------------------------------------ *)
Definition exact (q : queue) : Prop :=
  qlen q = Z.of_nat (length (items q)) /\ qstl q = Z.of_nat (count_stl (items q)).

Lemma count_stl_app : forall a b, count_stl (a ++ b) = (count_stl a + count_stl b)%nat.
Proof. induction a as [|n tl IH]; intros b; cbn [app count_stl]; [reflexivity|]. rewrite IH. destruct (stl n); reflexivity. Qed.

Lemma count_stl_le_length : forall l, (count_stl l <= length l)%nat.
Proof. induction l as [|n tl IH]; cbn [count_stl length]; [lia|]. destruct (stl n); lia. Qed.

Lemma count_stl_all : forall l, Forall (fun n => stl n = true) l -> count_stl l = length l.
Proof. induction 1 as [|n tl Hn _ IH]; cbn [count_stl length]; [reflexivity|]. rewrite Hn, IH. reflexivity. Qed.

Lemma count_stl_rev : forall l, count_stl (rev l) = count_stl l.
Proof.
  induction l as [|n tl IH]; [reflexivity|]. cbn [rev]. rewrite count_stl_app, IH. cbn [count_stl].
  destruct (stl n); lia.
Qed.

Lemma exact_empty : exact empty_queue.
Proof. split; reflexivity. Qed.

Lemma exact_enqueue : forall q n, exact q -> exact (enqueue q n).
Proof.
  intros q n [Hl Hs]. unfold exact, enqueue; cbn [items qlen qstl]. rewrite app_length, count_stl_app. cbn [length count_stl].
  unfold b2z. destruct (stl n); lia.
Qed.

Lemma exact_enqueue_yielded : forall q n, exact q -> exact (enqueue_yielded q n).
Proof.
  intros q n [Hl Hs]. unfold exact, enqueue_yielded; cbn [items qlen qstl length count_stl]. destruct (stl n); lia.
Qed.

Lemma dequeue_owner_spec : forall q,
  (items q = [] /\ dequeue_owner q = (None, q)) \/
  (exists l n, items q = l ++ [n] /\ dequeue_owner q = (Some n, mkQ l (qlen q - 1) (qstl q - b2z (stl n)))).
Proof.
  intros q. unfold dequeue_owner. destruct (rev (items q)) as [|n r] eqn:E.
  - left. split; [|reflexivity]. apply (f_equal (@rev node)) in E. rewrite rev_involutive in E. exact E.
  - right. exists (rev r), n. split; [|reflexivity].
    apply (f_equal (@rev node)) in E. rewrite rev_involutive in E. exact E.
Qed.

Lemma exact_dequeue_owner : forall q o q', exact q -> dequeue_owner q = (o, q') -> exact q'.
Proof.
  intros q o q' [Hl Hs] H. destruct (dequeue_owner_spec q) as [[_ E]|[l [n [Ei E]]]]; rewrite E in H; inversion H; subst.
  - split; assumption.
  - unfold exact; cbn [items qlen qstl]. rewrite Ei, app_length in Hl. rewrite Ei, count_stl_app in Hs. cbn [length count_stl] in *.
    unfold b2z. destruct (stl n); lia.
Qed.

Lemma desired_pos : forall c q, 0 <= c -> 0 <= qstl q -> 1 <= desired c q.
Proof.
  intros c q Hc Hq. unfold desired.
  destruct (c =? 0) eqn:E.
  - pose proof (Z.quot_pos (qstl q) 2 Hq ltac:(lia)) as Hp.
    destruct (qstl q ÷ 2 =? 0) eqn:E2; [lia|]. apply Z.eqb_neq in E2. lia.
  - rewrite E. apply Z.eqb_neq in E. lia.
Qed.

(* the unlocked steal, for an exact victim and a positive desired amount, is take_stl *)
Lemma dequeue_steal_spec : forall c v,
  exact v -> 0 < desired c v ->
  dequeue_steal c false v =
    let '(kp, s) := take_stl (Z.to_nat (desired c v)) (items v) in
    (s, mkQ kp (qlen v - Z.of_nat (length s)) (qstl v - Z.of_nat (length s))).
Proof.
  intros c v [Hl Hs] Hd. unfold dequeue_steal.
  destruct (0 <? qstl v) eqn:Hq; cbn [andb].
  - assert (Hd' : (0 <? desired c v) = true) by lia. rewrite Hd'.
    rewrite (scan_spec (items v) false 0 (qlen v) (qstl v) (desired c v) Hs ltac:(intros _; lia)).
    rewrite Z.sub_0_r. destruct (take_stl (Z.to_nat (desired c v)) (items v)) as [kp s]. reflexivity.
  - assert (Hc : count_stl (items v) = O) by lia.
    rewrite (take_stl_none _ _ Hc). cbn [length]. destruct v as [it ql qs]. cbn [items qlen qstl] in *.
    f_equal. f_equal; lia.
Qed.

Lemma exact_dequeue_steal : forall c lk v s v', exact v -> dequeue_steal c lk v = (s, v') -> exact v' /\ Forall (fun n => stl n = true) s.
Proof.
  intros c lk v s v' Hex H. destruct lk; [cbn in H; inversion H; subst; split; [assumption|constructor]|].
  destruct (Z_lt_le_dec 0 (desired c v)) as [Hd|Hd].
  - rewrite (dequeue_steal_spec c v Hex Hd) in H.
    destruct (take_stl (Z.to_nat (desired c v)) (items v)) as [kp s0] eqn:E. inversion H; subst.
    destruct (take_stl_kept_count _ _ _ _ E) as [Hc Hn]. destruct Hex as [Hl Hs].
    split; [|eapply take_stl_stolen_stealable; eassumption].
    unfold exact; cbn [items qlen qstl]. lia.
  - unfold dequeue_steal in H. assert (Hd' : (0 <? desired c v) = false) by lia. rewrite Hd', andb_false_r in H.
    inversion H; subst. split; [assumption|constructor].
Qed.

Lemma exact_enqueue_multiple : forall q l, exact q -> Forall (fun n => stl n = true) l -> exact (enqueue_multiple q l).
Proof.
  intros q l [Hl Hs] Hall. destruct l as [|n tl]; [split; assumption|].
  unfold exact, enqueue_multiple; cbn [items qlen qstl]. rewrite app_length, count_stl_app, (count_stl_all _ Hall). lia.
Qed.

Lemma find_ret_spec : forall r val a m b, find_ret r val = Some (a, m, b) -> r = a ++ m :: b.
Proof.
  induction r as [|n tl IH]; intros val a m b H; cbn [find_ret] in H; [discriminate|].
  destruct (N.eqb (retv n) val).
  - inversion H; subst. reflexivity.
  - destruct (find_ret tl val) as [[[a' m'] b']|] eqn:E; [|discriminate]. inversion H; subst.
    cbn [app]. f_equal. eapply IH; eassumption.
Qed.

Lemma dequeue_specific_perm : forall q val o q', dequeue_specific q val = (o, q') ->
  Permutation (items q') (items q) /\ qlen q' = qlen q /\ qstl q' = qstl q.
Proof.
  intros q val o q' H. unfold dequeue_specific in H.
  destruct (0 <? qlen q); [|inversion H; subst; repeat split; apply Permutation_refl].
  destruct (find_ret (rev (items q)) val) as [[[a m] b]|] eqn:E; inversion H; subst; [|repeat split; apply Permutation_refl].
  cbn [items qlen qstl]. repeat split.
  apply find_ret_spec in E. apply (f_equal (@rev node)) in E. rewrite rev_involutive in E. rewrite E.
  rewrite rev_app_distr. cbn [rev]. rewrite <- app_assoc. cbn [app].
  apply Permutation_app_head. apply Permutation_sym. apply Permutation_cons_append.
Qed.

Lemma count_stl_perm : forall a b, Permutation a b -> count_stl a = count_stl b.
Proof.
  induction 1 as [| x l l' _ IH | x y l | l l' l'' _ IH1 _ IH2]; cbn [count_stl].
  - reflexivity.
  - rewrite IH. reflexivity.
  - destruct (stl x), (stl y); reflexivity.
  - congruence.
Qed.

Lemma exact_dequeue_specific : forall q val o q', exact q -> dequeue_specific q val = (o, q') -> exact q'.
Proof.
  intros q val o q' [Hl Hs] H. destruct (dequeue_specific_perm _ _ _ _ H) as [Hp [H1 H2]].
  unfold exact. rewrite H1, H2, (Permutation_length Hp), (count_stl_perm _ _ Hp). split; assumption.
Qed.

(* ------------------------------------------------------------------------------------------ *)
(* 3. the system: counters exact and nothing dropped or duplicated, for every operation        *)
(* ------------------------------------------------------------------------------------------ *)
Fixpoint cnt (t : N) (l : list node) : nat :=
  match l with [] => O | n :: tl => ((if N.eqb (tid n) t then 1 else 0) + cnt t tl)%nat end.
Fixpoint cntq (t : N) (qs : list queue) : nat :=
  match qs with [] => O | q :: tl => (cnt t (items q) + cntq t tl)%nat end.

Lemma cnt_app : forall t a b, cnt t (a ++ b) = (cnt t a + cnt t b)%nat.
Proof. induction a as [|n tl IH]; intros b; cbn [app cnt]; [reflexivity|]. rewrite IH. lia. Qed.

Lemma cnt_perm : forall t a b, Permutation a b -> cnt t a = cnt t b.
Proof.
  induction 1 as [| x l l' _ IH | x y l | l l' l'' _ IH1 _ IH2]; cbn [cnt]; lia.
Qed.

Definition sys_exact (st : sys) : Prop := Forall exact (queues st).

Lemma length_upd : forall A (l : list A) i x, length (upd l i x) = length l.
Proof. induction l as [|y tl IH]; intros i x; [reflexivity|]. destruct i; cbn [upd length]; [reflexivity|]. rewrite IH. reflexivity. Qed.

Lemma Forall_upd : forall A (P : A -> Prop) (l : list A) i x, Forall P l -> P x -> Forall P (upd l i x).
Proof.
  induction l as [|y tl IH]; intros i x Hl Hx; [constructor|]. inversion Hl; subst.
  destruct i; cbn [upd]; constructor; auto.
Qed.

Lemma Forall_nth_d : forall A (P : A -> Prop) (l : list A) i d, Forall P l -> P d -> P (nth i l d).
Proof.
  induction l as [|y tl IH]; intros i d Hl Hd; [destruct i; exact Hd|]. inversion Hl; subst.
  destruct i; cbn [nth]; auto.
Qed.

Lemma cntq_upd : forall t (l : list queue) i q d, (i < length l)%nat ->
  (cntq t (upd l i q) + cnt t (items (nth i l d)) = cntq t l + cnt t (items q))%nat.
Proof.
  induction l as [|y tl IH]; intros i q d Hi; [cbn in Hi; lia|].
  destruct i; cbn [upd cntq nth]; [lia|]. cbn [length] in Hi. specialize (IH i q d ltac:(lia)). lia.
Qed.

Lemma exact_getq : forall st s, sys_exact st -> exact (getq st s).
Proof. intros st s H. unfold getq. apply Forall_nth_d; [exact H | exact exact_empty]. Qed.

Lemma sys_exact_setq : forall st s q, sys_exact st -> exact q -> sys_exact (setq st s q).
Proof. intros st s q H Hq. unfold sys_exact, setq; cbn [queues]. apply Forall_upd; assumption. Qed.

Lemma nsheps_setq : forall st s q, nsheps (setq st s q) = nsheps st.
Proof. intros. unfold nsheps, setq; cbn [queues]. apply length_upd. Qed.

Lemma cntq_setq : forall t st s q, (s < nsheps st)%nat ->
  (cntq t (queues (setq st s q)) + cnt t (items (getq st s)) = cntq t (queues st) + cnt t (items q))%nat.
Proof. intros. unfold setq, getq; cbn [queues]. apply cntq_upd. exact H. Qed.

Lemma getq_out : forall st s, (nsheps st <= s)%nat -> getq st s = empty_queue.
Proof. intros st s H. unfold getq. apply nth_overflow. exact H. Qed.

(* a state transformer is "conservative" when it keeps the number of shepherds, the exactness of the
   counters, and the multiset of queued tids up to the nodes `out` it hands out *)
Definition conserv (st st' : sys) (out : list node) : Prop :=
  nsheps st' = nsheps st /\ (sys_exact st -> sys_exact st') /\
  forall t, (cntq t (queues st') + cnt t out = cntq t (queues st))%nat.

Lemma conserv_refl : forall st, conserv st st [].
Proof. intros st. repeat split; auto. Qed.

Lemma conserv_trans : forall a b c o1 o2, conserv a b o1 -> conserv b c o2 -> conserv a c (o1 ++ o2).
Proof.
  intros a b c o1 o2 [N1 [E1 C1]] [N2 [E2 C2]]. repeat split; [congruence | auto |].
  intros t. rewrite cnt_app. specialize (C1 t). specialize (C2 t). lia.
Qed.

Lemma conserv_setst : forall st s v, conserv st (setst st s v) [].
Proof. intros. repeat split; auto. Qed.

(* replacing queue s by q' where q' holds the same nodes minus `out` *)
Lemma conserv_setq : forall st s q' out,
  (s < nsheps st)%nat ->
  (exact (getq st s) -> exact q') ->
  (forall t, (cnt t (items q') + cnt t out = cnt t (items (getq st s)))%nat) ->
  conserv st (setq st s q') out.
Proof.
  intros st s q' out Hs Hex Hc. split; [apply nsheps_setq|]. split.
  - intros H. apply sys_exact_setq; [exact H|]. apply Hex. apply exact_getq. exact H.
  - intros t. pose proof (cntq_setq t st s q' Hs). specialize (Hc t). lia.
Qed.

Lemma dequeue_owner_cnt : forall q o q', dequeue_owner q = (o, q') ->
  forall t, (cnt t (items q') + cnt t (match o with Some n => [n] | None => [] end) = cnt t (items q))%nat.
Proof.
  intros q o q' H t. destruct (dequeue_owner_spec q) as [[_ E]|[l [n [Ei E]]]]; rewrite E in H; inversion H; subst.
  - cbn [cnt]. lia.
  - cbn [items]. rewrite Ei, cnt_app. lia.
Qed.

Lemma dequeue_worker_cases : forall q w,
  dequeue_worker q w = (None, q) \/
  (exists l n, items q = l ++ [n] /\ (mccoy n = false \/ w = O) /\
               dequeue_worker q w = (Some n, mkQ l (qlen q - 1) (qstl q - b2z (stl n)))) \/
  (exists l m n, items q = l ++ [m; n] /\ mccoy n = true /\ w <> O /\
                 dequeue_worker q w = (Some m, mkQ (l ++ [n]) (qlen q - 1) (qstl q - b2z (stl m)))).
Proof.
  intros q w. unfold dequeue_worker. destruct (rev (items q)) as [|n r] eqn:E; [left; reflexivity|].
  apply (f_equal (@rev node)) in E. rewrite rev_involutive in E. cbn [rev] in E.
  destruct (mccoy n && negb (Nat.eqb w O)) eqn:Em.
  - apply andb_prop in Em. destruct Em as [Hm Hw]. destruct r as [|m r'].
    + left. reflexivity.
    + right. right. exists (rev r'), m, n. cbn [rev] in E. rewrite <- app_assoc in E. cbn [app] in E.
      repeat split; auto. intros ->. cbn in Hw. discriminate.
  - right. left. exists (rev r), n. split; [exact E|]. split; [|reflexivity].
    apply andb_false_iff in Em. destruct Em as [Hm|Hw]; [left; exact Hm|right].
    destruct w; [reflexivity | cbn in Hw; discriminate].
Qed.

Lemma dequeue_worker_0 : forall q, dequeue_worker q O = dequeue_owner q.
Proof.
  intros q. unfold dequeue_worker, dequeue_owner. destruct (rev (items q)) as [|n r]; [reflexivity|].
  cbn [Nat.eqb negb]. rewrite andb_false_r. reflexivity.
Qed.

Lemma dequeue_worker_cnt : forall q w o q', dequeue_worker q w = (o, q') ->
  forall t, (cnt t (items q') + cnt t (match o with Some n => [n] | None => [] end) = cnt t (items q))%nat.
Proof.
  intros q w o q' H t.
  destruct (dequeue_worker_cases q w) as [E|[[l [n [Ei [_ E]]]]|[l [m [n [Ei [_ [_ E]]]]]]]]; rewrite E in H; inversion H; subst.
  - cbn [cnt]. lia.
  - cbn [items]. rewrite Ei, cnt_app. lia.
  - cbn [items]. rewrite Ei, !cnt_app. cbn [cnt]. lia.
Qed.

Lemma exact_dequeue_worker : forall q w o q', exact q -> dequeue_worker q w = (o, q') -> exact q'.
Proof.
  intros q w o q' [Hl Hs] H.
  destruct (dequeue_worker_cases q w) as [E|[[l [n [Ei [_ E]]]]|[l [m [n [Ei [_ [_ E]]]]]]]]; rewrite E in H; inversion H; subst.
  - split; assumption.
  - unfold exact; cbn [items qlen qstl]. rewrite Ei, app_length in Hl. rewrite Ei, count_stl_app in Hs. cbn [length count_stl] in *.
    unfold b2z. destruct (stl n); lia.
  - unfold exact; cbn [items qlen qstl]. rewrite Ei, app_length in Hl. rewrite Ei, count_stl_app in Hs.
    rewrite app_length, count_stl_app. cbn [length count_stl] in *. unfold b2z. destruct (stl m), (stl n); lia.
Qed.

Lemma dequeue_steal_cnt : forall c lk v s v', exact v -> dequeue_steal c lk v = (s, v') ->
  forall t, (cnt t (items v') + cnt t s = cnt t (items v))%nat.
Proof.
  intros c lk v s v' Hex H t. destruct lk; [cbn in H; inversion H; subst; cbn [cnt]; lia|].
  destruct (Z_lt_le_dec 0 (desired c v)) as [Hd|Hd].
  - rewrite (dequeue_steal_spec c v Hex Hd) in H.
    destruct (take_stl (Z.to_nat (desired c v)) (items v)) as [kp s0] eqn:E. inversion H; subst. cbn [items].
    rewrite <- (cnt_perm t _ _ (take_stl_perm _ _ _ _ E)), cnt_app. reflexivity.
  - unfold dequeue_steal in H. assert (Hd' : (0 <? desired c v) = false) by lia. rewrite Hd', andb_false_r in H.
    inversion H; subst. cbn [cnt]. lia.
Qed.

(* moving a stolen chain from victim v to thief h (any h, v, also h = v) *)
Lemma conserv_steal_move : forall st c lk v h stolen vq' keep surplus,
  (v < nsheps st)%nat -> (h < nsheps st)%nat -> sys_exact st ->
  dequeue_steal c lk (getq st v) = (stolen, vq') ->
  stolen = keep ++ surplus ->
  conserv st (let st1 := setq st v vq' in setq st1 h (enqueue_multiple (getq st1 h) surplus)) keep.
Proof.
  intros st c lk v h stolen vq' keep surplus Hv Hh Hex Hds Hsplit.
  pose proof (exact_getq st v Hex) as Hexv.
  destruct (exact_dequeue_steal _ _ _ _ _ Hexv Hds) as [Hexv' Hall].
  pose proof (dequeue_steal_cnt _ _ _ _ _ Hexv Hds) as Hcnt.
  assert (Hsur : Forall (fun n => stl n = true) surplus).
  { subst stolen. apply Forall_app in Hall. tauto. }
  cbv zeta.
  assert (C1 : conserv st (setq st v vq') stolen).
  { apply conserv_setq; auto. }
  assert (Hh1 : (h < nsheps (setq st v vq'))%nat) by (rewrite nsheps_setq; exact Hh).
  assert (C2 : forall t, (cntq t (queues (setq (setq st v vq') h (enqueue_multiple (getq (setq st v vq') h) surplus)))
                          = cntq t (queues (setq st v vq')) + cnt t surplus)%nat).
  { intros t. pose proof (cntq_setq t (setq st v vq') h (enqueue_multiple (getq (setq st v vq') h) surplus) Hh1) as E.
    assert (Hi : cnt t (items (enqueue_multiple (getq (setq st v vq') h) surplus)) =
                 (cnt t (items (getq (setq st v vq') h)) + cnt t surplus)%nat).
    { destruct surplus as [|x tl]; cbn [enqueue_multiple items]; [cbn [cnt]; lia|]. apply cnt_app. }
    lia. }
  destruct C1 as [N1 [E1 K1]].
  split; [rewrite nsheps_setq; exact N1|]. split.
  - intros _. apply sys_exact_setq; [apply E1; exact Hex|].
    apply exact_enqueue_multiple; [apply exact_getq; apply E1; exact Hex | exact Hsur].
  - intros t. rewrite C2. specialize (K1 t). subst stolen. rewrite cnt_app in K1. lia.
Qed.

Lemma steal_loop_conserv : forall fuel i st s mask,
  (s < nsheps st)%nat -> sys_exact st ->
  match steal_loop fuel i st s mask with
  | SGot n st' => conserv st st' [n]
  | SNone st' => st' = st
  | SSpin st' => st' = st
  end.
Proof.
  induction fuel as [|f IH]; intros i st s mask Hs Hex; cbn [steal_loop]; [reflexivity|].
  set (v := nth i (nth s (sorted st) []) O).
  destruct (qstl (getq st v) =? 0) eqn:Eq.
  - destruct ((0 <? qlen (getq st s)) || disable st); [reflexivity|]. apply IH; assumption.
  - destruct (dequeue_steal (chunk st) (nth v mask false) (getq st v)) as [stolen vq'] eqn:Eds.
    destruct stolen as [|first surplus].
    + destruct ((0 <? qlen (getq st s)) || disable st); [reflexivity|]. apply IH; assumption.
    + assert (Hv : (v < nsheps st)%nat).
      { destruct (Nat.lt_ge_cases v (nsheps st)) as [H|H]; [exact H|].
        rewrite (getq_out st v H) in Eq. cbn in Eq. discriminate. }
      pose proof (conserv_steal_move st (chunk st) (nth v mask false) v s (first :: surplus) vq' [first] surplus
                    Hv Hs Hex Eds eq_refl) as C.
      cbv zeta in C. destruct surplus as [|x tl].
      * (* no surplus: enqueue_multiple of [] is the identity but the model does not even call it *)
        cbn [enqueue_multiple] in C.
        destruct C as [N1 [E1 K1]].
        pose proof (exact_getq st v Hex) as Hexv.
        destruct (exact_dequeue_steal _ _ _ _ _ Hexv Eds) as [Hexv' _].
        pose proof (dequeue_steal_cnt _ _ _ _ _ Hexv Eds) as Hcnt.
        apply conserv_setq; auto.
      * exact C.
Qed.

Lemma qsteal_conserv : forall st s mask,
  (s < nsheps st)%nat -> sys_exact st ->
  match qsteal st s mask with
  | SGot n st' => conserv st st' [n]
  | SNone st' => conserv st st' []
  | SSpin st' => conserv st st' []
  end.
Proof.
  intros st s mask Hs Hex. unfold qsteal.
  destruct (negb (getst st s =? 0)); [apply conserv_refl|].
  pose proof (steal_loop_conserv (Nat.max 1 (nsheps st - 1)) O (setst st s 1) s mask Hs Hex) as H.
  destruct (steal_loop (Nat.max 1 (nsheps st - 1)) O (setst st s 1) s mask) as [n st2|st2|st2].
  - apply (conserv_trans st (setst st s 1) (setst st2 s 0) [] [n]); [apply conserv_setst|].
    apply (conserv_trans (setst st s 1) st2 (setst st2 s 0) [n] []) in H; [|apply conserv_setst].
    rewrite app_nil_r in H. exact H.
  - subst st2. apply (conserv_trans st (setst st s 1) _ [] []); apply conserv_setst.
  - subst st2. apply conserv_setst.
Qed.

Definition got_nodes (r : get_res) : list node := match r with GGot n => [n] | _ => [] end.

Lemma finish_node_conserv : forall st s w n, (s < nsheps st)%nat ->
  match finish_node st s w n with
  | FDone r st' => r = GGot n /\ conserv st st' []
  | FCont st' => conserv st st' [] /\ False \/ (forall t, (cntq t (queues st') = cntq t (queues st) + cnt t [n])%nat) /\
                 nsheps st' = nsheps st /\ (sys_exact st -> sys_exact st')
  end.
Proof.
  intros st s w n Hs. unfold finish_node. destruct (mccoy n).
  - destruct w.
    + split; [reflexivity|]. destruct (negb (getst st s =? 0)); [apply conserv_setst | apply conserv_refl].
    + right. split; [|split].
      * intros t. pose proof (cntq_setq t (setst st s 2) s (enqueue_yielded (getq (setst st s 2) s) n) Hs) as E.
        cbn [enqueue_yielded items cnt] in E. cbn [cnt].
        replace (cntq t (queues (setst st s 2))) with (cntq t (queues st)) in E by reflexivity.
        set (x := if N.eqb (tid n) t then 1%nat else 0%nat) in *. lia.
      * rewrite nsheps_setq. reflexivity.
      * intros Hex. apply sys_exact_setq; [exact Hex|]. apply exact_enqueue_yielded. apply (exact_getq (setst st s 2)). exact Hex.
  - split; [reflexivity | apply conserv_refl].
Qed.

Lemma get_loop_conserv : forall fuel st s w a r st',
  (s < nsheps st)%nat -> sys_exact st -> get_loop fuel st s w a = (r, st') -> conserv st st' (got_nodes r) /\ sys_exact st'.
Proof.
  induction fuel as [|f IH]; intros st s w a r st' Hs Hex H; cbn [get_loop] in H.
  - inversion H; subst. split; [apply conserv_refl | exact Hex].
  - (* the node in hand, and the state with it removed *)
    assert (Hfin : forall st1 n r st', (s < nsheps st1)%nat -> sys_exact st1 ->
               match finish_node st1 s w n with
               | FDone r0 st2 => (r0, st2)
               | FCont st2 => get_loop f st2 s w a
               end = (r, st') ->
               (forall t, (cntq t (queues st') + cnt t (got_nodes r) = cntq t (queues st1) + cnt t [n])%nat) /\
               nsheps st' = nsheps st1 /\ sys_exact st').
    { intros st1 n r0 st0 Hs1 Hex1 H1. pose proof (finish_node_conserv st1 s w n Hs1) as F.
      destruct (finish_node st1 s w n) as [r1 st2|st2].
      - destruct F as [Er [N [E K]]]. inversion H1; subst. cbn [got_nodes]. repeat split; auto.
        intros t. specialize (K t). cbn [cnt] in *. lia.
      - destruct F as [[_ []]|[K [N E]]].
        assert (Hs2 : (s < nsheps st2)%nat) by (rewrite N; exact Hs1).
        destruct (IH st2 s w a r0 st0 Hs2 (E Hex1) H1) as [[N2 [E2 K2]] X2].
        repeat split; [|congruence|exact X2]. intros t. specialize (K t). specialize (K2 t). lia. }
    (* first the own queue: (node1, st1) *)
    set (pr := match items (getq st s) with
               | [] => (None, st)
               | _ :: _ => let '(o, q') := dequeue_worker (getq st s) w in (o, setq st s q')
               end) in H.
    assert (Hpr : (s < nsheps (snd pr))%nat /\ sys_exact (snd pr) /\ nsheps (snd pr) = nsheps st /\
                  forall t, (cntq t (queues (snd pr)) + cnt t (match fst pr with Some n => [n] | None => [] end) = cntq t (queues st))%nat).
    { unfold pr. destruct (items (getq st s)) as [|x xs].
      - cbn [fst snd cnt]. repeat split; auto.
      - destruct (dequeue_worker (getq st s) w) as [o q'] eqn:Ed. cbn [fst snd].
        pose proof (dequeue_worker_cnt _ _ _ _ Ed) as Hc.
        pose proof (exact_dequeue_worker _ _ _ _ (exact_getq st s Hex) Ed) as Hq'.
        rewrite nsheps_setq. repeat split; auto; [apply sys_exact_setq; assumption|].
        intros t. specialize (Hc t). pose proof (cntq_setq t st s q' Hs). lia. }
    destruct pr as [node1 st1]. cbn [fst snd] in Hpr. destruct Hpr as [Hs1 [Hex1 [N1 K1]]].
    destruct node1 as [n|].
    + destruct (Hfin st1 n r st' Hs1 Hex1 H) as [K2 [N2 X2]].
      split; [|exact X2]. split; [congruence|]. split; [auto|].
      intros t. specialize (K2 t). specialize (K1 t). cbn [cnt] in *. lia.
    + assert (Hstay : conserv st st1 [] /\ sys_exact st1).
      { split; [|exact Hex1]. split; [exact N1|]. split; [auto|]. intros t. specialize (K1 t). cbn [cnt] in *. lia. }
      destruct (negb (getst st1 s =? 0)); [inversion H; subst; exact Hstay|].
      destruct (a && (1 <? nsheps st1)%nat); [|inversion H; subst; exact Hstay].
      destruct (disable st1); [inversion H; subst; exact Hstay|].
      pose proof (qsteal_conserv st1 s [] Hs1 Hex1) as Q.
      destruct (qsteal st1 s []) as [n st2|st2|st2].
      * destruct Q as [N [E K]].
        assert (Hs2 : (s < nsheps st2)%nat) by (rewrite N; exact Hs1).
        destruct (Hfin st2 n r st' Hs2 (E Hex1) H) as [K2 [N2 X2]].
        split; [|exact X2]. split; [congruence|]. split; [auto|].
        intros t. specialize (K t). specialize (K2 t). specialize (K1 t). cbn [cnt] in *. lia.
      * inversion H; subst. destruct Q as [N [E K]]. split; [|auto]. split; [congruence|]. split; [auto|].
        intros t. specialize (K t). specialize (K1 t). cbn [got_nodes cnt] in *. lia.
      * inversion H; subst. destruct Q as [N [E K]]. split; [|auto]. split; [congruence|]. split; [auto|].
        intros t. specialize (K t). specialize (K1 t). cbn [got_nodes cnt] in *. lia.
Qed.

(* nodes that enter / leave the system by one operation *)
Definition added (st : sys) (o : op) : list node :=
  match o with
  | OEnq s n | OEnqY s n => if valid st s then [n] else []
  | _ => []
  end.
Definition removed (o : op) (r : res) : list node :=
  match o, r with
  | OGet _ _ _, RNode (Some n) => [n]
  | OSteal _ _, RNode (Some n) => [n]
  | _, _ => []
  end.

Lemma valid_lt : forall st s, valid st s = true -> (s < nsheps st)%nat.
Proof. intros st s H. unfold valid in H. apply Nat.ltb_lt in H. exact H. Qed.

Lemma step_conserv : forall st o st' r,
  sys_exact st -> step st o = (st', r) ->
  nsheps st' = nsheps st /\ sys_exact st' /\
  forall t, (cntq t (queues st') + cnt t (removed o r) = cntq t (queues st) + cnt t (added st o))%nat.
Proof.
  intros st o st' r Hex H.
  assert (Hid : forall o', st' = st -> removed o' r = [] -> added st o' = [] ->
     nsheps st' = nsheps st /\ sys_exact st' /\
     forall t, (cntq t (queues st') + cnt t (removed o' r) = cntq t (queues st) + cnt t (added st o'))%nat).
  { intros o' E R A. subst st'. rewrite R, A. repeat split; auto. }
  destruct o as [s n|s n|s w a|h v lk|s mask|s val|s v|c|b]; cbn [step] in H.
  - (* OEnq *)
    cbn [added removed]. destruct (valid st s) eqn:V; [|inversion H; subst; repeat split; auto].
    apply valid_lt in V. inversion H; subst. split; [apply nsheps_setq|]. split.
    + apply sys_exact_setq; [exact Hex|]. apply exact_enqueue, exact_getq, Hex.
    + intros t. pose proof (cntq_setq t st s (enqueue (getq st s) n) V) as E. cbn [enqueue items] in E. rewrite cnt_app in E.
      cbn [cnt] in *. lia.
  - (* OEnqY *)
    cbn [added removed]. destruct (valid st s) eqn:V; [|inversion H; subst; repeat split; auto].
    apply valid_lt in V. inversion H; subst. split; [apply nsheps_setq|]. split.
    + apply sys_exact_setq; [exact Hex|]. apply exact_enqueue_yielded, exact_getq, Hex.
    + intros t. pose proof (cntq_setq t st s (enqueue_yielded (getq st s) n) V) as E. cbn [enqueue_yielded items cnt] in E.
      cbn [cnt] in *. lia.
  - (* OGet *)
    cbn [added]. destruct (valid st s) eqn:V; [|inversion H; subst; repeat split; auto].
    apply valid_lt in V.
    destruct (get_thread st s w a) as [g st2] eqn:G.
    assert (C : conserv st st2 (got_nodes g) /\ sys_exact st2).
    { unfold get_thread in G. destruct w.
      - eapply get_loop_conserv; eassumption.
      - destruct ((1 <? length (items (getq st s)))%nat && all_mccoy (getq st s)).
        + inversion G; subst. split; [apply conserv_refl | exact Hex].
        + eapply get_loop_conserv; eassumption. }
    destruct C as [[N [_ K]] X].
    destruct g; inversion H; subst; cbn [removed got_nodes cnt] in *; repeat split; auto; intros t; specialize (K t); cbn [cnt] in *; lia.
  - (* ODeqSteal *)
    cbn [added]. destruct (valid st h && valid st v) eqn:V; [|inversion H; subst; repeat split; auto].
    apply andb_prop in V. destruct V as [Vh Vv]. apply valid_lt in Vh. apply valid_lt in Vv.
    destruct (dequeue_steal (chunk st) lk (getq st v)) as [stolen vq'] eqn:Eds.
    pose proof (conserv_steal_move st (chunk st) lk v h stolen vq' [] stolen Vv Vh Hex Eds eq_refl) as C.
    cbv zeta in C. inversion H; subst. destruct C as [N [E K]].
    cbn [removed]. repeat split; auto. intros t. specialize (K t). cbn [cnt] in *. lia.
  - (* OSteal *)
    cbn [added]. destruct (valid st s && (1 <? nsheps st)%nat) eqn:V; [|inversion H; subst; repeat split; auto].
    apply andb_prop in V. destruct V as [Vs _]. apply valid_lt in Vs.
    pose proof (qsteal_conserv st s mask Vs Hex) as Q.
    destruct (qsteal st s mask) as [n st2|st2|st2]; inversion H; subst; destruct Q as [N [E K]];
      cbn [removed]; repeat split; auto; intros t; specialize (K t); cbn [cnt] in *; lia.
  - (* OSpecific *)
    cbn [added]. destruct (valid st s) eqn:V; [|inversion H; subst; repeat split; auto].
    apply valid_lt in V.
    destruct (dequeue_specific (getq st s) val) as [o q'] eqn:Ed. inversion H; subst.
    destruct (dequeue_specific_perm _ _ _ _ Ed) as [Hp _].
    cbn [removed]. split; [apply nsheps_setq|]. split.
    + apply sys_exact_setq; [exact Hex|]. eapply exact_dequeue_specific; [apply exact_getq, Hex | exact Ed].
    + intros t. pose proof (cntq_setq t st s q' V) as E. rewrite (cnt_perm t _ _ Hp) in E.
      destruct o; cbn [cnt]; lia.
  - (* OSetStealing *)
    cbn [added]. destruct (valid st s); inversion H; subst; repeat split; auto.
  - inversion H; subst. repeat split; auto.
  - inversion H; subst. repeat split; auto.
Qed.

Fixpoint run_added (st : sys) (ops : list op) : list node :=
  match ops with [] => [] | o :: tl => added st o ++ run_added (fst (step st o)) tl end.
Fixpoint run_removed (st : sys) (ops : list op) : list node :=
  match ops with [] => [] | o :: tl => removed o (snd (step st o)) ++ run_removed (fst (step st o)) tl end.

Lemma run_fst : forall ops st, fst (run st (ops)) =
  match ops with [] => st | o :: tl => fst (run (fst (step st o)) tl) end.
Proof. destruct ops as [|o tl]; intros st; cbn [run]; [reflexivity|]. destruct (step st o) as [s1 r]. cbn [fst]. destruct (run s1 tl). reflexivity. Qed.

Theorem counts_exact_run : forall ops st, sys_exact st -> sys_exact (fst (run st ops)).
Proof.
  induction ops as [|o tl IH]; intros st Hex; rewrite run_fst; [exact Hex|].
  destruct (step st o) as [s1 r] eqn:E. cbn [fst]. apply IH.
  destruct (step_conserv st o s1 r Hex E) as [_ [X _]]. exact X.
Qed.

Theorem conservation_run : forall ops st, sys_exact st ->
  forall t, (cntq t (queues (fst (run st ops))) + cnt t (run_removed st ops) = cntq t (queues st) + cnt t (run_added st ops))%nat.
Proof.
  induction ops as [|o tl IH]; intros st Hex t; rewrite run_fst; cbn [run_removed run_added]; [cbn [cnt]; lia|].
  destruct (step st o) as [s1 r] eqn:E. cbn [fst snd].
  destruct (step_conserv st o s1 r Hex E) as [_ [X K]].
  specialize (IH s1 X t). specialize (K t). rewrite !cnt_app. lia.
Qed.

Lemma sys_exact_init : forall n c, sys_exact (init_sys n c).
Proof. intros n c. unfold sys_exact, init_sys; cbn [queues]. apply Forall_forall. intros q Hq. apply repeat_spec in Hq. subst. apply exact_empty. Qed.
